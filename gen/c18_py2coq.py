#!/usr/bin/env python3
"""C18's translator: fail-closed translation (Python `ast` -> Gallina) of the LOOP SKELETONS of the effective-Lindbladian code, with
the numpy / scipy.sparse products as opaque primitives of the vocabulary coq/theories/Model/C18_PySem.v.
        usage: c18_py2coq.py <repo> <out.v>

Translated on every run from the CURRENT source:
  quara/objects/effective_lindbladian.py   EffectiveLindbladian.calc_h_mat / calc_j_mat / calc_k_mat
        -> gen_calc_h_mat, gen_calc_j_mat, gen_calc_k_mat : nat -> list cmat -> cmat -> cmat        (dim, basis, L_cb)
                                           generate_j_part_cb_from_jump_operators / generate_k_part_cb_.. / generate_d_part_cb_..
        -> gen_j_part_cb, gen_k_part_cb, gen_d_part_cb : nat -> list cmat -> cmat                     (dim, jump_operators)
  quara/objects/composite_system.py        CompositeSystem._calc_basis_basisconjugate_sparse
  quara/objects/effective_lindbladian.py   _calc_j_mat_from_k_mat_with_sparsity / _calc_k_part_from_k_mat_with_sparsity
        -> gen_j_of_k_sparse, gen_k_part_sparse : nat -> cmat -> cmat -> cmat  (dim, the table as an opaque matrix, k_mat) with `k_mat.flatten()` = the
           ROW-MAJOR vectorisation (vecr) whatever the memory layout and `.reshape((a, a))` = unvecr;  gen_sparse_tables : which helper reads which table
  quara/objects/effective_lindbladian.py   _calc_h_part_from_h_mat / _calc_j_part_from_j_mat  -> gen_h_part, gen_j_part : nat -> cmat -> cmat
                                           generate_hs_from_hjk / _hk / _h / _k  -> gen_lcb_hjk / _hk / _h / _k : nat -> Tj -> Tk -> matrices -> cmat : the
           computational-basis generator that is handed to convert_hs(., c_sys.comp_basis(), c_sys.basis()) and then to
           _truncate_hs(., eps_truncate_imaginary_part) (that post-processing is REQUIRED structurally), built from the translated helpers
           (the wrappers _calc_k_part_from_k_mat / _calc_j_mat_from_k_mat must forward to the *_with_sparsity helpers);
           gen_lcb_*_checks : the _check_X_mat(X, dim) calls in call order
  quara/objects/effective_lindbladian.py   EffectiveLindbladian.calc_proj_ineq_constraint
        -> gen_proj_ineq_kmat : nat -> list F -> cmat -> cmat   (dim, eigenvals, eigenvecs = the two results of the OPAQUE numpy.linalg.eigh(k_mat)):
           the clipping loop and V diag(l) V^dagger;  gen_proj_ineq_args : which of h_mat / j_mat / k_mat / the new matrix are handed to
           generate_effective_lindbladian_from_hjk (every keyword must be forwarded from self)
  quara/objects/composite_system.py        CompositeSystem._calc_basis_basisconjugate_sparse
        -> gen_tab_0, gen_tab_1, gen_tab_2 : nat -> list cmat -> list cmat    (dim, basis) the lists the loop builds, numbered in order of
           first append;  gen_tab_wiring : list (string * (nat * string))      which attribute is made from which list by which final operation
coq/gen/C18_Equiv.v (compiled in the same run) proves these equal to the hand-written model for ALL inputs.

Static types (the TABLE below is part of the trusted base):  N nat | R real scalar | C complex scalar | Md d x d matrix | Mn d^2 x d^2 matrix |
Mm (d^2-1) x (d^2-1) matrix | L[T] list | B bool.   A matrix is a function nat -> nat -> complex; sizes are supplied by the types.
ABSTRACTIONS (assumptions of the tie, stated in the manifest):
  * `self.composite_system.basis()` / `copy.deepcopy(self._total_basis.basis)` is the parameter `basis` (list of d x d matrices),
    `convert_hs(self.hs, basis, comp_basis)` the parameter `L_cb`, `self.dim` / `jump_operators[0].shape[0]` the parameter `dim`,
    `len(self._total_basis.basis)` is `length basis`;
  * `X.reshape(1, <size>)` (row vector of the row-major flattening) is the identity on the abstract matrix, `format="csr"` / `dtype=` have no
    meaning; the flattening and the vstack / reshape / T / conjugate that turn a list into a table are reported as WIRING only
    (their numerical meaning is checked entrywise by the `tables` sub-check);
  * a list that is only ever extended by `.append(e)` with `e` and the guarding conditions free of accumulators equals
    init ++ flat_map (items appended in one iteration, in program order) over the iteration list   (slicing of append-only accumulators);
  * variables that are never read are dropped (their right-hand sides must be in the pure expression subset or one of the opaque size forms).
Anything outside the subset raises Unsupported (exit 3): the tie is reported broken, never silently skipped.
"""
import ast, sys, os


class Unsupported(Exception):
    pass


def fail(node, msg):
    raise Unsupported("%s (line %s): %s" % (type(node).__name__, getattr(node, "lineno", "?"), msg))


N, R, C, MD, MN, MM, BOOL, OPAQUE = "N", "R", "C", "Md", "Mn", "Mm", "B", "OPAQUE"


def L(t):
    return ("L", t)


def is_list(t):
    return isinstance(t, tuple) and t[0] == "L"


def src(node):
    return ast.dump(node, annotate_fields=False)


def is_attr_chain(node, chain):
    """node is NAME.a.b.c with chain = ['NAME','a','b','c']"""
    for name in reversed(chain[1:]):
        if not (isinstance(node, ast.Attribute) and node.attr == name):
            return False
        node = node.value
    return isinstance(node, ast.Name) and node.id == chain[0]


def is_call(node, chain, nargs=None):
    return isinstance(node, ast.Call) and is_attr_chain(node.func, chain) and (nargs is None or (len(node.args) == nargs and not node.keywords))


class Fn:
    """translation context of one function"""

    def __init__(self, name, params, translated):
        self.name = name
        self.env = {}            # python name -> (type, coq expr)
        self.params = params     # coq parameter list [(name, coqtype)]
        self.translated = translated      # module functions already translated: pyname -> (coqname, rettype)
        self.used_opaque = set()
        self.sparse_helper = False   # translating one of the _calc_*_from_k_mat_with_sparsity helpers
        self.tables_used = []

    # ------------------------------------------------------------------------------------------ expressions
    def to_R(self, t, e, node):
        if t == R:
            return e
        if t == N:
            return "(ofnat %s)" % e
        fail(node, "expected a real scalar, got %s" % (t,))

    def to_C(self, t, e, node):
        if t == C:
            return e
        return "(rc %s)" % self.to_R(t, e, node)

    def expr(self, node):
        """returns (type, coq)"""
        if isinstance(node, ast.Constant):
            v = node.value
            if isinstance(v, bool) or v is None:
                fail(node, "constant %r" % (v,))
            if isinstance(v, int) and v >= 0:
                return N, "%d%%nat" % v
            if isinstance(v, complex) and v == 1j:
                return C, "ci"
            fail(node, "constant %r" % (v,))
        if isinstance(node, ast.Name):
            if node.id not in self.env:
                fail(node, "unknown name %s" % node.id)
            t, e = self.env[node.id]
            if t == OPAQUE:
                fail(node, "opaque value %s used in an expression" % node.id)
            return t, e
        if is_attr_chain(node, ["self", "dim"]) or (self.sparse_helper and is_attr_chain(node, ["c_sys", "dim"])):
            return N, "dim"
        if isinstance(node, ast.UnaryOp) and isinstance(node.op, ast.USub):
            t, e = self.expr(node.operand)
            if t in (N, R):
                return R, "(ropp %s)" % self.to_R(t, e, node)
            if t == C:
                return C, "(copp Cx %s)" % e
            fail(node, "unary minus on %s" % (t,))
        if isinstance(node, ast.BinOp):
            return self.binop(node)
        if isinstance(node, ast.IfExp):
            c = self.cond(node.test)
            t1, e1 = self.expr(node.body); t2, e2 = self.expr(node.orelse)
            if t1 != t2:
                fail(node, "branches of different types")
            return t1, "(if %s then %s else %s)" % (c, e1, e2)
        if isinstance(node, ast.Subscript) and isinstance(node.slice, ast.Constant) and node.slice.value == 0 and isinstance(node.value, ast.Attribute) \
                and node.value.attr == "shape" and isinstance(node.value.value, ast.Name) and self.env.get(node.value.value.id, (None,))[0] == MD:
            return N, "dim"                                  # X.shape[0] of a d x d matrix
        if isinstance(node, ast.Subscript):
            return self.subscript(node)
        if isinstance(node, ast.Attribute) and node.attr == "T":
            # only as conjugate transpose:  X.conj().T
            inner = node.value
            if isinstance(inner, ast.Call) and isinstance(inner.func, ast.Attribute) and inner.func.attr in ("conj", "conjugate") and not inner.args and not inner.keywords:
                t, e = self.expr(inner.func.value)
                if t in (MD, MN, MM):
                    return t, "(cadj %s)" % e
            fail(node, "plain transpose is outside the subset")
        if isinstance(node, ast.ListComp):
            if len(node.generators) != 1 or node.generators[0].ifs or node.generators[0].is_async:
                fail(node, "comprehension shape")
            g = node.generators[0]
            if not isinstance(g.target, ast.Name):
                fail(node, "comprehension target")
            tl, el = self.expr(g.iter)
            if not is_list(tl):
                fail(node, "comprehension over a non-list")
            saved = self.env.get(g.target.id)
            self.env[g.target.id] = (tl[1], g.target.id + "_")
            t, e = self.expr(node.elt)
            if saved is None:
                del self.env[g.target.id]
            else:
                self.env[g.target.id] = saved
            return L(t), "(map (fun %s_ => %s) %s)" % (g.target.id, e, el)
        if isinstance(node, ast.Call):
            return self.call(node)
        fail(node, "expression outside the subset")

    def binop(self, node):
        t1, e1 = self.expr(node.left); t2, e2 = self.expr(node.right)
        op = node.op
        mats = (MD, MN, MM)
        if isinstance(op, ast.MatMult):
            if t1 == t2 and t1 in mats:
                return t1, "(mmul %s %s %s)" % ({MD: "dim", MN: "(dim * dim)", MM: "(dim * dim - 1)"}[t1], e1, e2)
            fail(node, "@ on %s, %s" % (t1, t2))
        if isinstance(op, (ast.Add, ast.Sub)):
            if t1 == t2 and t1 in mats:
                return t1, "(%s %s %s)" % ("madd" if isinstance(op, ast.Add) else "msub", e1, e2)
            if t1 == N and t2 == N and isinstance(op, ast.Add):
                return N, "(%s + %s)%%nat" % (e1, e2)
            if t1 in (N, R) and t2 in (N, R):
                return R, "(%s %s %s)" % ("radd" if isinstance(op, ast.Add) else "rsub", self.to_R(t1, e1, node), self.to_R(t2, e2, node))
            if t1 in (N, R, C) and t2 in (N, R, C):
                return C, "(%s Cx %s %s)" % ("cadd" if isinstance(op, ast.Add) else "csub", self.to_C(t1, e1, node), self.to_C(t2, e2, node))
            fail(node, "+/- on %s, %s" % (t1, t2))
        if isinstance(op, ast.Mult):
            if t1 == N and t2 == N:
                return N, "(%s * %s)%%nat" % (e1, e2)
            if t1 in (N, R) and t2 in (N, R):
                return R, "(rmul %s %s)" % (self.to_R(t1, e1, node), self.to_R(t2, e2, node))
            if t1 in (N, R, C) and t2 in (N, R, C):
                return C, "(cmul Cx %s %s)" % (self.to_C(t1, e1, node), self.to_C(t2, e2, node))
            if t1 in (N, R, C) and t2 in mats:
                return t2, "(mscale %s %s)" % (self.to_C(t1, e1, node), e2)
            if t2 in (N, R, C) and t1 in mats:
                return t1, "(mscale %s %s)" % (self.to_C(t2, e2, node), e1)
            fail(node, "* on %s, %s" % (t1, t2))
        if isinstance(op, ast.Div):
            if t1 in (N, R) and t2 in (N, R):
                return R, "(rdiv %s %s)" % (self.to_R(t1, e1, node), self.to_R(t2, e2, node))
            if t1 == C and t2 in (N, R):
                return C, "(cdivr %s %s)" % (e1, self.to_R(t2, e2, node))
            fail(node, "/ on %s, %s" % (t1, t2))
        fail(node, "operator outside the subset")

    def cond(self, node):
        if isinstance(node, ast.BoolOp) and isinstance(node.op, ast.And):
            return "(" + " && ".join(self.cond(v) for v in node.values) + ")"
        if isinstance(node, ast.Compare) and len(node.ops) == 1 and isinstance(node.ops[0], (ast.Eq, ast.NotEq)):
            t1, e1 = self.expr(node.left); t2, e2 = self.expr(node.comparators[0])
            if t1 != N or t2 != N:
                fail(node, "comparison of non-integers")
            c = "(Nat.eqb %s %s)" % (e1, e2)
            return c if isinstance(node.ops[0], ast.Eq) else "(negb %s)" % c
        fail(node, "condition outside the subset")

    def subscript(self, node):
        sl = node.slice
        if isinstance(sl, ast.Slice):
            if sl.upper is None and sl.step is None and isinstance(sl.lower, ast.Constant) and isinstance(sl.lower.value, int) and sl.lower.value >= 0:
                t, e = self.expr(node.value)
                if is_list(t):
                    return t, "(skipn %d %s)" % (sl.lower.value, e)
            fail(node, "slice outside the subset")
        t, e = self.expr(node.value)
        ti, ei = self.expr(sl)
        if is_list(t) and ti == N and t[1] in (MD, MN, MM):
            return t[1], "(mnth %s %s)" % (e, ei)
        fail(node, "subscript outside the subset")

    def call(self, node):
        f = node.func
        if self.sparse_helper and isinstance(f, ast.Attribute) and not node.keywords:
            # K.flatten()  (ALWAYS row-major, whatever the memory layout)  ->  vecr
            if f.attr == "flatten" and not node.args:
                t, e = self.expr(f.value)
                if t == MM:
                    return "Vm2", "(vecr (dim * dim - 1) %s)" % e
                fail(node, "flatten of %s" % (t,))
            # c_sys.<table>.dot(v)  ->  mv with the table as an opaque matrix parameter
            if f.attr == "dot" and len(node.args) == 1 and isinstance(f.value, ast.Attribute) and isinstance(f.value.value, ast.Name) and f.value.value.id == "c_sys":
                t, e = self.expr(node.args[0])
                if t != "Vm2":
                    fail(node, "table.dot of %s" % (t,))
                self.tables_used.append(f.value.attr)
                return "Vout", "(mv ((dim * dim - 1) * (dim * dim - 1)) T %s)" % e
            # v.reshape((c_sys.dim, c_sys.dim)) / v.reshape((c_sys.dim ** 2, c_sys.dim ** 2))  ->  unvecr (row-major)
            if f.attr == "reshape" and len(node.args) == 1 and isinstance(node.args[0], ast.Tuple) and len(node.args[0].elts) == 2:
                a, b = node.args[0].elts
                t, e = self.expr(f.value)
                if t != "Vout" or src(a) != src(b):
                    fail(node, "reshape outside the subset")
                if is_attr_chain(a, ["c_sys", "dim"]):
                    return MD, "(unvecr dim %s)" % e
                if isinstance(a, ast.BinOp) and isinstance(a.op, ast.Pow) and is_attr_chain(a.left, ["c_sys", "dim"]) and isinstance(a.right, ast.Constant) and a.right.value == 2:
                    return MN, "(unvecr (dim * dim) %s)" % e
                fail(node, "reshape target outside the subset")
        # X.T.conj() : conjugate transpose
        if isinstance(f, ast.Attribute) and f.attr in ("conj", "conjugate") and not node.args and not node.keywords \
                and isinstance(f.value, ast.Attribute) and f.value.attr == "T":
            t, e = self.expr(f.value.value)
            if t in (MD, MN, MM):
                return t, "(cadj %s)" % e
            fail(node, "conjugate transpose of %s" % (t,))
        # X.conj() / X.conjugate() / np.conjugate(X)
        if isinstance(f, ast.Attribute) and f.attr in ("conj", "conjugate") and not node.args and not node.keywords and not is_attr_chain(f, ["np", "conjugate"]):
            t, e = self.expr(f.value)
            if t in (MD, MN, MM):
                return t, "(cconj %s)" % e
            fail(node, "conj of %s" % (t,))
        if is_call(node, ["np", "conjugate"], 1):
            t, e = self.expr(node.args[0])
            if t in (MD, MN, MM):
                return t, "(cconj %s)" % e
            fail(node, "np.conjugate of %s" % (t,))
        if isinstance(f, ast.Attribute) and f.attr == "reshape" and len(node.args) == 2 and not node.keywords \
                and isinstance(node.args[0], ast.Constant) and node.args[0].value == 1 and isinstance(node.args[1], ast.Name) \
                and self.env.get(node.args[1].id, (None,))[0] == OPAQUE:
            t, e = self.expr(f.value)
            if t in (MD, MN):
                self.used_opaque.add(node.args[1].id)
                return t, e                                    # ABSTRACTION: row-major flattening to a row vector
            fail(node, "reshape of %s" % (t,))
        if (is_attr_chain(f, ["mutil", "kron"]) or is_attr_chain(f, ["sparse", "kron"])) and len(node.args) == 2:
            for kw in node.keywords:
                if not (kw.arg == "format" and isinstance(kw.value, ast.Constant) and kw.value.value == "csr"):
                    fail(node, "kron keyword")
            if is_attr_chain(f, ["mutil", "kron"]) and node.keywords:
                fail(node, "kron keyword")
            t1, e1 = self.expr(node.args[0]); t2, e2 = self.expr(node.args[1])
            if t1 == MD and t2 == MD:
                return MN, "(kron dim dim %s %s)" % (e1, e2)
            fail(node, "kron of %s, %s" % (t1, t2))
        if is_call(node, ["np", "trace"], 1):
            t, e = self.expr(node.args[0])
            if t in (MD, MN, MM):
                return C, "(mtrace %s %s)" % ({MD: "dim", MN: "(dim * dim)", MM: "(dim * dim - 1)"}[t], e)
            fail(node, "trace of %s" % (t,))
        if is_call(node, ["np", "diag"], 1):
            t, e = self.expr(node.args[0])
            if t == "RL":
                return MM, "(np_diag %s)" % e
            fail(node, "np.diag of %s" % (t,))
        if is_call(node, ["np", "eye"], 1):
            t, e = self.expr(node.args[0])
            if t == N and e == "dim":
                return MD, "(@mid Cx)"
            fail(node, "np.eye of something else than the dimension")
        if isinstance(f, ast.Name) and f.id == "reduce" and len(node.args) == 2 and not node.keywords and isinstance(node.args[0], ast.Name) and node.args[0].id == "add":
            t, e = self.expr(node.args[1])
            if is_list(t) and t[1] in (MD, MN):
                return t[1], "(reduce_add %s)" % e
            fail(node, "reduce(add, .) of %s" % (t,))
        if isinstance(f, ast.Name) and f.id in self.translated and len(node.args) == 1 and not node.keywords:
            t, e = self.expr(node.args[0])
            cname, rt, at = self.translated[f.id]
            if t != at:
                fail(node, "argument type of %s" % f.id)
            return rt, "(%s dim %s)" % (cname, e)
        fail(node, "call outside the subset")

    # ------------------------------------------------------------------------------------------ abstractions (right-hand sides)
    def abstraction(self, value):
        """returns (type, coq) for the structurally recognised right-hand sides, or None"""
        if is_call(value, ["self", "composite_system", "basis"], 0):
            return L(MD), "basis"
        if is_call(value, ["self", "composite_system", "comp_basis"], 0):
            return OPAQUE, "comp_basis"
        if isinstance(value, ast.Call) and isinstance(value.func, ast.Name) and value.func.id == "convert_hs" and len(value.args) == 3 and not value.keywords \
                and is_attr_chain(value.args[0], ["self", "hs"]) and all(isinstance(a, ast.Name) for a in value.args[1:]) \
                and self.env.get(value.args[1].id) == (L(MD), "basis") and self.env.get(value.args[2].id) == (OPAQUE, "comp_basis"):
            return MN, "L_cb"
        # jump_operators[0].shape[0]
        if isinstance(value, ast.Subscript) and isinstance(value.slice, ast.Constant) and value.slice.value == 0 and isinstance(value.value, ast.Attribute) \
                and value.value.attr == "shape" and isinstance(value.value.value, ast.Subscript) and isinstance(value.value.value.slice, ast.Constant) \
                and value.value.value.slice.value == 0 and isinstance(value.value.value.value, ast.Name) and value.value.value.value.id == "jump_operators":
            return N, "dim"
        if isinstance(value, ast.Call) and isinstance(value.func, ast.Name) and value.func.id == "len" and len(value.args) == 1 \
                and is_attr_chain(value.args[0], ["self", "_total_basis", "basis"]):
            return N, "(List.length basis)"
        if is_call(value, ["copy", "deepcopy"], 1) and is_attr_chain(value.args[0], ["self", "_total_basis", "basis"]):
            return L(MD), "basis"
        # opaque sizes: basis[0].shape[0] ** 2 [** 2]
        def is_dim_of_basis(n_):
            return isinstance(n_, ast.Subscript) and isinstance(n_.slice, ast.Constant) and n_.slice.value == 0 and isinstance(n_.value, ast.Attribute) and n_.value.attr == "shape" \
                and isinstance(n_.value.value, ast.Subscript) and isinstance(n_.value.value.slice, ast.Constant) and n_.value.value.slice.value == 0 \
                and isinstance(n_.value.value.value, ast.Name) and self.env.get(n_.value.value.value.id) == (L(MD), "basis")
        def is_pow2(n_):
            return isinstance(n_, ast.BinOp) and isinstance(n_.op, ast.Pow) and isinstance(n_.right, ast.Constant) and n_.right.value == 2
        if isinstance(value, ast.BinOp) and isinstance(value.op, ast.Pow) and is_dim_of_basis(value.left) and \
                ((isinstance(value.right, ast.Constant) and value.right.value == 2) or (is_pow2(value.right) and isinstance(value.right.left, ast.Constant) and value.right.left.value == 2)):
            return OPAQUE, "size"
        # zero matrices
        if isinstance(value, ast.Call) and is_attr_chain(value.func, ["np", "zeros"]) and len(value.args) == 1 and isinstance(value.args[0], ast.Tuple) and len(value.args[0].elts) == 2 \
                and all(kw.arg == "dtype" and is_attr_chain(kw.value, ["np", "complex128"]) for kw in value.keywords):
            a, b = value.args[0].elts
            if is_attr_chain(a, ["self", "dim"]) and is_attr_chain(b, ["self", "dim"]):
                return MD, "(@mzero Cx)"
            def is_m(n_):
                return isinstance(n_, ast.BinOp) and isinstance(n_.op, ast.Sub) and isinstance(n_.right, ast.Constant) and n_.right.value == 1 \
                    and isinstance(n_.left, ast.BinOp) and isinstance(n_.left.op, ast.Pow) and is_attr_chain(n_.left.left, ["self", "dim"]) \
                    and isinstance(n_.left.right, ast.Constant) and n_.left.right.value == 2
            if is_m(a) and is_m(b):
                return MM, "(@mzero Cx)"
        if isinstance(value, ast.List) and not value.elts:
            return "EMPTYLIST", "[]"
        return None

    # ------------------------------------------------------------------------------------------ iteration
    def iteration(self, target, it):
        """returns (coq pattern, coq list expression, [(pyname, type, coqname)])"""
        def names(t):
            if isinstance(t, ast.Name):
                return [t.id]
            if isinstance(t, ast.Tuple) and all(isinstance(e, ast.Name) for e in t.elts):
                return [e.id for e in t.elts]
            fail(t, "loop target")
        ns = names(target)
        if isinstance(it, ast.Call) and isinstance(it.func, ast.Name) and it.func.id == "enumerate" and len(it.args) == 1 and not it.keywords and len(ns) == 2:
            t, e = self.expr(it.args[0])
            if is_list(t):
                return "'(%s_, %s_)" % (ns[0], ns[1]), "(enum %s)" % e, [(ns[0], N, ns[0] + "_"), (ns[1], t[1], ns[1] + "_")]
            fail(it, "enumerate of a non-list")
        if isinstance(it, ast.Call) and is_attr_chain(it.func, ["itertools", "product"]) and len(it.args) == 2 and not it.keywords and len(ns) == 2:
            rs = []
            for a in it.args:
                if not (isinstance(a, ast.Call) and isinstance(a.func, ast.Name) and a.func.id == "range" and len(a.args) == 1 and not a.keywords):
                    fail(it, "product of something else than two ranges")
                t, e = self.expr(a.args[0])
                if t != N:
                    fail(it, "range bound")
                rs.append("(seq 0 %s)" % e)
            return "'(%s_, %s_)" % (ns[0], ns[1]), "(list_prod %s %s)" % (rs[0], rs[1]), [(ns[0], N, ns[0] + "_"), (ns[1], N, ns[1] + "_")]
        if len(ns) == 1:
            t, e = self.expr(it)
            if is_list(t):
                return "%s_" % ns[0], e, [(ns[0], t[1], ns[0] + "_")]
        fail(it, "iteration outside the subset")


def strip_doc(body):
    if body and isinstance(body[0], ast.Expr) and isinstance(body[0].value, ast.Constant) and isinstance(body[0].value.value, str):
        return body[1:]
    return body


def translate_acc_function(fdef, cname, params, translated, rettype):
    """functions of the shape:  bindings ; [accumulator loop] ; return   (calc_*_mat, generate_*_part_cb_from_jump_operators)"""
    fn = Fn(fdef.name, params, translated)
    if fdef.name.startswith("generate_"):
        fn.env["jump_operators"] = (L(MD), "jump_operators")
    lets = []          # coq let-bindings in order
    body = strip_doc(fdef.body)
    result = None
    for st in body:
        if result is not None:
            fail(st, "statement after return")
        if isinstance(st, ast.Assign) and len(st.targets) == 1 and isinstance(st.targets[0], ast.Name):
            nm = st.targets[0].id
            ab = fn.abstraction(st.value)
            if ab is not None:
                if ab[0] == "EMPTYLIST":
                    fail(st, "list accumulator in a value function")
                fn.env[nm] = ab
                continue
            t, e = fn.expr(st.value)
            lets.append("let %s_ := %s in" % (nm, e))
            fn.env[nm] = (t, nm + "_")
        elif isinstance(st, ast.For):
            if st.orelse:
                fail(st, "for-else")
            pat, lst, binds = fn.iteration(st.target, st.iter)
            acc, step = loop_body(fn, st.body, binds)
            at, ae = fn.env[acc]
            lets.append("let %s_ := fold_left (fun %s_ %s => %s) %s %s in" % (acc + "'", acc, pat, step, lst, ae))
            fn.env[acc] = (at, acc + "'_")
        elif isinstance(st, ast.Return):
            t, e = fn.expr(st.value)
            if t != rettype:
                fail(st, "return type %s, expected %s" % (t, rettype))
            result = e
        else:
            fail(st, "statement outside the subset")
    if result is None:
        fail(fdef, "no return")
    ps = " ".join("(%s : %s)" % p for p in params)
    return "Definition %s %s : cmat :=\n  %s\n  %s." % (cname, ps, "\n  ".join(lets), result)


def loop_body(fn, body, binds):
    """body of an accumulator loop: let-assignments, optionally one nested loop, accumulator updates `acc += e` / `acc[i, j] = e`.
    returns (accumulator python name, coq step expression whose free accumulator variable is <acc>_)"""
    saved = dict(fn.env)
    for py, t, cq in binds:
        fn.env[py] = (t, cq)
    lets, acc, upd = [], None, None
    for st in body:
        if upd is not None:
            fail(st, "statement after the accumulator update")
        if isinstance(st, ast.Assign) and len(st.targets) == 1 and isinstance(st.targets[0], ast.Name):
            t, e = fn.expr(st.value)
            lets.append("let %s_ := %s in" % (st.targets[0].id, e))
            fn.env[st.targets[0].id] = (t, st.targets[0].id + "_")
        elif isinstance(st, ast.AugAssign) and isinstance(st.op, ast.Add) and isinstance(st.target, ast.Name):
            acc = st.target.id
            at, ae = saved.get(acc, (None, None))
            t, e = fn.expr(st.value)
            if at not in (MD, MN, MM) or t != at:
                fail(st, "accumulator update of type %s into %s" % (t, at))
            upd = "(madd %s_ %s)" % (acc, e)
        elif isinstance(st, ast.Assign) and len(st.targets) == 1 and isinstance(st.targets[0], ast.Subscript) and isinstance(st.targets[0].value, ast.Name) \
                and isinstance(st.targets[0].slice, ast.Tuple) and len(st.targets[0].slice.elts) == 2:
            acc = st.targets[0].value.id
            at, ae = saved.get(acc, (None, None))
            ti, ei = fn.expr(st.targets[0].slice.elts[0]); tj, ej = fn.expr(st.targets[0].slice.elts[1])
            t, e = fn.expr(st.value)
            if at not in (MD, MN, MM) or ti != N or tj != N or t not in (N, R, C):
                fail(st, "element store")
            upd = "(mset %s_ %s %s %s)" % (acc, ei, ej, fn.to_C(t, e, st))
        elif isinstance(st, ast.For):
            if st.orelse:
                fail(st, "for-else")
            pat, lst, binds2 = fn.iteration(st.target, st.iter)
            acc, step = loop_body(fn, st.body, binds2)
            upd = "(fold_left (fun %s_ %s => %s) %s %s_)" % (acc, pat, step, lst, acc)
        else:
            fail(st, "loop statement outside the subset")
    if upd is None:
        fail(body[0], "loop without accumulator update")
    fn.env = saved
    return acc, " ".join(lets + [upd])


def translate_tables(fdef):
    """CompositeSystem._calc_basis_basisconjugate_sparse: bindings, list accumulators, ONE product loop with appends (optionally under
    `if <condition on the loop variables>:`), then the wiring statements"""
    fn = Fn(fdef.name, [("dim", "nat"), ("basis", "list cmat")], {})
    body = strip_doc(fdef.body)
    lists, order, wiring, stacked = {}, [], [], {}
    loop_seen = False
    items = {}
    for st in body:
        if isinstance(st, ast.Assign) and len(st.targets) == 1 and isinstance(st.targets[0], ast.Name) and not loop_seen:
            nm = st.targets[0].id
            ab = fn.abstraction(st.value)
            if ab is None:
                fail(st, "binding outside the subset")
            if ab[0] == "EMPTYLIST":
                lists[nm] = True
                items[nm] = []
            else:
                fn.env[nm] = ab
        elif isinstance(st, ast.For) and not loop_seen:
            loop_seen = True
            if st.orelse:
                fail(st, "for-else")
            pat, lst, binds = fn.iteration(st.target, st.iter)
            for py, t, cq in binds:
                fn.env[py] = (t, cq)
            loopvars = {py for py, _, _ in binds}

            def walk(stmts, conds, lets):
                lets = list(lets)
                for s in stmts:
                    if isinstance(s, ast.Assign) and len(s.targets) == 1 and isinstance(s.targets[0], ast.Name):
                        if s.targets[0].id in lists:
                            fail(s, "re-assignment of a list accumulator inside the loop")
                        t, e = fn.expr(s.value)
                        lets.append("let %s_ := %s in" % (s.targets[0].id, e))
                        fn.env[s.targets[0].id] = (t, s.targets[0].id + "_")
                    elif isinstance(s, ast.Expr) and isinstance(s.value, ast.Call) and isinstance(s.value.func, ast.Attribute) and s.value.func.attr == "append" \
                            and isinstance(s.value.func.value, ast.Name) and s.value.func.value.id in lists and len(s.value.args) == 1 and not s.value.keywords:
                        nm = s.value.func.value.id
                        t, e = fn.expr(s.value.args[0])
                        if t not in (MD, MN):
                            fail(s, "appended value of type %s" % (t,))
                        if nm not in order:
                            order.append(nm)
                        items[nm].append((list(conds), list(lets), e, t))
                    elif isinstance(s, ast.If) and not s.orelse:
                        c = fn.cond(s.test)
                        walk(s.body, conds + [c], lets)
                    else:
                        fail(s, "loop statement outside the subset")
            walk(st.body, [], [])
            iteration = (pat, lst)
        elif loop_seen and isinstance(st, ast.Assign) and len(st.targets) == 1:
            tg, v = st.targets[0], st.value
            # NAME = sparse.vstack(LIST).reshape(<anything>)
            if isinstance(tg, ast.Name) and isinstance(v, ast.Call) and isinstance(v.func, ast.Attribute) and v.func.attr == "reshape" \
                    and is_call(v.func.value, ["sparse", "vstack"], 1) and isinstance(v.func.value.args[0], ast.Name) and v.func.value.args[0].id in lists:
                stacked[tg.id] = v.func.value.args[0].id
            # self._attr = NAME.T | NAME.conjugate()
            elif isinstance(tg, ast.Attribute) and isinstance(tg.value, ast.Name) and tg.value.id == "self":
                if isinstance(v, ast.Attribute) and v.attr == "T" and isinstance(v.value, ast.Name) and v.value.id in stacked:
                    wiring.append((tg.attr, stacked[v.value.id], "T"))
                elif isinstance(v, ast.Call) and isinstance(v.func, ast.Attribute) and v.func.attr == "conjugate" and not v.args and not v.keywords \
                        and isinstance(v.func.value, ast.Name) and v.func.value.id in stacked:
                    wiring.append((tg.attr, stacked[v.func.value.id], "conjugate"))
                else:
                    fail(st, "table wiring outside the subset")
            else:
                fail(st, "statement after the loop outside the subset")
        else:
            fail(st, "statement outside the subset")
    if not loop_seen:
        fail(fdef, "no loop")
    out = []
    for k, nm in enumerate(order):
        parts = []
        for conds, lets, e, t in items[nm]:
            inner = "[%s]" % e
            if conds:
                inner = "if %s then %s else []" % (" && ".join(conds), inner)
            parts.append("(%s %s)" % (" ".join(lets), inner))
        out.append("Definition gen_tab_%d (dim : nat) (basis : list cmat) : list cmat :=\n  flat_map (fun %s => %s) %s." % (k, iteration[0], " ++ ".join(parts), iteration[1]))
    for nm in lists:
        if nm not in order:
            fail(fdef, "list %s is never appended to" % nm)
    w = "; ".join('("%s"%%string, (%d%%nat, "%s"%%string))' % (a, order.index(l), op) for a, l, op in wiring)
    out.append("Definition gen_tab_wiring : list (string * (nat * string)) := [%s]." % w)
    return "\n".join(out)


def translate_sparse_helper(fdef, cname, rettype):
    """_calc_j_mat_from_k_mat_with_sparsity / _calc_k_part_from_k_mat_with_sparsity: straight-line  table.dot(k_mat.flatten()) ; reshape ; scale.
    returns (coq definition, name of the table attribute used)"""
    if [a.arg for a in fdef.args.args] != ["k_mat", "c_sys"]:
        fail(fdef, "parameters")
    fn = Fn(fdef.name, [], {})
    fn.sparse_helper = True
    fn.env["k_mat"] = (MM, "k_mat")
    lets, result = [], None
    for st in strip_doc(fdef.body):
        if result is not None:
            fail(st, "statement after return")
        if isinstance(st, ast.Assign) and len(st.targets) == 1 and isinstance(st.targets[0], ast.Name):
            t, e = fn.expr(st.value)
            lets.append("let %s_ := %s in" % (st.targets[0].id, e))
            fn.env[st.targets[0].id] = (t, st.targets[0].id + "_")
        elif isinstance(st, ast.Return):
            t, e = fn.expr(st.value)
            if t != rettype:
                fail(st, "return type %s, expected %s" % (t, rettype))
            result = e
        else:
            fail(st, "statement outside the subset")
    if result is None or len(fn.tables_used) != 1:
        fail(fdef, "exactly one table product expected")
    return "Definition %s (dim : nat) (T : cmat) (k_mat : cmat) : cmat :=\n  %s\n  %s." % (cname, "\n  ".join(lets), result), fn.tables_used[0]


def translate_proj_ineq(fdef):
    """EffectiveLindbladian.calc_proj_ineq_constraint: the clipping loop, the reconstruction V diag(l) V^dagger and WHICH matrices are handed to
    generate_effective_lindbladian_from_hjk; numpy.linalg.eigh is opaque: its two results are the parameters eigenvals (list of reals) and eigenvecs."""
    fn = Fn(fdef.name, [], {})
    roles, lets, args, result = {}, [], None, None
    ev = vec = None
    for st in strip_doc(fdef.body):
        if result is not None:
            fail(st, "statement after return")
        if isinstance(st, ast.Assign) and len(st.targets) == 1 and isinstance(st.targets[0], ast.Name):
            nm, v = st.targets[0].id, st.value
            hit = [r for r in ("h", "j", "k") if is_call(v, ["self", "calc_%s_mat" % r], 0)]
            if hit:
                roles[nm] = hit[0]
            elif isinstance(v, ast.Call) and isinstance(v.func, ast.Name) and v.func.id == "generate_effective_lindbladian_from_hjk":
                if len(v.args) != 4 or not is_attr_chain(v.args[0], ["self", "composite_system"]) or not all(isinstance(a, ast.Name) for a in v.args[1:]):
                    fail(st, "call of generate_effective_lindbladian_from_hjk outside the subset")
                for kw in v.keywords:
                    if not is_attr_chain(kw.value, ["self", kw.arg]):
                        fail(st, "keyword %s is not forwarded from self" % kw.arg)
                args = [roles.get(a.id, None) for a in v.args[1:]]
                if None in args:
                    fail(st, "argument of unknown origin")
                roles[nm] = "result"
            else:
                t, e = fn.expr(v)
                if t != MM:
                    fail(st, "binding of type %s" % (t,))
                lets.append("let %s_ := %s in" % (nm, e))
                fn.env[nm] = (t, nm + "_")
                roles[nm] = "new_k"
                newk = nm + "_"
        elif isinstance(st, ast.Assign) and len(st.targets) == 1 and isinstance(st.targets[0], ast.Tuple) and is_call(st.value, ["np", "linalg", "eigh"], 1) \
                and isinstance(st.value.args[0], ast.Name) and roles.get(st.value.args[0].id) == "k" and len(st.targets[0].elts) == 2 \
                and all(isinstance(e, ast.Name) for e in st.targets[0].elts):
            ev, vec = st.targets[0].elts[0].id, st.targets[0].elts[1].id
            fn.env[ev] = ("RL", "eigenvals"); fn.env[vec] = (MM, "eigenvecs")
        elif isinstance(st, ast.For) and ev is not None and not st.orelse and isinstance(st.target, ast.Name) \
                and isinstance(st.iter, ast.Call) and isinstance(st.iter.func, ast.Name) and st.iter.func.id == "range" and len(st.iter.args) == 1 \
                and isinstance(st.iter.args[0], ast.Call) and isinstance(st.iter.args[0].func, ast.Name) and st.iter.args[0].func.id == "len" \
                and len(st.iter.args[0].args) == 1 and isinstance(st.iter.args[0].args[0], ast.Name) and st.iter.args[0].args[0].id == ev:
            idx = st.target.id
            if len(st.body) != 1 or not isinstance(st.body[0], ast.If) or st.body[0].orelse or len(st.body[0].body) != 1:
                fail(st, "clipping loop body")
            iff = st.body[0]; asg = iff.body[0]
            def is_elem(n_):
                return isinstance(n_, ast.Subscript) and isinstance(n_.value, ast.Name) and n_.value.id == ev and isinstance(n_.slice, ast.Name) and n_.slice.id == idx
            def const(n_):
                if isinstance(n_, ast.Constant) and isinstance(n_.value, int) and not isinstance(n_.value, bool) and n_.value >= 0:
                    return "(ofnat %d%%nat)" % n_.value
                fail(n_, "constant")
            if not (isinstance(iff.test, ast.Compare) and len(iff.test.ops) == 1 and isinstance(iff.test.ops[0], ast.Lt) and is_elem(iff.test.left)):
                fail(iff, "clipping condition")
            if not (isinstance(asg, ast.Assign) and len(asg.targets) == 1 and is_elem(asg.targets[0])):
                fail(asg, "clipping assignment")
            cur = fn.env[ev][1]
            lets.append("let %s'_ := fold_left (fun l_ %s_ => if rltb (nth %s_ l_ (ofnat 0%%nat)) %s then lset l_ %s_ %s else l_) (seq 0 (List.length %s)) %s in"
                        % (ev, idx, idx, const(iff.test.comparators[0]), idx, const(asg.value), cur, cur))
            fn.env[ev] = ("RL", ev + "'_")
        elif isinstance(st, ast.Return) and isinstance(st.value, ast.Name) and roles.get(st.value.id) == "result":
            result = True
        else:
            fail(st, "statement outside the subset")
    if not result or args is None or "new_k" not in roles.values():
        fail(fdef, "shape of calc_proj_ineq_constraint")
    return ("Definition gen_proj_ineq_kmat (dim : nat) (eigenvals : list F) (eigenvecs : cmat) : cmat :=\n  %s\n  %s.\n" % ("\n  ".join(lets), newk)
            + "Definition gen_proj_ineq_args : list string := [%s]." % "; ".join('"%s"%%string' % a for a in args))


def translate_part_helper(fdef, cname):
    """_calc_h_part_from_h_mat / _calc_j_part_from_j_mat: identity = np.eye(X.shape[0]); return <expression>"""
    if len(fdef.args.args) != 1:
        fail(fdef, "parameters")
    pn = fdef.args.args[0].arg
    fn = Fn(fdef.name, [], {})
    fn.env[pn] = (MD, pn)
    lets, result = [], None
    for st in strip_doc(fdef.body):
        if result is not None:
            fail(st, "statement after return")
        if isinstance(st, ast.Assign) and len(st.targets) == 1 and isinstance(st.targets[0], ast.Name):
            t, e = fn.expr(st.value)
            lets.append("let %s_ := %s in" % (st.targets[0].id, e))
            fn.env[st.targets[0].id] = (t, st.targets[0].id + "_")
        elif isinstance(st, ast.Return):
            t, e = fn.expr(st.value)
            if t != MN:
                fail(st, "return type %s" % (t,))
            result = e
        else:
            fail(st, "statement outside the subset")
    if result is None:
        fail(fdef, "no return")
    return "Definition %s (dim : nat) (%s : cmat) : cmat :=\n  %s\n  %s." % (cname, pn, "\n  ".join(lets), result)


def check_wrapper(tree, name, target):
    """def name(k_mat, c_sys): return target(k_mat, c_sys)"""
    f = find_def(tree, name)
    body = strip_doc(f.body)
    if [a.arg for a in f.args.args] != ["k_mat", "c_sys"] or len(body) != 1 or not isinstance(body[0], ast.Return):
        fail(f, "wrapper shape")
    v = body[0].value
    if not (isinstance(v, ast.Call) and isinstance(v.func, ast.Name) and v.func.id == target and not v.keywords and len(v.args) == 2
            and all(isinstance(a, ast.Name) for a in v.args) and [a.id for a in v.args] == ["k_mat", "c_sys"]):
        fail(f, "wrapper does not forward to %s(k_mat, c_sys)" % target)


def translate_constructor(fdef, cname, mats):
    """generate_hs_from_hjk / _hk / _h / _k: dim = c_sys.dim; _check_X_mat(X, dim) calls; parts from the translated helpers; their sum;
    convert_hs(., c_sys.comp_basis(), c_sys.basis()); _truncate_hs(., eps_truncate_imaginary_part); return.
    returns (definition of the comp-basis generator, list of checks in call order, post-processing description)"""
    want = ["c_sys"] + mats + ["eps_truncate_imaginary_part"]
    if [a.arg for a in fdef.args.args] != want:
        fail(fdef, "parameters %s, expected %s" % ([a.arg for a in fdef.args.args], want))
    fn = Fn(fdef.name, [], {})
    for mname in mats:
        fn.env[mname] = (MM if mname == "k_mat" else MD, mname)
    helpers = {"_calc_h_part_from_h_mat": ("gen_h_part", MD, MN, False), "_calc_j_part_from_j_mat": ("gen_j_part", MD, MN, False),
               "_calc_k_part_from_k_mat": ("gen_k_part_sparse", MM, MN, True), "_calc_j_mat_from_k_mat": ("gen_j_of_k_sparse", MM, MD, True)}
    lets, checks, stage, result = [], [], {}, None
    for st in strip_doc(fdef.body):
        if result is not None:
            fail(st, "statement after return")
        if isinstance(st, ast.Assign) and len(st.targets) == 1 and isinstance(st.targets[0], ast.Name):
            nm, v = st.targets[0].id, st.value
            if is_attr_chain(v, ["c_sys", "dim"]):
                fn.env[nm] = (N, "dim"); continue
            if isinstance(v, ast.Call) and isinstance(v.func, ast.Name) and v.func.id in helpers and not v.keywords:
                cq, at, rt, with_sys = helpers[v.func.id]
                if len(v.args) != (2 if with_sys else 1) or (with_sys and not (isinstance(v.args[1], ast.Name) and v.args[1].id == "c_sys")):
                    fail(st, "helper call shape")
                t, e = fn.expr(v.args[0])
                if t != at:
                    fail(st, "helper argument type")
                tab = {"gen_k_part_sparse": " Tk", "gen_j_of_k_sparse": " Tj"}.get(cq, "")
                lets.append("let %s_ := (%s dim%s %s) in" % (nm, cq, tab, e))
                fn.env[nm] = (rt, nm + "_"); continue
            if isinstance(v, ast.Call) and isinstance(v.func, ast.Name) and v.func.id == "convert_hs" and len(v.args) == 3 and not v.keywords \
                    and isinstance(v.args[0], ast.Name) and is_call(v.args[1], ["c_sys", "comp_basis"], 0) and is_call(v.args[2], ["c_sys", "basis"], 0):
                t, e = fn.expr(v.args[0])
                if t != MN:
                    fail(st, "convert_hs of %s" % (t,))
                stage[nm] = ("converted", e); continue
            if isinstance(v, ast.Call) and isinstance(v.func, ast.Name) and v.func.id == "_truncate_hs" and len(v.args) == 2 and not v.keywords \
                    and isinstance(v.args[0], ast.Name) and stage.get(v.args[0].id, (None,))[0] == "converted" \
                    and isinstance(v.args[1], ast.Name) and v.args[1].id == "eps_truncate_imaginary_part":
                stage[nm] = ("truncated", stage[v.args[0].id][1]); continue
            t, e = fn.expr(v)
            lets.append("let %s_ := %s in" % (nm, e))
            fn.env[nm] = (t, nm + "_")
        elif isinstance(st, ast.Expr) and isinstance(st.value, ast.Call) and isinstance(st.value.func, ast.Name) and st.value.func.id in ("_check_h_mat", "_check_j_mat", "_check_k_mat") \
                and len(st.value.args) == 2 and not st.value.keywords and all(isinstance(a, ast.Name) for a in st.value.args) \
                and fn.env.get(st.value.args[1].id) == (N, "dim") and st.value.args[0].id in mats:
            checks.append((st.value.func.id, st.value.args[0].id))
        elif isinstance(st, ast.Return) and isinstance(st.value, ast.Name) and stage.get(st.value.id, (None,))[0] == "truncated":
            result = stage[st.value.id][1]
        else:
            fail(st, "statement outside the subset")
    if result is None:
        fail(fdef, "no return of truncate(convert(.))")
    ps = " ".join("(%s : cmat)" % mname for mname in mats)
    d = "Definition %s (dim : nat) (Tj Tk : cmat) %s : cmat :=\n  %s\n  %s." % (cname, ps, "\n  ".join(lets), result)
    c = "Definition %s_checks : list (string * string) := [%s]." % (cname, "; ".join('("%s"%%string, "%s"%%string)' % x for x in checks))
    return d + "\n" + c


def find_def(tree, name, cls=None):
    scope = tree.body
    if cls is not None:
        cs = [n for n in tree.body if isinstance(n, ast.ClassDef) and n.name == cls]
        if len(cs) != 1:
            raise Unsupported("class %s not found" % cls)
        scope = cs[0].body
    fs = [n for n in scope if isinstance(n, ast.FunctionDef) and n.name == name]
    if len(fs) != 1:
        raise Unsupported("function %s not found (or defined twice)" % name)
    return fs[0]


def check_imports(tree, required):
    """the names the vocabulary gives a meaning to must come from where we think they come from"""
    found = {}
    for n in tree.body:
        if isinstance(n, ast.Import):
            for a in n.names:
                found[a.asname or a.name] = a.name
        if isinstance(n, ast.ImportFrom):
            for a in n.names:
                found[a.asname or a.name] = "%s.%s" % (n.module, a.name)
    for k, v in required.items():
        if found.get(k) != v:
            raise Unsupported("import of %s is %r, expected %r" % (k, found.get(k), v))


HEADER = """(* GENERATED by gen/c18_py2coq.py from the current source of quara — do not edit *)
From Coq Require Import Arith List Bool String.
From QV.Core Require Import OF Sums Mat Cplx.
From QV.Model Require Import QObj C18_Lindblad C18_PySem.
Import ListNotations.
Section Gen.
Context (F : OF).
Notation Cx := (CF F).
Notation cmat := (cmat F).
Notation ci := (ci F). Notation rc := (rc F). Notation cdivr := (cdivr F). Notation ropp := (copp F). Notation radd := (cadd F).
Notation rsub := (csub F). Notation rmul := (cmul F). Notation rdiv := (kdiv F). Notation ofnat := (@ofnat F).
Notation mset := (mset F). Notation reduce_add := (reduce_add F). Notation mnth := (mnth F).
Notation rltb := (rltb F). Notation lset := (lset F). Notation np_diag := (np_diag F).
"""


def main():
    repo, out = sys.argv[1], sys.argv[2]
    try:
        el = ast.parse(open(os.path.join(repo, "quara/objects/effective_lindbladian.py")).read())
        cs = ast.parse(open(os.path.join(repo, "quara/objects/composite_system.py")).read())
        check_imports(el, {"reduce": "functools.reduce", "add": "operator.add", "np": "numpy", "mutil": "quara.utils.matrix_util", "convert_hs": "quara.objects.gate.convert_hs"})
        check_imports(cs, {"copy": "copy", "itertools": "itertools", "np": "numpy", "sparse": "scipy.sparse"})
        defs = []
        P3 = [("dim", "nat"), ("basis", "list cmat"), ("L_cb", "cmat")]
        for py, cq in [("calc_h_mat", "gen_calc_h_mat"), ("calc_j_mat", "gen_calc_j_mat")]:
            defs.append(translate_acc_function(find_def(el, py, "EffectiveLindbladian"), cq, P3, {}, MD))
        defs.append(translate_acc_function(find_def(el, "calc_k_mat", "EffectiveLindbladian"), "gen_calc_k_mat", P3, {}, MM))
        P2 = [("dim", "nat"), ("jump_operators", "list cmat")]
        tr = {}
        for py, cq in [("generate_j_part_cb_from_jump_operators", "gen_j_part_cb"), ("generate_k_part_cb_from_jump_operators", "gen_k_part_cb"),
                       ("generate_d_part_cb_from_jump_operators", "gen_d_part_cb")]:
            defs.append(translate_acc_function(find_def(el, py), cq, P2, tr, MN))
            tr[py] = (cq, MN, L(MD))
        defs.append(translate_tables(find_def(cs, "_calc_basis_basisconjugate_sparse", "CompositeSystem")))
        used = []
        for py, cq, rt in [("_calc_j_mat_from_k_mat_with_sparsity", "gen_j_of_k_sparse", MD), ("_calc_k_part_from_k_mat_with_sparsity", "gen_k_part_sparse", MN)]:
            dfn, tab = translate_sparse_helper(find_def(el, py), cq, rt)
            defs.append(dfn); used.append((py, tab))
        defs.append(translate_part_helper(find_def(el, "_calc_h_part_from_h_mat"), "gen_h_part"))
        defs.append(translate_part_helper(find_def(el, "_calc_j_part_from_j_mat"), "gen_j_part"))
        check_wrapper(el, "_calc_k_part_from_k_mat", "_calc_k_part_from_k_mat_with_sparsity")
        check_wrapper(el, "_calc_j_mat_from_k_mat", "_calc_j_mat_from_k_mat_with_sparsity")
        for py, cq, mats in [("generate_hs_from_hjk", "gen_lcb_hjk", ["h_mat", "j_mat", "k_mat"]), ("generate_hs_from_hk", "gen_lcb_hk", ["h_mat", "k_mat"]),
                             ("generate_hs_from_h", "gen_lcb_h", ["h_mat"]), ("generate_hs_from_k", "gen_lcb_k", ["k_mat"])]:
            defs.append(translate_constructor(find_def(el, py), cq, mats))
        defs.append(translate_proj_ineq(find_def(el, "calc_proj_ineq_constraint", "EffectiveLindbladian")))
        defs.append("Definition gen_sparse_tables : list (string * string) := [%s]." % "; ".join('("%s"%%string, "%s"%%string)' % u for u in used))
    except Unsupported as e:
        sys.stderr.write("c18_py2coq: UNSUPPORTED: %s\n" % e)
        sys.exit(3)
    with open(out, "w") as f:
        f.write(HEADER + "\n" + "\n\n".join(defs) + "\nEnd Gen.\n")


if __name__ == "__main__":
    main()
