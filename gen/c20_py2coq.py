#!/usr/bin/env python3
"""Fail-closed translator for the schedule validators of quara (property C20): Python `ast` -> Gallina over the
combinators of coq/theories/Model/C20_PySem.v.

Translated on every run from the CURRENT source:
  quara/qcircuit/experiment.py                       Experiment._validate_schedule_item(self, item, objdict=None)  (class ItemValidator)
  quara/qcircuit/experiment.py                       Experiment._validate_schedule_order(self, schedule)
  quara/protocol/qtomography/standard/standard_*.py  Standard{Qst,Povmt,Qpt,Qmpt}._validate_schedules(self, schedules)

Accepted shape of a validator body (anything else raises Unsupported -> the tie is reported broken, never skipped):
  * docstring; `NAME = <int constant>` (named index constants);
  * `NAME = collections.Counter([v[K] for v in schedule])` with K == 0 (a counter of the kind names);
  * `if <cond>: <message statements> raise <ExceptionName>(<message expression>)`   (no else);
    message statements: `NAME = <msg>` / `NAME += <msg>`; <msg>: str constants, f-strings whose fields are plain names,
    `+` of those, a plain name — expressions that cannot raise and have no effect;
  * for the class guards the body is exactly `for i, schedule in enumerate(schedules): <such statements>`;
  * <cond>: `or` / `and` / `not` of comparisons; comparison operands: `schedule[A][B]` (A an int constant, possibly negative,
    B 0 or 1, possibly through a named constant), `len(schedule)`, `counter["name"]`, str / int constants;
    operators == != < <= > >= on ints, == != on strs, `in` / `not in` a list of str constants.
The function must not contain return / try / while / with / nested def / anything not listed.
"""
import ast, sys, os


class Unsupported(Exception):
    pass


def fail(node, msg):
    raise Unsupported("%s (line %s): %s" % (type(node).__name__, getattr(node, "lineno", "?"), msg))


def coq_str(s):
    if any(ord(ch) < 32 or ord(ch) > 126 for ch in s):
        raise Unsupported("non-printable character in string constant %r" % s)
    return '"%s"%%string' % s.replace('"', '""')


class Validator:
    def __init__(self, fdef, sched_name, coq_name):
        self.f, self.sched, self.coq_name = fdef, sched_name, coq_name
        self.consts = {}        # NAME -> int
        self.counters = set()   # names bound to the kind-name counter
        self.msgvars = set()
        self.loopvars = set()   # names that may appear inside f-strings (loop index, schedule, message variables)
        self.nraise = 0

    # ---- terms: returns (coq, type) with type in {"str", "int"}
    def const_int(self, e):
        if isinstance(e, ast.Constant) and type(e.value) is int:
            return e.value
        if isinstance(e, ast.UnaryOp) and isinstance(e.op, ast.USub) and isinstance(e.operand, ast.Constant) and type(e.operand.value) is int:
            return -e.operand.value
        if isinstance(e, ast.Name) and e.id in self.consts:
            return self.consts[e.id]
        return None

    def term(self, e):
        ci = self.const_int(e)
        if ci is not None:
            return "(Some (%d)%%Z)" % ci, "int"
        if isinstance(e, ast.Constant) and type(e.value) is str:
            return "(Some %s)" % coq_str(e.value), "str"
        if isinstance(e, ast.Call) and isinstance(e.func, ast.Name) and e.func.id == "len" and len(e.args) == 1 and not e.keywords \
                and isinstance(e.args[0], ast.Name) and e.args[0].id == self.sched:
            return "(py_len %s)" % self.sched, "int"
        if isinstance(e, ast.Subscript):
            # counter["name"]
            if isinstance(e.value, ast.Name) and e.value.id in self.counters:
                if isinstance(e.slice, ast.Constant) and type(e.slice.value) is str:
                    return "(py_count %s %s)" % (self.sched, coq_str(e.slice.value)), "int"
                fail(e, "counter key must be a str constant")
            # schedule[A][B]
            if isinstance(e.value, ast.Subscript) and isinstance(e.value.value, ast.Name) and e.value.value.id == self.sched:
                a = self.const_int(e.value.slice)
                b = self.const_int(e.slice)
                if a is None or b is None:
                    fail(e, "schedule[A][B]: A and B must be int constants")
                item = "(py_item %s (%d)%%Z)" % (self.sched, a)
                if b == 0:
                    return "(py_name %s)" % item, "str"
                if b == 1:
                    return "(py_index %s)" % item, "int"
                fail(e, "schedule[A][B] with B not in {0, 1}")
        fail(e, "term %s" % ast.unparse(e))

    # ---- conditions -> coq text of type cres
    def cond(self, e):
        if isinstance(e, ast.BoolOp):
            parts = [self.cond(v) for v in e.values]
            op = "c_or" if isinstance(e.op, ast.Or) else "c_and"
            out = parts[-1]
            for p in reversed(parts[:-1]):
                out = "(%s %s %s)" % (op, p, out)
            return out
        if isinstance(e, ast.UnaryOp) and isinstance(e.op, ast.Not):
            return "(c_not %s)" % self.cond(e.operand)
        if isinstance(e, ast.Compare):
            if len(e.ops) != 1:
                fail(e, "chained comparison")
            op, rhs = e.ops[0], e.comparators[0]
            if isinstance(op, (ast.In, ast.NotIn)):
                a, ta = self.term(e.left)
                if ta != "str" or not isinstance(rhs, ast.List) or not all(isinstance(x, ast.Constant) and type(x.value) is str for x in rhs.elts):
                    fail(e, "`in` needs a str term and a list of str constants")
                t = "(c_str_in %s [%s])" % (a, "; ".join(coq_str(x.value) for x in rhs.elts))
                return t if isinstance(op, ast.In) else "(c_not %s)" % t
            a, ta = self.term(e.left)
            b, tb = self.term(rhs)
            if ta != tb:
                fail(e, "comparison of %s with %s" % (ta, tb))
            if ta == "str":
                if isinstance(op, ast.Eq):
                    return "(c_str_eq %s %s)" % (a, b)
                if isinstance(op, ast.NotEq):
                    return "(c_not (c_str_eq %s %s))" % (a, b)
                fail(e, "ordering comparison of strings")
            m = {ast.Eq: "(c_z ZEq %s %s)" % (a, b), ast.NotEq: "(c_not (c_z ZEq %s %s))" % (a, b),
                 ast.Lt: "(c_z ZLt %s %s)" % (a, b), ast.LtE: "(c_z ZLe %s %s)" % (a, b),
                 ast.Gt: "(c_z ZLt %s %s)" % (b, a), ast.GtE: "(c_z ZLe %s %s)" % (b, a)}
            if type(op) not in m:
                fail(e, "comparison operator")
            return m[type(op)]
        fail(e, "condition %s" % ast.unparse(e))

    # ---- message expressions: must be effect-free and unable to raise
    def check_msg(self, e):
        if isinstance(e, ast.Constant) and type(e.value) is str:
            return
        if isinstance(e, ast.Name) and (e.id in self.msgvars or e.id in self.loopvars):
            return
        if isinstance(e, ast.JoinedStr):
            for v in e.values:
                if isinstance(v, ast.Constant) and type(v.value) is str:
                    continue
                if isinstance(v, ast.FormattedValue) and isinstance(v.value, ast.Name) and v.format_spec is None \
                        and (v.value.id in self.loopvars or v.value.id in self.msgvars):
                    continue
                fail(e, "f-string field %s" % ast.unparse(v))
            return
        if isinstance(e, ast.BinOp) and isinstance(e.op, ast.Add):
            self.check_msg(e.left); self.check_msg(e.right)
            return
        fail(e, "message expression %s" % ast.unparse(e))

    def raise_stmt(self, s):
        if s.cause is not None or not isinstance(s.exc, ast.Call) or not isinstance(s.exc.func, ast.Name) or s.exc.keywords or len(s.exc.args) != 1:
            fail(s, "raise must be `raise Name(<message>)`")
        self.check_msg(s.exc.args[0])
        n = self.nraise
        self.nraise += 1
        return "(FRaise %d %s)" % (n, coq_str(s.exc.func.id))

    def if_stmt(self, s):
        if s.orelse:
            fail(s, "if with else")
        c = self.cond(s.test)
        body = list(s.body)
        if not body or not isinstance(body[-1], ast.Raise):
            fail(s, "if body must end with raise")
        for b in body[:-1]:
            if isinstance(b, ast.Assign) and len(b.targets) == 1 and isinstance(b.targets[0], ast.Name):
                if b.targets[0].id in self.consts or b.targets[0].id in self.counters or b.targets[0].id in self.loopvars:
                    fail(b, "message variable shadows %s" % b.targets[0].id)
                self.check_msg(b.value)
                self.msgvars.add(b.targets[0].id)
            elif isinstance(b, ast.AugAssign) and isinstance(b.target, ast.Name) and isinstance(b.op, ast.Add) and b.target.id in self.msgvars:
                self.check_msg(b.value)
            else:
                fail(b, "statement inside an if body")
        return c, self.raise_stmt(body[-1])

    def stmts(self, body):
        """-> list of (cond, raise) in source order"""
        out = []
        for s in body:
            if isinstance(s, ast.Expr) and isinstance(s.value, ast.Constant) and type(s.value.value) is str:
                continue                # docstring
            if isinstance(s, ast.If):
                out.append(self.if_stmt(s))
                continue
            if isinstance(s, ast.Assign) and len(s.targets) == 1 and isinstance(s.targets[0], ast.Name):
                name = s.targets[0].id
                if name == self.sched or name in self.loopvars or name in self.msgvars:
                    fail(s, "assignment to %s" % name)
                if isinstance(s.value, ast.Constant) and type(s.value.value) is int:
                    if name in self.counters:
                        fail(s, "rebinding %s" % name)
                    self.consts[name] = s.value.value
                    continue
                if self.is_counter(s.value):
                    if name in self.consts:
                        fail(s, "rebinding %s" % name)
                    self.counters.add(name)
                    continue
            fail(s, "statement %s" % ast.unparse(s)[:80])
        return out

    def is_counter(self, e):
        """collections.Counter([v[K] for v in schedule]) with K == 0"""
        if not (isinstance(e, ast.Call) and not e.keywords and len(e.args) == 1):
            return False
        fn = e.func
        ok_fn = (isinstance(fn, ast.Attribute) and fn.attr == "Counter" and isinstance(fn.value, ast.Name) and fn.value.id == "collections")
        if not ok_fn:
            return False
        lc = e.args[0]
        if not (isinstance(lc, ast.ListComp) and len(lc.generators) == 1):
            return False
        g = lc.generators[0]
        if g.ifs or g.is_async or not isinstance(g.target, ast.Name) or not (isinstance(g.iter, ast.Name) and g.iter.id == self.sched):
            return False
        el = lc.elt
        if not (isinstance(el, ast.Subscript) and isinstance(el.value, ast.Name) and el.value.id == g.target.id):
            return False
        return self.const_int(el.slice) == 0

    def emit(self, pairs):
        out = "FPass"
        for c, r in reversed(pairs):
            out = "(f_if %s\n      %s\n   %s)" % (c, r, out)
        return "Definition %s (%s : list titem) : fres :=\n   %s." % (self.coq_name, self.sched, out)


class ItemValidator(Validator):
    """Experiment._validate_schedule_item(self, item, objdict=None): arbitrary python values (part 2 of C20_PySem.v).

    Additional statements:  `a, b = <val>, <val>` ;  `NAME = objdict["kind"] if objdict else self._kinds` ;
    `if not objdict: objdict = dict(state=self._states, povm=self._povms, gate=self._gates, mprocess=self._mprocesses)`.
    Additional conditions:  `type(<val>) != tuple|str|int` ; `len(<val>|<list>) <cmp> int` ; `<val> == "str"` ;
    `<val> [not] in [strs]` ; `not <list>` ; chained int comparisons `a <= <val> < len(objdict[<val>])`.
    Message expressions may also be `"...".format(<names>)`."""
    ATTRS = {"_states": "c_states", "_povms": "c_povms", "_gates": "c_gates", "_mprocesses": "c_mprocesses"}
    KEYS = ["state", "povm", "gate", "mprocess"]
    TYPES = {"tuple": "TTuple", "str": "TStr", "int": "TInt"}

    def __init__(self, fdef, coq_name):
        super().__init__(fdef, "item", coq_name)
        self.sorts = {"item": "val0", "objdict": "env"}     # val0: a plain pyval parameter; val: option pyval

    def vterm(self, e):
        """-> (coq, sort); sorts: val (option pyval), int (option Z), olist (option (list bool))"""
        if isinstance(e, ast.Constant) and type(e.value) is int:
            return "(Some (%d)%%Z)" % e.value, "int"
        if isinstance(e, ast.Name) and e.id in self.sorts:
            so = self.sorts[e.id]
            if so == "val0":
                return "(Some %s)" % e.id, "val"
            if so in ("val", "olist"):
                return e.id, so
            fail(e, "use of %s" % e.id)
        if isinstance(e, ast.Attribute) and isinstance(e.value, ast.Name) and e.value.id == "self" and e.attr in self.ATTRS:
            return "(Some (%s self_))" % self.ATTRS[e.attr], "olist"
        if isinstance(e, ast.Subscript):
            if isinstance(e.value, ast.Name) and e.value.id == "objdict":
                if isinstance(e.slice, ast.Constant) and type(e.slice.value) is str:
                    return "(env_get objdict %s)" % coq_str(e.slice.value), "olist"
                k, sk = self.vterm(e.slice)
                if sk != "val":
                    fail(e, "objdict key")
                return "(env_get_v objdict %s)" % k, "olist"
            v, sv = self.vterm(e.value)
            if sv == "val" and isinstance(e.slice, ast.Constant) and type(e.slice.value) is int:
                return "(pv_sub %s (%d)%%Z)" % (v, e.slice.value), "val"
            fail(e, "subscript")
        if isinstance(e, ast.Call) and isinstance(e.func, ast.Name) and e.func.id == "len" and len(e.args) == 1 and not e.keywords:
            v, sv = self.vterm(e.args[0])
            if sv == "val":
                return "(pv_len %s)" % v, "int"
            if sv == "olist":
                return "(ol_len %s)" % v, "int"
            fail(e, "len of %s" % sv)
        if isinstance(e, ast.IfExp) and isinstance(e.test, ast.Name) and e.test.id == "objdict":
            a, sa = self.vterm(e.body)
            b, sb = self.vterm(e.orelse)
            if sa != sb:
                fail(e, "conditional expression sorts")
            return "(if env_true objdict then %s else %s)" % (a, b), sa
        fail(e, "term %s" % ast.unparse(e))

    def as_int(self, e):
        v, sv = self.vterm(e)
        if sv == "int":
            return v
        if sv == "val":
            return "(pv_int %s)" % v
        fail(e, "int operand of sort %s" % sv)

    def cond(self, e):
        if isinstance(e, ast.BoolOp):
            parts = [self.cond(v) for v in e.values]
            op = "c_or" if isinstance(e.op, ast.Or) else "c_and"
            out = parts[-1]
            for p in reversed(parts[:-1]):
                out = "(%s %s %s)" % (op, p, out)
            return out
        if isinstance(e, ast.UnaryOp) and isinstance(e.op, ast.Not):
            if isinstance(e.operand, ast.Name) and self.sorts.get(e.operand.id) == "olist":
                return "(ol_empty %s)" % e.operand.id
            return "(c_not %s)" % self.cond(e.operand)
        if isinstance(e, ast.Compare):
            operands = [e.left] + list(e.comparators)
            # type(x) != T
            if len(e.ops) == 1 and isinstance(e.left, ast.Call) and isinstance(e.left.func, ast.Name) and e.left.func.id == "type" \
                    and len(e.left.args) == 1 and not e.left.keywords and isinstance(e.comparators[0], ast.Name) and e.comparators[0].id in self.TYPES:
                v, sv = self.vterm(e.left.args[0])
                if sv != "val":
                    fail(e, "type() of %s" % sv)
                t = "(cv_type_ne %s %s)" % (v, self.TYPES[e.comparators[0].id])
                if isinstance(e.ops[0], ast.NotEq):
                    return t
                if isinstance(e.ops[0], ast.Eq):
                    return "(c_not %s)" % t
                fail(e, "type comparison operator")
            if len(e.ops) == 1 and isinstance(e.ops[0], (ast.In, ast.NotIn)):
                v, sv = self.vterm(e.left)
                rhs = e.comparators[0]
                if sv != "val" or not isinstance(rhs, ast.List) or not all(isinstance(x, ast.Constant) and type(x.value) is str for x in rhs.elts):
                    fail(e, "`in` needs a value and a list of str constants")
                t = "(cv_str_in %s [%s])" % (v, "; ".join(coq_str(x.value) for x in rhs.elts))
                return t if isinstance(e.ops[0], ast.In) else "(c_not %s)" % t
            if len(e.ops) == 1 and isinstance(e.ops[0], (ast.Eq, ast.NotEq)) and isinstance(e.comparators[0], ast.Constant) and type(e.comparators[0].value) is str:
                v, sv = self.vterm(e.left)
                if sv != "val":
                    fail(e, "str comparison of %s" % sv)
                t = "(cv_str_eq %s %s)" % (v, coq_str(e.comparators[0].value))
                return t if isinstance(e.ops[0], ast.Eq) else "(c_not %s)" % t
            # (chained) integer comparison: a op b op c == (a op b) and (b op c), every operand evaluated once (all are pure)
            parts = []
            for l, op, r in zip(operands[:-1], e.ops, operands[1:]):
                a, b = self.as_int(l), self.as_int(r)
                m = {ast.Eq: "(cv_z ZEq %s %s)" % (a, b), ast.NotEq: "(c_not (cv_z ZEq %s %s))" % (a, b),
                     ast.Lt: "(cv_z ZLt %s %s)" % (a, b), ast.LtE: "(cv_z ZLe %s %s)" % (a, b),
                     ast.Gt: "(cv_z ZLt %s %s)" % (b, a), ast.GtE: "(cv_z ZLe %s %s)" % (b, a)}
                if type(op) not in m:
                    fail(e, "comparison operator")
                parts.append(m[type(op)])
            out = parts[-1]
            for p in reversed(parts[:-1]):
                out = "(c_and %s %s)" % (p, out)
            return out
        fail(e, "condition %s" % ast.unparse(e))

    def check_msg(self, e):
        if isinstance(e, ast.Call) and isinstance(e.func, ast.Attribute) and e.func.attr == "format" and not e.keywords \
                and isinstance(e.func.value, ast.Constant) and type(e.func.value.value) is str \
                and all(isinstance(a, ast.Name) and (a.id in self.sorts or a.id in self.msgvars) for a in e.args):
            return
        if isinstance(e, ast.Name) and e.id in self.msgvars:
            return
        if isinstance(e, ast.Constant) and type(e.value) is str:
            return
        if isinstance(e, ast.BinOp) and isinstance(e.op, ast.Add):
            self.check_msg(e.left); self.check_msg(e.right)
            return
        fail(e, "message expression %s" % ast.unparse(e))

    def fresh_ok(self, name, node):
        if name in ("self", "self_") or name in self.msgvars:
            fail(node, "assignment to %s" % name)

    def body(self, stmts):
        """continuation-style translation -> coq text of type fres"""
        if not stmts:
            return "FPass"
        s, rest = stmts[0], stmts[1:]
        if isinstance(s, ast.Expr) and isinstance(s.value, ast.Constant) and type(s.value.value) is str:
            return self.body(rest)
        # if not objdict: objdict = dict(state=self._states, ...)
        if isinstance(s, ast.If) and not s.orelse and isinstance(s.test, ast.UnaryOp) and isinstance(s.test.op, ast.Not) \
                and isinstance(s.test.operand, ast.Name) and s.test.operand.id == "objdict" and len(s.body) == 1 \
                and isinstance(s.body[0], ast.Assign) and len(s.body[0].targets) == 1 and isinstance(s.body[0].targets[0], ast.Name) \
                and s.body[0].targets[0].id == "objdict":
            c = s.body[0].value
            if not (isinstance(c, ast.Call) and isinstance(c.func, ast.Name) and c.func.id == "dict" and not c.args
                    and sorted(k.arg for k in c.keywords) == sorted(self.KEYS)):
                fail(s, "objdict default must be dict(state=..., povm=..., gate=..., mprocess=...)")
            fields = {}
            for k in c.keywords:
                v, sv = self.vterm(k.value)
                if not (isinstance(k.value, ast.Attribute) and sv == "olist"):
                    fail(s, "dict value %s" % ast.unparse(k.value))
                fields[k.arg] = self.ATTRS[k.value.attr] + " self_"
            mk = "(mkcfg (%s) (%s) (%s) (%s))" % tuple(fields[k] for k in self.KEYS)
            return "(let objdict := (if env_true objdict then objdict else Some %s) in\n   %s)" % (mk, self.body(rest))
        if isinstance(s, ast.If):
            c, r = self.if_stmt(s)
            return "(f_if %s\n      %s\n   %s)" % (c, r, self.body(rest))
        if isinstance(s, ast.Assign) and len(s.targets) == 1:
            tg = s.targets[0]
            if isinstance(tg, ast.Tuple) and isinstance(s.value, ast.Tuple) and len(tg.elts) == len(s.value.elts) and all(isinstance(x, ast.Name) for x in tg.elts):
                vals = [self.vterm(v) for v in s.value.elts]      # all right-hand sides first
                for x in tg.elts:
                    self.fresh_ok(x.id, s)
                    if x.id in self.sorts:
                        fail(s, "rebinding %s" % x.id)
                tmp = ["%s_" % x.id for x in tg.elts]
                for x, (v, sv) in zip(tg.elts, vals):
                    if sv not in ("val", "olist"):
                        fail(s, "assigned sort %s" % sv)
                # evaluate into temporaries, then bind the names (tuple assignment is simultaneous)
                for x, (v, sv) in zip(tg.elts, vals):
                    self.sorts[x.id] = sv
                inner = self.body(rest)
                out = inner
                for x, (v, sv) in reversed(list(zip(tg.elts, vals))):
                    out = "(f_bind %s (fun %s =>\n   %s))" % (v, x.id, out)
                return out
            if isinstance(tg, ast.Name):
                self.fresh_ok(tg.id, s)
                if tg.id in self.sorts:
                    fail(s, "rebinding %s" % tg.id)
                v, sv = self.vterm(s.value)
                if sv not in ("val", "olist"):
                    fail(s, "assigned sort %s" % sv)
                self.sorts[tg.id] = sv
                return "(f_bind %s (fun %s =>\n   %s))" % (v, tg.id, self.body(rest))
        fail(s, "statement %s" % ast.unparse(s)[:80])


def translate_item(repo):
    tree = ast.parse(open(os.path.join(repo, "quara/qcircuit/experiment.py")).read())
    f = find_method(tree, "Experiment", "_validate_schedule_item")
    a = f.args
    if a.vararg or a.kwarg or a.kwonlyargs or a.posonlyargs or f.decorator_list or [x.arg for x in a.args] != ["self", "item", "objdict"] \
            or len(a.defaults) != 1 or not (isinstance(a.defaults[0], ast.Constant) and a.defaults[0].value is None):
        raise Unsupported("_validate_schedule_item: expected (self, item, objdict=None)")
    v = ItemValidator(f, "gen_validate_schedule_item")
    body = v.body(list(f.body))
    return "Definition gen_validate_schedule_item (self_ : cfg) (objdict : option cfg) (item : pyval) : fres :=\n   %s." % body


def find_method(tree, cls, name):
    for n in ast.walk(tree):
        if isinstance(n, ast.ClassDef) and n.name == cls:
            for m in n.body:
                if isinstance(m, ast.FunctionDef) and m.name == name:
                    return m
    raise Unsupported("method %s.%s not found" % (cls, name))


def plain_params(fdef, names):
    a = fdef.args
    if a.vararg or a.kwarg or a.kwonlyargs or a.posonlyargs or a.defaults or [x.arg for x in a.args] != names or fdef.decorator_list:
        raise Unsupported("%s: expected parameters %s without defaults / decorators" % (fdef.name, names))


def translate_order(repo):
    tree = ast.parse(open(os.path.join(repo, "quara/qcircuit/experiment.py")).read())
    f = find_method(tree, "Experiment", "_validate_schedule_order")
    plain_params(f, ["self", "schedule"])
    v = Validator(f, "schedule", "gen_validate_schedule_order")
    return v.emit(v.stmts(f.body))


GUARDS = [("quara/protocol/qtomography/standard/standard_qst.py", "StandardQst", "gen_guard_qst"),
          ("quara/protocol/qtomography/standard/standard_povmt.py", "StandardPovmt", "gen_guard_povmt"),
          ("quara/protocol/qtomography/standard/standard_qpt.py", "StandardQpt", "gen_guard_qpt"),
          ("quara/protocol/qtomography/standard/standard_qmpt.py", "StandardQmpt", "gen_guard_qmpt")]


def translate_guard(repo, path, cls, coq_name):
    tree = ast.parse(open(os.path.join(repo, path)).read())
    f = find_method(tree, cls, "_validate_schedules")
    plain_params(f, ["self", "schedules"])
    body = [s for s in f.body if not (isinstance(s, ast.Expr) and isinstance(s.value, ast.Constant) and type(s.value.value) is str)]
    if len(body) != 1 or not isinstance(body[0], ast.For):
        raise Unsupported("%s._validate_schedules: body must be a single for loop" % cls)
    loop = body[0]
    if loop.orelse or not (isinstance(loop.target, ast.Tuple) and len(loop.target.elts) == 2 and all(isinstance(x, ast.Name) for x in loop.target.elts)):
        fail(loop, "loop must be `for i, schedule in enumerate(schedules)`")
    it = loop.iter
    if not (isinstance(it, ast.Call) and isinstance(it.func, ast.Name) and it.func.id == "enumerate" and len(it.args) == 1 and not it.keywords
            and isinstance(it.args[0], ast.Name) and it.args[0].id == "schedules"):
        fail(loop, "loop must iterate over enumerate(schedules)")
    idx, sched = loop.target.elts[0].id, loop.target.elts[1].id
    if len({idx, sched, "schedules", "self"}) != 4:
        fail(loop, "loop variable names")
    v = Validator(f, sched, coq_name)
    v.loopvars = {idx, sched}
    return v.emit(v.stmts(loop.body))


HEADER = """(* GENERATED by /verif/gen/c20_py2coq.py from the current source of quara — do not edit, not committed. *)
From Coq Require Import ZArith List Bool String.
From QV.Model Require Import C20_Schedule C20_PySem.
Import ListNotations.
"""


def main():
    repo, outpath = sys.argv[1], sys.argv[2]
    try:
        parts = [HEADER, "(* from quara/qcircuit/experiment.py : Experiment._validate_schedule_item *)", translate_item(repo), "",
                 "(* from quara/qcircuit/experiment.py : Experiment._validate_schedule_order *)", translate_order(repo), ""]
        for path, cls, name in GUARDS:
            parts += ["(* from %s : %s._validate_schedules, body of the loop over the schedules *)" % (path, cls), translate_guard(repo, path, cls, name), ""]
    except Unsupported as e:
        print("UNSUPPORTED: %s" % e)
        sys.exit(3)
    except (OSError, SyntaxError) as e:
        print("UNSUPPORTED: cannot read / parse the source: %s" % e)
        sys.exit(3)
    open(outpath, "w").write("\n".join(parts))
    print("ok: %d functions -> %s" % (2 + len(GUARDS), outpath))


if __name__ == "__main__":
    main()
