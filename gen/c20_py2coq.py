#!/usr/bin/env python3
"""Fail-closed translator: Python `ast` -> Gallina over the combinators of coq/theories/Model/C20_PySem.v (property C20;
recommended base for other owners: copy it to gen/cxx_py2coq.py and extend YOUR copy).

WHAT IT IS FOR.  Argument validation, error branches, string dispatch, loop skeletons with early exits, try/except ->
error-class mappings, small state changes: code whose observable behaviour is "which exception class, or which new state".
The output is a Gallina definition built from the PySem combinators; coq/gen/C20_Equiv.v re-proves on every run that the
regenerated definitions agree with the hand-written model the property theorems are about.

FAIL-CLOSED.  Every construct that is not listed below raises Unsupported (exit code 3, message `UNSUPPORTED: ...` with the
node type and line); the harness reports that as a broken tie (never skipped).  Never add a catch-all branch.

THE ACCEPTED SUBSET (three layers; PySem.v part 1 / 2 / 3 give the meaning)

 1. validators over a TYPED schedule  (class Validator; _validate_schedule_order, the four class guards)
    statements : docstring | NAME = <int constant> | NAME = collections.Counter([v[0] for v in schedule])
                 | if <cond>: <message stmts> raise Name(<message>)          (no else; results in `f_if cond (FRaise n "Name") rest`)
    terms      : schedule[A][B] (A int constant, negative allowed; B 0|1, also via a named constant) | len(schedule)
                 | counter["name"] | str / int constants
    conditions : or / and / not | == != < <= > >= on ints | == != on strs | [not] in [str constants]
    an index that runs off the schedule is IndexError (option None -> CIndexError -> FIndexError)

 2. validators over ARBITRARY python values  (class ItemValidator / IndexValidator; _validate_schedule_item, _validate_schedule_index)
    additionally: a, b = <val>, <val> | NAME = objdict["kind"] if objdict else self._kinds
                 | if not objdict: objdict = dict(state=self._states, povm=..., gate=..., mprocess=...)
                 | type(<val>) != tuple|str|int | len(<val>|<list>) | <val> == "str" | <val> [not] in [strs] | not <list>
                 | chained int comparisons `a <= <val> < len(objdict[<val>])` | len(self.schedules)
    values are abstracted by exact type (pyval); an expression whose meaning is not defined for the value at hand is
    "stuck" (None -> CStuck -> FStuck) and the equivalence proof shows stuck is unreachable.

 3. procedures  (class Proc and the translate_* functions; _validate_schedules, __init__, the five setters, calc_prob_dist,
    _validate_schedules_str, _validate_type, copy, the schedule prologue of the four tomography constructors)
    effect-free : for i, x in enumerate(<list|schedule>) / for x in ...  |  try: ... except (A, B) as e: <messages> raise C(msg)
                  (exactly one except clause, no finally)  |  self._validate_schedule_item(item[, objdict=objdict])
                  | self._validate_schedule_order(schedule) | self._validate_schedules(<schedules>[, objdict=objdict])
                  | NAME[, NAME] = None[, None]  (pre-binding; it makes the names definitely bound)
    with state  : self._validate_type(<list>, <its own class>) (checked, then dropped) | objdict = dict(state=..., ...)
                  | X = [] if X is None else X | self._states|_povms|_gates|_mprocesses|_schedules = NAME
                  | try/except/else around a validator call | seed bookkeeping in __init__ (self._seed_data, reset_seed_data)
    straight-line procedures with tolerated variation:
                  calc_prob_dist — index validation before the lookup; the independent preparations (schedule lookup, key_map,
                  empty deque / list) in any order; `k, i = item` or `k = item[0]; i = item[1]`; `if not t` or `if t is None`;
                  appendleft / insert(0, .) (-> collect_left) or append (-> collect_right); compose_qoperations(*T | *reversed(T));
                  `return R.ps` or `return op.compose_qoperations(...).ps`.
                  tomography prologue — `type(schedules) == str` or `isinstance(schedules, str)`; the "all" test after or nested in
                  the str branch; expansion as 1- or 2-generator comprehension, product loop, nested loops or a single loop
                  (-> map / flat_map over zseq); Experiment(...) keyword arguments in any order; inert `self.X = <parameter>`
                  statements in between; then the guard call; the rest of the constructor must not rebind schedules / the experiment.
                  _validate_type — one loop, one `if` over truthiness / `is None` / isinstance(target, expected_type); its message
                  block may use type(), __name__, .lower(), set([...]), ", ".join(...) (join can raise TypeError: accepted only
                  because the statement raises TypeError anyway).
                  copy — NAME = copy.copy(self.P) | list(self.P) | self.P, Experiment(<keywords>), return.
                  property getters used (self.schedules, self.states, ...) must return (a copy of) the attribute.
    defaults    : translate_defaults lists the default value of every parameter of every method of the anchored classes with its
                  kind (None / immutable constant / tuple of those / anything else = possibly mutable); C20_Equiv.v proves the
                  table contains no mutable default (a mutable default is one object shared by all calls).
    DEFINITE ASSIGNMENT: a name used in a message / handler must be bound on every path (names bound only inside the try
    body do not count) — otherwise Unsupported ("name j is not definitely bound here": this is how the UnboundLocalError
    defect C20-2 shows up at translation time).
    MESSAGES (function harmless): str/int constants, bound names, f-strings of those, + and -, "...".format(...), str(x),
    len(self.<list>), e.args[0] — expressions without effect that cannot raise; they are not translated.

TRUSTED: this file; PySem.v's reading of the vocabulary (negative indices, short-circuit, chained comparisons, Counter,
exception matching BY CLASS NAME — sound here because the classes involved are unrelated by inheritance —, objdict as
None-or-dict-with-the-four-kind-keys, quara objects are truthy, lists handed to the setters contain objects of the right class
or None).
"""
import ast, sys, os


class Unsupported(Exception):
    pass


def fail(node, msg):
    raise Unsupported("%s (line %s): %s" % (type(node).__name__, getattr(node, "lineno", "?"), msg))


def coq_str(s):
    if any(ord(ch) < 32 or ord(ch) > 126 for ch in s):
        raise Unsupported("non-printable character in string constant %r" % s)
    return '"%s"%%string' % s.replace('"', '""')


class Validator:
    def __init__(self, fdef, sched_name, coq_name):
        self.f, self.sched, self.coq_name = fdef, sched_name, coq_name
        self.consts = {}        # NAME -> int
        self.counters = set()   # names bound to the kind-name counter
        self.msgvars = set()
        self.loopvars = set()   # names that may appear inside f-strings (loop index, schedule, message variables)
        self.nraise = 0

    # ---- terms: returns (coq, type) with type in {"str", "int"}
    def const_int(self, e):
        if isinstance(e, ast.Constant) and type(e.value) is int:
            return e.value
        if isinstance(e, ast.UnaryOp) and isinstance(e.op, ast.USub) and isinstance(e.operand, ast.Constant) and type(e.operand.value) is int:
            return -e.operand.value
        if isinstance(e, ast.Name) and e.id in self.consts:
            return self.consts[e.id]
        return None

    def term(self, e):
        ci = self.const_int(e)
        if ci is not None:
            return "(Some (%d)%%Z)" % ci, "int"
        if isinstance(e, ast.Constant) and type(e.value) is str:
            return "(Some %s)" % coq_str(e.value), "str"
        if isinstance(e, ast.Call) and isinstance(e.func, ast.Name) and e.func.id == "len" and len(e.args) == 1 and not e.keywords \
                and isinstance(e.args[0], ast.Name) and e.args[0].id == self.sched:
            return "(py_len %s)" % self.sched, "int"
        if isinstance(e, ast.Subscript):
            # counter["name"]
            if isinstance(e.value, ast.Name) and e.value.id in self.counters:
                if isinstance(e.slice, ast.Constant) and type(e.slice.value) is str:
                    return "(py_count %s %s)" % (self.sched, coq_str(e.slice.value)), "int"
                fail(e, "counter key must be a str constant")
            # schedule[A][B]
            if isinstance(e.value, ast.Subscript) and isinstance(e.value.value, ast.Name) and e.value.value.id == self.sched:
                a = self.const_int(e.value.slice)
                b = self.const_int(e.slice)
                if a is None or b is None:
                    fail(e, "schedule[A][B]: A and B must be int constants")
                item = "(py_item %s (%d)%%Z)" % (self.sched, a)
                if b == 0:
                    return "(py_name %s)" % item, "str"
                if b == 1:
                    return "(py_index %s)" % item, "int"
                fail(e, "schedule[A][B] with B not in {0, 1}")
        fail(e, "term %s" % ast.unparse(e))

    # ---- conditions -> coq text of type cres
    def cond(self, e):
        if isinstance(e, ast.BoolOp):
            parts = [self.cond(v) for v in e.values]
            op = "c_or" if isinstance(e.op, ast.Or) else "c_and"
            out = parts[-1]
            for p in reversed(parts[:-1]):
                out = "(%s %s %s)" % (op, p, out)
            return out
        if isinstance(e, ast.UnaryOp) and isinstance(e.op, ast.Not):
            return "(c_not %s)" % self.cond(e.operand)
        if isinstance(e, ast.Compare):
            if len(e.ops) != 1:
                fail(e, "chained comparison")
            op, rhs = e.ops[0], e.comparators[0]
            if isinstance(op, (ast.In, ast.NotIn)):
                a, ta = self.term(e.left)
                if ta != "str" or not isinstance(rhs, ast.List) or not all(isinstance(x, ast.Constant) and type(x.value) is str for x in rhs.elts):
                    fail(e, "`in` needs a str term and a list of str constants")
                t = "(c_str_in %s [%s])" % (a, "; ".join(coq_str(x.value) for x in rhs.elts))
                return t if isinstance(op, ast.In) else "(c_not %s)" % t
            a, ta = self.term(e.left)
            b, tb = self.term(rhs)
            if ta != tb:
                fail(e, "comparison of %s with %s" % (ta, tb))
            if ta == "str":
                if isinstance(op, ast.Eq):
                    return "(c_str_eq %s %s)" % (a, b)
                if isinstance(op, ast.NotEq):
                    return "(c_not (c_str_eq %s %s))" % (a, b)
                fail(e, "ordering comparison of strings")
            m = {ast.Eq: "(c_z ZEq %s %s)" % (a, b), ast.NotEq: "(c_not (c_z ZEq %s %s))" % (a, b),
                 ast.Lt: "(c_z ZLt %s %s)" % (a, b), ast.LtE: "(c_z ZLe %s %s)" % (a, b),
                 ast.Gt: "(c_z ZLt %s %s)" % (b, a), ast.GtE: "(c_z ZLe %s %s)" % (b, a)}
            if type(op) not in m:
                fail(e, "comparison operator")
            return m[type(op)]
        fail(e, "condition %s" % ast.unparse(e))

    # ---- message expressions: must be effect-free and unable to raise
    def check_msg(self, e):
        if isinstance(e, ast.Constant) and type(e.value) is str:
            return
        if isinstance(e, ast.Name) and (e.id in self.msgvars or e.id in self.loopvars):
            return
        if isinstance(e, ast.JoinedStr):
            for v in e.values:
                if isinstance(v, ast.Constant) and type(v.value) is str:
                    continue
                if isinstance(v, ast.FormattedValue) and isinstance(v.value, ast.Name) and v.format_spec is None \
                        and (v.value.id in self.loopvars or v.value.id in self.msgvars):
                    continue
                fail(e, "f-string field %s" % ast.unparse(v))
            return
        if isinstance(e, ast.BinOp) and isinstance(e.op, ast.Add):
            self.check_msg(e.left); self.check_msg(e.right)
            return
        fail(e, "message expression %s" % ast.unparse(e))

    def raise_stmt(self, s):
        if s.cause is not None or not isinstance(s.exc, ast.Call) or not isinstance(s.exc.func, ast.Name) or s.exc.keywords or len(s.exc.args) != 1:
            fail(s, "raise must be `raise Name(<message>)`")
        self.check_msg(s.exc.args[0])
        n = self.nraise
        self.nraise += 1
        return "(FRaise %d %s)" % (n, coq_str(s.exc.func.id))

    def if_stmt(self, s):
        if s.orelse:
            fail(s, "if with else")
        c = self.cond(s.test)
        body = list(s.body)
        if not body or not isinstance(body[-1], ast.Raise):
            fail(s, "if body must end with raise")
        for b in body[:-1]:
            if isinstance(b, ast.Assign) and len(b.targets) == 1 and isinstance(b.targets[0], ast.Name):
                if b.targets[0].id in self.consts or b.targets[0].id in self.counters or b.targets[0].id in self.loopvars:
                    fail(b, "message variable shadows %s" % b.targets[0].id)
                self.check_msg(b.value)
                self.msgvars.add(b.targets[0].id)
            elif isinstance(b, ast.AugAssign) and isinstance(b.target, ast.Name) and isinstance(b.op, ast.Add) and b.target.id in self.msgvars:
                self.check_msg(b.value)
            else:
                fail(b, "statement inside an if body")
        return c, self.raise_stmt(body[-1])

    def stmts(self, body):
        """-> list of (cond, raise) in source order"""
        out = []
        for s in body:
            if isinstance(s, ast.Expr) and isinstance(s.value, ast.Constant) and type(s.value.value) is str:
                continue                # docstring
            if isinstance(s, ast.If):
                out.append(self.if_stmt(s))
                continue
            if isinstance(s, ast.Assign) and len(s.targets) == 1 and isinstance(s.targets[0], ast.Name):
                name = s.targets[0].id
                if name == self.sched or name in self.loopvars or name in self.msgvars:
                    fail(s, "assignment to %s" % name)
                if isinstance(s.value, ast.Constant) and type(s.value.value) is int:
                    if name in self.counters:
                        fail(s, "rebinding %s" % name)
                    self.consts[name] = s.value.value
                    continue
                if self.is_counter(s.value):
                    if name in self.consts:
                        fail(s, "rebinding %s" % name)
                    self.counters.add(name)
                    continue
            fail(s, "statement %s" % ast.unparse(s)[:80])
        return out

    def is_counter(self, e):
        """collections.Counter([v[K] for v in schedule]) with K == 0"""
        if not (isinstance(e, ast.Call) and not e.keywords and len(e.args) == 1):
            return False
        fn = e.func
        ok_fn = (isinstance(fn, ast.Attribute) and fn.attr == "Counter" and isinstance(fn.value, ast.Name) and fn.value.id == "collections")
        if not ok_fn:
            return False
        lc = e.args[0]
        if not (isinstance(lc, ast.ListComp) and len(lc.generators) == 1):
            return False
        g = lc.generators[0]
        if g.ifs or g.is_async or not isinstance(g.target, ast.Name) or not (isinstance(g.iter, ast.Name) and g.iter.id == self.sched):
            return False
        el = lc.elt
        if not (isinstance(el, ast.Subscript) and isinstance(el.value, ast.Name) and el.value.id == g.target.id):
            return False
        return self.const_int(el.slice) == 0

    def emit(self, pairs):
        out = "FPass"
        for c, r in reversed(pairs):
            out = "(f_if %s\n      %s\n   %s)" % (c, r, out)
        return "Definition %s (%s : list titem) : fres :=\n   %s." % (self.coq_name, self.sched, out)


class ItemValidator(Validator):
    """Experiment._validate_schedule_item(self, item, objdict=None): arbitrary python values (part 2 of C20_PySem.v).

    Additional statements:  `a, b = <val>, <val>` ;  `NAME = objdict["kind"] if objdict else self._kinds` ;
    `if not objdict: objdict = dict(state=self._states, povm=self._povms, gate=self._gates, mprocess=self._mprocesses)`.
    Additional conditions:  `type(<val>) != tuple|str|int` ; `len(<val>|<list>) <cmp> int` ; `<val> == "str"` ;
    `<val> [not] in [strs]` ; `not <list>` ; chained int comparisons `a <= <val> < len(objdict[<val>])`.
    Message expressions may also be `"...".format(<names>)`."""
    ATTRS = {"_states": "c_states", "_povms": "c_povms", "_gates": "c_gates", "_mprocesses": "c_mprocesses"}
    KEYS = ["state", "povm", "gate", "mprocess"]
    TYPES = {"tuple": "TTuple", "str": "TStr", "int": "TInt"}

    def __init__(self, fdef, coq_name):
        super().__init__(fdef, "item", coq_name)
        self.sorts = {"item": "val0", "objdict": "env"}     # val0: a plain pyval parameter; val: option pyval

    def vterm(self, e):
        """-> (coq, sort); sorts: val (option pyval), int (option Z), olist (option (list bool))"""
        if isinstance(e, ast.Constant) and type(e.value) is int:
            return "(Some (%d)%%Z)" % e.value, "int"
        if isinstance(e, ast.Name) and e.id in self.sorts:
            so = self.sorts[e.id]
            if so == "val0":
                return "(Some %s)" % e.id, "val"
            if so in ("val", "olist"):
                return e.id, so
            fail(e, "use of %s" % e.id)
        if isinstance(e, ast.Attribute) and isinstance(e.value, ast.Name) and e.value.id == "self" and e.attr in self.ATTRS:
            return "(Some (%s self_))" % self.ATTRS[e.attr], "olist"
        if isinstance(e, ast.Subscript):
            if isinstance(e.value, ast.Name) and e.value.id == "objdict":
                if isinstance(e.slice, ast.Constant) and type(e.slice.value) is str:
                    return "(env_get objdict %s)" % coq_str(e.slice.value), "olist"
                k, sk = self.vterm(e.slice)
                if sk != "val":
                    fail(e, "objdict key")
                return "(env_get_v objdict %s)" % k, "olist"
            v, sv = self.vterm(e.value)
            if sv == "val" and isinstance(e.slice, ast.Constant) and type(e.slice.value) is int:
                return "(pv_sub %s (%d)%%Z)" % (v, e.slice.value), "val"
            fail(e, "subscript")
        if isinstance(e, ast.Call) and isinstance(e.func, ast.Name) and e.func.id == "len" and len(e.args) == 1 and not e.keywords:
            v, sv = self.vterm(e.args[0])
            if sv == "val":
                return "(pv_len %s)" % v, "int"
            if sv == "olist":
                return "(ol_len %s)" % v, "int"
            fail(e, "len of %s" % sv)
        if isinstance(e, ast.IfExp) and isinstance(e.test, ast.Name) and e.test.id == "objdict":
            a, sa = self.vterm(e.body)
            b, sb = self.vterm(e.orelse)
            if sa != sb:
                fail(e, "conditional expression sorts")
            return "(if env_true objdict then %s else %s)" % (a, b), sa
        fail(e, "term %s" % ast.unparse(e))

    def as_int(self, e):
        v, sv = self.vterm(e)
        if sv == "int":
            return v
        if sv == "val":
            return "(pv_int %s)" % v
        fail(e, "int operand of sort %s" % sv)

    def cond(self, e):
        if isinstance(e, ast.BoolOp):
            parts = [self.cond(v) for v in e.values]
            op = "c_or" if isinstance(e.op, ast.Or) else "c_and"
            out = parts[-1]
            for p in reversed(parts[:-1]):
                out = "(%s %s %s)" % (op, p, out)
            return out
        if isinstance(e, ast.UnaryOp) and isinstance(e.op, ast.Not):
            if isinstance(e.operand, ast.Name) and self.sorts.get(e.operand.id) == "olist":
                return "(ol_empty %s)" % e.operand.id
            return "(c_not %s)" % self.cond(e.operand)
        if isinstance(e, ast.Compare):
            operands = [e.left] + list(e.comparators)
            # type(x) != T
            if len(e.ops) == 1 and isinstance(e.left, ast.Call) and isinstance(e.left.func, ast.Name) and e.left.func.id == "type" \
                    and len(e.left.args) == 1 and not e.left.keywords and isinstance(e.comparators[0], ast.Name) and e.comparators[0].id in self.TYPES:
                v, sv = self.vterm(e.left.args[0])
                if sv != "val":
                    fail(e, "type() of %s" % sv)
                t = "(cv_type_ne %s %s)" % (v, self.TYPES[e.comparators[0].id])
                if isinstance(e.ops[0], ast.NotEq):
                    return t
                if isinstance(e.ops[0], ast.Eq):
                    return "(c_not %s)" % t
                fail(e, "type comparison operator")
            if len(e.ops) == 1 and isinstance(e.ops[0], (ast.In, ast.NotIn)):
                v, sv = self.vterm(e.left)
                rhs = e.comparators[0]
                if sv != "val" or not isinstance(rhs, ast.List) or not all(isinstance(x, ast.Constant) and type(x.value) is str for x in rhs.elts):
                    fail(e, "`in` needs a value and a list of str constants")
                t = "(cv_str_in %s [%s])" % (v, "; ".join(coq_str(x.value) for x in rhs.elts))
                return t if isinstance(e.ops[0], ast.In) else "(c_not %s)" % t
            if len(e.ops) == 1 and isinstance(e.ops[0], (ast.Eq, ast.NotEq)) and isinstance(e.comparators[0], ast.Constant) and type(e.comparators[0].value) is str:
                v, sv = self.vterm(e.left)
                if sv != "val":
                    fail(e, "str comparison of %s" % sv)
                t = "(cv_str_eq %s %s)" % (v, coq_str(e.comparators[0].value))
                return t if isinstance(e.ops[0], ast.Eq) else "(c_not %s)" % t
            # (chained) integer comparison: a op b op c == (a op b) and (b op c), every operand evaluated once (all are pure)
            parts = []
            for l, op, r in zip(operands[:-1], e.ops, operands[1:]):
                a, b = self.as_int(l), self.as_int(r)
                m = {ast.Eq: "(cv_z ZEq %s %s)" % (a, b), ast.NotEq: "(c_not (cv_z ZEq %s %s))" % (a, b),
                     ast.Lt: "(cv_z ZLt %s %s)" % (a, b), ast.LtE: "(cv_z ZLe %s %s)" % (a, b),
                     ast.Gt: "(cv_z ZLt %s %s)" % (b, a), ast.GtE: "(cv_z ZLe %s %s)" % (b, a)}
                if type(op) not in m:
                    fail(e, "comparison operator")
                parts.append(m[type(op)])
            out = parts[-1]
            for p in reversed(parts[:-1]):
                out = "(c_and %s %s)" % (p, out)
            return out
        fail(e, "condition %s" % ast.unparse(e))

    def check_msg(self, e):
        if isinstance(e, ast.Call) and isinstance(e.func, ast.Attribute) and e.func.attr == "format" and not e.keywords \
                and isinstance(e.func.value, ast.Constant) and type(e.func.value.value) is str \
                and all(isinstance(a, ast.Name) and (a.id in self.sorts or a.id in self.msgvars) for a in e.args):
            return
        if isinstance(e, ast.Name) and e.id in self.msgvars:
            return
        if isinstance(e, ast.Constant) and type(e.value) is str:
            return
        if isinstance(e, ast.BinOp) and isinstance(e.op, ast.Add):
            self.check_msg(e.left); self.check_msg(e.right)
            return
        fail(e, "message expression %s" % ast.unparse(e))

    def fresh_ok(self, name, node):
        if name in ("self", "self_") or name in self.msgvars:
            fail(node, "assignment to %s" % name)

    def body(self, stmts):
        """continuation-style translation -> coq text of type fres"""
        if not stmts:
            return "FPass"
        s, rest = stmts[0], stmts[1:]
        if isinstance(s, ast.Expr) and isinstance(s.value, ast.Constant) and type(s.value.value) is str:
            return self.body(rest)
        # if not objdict: objdict = dict(state=self._states, ...)
        if isinstance(s, ast.If) and not s.orelse and isinstance(s.test, ast.UnaryOp) and isinstance(s.test.op, ast.Not) \
                and isinstance(s.test.operand, ast.Name) and s.test.operand.id == "objdict" and len(s.body) == 1 \
                and isinstance(s.body[0], ast.Assign) and len(s.body[0].targets) == 1 and isinstance(s.body[0].targets[0], ast.Name) \
                and s.body[0].targets[0].id == "objdict":
            c = s.body[0].value
            if not (isinstance(c, ast.Call) and isinstance(c.func, ast.Name) and c.func.id == "dict" and not c.args
                    and sorted(k.arg for k in c.keywords) == sorted(self.KEYS)):
                fail(s, "objdict default must be dict(state=..., povm=..., gate=..., mprocess=...)")
            fields = {}
            for k in c.keywords:
                v, sv = self.vterm(k.value)
                if not (isinstance(k.value, ast.Attribute) and sv == "olist"):
                    fail(s, "dict value %s" % ast.unparse(k.value))
                fields[k.arg] = self.ATTRS[k.value.attr] + " self_"
            mk = "(mkcfg (%s) (%s) (%s) (%s))" % tuple(fields[k] for k in self.KEYS)
            return "(let objdict := (if env_true objdict then objdict else Some %s) in\n   %s)" % (mk, self.body(rest))
        if isinstance(s, ast.If):
            c, r = self.if_stmt(s)
            return "(f_if %s\n      %s\n   %s)" % (c, r, self.body(rest))
        if isinstance(s, ast.Assign) and len(s.targets) == 1:
            tg = s.targets[0]
            if isinstance(tg, ast.Tuple) and isinstance(s.value, ast.Tuple) and len(tg.elts) == len(s.value.elts) and all(isinstance(x, ast.Name) for x in tg.elts):
                vals = [self.vterm(v) for v in s.value.elts]      # all right-hand sides first
                for x in tg.elts:
                    self.fresh_ok(x.id, s)
                    if x.id in self.sorts:
                        fail(s, "rebinding %s" % x.id)
                tmp = ["%s_" % x.id for x in tg.elts]
                for x, (v, sv) in zip(tg.elts, vals):
                    if sv not in ("val", "olist"):
                        fail(s, "assigned sort %s" % sv)
                # evaluate into temporaries, then bind the names (tuple assignment is simultaneous)
                for x, (v, sv) in zip(tg.elts, vals):
                    self.sorts[x.id] = sv
                inner = self.body(rest)
                out = inner
                for x, (v, sv) in reversed(list(zip(tg.elts, vals))):
                    out = "(f_bind %s (fun %s =>\n   %s))" % (v, x.id, out)
                return out
            if isinstance(tg, ast.Name):
                self.fresh_ok(tg.id, s)
                if tg.id in self.sorts:
                    fail(s, "rebinding %s" % tg.id)
                v, sv = self.vterm(s.value)
                if sv not in ("val", "olist"):
                    fail(s, "assigned sort %s" % sv)
                self.sorts[tg.id] = sv
                return "(f_bind %s (fun %s =>\n   %s))" % (v, tg.id, self.body(rest))
        fail(s, "statement %s" % ast.unparse(s)[:80])


def translate_item(repo):
    tree = ast.parse(open(os.path.join(repo, "quara/qcircuit/experiment.py")).read())
    f = find_method(tree, "Experiment", "_validate_schedule_item")
    a = f.args
    if a.vararg or a.kwarg or a.kwonlyargs or a.posonlyargs or f.decorator_list or [x.arg for x in a.args] != ["self", "item", "objdict"] \
            or len(a.defaults) != 1 or not (isinstance(a.defaults[0], ast.Constant) and a.defaults[0].value is None):
        raise Unsupported("_validate_schedule_item: expected (self, item, objdict=None)")
    v = ItemValidator(f, "gen_validate_schedule_item")
    body = v.body(list(f.body))
    return "Definition gen_validate_schedule_item (self_ : cfg) (objdict : option cfg) (item : pyval) : fres :=\n   %s." % body


# ================================================================================================ procedures (part 3 of C20_PySem.v)
KIND_OF_ATTR = {"_states": "KState", "_povms": "KPovm", "_gates": "KGate", "_mprocesses": "KMprocess"}
FIELD_OF_ATTR = {"_states": "c_states", "_povms": "c_povms", "_gates": "c_gates", "_mprocesses": "c_mprocesses"}
ATTR_OF_KEY = {"state": "_states", "povm": "_povms", "gate": "_gates", "mprocess": "_mprocesses"}
CLASS_OF_ATTR = {"_states": "State", "_povms": "Povm", "_gates": "Gate", "_mprocesses": "MProcess"}
KEYS = ["state", "povm", "gate", "mprocess"]
KIND_OF_KEY = {"state": "KState", "povm": "KPovm", "gate": "KGate", "mprocess": "KMprocess"}


def is_doc(s):
    return isinstance(s, ast.Expr) and isinstance(s.value, ast.Constant) and type(s.value.value) is str


def harmless(e, bound, handler=None):
    """message expressions: no effect, cannot raise provided every name in `bound` is bound (definite assignment is the
    caller's business).  handler: name bound by `except ... as NAME` (NAME.args[0] is allowed)."""
    if isinstance(e, ast.Constant) and type(e.value) in (str, int):
        return
    if isinstance(e, ast.Name):
        if e.id in bound:
            return
        fail(e, "name %s is not definitely bound here" % e.id)
    if isinstance(e, ast.JoinedStr):
        for v in e.values:
            if isinstance(v, ast.Constant) and type(v.value) is str:
                continue
            if isinstance(v, ast.FormattedValue) and v.format_spec is None:
                harmless(v.value, bound, handler)
                continue
            fail(e, "f-string field")
        return
    if isinstance(e, ast.BinOp) and isinstance(e.op, (ast.Add, ast.Sub)):
        harmless(e.left, bound, handler); harmless(e.right, bound, handler)
        return
    if isinstance(e, ast.Call) and not e.keywords:
        f = e.func
        if isinstance(f, ast.Attribute) and f.attr == "format" and isinstance(f.value, ast.Constant) and type(f.value.value) is str:
            for a in e.args:
                harmless(a, bound, handler)
            return
        if isinstance(f, ast.Name) and f.id == "str" and len(e.args) == 1:
            harmless(e.args[0], bound, handler)
            return
        if isinstance(f, ast.Name) and f.id == "len" and len(e.args) == 1 and isinstance(e.args[0], ast.Attribute) \
                and isinstance(e.args[0].value, ast.Name) and e.args[0].value.id == "self" \
                and e.args[0].attr in ("schedules", "_schedules", "_states", "_povms", "_gates", "_mprocesses"):
            return
    if handler and isinstance(e, ast.Subscript) and isinstance(e.value, ast.Attribute) and e.value.attr == "args" \
            and isinstance(e.value.value, ast.Name) and e.value.value.id == handler and isinstance(e.slice, ast.Constant) and e.slice.value == 0:
        return
    fail(e, "message expression %s" % ast.unparse(e)[:60])


def raise_name(s, bound, handler=None):
    """`raise Name(<harmless>)` -> Name"""
    if not isinstance(s, ast.Raise) or s.cause is not None or not isinstance(s.exc, ast.Call) or not isinstance(s.exc.func, ast.Name) \
            or s.exc.keywords or len(s.exc.args) != 1:
        fail(s, "expected `raise Name(<message>)`")
    harmless(s.exc.args[0], bound, handler)
    return s.exc.func.id


def message_then_raise(body, bound, handler=None):
    """<message statements> raise Name(msg) -> Name"""
    bound = set(bound)
    if not body:
        raise Unsupported("empty block where a raise is expected")
    for b in body[:-1]:
        if isinstance(b, ast.Assign) and len(b.targets) == 1 and isinstance(b.targets[0], ast.Name):
            harmless(b.value, bound, handler)
            bound.add(b.targets[0].id)
        elif isinstance(b, ast.AugAssign) and isinstance(b.target, ast.Name) and isinstance(b.op, ast.Add) and b.target.id in bound:
            harmless(b.value, bound, handler)
        else:
            fail(b, "statement before raise")
    return raise_name(body[-1], bound, handler)


class Proc:
    """statements of Experiment._validate_schedules / __init__ / setters.  self_cfg: Coq text of the cfg of `self`;
    self_exp: Coq name of the exp when the procedure may read self._schedules / assign attributes (else None)."""

    def __init__(self, self_cfg, self_exp=None):
        self.self_cfg, self.self_exp = self_cfg, self_exp
        self.sorts = {}            # python name -> sort: scheds | sched | pyval | env | olist | optlist
        self.assigned_attrs = None  # constructor: set of self attributes assigned so far (None: every attribute exists)
        self.type_roles = {}       # name -> class name accepted in self._validate_type(name, Class)

    # ---- reading self
    def self_list(self, attr, node):
        if attr not in FIELD_OF_ATTR:
            fail(node, "self.%s" % attr)
        if self.assigned_attrs is not None and attr not in self.assigned_attrs:
            fail(node, "self.%s is read before it is assigned" % attr)
        return "(%s %s)" % (FIELD_OF_ATTR[attr], self.self_cfg)

    def need_all_lists(self, node):
        if self.assigned_attrs is not None and not all(a in self.assigned_attrs for a in FIELD_OF_ATTR):
            fail(node, "a validator is called before all four object lists are assigned")

    def olist(self, e):
        """expression denoting an object list -> coq : list bool"""
        if isinstance(e, ast.Name) and self.sorts.get(e.id) == "olist":
            return e.id
        if isinstance(e, ast.Attribute) and isinstance(e.value, ast.Name) and e.value.id == "self":
            return self.self_list(e.attr, e)
        fail(e, "object list expression %s" % ast.unparse(e))

    def mkcfg_of_dict(self, c):
        if not (isinstance(c, ast.Call) and isinstance(c.func, ast.Name) and c.func.id == "dict" and not c.args
                and sorted(k.arg for k in c.keywords) == sorted(KEYS)):
            fail(c, "expected dict(state=..., povm=..., gate=..., mprocess=...)")
        fields = {k.arg: self.olist(k.value) for k in c.keywords}
        return "(mkcfg %s %s %s %s)" % tuple(fields[k] for k in KEYS)

    # ---- calls of the validators -> coq : xres
    def xcall(self, c):
        if not (isinstance(c, ast.Call) and isinstance(c.func, ast.Attribute) and isinstance(c.func.value, ast.Name) and c.func.value.id == "self"):
            fail(c, "call %s" % ast.unparse(c)[:60])
        name = c.func.attr
        kw = {k.arg: k.value for k in c.keywords}
        if None in kw:
            fail(c, "**kwargs")
        def env_arg():
            if "objdict" not in kw:
                return "None"
            v = kw["objdict"]
            if isinstance(v, ast.Name) and self.sorts.get(v.id) == "env":
                return v.id
            fail(c, "objdict argument")
        if name == "_validate_schedule_item":
            if len(c.args) != 1 or set(kw) - {"objdict"} or not (isinstance(c.args[0], ast.Name) and self.sorts.get(c.args[0].id) == "pyval"):
                fail(c, "arguments of _validate_schedule_item")
            self.need_all_lists(c)
            return "(x_of_fres (gen_validate_schedule_item %s %s %s))" % (self.self_cfg, env_arg(), c.args[0].id)
        if name == "_validate_schedule_order":
            if len(c.args) != 1 or kw or not (isinstance(c.args[0], ast.Name) and self.sorts.get(c.args[0].id) == "sched"):
                fail(c, "arguments of _validate_schedule_order")
            return "(x_call_order gen_validate_schedule_order %s)" % c.args[0].id
        if name == "_validate_schedules":
            if len(c.args) != 1 or set(kw) - {"objdict"}:
                fail(c, "arguments of _validate_schedules")
            a = c.args[0]
            if isinstance(a, ast.Name) and self.sorts.get(a.id) == "scheds":
                ss = a.id
            elif isinstance(a, ast.Attribute) and isinstance(a.value, ast.Name) and a.value.id == "self" and a.attr == "_schedules" and self.self_exp:
                if self.assigned_attrs is not None and "_schedules" not in self.assigned_attrs:
                    fail(c, "self._schedules read before assignment")
                ss = "(e_scheds %s)" % self.self_exp
            else:
                fail(c, "schedules argument")
            self.need_all_lists(c)
            return "(gen_validate_schedules %s %s %s)" % (self.self_cfg, env_arg(), ss)
        fail(c, "call of self.%s" % name)

    # ---- effect-free statement blocks -> coq : xres
    def xstmts(self, stmts, bound):
        bound = set(bound)
        parts = []
        for s in stmts:
            if is_doc(s):
                continue
            # NAME[, NAME] = None[, None]   (pre-binding of loop variables)
            if isinstance(s, ast.Assign) and len(s.targets) == 1:
                tg, v = s.targets[0], s.value
                names = [tg] if isinstance(tg, ast.Name) else (list(tg.elts) if isinstance(tg, ast.Tuple) else None)
                vals = [v] if isinstance(tg, ast.Name) else (list(v.elts) if isinstance(v, ast.Tuple) else None)
                if names and vals and len(names) == len(vals) and all(isinstance(n, ast.Name) for n in names) \
                        and all(isinstance(x, ast.Constant) and x.value is None for x in vals) \
                        and not any(n.id in self.sorts for n in names):
                    bound |= {n.id for n in names}
                    continue
            parts.append(self.xstmt(s, bound))
        out = "XPass"
        for p_ in reversed(parts):
            out = p_ if out == "XPass" else "(x_seq %s\n      %s)" % (p_, out)
        return out

    def handler(self, h, bound):
        """except (A, B) as e: <messages> raise C(msg)  -> ([A, B], C)"""
        t = h.type
        if isinstance(t, ast.Name):
            names = [t.id]
        elif isinstance(t, ast.Tuple) and t.elts and all(isinstance(x, ast.Name) for x in t.elts):
            names = [x.id for x in t.elts]
        else:
            fail(h, "except clause must name exception classes")
        b = set(bound)
        if h.name:
            b.add(h.name)
        return names, message_then_raise(h.body, b, h.name)

    def xtry(self, s, bound):
        if s.finalbody or len(s.handlers) != 1:
            fail(s, "try must have exactly one except clause and no finally")
        names, raised = self.handler(s.handlers[0], bound)     # names bound INSIDE the try body are not definitely bound
        body = self.xstmts(s.body, bound)
        return "(x_try %s\n         [%s] (XRaise %s))" % (body, "; ".join(coq_str(n) for n in names), coq_str(raised))

    def xstmt(self, s, bound):
        if isinstance(s, ast.Try):
            if s.orelse:
                fail(s, "try/else in an effect-free block")
            return self.xtry(s, bound)
        if isinstance(s, ast.For) and not s.orelse:
            it = s.iter
            enum = isinstance(it, ast.Call) and isinstance(it.func, ast.Name) and it.func.id == "enumerate" and len(it.args) == 1 and not it.keywords
            src = it.args[0] if enum else it
            if not isinstance(src, ast.Name):
                fail(s, "loop source")
            if enum:
                if not (isinstance(s.target, ast.Tuple) and len(s.target.elts) == 2 and all(isinstance(x, ast.Name) for x in s.target.elts)):
                    fail(s, "enumerate loop target")
                idx, var = s.target.elts[0].id, s.target.elts[1].id
            else:
                if not isinstance(s.target, ast.Name):
                    fail(s, "loop target")
                idx, var = None, s.target.id
            so = self.sorts.get(src.id)
            if so not in ("scheds", "sched") or var in self.sorts or (idx and idx in self.sorts):
                fail(s, "loop over %s / rebinding of loop variables" % src.id)
            self.sorts[var] = "sched" if so == "scheds" else "pyval"
            body = self.xstmts(s.body, bound | {var} | ({idx} if idx else set()))
            del self.sorts[var]
            return "(%s %s (fun %s =>\n      %s))" % ("x_for" if so == "scheds" else "x_for_sched", src.id, var, body)
        if isinstance(s, ast.Expr) and isinstance(s.value, ast.Call):
            return self.xcall(s.value)
        fail(s, "statement %s" % ast.unparse(s)[:60])

    # ---- statements with effects on self -> coq : exp * xres
    def sstmts(self, stmts):
        E = self.self_exp
        if not stmts:
            return "(%s, XPass)" % E
        s, rest = stmts[0], stmts[1:]
        if is_doc(s):
            return self.sstmts(rest)
        if isinstance(s, ast.Expr) and isinstance(s.value, ast.Call):
            c = s.value
            f = c.func
            if isinstance(f, ast.Attribute) and isinstance(f.value, ast.Name) and f.value.id == "self":
                if f.attr == "_validate_type":
                    # the abstraction: a list argument is a list of objects-of-the-right-class or None
                    if len(c.args) != 2 or c.keywords or not (isinstance(c.args[0], ast.Name) and isinstance(c.args[1], ast.Name)) \
                            or self.type_roles.get(c.args[0].id) != c.args[1].id or self.sorts.get(c.args[0].id) != "olist":
                        fail(s, "_validate_type(%s) does not check the list against its own class" % ast.unparse(c)[:60])
                    return self.sstmts(rest)
                if f.attr == "reset_seed_data" and self.assigned_attrs is not None:
                    return self.sstmts(rest)          # seed bookkeeping: no effect on lists / schedules
                return "(s_then %s %s\n   %s)" % (self.xcall(c), E, self.sstmts(rest))
        if isinstance(s, (ast.Assign, ast.AnnAssign)):
            tg = s.targets[0] if isinstance(s, ast.Assign) and len(s.targets) == 1 else (s.target if isinstance(s, ast.AnnAssign) else None)
            v = s.value
            if tg is None or v is None:
                fail(s, "assignment")
            if isinstance(tg, ast.Name):
                if tg.id == "objdict" and "objdict" not in self.sorts:
                    mk = self.mkcfg_of_dict(v)
                    self.sorts["objdict"] = "env"
                    return "(let objdict := Some %s in\n   %s)" % (mk, self.sstmts(rest))
                # X = [] if X is None else X
                if self.sorts.get(tg.id) == "optlist" and isinstance(v, ast.IfExp) and isinstance(v.body, ast.List) and not v.body.elts \
                        and isinstance(v.orelse, ast.Name) and v.orelse.id == tg.id and isinstance(v.test, ast.Compare) and len(v.test.ops) == 1 \
                        and isinstance(v.test.ops[0], ast.Is) and isinstance(v.test.left, ast.Name) and v.test.left.id == tg.id \
                        and isinstance(v.test.comparators[0], ast.Constant) and v.test.comparators[0].value is None:
                    self.sorts[tg.id] = "olist"
                    return "(let %s := or_nil %s in\n   %s)" % (tg.id, tg.id, self.sstmts(rest))
            if isinstance(tg, ast.Attribute) and isinstance(tg.value, ast.Name) and tg.value.id == "self":
                if tg.attr in KIND_OF_ATTR and isinstance(v, ast.Name) and self.sorts.get(v.id) == "olist" \
                        and self.type_roles.get(v.id) == CLASS_OF_ATTR[tg.attr]:
                    if self.assigned_attrs is not None:
                        self.assigned_attrs.add(tg.attr)
                    return "(let %s := set_objs %s %s %s in\n   %s)" % (E, E, KIND_OF_ATTR[tg.attr], v.id, self.sstmts(rest))
                if tg.attr == "_schedules" and isinstance(v, ast.Name) and self.sorts.get(v.id) == "scheds":
                    if self.assigned_attrs is not None:
                        self.assigned_attrs.add(tg.attr)
                    return "(let %s := set_scheds %s %s in\n   %s)" % (E, E, v.id, self.sstmts(rest))
                if tg.attr == "_seed_data" and self.assigned_attrs is not None:
                    return self.sstmts(rest)          # seed bookkeeping
            fail(s, "assignment %s" % ast.unparse(s)[:60])
        if isinstance(s, ast.Try):
            if s.finalbody or len(s.handlers) != 1:
                fail(s, "try must have exactly one except clause and no finally")
            names, raised = self.handler(s.handlers[0], set(self.sorts))
            body = self.xstmts(s.body, set(self.sorts))
            t = "(x_try %s\n         [%s] (XRaise %s))" % (body, "; ".join(coq_str(n) for n in names), coq_str(raised))
            return "(s_then %s %s\n   %s)" % (t, E, self.sstmts(list(s.orelse) + rest))
        fail(s, "statement %s" % ast.unparse(s)[:60])


def experiment_tree(repo):
    return ast.parse(open(os.path.join(repo, "quara/qcircuit/experiment.py")).read())


def translate_validate_schedules(repo):
    f = find_method(experiment_tree(repo), "Experiment", "_validate_schedules")
    a = f.args
    if a.vararg or a.kwarg or a.kwonlyargs or a.posonlyargs or f.decorator_list or [x.arg for x in a.args] != ["self", "schedules", "objdict"] \
            or len(a.defaults) != 1 or not (isinstance(a.defaults[0], ast.Constant) and a.defaults[0].value is None):
        raise Unsupported("_validate_schedules: expected (self, schedules, objdict=None)")
    p = Proc("self_")
    p.sorts = {"schedules": "scheds", "objdict": "env"}
    body = p.xstmts(list(f.body), {"self", "schedules", "objdict"})
    return "Definition gen_validate_schedules (self_ : cfg) (objdict : option cfg) (schedules : list rsched) : xres :=\n   %s." % body


def find_setter(tree, cls, prop):
    for n in ast.walk(tree):
        if isinstance(n, ast.ClassDef) and n.name == cls:
            for m in n.body:
                if isinstance(m, ast.FunctionDef) and m.name == prop and len(m.decorator_list) == 1:
                    d = m.decorator_list[0]
                    if isinstance(d, ast.Attribute) and d.attr == "setter" and isinstance(d.value, ast.Name) and d.value.id == prop:
                        return m
    raise Unsupported("setter %s.%s not found" % (cls, prop))


def check_trivial_getter(tree, cls, prop, attr):
    """@property def prop(self): return self.attr | list(self.attr) | copy.copy(self.attr)   (same VALUE in every case)"""
    def is_attr(e):
        return isinstance(e, ast.Attribute) and isinstance(e.value, ast.Name) and e.value.id == "self" and e.attr == attr
    for n in ast.walk(tree):
        if isinstance(n, ast.ClassDef) and n.name == cls:
            for m in n.body:
                if isinstance(m, ast.FunctionDef) and m.name == prop and len(m.decorator_list) == 1 and isinstance(m.decorator_list[0], ast.Name) \
                        and m.decorator_list[0].id == "property":
                    body = [s for s in m.body if not is_doc(s)]
                    if len(body) == 1 and isinstance(body[0], ast.Return):
                        v = body[0].value
                        if is_attr(v):
                            return
                        if isinstance(v, ast.Call) and len(v.args) == 1 and not v.keywords and is_attr(v.args[0]) and \
                                ((isinstance(v.func, ast.Name) and v.func.id == "list") or
                                 (isinstance(v.func, ast.Attribute) and v.func.attr == "copy" and isinstance(v.func.value, ast.Name) and v.func.value.id == "copy")):
                            return
                    raise Unsupported("property %s.%s does not return (a copy of) self.%s" % (cls, prop, attr))
    raise Unsupported("property %s.%s not found" % (cls, prop))


def translate_setters(repo):
    tree = experiment_tree(repo)
    out = []
    for prop, attr in (("states", "_states"), ("povms", "_povms"), ("gates", "_gates"), ("mprocesses", "_mprocesses")):
        f = find_setter(tree, "Experiment", prop)
        plain_params_nodeco(f, ["self", "value"])
        p = Proc("(e_cfg self_)", "self_")
        p.sorts = {"value": "olist"}
        p.type_roles = {"value": CLASS_OF_ATTR[attr]}
        out.append("Definition gen_set_%s (self_ : exp) (value : list bool) : exp * xres :=\n   %s." % (prop, p.sstmts(list(f.body))))
    f = find_setter(tree, "Experiment", "schedules")
    plain_params_nodeco(f, ["self", "value"])
    p = Proc("(e_cfg self_)", "self_")
    p.sorts = {"value": "scheds"}
    out.append("Definition gen_set_schedules (self_ : exp) (value : list rsched) : exp * xres :=\n   %s." % p.sstmts(list(f.body)))
    return "\n".join(out)


def plain_params_nodeco(fdef, names):
    a = fdef.args
    if a.vararg or a.kwarg or a.kwonlyargs or a.posonlyargs or a.defaults or [x.arg for x in a.args] != names:
        raise Unsupported("%s: expected parameters %s without defaults" % (fdef.name, names))


def translate_init(repo):
    f = find_method(experiment_tree(repo), "Experiment", "__init__")
    a = f.args
    names = [x.arg for x in a.args]
    if a.vararg or a.kwarg or a.kwonlyargs or a.posonlyargs or f.decorator_list or names != ["self", "schedules", "states", "povms", "gates", "mprocesses", "seed_data"] \
            or len(a.defaults) != 5 or not all(isinstance(d, ast.Constant) and d.value is None for d in a.defaults):
        raise Unsupported("Experiment.__init__: expected (self, schedules, states=None, povms=None, gates=None, mprocesses=None, seed_data=None)")
    p = Proc("(e_cfg self_)", "self_")
    p.sorts = {"schedules": "scheds", "states": "optlist", "povms": "optlist", "gates": "optlist", "mprocesses": "optlist"}
    p.type_roles = {"states": "State", "povms": "Povm", "gates": "Gate", "mprocesses": "MProcess"}
    p.assigned_attrs = set()
    body = p.sstmts(list(f.body))
    if not all(x in p.assigned_attrs for x in list(FIELD_OF_ATTR) + ["_schedules"]):
        raise Unsupported("Experiment.__init__ does not assign all of _states, _povms, _gates, _mprocesses, _schedules")
    return ("Definition gen_experiment_init (schedules : list rsched) (states povms gates mprocesses : option (list bool)) : exp * xres :=\n"
            "   (let self_ := mkexp (mkcfg [] [] [] []) [] in\n   %s).") % body


class IndexValidator(ItemValidator):
    """Experiment._validate_schedule_index(self, schedule_index): the item vocabulary plus len(self.schedules)"""

    def __init__(self, fdef, coq_name):
        Validator.__init__(self, fdef, "schedule_index", coq_name)
        self.sorts = {"schedule_index": "val0"}

    def vterm(self, e):
        if isinstance(e, ast.Call) and isinstance(e.func, ast.Name) and e.func.id == "len" and len(e.args) == 1 and not e.keywords \
                and isinstance(e.args[0], ast.Attribute) and isinstance(e.args[0].value, ast.Name) and e.args[0].value.id == "self" \
                and e.args[0].attr in ("schedules", "_schedules"):
            return "(sl_len (e_scheds self_))", "int"
        if isinstance(e, ast.Name) and e.id == "objdict":
            fail(e, "objdict")
        return ItemValidator.vterm(self, e)

    def check_msg(self, e):
        harmless(e, set(self.sorts) | self.msgvars)


def translate_schedule_index(repo):
    tree = experiment_tree(repo)
    check_trivial_getter(tree, "Experiment", "schedules", "_schedules")
    f = find_method(tree, "Experiment", "_validate_schedule_index")
    plain_params(f, ["self", "schedule_index"])
    v = IndexValidator(f, "gen_validate_schedule_index")
    return "Definition gen_validate_schedule_index (self_ : exp) (schedule_index : pyval) : fres :=\n   %s." % v.body(list(f.body))


def translate_calc_prob_dist(repo):
    """Experiment.calc_prob_dist as a small straight-line procedure (statement ORDER of the independent preparations and a few
    equivalent spellings are tolerated):
      self._validate_schedule_index(schedule_index)                       (must precede the schedule lookup)
      S = self.schedules[schedule_index] | self._schedules[schedule_index]
      M = dict(state=self._states, gate=..., povm=..., mprocess=...)
      T = collections.deque() | [] | list()
      for X in S:   k, i = X | k = X[0]; i = X[1]      t = M[k][i]      if not t | if t is None: <messages> raise E(..)
                    T.appendleft(t) | T.insert(0, t)   (collect in reverse)      or      T.append(t)   (collect in order)
      R = op.compose_qoperations(*T | *reversed(T))  ;  return R.ps        or   return op.compose_qoperations(...).ps"""
    tree = experiment_tree(repo)
    f = find_method(tree, "Experiment", "calc_prob_dist")
    plain_params(f, ["self", "schedule_index"])
    body = [x for x in f.body if not is_doc(x)]
    st = {"validated": False, "sched": None, "kmap": None, "mk": None, "acc": None, "loop": None, "result": None, "done": False}
    used = {"self", "schedule_index"}

    def fresh(name, node):
        if name in used:
            fail(node, "rebinding of %s" % name)
        used.add(name)

    def self_attr(e, names):
        return isinstance(e, ast.Attribute) and isinstance(e.value, ast.Name) and e.value.id == "self" and e.attr in names

    def compose_call(v):
        """op.compose_qoperations(*T) -> ('plain'|'reversed')"""
        if not (isinstance(v, ast.Call) and isinstance(v.func, ast.Attribute) and v.func.attr == "compose_qoperations" and not v.keywords
                and len(v.args) == 1 and isinstance(v.args[0], ast.Starred)):
            return None
        a = v.args[0].value
        if isinstance(a, ast.Name) and a.id == st["acc"]:
            return "plain"
        if isinstance(a, ast.Call) and isinstance(a.func, ast.Name) and a.func.id == "reversed" and len(a.args) == 1 and not a.keywords \
                and isinstance(a.args[0], ast.Name) and a.args[0].id == st["acc"]:
            return "reversed"
        return None

    def loop(lp):
        if lp.orelse or not isinstance(lp.target, ast.Name) or not (isinstance(lp.iter, ast.Name) and lp.iter.id == st["sched"]):
            fail(lp, "expected `for item in <schedule>:`")
        item = lp.target.id
        fresh(item, lp)
        k = i = t = exc = direction = None
        for b in lp.body:
            if isinstance(b, ast.Assign) and len(b.targets) == 1:
                tg, v = b.targets[0], b.value
                if isinstance(tg, ast.Tuple) and len(tg.elts) == 2 and all(isinstance(x, ast.Name) for x in tg.elts) and isinstance(v, ast.Name) \
                        and v.id == item and k is None and i is None:
                    k, i = tg.elts[0].id, tg.elts[1].id
                    fresh(k, b); fresh(i, b)
                    continue
                if isinstance(tg, ast.Name) and isinstance(v, ast.Subscript) and isinstance(v.value, ast.Name) and v.value.id == item \
                        and isinstance(v.slice, ast.Constant) and v.slice.value in (0, 1) and type(v.slice.value) is int:
                    if v.slice.value == 0 and k is None:
                        k = tg.id; fresh(k, b); continue
                    if v.slice.value == 1 and i is None:
                        i = tg.id; fresh(i, b); continue
                if isinstance(tg, ast.Name) and t is None and k and i and isinstance(v, ast.Subscript) and isinstance(v.value, ast.Subscript) \
                        and isinstance(v.value.value, ast.Name) and v.value.value.id == st["kmap"] and isinstance(v.value.slice, ast.Name) \
                        and v.value.slice.id == k and isinstance(v.slice, ast.Name) and v.slice.id == i:
                    t = tg.id; fresh(t, b); continue
                fail(b, "assignment in the loop")
            if isinstance(b, ast.If) and not b.orelse and t and exc is None:
                c = b.test
                ok = (isinstance(c, ast.UnaryOp) and isinstance(c.op, ast.Not) and isinstance(c.operand, ast.Name) and c.operand.id == t) or \
                     (isinstance(c, ast.Compare) and len(c.ops) == 1 and isinstance(c.ops[0], ast.Is) and isinstance(c.left, ast.Name) and c.left.id == t
                      and isinstance(c.comparators[0], ast.Constant) and c.comparators[0].value is None)
                if not ok:
                    fail(b, "expected `if not target:` / `if target is None:`")
                exc = message_then_raise(b.body, {k, i, item})
                continue
            c = b.value if isinstance(b, ast.Expr) else None
            if isinstance(c, ast.Call) and isinstance(c.func, ast.Attribute) and isinstance(c.func.value, ast.Name) and c.func.value.id == st["acc"] \
                    and not c.keywords and t and direction is None:
                if c.func.attr == "appendleft" and len(c.args) == 1 and isinstance(c.args[0], ast.Name) and c.args[0].id == t:
                    direction = "left"; continue
                if c.func.attr == "insert" and len(c.args) == 2 and isinstance(c.args[0], ast.Constant) and c.args[0].value == 0 \
                        and type(c.args[0].value) is int and isinstance(c.args[1], ast.Name) and c.args[1].id == t:
                    direction = "left"; continue
                if c.func.attr == "append" and len(c.args) == 1 and isinstance(c.args[0], ast.Name) and c.args[0].id == t:
                    direction = "right"; continue
            fail(b, "statement in the loop: %s" % ast.unparse(b)[:60])
        if not (k and i and t and exc and direction):
            fail(lp, "the loop must unpack the item, look the object up, reject None and collect it")
        return exc, direction

    for s_ in body:
        if st["done"]:
            fail(s_, "statement after return")
        c = s_.value if isinstance(s_, ast.Expr) else None
        if isinstance(c, ast.Call) and self_attr(c.func, ["_validate_schedule_index"]) and not c.keywords and len(c.args) == 1 \
                and isinstance(c.args[0], ast.Name) and c.args[0].id == "schedule_index" and not st["validated"]:
            st["validated"] = True
            continue
        if isinstance(s_, ast.Assign) and len(s_.targets) == 1 and isinstance(s_.targets[0], ast.Name):
            name, v = s_.targets[0].id, s_.value
            if isinstance(v, ast.Subscript) and self_attr(v.value, ["schedules", "_schedules"]) and isinstance(v.slice, ast.Name) \
                    and v.slice.id == "schedule_index" and st["sched"] is None:
                if not st["validated"]:
                    fail(s_, "the schedule is looked up before the index is validated")
                if v.value.attr == "schedules":
                    check_trivial_getter(tree, "Experiment", "schedules", "_schedules")
                fresh(name, s_); st["sched"] = name
                continue
            if isinstance(v, ast.Call) and isinstance(v.func, ast.Name) and v.func.id == "dict" and st["kmap"] is None:
                st["mk"] = Proc("(e_cfg self_)", "self_").mkcfg_of_dict(v)
                fresh(name, s_); st["kmap"] = name
                continue
            empty = (isinstance(v, ast.List) and not v.elts) or \
                    (isinstance(v, ast.Call) and not v.args and not v.keywords and
                     ((isinstance(v.func, ast.Name) and v.func.id == "list") or
                      (isinstance(v.func, ast.Attribute) and v.func.attr == "deque" and isinstance(v.func.value, ast.Name) and v.func.value.id == "collections")))
            if empty and st["acc"] is None:
                fresh(name, s_); st["acc"] = name
                continue
            if st["loop"] and st["result"] is None:
                how = compose_call(v)
                if how:
                    fresh(name, s_); st["result"] = (name, how)
                    continue
            fail(s_, "assignment %s" % ast.unparse(s_)[:60])
        if isinstance(s_, ast.For) and st["sched"] and st["kmap"] and st["acc"] and st["loop"] is None:
            st["loop"] = loop(s_)
            continue
        if isinstance(s_, ast.Return) and st["loop"] and isinstance(s_.value, ast.Attribute) and s_.value.attr == "ps":
            r = s_.value.value
            if st["result"] and isinstance(r, ast.Name) and r.id == st["result"][0]:
                st["done"] = True
                continue
            if st["result"] is None and compose_call(r):
                st["result"] = (None, compose_call(r)); st["done"] = True
                continue
        fail(s_, "statement %s" % ast.unparse(s_)[:60])
    if not st["done"]:
        raise Unsupported("calc_prob_dist does not end with `return <composition>.ps`")
    exc, direction = st["loop"]
    coll = "collect_left" if direction == "left" else "collect_right"
    expr = "%s %s items [] %s" % (coll, st["mk"], coq_str(exc))
    if st["result"][1] == "reversed":
        expr = "cr_rev (%s)" % expr
    return ("Definition gen_calc_prob_dist (self_ : exp) (schedule_index : pyval) : crun :=\n"
            "   match x_of_fres (gen_validate_schedule_index self_ schedule_index) with\n"
            "   | XPass => match sl_get (e_scheds self_) (pv_int (Some schedule_index)) with\n"
            "              | Some (SSeq items) => %s\n"
            "              | _ => CRStuck\n"
            "              end\n"
            "   | XRaise e => CRRaise e\n"
            "   | XStuck => CRStuck\n"
            "   end.") % expr


def loose_msg(e, bound, flags):
    """message expressions of Experiment._validate_type: harmless() plus type(x), x.__name__, .lower(), .__str__(), set([type(t) for t in x])
    and ", ".join(x).  join can raise TypeError (non-str items): flags["may_raise"] collects the classes such expressions can raise."""
    try:
        harmless(e, bound)
        return
    except Unsupported:
        pass
    if isinstance(e, ast.Attribute) and e.attr == "__name__":
        return loose_msg(e.value, bound, flags)
    if isinstance(e, ast.BinOp) and isinstance(e.op, ast.Add):
        loose_msg(e.left, bound, flags); loose_msg(e.right, bound, flags)
        return
    if isinstance(e, ast.JoinedStr):
        for v in e.values:
            if isinstance(v, ast.FormattedValue):
                if v.format_spec is not None:
                    fail(e, "format spec")
                loose_msg(v.value, bound, flags)
        return
    if isinstance(e, ast.Call) and not e.keywords:
        f = e.func
        if isinstance(f, ast.Name) and f.id == "type" and len(e.args) == 1:
            return loose_msg(e.args[0], bound, flags)
        if isinstance(f, ast.Name) and f.id == "set" and len(e.args) == 1 and isinstance(e.args[0], ast.ListComp) and len(e.args[0].generators) == 1:
            g = e.args[0].generators[0]
            if not g.ifs and isinstance(g.target, ast.Name):
                loose_msg(g.iter, bound, flags)
                return loose_msg(e.args[0].elt, bound | {g.target.id}, flags)
        if isinstance(f, ast.Attribute) and f.attr in ("lower", "__str__") and not e.args:
            return loose_msg(f.value, bound, flags)
        if isinstance(f, ast.Attribute) and f.attr == "join" and len(e.args) == 1 and isinstance(f.value, ast.Constant) and type(f.value.value) is str:
            flags.setdefault("may_raise", set()).add("TypeError")
            return loose_msg(e.args[0], bound, flags)
        if isinstance(f, ast.Attribute) and f.attr == "format" and isinstance(f.value, ast.Constant) and type(f.value.value) is str:
            for a in e.args:
                loose_msg(a, bound, flags)
            return
    fail(e, "message expression %s" % ast.unparse(e)[:60])


def loose_block(stmts, bound, flags):
    """message statements (assignments, nested if/else on message-only conditions) ending in `raise Name(msg)` -> Name"""
    bound = set(bound)
    for i, b in enumerate(stmts):
        last = i == len(stmts) - 1
        if isinstance(b, ast.Assign) and len(b.targets) == 1 and isinstance(b.targets[0], ast.Name) and not last:
            loose_msg(b.value, bound, flags); bound.add(b.targets[0].id)
        elif isinstance(b, ast.AugAssign) and isinstance(b.target, ast.Name) and isinstance(b.op, ast.Add) and b.target.id in bound and not last:
            loose_msg(b.value, bound, flags)
        elif isinstance(b, ast.If) and not last:
            t = b.test
            if not (isinstance(t, ast.Compare) and len(t.ops) == 1 and isinstance(t.ops[0], (ast.Eq, ast.NotEq))):
                fail(b, "condition inside a message block")
            loose_msg(t.left, bound, flags); loose_msg(t.comparators[0], bound | {"list", "tuple", "str", "int"}, flags)
            for br in (b.body, b.orelse):
                for x in br:
                    if isinstance(x, ast.Assign) and len(x.targets) == 1 and isinstance(x.targets[0], ast.Name):
                        loose_msg(x.value, bound, flags); bound.add(x.targets[0].id)
                    elif isinstance(x, ast.AugAssign) and isinstance(x.target, ast.Name) and isinstance(x.op, ast.Add) and x.target.id in bound:
                        loose_msg(x.value, bound, flags)
                    else:
                        fail(x, "statement inside a message block")
        elif last and isinstance(b, ast.Raise) and b.cause is None and isinstance(b.exc, ast.Call) and isinstance(b.exc.func, ast.Name) \
                and not b.exc.keywords and len(b.exc.args) == 1:
            loose_msg(b.exc.args[0], bound, flags)
            return b.exc.func.id
        else:
            fail(b, "statement in a message block")
    raise Unsupported("message block does not end in raise")


def translate_validate_type(repo):
    """for target in targets: if target and not isinstance(target, expected_type): <messages> raise TypeError(..)"""
    f = find_method(experiment_tree(repo), "Experiment", "_validate_type")
    plain_params(f, ["self", "targets", "expected_type"])
    b = [x for x in f.body if not is_doc(x)]
    if len(b) != 1 or not (isinstance(b[0], ast.For) and not b[0].orelse and isinstance(b[0].target, ast.Name) and isinstance(b[0].iter, ast.Name)
                           and b[0].iter.id == "targets" and len(b[0].body) == 1 and isinstance(b[0].body[0], ast.If) and not b[0].body[0].orelse):
        raise Unsupported("_validate_type: expected `for target in targets: if <test>: ... raise`")
    tv = b[0].target.id
    if tv in ("self", "targets", "expected_type"):
        raise Unsupported("_validate_type: loop variable")
    def cond(e):
        if isinstance(e, ast.BoolOp):
            parts = [cond(v) for v in e.values]
            op = "c_and" if isinstance(e.op, ast.And) else "c_or"
            out = parts[-1]
            for p_ in reversed(parts[:-1]):
                out = "(%s %s %s)" % (op, p_, out)
            return out
        if isinstance(e, ast.UnaryOp) and isinstance(e.op, ast.Not):
            return "(c_not %s)" % cond(e.operand)
        if isinstance(e, ast.Name) and e.id == tv:
            return "(c_bool (elem_truthy %s))" % tv
        if isinstance(e, ast.Compare) and len(e.ops) == 1 and isinstance(e.ops[0], (ast.Is, ast.IsNot)) and isinstance(e.left, ast.Name) and e.left.id == tv \
                and isinstance(e.comparators[0], ast.Constant) and e.comparators[0].value is None:
            t = "(c_bool (negb (elem_truthy %s)))" % tv      # x is None  <->  not truthy, for None-or-object elements
            return t if isinstance(e.ops[0], ast.Is) else "(c_not %s)" % t
        if isinstance(e, ast.Call) and isinstance(e.func, ast.Name) and e.func.id == "isinstance" and not e.keywords and len(e.args) == 2 \
                and isinstance(e.args[0], ast.Name) and e.args[0].id == tv and isinstance(e.args[1], ast.Name) and e.args[1].id == "expected_type":
            return "(c_bool (elem_isinstance %s expected_type))" % tv
        fail(e, "condition %s" % ast.unparse(e)[:60])
    c = cond(b[0].body[0].test)
    flags = {}
    exc = loose_block(b[0].body[0].body, {tv, "targets", "expected_type"}, flags)
    if flags.get("may_raise", set()) - {exc}:
        raise Unsupported("_validate_type: the message block can raise %s but the statement raises %s" % (sorted(flags["may_raise"]), exc))
    return ("Definition gen_validate_type (targets : list elem) (expected_type : string) : xres :=\n"
            "   (x_for targets (fun %s => x_of_fres (f_if %s (FRaise 0 %s) FPass))).") % (tv, c, coq_str(exc))


def translate_copy(repo):
    """Experiment.copy: (copies of) the five lists handed to the validating constructor by keyword"""
    tree = experiment_tree(repo)
    f = find_method(tree, "Experiment", "copy")
    plain_params(f, ["self"])
    PROP = {"states": "_states", "povms": "_povms", "gates": "_gates", "mprocesses": "_mprocesses", "schedules": "_schedules"}
    src = {}      # local name -> attribute it is a (copy of)
    def source(e):
        """expression whose VALUE is the list stored in an attribute -> that attribute"""
        if isinstance(e, ast.Name) and e.id in src:
            return src[e.id]
        if isinstance(e, ast.Attribute) and isinstance(e.value, ast.Name) and e.value.id == "self":
            if e.attr in PROP.values():
                return e.attr
            if e.attr in PROP:
                check_trivial_getter(tree, "Experiment", e.attr, PROP[e.attr])
                return PROP[e.attr]
        if isinstance(e, ast.Call) and len(e.args) == 1 and not e.keywords and \
                ((isinstance(e.func, ast.Name) and e.func.id == "list") or
                 (isinstance(e.func, ast.Attribute) and e.func.attr == "copy" and isinstance(e.func.value, ast.Name) and e.func.value.id == "copy")):
            return source(e.args[0])
        fail(e, "expected (a shallow copy of) one of the experiment's lists")
    def ctor(c):
        if not (isinstance(c, ast.Call) and isinstance(c.func, ast.Name) and c.func.id == "Experiment" and not c.args):
            return None
        kw = {k.arg: k.value for k in c.keywords}
        if None in kw or set(kw) - (set(PROP) | {"seed_data"}) or "schedules" not in kw:
            fail(c, "keyword arguments of Experiment(...)")
        def arg(name):
            if name not in kw:
                return "None"
            a = source(kw[name])
            return "(Some (%s (e_cfg self_)))" % FIELD_OF_ATTR[a] if a in FIELD_OF_ATTR else fail(c, "argument %s" % name)
        if source(kw["schedules"]) != "_schedules":
            fail(c, "schedules argument")
        return "gen_experiment_init (e_scheds self_) %s" % " ".join(arg(n) for n in ("states", "povms", "gates", "mprocesses"))
    out = None
    for st_ in [x for x in f.body if not is_doc(x)]:
        if out == "done":
            fail(st_, "statement after return")
        if isinstance(st_, ast.Assign) and len(st_.targets) == 1 and isinstance(st_.targets[0], ast.Name) and st_.targets[0].id != "self":
            name = st_.targets[0].id
            c = ctor(st_.value)
            if c:
                if out:
                    fail(st_, "second Experiment(...)")
                out = (name, c)
                continue
            if name in src or (out and name == out[0]):
                fail(st_, "rebinding %s" % name)
            src[name] = source(st_.value)
            continue
        if isinstance(st_, ast.Return):
            if out and isinstance(st_.value, ast.Name) and st_.value.id == out[0]:
                res, out = out[1], "done"
                continue
            if not out and ctor(st_.value):
                res, out = ctor(st_.value), "done"
                continue
        fail(st_, "statement %s" % ast.unparse(st_)[:60])
    if out != "done":
        raise Unsupported("Experiment.copy does not return the new Experiment")
    return "Definition gen_copy (self_ : exp) : exp * xres :=\n   (%s)." % res


DEFAULT_METHODS = {"__init__", "_validate_schedules", "_validate_schedules_str", "_validate_schedule_item", "_validate_schedule_order",
                   "_validate_schedule_index", "_validate_type", "calc_prob_dist", "calc_prob_dists", "copy", "states", "povms", "gates",
                   "mprocesses", "schedules", "reset_seed_data"}
DEFAULT_CLASSES = [("quara/qcircuit/experiment.py", "Experiment"),
                   ("quara/protocol/qtomography/standard/standard_qtomography.py", "StandardQTomography")]


def default_kind(e):
    """kind of a default-value expression: None | immutable constant | tuple of immutables | (possibly) mutable"""
    if isinstance(e, ast.Constant):
        return "DNone" if e.value is None else "DConst"          # bool / int / float / complex / str / bytes / Ellipsis
    if isinstance(e, ast.UnaryOp) and isinstance(e.op, (ast.USub, ast.UAdd)) and isinstance(e.operand, ast.Constant) \
            and type(e.operand.value) in (int, float, complex):
        return "DConst"
    if isinstance(e, ast.Tuple) and all(default_kind(x) in ("DNone", "DConst", "DTuple") for x in e.elts):
        return "DTuple"
    return "DMutable"       # list / dict / set literals and comprehensions, calls, names, attributes: not provably immutable


def translate_defaults(repo):
    """the default of every parameter of the construction / validation / execution methods (DEFAULT_METHODS, incl. nested defs and
    lambdas inside them) of the anchored classes, as a Gallina table"""
    rows = []
    for path, cls in DEFAULT_CLASSES + [(p_, c_) for p_, c_, _ in TOMO]:
        tree = ast.parse(open(os.path.join(repo, path)).read())
        found = False
        for n in ast.walk(tree):
            if isinstance(n, ast.ClassDef) and n.name == cls:
                found = True
                for top in n.body:
                  if not (isinstance(top, (ast.FunctionDef, ast.AsyncFunctionDef)) and top.name in DEFAULT_METHODS):
                      continue          # only the methods that take part in construction / validation / execution (this property)
                  for m in ast.walk(top):
                    if isinstance(m, (ast.FunctionDef, ast.AsyncFunctionDef, ast.Lambda)):
                        a = m.args
                        pos = a.posonlyargs + a.args
                        for arg, d in zip(pos[len(pos) - len(a.defaults):], a.defaults):
                            rows.append((cls + "." + getattr(m, "name", "<lambda>"), arg.arg, default_kind(d)))
                        for arg, d in zip(a.kwonlyargs, a.kw_defaults):
                            if d is not None:
                                rows.append((cls + "." + getattr(m, "name", "<lambda>"), arg.arg, default_kind(d)))
        if not found:
            raise Unsupported("class %s not found in %s" % (cls, path))
    body = ";\n    ".join("(%s, %s, %s)" % (coq_str(f), coq_str(a), k) for f, a, k in rows)
    return "Definition gen_defaults : list (string * string * dkind) :=\n   [%s]." % body


def translate_schedules_str(repo):
    path = "quara/protocol/qtomography/standard/standard_qtomography.py"
    tree = ast.parse(open(os.path.join(repo, path)).read())
    f = find_method(tree, "StandardQTomography", "_validate_schedules_str")
    plain_params(f, ["self", "schedules"])
    b = [x for x in f.body if not is_doc(x)]
    if len(b) != 2 or not (isinstance(b[0], ast.Assign) and len(b[0].targets) == 1 and isinstance(b[0].targets[0], ast.Name)
                           and isinstance(b[0].value, ast.List) and all(isinstance(x, ast.Constant) and type(x.value) is str for x in b[0].value.elts)):
        raise Unsupported("_validate_schedules_str: expected `NAME = [str constants]; if schedules not in NAME: raise ...`")
    lst = b[0].targets[0].id
    t = b[1]
    if not (isinstance(t, ast.If) and not t.orelse and isinstance(t.test, ast.Compare) and len(t.test.ops) == 1 and isinstance(t.test.ops[0], ast.NotIn)
            and isinstance(t.test.left, ast.Name) and t.test.left.id == "schedules" and isinstance(t.test.comparators[0], ast.Name)
            and t.test.comparators[0].id == lst and lst not in ("schedules", "self")):
        raise Unsupported("_validate_schedules_str: expected `if schedules not in %s:`" % lst)
    exc = message_then_raise(t.body, {"schedules", lst})
    return ("Definition gen_validate_schedules_str (schedules : string) : fres :=\n"
            "   (f_if (c_not (c_bool (existsb (String.eqb schedules) [%s])))\n      (FRaise 0 %s)\n   FPass).") % (
        "; ".join(coq_str(x.value) for x in b[0].value.elts), coq_str(exc))


TOMO = [("quara/protocol/qtomography/standard/standard_qst.py", "StandardQst", "qst"),
        ("quara/protocol/qtomography/standard/standard_povmt.py", "StandardPovmt", "povmt"),
        ("quara/protocol/qtomography/standard/standard_qpt.py", "StandardQpt", "qpt"),
        ("quara/protocol/qtomography/standard/standard_qmpt.py", "StandardQmpt", "qmpt")]
SIZE_OF_PARAM = {"states": "ns", "povms": "np"}


def sched_literal(e, loopvars):
    """[("state", i), ("povm", 0)] -> Coq list of typed items"""
    if not (isinstance(e, ast.List) and e.elts):
        fail(e, "schedule literal")
    items = []
    for t in e.elts:
        if not (isinstance(t, ast.Tuple) and len(t.elts) == 2 and isinstance(t.elts[0], ast.Constant) and t.elts[0].value in KIND_OF_KEY):
            fail(t, "schedule item literal")
        ix = t.elts[1]
        if isinstance(ix, ast.Constant) and type(ix.value) is int:
            z = "(%d)%%Z" % ix.value
        elif isinstance(ix, ast.Name) and ix.id in loopvars:
            z = ix.id
        else:
            fail(t, "index in a schedule literal")
        items.append("(%s, %s)" % (KIND_OF_KEY[t.elts[0].value], z))
    return "(sched_of [%s])" % "; ".join(items)


def range_len(e, params):
    """range(len(P)) with P a list parameter -> Coq list of Z"""
    if isinstance(e, ast.Call) and isinstance(e.func, ast.Name) and e.func.id == "range" and len(e.args) == 1 and not e.keywords:
        a = e.args[0]
        if isinstance(a, ast.Call) and isinstance(a.func, ast.Name) and a.func.id == "len" and len(a.args) == 1 and not a.keywords \
                and isinstance(a.args[0], ast.Name) and a.args[0].id in params:
            return "(zseq %s)" % SIZE_OF_PARAM[a.args[0].id]
    fail(e, "expected range(len(<states|povms>))")


def translate_tomo_init(repo, path, cls, tag):
    tree = ast.parse(open(os.path.join(repo, path)).read())
    f = find_method(tree, cls, "__init__")
    a = f.args
    if a.vararg or a.kwarg or a.kwonlyargs or a.posonlyargs or f.decorator_list:
        raise Unsupported("%s.__init__: parameter list" % cls)
    pnames = [x.arg for x in a.args]
    params = [x for x in pnames if x in SIZE_OF_PARAM]
    if "schedules" not in pnames or pnames[0] != "self":
        raise Unsupported("%s.__init__ has no schedules parameter" % cls)
    d = a.defaults[len(a.defaults) - (len(pnames) - pnames.index("schedules"))] if len(pnames) - pnames.index("schedules") <= len(a.defaults) else None
    if not (isinstance(d, ast.Constant) and d.value == "all"):
        raise Unsupported("%s.__init__: default of schedules is not \"all\"" % cls)
    stmts = [x for x in f.body if not is_doc(x)]
    def bad(node, why):
        raise Unsupported("%s.__init__ (line %s): %s" % (cls, getattr(node, "lineno", "?"), why))

    def is_str_test(t):
        # type(schedules) == str | isinstance(schedules, str)
        if isinstance(t, ast.Compare) and len(t.ops) == 1 and isinstance(t.ops[0], ast.Eq) and isinstance(t.left, ast.Call) \
                and isinstance(t.left.func, ast.Name) and t.left.func.id == "type" and len(t.left.args) == 1 and not t.left.keywords \
                and isinstance(t.left.args[0], ast.Name) and t.left.args[0].id == "schedules" and isinstance(t.comparators[0], ast.Name) \
                and t.comparators[0].id == "str":
            return True
        return isinstance(t, ast.Call) and isinstance(t.func, ast.Name) and t.func.id == "isinstance" and len(t.args) == 2 and not t.keywords \
            and isinstance(t.args[0], ast.Name) and t.args[0].id == "schedules" and isinstance(t.args[1], ast.Name) and t.args[1].id == "str"

    def is_str_call(st_):
        c = st_.value if isinstance(st_, ast.Expr) else None
        return isinstance(c, ast.Call) and isinstance(c.func, ast.Attribute) and c.func.attr == "_validate_schedules_str" \
            and isinstance(c.func.value, ast.Name) and c.func.value.id == "self" and not c.keywords and len(c.args) == 1 \
            and isinstance(c.args[0], ast.Name) and c.args[0].id == "schedules"

    def is_inert(st_):
        # self.ATTR = <parameter other than schedules> : cannot raise, does not touch the schedules
        tg = st_.targets[0] if isinstance(st_, ast.Assign) and len(st_.targets) == 1 else (st_.target if isinstance(st_, ast.AnnAssign) else None)
        v = getattr(st_, "value", None)
        return isinstance(tg, ast.Attribute) and isinstance(tg.value, ast.Name) and tg.value.id == "self" and isinstance(v, ast.Name) \
            and v.id in pnames and v.id not in ("schedules", "self")

    def is_sched_assign(st_):
        return isinstance(st_, ast.Assign) and len(st_.targets) == 1 and isinstance(st_.targets[0], ast.Name) and st_.targets[0].id == "schedules"

    def expansion_of(s1):
        if not (isinstance(s1, ast.If) and not s1.orelse and isinstance(s1.test, ast.Compare) and len(s1.test.ops) == 1 and isinstance(s1.test.ops[0], ast.Eq)
                and isinstance(s1.test.left, ast.Name) and s1.test.left.id == "schedules" and isinstance(s1.test.comparators[0], ast.Constant)
                and type(s1.test.comparators[0].value) is str):
            return None
        key = s1.test.comparators[0].value
        eb = s1.body
        if len(eb) == 1 and is_sched_assign(eb[0]) and isinstance(eb[0].value, ast.ListComp) and len(eb[0].value.generators) == 1:
            g = eb[0].value.generators[0]
            if g.ifs or g.is_async or not isinstance(g.target, ast.Name) or g.target.id in pnames:
                bad(s1, "comprehension")
            return key, "(map (fun %s => %s) %s)" % (g.target.id, sched_literal(eb[0].value.elt, {g.target.id}), range_len(g.iter, params))
        if len(eb) == 1 and is_sched_assign(eb[0]) and isinstance(eb[0].value, ast.ListComp) and len(eb[0].value.generators) == 2:
            g1, g2 = eb[0].value.generators
            if g1.ifs or g2.ifs or g1.is_async or g2.is_async or not isinstance(g1.target, ast.Name) or not isinstance(g2.target, ast.Name) \
                    or g1.target.id == g2.target.id or g1.target.id in pnames or g2.target.id in pnames:
                bad(s1, "comprehension")
            return key, "(flat_map (fun %s => map (fun %s => %s) %s) %s)" % (
                g1.target.id, g2.target.id, sched_literal(eb[0].value.elt, {g1.target.id, g2.target.id}), range_len(g2.iter, params), range_len(g1.iter, params))
        if len(eb) == 2 and is_sched_assign(eb[0]) and isinstance(eb[0].value, ast.List) and not eb[0].value.elts and isinstance(eb[1], ast.For) \
                and not eb[1].orelse and len(eb[1].body) == 1:
            lp = eb[1]
            it = lp.iter
            def append_of(st_):
                ap = st_.value if isinstance(st_, ast.Expr) else None
                if not (isinstance(ap, ast.Call) and isinstance(ap.func, ast.Attribute) and ap.func.attr == "append" and isinstance(ap.func.value, ast.Name)
                        and ap.func.value.id == "schedules" and not ap.keywords and len(ap.args) == 1):
                    bad(st_, "expected schedules.append([...])")
                return ap.args[0]
            # for i, j in product(range(len(A)), range(len(B))): schedules.append([...])
            if isinstance(lp.target, ast.Tuple) and len(lp.target.elts) == 2 and all(isinstance(x, ast.Name) for x in lp.target.elts) \
                    and isinstance(it, ast.Call) and isinstance(it.func, ast.Name) and it.func.id == "product" and len(it.args) == 2 and not it.keywords:
                i, j = lp.target.elts[0].id, lp.target.elts[1].id
                if i == j or i in pnames or j in pnames:
                    bad(lp, "loop variable names")
                return key, "(flat_map (fun %s => map (fun %s => %s) %s) %s)" % (
                    i, j, sched_literal(append_of(lp.body[0]), {i, j}), range_len(it.args[1], params), range_len(it.args[0], params))
            # for i in range(len(A)): for j in range(len(B)): schedules.append([...])      |     single loop
            if isinstance(lp.target, ast.Name) and lp.target.id not in pnames:
                i = lp.target.id
                inner = lp.body[0]
                if isinstance(inner, ast.For) and not inner.orelse and len(inner.body) == 1 and isinstance(inner.target, ast.Name) \
                        and inner.target.id not in pnames and inner.target.id != i:
                    j = inner.target.id
                    return key, "(flat_map (fun %s => map (fun %s => %s) %s) %s)" % (
                        i, j, sched_literal(append_of(inner.body[0]), {i, j}), range_len(inner.iter, params), range_len(it, params))
                return key, "(map (fun %s => %s) %s)" % (i, sched_literal(append_of(inner), {i}), range_len(it, params))
        bad(s1, "expansion of \"%s\"" % key)

    stage, key, expansion, expname, exp_args, rest_from = 0, None, None, None, None, None
    for n_, st_ in enumerate(stmts):
        if stage < 3 and is_inert(st_):
            continue
        if stage == 0:
            if not (isinstance(st_, ast.If) and not st_.orelse and is_str_test(st_.test) and st_.body and is_str_call(st_.body[0])):
                bad(st_, "expected `if type(schedules) == str: self._validate_schedules_str(schedules)` first")
            if len(st_.body) == 1:
                stage = 1
            elif len(st_.body) == 2 and expansion_of(st_.body[1]):       # the "all" test nested in the str branch
                key, expansion = expansion_of(st_.body[1]); stage = 2
            else:
                bad(st_, "body of the str branch")
            continue
        if stage == 1:
            r = expansion_of(st_)
            if not r:
                bad(st_, "expected `if schedules == \"all\": schedules = ...`")
            key, expansion = r; stage = 2
            continue
        if stage == 2:
            c = st_.value if isinstance(st_, ast.Assign) and len(st_.targets) == 1 and isinstance(st_.targets[0], ast.Name) else None
            if not (isinstance(c, ast.Call) and isinstance(c.func, ast.Name) and c.func.id == "Experiment" and not c.args):
                bad(st_, "expected NAME = Experiment(<keyword arguments>)")
            expname = st_.targets[0].id
            kw = {k.arg: k.value for k in c.keywords}
            if None in kw or set(kw) - {"states", "povms", "gates", "mprocesses", "schedules", "seed_data"} or "schedules" not in kw \
                    or not (isinstance(kw["schedules"], ast.Name) and kw["schedules"].id == "schedules"):
                bad(st_, "keyword arguments of Experiment(...)")
            def list_arg(name):
                if name not in kw:
                    return "None"
                v = kw[name]
                if isinstance(v, ast.Name) and v.id == name and name in params:
                    return "(Some (repeat true %s))" % SIZE_OF_PARAM[name]          # the caller's testers: real objects
                if isinstance(v, ast.List) and all(isinstance(x, ast.Constant) and x.value is None for x in v.elts):
                    return "(Some [%s])" % "; ".join("false" for _ in v.elts)      # None placeholders
                bad(st_, "argument %s=%s" % (name, ast.unparse(v)))
            exp_args = " ".join(list_arg(n) for n in ("states", "povms", "gates", "mprocesses"))
            stage = 3
            continue
        if stage == 3:
            c = st_.value if isinstance(st_, ast.Expr) else None
            if not (isinstance(c, ast.Call) and isinstance(c.func, ast.Attribute) and c.func.attr == "_validate_schedules" and isinstance(c.func.value, ast.Name)
                    and c.func.value.id == "self" and not c.keywords and len(c.args) == 1 and isinstance(c.args[0], ast.Name) and c.args[0].id == "schedules"):
                bad(st_, "expected self._validate_schedules(schedules) right after the Experiment is built")
            stage, rest_from = 4, n_ + 1
            break
    if stage != 4:
        raise Unsupported("%s.__init__: schedule prologue incomplete (stage %d)" % (cls, stage))
    b = [None] * 4 + stmts[rest_from:]
    # the rest of the constructor (numerics) must not rebind schedules / the experiment
    for st in b[4:]:
        for n in ast.walk(st):
            if isinstance(n, ast.Name) and isinstance(n.ctx, ast.Store) and n.id in ("schedules", expname):
                fail(n, "%s.__init__ rebinds %s after the schedule prologue" % (cls, n.id))
    return ("Definition gen_tomo_%s (ns np : nat) (schedules : sarg) : xres :=\n"
            "   (x_seq (match schedules with AStr s_ => x_of_fres (gen_validate_schedules_str s_) | AList _ => XPass end)\n"
            "   (let schedules := (match schedules with\n"
            "                      | AStr s_ => if String.eqb s_ %s then AList %s else schedules\n"
            "                      | AList _ => schedules end) in\n"
            "    match schedules with\n"
            "    | AList ss_ => x_seq (snd (gen_experiment_init ss_ %s))\n"
            "                         (x_for ss_ (fun schedule => x_call_guard gen_guard_%s schedule))\n"
            "    | AStr _ => XStuck\n"
            "    end)).") % (tag, coq_str(key), expansion, exp_args, tag)


def find_method(tree, cls, name):
    for n in ast.walk(tree):
        if isinstance(n, ast.ClassDef) and n.name == cls:
            for m in n.body:
                if isinstance(m, ast.FunctionDef) and m.name == name:
                    return m
    raise Unsupported("method %s.%s not found" % (cls, name))


def plain_params(fdef, names):
    a = fdef.args
    if a.vararg or a.kwarg or a.kwonlyargs or a.posonlyargs or a.defaults or [x.arg for x in a.args] != names or fdef.decorator_list:
        raise Unsupported("%s: expected parameters %s without defaults / decorators" % (fdef.name, names))


def translate_order(repo):
    tree = ast.parse(open(os.path.join(repo, "quara/qcircuit/experiment.py")).read())
    f = find_method(tree, "Experiment", "_validate_schedule_order")
    plain_params(f, ["self", "schedule"])
    v = Validator(f, "schedule", "gen_validate_schedule_order")
    return v.emit(v.stmts(f.body))


GUARDS = [("quara/protocol/qtomography/standard/standard_qst.py", "StandardQst", "gen_guard_qst"),
          ("quara/protocol/qtomography/standard/standard_povmt.py", "StandardPovmt", "gen_guard_povmt"),
          ("quara/protocol/qtomography/standard/standard_qpt.py", "StandardQpt", "gen_guard_qpt"),
          ("quara/protocol/qtomography/standard/standard_qmpt.py", "StandardQmpt", "gen_guard_qmpt")]


def translate_guard(repo, path, cls, coq_name):
    tree = ast.parse(open(os.path.join(repo, path)).read())
    f = find_method(tree, cls, "_validate_schedules")
    plain_params(f, ["self", "schedules"])
    body = [s for s in f.body if not (isinstance(s, ast.Expr) and isinstance(s.value, ast.Constant) and type(s.value.value) is str)]
    if len(body) != 1 or not isinstance(body[0], ast.For):
        raise Unsupported("%s._validate_schedules: body must be a single for loop" % cls)
    loop = body[0]
    if loop.orelse or not (isinstance(loop.target, ast.Tuple) and len(loop.target.elts) == 2 and all(isinstance(x, ast.Name) for x in loop.target.elts)):
        fail(loop, "loop must be `for i, schedule in enumerate(schedules)`")
    it = loop.iter
    if not (isinstance(it, ast.Call) and isinstance(it.func, ast.Name) and it.func.id == "enumerate" and len(it.args) == 1 and not it.keywords
            and isinstance(it.args[0], ast.Name) and it.args[0].id == "schedules"):
        fail(loop, "loop must iterate over enumerate(schedules)")
    idx, sched = loop.target.elts[0].id, loop.target.elts[1].id
    if len({idx, sched, "schedules", "self"}) != 4:
        fail(loop, "loop variable names")
    v = Validator(f, sched, coq_name)
    v.loopvars = {idx, sched}
    return v.emit(v.stmts(loop.body))


HEADER = """(* GENERATED by /verif/gen/c20_py2coq.py from the current source of quara — do not edit, not committed. *)
From Coq Require Import ZArith List Bool String.
From QV.Model Require Import C20_Schedule C20_PySem.
Import ListNotations.
"""


def main():
    repo, outpath = sys.argv[1], sys.argv[2]
    try:
        parts = [HEADER, "(* from quara/qcircuit/experiment.py : Experiment._validate_schedule_item *)", translate_item(repo), "",
                 "(* from quara/qcircuit/experiment.py : Experiment._validate_schedule_order *)", translate_order(repo), "",
                 "(* from quara/qcircuit/experiment.py : Experiment._validate_schedules *)", translate_validate_schedules(repo), "",
                 "(* from quara/qcircuit/experiment.py : Experiment.__init__ *)", translate_init(repo), "",
                 "(* from quara/qcircuit/experiment.py : the setters of states / povms / gates / mprocesses / schedules *)", translate_setters(repo), "",
                 "(* from quara/qcircuit/experiment.py : Experiment._validate_schedule_index, Experiment.calc_prob_dist *)",
                 translate_schedule_index(repo), translate_calc_prob_dist(repo), "",
                 "(* from quara/qcircuit/experiment.py : Experiment._validate_type, Experiment.copy *)",
                 translate_validate_type(repo), translate_copy(repo), ""]
        for path, cls, name in GUARDS:
            parts += ["(* from %s : %s._validate_schedules, body of the loop over the schedules *)" % (path, cls), translate_guard(repo, path, cls, name), ""]
        parts += ["(* from quara/protocol/qtomography/standard/standard_qtomography.py : StandardQTomography._validate_schedules_str *)",
                  translate_schedules_str(repo), ""]
        for path, cls, tag in TOMO:
            parts += ["(* from %s : %s.__init__, schedule prologue *)" % (path, cls), translate_tomo_init(repo, path, cls, tag), ""]
        parts += ["(* default values of all parameters of all methods of Experiment, StandardQTomography and the four tomography classes *)",
                  translate_defaults(repo), ""]
    except Unsupported as e:
        print("UNSUPPORTED: %s" % e)
        sys.exit(3)
    except (OSError, SyntaxError) as e:
        print("UNSUPPORTED: cannot read / parse the source: %s" % e)
        sys.exit(3)
    open(outpath, "w").write("\n".join(parts))
    print("ok: %d definitions -> %s" % (sum(1 for x in parts for l in x.splitlines() if l.startswith("Definition ")), outpath))


if __name__ == "__main__":
    main()
