(* C14 — the floating-point fact the validity theorem of _random_number_to_data rests on, proved for IEEE-754 binary64 with
   Flocq 4.1:   fl(c + p) <= c   whenever c is a binary64 number and p <= 0   (monotonicity of rounding + c is a fixed
   point), for round-to-nearest-even; first for the unbounded-exponent format FLT(-1074, 53) over the reals, then for the IEEE
   operation Bplus on finite binary64 values (no overflow can occur when 0 <= c).  The headline theorem is then instantiated
   with binary64-rounded accumulation.  Over R: the standard real-number axioms appear in Print Assumptions (allowed list). *)
From Coq Require Import Reals ZArith List Lra Lia Bool.
From Flocq Require Import Core.Core IEEE754.BinarySingleNaN.
From QV.Core Require Import OF ROF.
From QV.Model Require Import C14_DataGen.
From QV.Proofs Require Import C14_DataGen.
Import ListNotations.
Local Open Scope R_scope.

Definition fexp64 : Z -> Z := FLT_exp (-1074) 53.
Definition format64 (x : R) : Prop := generic_format radix2 fexp64 x.
(* binary64 rounding to nearest, ties to even (no overflow: the exponent is unbounded above) *)
Definition rnd64 (x : R) : R := round radix2 fexp64 ZnearestE x.
Definition add64 (c p : R) : R := rnd64 (c + p).

#[local] Instance fexp64_valid : Valid_exp fexp64.
Proof. unfold fexp64. apply FLT_exp_valid. reflexivity. Qed.

Lemma format64_0 : format64 0. Proof. apply generic_format_0. Qed.
Lemma format64_add64 c p : format64 (add64 c p).
Proof. unfold add64, rnd64, format64. apply generic_format_round; typeclasses eauto. Qed.
(* THE FACT: adding a non-positive number to a binary64 number and rounding never exceeds that number *)
Lemma add64_nonpos c p : format64 c -> p <= 0 -> add64 c p <= c.
Proof. intros Hc Hp. unfold add64, rnd64. apply round_le_generic; [typeclasses eauto|typeclasses eauto|exact Hc|lra]. Qed.
Lemma add64_ge c p : format64 p -> 0 <= c -> p <= add64 c p.
Proof. intros Hf Hc. unfold add64, rnd64. apply round_ge_generic; [typeclasses eauto|typeclasses eauto|exact Hf|lra]. Qed.

(* ---- the same for the IEEE-754 operation on finite binary64 values ---- *)
Definition b64 : Type := binary_float 53 1024.
Definition b64_plus : b64 -> b64 -> b64 := @Bplus 53 1024 eq_refl eq_refl mode_NE.
Lemma b64_format (x : b64) : format64 (B2R x).
Proof. unfold format64, fexp64. apply (generic_format_B2R 53 1024). Qed.

Theorem b64_plus_nonpos (c p : b64) : is_finite c = true -> is_finite p = true -> 0 <= B2R c -> B2R p <= 0 ->
  is_finite (b64_plus c p) = true /\ B2R (b64_plus c p) = add64 (B2R c) (B2R p) /\ B2R (b64_plus c p) <= B2R c.
Proof. intros Fc Fp Hc Hp.
  pose proof (@Bplus_correct 53 1024 eq_refl eq_refl mode_NE c p Fc Fp) as H.
  change (SpecFloat.fexp 53 1024) with fexp64 in H. cbn [round_mode] in H.
  fold (rnd64 (B2R c + B2R p)) in H. fold (add64 (B2R c) (B2R p)) in H.
  pose proof (add64_nonpos (B2R c) (B2R p) (b64_format c) Hp) as Hle.
  pose proof (add64_ge (B2R c) (B2R p) (b64_format p) Hc) as Hge.
  assert (Hb : Rabs (add64 (B2R c) (B2R p)) < bpow radix2 1024).
  { pose proof (abs_B2R_lt_emax 53 1024 c) as A. pose proof (abs_B2R_lt_emax 53 1024 p) as B.
    apply Rabs_def2 in A. apply Rabs_def2 in B. apply Rabs_def1; lra. }
  rewrite (Rlt_bool_true _ _ Hb) in H. destruct H as (E & Fin & _).
  split; [exact Fin|]. split; [exact E|]. unfold b64_plus. rewrite E. exact Hle. Qed.

(* ---- the headline theorem with binary64-rounded accumulation: every r >= 0, every vector of reals with a positive entry
   (no other condition) -> the outcome returned by the single-loop transcription is in range and has positive probability ---- *)
Theorem rn2data_binary64_valid (ps : list R) (r : R) : 0 <= r -> has_pos R_OF ps ->
  posidx R_OF ps (rn2data_r R_OF add64 ps r).
Proof. exact (rn2data_r_valid_rep R_OF add64 format64 format64_0 (fun c p _ => format64_add64 c p) add64_nonpos ps r). Qed.
