(* C06 — ASSOCIATIVITY for arbitrary chains and bracketings (linear content, positions included).
   With the repaired MProcess o MProcess every bracketing of a chain evaluates to the right-to-left fold of the chain;
   hence any two bracketings agree.  As coded this holds for the bracketings that never compose two instruments with each other. *)
From Coq Require Import List Arith Bool Lia.
From QV.Core Require Import OF Sums Mat.
From QV.Model Require Import QObj C06_Compose.
From QV.Proofs Require Import C06_Linear.
Import ListNotations.

Section Chain.
Context (F : OF).
Variable n : nat.
Notation robj := (robj F). Notation tree := (tree F).
Notation RM := (rmat F). Notation RV := (rvec F).

(* equality of raw objects: same kind, same length, pointwise equal entries at the same positions *)
Definition req (a b : robj) : Prop :=
  match a, b with
  | ROps _ g A, ROps _ g' A' => g = g' /\ lmeq F n A A'
  | RVecs _ v, RVecs _ v' => lveq F n v v'
  | REffs _ P, REffs _ P' => lveq F n P P'
  | RNums _ l, RNums _ l' => l = l'
  | _, _ => False
  end.
Lemma req_refl a : req a a.
Proof. destruct a; cbn; auto using lmeq_refl, lveq_refl. Qed.
Lemma req_sym a b : req a b -> req b a.
Proof. destruct a, b; cbn; try tauto; try (intros [-> H]; split; auto using lmeq_sym); auto using lveq_sym. Qed.
Lemma req_trans a b c : req a b -> req b c -> req a c.
Proof. destruct a, b, c; cbn; try tauto.
  - intros [-> H1] [-> H2]. split; [reflexivity|eapply lmeq_trans; eassumption].
  - apply lveq_trans. - apply lveq_trans. - congruence. Qed.

Lemma hss_hss_coded_ext (A A' B B' : list RM) : lmeq F n A A' -> lmeq F n B B' ->
  lmeq F n (hss_hss_coded F n A B) (hss_hss_coded F n A' B').
Proof. intros HA HB. unfold hss_hss_coded. induction HB as [|b b' B B' Hb HB IH]; cbn [flat_map]; [constructor|].
  apply lmeq_app; [|exact IH]. clear IH HB.
  induction HA as [|a a' A A' Ha HA IH]; cbn [map]; constructor; [now apply mmul_meq|exact IH]. Qed.

(* composition respects equality *)
Lemma rcomp_ext fx a a' b b' r : req a a' -> req b b' -> rcomp F n fx a b = Some r ->
  exists r', rcomp F n fx a' b' = Some r' /\ req r r'.
Proof. destruct a as [ga A|va|Pa|la], a' as [ga' A'|va'|Pa'|la']; cbn [req]; try tauto;
  destruct b as [gb B|vb|Pb|lb], b' as [gb' B'|vb'|Pb'|lb']; cbn [req rcomp]; try tauto; try discriminate.
  - intros [-> HA] [-> HB] E. injection E as <-. eexists; split; [reflexivity|]. cbn. split; [reflexivity|].
    destruct (fx || ga' || gb'); [now apply hss_hss_fixed_ext|now apply hss_hss_coded_ext].
  - intros [-> HA] Hv E. injection E as <-. eexists; split; [reflexivity|]. cbn. now apply act_ext.
  - intros HP [-> HB] E. injection E as <-. eexists; split; [reflexivity|]. cbn. now apply povm_hss_ext.
  - intros HP Hv E. injection E as <-. eexists; split; [reflexivity|]. cbn. now apply born_all_ext. Qed.

(* the one-step associativity of the REPAIRED table, including definedness *)
Lemma rcomp_assoc a b c ab abc : rcomp F n true a b = Some ab -> rcomp F n true ab c = Some abc ->
  exists bc r, rcomp F n true b c = Some bc /\ rcomp F n true a bc = Some r /\ req abc r.
Proof. destruct a as [ga A|va|Pa|la], b as [gb B|vb|Pb|lb]; cbn [rcomp]; try discriminate; intros E; injection E as <-;
  destruct c as [gc C|vc|Pc|lc]; cbn [rcomp]; try discriminate; intros E; injection E as <-.
  - eexists; eexists; split; [reflexivity|]. split; [reflexivity|]. cbn. split; [now rewrite andb_assoc|]. apply hss_hss_fixed_assoc.
  - eexists; eexists; split; [reflexivity|]. split; [reflexivity|]. cbn. apply act_fixed.
  - eexists; eexists; split; [reflexivity|]. split; [reflexivity|]. cbn. apply lveq_sym, povm_hss_fixed.
  - eexists; eexists; split; [reflexivity|]. split; [reflexivity|]. cbn. apply born_all_heisenberg. Qed.

Lemma eval_fold_cons fx q y t : eval_fold F n fx (q :: y :: t) =
  match eval_fold F n fx (y :: t) with Some z => rcomp F n fx q z | None => None end.
Proof. reflexivity. Qed.
Lemma eval_fold_nonempty fx l r : eval_fold F n fx l = Some r -> l <> [].
Proof. destruct l; [discriminate|discriminate]. Qed.

(* fold of a concatenation = composition of the folds *)
Lemma eval_fold_app xs : forall ys a b ab, eval_fold F n true xs = Some a -> eval_fold F n true ys = Some b ->
  rcomp F n true a b = Some ab -> exists r, eval_fold F n true (xs ++ ys) = Some r /\ req ab r.
Proof. induction xs as [|q xs IH]; intros ys a b ab Ha Hb Hab; [discriminate|].
  destruct xs as [|x xs'].
  - cbn in Ha. injection Ha as ->. destruct ys as [|y ys']; [discriminate|].
    cbn [app]. rewrite eval_fold_cons, Hb. exists ab. split; [exact Hab|apply req_refl].
  - rewrite eval_fold_cons in Ha. destruct (eval_fold F n true (x :: xs')) as [a'|] eqn:Ea'; [|discriminate].
    destruct (rcomp_assoc q a' b a ab Ha Hab) as (bc & r & Hbc & Hr & Hreq).
    destruct (IH ys a' b bc eq_refl Hb Hbc) as (r2 & Hr2 & Hreq2).
    destruct (rcomp_ext true q q bc r2 r (req_refl q) Hreq2 Hr) as (r' & Hr' & Hreq').
    exists r'. split; [|eapply req_trans; eassumption].
    change ((q :: x :: xs') ++ ys) with (q :: (x :: xs') ++ ys).
    destruct ((x :: xs') ++ ys) as [|z zs] eqn:Ez; [discriminate|]. rewrite eval_fold_cons, Hr2. exact Hr'. Qed.

(* every bracketing evaluates to the fold of its leaves *)
Theorem eval_is_fold (t : tree) : forall r, eval F n true t = Some r ->
  exists r', eval_fold F n true (flatten F t) = Some r' /\ req r r'.
Proof. induction t as [q|l IHl r0 IHr]; intros r E.
  - cbn in *. injection E as ->. exists r. split; [reflexivity|apply req_refl].
  - cbn [eval] in E. destruct (eval F n true l) as [a|] eqn:Ea; [|discriminate].
    destruct (eval F n true r0) as [b|] eqn:Eb; [|discriminate].
    destruct (IHl a eq_refl) as (a' & Ha' & Ra). destruct (IHr b eq_refl) as (b' & Hb' & Rb).
    destruct (rcomp_ext true a a' b b' r Ra Rb E) as (r1 & Hr1 & Rr1).
    destruct (eval_fold_app _ _ a' b' r1 Ha' Hb' Hr1) as (r2 & Hr2 & Rr2).
    exists r2. split; [exact Hr2|eapply req_trans; eassumption]. Qed.

(* ASSOCIATIVITY: two bracketings of the same chain give the same entries at the same positions *)
Theorem bracketing_independent (t1 t2 : tree) r1 r2 : flatten F t1 = flatten F t2 ->
  eval F n true t1 = Some r1 -> eval F n true t2 = Some r2 -> req r1 r2.
Proof. intros Hf E1 E2. destruct (eval_is_fold t1 r1 E1) as (s1 & H1 & R1). destruct (eval_is_fold t2 r2 E2) as (s2 & H2 & R2).
  rewrite Hf in H1. rewrite H1 in H2. injection H2 as ->. eapply req_trans; [exact R1|now apply req_sym]. Qed.

(* AS CODED: the composition table differs from the repaired one only when two instruments meet *)
Lemma rcomp_coded_eq a b : is_instr F a && is_instr F b = false -> rcomp F n false a b = rcomp F n true a b.
Proof. destruct a as [ga A| | |], b as [gb B| | |]; cbn; try reflexivity. destruct ga, gb; cbn; try reflexivity. discriminate. Qed.
Lemma eval_coded_eq (t : tree) : mm_free F n t = true -> eval F n false t = eval F n true t.
Proof. induction t as [q|l IHl r IHr]; [reflexivity|]. cbn [mm_free eval]. rewrite !andb_true_iff. intros [[Hl Hr] Hm].
  rewrite IHl, IHr by assumption. destruct (eval F n true l) as [a|]; [|reflexivity]. destruct (eval F n true r) as [b|]; [|reflexivity].
  apply rcomp_coded_eq. now apply negb_true_iff. Qed.
Theorem bracketing_independent_coded (t1 t2 : tree) r1 r2 : flatten F t1 = flatten F t2 ->
  mm_free F n t1 = true -> mm_free F n t2 = true ->
  eval F n false t1 = Some r1 -> eval F n false t2 = Some r2 -> req r1 r2.
Proof. intros Hf M1 M2. rewrite (eval_coded_eq t1 M1), (eval_coded_eq t2 M2). now apply bracketing_independent. Qed.
End Chain.
