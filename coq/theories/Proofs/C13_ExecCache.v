(* C13 - the executed cache operation (Exec/C13_ops.v: cache_trace, what "c13.cache_run" runs next to the implementation) IS the
   model machine: its final state is [run] of the decoded operation list, the decoded operations are quara operations (no Poke),
   hence the history theorem applies to every trace the harness compares with the private attributes. *)
From Coq Require Import ZArith List Bool Arith Lia.
From QV.Exec Require Import Base C13_ops.
From QV.Model Require Import C13_Cache.
From QV.Proofs Require Import C13_Cache.
Import ListNotations.

Lemma dec_not_poke z op : dec_cache_op z = Some op -> is_poke op = false.
Proof.
  unfold dec_cache_op. destruct (slot_of_idx _) as [s|]; [|discriminate].
  destruct (_ =? 0)%Z; [intros E; inversion E; reflexivity|].
  destruct (_ =? 1)%Z; [intros E; inversion E; reflexivity|discriminate].
Qed.

Lemma cache_trace_is_run : forall (zs : list Z) (c : @cache unit unit) out cf,
  cache_trace c zs = Some (out, cf) ->
  exists ops, map dec_cache_op zs = map Some ops /\ quara_ops ops /\ cf = run ubuild ops c /\
              length out = (9 * length zs)%nat.
Proof.
  induction zs as [|z zs IH]; intros c out cf H; cbn [cache_trace] in H.
  - inversion H; subst. exists []. repeat split.
  - destruct (dec_cache_op z) as [op|] eqn:E; [|discriminate].
    destruct (cache_trace (step ubuild c op) zs) as [[out' cf']|] eqn:T; [|discriminate].
    inversion H; subst; clear H. destruct (IH _ _ _ T) as [ops [M [Q [R L]]]].
    exists (op :: ops). split; [cbn; now rewrite E, M|]. split.
    + unfold quara_ops in *. cbn. rewrite (dec_not_poke z op E). exact Q.
    + split; [exact R|]. cbn [length]. rewrite L. lia.
Qed.

(* every state the executed operation reaches from a fresh system satisfies the invariant, and every getter answers [build basis] *)
Theorem exec_cache_trace_sound : forall (zs : list Z) out cf s,
  cache_trace (init tt) zs = Some (out, cf) ->
  cache_inv ubuild tt cf /\ get ubuild cf s = Some (ubuild tt s).
Proof.
  intros zs out cf s H. destruct (cache_trace_is_run zs (init tt) out cf H) as [ops [_ [Q [R _]]]]. subst cf. split.
  - apply run_inv; [exact Q|apply init_inv].
  - now apply cache_history_irrelevant.
Qed.
