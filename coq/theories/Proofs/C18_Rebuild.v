(* C18 — extract-then-rebuild, sums of parts (both basis modes), and the refutation of calc_j_mat as coded before fix
   c18-calc-j-mat-identity-component ([calc_j_mat_prefix]).
   Same hypotheses as C18_Extract.  Generic in the ordered field; axiom-free. *)
From Coq Require Import Field Ring Setoid Arith Lia Bool List.
From QV.Core Require Import OF Sums Mat Cplx.
From QV.Model Require Import QObj C18_Lindblad.
From QV.Proofs Require Import C18_Algebra C18_Misc C18_Extract.
Import ListNotations.

Section Rebuild.
Context (F : OF).
Add Field Ffr : (k_field F).
Notation Cx := (CF F).
Add Ring Crr : (c_ring Cx).
Notation cmat := (cmat F).
Notation rvec := (rvec F).
Notation "x +c y" := (cadd Cx x y) (at level 50, left associativity).
Notation "x *c y" := (cmul Cx x y) (at level 40, left associativity).
Notation "x -c y" := (csub Cx x y) (at level 50, left associativity).
Notation "0c" := (c0 Cx).
Notation "1c" := (c1 Cx).
Notation cI := (cI F).
Notation mi := (mi F).

Variable d : nat.
Hypothesis Hd : (0 < d)%nat.
Variable B : nat -> cmat.
Variable sd : F.
Hypothesis Horth : basis_orthonormal d B.
Hypothesis Hherm : basis_hermitian d B.
Hypothesis H0 : basis_0th_identity d sd B.
Hypothesis Hsd : cmul F sd sd = ofnat d.
Notation n := (d * d)%nat.
Notation m := (d * d - 1)%nat.
Notation dF := (dF F).

Lemma divmod_lt s : (s < n)%nat -> (s / d < d)%nat /\ (s mod d < d)%nat.
Proof. intros Hs. split; [apply Nat.div_lt_upper_bound; lia|apply Nat.mod_upper_bound; lia]. Qed.

(* ---------------------------------------------------------------- congruences *)
Lemma h_part_ext (X X' : cmat) : meq d d X X' -> meq n n (h_part d X) (h_part d X').
Proof. intros H s t Hs Ht. destruct (divmod_lt s Hs), (divmod_lt t Ht).
  unfold h_part, mscale, msub, kron, cconj. now rewrite !H. Qed.
Lemma j_part_ext (X X' : cmat) : meq d d X X' -> meq n n (j_part d X) (j_part d X').
Proof. intros H s t Hs Ht. destruct (divmod_lt s Hs), (divmod_lt t Ht).
  unfold j_part, madd, kron, cconj. now rewrite !H. Qed.
Lemma k_part_ext (K K' : cmat) : meq m m K K' -> forall s t, k_part d B K s t = k_part d B K' s t.
Proof. intros H s t. unfold k_part. apply (sumn_ext2 Cx). intros a b Ha Hb. now rewrite H. Qed.
Lemma lcb_hjk_ext (H H' J J' K K' : cmat) : meq d d H H' -> meq d d J J' -> meq m m K K' ->
  meq n n (lcb_hjk d B H J K) (lcb_hjk d B H' J' K').
Proof. intros HH HJ HK s t Hs Ht. unfold lcb_hjk, madd.
  now rewrite (h_part_ext H H' HH s t Hs Ht), (j_part_ext J J' HJ s t Hs Ht), (k_part_ext K K' HK s t). Qed.

(* ---------------------------------------------------------------- the identity component of H does not matter *)
Lemma B0_entry i j : (i < d)%nat -> (j < d)%nat -> B 0%nat i j = zof (kdiv F (c1 F) sd) *c mid i j.
Proof. intros Hi Hj. pose proof (sd_neq0 F d Hd sd Hsd) as Hs.
  assert (E : (zof (kdiv F (c1 F) sd) : Cx) *c zof sd = 1c) by (apply cplx_eq; cbn; field; exact Hs).
  replace (B 0%nat i j) with ((zof (kdiv F (c1 F) sd) *c zof sd) *c B 0%nat i j) by (rewrite E; ring).
  replace (zof (kdiv F (c1 F) sd) *c zof sd *c B 0%nat i j) with (zof (kdiv F (c1 F) sd) *c (zof sd *c B 0%nat i j)) by ring.
  now rewrite (H0 i j Hi Hj). Qed.
Lemma Hn' : (0 < n)%nat. Proof. nia. Qed.
Lemma opv_drop0 (hv : rvec) i j :
  op_of_vec d B (fun a => csub F (hv a) (cmul F (hv 0%nat) (dF a))) i j
  = op_of_vec d B hv i j -c zof (hv 0%nat) *c B 0%nat i j.
Proof. unfold op_of_vec.
  rewrite <- (sumn_delta n 0%nat (fun c => zof (hv 0%nat) *c B c i j) Hn').
  rewrite <- sumn_sub. apply (@sumn_ext Cx); intros c _. unfold C18_Extract.dF.
  destruct (Nat.eqb c 0); apply cplx_eq; cbn; ring. Qed.
Lemma h_part_drop0 (hv : rvec) :
  meq n n (h_part d (op_of_vec d B (fun a => csub F (hv a) (cmul F (hv 0%nat) (dF a))))) (h_part d (op_of_vec d B hv)).
Proof. intros s t Hs Ht. destruct (divmod_lt s Hs) as [A1 A2], (divmod_lt t Ht) as [A3 A4].
  unfold h_part, mscale, msub, kron, cconj. rewrite !opv_drop0, !B0_entry by assumption.
  rewrite cj_sub, !cj_mul, !cj_zof. unfold cI, mid.
  destruct (Nat.eqb (s / d) (t / d)), (Nat.eqb (s mod d) (t mod d)); rewrite ?cj_1, ?cj_0; ring. Qed.

(* ---------------------------------------------------------------- extract-then-rebuild = identity *)
Section Gen.
Variables (hv jv : rvec) (K : cmat).
Let L : cmat := lcb_hjk d B (op_of_vec d B hv) (op_of_vec d B jv) K.

Theorem rebuild_id : meq n n (rebuild_cb d B L) L.
Proof. intros s t Hs Ht. unfold rebuild_cb. cbv beta iota.
  etransitivity.
  { apply (lcb_hjk_ext _ _ _ _ _ _ (extract_h F d Hd B sd Horth Hherm H0 Hsd hv jv K) (extract_j F d Hd B sd Horth Hherm H0 Hsd hv jv K)
             (extract_k F d Hd B sd Horth Hherm H0 hv jv K) s t Hs Ht). }
  unfold L, lcb_hjk, madd. now rewrite (h_part_drop0 hv s t Hs Ht). Qed.

(* h + j + k parts = whole, computational basis *)
Theorem parts_sum_cb : meq n n
  (madd (madd (h_part d (calc_h_mat d B L)) (j_part d (calc_j_mat d B L))) (k_part d B (calc_k_mat d B L))) L.
Proof. exact rebuild_id. Qed.

(* ---------------------------------------------------------------- the routine AS CODED BEFORE FIX c18-calc-j-mat-identity-component *)
(* its result as a coefficient vector: identity component 0, B_1 component halved *)
Definition jv_prefix : rvec := fun c => match c with O => c0 F | S a => cmul F (jv (S a)) (if Nat.eqb a 0 then half F else c1 F) end.
Lemma n_S : n = S m. Proof. pose proof Hn'. lia. Qed.
Lemma j_prefix_opv : forall i j, calc_j_mat_prefix d B L i j = op_of_vec d B jv_prefix i j.
Proof. intros i j. unfold L. rewrite (extract_j_prefix F d Hd B sd Horth Hherm H0 Hsd hv jv K).
  unfold op_of_vec. rewrite n_S, sumn_S_first. cbn [jv_prefix]. rewrite <- n_S.
  replace (zof (c0 F) *c B 0%nat i j) with 0c by (apply cplx_eq; cbn; ring).
  match goal with |- ?x = _ => replace x with (0c +c x) at 1 by ring end. reflexivity. Qed.

(* the identity component of the extracted matrix is always 0 — whatever the generator's anti-commutator matrix was *)
Theorem j_prefix_drops_identity : trp d (calc_j_mat_prefix d B L) (B 0%nat) = 0c /\ trp d (op_of_vec d B jv) (B 0%nat) = zof (jv 0%nat).
Proof. split.
  - rewrite (trp_ext F d _ (op_of_vec d B jv_prefix) (B 0%nat) (B 0%nat)); [|intros i j _ _; apply j_prefix_opv|apply meq_refl].
    rewrite (opv_trp F d B Horth Hherm jv_prefix 0%nat Hn'). reflexivity.
  - apply (opv_trp F d B Horth Hherm jv 0%nat Hn'). Qed.

Theorem j_prefix_wrong : jv 0%nat <> c0 F -> ~ meq d d (calc_j_mat_prefix d B L) (op_of_vec d B jv).
Proof. intros Hne Heq. destruct j_prefix_drops_identity as [A C].
  rewrite (trp_ext F d _ (op_of_vec d B jv) (B 0%nat) (B 0%nat) Heq (meq_refl d d _)) in A.
  rewrite C in A. apply Hne. now apply (zof_inj F). Qed.

(* consequently extract-then-rebuild with the pre-fix routine changes every generator with tr J <> 0 *)
Theorem rebuild_prefix_wrong : jv 0%nat <> c0 F -> ~ meq n n (rebuild_cb_prefix d B L) L.
Proof. intros Hne Heq.
  set (hv' := fun a => csub F (hv a) (cmul F (hv 0%nat) (dF a))).
  assert (E1 : meq n n (rebuild_cb_prefix d B L) (lcb_hjk d B (op_of_vec d B hv') (op_of_vec d B jv_prefix) K)).
  { unfold rebuild_cb. cbv beta iota. apply lcb_hjk_ext.
    - apply (extract_h F d Hd B sd Horth Hherm H0 Hsd hv jv K).
    - intros i j _ _. apply j_prefix_opv.
    - apply (extract_k F d Hd B sd Horth Hherm H0 hv jv K). }
  pose proof (j_coef_L F d Hd B sd Horth Hherm H0 Hsd hv' jv_prefix K 0%nat Hn') as A.
  pose proof (j_coef_L F d Hd B sd Horth Hherm H0 Hsd hv jv K 0%nat Hn') as C.
  fold L in C. unfold j_coef in A, C.
  rewrite <- (tr2_ext F d _ _ _ _ E1 (meq_refl n n _)) in A.
  rewrite (tr2_ext F d _ _ _ _ Heq (meq_refl n n _)) in A. rewrite C in A.
  apply Hne. symmetry. now apply (zof_inj F). Qed.
(* ---------------------------------------------------------------- the inequality projection (K replaced by K', H and J kept) *)
Lemma calc_k_mat_ext (X X' : cmat) : meq n n X X' -> meq m m (calc_k_mat d B X) (calc_k_mat d B X').
Proof. intros H a b _ _. unfold calc_k_mat. apply (tr2_ext F d); [exact H|apply meq_refl]. Qed.
Lemma calc_h_mat_ext (X X' : cmat) : meq n n X X' -> meq d d (calc_h_mat d B X) (calc_h_mat d B X').
Proof. intros H i j _ _. unfold calc_h_mat. apply (@sumn_ext Cx); intros a _. f_equal. unfold h_coef. f_equal.
  apply (tr2_ext F d); [exact H|apply meq_refl]. Qed.
Lemma calc_j_mat_ext (X X' : cmat) : meq n n X X' -> meq d d (calc_j_mat d B X) (calc_j_mat d B X').
Proof. intros H i j _ _. unfold calc_j_mat. apply (@sumn_ext Cx); intros a _. f_equal. unfold j_coef. f_equal.
  apply (tr2_ext F d); [exact H|apply meq_refl]. Qed.

Let hv' : rvec := fun a => csub F (hv a) (cmul F (hv 0%nat) (dF a)).
Lemma proj_ineq_form (K' : cmat) :
  meq n n (proj_ineq_cb d B L K') (lcb_hjk d B (op_of_vec d B hv') (op_of_vec d B jv) K').
Proof. unfold proj_ineq_cb. apply lcb_hjk_ext.
  - apply (extract_h F d Hd B sd Horth Hherm H0 Hsd hv jv K).
  - apply (extract_j F d Hd B sd Horth Hherm H0 Hsd hv jv K).
  - apply meq_refl. Qed.
(* the projected generator has dissipator matrix K', the same Hamiltonian and anti-commutator matrices as L,
   and IS L when K' = K (in particular when K was already positive semidefinite and K' is its nearest PSD point) *)
Theorem proj_ineq_spec (K' : cmat) :
  meq m m (calc_k_mat d B (proj_ineq_cb d B L K')) K' /\
  meq d d (calc_h_mat d B (proj_ineq_cb d B L K')) (calc_h_mat d B L) /\
  meq d d (calc_j_mat d B (proj_ineq_cb d B L K')) (calc_j_mat d B L) /\
  (meq m m K' K -> meq n n (proj_ineq_cb d B L K') L).
Proof. pose proof (proj_ineq_form K') as E. repeat split.
  - intros a b Ha Hb. rewrite (calc_k_mat_ext _ _ E a b Ha Hb).
    apply (extract_k F d Hd B sd Horth Hherm H0 hv' jv K' a b Ha Hb).
  - intros i j Hi Hj. rewrite (calc_h_mat_ext _ _ E i j Hi Hj).
    rewrite (extract_h F d Hd B sd Horth Hherm H0 Hsd hv' jv K' i j Hi Hj). unfold L.
    rewrite (extract_h F d Hd B sd Horth Hherm H0 Hsd hv jv K i j Hi Hj).
    unfold op_of_vec. apply (@sumn_ext Cx); intros a _. f_equal. f_equal. unfold hv', C18_Extract.dF. cbn [Nat.eqb].
    destruct (Nat.eqb a 0); ring.
  - intros i j Hi Hj. rewrite (calc_j_mat_ext _ _ E i j Hi Hj).
    rewrite (extract_j F d Hd B sd Horth Hherm H0 Hsd hv' jv K' i j Hi Hj). unfold L.
    now rewrite (extract_j F d Hd B sd Horth Hherm H0 Hsd hv jv K i j Hi Hj).
  - intros HK s t Hs Ht. rewrite (E s t Hs Ht).
    rewrite (lcb_hjk_ext _ _ _ _ _ _ (meq_refl d d _) (meq_refl d d _) HK s t Hs Ht).
    unfold L, lcb_hjk, madd, hv'. now rewrite (h_part_drop0 hv s t Hs Ht). Qed.
End Gen.

(* ---------------------------------------------------------------- change of basis: linear, so the parts also sum in the B basis *)
Lemma chs_of_cb_ext (L L' : cmat) : meq n n L L' -> forall a b, chs_of_cb d B L a b = chs_of_cb d B L' a b.
Proof. intros H a b. unfold chs_of_cb, mmul. apply (@sumn_ext Cx); intros t Ht. f_equal.
  apply (@sumn_ext Cx); intros s Hs. now rewrite H. Qed.
Lemma chs_of_cb_madd (X Y : cmat) a b : chs_of_cb d B (madd X Y) a b = chs_of_cb d B X a b +c chs_of_cb d B Y a b.
Proof. unfold chs_of_cb.
  rewrite (mmul_ext n (mmul n (Umat d B) (madd X Y)) (madd (mmul n (Umat d B) X) (mmul n (Umat d B) Y)) (cadj (Umat d B)) (cadj (Umat d B)) (S a) (S b));
    [|intros ? ? _ _; apply mmul_madd_r|apply meq_refl|lia|lia].
  apply mmul_madd_l. Qed.

Theorem parts_sum_B (hv jv : rvec) (K : cmat) : let L := lcb_hjk d B (op_of_vec d B hv) (op_of_vec d B jv) K in
  forall a b, chs_of_cb d B (h_part d (calc_h_mat d B L)) a b +c chs_of_cb d B (j_part d (calc_j_mat d B L)) a b
              +c chs_of_cb d B (k_part d B (calc_k_mat d B L)) a b = chs_of_cb d B L a b.
Proof. intros L a b. rewrite <- !chs_of_cb_madd. apply chs_of_cb_ext. apply parts_sum_cb. Qed.
End Rebuild.
