(* C20 — the property's last clause in one statement: an accepted schedule that ends in its only POVM CAN BE EXECUTED
   (calc_prob_dist reaches the composition, for a valid index, when every referenced object is present) AND yields a
   normalised distribution (reference semantics); for the tomography classes: every schedule of an accepted schedule list
   ends in the POVM, refers to the estimated object's None placeholder (ValueError) and executes once that is filled in. *)
From Coq Require Import ZArith List Bool Arith String Lia.
From QV.Core Require Import OF Sums Mat.
From QV.Model Require Import C20_Schedule C20_Run.
From QV.Proofs Require Import C20_Schedule C20_Tomo C20_Run.
Import ListNotations.

(* no None placeholder anywhere in the four lists *)
Definition all_present (c : cfg) : Prop := forall k b, In b (objs c k) -> b = true.

Lemma present_in_range c it : all_present c -> in_range c it -> present c it.
Proof.
  intros H [H0 H1]. unfold present. apply (H (fst it)). apply nth_In. unfold size in H1. lia.
Qed.
Lemma first_none_all_present c t : all_present c -> Forall (in_range c) t -> forall p, first_none c p t = None.
Proof.
  intros H Hr p. pose proof (first_none_spec c t p) as S. destruct (first_none c p t) as [q|]; [|reflexivity].
  exfalso. destruct S as (pre & it & post & -> & _ & _ & N). apply N. apply present_in_range; [exact H|].
  apply Forall_app in Hr. destruct Hr as [_ Hr]. now inversion Hr.
Qed.

(* every schedule of a validated experiment without placeholders executes: calc_prob_dist composes its objects *)
Theorem executes_when_present e n s : valid_exp e -> all_present (e_cfg e) -> nth_error (e_scheds e) n = Some s ->
  exists t, s = sched_of t /\ well_formed (e_cfg e) s /\ calc_prob_dist_pre e (PInt (Z.of_nat n)) = CRun t.
Proof.
  intros He Hp Hn. destruct (calc_prob_dist_spec e n s He Hn) as (t & -> & Hr & Ho & E).
  exists t. split; [reflexivity|]. split; [exists t; auto|]. now rewrite E, (first_none_all_present _ _ Hp Hr).
Qed.

Section Norm.
Context {R : CR}.
(* "every accepted schedule that ends in its only POVM can be executed and yields a normalised distribution" *)
Theorem accepted_povm_schedule_executes_normalised (dim : nat) (tr : @vec R) (O : @objects R) e n s :
  physical dim tr O -> valid_exp e -> all_present (e_cfg e) -> nth_error (e_scheds e) n = Some s ->
  exists t, s = sched_of t /\ calc_prob_dist_pre e (PInt (Z.of_nat n)) = CRun t /\
            (ends_in_povm t = true -> lsum (run_dist dim O t) = c1 R).
Proof.
  intros Ph He Hp Hn. destruct (executes_when_present e n s He Hp Hn) as (t & -> & W & E).
  exists t. split; [reflexivity|]. split; [exact E|]. intros L. exact (accepted_povm_schedule_normalised dim tr O Ph (e_cfg e) t W L).
Qed.
End Norm.

(* ------------------------------------------------------------------ tomography classes *)
(* the experiment of a tomography object once the estimated object has been filled into its placeholder *)
Definition class_cfg_filled (t : tclass) (ns np : nat) : cfg :=
  match t with
  | Qst => mkcfg [true] (repeat true np) [] []
  | Povmt => mkcfg (repeat true ns) [true] [] []
  | Qpt => mkcfg (repeat true ns) (repeat true np) [true] []
  | Qmpt => mkcfg (repeat true ns) (repeat true np) [] [true]
  end.
Lemma filled_same_sizes t ns np : same_sizes (class_cfg t ns np) (class_cfg_filled t ns np).
Proof. intros k. destruct t, k; reflexivity. Qed.
Lemma filled_all_present t ns np : all_present (class_cfg_filled t ns np).
Proof.
  intros k b. destruct t, k; cbn; intros H; repeat (destruct H as [H|H]; [now subst|]); try contradiction;
    try (apply repeat_spec in H; exact H).
Qed.
Lemma class_shape_ends_in_povm t ns np items : class_shape t ns np (sched_of items) -> ends_in_povm items = true.
Proof.
  destruct t; cbn [class_shape]; [intros (j & _ & H)|intros (i & _ & H)|intros (i & j & _ & _ & H)|intros (i & j & _ & _ & H)];
    apply sched_of_inj in H; subst; reflexivity.
Qed.

Lemma nth_repeat_true n m : (n < m)%nat -> nth n (repeat true m) false = true.
Proof. revert n. induction m as [|m IH]; intros [|n] H; cbn; try lia; try reflexivity. apply IH. lia. Qed.

Section TomoNorm.
Context {R : CR}.
(* an accepted schedule list of a tomography class: every schedule ends in the POVM; with the placeholder in place
   calc_prob_dist raises ValueError, with the estimated object filled in it executes and the distribution is normalised *)
Theorem tomo_schedule_executes_normalised (dim : nat) (tr : @vec R) (O : @objects R) t ns np ss n s :
  physical dim tr O -> tomo_construct t ns np (AList ss) = TOk -> nth_error ss n = Some s ->
  exists items, s = sched_of items /\ ends_in_povm items = true /\
    (exists p, calc_prob_dist_pre (mkexp (class_cfg t ns np) ss) (PInt (Z.of_nat n)) = CValueError p) /\
    calc_prob_dist_pre (mkexp (class_cfg_filled t ns np) ss) (PInt (Z.of_nat n)) = CRun items /\
    lsum (run_dist dim O items) = c1 R.
Proof.
  intros Ph T Hn.
  assert (Sh : Forall (class_shape t ns np) ss) by (now apply tomo_accepts_iff_shape).
  cbn [tomo_construct] in T. apply tomo_run_ok_iff in T.
  assert (W : Forall (well_formed (class_cfg t ns np)) ss).
  { rewrite Forall_forall in *. intros x Hx. destruct (T x Hx) as (items & -> & Hr & Ho & _). exists items. auto. }
  assert (W' : Forall (well_formed (class_cfg_filled t ns np)) ss).
  { apply experiment_accepts_iff.
    rewrite <- (validation_ignores_placeholders (class_cfg t ns np) (class_cfg_filled t ns np) ss (filled_same_sizes t ns np)).
    apply experiment_accepts_iff. exact W. }
  destruct (accepted_povm_schedule_executes_normalised dim tr O (mkexp (class_cfg_filled t ns np) ss) n s Ph W' (filled_all_present t ns np) Hn)
    as (items & -> & E & N).
  rewrite Forall_forall in Sh. pose proof (class_shape_ends_in_povm t ns np items (Sh _ (nth_error_In _ _ Hn))) as L.
  exists items. split; [reflexivity|]. split; [exact L|]. split; [|split; [exact E|exact (N L)]].
  (* the placeholder: the class's own schedule refers to the estimated object *)
  destruct (calc_prob_dist_spec (mkexp (class_cfg t ns np) ss) n (sched_of items) W Hn) as (t' & Ht & _ & _ & E').
  apply sched_of_inj in Ht. subst t'. cbn [e_cfg] in E'. rewrite E'.
  pose proof (Sh _ (nth_error_In _ _ Hn)) as C.
  destruct t; cbn [class_shape] in C;
    [destruct C as (j & _ & H)|destruct C as (i & Hi & H)|destruct C as (i & j & Hi & _ & H)|destruct C as (i & j & Hi & _ & H)];
    apply sched_of_inj in H; subst items; cbn [first_none class_cfg objs fst snd c_states c_povms c_gates c_mprocesses].
  - now exists 0%nat.
  - replace (nth (Z.to_nat i) (repeat true ns) false) with true by (symmetry; apply nth_repeat_true; lia). now exists 1%nat.
  - replace (nth (Z.to_nat i) (repeat true ns) false) with true by (symmetry; apply nth_repeat_true; lia). now exists 1%nat.
  - replace (nth (Z.to_nat i) (repeat true ns) false) with true by (symmetry; apply nth_repeat_true; lia). now exists 1%nat.
Qed.
End TomoNorm.
