(* C05 — the norm step between the stopping quantity and the infeasibility of the returned point.
   Proved in C05_Dykstra.v for arbitrary projections: |x_next - y_next|^2 <= error_value.  Here: what a small |x - y|
   means when y lies in one of the two constraint sets —
     (1) y in a linear equality set  =>  every constraint residual of x is bounded:  (<c_j,x> - b_j)^2 <= |c_j|^2 |x - y|^2,
         and in sum  sum_j (<c_j,x> - b_j)^2 <= (sum_j |c_j|^2) |x - y|^2            (Cauchy-Schwarz);
     (2) Y positive semidefinite and |X - Y|_F^2 <= t^2, t >= 0  =>  X + t I positive semidefinite
         (the spectrum moves by at most the Frobenius norm; no square roots: stated with squares).
   Generic in the ordered field; axiom-free. *)
From Coq Require Import Field Ring Setoid Arith Lia Bool List.
From QV.Core Require Import OF Sums Mat Psd.
From QV.Model Require Import C05_Dykstra.
From QV.Proofs Require Import C05_Dykstra C05_Sets.

Section Norms.
Context (F : OF).
Add Field Ff5n : (k_field F).
Notation "0" := (c0 F). Notation "1" := (c1 F).
Infix "+" := (cadd F). Infix "*" := (cmul F). Infix "<=" := (kle F). Infix "-" := (csub F).
Notation "- x" := (copp F x).
Notation vec := (@vec F).
Notation mat := (@mat F).

Lemma sumn_le n (f g : nat -> F) : (forall i, (i < n)%nat -> f i <= g i) -> sumn n f <= sumn n g.
Proof. induction n as [|n IH]; intros H; cbn [sumn]; [apply k_refl|].
  apply le_add_compat; [apply IH; intros; apply H; lia|apply H; lia]. Qed.

(* ---- (1) equality constraints *)
Theorem eq_residual_le n m (c : nat -> vec) (b : nat -> F) (x y : vec) :
  lin_set F n m c b y -> forall j, (j < m)%nat ->
  (dot n (c j) x - b j) * (dot n (c j) x - b j) <= dot n (c j) (c j) * dist2 F n x y.
Proof. intros Hy j Hj. rewrite <- (Hy j Hj).
  assert (E : dot n (c j) x - dot n (c j) y = dot n (c j) (vsub x y)).
  { unfold dot, vsub. rewrite <- sumn_sub. apply sumn_ext; intros; ring. }
  rewrite E. apply cauchy_schwarz. Qed.

Theorem eq_residual_sum_le n m (c : nat -> vec) (b : nat -> F) (x y : vec) :
  lin_set F n m c b y ->
  sumn m (fun j => (dot n (c j) x - b j) * (dot n (c j) x - b j)) <= sumn m (fun j => dot n (c j) (c j)) * dist2 F n x y.
Proof. intros Hy. rewrite <- sumn_scale_r. apply sumn_le. intros j Hj. exact (eq_residual_le n m c b x y Hy j Hj). Qed.

(* ---- (2) the PSD cone *)
(* a^2 <= b^2 and 0 <= b  =>  -b <= a *)
Lemma sq_le_lower a b : a * a <= b * b -> 0 <= b -> 0 <= a + b.
Proof. intros H Hb. destruct (k_total F 0 a) as [Ha|Ha]; [now apply add_nonneg|].
  assert (Hc : 0 <= b - a). { replace (b - a) with (b + - a) by ring. apply add_nonneg; [exact Hb|now apply opp_nonneg]. }
  assert (Hp : 0 <= (a + b) * (b - a)).
  { replace ((a + b) * (b - a)) with (b * b - a * a) by ring. now apply (proj1 (le_sub F _ _)). }
  destruct (keqb F (b - a) 0) eqn:Ec.
  - apply keqb_spec in Ec. assert (Eab : a = b) by (replace a with (b - (b - a)) by ring; rewrite Ec; ring).
    rewrite Eab. now apply add_nonneg.
  - assert (Hne : b - a <> 0). { intros E0. rewrite E0 in Ec. assert (T : keqb F 0 0 = true) by (apply keqb_spec; reflexivity). congruence. }
    replace (a + b) with ((a + b) * (b - a) * (kdiv F 1 (b - a))) by (field; exact Hne).
    apply (k_mul F); [exact Hp|now apply inv_nonneg]. Qed.

(* matrices as vectors of length m*n: the Frobenius inner product is a dot product *)
Definition flat (n : nat) (A : mat) : vec := fun k => A (k / n)%nat (k mod n)%nat.
Lemma inner_flat m n A B : inner m n A B = dot (m * n) (flat n A) (flat n B).
Proof. unfold inner, dot. rewrite sumn_flat. apply sumn_ext; intros i Hi. apply sumn_ext; intros j Hj. unfold flat.
  assert (n <> 0)%nat by lia.
  replace ((i * n + j) / n)%nat with i by (rewrite Nat.div_add_l by assumption; rewrite (Nat.div_small j n Hj); lia).
  replace ((i * n + j) mod n)%nat with j
    by (rewrite Nat.add_comm, Nat.mod_add by assumption; now rewrite Nat.mod_small).
  reflexivity. Qed.
Lemma cauchy_schwarz_mat m n A B : inner m n A B * inner m n A B <= inner m n A A * inner m n B B.
Proof. rewrite !inner_flat. apply cauchy_schwarz. Qed.

Definition outer (v : vec) : mat := fun i j => v i * v j.
Lemma qf_inner n (D : mat) v : qf F n D v = inner n n D (outer v).
Proof. unfold qf, inner, outer. apply sumn_ext; intros i _. apply sumn_ext; intros j _. ring. Qed.
Lemma inner_outer n v : inner n n (outer v) (outer v) = dot n v v * dot n v v.
Proof. unfold inner, outer, dot. rewrite sumn_mul. apply sumn_ext; intros i _. apply sumn_ext; intros j _. ring. Qed.
Lemma dot_self_nonneg n (v : vec) : 0 <= dot n v v.
Proof. unfold dot. apply sumn_nonneg; intros. apply sqr_nonneg. Qed.

Definition shift (t : F) (X : mat) : mat := fun i j => X i j + (if Nat.eqb i j then t else 0).
Lemma qf_shift n t (X Y : mat) v : qf F n (shift t X) v = qf F n Y v + qf F n (msub X Y) v + t * dot n v v.
Proof. unfold qf, shift, msub, dot. rewrite <- sumn_scale_l, <- !sumn_add. apply sumn_ext; intros i Hi.
  rewrite (sumn_ext n (fun j => v i * (X i j + (if Nat.eqb i j then t else 0)) * v j)
                      (fun j => (v i * Y i j * v j + v i * (X i j - Y i j) * v j) + (if Nat.eqb i j then t * (v i * v j) else 0))).
  2:{ intros j _. destruct (Nat.eqb i j); ring. }
  rewrite sumn_add, sumn_add, (sumn_delta' n i (fun j => t * (v i * v j)) Hi). ring. Qed.

Theorem psd_shift n (X Y : mat) (t : F) :
  0 <= t -> inner n n (msub X Y) (msub X Y) <= t * t -> PSD F n Y -> PSD F n (shift t X).
Proof. intros Ht Hd PY v. rewrite (qf_shift n t X Y v).
  replace (qf F n Y v + qf F n (msub X Y) v + t * dot n v v) with (qf F n Y v + (qf F n (msub X Y) v + t * dot n v v)) by ring.
  apply add_nonneg; [apply PY|].
  apply sq_le_lower; [|apply (k_mul F); [exact Ht|apply dot_self_nonneg]].
  rewrite qf_inner.
  apply (k_trans F _ _ _ (cauchy_schwarz_mat n n (msub X Y) (outer v))).
  rewrite inner_outer.
  replace (t * dot n v v * (t * dot n v v)) with (dot n v v * dot n v v * (t * t)) by ring.
  replace (inner n n (msub X Y) (msub X Y) * (dot n v v * dot n v v)) with (dot n v v * dot n v v * inner n n (msub X Y) (msub X Y)) by ring.
  apply mul_le_compat_nonneg; [apply (k_mul F); apply dot_self_nonneg|exact Hd]. Qed.

(* with the isometry hypothesis of the record certificate: |Op x - Op y|_F^2 = |x - y|^2 *)
Corollary psd_shift_iso n md (Op : vec -> mat) (x y : vec) (t : F) :
  (forall u v, inner md md (Op u) (Op v) = dot n u v) ->
  (forall u v i j, Op (vsub u v) i j = Op u i j - Op v i j) ->
  0 <= t -> dist2 F n x y <= t * t -> PSD F md (Op y) -> PSD F md (shift t (Op x)).
Proof. intros Hiso Hsub Ht Hd PY. apply (psd_shift md (Op x) (Op y) t Ht); [|exact PY].
  rewrite (inner_ext md md (msub (Op x) (Op y)) (Op (vsub x y)) (msub (Op x) (Op y)) (Op (vsub x y))).
  - rewrite Hiso. exact Hd.
  - intros i j _ _. symmetry. apply Hsub.
  - intros i j _ _. symmetry. apply Hsub. Qed.

(* ---- combined with the sweep: what the stopping quantity  error_value = br s (step k s)  says about the point
   x' = sx (step k s)  that the loop returns when it stops at this sweep *)
Section Sweep.
Context (n : nat) (frz : vec -> vec).
Hypothesis frz_spec : forall v i, (i < n)%nat -> frz v i = v i.
Context (PA PB : nat -> vec -> vec).
Notation step := (step F frz PA PB).

Lemma lin_set_ext m (c : nat -> vec) (b : nat -> F) (u v : vec) : veq n u v -> lin_set F n m c b u -> lin_set F n m c b v.
Proof. intros E H j Hj. rewrite <- (H j Hj). apply dot_ext; [apply veq_refl|]. intros i Hi. symmetry. now apply E. Qed.

(* order "eq_ineq": the FIRST projection maps into the equality set; the returned x' violates the constraints by at most
   (sum_j |c_j|^2) * error_value  (squared residuals) *)
Theorem returned_eq_residual m (c : nat -> vec) (b : nat -> F) k s :
  (forall k u, lin_set F n m c b (PA k u)) ->
  sumn m (fun j => (dot n (c j) (sx (step k s)) - b j) * (dot n (c j) (sx (step k s)) - b j))
    <= sumn m (fun j => dot n (c j) (c j)) * br F n s (step k s).
Proof. intros HA.
  assert (Hy : lin_set F n m c b (sy (step k s))).
  { apply (lin_set_ext m c b (PA k (arg_first F frz s))); [|apply HA]. intros i Hi. symmetry. exact (step_y F n frz frz_spec PA PB k s i Hi). }
  apply (k_trans F _ _ _ (eq_residual_sum_le n m c b (sx (step k s)) (sy (step k s)) Hy)).
  apply mul_le_compat_nonneg; [|exact (xy_le_br F n frz frz_spec PA PB k s)].
  apply sumn_nonneg. intros j _. apply dot_self_nonneg. Qed.

(* order "ineq_eq": the FIRST projection maps into the PSD cone; if error_value <= t^2 the returned x' is PSD after a
   shift by t  (its smallest eigenvalue is >= -t) *)
Theorem returned_psd_shift md (Op : vec -> mat) k s t :
  (forall u v, inner md md (Op u) (Op v) = dot n u v) ->
  (forall u v i j, Op (vsub u v) i j = Op u i j - Op v i j) ->
  PSD F md (Op (sy (step k s))) -> 0 <= t -> br F n s (step k s) <= t * t ->
  PSD F md (shift t (Op (sx (step k s)))).
Proof. intros Hiso Hsub PY Ht Hbr. apply (psd_shift_iso n md Op (sx (step k s)) (sy (step k s)) t Hiso Hsub Ht); [|exact PY].
  apply (k_trans F _ _ _ (xy_le_br F n frz frz_spec PA PB k s) Hbr). Qed.
End Sweep.
End Norms.
