(* C04 — the nearest-PSD-point certificate for complex Hermitian matrices, through the real symmetric embedding
   H = A + iB  |->  [[A, -B], [B, A]]  (Model/HermEmbed.v), and soundness of the executable check
   [cert_check] (Model/C04_Cert.v) that the harness evaluates on the implementation's outputs. *)
From Coq Require Import Field Ring Setoid Arith Lia Bool.
From QV.Core Require Import OF Sums Mat Cplx Psd C04_ProjCert.
From QV.Model Require Import QObj HermEmbed C04_Cert.

Section C04Herm.
Context (F : OF).
Add Field Ffh : (k_field F).
Notation "0" := (c0 F). Notation "1" := (c1 F).
Infix "+" := (cadd F). Infix "*" := (cmul F). Infix "<=" := (kle F). Infix "-" := (csub F).
Notation "- x" := (copp F x).
Notation cmat := (cmat F). Notation rmat := (rmat F).

(* ---------------------------------------------------------------- small order fact *)
Lemma halve_le x y : x + x <= y + y -> x <= y.
Proof. intros H. destruct (k_total F x y) as [A|A]; [exact A|].
  assert (E : x + x = y + y). { apply (k_antisym F); [exact H|]. now apply le_add_compat. }
  assert (D : x - y = 0).
  { destruct (keqb F (x - y) 0) eqn:Q; [now apply keqb_spec|]. exfalso.
    assert (Hne : x - y <> 0). { intros Z. rewrite Z in Q. unfold keqb in Q. rewrite (proj2 (k_leb F 0 0) (k_refl F 0)) in Q. discriminate. }
    apply (double_neq0 F _ Hne). replace (x - y + (x - y)) with (x + x - (y + y)) by ring. rewrite E. ring. }
  replace x with (x - y + y) by ring. rewrite D. replace (0 + y) with y by ring. apply k_refl. Qed.

(* ---------------------------------------------------------------- boolean tests *)
Lemma allb_spec n p : allb n p = true <-> forall i, (i < n)%nat -> p i = true.
Proof. induction n as [|n IH]; cbn. { split; [intros _ i Hi; lia|reflexivity]. }
  rewrite andb_true_iff, IH. split.
  - intros [A B] i Hi. destruct (Nat.eq_dec i n) as [->|]; [exact B|apply A; lia].
  - intros H. split; [intros i Hi; apply H; lia|apply H; lia]. Qed.
Lemma herm_dec_spec n (H : cmat) : herm_dec F n H = true <-> hermitian n H.
Proof. unfold herm_dec, hermitian. rewrite allb_spec. split.
  - intros A i j Hi Hj. specialize (A i Hi). rewrite allb_spec in A. specialize (A j Hj).
    apply andb_true_iff in A. destruct A as [A B]. apply keqb_spec in A. apply keqb_spec in B.
    apply cplx_eq; cbn; assumption.
  - intros A i Hi. rewrite allb_spec. intros j Hj. pose proof (A i j Hi Hj) as E.
    apply andb_true_iff. split; apply keqb_spec; rewrite E; reflexivity. Qed.
Lemma hermitian_re n (H : cmat) i j : hermitian n H -> (i < n)%nat -> (j < n)%nat -> re (H i j) = re (H j i).
Proof. intros A Hi Hj. rewrite (A i j Hi Hj). reflexivity. Qed.
Lemma hermitian_im n (H : cmat) i j : hermitian n H -> (i < n)%nat -> (j < n)%nat -> im (H i j) = - im (H j i).
Proof. intros A Hi Hj. rewrite (A i j Hi Hj) at 1. reflexivity. Qed.

(* ---------------------------------------------------------------- the embedding *)
Lemma embed_sym n (H : cmat) : hermitian n H -> symmetric F (n + n) (embed F n H).
Proof. intros A i j Hi Hj. unfold embed.
  destruct (Nat.ltb_spec i n), (Nat.ltb_spec j n).
  - now apply (hermitian_re n).
  - rewrite (hermitian_im n H (j - n) i A) by lia. ring.
  - rewrite (hermitian_im n H (i - n) j A) by lia. reflexivity.
  - apply (hermitian_re n); [exact A|lia|lia]. Qed.
Lemma shiftI_shift t (M : rmat) i j : shiftI F t M i j = shift t M i j.
Proof. unfold shiftI, shift, madd, mscale, mid. destruct (Nat.eqb i j); ring. Qed.
Lemma embed_sub n (X Y : cmat) i j : embed F n (csubm X Y) i j = msub (embed F n X) (embed F n Y) i j.
Proof. unfold embed, msub, csubm. destruct (i <? n)%nat, (j <? n)%nat; cbn; ring. Qed.
Lemma csubm_herm n (X Y : cmat) : hermitian n X -> hermitian n Y -> hermitian n (csubm X Y).
Proof. intros HX HY i j Hi Hj. unfold csubm. rewrite (HX i j Hi Hj), (HY i j Hi Hj) at 1. apply cplx_eq; cbn; ring. Qed.

(* sums over the doubled index range, block by block *)
Lemma sum2 n (f : nat -> F) : sumn (n + n) f = sumn n f + sumn n (fun i => f (n + i)%nat).
Proof. apply sumn_app. Qed.
Lemma ltb_lo i n : (i < n)%nat -> (i <? n)%nat = true. Proof. apply Nat.ltb_lt. Qed.
Lemma ltb_hi i n : (n + i <? n)%nat = false. Proof. apply Nat.ltb_ge. lia. Qed.
Lemma hi_sub i n : (n + i - n = i)%nat. Proof. lia. Qed.

Lemma inner_embed n (A B : cmat) :
  Mat.inner (n + n) (n + n) (embed F n A) (embed F n B) = cre_inner n A B + cre_inner n A B.
Proof. unfold Mat.inner, cre_inner. rewrite sum2.
  rewrite (sumn_ext n (fun i => sumn (n + n) (fun j => embed F n A i j * embed F n B i j))
            (fun i => sumn n (fun j => re (A i j) * re (B i j) + im (A i j) * im (B i j)))).
  2:{ intros i Hi. rewrite sum2, <- sumn_add. apply sumn_ext; intros j Hj. unfold embed.
      rewrite (ltb_lo i n Hi), (ltb_lo j n Hj), ltb_hi, hi_sub. ring. }
  rewrite (sumn_ext n (fun i => sumn (n + n) (fun j => embed F n A (n + i)%nat j * embed F n B (n + i)%nat j))
            (fun i => sumn n (fun j => re (A i j) * re (B i j) + im (A i j) * im (B i j)))).
  2:{ intros i Hi. rewrite sum2, <- sumn_add. apply sumn_ext; intros j Hj. unfold embed.
      rewrite ltb_hi, hi_sub, (ltb_lo j n Hj), ltb_hi, hi_sub. ring. }
  reflexivity. Qed.
Lemma trace_embed n (Z : cmat) : mtrace (n + n) (embed F n Z) = re_trace n Z + re_trace n Z.
Proof. unfold mtrace, re_trace. rewrite sum2. f_equal.
  - apply sumn_ext; intros i Hi. unfold embed. now rewrite (ltb_lo i n Hi).
  - apply sumn_ext; intros i Hi. unfold embed. now rewrite ltb_hi, hi_sub. Qed.
Lemma dist2_embed n (A B : cmat) : dist2 (n + n) (embed F n A) (embed F n B) = hdist2 n A B + hdist2 n A B.
Proof. unfold dist2, hdist2. rewrite <- inner_embed. apply inner_ext; intros i j _ _; symmetry; apply embed_sub. Qed.

Lemma herm_psd_dec_spec n (H : cmat) t : hermitian n H ->
  (herm_psd_dec F n H t = true <-> PSD F (n + n) (shift t (embed F n H))).
Proof. intros A. unfold herm_psd_dec.
  assert (S1 : symmetric F (n + n) (shiftI F t (embed F n H))).
  { intros i j Hi Hj. rewrite !shiftI_shift. apply (shift_sym F (n + n) t _ (embed_sym n H A)); assumption. }
  rewrite (psd_dec_spec F (n + n) _ S1). split; apply PSD_ext; intros i j _ _; [|symmetry]; apply shiftI_shift. Qed.

(* ---------------------------------------------------------------- the Hermitian certificate *)
Theorem herm_proj_certificate n (X Y : cmat) eps delta :
  hermitian n X -> hermitian n Y -> 0 <= eps ->
  herm_psd_dec F n X eps = true -> herm_psd_dec F n (csubm X Y) eps = true ->
  cre_inner n X (csubm X Y) <= delta -> - delta <= cre_inner n X (csubm X Y) ->
  forall Z, hermitian n Z -> herm_PSD n Z ->
    hdist2 n Y X + hdist2 n X Z - (delta + delta) - (eps + eps) * re_trace n Z <= hdist2 n Y Z.
Proof. intros HX HY He PX PR Hd1 Hd2 Z HZ PZ.
  apply (herm_psd_dec_spec n X eps HX) in PX.
  apply (herm_psd_dec_spec n _ eps (csubm_herm n X Y HX HY)) in PR.
  assert (PR' : PSD F (n + n) (shift eps (msub (embed F n X) (embed F n Y)))).
  { revert PR. apply PSD_ext. intros i j _ _. unfold shift, madd. now rewrite embed_sub. }
  assert (EI : Mat.inner (n + n) (n + n) (embed F n X) (msub (embed F n X) (embed F n Y))
               = cre_inner n X (csubm X Y) + cre_inner n X (csubm X Y)).
  { rewrite <- inner_embed. apply inner_ext; intros i j _ _; [reflexivity|symmetry; apply embed_sub]. }
  pose proof (psd_proj_certificate F (n + n) (embed F n X) (embed F n Y) eps (delta + delta)
                (embed_sym n X HX) (embed_sym n Y HY) He PX PR') as C.
  rewrite EI in C.
  specialize (C (le_add_compat F _ _ _ _ Hd1 Hd1)).
  assert (Hd2' : - (delta + delta) <= cre_inner n X (csubm X Y) + cre_inner n X (csubm X Y)).
  { replace (- (delta + delta)) with (- delta + - delta) by ring. now apply le_add_compat. }
  specialize (C Hd2' (embed F n Z) (embed_sym n Z HZ) PZ).
  rewrite !dist2_embed, trace_embed in C.
  apply halve_le.
  match goal with |- ?l <= _ => replace l with
    (hdist2 n Y X + hdist2 n Y X + (hdist2 n X Z + hdist2 n X Z) - (delta + delta + (delta + delta))
     - (eps + eps) * (re_trace n Z + re_trace n Z)) by ring end.
  exact C. Qed.

(* what the executed check establishes *)
Theorem cert_check_sound n (X Y : cmat) eps delta : cert_check n X Y eps delta = true ->
  hermitian n X /\ hermitian n Y /\
  PSD F (n + n) (shift eps (embed F n X)) /\                       (* the output is PSD up to eps *)
  forall Z, hermitian n Z -> herm_PSD n Z ->                        (* and no PSD matrix is closer, up to the slack *)
    hdist2 n Y X + hdist2 n X Z - (delta + delta) - (eps + eps) * re_trace n Z <= hdist2 n Y Z.
Proof. unfold cert_check. intros H.
  repeat (apply andb_true_iff in H; let G := fresh "G" in destruct H as [H G]).
  apply herm_dec_spec in H. apply herm_dec_spec in G4. apply k_leb in G3. apply k_leb in G0. apply k_leb in G.
  split; [exact H|]. split; [exact G4|]. split.
  - now apply (herm_psd_dec_spec n X eps H).
  - now apply herm_proj_certificate. Qed.

(* exact case: eps = delta = 0 gives the unique nearest PSD point *)
Theorem herm_proj_exact n (X Y : cmat) : cert_check n X Y 0 0 = true ->
  herm_PSD n X /\
  forall Z, hermitian n Z -> herm_PSD n Z ->
    hdist2 n Y X <= hdist2 n Y Z /\
    (hdist2 n Y Z <= hdist2 n Y X -> forall i j, (i < n)%nat -> (j < n)%nat -> Z i j = X i j).
Proof. intros H. destruct (cert_check_sound n X Y 0 0 H) as (HX & HY & PX & B). split.
  - revert PX. apply PSD_ext. apply shift0.
  - intros Z HZ PZ. specialize (B Z HZ PZ).
    assert (B' : hdist2 n Y X + hdist2 n X Z <= hdist2 n Y Z).
    { match type of B with ?l <= _ => replace l with (hdist2 n Y X + hdist2 n X Z) in B by ring end. exact B. }
    assert (N : 0 <= hdist2 n X Z).
    { unfold hdist2, cre_inner. apply sumn_nonneg; intros i _. apply sumn_nonneg; intros j _.
      apply add_nonneg; apply sqr_nonneg. }
    split. { apply (k_trans F _ (hdist2 n Y X + hdist2 n X Z)); [now apply le_add_nonneg_r|exact B']. }
    intros Hle i j Hi Hj.
    assert (Z0 : hdist2 n X Z = 0).
    { apply (k_antisym F); [|exact N]. pose proof (k_trans F _ _ _ B' Hle) as T. apply (proj1 (le_sub F _ _)) in T.
      apply (proj2 (le_sub F _ _)).
      replace (hdist2 n Y X - (hdist2 n Y X + hdist2 n X Z)) with (0 - hdist2 n X Z) in T by ring. exact T. }
    unfold hdist2, cre_inner in Z0.
    pose proof (sumn_nonneg_zero F n _ (fun a _ => sumn_nonneg F n _ (fun b _ => add_nonneg F _ _ (sqr_nonneg F _) (sqr_nonneg F _))) Z0 i Hi) as R1.
    cbv beta in R1.
    pose proof (sumn_nonneg_zero F n _ (fun b _ => add_nonneg F _ _ (sqr_nonneg F _) (sqr_nonneg F _)) R1 j Hj) as R2.
    cbv beta in R2.
    destruct (nonneg_sum_zero F _ _ (sqr_nonneg F _) (sqr_nonneg F _) R2) as [Q1 Q2].
    apply sqr_zero in Q1. apply sqr_zero in Q2. unfold csubm in Q1, Q2. cbn in Q1, Q2.
    apply cplx_eq.
    + replace (re (Z i j)) with (re (X i j) - (re (X i j) - re (Z i j))) by ring. rewrite Q1. ring.
    + replace (im (Z i j)) with (im (X i j) - (im (X i j) - im (Z i j))) by ring. rewrite Q2. ring. Qed.
End C04Herm.
