(* C14 — supplementary binary64 witness (DESIGN section 4, #18): in floating-point arithmetic ten times 0.1 accumulates
   to 1 - 2^-53, which is also the largest random number the generator can return, so the comparison
   `r < cumulative_sum` fails for every index and the loop runs to its end.  AS CODED BEFORE fix
   C14-rn2data-fallback-zero-probability the function then returned the LAST index - an outcome of probability exactly
   0; the repaired function returns index 9, the last outcome of positive probability.  Proved by computation with
   Coq's primitive floats (kernel primitives float/add/ltb/... are listed by Print Assumptions; nothing else).
   Replayed on the real code by the harness sub-check `fallback`. *)
From Coq Require Import Floats List ZArith.
From QV.Model Require Import C14_Float.
Import ListNotations.
Local Open Scope float_scope.

Lemma float_zero_probability_outcome_reachable_before_fix :
  rn2data_f_before_fix witness_ps witness_r = 10%Z /\ nth 10 witness_ps 1 = 0 /\
  fold_left PrimFloat.add witness_ps 0 = witness_r /\
  (0 <=? witness_r) = true /\ (witness_r <? 1) = true /\ witness_r = 1 - 0x1p-53.
Proof. vm_compute. repeat split. Qed.

Lemma float_witness_after_fix :
  rn2data_f witness_ps witness_r = 9%Z /\ (0 <? nth 9 witness_ps 0) = true.
Proof. vm_compute. split; reflexivity. Qed.
