(* C17 — the table ring Z[i, sqrt 2] evaluated in an arbitrary ordered field F that contains a square root s2 of 2:
   [ev8 s2] is a ring morphism into the complex numbers CF F that commutes with conjugation, hence statements proved
   by computation on the integer tables (unitarity, ...) hold for the corresponding complex matrices over F — in
   particular over the reals, and over Qc with the implementation's float sqrt 2 up to the float's defect s2^2 - 2.
   Axiom-free, generic in F. *)
From Coq Require Import ZArith Ring Field Setoid InitialRing Lia List Arith.
From QV.Core Require Import OF Sums Mat Cplx C17_Z8.
From QV.Model Require Import QObj C17_Tables C17_Catalogue.
From QV.Proofs Require Import C17_Tables.

Record ev8_morphism (F : OF) (s2 : F) : Prop := {
  ev_0 : ev8 s2 z8_0 = c0 (CF F);
  ev_1 : ev8 s2 z8_1 = c1 (CF F);
  ev_add : forall x y, ev8 s2 (z8add x y) = cadd (CF F) (ev8 s2 x) (ev8 s2 y);
  ev_mul : forall x y, ev8 s2 (z8mul x y) = cmul (CF F) (ev8 s2 x) (ev8 s2 y);
  ev_sub : forall x y, ev8 s2 (z8sub x y) = csub (CF F) (ev8 s2 x) (ev8 s2 y);
  ev_opp : forall x, ev8 s2 (z8opp x) = copp (CF F) (ev8 s2 x);
  ev_conj : forall x, ev8 s2 (z8conj x) = zconj (ev8 s2 x);
  ev_i : ev8 s2 z8_i = @zi F;
  ev_s : ev8 s2 z8_s = zof s2;
  ev_z : forall n, ev8 s2 (z8z n) = zof (zinj n) }.

Section Eval.
Context (F : OF) (s2 : F).
Hypothesis Hs : cmul F s2 s2 = cadd F (c1 F) (c1 F).
Add Field FfE : (k_field F).
Notation Cx := (CF F).
Notation "0" := (c0 F). Notation "1" := (c1 F).
Infix "+" := (cadd F). Infix "*" := (cmul F). Infix "-" := (csub F). Notation "- x" := (copp F x).

Let zm := gen_phiZ_morph (Eqsth F) (Eq_ext (cadd F) (cmul F) (copp F)) (c_ring F).
Lemma zinj_add x y : zinj (F := F) (x + y)%Z = zinj x + zinj y. Proof. exact (morph_add zm x y). Qed.
Lemma zinj_mul x y : zinj (F := F) (x * y)%Z = zinj x * zinj y. Proof. exact (morph_mul zm x y). Qed.
Lemma zinj_sub x y : zinj (F := F) (x - y)%Z = zinj x - zinj y. Proof. exact (morph_sub zm x y). Qed.
Lemma zinj_opp x : zinj (F := F) (- x)%Z = - zinj x. Proof. exact (morph_opp zm x). Qed.
Lemma zinj_0 : zinj (F := F) 0%Z = 0. Proof. reflexivity. Qed.
Lemma zinj_1 : zinj (F := F) 1%Z = 1. Proof. reflexivity. Qed.
Lemma zinj_2 : zinj (F := F) 2%Z = 1 + 1. Proof. reflexivity. Qed.

Ltac zpush := repeat (rewrite ?zinj_add, ?zinj_mul, ?zinj_sub, ?zinj_opp, ?zinj_0, ?zinj_1, ?zinj_2).

Lemma ev8_is_morphism_sec : ev8_morphism F s2.
Proof. constructor.
  - apply cplx_eq; cbn; ring.
  - apply cplx_eq; cbn; ring.
  - intros [a1 b1 c1' d1] [a2 b2 c2 d2]. apply cplx_eq; unfold ev8, z8add; cbn [re im fst snd z8a z8b z8c z8d cadd CF zadd]; zpush; ring.
  - intros [a1 b1 c1' d1] [a2 b2 c2 d2]. apply cplx_eq; unfold ev8, z8mul; cbn [re im fst snd z8a z8b z8c z8d cmul CF zmul]; zpush.
    + transitivity (zinj a1 * zinj a2 - zinj b1 * zinj b2 + (s2 * s2) * (zinj c1' * zinj c2 - zinj d1 * zinj d2)
                    + (zinj a1 * zinj c2 - zinj b1 * zinj d2 + zinj c1' * zinj a2 - zinj d1 * zinj b2) * s2).
      { rewrite Hs. ring. } ring.
    + transitivity (zinj a1 * zinj b2 + zinj b1 * zinj a2 + (s2 * s2) * (zinj c1' * zinj d2 + zinj d1 * zinj c2)
                    + (zinj a1 * zinj d2 + zinj b1 * zinj c2 + zinj c1' * zinj b2 + zinj d1 * zinj a2) * s2).
      { rewrite Hs. ring. } ring.
  - intros [a1 b1 c1' d1] [a2 b2 c2 d2]. apply cplx_eq; unfold ev8, z8sub; cbn [re im fst snd z8a z8b z8c z8d csub CF zsub]; zpush; ring.
  - intros [a1 b1 c1' d1]. apply cplx_eq; unfold ev8, z8opp; cbn [re im fst snd z8a z8b z8c z8d copp CF zopp]; zpush; ring.
  - intros [a1 b1 c1' d1]. apply cplx_eq; unfold ev8, z8conj, zconj; cbn [re im fst snd z8a z8b z8c z8d]; zpush; ring.
  - apply cplx_eq; cbn; ring.
  - apply cplx_eq; cbn; ring.
  - intros n. apply cplx_eq; unfold ev8, z8z, zof; cbn [re im fst snd z8a z8b z8c z8d]; zpush; ring.
Qed.

(* ---- transfer of the table statements to complex matrices over F ---- *)
Definition evm (A : zmat) : cmat F := fun i j => ev8 s2 (A i j).
Definition evv (v : zvec) : cvec F := fun i => ev8 s2 (v i).

Lemma ev_sumn n (f : nat -> z8) : ev8 s2 (@sumn Z8R n f) = @sumn Cx n (fun i => ev8 s2 (f i)).
Proof. pose proof ev8_is_morphism_sec as M. induction n as [|n IH]; cbn [sumn].
  - exact (ev_0 _ _ M).
  - change (cadd Z8R) with z8add. rewrite (ev_add _ _ M), IH. reflexivity. Qed.

(* (ev m)^dagger (ev m) = n I  over CF F ;  with sn * sn = n the matrix  ev m / sn  is unitary *)
Definition gate_unitary_over_sec (g : tgate) : Prop :=
  forall i j, (i < tg_dim g)%nat -> (j < tg_dim g)%nat ->
    mmul (tg_dim g) (cadj (evm (tg_m g))) (evm (tg_m g)) i j = cmul Cx (zof (zinj (tg_n g))) (mid i j).
Lemma gate_unitary_transfer_sec g : gate_unitary g -> gate_unitary_over_sec g.
Proof. pose proof ev8_is_morphism_sec as M. intros [_ H] i j Hi Hj. specialize (H i j Hi Hj).
  apply (f_equal (ev8 s2)) in H. unfold mmul in H. rewrite ev_sumn in H.
  change (cmul Z8R) with z8mul in H. rewrite (ev_mul _ _ M), (ev_z _ _ M) in H.
  unfold mmul, cadj, evm.
  transitivity (@sumn Cx (tg_dim g) (fun l => ev8 s2 (z8mul (zadj (tg_m g) i l) (tg_m g l j)))).
  - apply sumn_ext; intros l Hl. rewrite (ev_mul _ _ M). unfold zadj. rewrite (ev_conj _ _ M). reflexivity.
  - rewrite H. f_equal. unfold zI, mid. destruct (Nat.eqb i j); [exact (ev_1 _ _ M)|exact (ev_0 _ _ M)]. Qed.

(* a normalised table state is a normalised complex vector up to the factor n *)
Definition state_normalised_over_sec (s : tstate) : Prop :=
  @sumn Cx (ts_dim s) (fun i => cmul Cx (evv (ts_v s) i) (zconj (evv (ts_v s) i))) = zof (zinj (ts_n s)).
Lemma state_normalised_transfer_sec s : state_normalised s -> state_normalised_over_sec s.
Proof. pose proof ev8_is_morphism_sec as M. intros [_ H]. apply (f_equal (ev8 s2)) in H. unfold znorm2v in H.
  rewrite ev_sumn, (ev_z _ _ M) in H. unfold state_normalised_over_sec. rewrite <- H.
  apply sumn_ext; intros i Hi. unfold evv. now rewrite (ev_mul _ _ M), (ev_conj _ _ M). Qed.

(* an action triple (equality of density operators) transfers:  n_t (U s)(U s)^dagger = n_g n_s t t^dagger  over CF F *)
Definition dens_eq_over_sec (d : nat) (s t : tstate) : Prop :=
  forall i j, (i < d)%nat -> (j < d)%nat ->
    cmul Cx (zof (zinj (ts_n t))) (outer (evv (ts_v s)) i j) = cmul Cx (zof (zinj (ts_n s))) (outer (evv (ts_v t)) i j).
Lemma dens_eq_transfer_sec d s t : dens_eq d s t -> dens_eq_over_sec d s t.
Proof. pose proof ev8_is_morphism_sec as M. intros H i j Hi Hj. specialize (H i j Hi Hj). apply (f_equal (ev8 s2)) in H.
  rewrite !(ev_mul _ _ M), !(ev_z _ _ M) in H. unfold zouter in H. rewrite !(ev_mul _ _ M), !(ev_conj _ _ M) in H. exact H. Qed.
(* the evaluated gate applied to the evaluated state is the evaluation of the table product *)
Lemma gate_apply_ev g s i : evv (ts_v (gate_apply g s)) i = mv (tg_dim g) (evm (tg_m g)) (evv (ts_v s)) i.
Proof. pose proof ev8_is_morphism_sec as M. unfold gate_apply, evv, evm, zmv, mv. cbn [ts_v]. rewrite ev_sumn.
  apply sumn_ext; intros l Hl. change (cmul Z8R) with z8mul. now rewrite (ev_mul _ _ M). Qed.
End Eval.

Definition gate_unitary_over (F : OF) (s2 : F) (g : tgate) : Prop := gate_unitary_over_sec F s2 g.
Definition state_normalised_over (F : OF) (s2 : F) (s : tstate) : Prop := state_normalised_over_sec F s2 s.
Definition dens_eq_over (F : OF) (s2 : F) (d : nat) (s t : tstate) : Prop := dens_eq_over_sec F s2 d s t.

Theorem ev8_is_morphism (F : OF) (s2 : F) : cmul F s2 s2 = cadd F (c1 F) (c1 F) -> ev8_morphism F s2.
Proof. exact (ev8_is_morphism_sec F s2). Qed.
Theorem gate_unitary_transfer (F : OF) (s2 : F) (g : tgate) :
  cmul F s2 s2 = cadd F (c1 F) (c1 F) -> gate_unitary g -> gate_unitary_over F s2 g.
Proof. intros H. exact (gate_unitary_transfer_sec F s2 H g). Qed.
Theorem state_normalised_transfer (F : OF) (s2 : F) (s : tstate) :
  cmul F s2 s2 = cadd F (c1 F) (c1 F) -> state_normalised s -> state_normalised_over F s2 s.
Proof. intros H. exact (state_normalised_transfer_sec F s2 H s). Qed.
(* every table triple, in every such field: the evaluated unitary maps the evaluated input density to the output density *)
Theorem triple_transfer (F : OF) (s2 : F) (g : gname) (a b : sname) :
  cmul F s2 s2 = cadd F (c1 F) (c1 F) -> triple_holds (g, a, b) ->
  dens_eq_over F s2 (tg_dim (gate_tbl g)) (gate_apply (gate_tbl g) (state_tbl a)) (state_tbl b) /\
  forall i, evv F s2 (ts_v (gate_apply (gate_tbl g) (state_tbl a))) i
            = mv (tg_dim (gate_tbl g)) (evm F s2 (tg_m (gate_tbl g))) (evv F s2 (ts_v (state_tbl a))) i.
Proof. intros H T. split; [exact (dens_eq_transfer_sec F s2 H _ _ _ T)|]. intros i. exact (gate_apply_ev F s2 H _ _ i). Qed.
