(* C17 — the named catalogues (Model/C17_Names.v): the names are pairwise different, every NAMED entry has a table with the
   textbook property of its family, and the bridge between the FORMAL Hamiltonians produced by the translated name parser
   (Model/C17_PySem.v) and the 2-qutrit Hamiltonian tables (ham2t).  Axiom-free. *)
From Coq Require Import String Ascii List ZArith QArith Qcanon Bool Arith Lia.
From QV.Core Require Import OF Sums Mat C17_Z8.
From QV.Model Require Import C17_Tables C17_Names C17_PySem.
From QV.Proofs Require Import C17_Tables.
Import ListNotations.
Open Scope string_scope.

(* ---------- the names of one catalogue are pairwise different *)
Fixpoint str_nodupb (l : list string) : bool :=
  match l with [] => true | x :: r => negb (existsb (String.eqb x) r) && str_nodupb r end.
Lemma str_nodupb_spec l : str_nodupb l = true -> NoDup l.
Proof. induction l as [|x r IH]; cbn [str_nodupb]; [constructor|]. rewrite andb_true_iff, negb_true_iff. intros [A B].
  constructor; [|now apply IH]. intros Hin. assert (existsb (String.eqb x) r = true) by (apply existsb_exists; exists x; split; [exact Hin|apply String.eqb_refl]).
  congruence. Qed.

Theorem catalogue_names_distinct :
  (forall sys, (sys < 5)%nat -> NoDup (map fst (cat_states sys))) /\
  (forall sys, (sys < 5)%nat -> NoDup (map fst (cat_povms sys))) /\
  (forall sys, (sys < 4)%nat -> NoDup (map fst (cat_gates sys))) /\
  NoDup (map fst cat_mprocs) /\ NoDup (map fst cat_gates_2qutrit_single).
Proof.
  assert (A : forallb (fun sys => str_nodupb (map fst (cat_states sys)) && str_nodupb (map fst (cat_povms sys))) (seq 0 5) = true)
    by (vm_compute; reflexivity).
  assert (B : forallb (fun sys => str_nodupb (map fst (cat_gates sys))) (seq 0 4) = true) by (vm_compute; reflexivity).
  rewrite forallb_forall in A, B.
  split; [|split; [|split; [|split]]].
  - intros sys H. apply str_nodupb_spec. specialize (A sys). rewrite andb_true_iff in A. apply A. apply in_seq. lia.
  - intros sys H. apply str_nodupb_spec. specialize (A sys). rewrite andb_true_iff in A. apply A. apply in_seq. lia.
  - intros sys H. apply str_nodupb_spec. apply B. apply in_seq. lia.
  - apply str_nodupb_spec. vm_compute. reflexivity.
  - apply str_nodupb_spec. vm_compute. reflexivity.
Qed.
Lemma catalogue_sizes :
  map (fun s => length (cat_states s)) (seq 0 5) = [7; 53; 345; 19; 325]%nat /\ map (fun s => length (cat_povms s)) (seq 0 5) = [3; 12; 27; 8; 64]%nat /\
  length cat_gates_2qutrit_single = 198%nat /\ Z.of_nat (length cat_gates_2qutrit_double) = 39006%Z.
Proof. repeat split; vm_compute; reflexivity. Qed.

(* ---------- every NAMED state is normalised, every NAMED POVM sums to the identity *)
Theorem named_states_normalised : forall sys, (sys < 5)%nat -> Forall (fun e => state_normalised (state_tbl (snd e))) (cat_states sys).
Proof. intros sys H.
  assert (A : forallb (fun sys => forallb (fun e => state_normalisedb (state_tbl (snd e))) (cat_states sys)) (seq 0 5) = true) by (vm_compute; reflexivity).
  rewrite forallb_forall in A. specialize (A sys ltac:(apply in_seq; lia)).
  revert A. apply forallb_Forall. intros e. apply state_normalisedb_spec. Qed.
Definition povm_name_complete (e : string * list nat) : Prop :=
  let '(d, es) := povm_tbl (snd e) in let s := tf_sum es in (0 < tf_n s)%Z /\ tf_is_identity d s.
Theorem named_povms_complete : forall sys, (sys < 5)%nat -> Forall povm_name_complete (cat_povms sys).
Proof. intros sys H.
  assert (A : forallb (fun sys => forallb (fun e : string * list nat => let '(d, es) := povm_tbl (snd e) in let s := tf_sum es in
                (0 <? tf_n s)%Z && tf_is_identityb d s) (cat_povms sys)) (seq 0 5) = true) by (vm_cast_no_check (@eq_refl bool true)).
  rewrite forallb_forall in A. specialize (A sys ltac:(apply in_seq; lia)).
  revert A. apply forallb_Forall. intros e. unfold povm_name_complete. destruct (povm_tbl (snd e)) as [d es]. cbv zeta.
  rewrite andb_true_iff, Z.ltb_lt. intros [X Y]. split; [exact X|now apply tf_is_identityb_spec]. Qed.

(* ---------- formal Hamiltonians (C17_PySem.fterm) vs the tables *)
(* literal 3 x 3 matrix stored in a method table under a name, as a matrix over Z8 *)
Definition lit_of (tbl : list (string * pres pyv)) (m : string) : zmat :=
  match lookup_method tbl m with
  | Some (POk (VLit rows)) => fun i j => let '(a, b) := nth j (nth i rows []) (0%Z, 0%Z) in mk8 a b 0 0
  | _ => fun _ _ => z8_0
  end.
(* 4 p for a coefficient p * pi (0 unless it is an integer multiple of pi / 4 without rational part) *)
Definition coef4 (c : pnum) : Z :=
  let q := this (n_pi c * Q2Qc (4 # 1))%Qc in
  if (if Qc_eq_dec (n_q c) 0 then true else false) && Pos.eqb (Qden q) 1 then Qnum q else 0%Z.
Definition denote4 (tbl : list (string * pres pyv)) (t : list fterm) : zmat :=
  fold_left (fun acc (x : fterm) => match snd x with
                                   | [m0; m1] => zplus acc (zsc (z8z (coef4 (fst x))) (zkron 3 (lit_of tbl m0) (lit_of tbl m1)))
                                   | _ => acc end) t (fun _ _ => z8_0).
Definition expected_term (t : nat * nat * nat) : fterm := let '(b0, b1, k) := t in (qpi (Z.of_nat k) 4, [base_method b0; base_method b1]).
Definition lits_are_tables (tbl : list (string * pres pyv)) : Prop :=
  forall b i j, (b < 10)%nat -> (i < 3)%nat -> (j < 3)%nat -> lit_of tbl (base_method b) i j = base3 b i j.
Definition lits_are_tablesb (tbl : list (string * pres pyv)) : bool :=
  forallb (fun b => forallb (fun i => forallb (fun j => z8eqb (lit_of tbl (base_method b) i j) (base3 b i j)) (seq 0 3)) (seq 0 3)) (seq 0 10).
Lemma lits_are_tablesb_spec tbl : lits_are_tablesb tbl = true -> lits_are_tables tbl.
Proof. unfold lits_are_tablesb, lits_are_tables. rewrite forallb_forall. intros H b i j Hb Hi Hj.
  specialize (H b ltac:(apply in_seq; lia)). rewrite forallb_forall in H. specialize (H i ltac:(apply in_seq; lia)).
  rewrite forallb_forall in H. specialize (H j ltac:(apply in_seq; lia)). now apply z8eqb_spec. Qed.

Definition good_term (t : nat * nat * nat) : Prop := let '(b0, b1, k) := t in (b0 < 10)%nat /\ (b1 < 10)%nat /\ (k = 1 \/ k = 2)%nat.
Lemma coef4_qpi k : (k = 1 \/ k = 2)%nat -> coef4 (qpi (Z.of_nat k) 4) = Z.of_nat k.
Proof. intros [-> | ->]; vm_compute; reflexivity. Qed.

Section Denote.
Variable tbl : list (string * pres pyv).
Hypothesis Hl : lits_are_tables tbl.
Lemma denote4_step acc acc' t : good_term t -> meq 9 9 acc acc' ->
  meq 9 9 (zplus acc (zsc (z8z (coef4 (fst (expected_term t)))) (zkron 3 (lit_of tbl (base_method (fst (fst t)))) (lit_of tbl (base_method (snd (fst t)))))))
          (zplus acc' (ham2t_single (fst (fst t)) (snd (fst t)) (snd t))).
Proof. destruct t as [[b0 b1] k]. intros [H0 [H1 Hk]] E i j Hi Hj. cbn [fst snd expected_term]. rewrite coef4_qpi by exact Hk.
  unfold zplus, zsc, ham2t_single, zkron, kron. rewrite E by assumption. f_equal. f_equal.
  change (cmul Z8R ?a ?b) with (z8mul a b).
  rewrite !Hl; try assumption; try (apply Nat.div_lt_upper_bound; lia); try (apply Nat.mod_upper_bound; lia). reflexivity. Qed.
Lemma denote4_expected_gen terms : Forall good_term terms -> forall acc acc', meq 9 9 acc acc' ->
  meq 9 9 (fold_left (fun a (x : fterm) => match snd x with
                                     | [m0; m1] => zplus a (zsc (z8z (coef4 (fst x))) (zkron 3 (lit_of tbl m0) (lit_of tbl m1)))
                                     | _ => a end) (map expected_term terms) acc)
          (fold_left (fun a t => let '(b0, b1, k) := t in zplus a (ham2t_single b0 b1 k)) terms acc').
Proof. induction 1 as [|t r Ht Hr IH]; intros acc acc' E; cbn [map fold_left]; [exact E|].
  apply IH. destruct t as [[b0 b1] k]. cbn [expected_term snd]. exact (denote4_step acc acc' (b0, b1, k) Ht E). Qed.
Theorem denote4_expected terms : Forall good_term terms -> meq 9 9 (denote4 tbl (map expected_term terms)) (ham2t terms).
Proof. intros H. unfold denote4, ham2t. apply denote4_expected_gen; [exact H|]. intros i j _ _. reflexivity. Qed.
End Denote.

(* reflection of the boolean comparison of formal terms *)
Lemma neqb_spec a b : neqb a b = true -> a = b.
Proof. destruct a as [q p], b as [q' p']. unfold neqb. cbn [n_q n_pi]. destruct (Qc_eq_dec q q'), (Qc_eq_dec p p'); cbn; try discriminate. intros _. now subst. Qed.
Lemma strs_eqb_spec (a b : list string) : Nat.eqb (length a) (length b) && forallb (fun p => String.eqb (fst p) (snd p)) (combine a b) = true -> a = b.
Proof. revert b. induction a as [|x a IH]; destruct b as [|y b]; cbn; try discriminate; [reflexivity|].
  rewrite !andb_true_iff. intros [L [E R]]. apply String.eqb_eq in E. subst. f_equal. apply IH. now rewrite L, R. Qed.
Lemma fterm_eqb_spec a b : fterm_eqb a b = true -> a = b.
Proof. destruct a as [c ns], b as [d ms]. unfold fterm_eqb. cbn [fst snd]. rewrite <- andb_assoc, andb_true_iff. intros [A B].
  apply neqb_spec in A. apply strs_eqb_spec in B. now subst. Qed.
Lemma terms_eqb_spec a b : terms_eqb a b = true -> a = b.
Proof. revert b. induction a as [|x a IH]; destruct b as [|y b]; cbn; try discriminate; [reflexivity|].
  rewrite andb_true_iff. intros [A B]. apply fterm_eqb_spec in A. apply IH in B. now subst. Qed.
Lemma is_mat_spec r d t : is_mat r d t = true -> r = POk (VMat d t).
Proof. destruct r as [[]|]; cbn; try discriminate. rewrite andb_true_iff, Nat.eqb_eq. intros [-> B]. apply terms_eqb_spec in B. now subst. Qed.

Lemma terms_2qutrit_good : Forall good_term terms_2qutrit.
Proof. apply Forall_forall. intros [[b0 b1] k] H.
  assert (A : forallb (fun t : nat * nat * nat => let '(b0, b1, k) := t in (b0 <? 10)%nat && (b1 <? 10)%nat && (Nat.eqb k 1 || Nat.eqb k 2)) terms_2qutrit = true)
    by (vm_compute; reflexivity).
  rewrite forallb_forall in A. specialize (A _ H). cbv beta iota in A. rewrite !andb_true_iff, orb_true_iff, !Nat.ltb_lt, !Nat.eqb_eq in A.
  unfold good_term. tauto. Qed.
Lemma cat_quick_incl e : In e cat_gates_2qutrit_quick -> In e cat_gates_2qutrit.
Proof. unfold cat_gates_2qutrit_quick, cat_gates_2qutrit, cat_gates_2qutrit_cross. rewrite !in_app_iff, filter_In. tauto. Qed.
Lemma cat_cross_size : length cat_gates_2qutrit_cross = 1564%nat.
Proof. vm_compute. reflexivity. Qed.
Lemma cat_2qutrit_terms_good name terms : In (name, terms) cat_gates_2qutrit -> Forall good_term terms.
Proof. unfold cat_gates_2qutrit, cat_gates_2qutrit_single, cat_gates_2qutrit_double. rewrite in_app_iff, in_map_iff, in_flat_map.
  pose proof terms_2qutrit_good as G. rewrite Forall_forall in G.
  intros [[t [E Ht]]|[s [Hs H]]].
  - inversion E; subst. constructor; [now apply G|constructor].
  - apply in_flat_map in H. destruct H as [t [Ht H]]. destruct (term_eqb s t); [destruct H|]. destruct H as [E|[]]. inversion E; subst.
    constructor; [now apply G|]. constructor; [now apply G|constructor]. Qed.
