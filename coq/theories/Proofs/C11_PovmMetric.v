(* C11 — the metric of the on_para_eq_constraint=True POVM variable, for every number of outcomes and every dimension
   (generic ordered field, axiom-free):  the stacked-vector embedding of Model/C11_Cvx.v is the conversion [C11_povm_vec]
   (which the cvx_maps sub-check ties to quara), and its metric  L^T L  is  (I + 1 1^T) (x) I_D :
   2 I for two outcomes (Euclidean up to a factor), NOT a multiple of the identity for three or more. *)
From Coq Require Import Arith List Bool Lia Field Ring Setoid.
From QV.Core Require Import OF Sums Mat Cplx.
From QV.Model Require Import QObj C11_Pgdb C11_Cvx.
Import ListNotations.

Section C11_PovmMetric.
Context (F : OF).
Add Field Ffpm11 : (k_field F).
Notation "0" := (c0 F). Notation "1" := (c1 F).
Infix "+" := (cadd F). Infix "*" := (cmul F). Infix "-" := (csub F).

Lemma C11_flat_lt x a K D : (x < K)%nat -> (a < D)%nat -> (x * D + a < K * D)%nat.
Proof. intros Hx Ha. apply Nat.lt_le_trans with (S x * D)%nat; [simpl; lia|]. apply Nat.mul_le_mono_r. lia. Qed.

(* the embedding IS the conversion: entry (x, a) of the stacked vector is entry a of the coefficient vector of element x *)
Lemma C11_povm_emb_is_conversion K D sd (var : rvec F) x a : (x <= K)%nat -> (a < D)%nat ->
  C11_emb F (K * D) (C11_povm_L F D (S K)) (C11_povm_c F D (S K) sd) var (x * D + a)%nat
  = C11_povm_vec F D (S K) sd var x a.
Proof. intros Hx Ha. unfold C11_emb, mv, C11_povm_L, C11_povm_c, C11_povm_vec.
  replace (S K - 1)%nat with K by lia.
  destruct (Nat.ltb_spec (S x) (S K)) as [Hlt|Hge].
  - assert (Hk : (x * D + a < K * D)%nat) by (apply C11_flat_lt; lia).
    rewrite (proj2 (Nat.ltb_lt _ _) Hk).
    rewrite (sumn_ext (K * D) _ (fun j => if Nat.eqb (x * D + a) j then var j else 0)).
    2:{ intros j _. destruct (Nat.eqb (x * D + a) j); ring. }
    rewrite (sumn_delta' (K * D) (x * D + a)%nat var Hk).
    destruct (Nat.eqb_spec (x * D + a) (K * D)) as [E|_]; [lia|]. ring.
  - assert (x = K) by lia. subst x.
    destruct (Nat.ltb_spec (K * D + a) (K * D)) as [Hbad|_]; [lia|].
    replace (K * D + a - K * D)%nat with a by lia.
    rewrite sumn_flat.
    rewrite (sumn_ext K _ (fun y => csub F 0 (var (y * D + a)%nat))).
    2:{ intros y _. rewrite (sumn_ext D _ (fun b => if Nat.eqb a b then csub F 0 (var (y * D + b)%nat) else 0)).
        2:{ intros b Hb. destruct (divmod_flat y b D Hb) as [_ ->]. destruct (Nat.eqb a b); ring. }
        apply (sumn_delta' D a (fun b => csub F 0 (var (y * D + b)%nat)) Ha). }
    rewrite (sumn_ext K (fun y => csub F 0 (var (y * D + a)%nat)) (fun y => copp F (var (y * D + a)%nat))) by (intros; ring).
    rewrite sumn_opp.
    destruct (Nat.eqb_spec (K * D + a) (K * D)) as [E|E]; destruct (Nat.eqb_spec a 0) as [E'|E']; try lia; ring. Qed.

(* the metric:  (L^T L)_{ij} = delta_ij + [i mod D = j mod D] *)
Lemma C11_povm_metric K D i j : (i < K * D)%nat -> (j < K * D)%nat ->
  C11_metric_of F (S K * D) (C11_povm_L F D (S K)) i j
  = (if Nat.eqb i j then 1 else 0) + (if Nat.eqb (i mod D) (j mod D) then 1 else 0).
Proof. intros Hi Hj. assert (HD : (0 < D)%nat) by (destruct D; [rewrite Nat.mul_0_r in Hi; lia|lia]).
  unfold C11_metric_of, mmul, mT. replace (S K * D)%nat with (K * D + D)%nat by (simpl; lia).
  rewrite sumn_app. f_equal.
  - rewrite (sumn_ext (K * D) _ (fun k => if Nat.eqb k i then (if Nat.eqb i j then 1 else 0) else 0)).
    2:{ intros k Hk. unfold C11_povm_L. replace (S K - 1)%nat with K by lia. rewrite (proj2 (Nat.ltb_lt _ _) Hk).
        destruct (Nat.eqb_spec k i) as [->|Hne]; [|ring]. destruct (Nat.eqb i j); ring. }
    apply (sumn_delta (K * D) i (fun _ => if Nat.eqb i j then 1 else 0) Hi).
  - assert (Hm : (i mod D < D)%nat) by (apply Nat.mod_upper_bound; lia).
    rewrite (sumn_ext D _ (fun a => if Nat.eqb a (i mod D) then (if Nat.eqb (i mod D) (j mod D) then 1 else 0) else 0)).
    2:{ intros a Ha. unfold C11_povm_L. replace (S K - 1)%nat with K by lia.
        destruct (Nat.ltb_spec (K * D + a) (K * D)) as [Hbad|_]; [lia|].
        replace (K * D + a - K * D)%nat with a by lia.
        destruct (Nat.eqb_spec a (i mod D)) as [->|Hne]; [|ring]. destruct (Nat.eqb (i mod D) (j mod D)); ring. }
    apply (sumn_delta D (i mod D) (fun _ => if Nat.eqb (i mod D) (j mod D) then 1 else 0) Hm). Qed.

(* two outcomes: M = 2 I  (the Euclidean projection, C11_scalar_metric_obtuse applies with c = 2) *)
Lemma C11_povm2_metric_scalar D i j : (i < 1 * D)%nat -> (j < 1 * D)%nat ->
  C11_metric_of F (2 * D) (C11_povm_L F D 2) i j = (if Nat.eqb i j then 1 + 1 else 0).
Proof. intros Hi Hj. rewrite (C11_povm_metric 1 D i j Hi Hj).
  rewrite (Nat.mod_small i D) by lia. rewrite (Nat.mod_small j D) by lia. destruct (Nat.eqb i j); ring. Qed.
(* three or more outcomes: the off-diagonal entry (0, D) is 1, so M is not c I for any c *)
Lemma C11_povm3_metric_offdiag K D : (0 < D)%nat -> (2 <= K)%nat ->
  C11_metric_of F (S K * D) (C11_povm_L F D (S K)) 0%nat D = 1.
Proof. intros HD HK.
  assert (H0 : (0 < K * D)%nat) by (apply Nat.lt_le_trans with (1 * D)%nat; [lia|apply Nat.mul_le_mono_r; lia]).
  assert (H1 : (D < K * D)%nat) by (apply Nat.lt_le_trans with (2 * D)%nat; [lia|apply Nat.mul_le_mono_r; lia]).
  rewrite (C11_povm_metric K D 0%nat D H0 H1).
  rewrite Nat.mod_same by lia. rewrite Nat.mod_0_l by lia.
  destruct (Nat.eqb_spec 0 D) as [E|_]; [lia|]. cbn [Nat.eqb]. ring. Qed.
Lemma C11_povm3_metric_not_scalar K D c : (0 < D)%nat -> (2 <= K)%nat ->
  ~ (forall i j, (i < K * D)%nat -> (j < K * D)%nat ->
       C11_metric_of F (S K * D) (C11_povm_L F D (S K)) i j = (if Nat.eqb i j then c else 0)).
Proof. intros HD HK H.
  assert (H0 : (0 < K * D)%nat) by (apply Nat.lt_le_trans with (1 * D)%nat; [lia|apply Nat.mul_le_mono_r; lia]).
  assert (H1 : (D < K * D)%nat) by (apply Nat.lt_le_trans with (2 * D)%nat; [lia|apply Nat.mul_le_mono_r; lia]).
  specialize (H 0%nat D H0 H1). rewrite (C11_povm3_metric_offdiag K D HD HK) in H.
  destruct (Nat.eqb_spec 0 D) as [E|_]; [lia|]. exact (one_neq_zero F H). Qed.
End C11_PovmMetric.
