(* C14 — witnesses that the property was FALSE of the code as it was before /verif/fixes/C14-*.diff.  Every statement is
   about a definition of Model/C14_BeforeFix.v ("as coded before the fix"), never about the model the harness executes.
   The same inputs are replayed on the real code by the harness (they raise violations on the unpatched tree). *)
From Coq Require Import List Arith Bool ZArith QArith Qcanon.
From QV.Core Require Import OF QcOF.
From QV.Model Require Import Multinomial C14_DataGen C14_Streams C14_BeforeFix.
Import ListNotations.

(* before fix C14-rn2data-fallback-zero-probability: a probability vector ACCEPTED by validate_prob_dist (its sum is within
   atol of 1) and a random number in [0,1) for which the generated datum is an outcome of probability exactly 0 *)
Definition wit_eps : Qc := Q2Qc (1 # 17592186044416).          (* 2^-44 *)
Definition wit_ps : list Qc := [(1 - wit_eps)%Qc; 0%Qc].
Definition wit_r : Qc := (1 - wit_eps)%Qc.
Lemma zero_probability_outcome_reachable_before_fix :
  gen_data_before_fix Qc_OF wit_eps wit_ps [wit_r] = MOk [1%Z] /\ nth 1 wit_ps 1%Qc = 0%Qc /\
  kle Qc_OF 0%Qc wit_r /\ klt Qc_OF wit_r 1%Qc.
Proof. split; [vm_compute; reflexivity|]. split; [reflexivity|]. split.
  - apply (proj1 (k_leb Qc_OF _ _)). vm_compute. reflexivity.
  - split; [apply (proj1 (k_leb Qc_OF _ _)); vm_compute; reflexivity|]. intros H. apply (f_equal (fun x : Qc => Qnum (this x))) in H. vm_compute in H. discriminate H. Qed.
(* ... on which the repaired model returns outcome 0, of probability 1 - 2^-44 *)
Lemma zero_probability_witness_after_fix : gen_data Qc_OF wit_eps wit_ps [wit_r] = MOk [0%Z].
Proof. vm_compute. reflexivity. Qed.

(* before fix C14-empi-seq-nonpositive-first-num-sum: the request [0; 2] on data [0; 1] succeeds with NO distribution at all
   (the valid request 2 is silently dropped); the repaired model rejects it *)
Lemma nonpositive_first_num_sum_dropped_before_fix :
  empi_seq_before_fix Qc_OF 2 [0; 1]%Z [0; 2]%Z = EOk [] /\ empi_seq Qc_OF 2 [0; 1]%Z [0; 2]%Z = EErr 4.
Proof. split; vm_compute; reflexivity. Qed.

(* before fix C14-reset-seed-zero: two sessions that differ only in an EARLIER np.random.seed value, each followed by
   constructing a tomography object, reset_seed(0) and a None-seeded generate_empi_dists, return different draws
   (free generator: outputs name their draws); with the repaired reset_seed they return the same draws *)
Definition after_reset0_before_fix (z0 : Z) : @world fgen :=
  snd (bind (construct_experiment fgseed None) (fun o => tomo_reset_seed_before_fix fgseed o (Some 0%Z)) (set_glob (fgseed z0) fworld0)).
Definition after_reset0 (z0 : Z) : @world fgen :=
  snd (bind (construct_experiment fgseed None) (fun o => tomo_reset_seed fgseed o (Some 0%Z)) (set_glob (fgseed z0) fworld0)).
Lemma reset_seed_zero_ignored_before_fix :
  fst (run_call fdraw fmkgen fgseed (CTomoEmpiDists 2 5%Z) SNone (after_reset0_before_fix 1%Z)) <>
  fst (run_call fdraw fmkgen fgseed (CTomoEmpiDists 2 5%Z) SNone (after_reset0_before_fix 2%Z)).
Proof. vm_compute. intros H. discriminate H. Qed.
Lemma reset_seed_zero_honoured_after_fix :
  fst (run_call fdraw fmkgen fgseed (CTomoEmpiDists 2 5%Z) SNone (after_reset0 1%Z)) =
  fst (run_call fdraw fmkgen fgseed (CTomoEmpiDists 2 5%Z) SNone (after_reset0 2%Z)).
Proof. vm_compute. reflexivity. Qed.
