(* C07 — the permutation built by QOperation._permutation_matrix_from_qutrits_to_qubits ([emb_perm], Model/C07_Embed.v) for EVERY
   number n of qutrits: closed form of the loop with its two running counters, the number of digit-3-free numbers below 4^n is 3^n,
   hence [emb_perm n] is a bijection of [0, 4^n) (inverse [emb_inv n]), it sends the digit-3-free qubit basis states to the qutrit
   basis states in order (base-3 reading of the base-4 digits) and all others to [3^n, 4^n). *)
From Coq Require Import Arith List Bool Lia.
From QV.Model Require Import C07_Tensor C07_Embed.
From QV.Proofs Require Import C07_Embed.
Import ListNotations.

(* ---- counting over ranges *)
Definition cnt (P : nat -> bool) (st len : nat) : nat := length (filter P (seq st len)).
Lemma cnt_0 P st : cnt P st 0 = 0%nat. Proof. reflexivity. Qed.
Lemma cnt_S_right P st len : cnt P st (S len) = (cnt P st len + (if P (st + len)%nat then 1 else 0))%nat.
Proof. unfold cnt. rewrite seq_S, filter_app, app_length. cbn [filter]. destruct (P (st + len)%nat); reflexivity. Qed.
Lemma cnt_S_left P st len : cnt P st (S len) = ((if P st then 1 else 0) + cnt P (S st) len)%nat.
Proof. unfold cnt. cbn [seq filter]. destruct (P st); reflexivity. Qed.
Lemma cnt_compl P len : forall st, (cnt P st len + cnt (fun a => negb (P a)) st len = len)%nat.
Proof. induction len as [|len IH]; intros st; [reflexivity|]. rewrite !cnt_S_left. specialize (IH (S st)). destruct (P st); cbn [negb]; lia. Qed.
Lemma cnt_mono P st a b : (a <= b)%nat -> (cnt P st a <= cnt P st b)%nat.
Proof. induction 1 as [|b _ IH]; [lia|]. rewrite cnt_S_right. lia. Qed.
Lemma cnt_strict P a b : (a < b)%nat -> P a = true -> (cnt P 0 a < cnt P 0 b)%nat.
Proof. intros Hab Ha. pose proof (cnt_mono P 0 (S a) b Hab) as H. rewrite cnt_S_right in H. cbn [Nat.add] in H. rewrite Ha in H. lia. Qed.
Lemma cnt_inj P a b : P a = true -> P b = true -> cnt P 0 a = cnt P 0 b -> a = b.
Proof. intros Ha Hb E. destruct (Nat.lt_trichotomy a b) as [H|[H|H]]; [|exact H|].
  - pose proof (cnt_strict P a b H Ha). lia.
  - pose proof (cnt_strict P b a H Hb). lia. Qed.

(* ---- the loop of the code: closed form *)
Definition non3 (n a : nat) : bool := negb (has3 n a).
Fixpoint outs (n : nat) (l : list nat) (i e : nat) : list (nat * nat) :=
  match l with
  | [] => []
  | a :: r => if has3 n a then (a, 3 ^ n + i)%nat :: outs n r (S i) e else (a, e) :: outs n r i (S e)
  end.
Lemma fold_outs n l : forall acc i e, exists i' e',
  fold_left (emb_step n) l (acc, i, e) = (rev (outs n l i e) ++ acc, i', e').
Proof. induction l as [|a r IH]; intros acc i e; cbn [fold_left outs].
  - exists i, e. reflexivity.
  - unfold emb_step at 2. destruct (has3 n a).
    + destruct (IH ((a, (3 ^ n + i)%nat) :: acc) (S i) e) as (i' & e' & E). exists i', e'. rewrite E. cbn [rev]. now rewrite <- app_assoc.
    + destruct (IH ((a, e) :: acc) i (S e)) as (i' & e' & E). exists i', e'. rewrite E. cbn [rev]. now rewrite <- app_assoc. Qed.
Lemma emb_pairs_outs n : emb_pairs n = outs n (seq 0 (4 ^ n)) 0 0.
Proof. unfold emb_pairs. destruct (fold_outs n (seq 0 (4 ^ n)) [] 0%nat 0%nat) as (i' & e' & E). rewrite E.
  now rewrite app_nil_r, rev_involutive. Qed.
Lemma nth_outs n : forall len st i e a, (a < len)%nat ->
  nth a (map snd (outs n (seq st len) i e)) 0%nat =
  if has3 n (st + a)%nat then (3 ^ n + i + cnt (has3 n) st a)%nat else (e + cnt (non3 n) st a)%nat.
Proof. induction len as [|len IH]; intros st i e a Ha; [lia|]. cbn [seq outs].
  destruct a as [|a].
  - rewrite Nat.add_0_r, !cnt_0. destruct (has3 n st); cbn [map nth snd]; lia.
  - replace (st + S a)%nat with (S st + a)%nat by lia. rewrite !cnt_S_left. unfold non3 at 1.
    destruct (has3 n st) eqn:H; cbn [map nth snd negb]; rewrite IH by lia; destruct (has3 n (S st + a)%nat); lia. Qed.
Theorem emb_perm_char n a : (a < 4 ^ n)%nat ->
  emb_perm n a = if has3 n a then (3 ^ n + cnt (has3 n) 0 a)%nat else cnt (non3 n) 0 a.
Proof. intros Ha. unfold emb_perm. rewrite emb_pairs_outs. rewrite nth_outs by exact Ha. cbn [Nat.add].
  destruct (has3 n a); lia. Qed.

(* ---- digit arithmetic: the digit-3-free numbers *)
Lemma divmod4 M r : (r < 4)%nat -> ((4 * M + r) / 4 = M /\ (4 * M + r) mod 4 = r)%nat.
Proof. intros Hr. split; [symmetry; apply (Nat.div_unique _ 4 M r); lia|symmetry; apply (Nat.mod_unique _ 4 M r); lia]. Qed.
Lemma non3_digit k M r : (r < 4)%nat -> non3 (S k) (4 * M + r) = negb (Nat.eqb r 3) && non3 k M.
Proof. intros Hr. unfold non3. cbn [has3]. destruct (divmod4 M r Hr) as [-> ->]. now rewrite negb_orb. Qed.
Lemma cnt_block_part k M r : (r <= 4)%nat ->
  cnt (non3 (S k)) 0 (4 * M + r) = (cnt (non3 (S k)) 0 (4 * M) + (if has3 k M then 0 else Nat.min r 3))%nat.
Proof. intros Hr.
  assert (D : forall q, (q < 4)%nat -> non3 (S k) (0 + (4 * M + q)) = negb (Nat.eqb q 3) && negb (has3 k M)).
  { intros q Hq. cbn [Nat.add]. now rewrite non3_digit. }
  pose proof (D 0%nat ltac:(lia)) as D0. pose proof (D 1%nat ltac:(lia)) as D1.
  pose proof (D 2%nat ltac:(lia)) as D2. pose proof (D 3%nat ltac:(lia)) as D3.
  rewrite Nat.add_0_r in D0. cbn [Nat.eqb negb andb] in D0, D1, D2, D3.
  destruct r as [|[|[|[|[|r]]]]]; try lia.
  - rewrite Nat.add_0_r. destruct (has3 k M); lia.
  - replace (4 * M + 1)%nat with (S (4 * M)) by lia. rewrite cnt_S_right, D0. destruct (has3 k M); cbn; lia.
  - replace (4 * M + 2)%nat with (S (4 * M + 1)) by lia. rewrite cnt_S_right, D1.
    replace (4 * M + 1)%nat with (S (4 * M)) by lia. rewrite cnt_S_right, D0. destruct (has3 k M); cbn; lia.
  - replace (4 * M + 3)%nat with (S (4 * M + 2)) by lia. rewrite cnt_S_right, D2.
    replace (4 * M + 2)%nat with (S (4 * M + 1)) by lia. rewrite cnt_S_right, D1.
    replace (4 * M + 1)%nat with (S (4 * M)) by lia. rewrite cnt_S_right, D0. destruct (has3 k M); cbn; lia.
  - replace (4 * M + 4)%nat with (S (4 * M + 3)) by lia. rewrite cnt_S_right, D3.
    replace (4 * M + 3)%nat with (S (4 * M + 2)) by lia. rewrite cnt_S_right, D2.
    replace (4 * M + 2)%nat with (S (4 * M + 1)) by lia. rewrite cnt_S_right, D1.
    replace (4 * M + 1)%nat with (S (4 * M)) by lia. rewrite cnt_S_right, D0. destruct (has3 k M); cbn; lia. Qed.
Lemma cnt_block k M : cnt (non3 (S k)) 0 (4 * M) = (3 * cnt (non3 k) 0 M)%nat.
Proof. induction M as [|M IH]; [reflexivity|].
  replace (4 * S M)%nat with (4 * M + 4)%nat by lia. rewrite cnt_block_part by lia. rewrite IH, cnt_S_right. cbn [Nat.add].
  unfold non3 at 3. destruct (has3 k M); cbn; lia. Qed.
Theorem cnt_non3_total n : cnt (non3 n) 0 (4 ^ n) = (3 ^ n)%nat.
Proof. induction n as [|k IH]; [reflexivity|]. rewrite !Nat.pow_succ_r', cnt_block, IH. reflexivity. Qed.
Theorem cnt_non3_base3 : forall n a, (a < 4 ^ n)%nat -> has3 n a = false -> cnt (non3 n) 0 a = base3 n a.
Proof. induction n as [|k IH]; intros a Ha H3.
  - cbn in Ha. assert (a = 0)%nat by lia. subst. reflexivity.
  - rewrite Nat.pow_succ_r' in Ha. cbn [has3] in H3. apply orb_false_iff in H3. destruct H3 as [Hr HM].
    apply Nat.eqb_neq in Hr. pose proof (Nat.mod_upper_bound a 4 ltac:(lia)) as Hr4.
    pose proof (Nat.div_mod a 4 ltac:(lia)) as Ea.
    assert (HMlt : (a / 4 < 4 ^ k)%nat) by (apply Nat.div_lt_upper_bound; lia).
    cbn [base3]. rewrite <- (IH (a / 4)%nat HMlt HM).
    rewrite Ea at 1. rewrite cnt_block_part by lia. rewrite cnt_block, HM. lia. Qed.

(* ---- bijection *)
Lemma pow34 n : (3 ^ n <= 4 ^ n)%nat. Proof. apply Nat.pow_le_mono_l. lia. Qed.
Lemma cnt_has3_total n : (cnt (has3 n) 0 (4 ^ n) + 3 ^ n = 4 ^ n)%nat.
Proof. pose proof (cnt_compl (has3 n) (4 ^ n) 0) as H. fold (non3 n) in H. now rewrite cnt_non3_total in H. Qed.
Theorem emb_perm_range n a : (a < 4 ^ n)%nat ->
  (emb_perm n a < 4 ^ n)%nat /\ (if has3 n a then (3 ^ n <= emb_perm n a)%nat else emb_perm n a = base3 n a /\ (emb_perm n a < 3 ^ n)%nat).
Proof. intros Ha. rewrite emb_perm_char by exact Ha. pose proof (cnt_has3_total n) as T. pose proof (cnt_non3_total n) as T'.
  destruct (has3 n a) eqn:H.
  - pose proof (cnt_strict (has3 n) a (4 ^ n) Ha H). split; lia.
  - assert (Hn : non3 n a = true) by (unfold non3; now rewrite H).
    pose proof (cnt_strict (non3 n) a (4 ^ n) Ha Hn). pose proof (pow34 n).
    split; [lia|]. split; [now apply cnt_non3_base3|lia]. Qed.
Theorem emb_perm_inj n a b : (a < 4 ^ n)%nat -> (b < 4 ^ n)%nat -> emb_perm n a = emb_perm n b -> a = b.
Proof. intros Ha Hb E. pose proof (emb_perm_range n a Ha) as [_ Ra]. pose proof (emb_perm_range n b Hb) as [_ Rb].
  rewrite (emb_perm_char n a Ha), (emb_perm_char n b Hb) in E.
  destruct (has3 n a) eqn:H3a, (has3 n b) eqn:H3b.
  - apply (cnt_inj (has3 n)); [assumption|assumption|lia].
  - destruct Rb as [_ Rb]. rewrite (emb_perm_char n b Hb), H3b in Rb. lia.
  - destruct Ra as [_ Ra]. rewrite (emb_perm_char n a Ha), H3a in Ra. lia.
  - apply (cnt_inj (non3 n)); unfold non3; try rewrite H3a; try rewrite H3b; try reflexivity. exact E. Qed.

(* a map of [0, N) into itself that is injective there is a bijection; the inverse found by search *)
Definition inv_find (N : nat) (s : nat -> nat) (i : nat) : nat :=
  match find (fun a => Nat.eqb (s a) i) (seq 0 N) with Some a => a | None => 0%nat end.
Lemma NoDup_map_inj_on {A B : Type} (f : A -> B) (l : list A) :
  (forall x y, In x l -> In y l -> f x = f y -> x = y) -> NoDup l -> NoDup (map f l).
Proof. induction l as [|x l IH]; intros Hinj Hnd; cbn; [constructor|]. inversion Hnd as [|? ? Hx Hl]; subst. constructor.
  - intros Hin. apply in_map_iff in Hin. destruct Hin as (y & Ey & Hy). apply Hx.
    rewrite (Hinj x y (or_introl eq_refl) (or_intror Hy) (eq_sym Ey)). exact Hy.
  - apply IH; [|exact Hl]. intros a b Ha Hb. apply Hinj; now right. Qed.
Theorem inj_range_bij N s : (forall a, (a < N)%nat -> (s a < N)%nat) ->
  (forall a b, (a < N)%nat -> (b < N)%nat -> s a = s b -> a = b) -> bij N s (inv_find N s).
Proof. intros Hr Hinj.
  assert (Hsur : forall i, (i < N)%nat -> exists a, (a < N)%nat /\ s a = i).
  { intros i Hi.
    assert (Hnd : NoDup (map s (seq 0 N))).
    { apply NoDup_map_inj_on; [|apply seq_NoDup]. intros x y Hx Hy. apply in_seq in Hx, Hy. apply Hinj; lia. }
    assert (Hincl : incl (map s (seq 0 N)) (seq 0 N)).
    { intros y Hy. apply in_map_iff in Hy. destruct Hy as (x & <- & Hx). apply in_seq in Hx. apply in_seq. specialize (Hr x). lia. }
    assert (Hlen : (length (seq 0 N) <= length (map s (seq 0 N)))%nat) by (rewrite map_length; lia).
    pose proof (NoDup_length_incl Hnd Hlen Hincl) as Hback.
    assert (Hin : In i (seq 0 N)) by (apply in_seq; lia).
    apply Hback in Hin. apply in_map_iff in Hin. destruct Hin as (a & Ea & Hain). apply in_seq in Hain. exists a. split; [lia|exact Ea]. }
  assert (Hfind : forall i, (i < N)%nat -> (inv_find N s i < N)%nat /\ s (inv_find N s i) = i).
  { intros i Hi. unfold inv_find. destruct (find (fun a => Nat.eqb (s a) i) (seq 0 N)) as [a|] eqn:F.
    - apply find_some in F. destruct F as [Hin E]. apply in_seq in Hin. apply Nat.eqb_eq in E. split; [lia|exact E].
    - destruct (Hsur i Hi) as (a & Ha & Ea). pose proof (find_none _ _ F a) as Hn. cbv beta in Hn.
      rewrite Ea, Nat.eqb_refl in Hn. discriminate Hn. apply in_seq. lia. }
  split; intros i Hi.
  - split; [now apply Hr|]. destruct (Hfind (s i) (Hr i Hi)) as [H1 H2]. now apply Hinj.
  - now apply Hfind. Qed.

Theorem emb_perm_bij n : bij (4 ^ n) (emb_perm n) (emb_inv n).
Proof. change (emb_inv n) with (inv_find (4 ^ n) (emb_perm n)).
  apply inj_range_bij; [intros a Ha; now apply emb_perm_range|apply emb_perm_inj]. Qed.
Theorem emb_perm_bij_blocks n : bij (3 ^ n + (4 ^ n - 3 ^ n)) (emb_perm n) (emb_inv n).
Proof. replace (3 ^ n + (4 ^ n - 3 ^ n))%nat with (4 ^ n)%nat by (pose proof (pow34 n); lia). apply emb_perm_bij. Qed.
