(* C03 — consequences of the main lemmas that the property text asks for explicitly:
   stacked <-> var round trips, number of variables of a whole operation set, the total index of a set pointing at
   the OBJECT entry, and the cases in which calc_gradient's one-hot IS the exact derivative of var |-> stacked. *)
From Coq Require Import ZArith Bool List Arith Lia.
From QV.Core Require Import OF Sums.
From QV.Model Require Import C03_Index C03_VarObj C03_SetQOps.
From QV.Proofs Require Import C03_Lists C03_Index C03_VarObj C03_SetQOps C03_Derivative.
Import ListNotations.

Section Extra.
Context (F : OF).
Add Field Ff4 : (k_field F).
Notation "0" := (c0 F). Notation "1" := (c1 F).
Local Notation "x +f y" := (cadd F x y) (at level 50, left associativity).
Implicit Types (o : qop F) (sdf : nat -> F) (s : setq F).

(* ------------------------------------------------------------------ stacked <-> var round trips *)
(* the static conversions read only the configuration (kind, d, flag) of the template *)
Lemma qop_stacked_to_var_shape sdf o o' st : qop_same_shape F o o' ->
  qop_stacked_to_var F sdf o st = qop_stacked_to_var F sdf o' st.
Proof. destruct o, o'; cbn; try contradiction; intros H; decompose [and] H; subst; reflexivity. Qed.

(* var -> stacked -> var = var, for EVERY variable vector of the right length *)
Theorem qop_var_stacked_var sdf o var : qop_wf F o -> length var = length (qop_to_var F o) ->
  exists st, qop_var_to_stacked F sdf o var = Some st /\ qop_stacked_to_var F sdf o st = Some var.
Proof. intros W L. destruct (qop_var_obj_var F sdf o var W L) as (o' & E & R & W' & S).
  exists (qop_stacked F o'). split; [exact (qop_var_to_stacked_consistent F sdf o var o' W E)|].
  rewrite (qop_stacked_to_var_shape sdf o o' _ S), (qop_stacked_to_var_consistent F sdf o' W'). now rewrite R. Qed.

(* stacked -> var -> stacked = the stacked vector with the implied component overwritten by the implied value *)
Theorem qop_stacked_var_stacked sdf o : qop_wf F o ->
  exists v, qop_stacked_to_var F sdf o (qop_stacked F o) = Some v /\
            qop_var_to_stacked F sdf o v = Some (qop_stacked F (qop_reimplied F sdf o)).
Proof. intros W. exists (qop_to_var F o). split; [exact (qop_stacked_to_var_consistent F sdf o W)|].
  exact (qop_var_to_stacked_consistent F sdf o _ _ W (qop_obj_var_obj F sdf o W)). Qed.

(* ------------------------------------------------------------------ a whole set of operations *)
(* size_var_total (sum of the per-operation sizes) = len(var_total) *)
Theorem var_total_length s : Z.of_nat (length (var_total F s)) = size_total (sizes_of F s).
Proof. unfold var_total, size_total. rewrite !app_length, !Nat2Z.inj_add, !size_kind_length. cbn [ops_of]. lia. Qed.

(* ... and every operation contributes its num_variables *)
Theorem sizes_are_num_variables s k (i : nat) dq : setq_wf F s -> (i < length (ops_of F s k))%nat ->
  nth i (sizes_of F s k) 0%Z = qop_num_variables F (nth i (ops_of F s k) dq).
Proof. intros W Hi. unfold sizes_of.
  rewrite (nth_indep _ 0%Z (Z.of_nat (length (qop_to_var F dq)))) by (now rewrite map_length).
  rewrite (map_nth (fun o => Z.of_nat (length (qop_to_var F o)))).
  apply qop_num_variables_length. specialize (W k). rewrite Forall_forall in W. apply W. now apply nth_In. Qed.

(* the total index of (kind, operation i, local variable j) is the position in var_total of the OBJECT ENTRY that the
   operation's own index map designates for j *)
Theorem set_total_points_at_entry s k (i j : nat) dq : setq_wf F s -> (i < length (ops_of F s k))%nat ->
  (0 <= Z.of_nat j < qop_num_variables F (nth i (ops_of F s k) dq))%Z ->
  exists t, total_from_local (sizes_of F s) k (Z.of_nat i) (Z.of_nat j) = Some t /\
            (0 <= t < size_total (sizes_of F s))%Z /\
            local_from_total (sizes_of F s) t = LOk k (Z.of_nat i) (Z.of_nat j) /\
            nth (Z.to_nat t) (var_total F s) 0 =
            nth (Z.to_nat (qop_flat_index F (nth i (ops_of F s k) dq) (Z.of_nat j))) (qop_stacked F (nth i (ops_of F s k) dq)) 0.
Proof. intros W Hi Hj. set (o := nth i (ops_of F s k) dq) in *.
  assert (Wo : qop_wf F o). { specialize (W k). rewrite Forall_forall in W. apply W. now apply nth_In. }
  assert (Hj' : (j < length (qop_to_var F o))%nat) by (pose proof (qop_num_variables_length F o Wo); lia).
  destruct (total_index_points F s k i j 0 dq Hi Hj') as (t & E & B & L & P).
  exists t. repeat split; try assumption; try lia. fold o in P. rewrite P.
  rewrite (qop_index_points F o (Z.of_nat j) Wo Hj). now rewrite Nat2Z.id. Qed.

(* ------------------------------------------------------------------ exact derivative of  var |-> stacked *)
Lemma bumped_app (pre var var' : list F) i t : bumped F var var' i t ->
  forall pos, nth pos (pre ++ var') 0 = nth pos (pre ++ var) 0 +f (if Nat.eqb pos (length pre + i) then t else 0).
Proof. intros [_ B] pos. destruct (Nat.lt_ge_cases pos (length pre)) as [H|H].
  - rewrite !app_nth1 by exact H. destruct (Nat.eqb_spec pos (length pre + i)) as [E|_]; [lia|]. ring.
  - rewrite !app_nth2 by exact H. rewrite B.
    destruct (Nat.eqb_spec (pos - length pre) i) as [E1|E1], (Nat.eqb_spec pos (length pre + i)) as [E2|E2]; try lia; reflexivity. Qed.
Lemma bumped_id (var var' : list F) i t : bumped F var var' i t ->
  forall pos, nth pos var' 0 = nth pos var 0 +f (if Nat.eqb pos i then t else 0).
Proof. intros [_ B]. exact B. Qed.

(* the kinds / flags for which nothing but variable i's own entry depends on variable i *)
Definition grad_exact o : Prop :=
  match o with QState _ _ _ _ | QGate _ _ _ _ => True | QPovm _ _ f _ | QMproc _ _ f _ => f = false end.

(* State and Gate (both flags), Povm and MProcess without the constraint: moving variable i by t moves exactly the entry
   that convert_var_index_to_*_index designates, by t — i.e. calc_gradient(i) IS the derivative of var |-> stacked.
   (Povm / MProcess under the constraint: povm_true_derivative / mp_true_derivative, an additional -t in the implied part.) *)
Theorem qop_true_derivative_exact sdf o var var' i t :
  qop_wf F o -> grad_exact o -> length var = length (qop_to_var F o) -> (i < length var)%nat -> bumped F var var' i t ->
  exists st st', qop_var_to_stacked F sdf o var = Some st /\ qop_var_to_stacked F sdf o var' = Some st' /\
    forall pos, nth pos st' 0 = nth pos st 0 +f (if Nat.eqb pos (Z.to_nat (qop_flat_index F o (Z.of_nat i))) then t else 0).
Proof. intros W G L Hi Bm.
  assert (R : (0 <= Z.of_nat i < qop_num_variables F o)%Z) by (rewrite <- (qop_num_variables_length F o W); lia).
  destruct o as [d f v|d f h|d f v|d f h]; cbn [qop_wf qop_var_to_stacked qop_flat_index qop_num_variables grad_exact] in *.
  - do 2 eexists. split; [reflexivity|]. split; [reflexivity|]. intros pos.
    unfold state_var_to_stacked, state_var_to_vec, flat_state, state_index_of_var. destruct f.
    + replace (Z.to_nat (Z.of_nat i + 1)%Z) with (length [kdiv F (c1 F) (sdf d)] + i)%nat by (cbn; lia).
      exact (bumped_app [kdiv F (c1 F) (sdf d)] var var' i t Bm pos).
    + rewrite Nat2Z.id. exact (bumped_id var var' i t Bm pos).
  - destruct W as [Hd W]. do 2 eexists. split; [reflexivity|]. split; [reflexivity|]. intros pos.
    destruct (gate_index_fwd (Z.of_nat d) f (Z.of_nat i) ltac:(lia) R) as (_ & _ & E). rewrite E.
    unfold gate_var_to_stacked, shift_gate. destruct f.
    + replace (Z.to_nat (Z.of_nat i + Z.of_nat d * Z.of_nat d)%Z) with (length (e0 F (d * d)) + i)%nat
        by (unfold e0; rewrite lead_length; lia).
      exact (bumped_app (e0 F (d * d)) var var' i t Bm pos).
    + rewrite Z.add_0_r, Nat2Z.id. exact (bumped_id var var' i t Bm pos).
  - destruct W as (Hd & Hm & W). subst f. do 2 eexists. split; [reflexivity|]. split; [reflexivity|]. intros pos.
    destruct (povm_index_fwd (Z.of_nat d) (Z.of_nat (length v)) false (Z.of_nat i) ltac:(lia) R) as (_ & _ & E). rewrite E.
    rewrite Nat2Z.id. exact (bumped_id var var' i t Bm pos).
  - destruct W as (Hd & Hm & W). subst f. do 2 eexists. split; [reflexivity|]. split; [reflexivity|]. intros pos.
    destruct (mproc_index_fwd (Z.of_nat d) (Z.of_nat (length h)) false (Z.of_nat i) ltac:(lia) R) as (_ & _ & E). rewrite E.
    unfold shift_mproc. cbn [andb]. rewrite Z.add_0_r, Nat2Z.id. exact (bumped_id var var' i t Bm pos). Qed.
End Extra.
