(* C02 — lemmas about the implementation-specific models of Model/C02_Conv.v: computational basis, what
   to_hs_from_kraus_matrices computes, row/column-major, process matrix, the *_with_sparsity / *_with_dict variants,
   truncate_hs, the variable wrappers (with the refutation of gate.to_var_from_choi), and the exactly-rational
   2-qubit Pauli instance over Qc.  Axiom-free. *)
From Coq Require Import Field Ring Setoid Arith Lia Bool List.
From QV.Core Require Import OF Sums Mat Cplx.
From QV.Model Require Import QObj HermEmbed C02_Conv.
From QV.Proofs Require Import C02_QObjLemmas.
Import ListNotations.

Section C02ConvProofs.
Context (F : OF).
Add Field Fq3 : (k_field F).
Add Ring Cq3 : (c_ring (CF F)).
Notation Cx := (CF F).
Notation cmat := (cmat F). Notation rmat := (rmat F). Notation cvec := (cvec F). Notation rvec := (rvec F).
Notation "0" := (c0 Cx). Notation "1" := (c1 Cx).
Infix "+" := (cadd Cx). Infix "*" := (cmul Cx). Infix "-" := (csub Cx). Notation "- x" := (copp Cx x).
Notation csum := (@sumn (CF F)).
Notation r0 := (c0 F).
Notation csum_ext := (csum_ext F).
Notation csum_ext2 := (csum_ext2 F).
(* ------------------------------------------------------------------ computational basis *)
Lemma csum2_delta' m n i j (f : nat -> nat -> Cx) : (i < m)%nat -> (j < n)%nat ->
  csum m (fun k => csum n (fun l => if Nat.eqb i k && Nat.eqb j l then f k l else 0)) = f i j.
Proof. intros Hi Hj. rewrite <- (csum2_delta F m n i j f Hi Hj). apply csum_ext2; intros k l _ _.
  now rewrite (Nat.eqb_sym i k), (Nat.eqb_sym j l). Qed.
Lemma cvec_of_op_comp d (X : cmat) r : (r < d * d)%nat -> cvec_of_op d (comp_basis d) X r = X (r / d)%nat (r mod d)%nat.
Proof. intros Hr. destruct (divmod_lt d r Hr) as [A1 A2]. unfold cvec_of_op, hs_inner, comp_basis.
  rewrite (csum_ext2 d d _ (fun i j => if Nat.eqb i (r / d) && Nat.eqb j (r mod d) then X i j else 0)).
  2:{ intros i j _ _. rewrite cj_if. destruct (Nat.eqb i (r / d) && Nat.eqb j (r mod d)); ring. }
  exact (csum2_delta F d d _ _ X A1 A2). Qed.
Lemma op_of_cvec_comp d (c : cvec) i j : (i < d)%nat -> (j < d)%nat -> op_of_cvec d (comp_basis d) c i j = c (i * d + j)%nat.
Proof. intros Hi Hj. unfold op_of_cvec. rewrite sumn_flat.
  rewrite (csum_ext2 d d _ (fun a1 a2 => if Nat.eqb i a1 && Nat.eqb j a2 then c (a1 * d + a2)%nat else 0)).
  2:{ intros a1 a2 _ H2. unfold comp_basis. destruct (divmod_flat a1 a2 d H2) as [-> ->].
      destruct (Nat.eqb i a1 && Nat.eqb j a2); ring. }
  exact (csum2_delta' d d i j (fun a1 a2 => c (a1 * d + a2)%nat) Hi Hj). Qed.
Lemma comp_basis_orthonormal d : basis_orthonormal d (comp_basis (F:=F) d).
Proof. intros a b Ha Hb. change (hs_inner d (comp_basis d a) (comp_basis d b)) with (cvec_of_op (F:=F) d (comp_basis d) (comp_basis d b) a).
  rewrite cvec_of_op_comp by exact Ha. unfold comp_basis.
  assert (Hd : (0 < d)%nat) by (destruct d; [cbn in Ha; lia|lia]). now rewrite (divmod_eqb d a b Hd). Qed.
Lemma comp_basis_complete d : basis_complete d (comp_basis (F:=F) d).
Proof. intros i j k l Hi Hj Hk Hl. rewrite sumn_flat.
  rewrite (csum_ext2 d d _ (fun a1 a2 => if Nat.eqb i a1 && Nat.eqb j a2 then (if Nat.eqb k a1 && Nat.eqb l a2 then 1 else 0) else 0)).
  2:{ intros a1 a2 _ H2. unfold comp_basis. destruct (divmod_flat a1 a2 d H2) as [-> ->]. rewrite cj_if.
      destruct (Nat.eqb i a1 && Nat.eqb j a2); ring. }
  rewrite (csum2_delta' d d i j (fun a1 a2 => if Nat.eqb k a1 && Nat.eqb l a2 then 1 else 0) Hi Hj).
  now rewrite (Nat.eqb_sym k i), (Nat.eqb_sym l j). Qed.
(* w.r.t. the computational basis an HS matrix acts on the row-major vectorisation *)
Lemma capply_hs_comp d (H X : cmat) i j : (i < d)%nat -> (j < d)%nat ->
  capply_hs d (comp_basis d) H X i j = unvecr d (mv (d * d) H (vecr d X)) i j.
Proof. intros Hi Hj. unfold capply_hs. rewrite op_of_cvec_comp by assumption. unfold unvecr, mv.
  apply csum_ext; intros s Hs. now rewrite cvec_of_op_comp. Qed.

(* ------------------------------------------------------------------ Kraus: what to_hs_from_kraus_matrices computes *)
Lemma kraus_hs_cb_acts d (Ks : list cmat) (X : cmat) t : (0 < d)%nat ->
  mv (d * d) (kraus_hs_cb d Ks) (vecr d X) t = vecr d (kraus_apply d Ks X) t.
Proof. intros Hd. induction Ks as [|K Ks IH].
  - unfold mv, kraus_hs_cb, vecr, kraus_apply; cbn [fold_right]. rewrite (csum_ext (d * d) _ (fun _ => 0)) by (intros; ring). apply sumn_zero.
  - transitivity (mv (d * d) (kron d d K (mT (cadj K))) (vecr d X) t + mv (d * d) (kraus_hs_cb d Ks) (vecr d X) t).
    { unfold mv. rewrite <- sumn_add. apply csum_ext; intros s _. unfold kraus_hs_cb; cbn [fold_right].
      change (kron d d K (cconj K) t s) with (kron d d K (mT (cadj K)) t s). ring. }
    rewrite IH, <- (vecr_AXB d d d K X (cadj K) t Hd Hd). reflexivity. Qed.
(* IMPLEMENTATION = SPECIFICATION for Kraus -> HS, with no hypothesis on the basis *)
Lemma chs_of_kraus_impl_eq d (B : nat -> cmat) (Ks : list cmat) a b : chs_of_kraus_impl d B Ks a b = chs_of_kraus d B Ks a b.
Proof. unfold chs_of_kraus_impl. rewrite convert_hs_as_map, chs_of_kraus_as_map. apply hs_of_map_ext.
  intros X i j Hi Hj. rewrite capply_hs_comp by assumption. unfold unvecr. rewrite kraus_hs_cb_acts by lia.
  unfold vecr. now destruct (divmod_flat i j d Hj) as [-> ->]. Qed.

(* ------------------------------------------------------------------ row- versus column-major computational basis *)
Lemma comm_perm_lt d r : (r < d * d)%nat -> (comm_perm d r < d * d)%nat.
Proof. intros H. destruct (divmod_lt d r H). unfold comm_perm. nia. Qed.
Lemma comm_perm_invol d r : (r < d * d)%nat -> comm_perm d (comm_perm d r) = r.
Proof. intros H. destruct (divmod_lt d r H) as [A1 A2]. unfold comm_perm at 1.
  unfold comm_perm. destruct (divmod_flat (r mod d) (r / d) d A1) as [-> ->].
  rewrite Nat.mul_comm. symmetry. apply Nat.div_mod_eq. Qed.
Lemma comp_basis_col_perm d r i j : (r < d * d)%nat -> comp_basis_col (F:=F) d r i j = comp_basis d (comm_perm d r) i j.
Proof. intros H. destruct (divmod_lt d r H) as [A1 A2]. unfold comp_basis_col, comp_basis, comm_perm.
  now destruct (divmod_flat (r mod d) (r / d) d A1) as [-> ->]. Qed.
Lemma umat_col d (B : nat -> cmat) r b : (r < d * d)%nat -> umat d B (comp_basis_col d) r b = umat d B (comp_basis d) (comm_perm d r) b.
Proof. intros H. unfold umat. apply hs_inner_ext; [|apply meq_refl]. intros i j _ _. now apply comp_basis_col_perm. Qed.
(* the two computational-basis HS matrices differ by the commutation permutation on rows and columns *)
Lemma convert_hs_col d (B : nat -> cmat) (H : cmat) a b : (a < d * d)%nat -> (b < d * d)%nat ->
  convert_hs d B (comp_basis_col d) H a b = convert_hs d B (comp_basis d) H (comm_perm d a) (comm_perm d b).
Proof. intros Ha Hb. unfold convert_hs, mmul, cadj. apply csum_ext; intros c _. rewrite (umat_col d B b c Hb). f_equal.
  apply csum_ext; intros e _. now rewrite (umat_col d B a e Ha). Qed.
Lemma convert_hs_col_comm d (B : nat -> cmat) (H : cmat) a b : (a < d * d)%nat -> (b < d * d)%nat ->
  convert_hs d B (comp_basis_col d) H a b =
  mmul (d * d) (mmul (d * d) (comm_mat d) (convert_hs d B (comp_basis d) H)) (mT (comm_mat d)) a b.
Proof. intros Ha Hb. rewrite convert_hs_col by assumption. unfold mmul, mT, comm_mat. symmetry.
  rewrite (csum_ext (d * d) _ (fun l => if Nat.eqb l (comm_perm d b) then convert_hs d B (comp_basis d) H (comm_perm d a) l else 0)).
  2:{ intros l _. rewrite (csum_ext (d * d) _ (fun s => if Nat.eqb s (comm_perm d a) then convert_hs d B (comp_basis d) H s l else 0)).
      2:{ intros s _. destruct (Nat.eqb s (comm_perm d a)); ring. }
      rewrite (sumn_delta (d * d) (comm_perm d a) (fun s => convert_hs d B (comp_basis d) H s l) (comm_perm_lt d a Ha)).
      destruct (Nat.eqb l (comm_perm d b)); ring. }
  exact (sumn_delta (d * d) (comm_perm d b) (fun l => convert_hs d B (comp_basis d) H (comm_perm d a) l) (comm_perm_lt d b Hb)). Qed.
Lemma convert_vec_col d (B : nat -> cmat) (v : cvec) a : (a < d * d)%nat ->
  convert_vec d B (comp_basis_col d) v a = convert_vec d B (comp_basis d) v (comm_perm d a).
Proof. intros Ha. unfold convert_vec, mv. apply csum_ext; intros b _. now rewrite umat_col. Qed.

(* ------------------------------------------------------------------ process matrix *)
Lemma cchoi_comp d (Hcb : cmat) al be : (al < d * d)%nat -> (be < d * d)%nat ->
  cchoi_of_hs d (comp_basis d) Hcb al be = Hcb ((al / d) * d + be / d)%nat ((al mod d) * d + be mod d)%nat.
Proof. intros Hal Hbe. destruct (divmod_lt d al Hal) as [A1 A2]. destruct (divmod_lt d be Hbe) as [B1 B2].
  unfold cchoi_of_hs. rewrite sumn_flat.
  rewrite (csum_ext2 d d _ (fun a1 a2 => if Nat.eqb (al / d) a1 && Nat.eqb (be / d) a2
             then Hcb (a1 * d + a2)%nat ((al mod d) * d + be mod d)%nat else 0)).
  2:{ intros a1 a2 _ H2. rewrite sumn_flat.
      rewrite (csum_ext2 d d _ (fun b1 b2 => if Nat.eqb (al mod d) b1 && Nat.eqb (be mod d) b2
                 then (if Nat.eqb (al / d) a1 && Nat.eqb (be / d) a2 then Hcb (a1 * d + a2)%nat (b1 * d + b2)%nat else 0) else 0)).
      2:{ intros b1 b2 _ H3. unfold bbc, kron, cconj, comp_basis.
          destruct (divmod_flat a1 a2 d H2) as [-> ->]. destruct (divmod_flat b1 b2 d H3) as [-> ->]. rewrite cj_if.
          destruct (Nat.eqb (al mod d) b1 && Nat.eqb (be mod d) b2), (Nat.eqb (al / d) a1 && Nat.eqb (be / d) a2); ring. }
      exact (csum2_delta' d d _ _ (fun b1 b2 => if Nat.eqb (al / d) a1 && Nat.eqb (be / d) a2 then Hcb (a1 * d + a2)%nat (b1 * d + b2)%nat else 0) A2 B2). }
  exact (csum2_delta' d d _ _ (fun a1 a2 => Hcb (a1 * d + a2)%nat ((al mod d) * d + be mod d)%nat) A1 B1). Qed.
Lemma process_matrix_of_cb_entry d (Hcb : cmat) al be : (al < d * d)%nat -> (be < d * d)%nat ->
  process_matrix_of_cb d Hcb al be = Hcb ((al / d) * d + be / d)%nat ((al mod d) * d + be mod d)%nat.
Proof. intros Hal Hbe. destruct (divmod_lt d al Hal) as [A1 A2]. destruct (divmod_lt d be Hbe) as [B1 B2].
  unfold process_matrix_of_cb, mtrace, mmul. rewrite sumn_flat.
  rewrite (csum_ext2 d d _ (fun r1 r2 => if Nat.eqb (al mod d) r1 && Nat.eqb (be mod d) r2
             then Hcb ((al / d) * d + be / d)%nat (r1 * d + r2)%nat else 0)).
  2:{ intros r1 r2 _ H2. rewrite sumn_flat.
      rewrite (csum_ext2 d d _ (fun s1 s2 => if Nat.eqb (al / d) s1 && Nat.eqb (be / d) s2
                 then (if Nat.eqb (al mod d) r1 && Nat.eqb (be mod d) r2 then Hcb (s1 * d + s2)%nat (r1 * d + r2)%nat else 0) else 0)).
      2:{ intros s1 s2 _ H3. unfold kron, cadj, mT, comp_basis.
          destruct (divmod_flat r1 r2 d H2) as [-> ->]. destruct (divmod_flat s1 s2 d H3) as [-> ->]. rewrite cj_if.
          rewrite (Nat.eqb_sym s1 (al / d)), (Nat.eqb_sym r1 (al mod d)), (Nat.eqb_sym s2 (be / d)), (Nat.eqb_sym r2 (be mod d)).
          destruct (Nat.eqb (al / d) s1), (Nat.eqb (be / d) s2), (Nat.eqb (al mod d) r1), (Nat.eqb (be mod d) r2); cbn [andb]; ring. }
      exact (csum2_delta' d d _ _ (fun s1 s2 => if Nat.eqb (al mod d) r1 && Nat.eqb (be mod d) r2 then Hcb (s1 * d + s2)%nat (r1 * d + r2)%nat else 0) A1 B1). }
  exact (csum2_delta' d d _ _ (fun r1 r2 => Hcb ((al / d) * d + be / d)%nat (r1 * d + r2)%nat) A2 B2). Qed.
(* PROCESS MATRIX = CHOI MATRIX (this library's conventions), for any basis whatsoever *)
Lemma process_matrix_is_choi d (B : nat -> cmat) (H : cmat) al be : (al < d * d)%nat -> (be < d * d)%nat ->
  process_matrix d B H al be = cchoi_of_hs d B H al be.
Proof. intros Hal Hbe. unfold process_matrix. rewrite process_matrix_of_cb_entry by assumption.
  rewrite <- cchoi_comp by assumption. apply cchoi_convert_hs; [apply comp_basis_complete|exact Hal|exact Hbe]. Qed.
(* ------------------------------------------------------------------ the *_with_sparsity variants equal the plain formulas *)
Lemma density_sparse_eq d (B : nat -> cmat) (c : cvec) i j : (j < d)%nat -> density_sparse d B c i j = op_of_cvec d B c i j.
Proof. intros Hj. unfold density_sparse, unvecr, mv, tbl_basis_T, op_of_cvec.
  destruct (divmod_flat i j d Hj) as [-> ->]. apply csum_ext; intros; ring. Qed.
Lemma cvec_sparse_eq d (B : nat -> cmat) (X : cmat) a : cvec_sparse d B X a = cvec_of_op d B X a.
Proof. unfold cvec_sparse, mv, tbl_basisconj, vecr, cvec_of_op, hs_inner. rewrite sumn_flat.
  apply csum_ext2; intros i j _ Hj. now destruct (divmod_flat i j d Hj) as [-> ->]. Qed.
Lemma choi_sparse_eq d (B : nat -> cmat) (H : cmat) i j : (j < d * d)%nat -> choi_sparse d B H i j = cchoi_of_hs d B H i j.
Proof. intros Hj. unfold choi_sparse, unvecr, mv, tbl_bbc_T, vecr, cchoi_of_hs. rewrite (sumn_flat (d * d) (d * d)).
  destruct (divmod_flat i j (d * d) Hj) as [-> ->].
  apply csum_ext2; intros a b _ Hb. destruct (divmod_flat a b (d * d) Hb) as [-> ->]. ring. Qed.
Lemma chs_sparse_eq d (B : nat -> cmat) (Ch : cmat) a b : (b < d * d)%nat -> chs_sparse d B Ch a b = chs_of_choi d B Ch a b.
Proof. intros Hb. unfold chs_sparse, unvecr, mv, tbl_bcb, vecr, chs_of_choi, hs_inner. rewrite (sumn_flat (d * d) (d * d)).
  destruct (divmod_flat a b (d * d) Hb) as [-> ->].
  apply csum_ext2; intros i j _ Hj. now destruct (divmod_flat i j (d * d) Hj) as [-> ->]. Qed.
(* to_hs_from_choi_with_dict omits the conjugate: equal to the plain formula for a Hermitian basis *)
Lemma chs_of_choi_dict_eq d (B : nat -> cmat) (Ch : cmat) a b : basis_hermitian d B -> (a < d * d)%nat -> (b < d * d)%nat ->
  chs_of_choi_dict d B Ch a b = chs_of_choi d B Ch a b.
Proof. intros Hh Ha Hb. unfold chs_of_choi_dict, chs_of_choi, hs_inner. rewrite sumn_swap.
  apply csum_ext2; intros i j Hi Hj. now rewrite (bbc_hermitian F d B a b Hh Ha Hb j i Hj Hi). Qed.

(* the *_with_dict variants: sums over the lists of non-zero entries *)
Lemma fold_acc {A : Type} (g : A -> Cx) (l : list A) (z : Cx) :
  fold_right (fun e acc => g e + acc) z l = fold_right (fun e acc => g e + acc) 0 l + z.
Proof. induction l as [|x l IH]; cbn [fold_right]; [ring|]. rewrite IH. ring. Qed.
Lemma fold_flat_map {A : Type} (g : A -> Cx) (h : nat -> list A) (l : list nat) :
  fold_right (fun e acc => g e + acc) 0 (flat_map h l) =
  fold_right (fun x acc => fold_right (fun e acc' => g e + acc') 0 (h x) + acc) 0 l.
Proof. induction l as [|x l IH]; cbn [flat_map fold_right]; [reflexivity|].
  rewrite fold_right_app, fold_acc, IH. reflexivity. Qed.
Lemma fold_seq (f : nat -> Cx) n : forall s, fold_right (fun x acc => f x + acc) 0 (seq s n) = csum n (fun i => f (s + i)%nat).
Proof. induction n as [|n IH]; intros s; [reflexivity|]. cbn [seq fold_right]. rewrite IH, sumn_S_first, Nat.add_0_r.
  f_equal. apply csum_ext; intros i _. now rewrite Nat.add_succ_r. Qed.
Lemma cnzb_false (z : Cx) : cnzb z = false -> z = 0.
Proof. unfold cnzb. intros H. apply negb_false_iff, andb_true_iff in H. destruct H as [A B].
  apply keqb_spec in A. apply keqb_spec in B. now apply cplx_eq. Qed.
Lemma choi_dict_eq d (B : nat -> cmat) (H : cmat) i j : choi_dict d B H i j = cchoi_of_hs d B H i j.
Proof. unfold choi_dict, dict_hs_to_choi, cchoi_of_hs.
  rewrite (fold_flat_map (fun e => H (fst (fst e)) (snd (fst e)) * snd e)).
  rewrite (fold_seq (fun a => fold_right (fun e acc' => H (fst (fst e)) (snd (fst e)) * snd e + acc') 0 _)).
  apply csum_ext; intros a _. cbn [Nat.add].
  rewrite (fold_flat_map (fun e => H (fst (fst e)) (snd (fst e)) * snd e)).
  rewrite (fold_seq (fun b => fold_right (fun e acc' => H (fst (fst e)) (snd (fst e)) * snd e + acc') 0 _)).
  apply csum_ext; intros b _. cbn [Nat.add].
  destruct (cnzb (bbc d B a b i j)) eqn:E; cbn [fold_right fst snd]; [ring|]. rewrite (cnzb_false _ E). ring. Qed.
Lemma chs_dict_eq d (B : nat -> cmat) (Ch : cmat) a b : chs_dict d B Ch a b = chs_of_choi_dict d B Ch a b.
Proof. unfold chs_dict, dict_choi_to_hs, chs_of_choi_dict.
  rewrite (fold_flat_map (fun e => snd e * Ch (snd (fst e)) (fst (fst e)))).
  rewrite (fold_seq (fun i => fold_right (fun e acc' => snd e * Ch (snd (fst e)) (fst (fst e)) + acc') 0 _)).
  apply csum_ext; intros i _. cbn [Nat.add].
  rewrite (fold_flat_map (fun e => snd e * Ch (snd (fst e)) (fst (fst e)))).
  rewrite (fold_seq (fun j => fold_right (fun e acc' => snd e * Ch (snd (fst e)) (fst (fst e)) + acc') 0 _)).
  apply csum_ext; intros j _. cbn [Nat.add].
  destruct (cnzb (bbc d B a b i j)) eqn:E; cbn [fold_right fst snd]; [ring|]. rewrite (cnzb_false _ E). ring. Qed.

(* ------------------------------------------------------------------ truncate_hs *)
Lemma allb_true n p : allb n p = true <-> (forall i, (i < n)%nat -> p i = true).
Proof. induction n as [|n IH]; cbn [allb]. { split; [intros _ i Hi; lia|reflexivity]. }
  rewrite andb_true_iff, IH. split.
  - intros [A Bn] i Hi. destruct (Nat.eq_dec i n) as [->|Hn]; [exact Bn|apply A; lia].
  - intros A. split; [intros i Hi; apply A; lia|apply A; lia]. Qed.
Lemma allb_false n p : allb n p = false -> exists i, (i < n)%nat /\ p i = false.
Proof. induction n as [|n IH]; cbn [allb]; [discriminate|]. intros H. apply andb_false_iff in H. destruct H as [H|H].
  - destruct (IH H) as [i [Hi Hp]]. exists i. split; [lia|exact Hp].
  - exists n. split; [lia|exact H]. Qed.
Lemma kabs_nonneg (x : F) : kle F r0 (kabs x).
Proof. unfold kabs. destruct (kleb F r0 x) eqn:E; [now apply k_leb|]. apply opp_nonneg. now destruct (leb_false_lt F _ _ E). Qed.
Lemma kltb_spec (x y : F) : kltb x y = true <-> ~ kle F y x.
Proof. unfold kltb. rewrite negb_true_iff. split.
  - intros E H. apply k_leb in H. congruence.
  - intros H. destruct (kleb F y x) eqn:E; [|reflexivity]. exfalso. apply H. now apply k_leb. Qed.
Lemma trunc_ok_spec eps (z : Cx) : trunc_ok eps z = true <-> (~ kle F eps (kabs (im z)) \/ im z = r0).
Proof. unfold trunc_ok. rewrite orb_true_iff, kltb_spec. split; intros [A|A]; [now left|right; now apply keqb_spec|now left|right; now apply keqb_spec]. Qed.
Lemma trunc_val_cases eps (z : Cx) : trunc_val eps z = re z \/ (trunc_val eps z = r0 /\ ~ kle F eps (kabs (re z))).
Proof. unfold trunc_val. destruct (kltb (kabs (re z)) eps) eqn:E; [right|now left]. split; [reflexivity|now apply kltb_spec]. Qed.
Lemma trunc_val_keep eps (z : Cx) : kle F eps (kabs (re z)) -> trunc_val eps z = re z.
Proof. intros H. unfold trunc_val. destruct (kltb (kabs (re z)) eps) eqn:E; [|reflexivity]. apply kltb_spec in E. contradiction. Qed.
Lemma trunc_val_eps0 eps (z : Cx) : kle F eps r0 -> trunc_val eps z = re z.
Proof. intros H. apply trunc_val_keep. apply (k_trans F _ r0); [exact H|apply kabs_nonneg]. Qed.
(* the imaginary-part threshold  thr = eps * max(1, size),  size = the largest |re| of the array (0 for an empty array) *)
Lemma kmax_l (x y : F) : kle F x (kmax x y).
Proof. unfold kmax. destruct (kleb F x y) eqn:E; [now apply k_leb|apply k_refl]. Qed.
Lemma kmax_r (x y : F) : kle F y (kmax x y).
Proof. unfold kmax. destruct (kleb F x y) eqn:E; [apply k_refl|now destruct (leb_false_lt F _ _ E)]. Qed.
Lemma kmax_lub (x y c : F) : kle F x c -> kle F y c -> kle F (kmax x y) c.
Proof. intros A B. unfold kmax. now destruct (kleb F x y). Qed.
Lemma maxn_nonneg n (f : nat -> F) : kle F r0 (maxn n f).
Proof. induction n as [|n IH]; cbn [maxn]; [apply k_refl|]. apply (k_trans F _ (maxn n f)); [exact IH|apply kmax_l]. Qed.
Lemma maxn_ge n (f : nat -> F) i : (i < n)%nat -> kle F (f i) (maxn n f).
Proof. induction n as [|n IH]; [lia|]. intros Hi. cbn [maxn]. destruct (Nat.eq_dec i n) as [->|Hn]; [apply kmax_r|].
  apply (k_trans F _ (maxn n f)); [apply IH; lia|apply kmax_l]. Qed.
Lemma maxn_lub n (f : nat -> F) c : kle F r0 c -> (forall i, (i < n)%nat -> kle F (f i) c) -> kle F (maxn n f) c.
Proof. intros Hc. induction n as [|n IH]; intros Hf; cbn [maxn]; [exact Hc|]. apply kmax_lub; [apply IH; intros i Hi; apply Hf; lia|apply Hf; lia]. Qed.
(* hs_size is the largest |re H_ij| (least upper bound among the non-negative bounds) *)
Lemma hs_size_ge m n (H : cmat) i j : (i < m)%nat -> (j < n)%nat -> kle F (kabs (re (H i j))) (hs_size m n H).
Proof. intros Hi Hj. unfold hs_size. apply (k_trans F _ (maxn n (fun j => kabs (re (H i j))))).
  - exact (maxn_ge n (fun j => kabs (re (H i j))) j Hj).
  - exact (maxn_ge m (fun i => maxn n (fun j => kabs (re (H i j)))) i Hi). Qed.
Lemma hs_size_lub m n (H : cmat) c : kle F r0 c -> (forall i j, (i < m)%nat -> (j < n)%nat -> kle F (kabs (re (H i j))) c) -> kle F (hs_size m n H) c.
Proof. intros Hc Hb. unfold hs_size. apply maxn_lub; [exact Hc|]. intros i Hi. apply maxn_lub; [exact Hc|]. intros j Hj. now apply Hb. Qed.
Lemma vec_size_ge n (v : cvec) i : (i < n)%nat -> kle F (kabs (re (v i))) (vec_size n v).
Proof. intros Hi. exact (maxn_ge n (fun i => kabs (re (v i))) i Hi). Qed.
Lemma vec_size_lub n (v : cvec) c : kle F r0 c -> (forall i, (i < n)%nat -> kle F (kabs (re (v i))) c) -> kle F (vec_size n v) c.
Proof. intros Hc Hb. unfold vec_size. now apply maxn_lub. Qed.
(* for arrays whose real parts do not exceed 1 the threshold is eps itself (the behaviour before fix truncate-hs-relative-imag-threshold) *)
Lemma im_thr_small eps size : kle F size (c1 F) -> im_thr eps size = eps.
Proof. intros Hs. unfold im_thr, kmax. destruct (kleb F (c1 F) size) eqn:E.
  - apply k_leb in E. rewrite (k_antisym F _ _ Hs E). ring.
  - ring. Qed.
(* and it never falls below eps *)
Lemma im_thr_ge eps size : kle F r0 eps -> kle F eps (im_thr eps size).
Proof. intros He. unfold im_thr. replace eps with (cmul F eps (c1 F)) at 1 by ring. apply mul_le_compat_nonneg; [exact He|apply kmax_l]. Qed.
(* the function returns a value exactly when every imaginary part is below the threshold (or exactly 0), and then entrywise trunc_val *)
Lemma truncate_hs_spec eps m n (H : cmat) :
  (forall i j, (i < m)%nat -> (j < n)%nat -> trunc_ok (im_thr eps (hs_size m n H)) (H i j) = true) /\ truncate_hs eps m n H = Some (fun i j => trunc_val eps (H i j))
  \/ (exists i j, (i < m)%nat /\ (j < n)%nat /\ trunc_ok (im_thr eps (hs_size m n H)) (H i j) = false) /\ truncate_hs eps m n H = None.
Proof. unfold truncate_hs. cbv zeta. set (thr := im_thr eps (hs_size m n H)). destruct (allb m (fun i => allb n (fun j => trunc_ok thr (H i j)))) eqn:E.
  - left. split; [|reflexivity]. intros i j Hi Hj. pose proof (proj1 (allb_true _ _) E i Hi) as E1. exact (proj1 (allb_true _ _) E1 j Hj).
  - right. split; [|reflexivity]. destruct (allb_false _ _ E) as [i [Hi Ei]]. destruct (allb_false _ _ Ei) as [j [Hj Ej]]. now exists i, j. Qed.
Lemma truncate_vec_spec eps n (v : cvec) :
  (forall i, (i < n)%nat -> trunc_ok (im_thr eps (vec_size n v)) (v i) = true) /\ truncate_vec eps n v = Some (fun i => trunc_val eps (v i))
  \/ (exists i, (i < n)%nat /\ trunc_ok (im_thr eps (vec_size n v)) (v i) = false) /\ truncate_vec eps n v = None.
Proof. unfold truncate_vec. cbv zeta. set (thr := im_thr eps (vec_size n v)). destruct (allb n (fun i => trunc_ok thr (v i))) eqn:E.
  - left. split; [|reflexivity]. exact (proj1 (allb_true _ _) E).
  - right. split; [|reflexivity]. now apply allb_false. Qed.
Lemma truncate_hs_real eps m n (H : cmat) : (forall i j, (i < m)%nat -> (j < n)%nat -> im (H i j) = r0) ->
  truncate_hs eps m n H = Some (fun i j => trunc_val eps (H i j)).
Proof. intros Hr. destruct (truncate_hs_spec eps m n H) as [[_ E]|[[i [j [Hi [Hj E]]]] _]]; [exact E|].
  assert (T : trunc_ok (im_thr eps (hs_size m n H)) (H i j) = true) by (apply trunc_ok_spec; right; now apply Hr). congruence. Qed.
Lemma truncate_vec_real eps n (v : cvec) : (forall i, (i < n)%nat -> im (v i) = r0) ->
  truncate_vec eps n v = Some (fun i => trunc_val eps (v i)).
Proof. intros Hr. destruct (truncate_vec_spec eps n v) as [[_ E]|[[i [Hi E]] _]]; [exact E|].
  assert (T : trunc_ok (im_thr eps (vec_size n v)) (v i) = true) by (apply trunc_ok_spec; right; now apply Hr). congruence. Qed.
(* on legitimate input the implementations return the specified real representation, entries below eps set to 0 *)
Lemma vec_of_op_impl_ok eps d (B : nat -> cmat) (X : cmat) : basis_hermitian d B -> hermitian d X ->
  vec_of_op_impl eps d B X = Some (fun a => trunc_val eps (cvec_of_op d B X a)).
Proof. intros Hh HX. apply truncate_vec_real. intros a Ha. rewrite (cvec_of_op_real F d B X a Hh HX Ha). reflexivity. Qed.
Lemma hs_of_choi_sparse_impl_ok eps d (B : nat -> cmat) (Ch : cmat) : basis_hermitian d B -> hermitian (d * d) Ch ->
  hs_of_choi_sparse_impl eps d B Ch = Some (fun a b => trunc_val eps (chs_of_choi d B Ch a b)).
Proof. intros Hh HC. apply truncate_hs_real. intros a b Ha Hb. rewrite (chs_of_choi_real F d B Ch a b Hh HC Ha Hb). reflexivity. Qed.
Lemma hs_of_kraus_impl_ok eps d (B : nat -> cmat) (Ks : list cmat) : basis_hermitian d B ->
  hs_of_kraus_impl eps d B Ks = Some (fun a b => trunc_val eps (chs_of_kraus_impl d B Ks a b)).
Proof. intros Hh. apply truncate_hs_real. intros a b Ha Hb. rewrite chs_of_kraus_impl_eq, (chs_of_kraus_real F d B Ks a b Hh Ha Hb). reflexivity. Qed.

(* ------------------------------------------------------------------ variables <-> HS <-> Choi *)
Lemma var_index d para k : (k < var_len d para)%nat ->
  (k / (d * d) + para_off para < d * d)%nat /\ (k mod (d * d) < d * d)%nat /\ (0 < d * d)%nat.
Proof. unfold var_len. intros H. assert (HD : (0 < d * d)%nat) by (destruct (d * d)%nat; [rewrite Nat.mul_0_r in H; lia|lia]).
  split; [|split; [apply Nat.mod_upper_bound; lia|exact HD]].
  assert (k / (d * d) < d * d - para_off para)%nat by (apply Nat.div_lt_upper_bound; [lia|]; rewrite Nat.mul_comm; exact H). lia. Qed.
Lemma var_of_hs_of_var d para (v : rvec) k : (k < var_len d para)%nat -> var_of_hs d para (hs_of_var d para v) k = v k.
Proof. intros H. destruct (var_index d para k H) as [A [A2 HD]]. unfold var_of_hs, hs_of_var, para_off. destruct para.
  - replace (Nat.eqb (k / (d * d) + 1) 0) with false by (symmetry; apply Nat.eqb_neq; lia). f_equal.
    replace (k / (d * d) + 1 - 1)%nat with (k / (d * d))%nat by lia. rewrite Nat.mul_comm. symmetry. apply Nat.div_mod_eq.
  - f_equal. rewrite Nat.add_0_r, Nat.mul_comm. symmetry. apply Nat.div_mod_eq. Qed.
(* the round trip promised by the docstrings of to_choi_from_var / to_var_from_choi *)
Lemma var_of_choi_spec_round_trip d (B : nat -> cmat) para (v : rvec) k : basis_orthonormal d B -> (k < var_len d para)%nat ->
  var_of_choi_spec d B para (choi_of_var d B para v) k = v k.
Proof. intros Ho H. destruct (var_index d para k H) as [A [A2 HD]]. rewrite <- (var_of_hs_of_var d para v k H).
  unfold var_of_choi_spec, choi_of_var, var_of_hs. now apply hs_of_choi_of_hs. Qed.
(* gate.to_var_from_choi as repaired (fix gate-to-var-from-choi-inverse-map): on the Choi matrix of ANY variable vector it does not
   raise and returns the variables, entries of modulus below eps set to 0 (the truncation every Choi->HS conversion applies) *)
Lemma var_of_choi_fixed_round_trip eps d (B : nat -> cmat) para (v : rvec) : basis_orthonormal d B ->
  exists w, var_of_choi_fixed eps d B para (choi_of_var d B para v) = Some w /\
            forall k, (k < var_len d para)%nat -> w k = trunc_val eps (zof (v k)).
Proof. intros Ho. unfold var_of_choi_fixed, hs_of_choi_sparse_impl.
  assert (R : forall a b, (a < d * d)%nat -> (b < d * d)%nat ->
              chs_of_choi d B (choi_of_var d B para v) a b = zof (hs_of_var d para v a b)).
  { intros a b Ha Hb. unfold choi_of_var. exact (chs_of_cchoi F d B (cof (hs_of_var d para v)) a b Ho Ha Hb). }
  rewrite (truncate_hs_real eps (d * d) (d * d) (chs_of_choi d B (choi_of_var d B para v))).
  2:{ intros a b Ha Hb. rewrite (R a b Ha Hb). reflexivity. }
  eexists. split; [reflexivity|]. intros k Hk. destruct (var_index d para k Hk) as [A [A2 HD]].
  unfold var_of_hs at 1. rewrite (R _ _ A A2). rewrite <- (var_of_hs_of_var d para v k Hk). reflexivity. Qed.
Lemma var_of_choi_fixed_exact eps d (B : nat -> cmat) para (v : rvec) : basis_orthonormal d B ->
  (forall k, (k < var_len d para)%nat -> v k = r0 \/ kle F eps (kabs (v k))) ->
  exists w, var_of_choi_fixed eps d B para (choi_of_var d B para v) = Some w /\ forall k, (k < var_len d para)%nat -> w k = v k.
Proof. intros Ho Hv. destruct (var_of_choi_fixed_round_trip eps d B para v Ho) as [w [E W]]. exists w. split; [exact E|].
  intros k Hk. rewrite (W k Hk). destruct (Hv k Hk) as [Z|L].
  - destruct (trunc_val_cases eps (zof (v k))) as [T|[T _]]; rewrite T; [reflexivity|now rewrite Z].
  - now apply trunc_val_keep. Qed.
(* ... and it raises exactly when to_hs_from_choi_with_sparsity does *)
Lemma var_of_choi_fixed_none eps d (B : nat -> cmat) para (Ch : cmat) :
  var_of_choi_fixed eps d B para Ch = None <-> hs_of_choi_sparse_impl eps d B Ch = None.
Proof. unfold var_of_choi_fixed. destruct (hs_of_choi_sparse_impl eps d B Ch); split; congruence. Qed.
(* ------------------------------------------------------------------ defining formula of the process matrix *)
Lemma sandwich_comp d (X : cmat) al be p q : (al < d * d)%nat -> (be < d * d)%nat ->
  sandwich d (comp_basis d al) X (cadj (comp_basis d be)) p q =
  if Nat.eqb p (al / d) && Nat.eqb q (be / d) then X (al mod d)%nat (be mod d)%nat else 0.
Proof. intros Hal Hbe. destruct (divmod_lt d al Hal) as [A1 A2]. destruct (divmod_lt d be Hbe) as [B1 B2].
  unfold sandwich, mmul.
  rewrite (csum_ext d _ (fun n => if Nat.eqb n (be mod d) then (if Nat.eqb p (al / d) && Nat.eqb q (be / d) then X (al mod d)%nat n else 0) else 0)).
  2:{ intros n _.
      rewrite (csum_ext d _ (fun m => if Nat.eqb m (al mod d) then (if Nat.eqb p (al / d) then X m n else 0) else 0)).
      2:{ intros m _. unfold comp_basis. destruct (Nat.eqb p (al / d)), (Nat.eqb m (al mod d)); cbn [andb]; ring. }
      rewrite (sumn_delta d (al mod d) (fun m => if Nat.eqb p (al / d) then X m n else 0) A2).
      unfold cadj, comp_basis. rewrite cj_if.
      destruct (Nat.eqb p (al / d)), (Nat.eqb q (be / d)), (Nat.eqb n (be mod d)); cbn [andb]; ring. }
  exact (sumn_delta d (be mod d) (fun n => if Nat.eqb p (al / d) && Nat.eqb q (be / d) then X (al mod d)%nat n else 0) B2). Qed.
Lemma process_matrix_entry_map d (B : nat -> cmat) (H : cmat) al be : (al < d * d)%nat -> (be < d * d)%nat ->
  process_matrix d B H al be = capply_hs d B H (comp_basis d ((al mod d) * d + be mod d)%nat) (al / d)%nat (be / d)%nat.
Proof. intros Hal Hbe. destruct (divmod_lt d al Hal) as [A1 A2]. destruct (divmod_lt d be Hbe) as [B1 B2].
  unfold process_matrix. rewrite process_matrix_of_cb_entry by assumption. rewrite convert_hs_as_map. unfold hs_of_map.
  change (hs_inner d (comp_basis d (al / d * d + be / d)) ?Y) with (cvec_of_op d (comp_basis d) Y (al / d * d + be / d)%nat).
  rewrite cvec_of_op_comp by now apply flat_lt. now destruct (divmod_flat (al / d) (be / d) d B1) as [-> ->]. Qed.
(* PROCESS MATRIX FORMULA: sum_{al,be} chi_{al,be} E_al X E_be^dag is the operator the gate maps X to (any basis B, any X) *)
Lemma chi_apply_process_matrix d (B : nat -> cmat) (H X : cmat) p q : (p < d)%nat -> (q < d)%nat ->
  chi_apply d (process_matrix d B H) X p q = capply_hs d B H X p q.
Proof. intros Hp Hq. set (G := capply_hs d B H).
  transitivity (csum d (fun j => csum d (fun l => X j l * G (comp_basis d (j * d + l)%nat) p q))).
  - unfold chi_apply. rewrite sumn_flat.
    transitivity (csum d (fun i => csum d (fun k => if Nat.eqb p i && Nat.eqb q k
                    then csum d (fun j => csum d (fun l => X j l * G (comp_basis d (j * d + l)%nat) i k)) else 0))).
    + apply csum_ext; intros i Hi.
      transitivity (csum d (fun j => csum d (fun k => csum d (fun l =>
                      if Nat.eqb p i && Nat.eqb q k then X j l * G (comp_basis d (j * d + l)%nat) i k else 0)))).
      { apply csum_ext; intros j Hj. rewrite sumn_flat. apply csum_ext2; intros k l Hk Hl.
        rewrite process_matrix_entry_map by (apply flat_lt; assumption).
        rewrite sandwich_comp by (apply flat_lt; assumption).
        destruct (divmod_flat i j d Hj) as [-> ->]. destruct (divmod_flat k l d Hl) as [-> ->]. fold G.
        destruct (Nat.eqb p i && Nat.eqb q k); ring. }
      rewrite sumn_swap. apply csum_ext; intros k _. destruct (Nat.eqb p i && Nat.eqb q k).
      * reflexivity.
      * rewrite (csum_ext d _ (fun _ => 0)) by (intros; apply sumn_zero). apply sumn_zero.
    + exact (csum2_delta' d d p q (fun i k => csum d (fun j => csum d (fun l => X j l * G (comp_basis d (j * d + l)%nat) i k))) Hp Hq).
  - unfold G. rewrite (capply_hs_ext F d B H H X (op_of_cvec d (comp_basis d) (cvec_of_op d (comp_basis d) X)) p q).
    2:{ apply meq_refl. } 2:{ apply meq_sym. apply op_of_cvec_of_op_meq. apply comp_basis_complete. }
    unfold op_of_cvec. rewrite capply_hs_sum, sumn_flat. apply csum_ext2; intros j l Hj Hl.
    rewrite cvec_of_op_comp by now apply flat_lt. now destruct (divmod_flat j l d Hl) as [-> ->]. Qed.
(* ------------------------------------------------------------------ soundness of the executable basis predicates *)
Lemma ceqb_true_iff (z w : Cx) : ceqb z w = true <-> z = w.
Proof. unfold ceqb. rewrite andb_true_iff, !keqb_spec. split; [intros [A B]; now apply cplx_eq|intros ->; now split]. Qed.
Lemma orthonormal_dec_sound d (B : nat -> cmat) : orthonormal_dec d B = true -> basis_orthonormal d B.
Proof. intros H a b Ha Hb. apply ceqb_true_iff. exact (proj1 (allb_true _ _) (proj1 (allb_true _ _) H a Ha) b Hb). Qed.
Lemma complete_dec_sound d (B : nat -> cmat) : complete_dec d B = true -> basis_complete d B.
Proof. intros H i j k l Hi Hj Hk Hl. apply ceqb_true_iff.
  exact (proj1 (allb_true _ _) (proj1 (allb_true _ _) (proj1 (allb_true _ _) (proj1 (allb_true _ _) H i Hi) j Hj) k Hk) l Hl). Qed.
Lemma hermitian_basis_dec_sound d (B : nat -> cmat) : hermitian_basis_dec d B = true -> basis_hermitian d B.
Proof. intros H a Ha i j Hi Hj. apply ceqb_true_iff. exact (proj1 (allb_true _ _) (proj1 (allb_true _ _) (proj1 (allb_true _ _) H a Ha) i Hi) j Hj). Qed.
Lemma identity0_dec_sound d sd (B : nat -> cmat) : identity0_dec d sd B = true -> basis_0th_identity d sd B.
Proof. intros H i j Hi Hj. apply ceqb_true_iff. exact (proj1 (allb_true _ _) (proj1 (allb_true _ _) H i Hi) j Hj). Qed.
End C02ConvProofs.

(* ================================================================== the exactly-rational instance (executed field Qc) *)
From Coq Require Import QArith Qcanon.
From QV.Core Require Import QcOF.
Definition P2 : nat -> cmat Qc_OF := pauli2n (F := Qc_OF).
Lemma pauli2n_orthonormal : basis_orthonormal 4 P2.
Proof. apply orthonormal_dec_sound. vm_compute. reflexivity. Qed.
Lemma pauli2n_complete : basis_complete 4 P2.
Proof. apply complete_dec_sound. vm_compute. reflexivity. Qed.
Lemma pauli2n_hermitian : basis_hermitian 4 P2.
Proof. apply hermitian_basis_dec_sound. vm_compute. reflexivity. Qed.
Lemma pauli2n_identity0 : basis_0th_identity 4 (Q2Qc 2 : Qc_OF) P2.
Proof. apply identity0_dec_sound. vm_compute. reflexivity. Qed.

(* the gate H (x) I on two qubits: HS matrix HS_H (x) I_4 w.r.t. P2 (HS_H = Hadamard in the Pauli basis); TP, first row e_0 *)
Definition hs_hadamard_pauli (a b : nat) : Qc :=
  match a, b with
  | 0%nat, 0%nat => 1%Qc | 1%nat, 3%nat => 1%Qc | 2%nat, 2%nat => (Qcopp 1%Qc) | 3%nat, 1%nat => 1%Qc | _, _ => 0%Qc end.
Definition hs_HI : rmat Qc_OF := fun a b => if Nat.eqb (a mod 4) (b mod 4) then hs_hadamard_pauli (a / 4) (b / 4) else 0%Qc.
Definition var_HI : rvec Qc_OF := var_of_hs 4 true hs_HI.

(* DEFECT of gate.to_var_from_choi AS CODED BEFORE fix gate-to-var-from-choi-inverse-map (it called the forward map): the round trip Choi(var) -> var fails on that model,
   while the specified conversion returns the variable. Witness: H (x) I, variable index 1 (HS entry (1,1) = 1, implementation yields 0). *)
Lemma to_var_from_choi_witness :
  ceqb (var_of_choi_before_fix 4 P2 true (choi_of_var 4 P2 true var_HI) 1%nat) (zof (F := Qc_OF) (var_HI 1%nat)) = false.
Proof. vm_compute. reflexivity. Qed.
Lemma to_var_from_choi_before_fix_refuted :
  exists (d : nat) (B : nat -> cmat Qc_OF) (v : rvec Qc_OF) (k : nat),
    basis_orthonormal d B /\ basis_complete d B /\ basis_hermitian d B /\ (k < var_len d true)%nat /\
    var_of_choi_spec d B true (choi_of_var d B true v) k = v k /\
    var_of_choi_before_fix d B true (choi_of_var d B true v) k <> zof (v k).
Proof. exists 4%nat, P2, var_HI, 1%nat.
  split; [exact pauli2n_orthonormal|]. split; [exact pauli2n_complete|]. split; [exact pauli2n_hermitian|].
  split; [vm_compute; lia|]. split.
  - apply var_of_choi_spec_round_trip; [exact pauli2n_orthonormal|vm_compute; lia].
  - intros E. pose proof to_var_from_choi_witness as W. rewrite E in W.
    rewrite (proj2 (ceqb_true_iff Qc_OF _ _) eq_refl) in W. discriminate W. Qed.

(* ================================================================== the conjunctions stated as property theorems in Props/C02.v *)
Lemma complex_hs_choi_round_trips_thm : forall (F : OF) d (B : nat -> cmat F),
  (basis_orthonormal d B -> forall (H : cmat F) a b, (a < d * d)%nat -> (b < d * d)%nat ->
     chs_of_choi d B (cchoi_of_hs d B H) a b = H a b) /\
  (basis_complete d B -> forall (Ch : cmat F) i j, (i < d * d)%nat -> (j < d * d)%nat ->
     cchoi_of_hs d B (chs_of_choi d B Ch) i j = Ch i j).
Proof. intros F d B. split; intros HB M a b Ha Hb; [now apply chs_of_cchoi|now apply cchoi_of_chs]. Qed.
Lemma choi_isometry_thm : forall (F : OF) d (B : nat -> cmat F), basis_orthonormal d B ->
  (forall H H' : cmat F, hs_inner (d * d) (cchoi_of_hs d B H) (cchoi_of_hs d B H') = hs_inner (d * d) H H') /\
  (forall HS HS' : rmat F, hs_inner (d * d) (choi_of_hs d B HS) (choi_of_hs d B HS') = zof (inner (d * d) (d * d) HS HS')).
Proof. intros F d B Ho. split; intros; [now apply cchoi_isometry|now apply choi_frobenius]. Qed.
Lemma variants_agree_thm : forall (F : OF) d (B : nat -> cmat F),
  (forall (c : cvec F) i j, (j < d)%nat -> density_sparse d B c i j = op_of_cvec d B c i j) /\
  (forall (X : cmat F) a, cvec_sparse d B X a = cvec_of_op d B X a) /\
  (forall (H : cmat F) i j, (j < d * d)%nat -> choi_sparse d B H i j = cchoi_of_hs d B H i j) /\
  (forall (H : cmat F) i j, choi_dict d B H i j = cchoi_of_hs d B H i j) /\
  (forall (Ch : cmat F) a b, (b < d * d)%nat -> chs_sparse d B Ch a b = chs_of_choi d B Ch a b) /\
  (basis_hermitian d B -> forall (Ch : cmat F) a b, (a < d * d)%nat -> (b < d * d)%nat -> chs_dict d B Ch a b = chs_of_choi d B Ch a b).
Proof. intros F d B. repeat split; intros.
  - now apply density_sparse_eq. - apply cvec_sparse_eq. - now apply choi_sparse_eq. - apply choi_dict_eq.
  - now apply chs_sparse_eq. - rewrite chs_dict_eq. now apply chs_of_choi_dict_eq. Qed.
Lemma linearity_thm : forall (F : OF) d (B B' : nat -> cmat F),
  (forall (v w : rvec F) i j, op_of_vec d B (vadd v w) i j = madd (op_of_vec d B v) (op_of_vec d B w) i j) /\
  (forall (k : F) (v : rvec F) i j, op_of_vec d B (vscale k v) i j = mscale (zof k : CF F) (op_of_vec d B v) i j) /\
  (forall (X Y : cmat F) a, cvec_of_op d B (madd X Y) a = vadd (cvec_of_op d B X) (cvec_of_op d B Y) a) /\
  (forall (k : CF F) (X : cmat F) a, cvec_of_op d B (mscale k X) a = vscale k (cvec_of_op d B X) a) /\
  (forall (H H' : cmat F) i j, cchoi_of_hs d B (madd H H') i j = madd (cchoi_of_hs d B H) (cchoi_of_hs d B H') i j) /\
  (forall (k : CF F) (H : cmat F) i j, cchoi_of_hs d B (mscale k H) i j = mscale k (cchoi_of_hs d B H) i j) /\
  (forall (Ch Ch' : cmat F) a b, chs_of_choi d B (madd Ch Ch') a b = madd (chs_of_choi d B Ch) (chs_of_choi d B Ch') a b) /\
  (forall (k : CF F) (Ch : cmat F) a b, chs_of_choi d B (mscale k Ch) a b = mscale k (chs_of_choi d B Ch) a b) /\
  (forall (H H' : cmat F) a b, convert_hs d B B' (madd H H') a b = madd (convert_hs d B B' H) (convert_hs d B B' H') a b) /\
  (forall (k : CF F) (H : cmat F) a b, convert_hs d B B' (mscale k H) a b = mscale k (convert_hs d B B' H) a b) /\
  (forall (v w : cvec F) a, convert_vec d B B' (vadd v w) a = vadd (convert_vec d B B' v) (convert_vec d B B' w) a) /\
  (forall (k : CF F) (v : cvec F) a, convert_vec d B B' (vscale k v) a = vscale k (convert_vec d B B' v) a) /\
  map_linear d (capply_hs d B (fun _ _ => c0 (CF F))) /\ (forall Ks : list (cmat F), map_linear d (kraus_apply d Ks)).
Proof. intros F d B B'. repeat split; intros.
  - apply op_of_vec_add. - apply op_of_vec_scale. - apply cvec_of_op_add. - apply cvec_of_op_scale.
  - apply cchoi_of_hs_add. - apply cchoi_of_hs_scale. - apply chs_of_choi_add. - apply chs_of_choi_scale.
  - apply convert_hs_add. - apply convert_hs_scale. - apply convert_vec_add. - apply convert_vec_scale.
  - apply (proj1 (capply_hs_linear F d B _)); assumption. - apply (proj2 (capply_hs_linear F d B _)); assumption.
  - apply (proj1 (kraus_apply_linear F d Ks)); assumption. - apply (proj2 (kraus_apply_linear F d Ks)); assumption. Qed.
Lemma truncate_hs_threshold_thm : forall (F : OF) (eps : F) m n (H : cmat F),
  (forall i j, (i < m)%nat -> (j < n)%nat -> kle F (kabs (re (H i j))) (hs_size m n H)) /\
  (forall c, kle F (c0 F) c -> (forall i j, (i < m)%nat -> (j < n)%nat -> kle F (kabs (re (H i j))) c) -> kle F (hs_size m n H) c) /\
  (forall thr (z : CF F), trunc_ok thr z = true <-> (~ kle F thr (kabs (im z)) \/ im z = c0 F)) /\
  (kle F (hs_size m n H) (c1 F) -> im_thr eps (hs_size m n H) = eps) /\
  (kle F (c0 F) eps -> kle F eps (im_thr eps (hs_size m n H))).
Proof. intros F eps m n H. split; [|split; [|split; [|split]]].
  - intros i j Hi Hj. now apply hs_size_ge.
  - intros c Hc Hb. now apply hs_size_lub.
  - intros thr z. apply trunc_ok_spec.
  - apply im_thr_small.
  - apply im_thr_ge. Qed.
Lemma truncating_conversions_ok_thm : forall (F : OF) (eps : F) d (B : nat -> cmat F), basis_hermitian d B ->
  (forall X : cmat F, hermitian d X -> vec_of_op_impl eps d B X = Some (fun a => trunc_val eps (cvec_of_op d B X a))) /\
  (forall Ch : cmat F, hermitian (d * d) Ch -> hs_of_choi_sparse_impl eps d B Ch = Some (fun a b => trunc_val eps (chs_of_choi d B Ch a b))) /\
  (forall Ks : list (cmat F), hs_of_kraus_impl eps d B Ks = Some (fun a b => trunc_val eps (chs_of_kraus_impl d B Ks a b))) /\
  (forall z : CF F, trunc_val eps z = re z \/ (trunc_val eps z = c0 F /\ ~ kle F eps (kabs (re z)))).
Proof. intros F eps d B Hh. repeat split; intros.
  - now apply vec_of_op_impl_ok. - now apply hs_of_choi_sparse_impl_ok. - now apply hs_of_kraus_impl_ok. - apply trunc_val_cases. Qed.
Lemma to_var_from_choi_round_trip_thm : forall (F : OF) (eps : F) d (B : nat -> cmat F) para (v : rvec F), basis_orthonormal d B ->
  (exists w, var_of_choi_fixed eps d B para (choi_of_var d B para v) = Some w /\
             forall k, (k < var_len d para)%nat -> w k = trunc_val eps (zof (v k))) /\
  ((forall k, (k < var_len d para)%nat -> v k = c0 F \/ kle F eps (kabs (v k))) ->
   exists w, var_of_choi_fixed eps d B para (choi_of_var d B para v) = Some w /\ forall k, (k < var_len d para)%nat -> w k = v k).
Proof. intros F eps d B para v Ho. split; [now apply var_of_choi_fixed_round_trip|now apply var_of_choi_fixed_exact]. Qed.

(* ================================================================== round 3: certificate => property, Hermiticity / reality of the representations *)
(* CERTIFICATE => PROPERTY (what the harness checks on the output of to_kraus_matrices_from_hs): a Kraus list whose HS matrix
   sum_K <B_a, K B_b K^dag> equals H entrywise denotes the very map H denotes; hence two Kraus lists with the same HS matrix denote the same map *)
Lemma kraus_certificate_thm : forall (F : OF) d (B : nat -> cmat F) (Ks : list (cmat F)) (H X : cmat F) i j,
  basis_complete d B -> (forall a b, (a < d * d)%nat -> (b < d * d)%nat -> chs_of_kraus d B Ks a b = H a b) ->
  (i < d)%nat -> (j < d)%nat -> capply_hs d B H X i j = kraus_apply d Ks X i j.
Proof. intros F d B Ks H X i j Hc E Hi Hj. rewrite <- (capply_chs_of_kraus F d B Ks X i j Hc Hi Hj).
  apply capply_hs_ext; [|apply meq_refl]. intros a b Ha Hb. symmetry. now apply E. Qed.
Lemma kraus_sets_same_map_thm : forall (F : OF) d (B : nat -> cmat F) (Ks Ks' : list (cmat F)) (X : cmat F) i j,
  basis_complete d B -> (forall a b, (a < d * d)%nat -> (b < d * d)%nat -> chs_of_kraus d B Ks a b = chs_of_kraus d B Ks' a b) ->
  (i < d)%nat -> (j < d)%nat -> kraus_apply d Ks X i j = kraus_apply d Ks' X i j.
Proof. intros F d B Ks Ks' X i j Hc E Hi Hj. rewrite <- (kraus_certificate_thm F d B Ks (chs_of_kraus d B Ks') X i j Hc E Hi Hj).
  now apply capply_chs_of_kraus. Qed.
(* the representations of Hermiticity-preserving objects are Hermitian / real, as the truncating conversions assume (Hermitian basis) *)
Lemma hermiticity_thm : forall (F : OF) d (B : nat -> cmat F), basis_hermitian d B ->
  (forall v : rvec F, hermitian d (op_of_vec d B v)) /\
  (forall (X : cmat F) a, hermitian d X -> (a < d * d)%nat -> im (cvec_of_op d B X a) = c0 F) /\
  (forall HS : rmat F, hermitian (d * d) (choi_of_hs d B HS)) /\
  (forall (Ch : cmat F) a b, hermitian (d * d) Ch -> (a < d * d)%nat -> (b < d * d)%nat -> im (chs_of_choi d B Ch a b) = c0 F) /\
  (forall (Ks : list (cmat F)) a b, (a < d * d)%nat -> (b < d * d)%nat -> im (chs_of_kraus d B Ks a b) = c0 F) /\
  (forall (HS : rmat F) al be, (al < d * d)%nat -> (be < d * d)%nat ->
     process_matrix d B (cof HS) al be = zconj (process_matrix d B (cof HS) be al)).
Proof. intros F d B Hh. split; [|split; [|split; [|split; [|split]]]].
  - intros v. now apply op_of_vec_hermitian.
  - intros X a HX Ha. rewrite (cvec_of_op_real F d B X a Hh HX Ha). reflexivity.
  - intros HS. now apply choi_of_hs_hermitian.
  - intros Ch a b HC Ha Hb. rewrite (chs_of_choi_real F d B Ch a b Hh HC Ha Hb). reflexivity.
  - intros Ks a b Ha Hb. rewrite (chs_of_kraus_real F d B Ks a b Hh Ha Hb). reflexivity.
  - intros HS al be Hal Hbe. rewrite !process_matrix_is_choi by assumption.
    exact (choi_of_hs_hermitian F d B HS Hh al be Hal Hbe). Qed.
