(* C05 — proofs about the Dykstra model: invariant, a-posteriori optimality certificate, consequences
   (Pythagoras bound, distance to THE nearest point, agreement of two runs), stopping-quantity bounds,
   fixed points, loop / history consistency.  Generic in the ordered field; axiom-free. *)
From Coq Require Import Field Ring Setoid Arith Lia Bool List.
From QV.Core Require Import OF Sums Mat.
From QV.Model Require Import C05_Dykstra.
Import ListNotations.

Section Order.
Context (F : OF).
Add Field Ff5a : (k_field F).
Notation "0" := (c0 F). Notation "1" := (c1 F).
Infix "+" := (cadd F). Infix "*" := (cmul F). Infix "<=" := (kle F). Infix "-" := (csub F).
Notation "- x" := (copp F x).

Lemma sumn_nonneg n (f : nat -> F) : (forall i, (i < n)%nat -> 0 <= f i) -> 0 <= sumn n f.
Proof. induction n as [|n IH]; intros H; cbn. { apply k_refl. }
  apply add_nonneg; [apply IH; intros; apply H; lia|apply H; lia]. Qed.
Lemma sumn_nonpos n (f : nat -> F) : (forall i, (i < n)%nat -> f i <= 0) -> sumn n f <= 0.
Proof. intros H. apply (proj2 (le_sub F _ _)). replace (0 - sumn n f) with (- sumn n f) by ring.
  rewrite <- sumn_opp. apply sumn_nonneg. intros i Hi. apply opp_nonneg. now apply H. Qed.
Lemma half_nonneg c : 0 <= c + c -> 0 <= c.
Proof. intros H. destruct (k_total F 0 c) as [A|A]; [exact A|].
  assert (B : c + c <= 0). { replace 0 with (0 + 0) by ring. now apply le_add_compat. }
  assert (E : c + c = 0) by (apply (k_antisym F); assumption).
  destruct (keqb F c 0) eqn:Ec. { apply keqb_spec in Ec. rewrite Ec. apply k_refl. }
  exfalso. refine (double_neq0 F c _ E). intros E0. rewrite E0 in Ec.
  assert (T : keqb F 0 0 = true) by (apply keqb_spec; reflexivity). congruence. Qed.
Lemma le_double a b : a + a <= b + b -> a <= b.
Proof. intros H. apply (proj2 (le_sub F _ _)). apply half_nonneg.
  replace (b - a + (b - a)) with (b + b - (a + a)) by ring. now apply (proj1 (le_sub F _ _)). Qed.
Lemma le_add3 p q a b g : p <= a -> q <= b -> p + g + q <= g + a + b.
Proof. intros H1 H2. apply (proj2 (le_sub F _ _)).
  replace (g + a + b - (p + g + q)) with ((a - p) + (b - q)) by ring.
  apply add_nonneg; now apply (proj1 (le_sub F _ _)). Qed.

(* Cauchy-Schwarz over an ordered field (Lagrange's identity; no square root) *)
Lemma cauchy_schwarz n (a b : nat -> F) : dot n a b * dot n a b <= dot n a a * dot n b b.
Proof.
  set (S := sumn n (fun i => sumn n (fun j => (a i * b j - a j * b i) * (a i * b j - a j * b i)))).
  assert (HS : 0 <= S).
  { apply sumn_nonneg; intros i _. apply sumn_nonneg; intros j _. apply sqr_nonneg. }
  assert (E : S = (dot n a a * dot n b b - dot n a b * dot n a b) + (dot n b b * dot n a a - dot n a b * dot n a b)).
  { unfold S, dot. rewrite !sumn_mul.
    rewrite <- !sumn_sub, <- sumn_add. apply sumn_ext; intros i _.
    rewrite <- !sumn_sub, <- sumn_add. apply sumn_ext; intros j _. ring. }
  rewrite E in HS. replace (dot n b b * dot n a a) with (dot n a a * dot n b b) in HS by ring.
  apply half_nonneg in HS. now apply (proj2 (le_sub F _ _)). Qed.
End Order.

Section Proofs.
Context (F : OF).
Add Field Ff5 : (k_field F).
Notation "0" := (c0 F). Notation "1" := (c1 F).
Infix "+" := (cadd F). Infix "*" := (cmul F). Infix "<=" := (kle F). Infix "-" := (csub F).
Notation "- x" := (copp F x).
Notation vec := (@vec F).
Context (n : nat) (frz : vec -> vec).
Hypothesis frz_spec : forall v i, (i < n)%nat -> frz v i = v i.

Lemma frz_veq v : veq n (frz v) v. Proof. intros i Hi. now apply frz_spec. Qed.

(* ------------------------------------------------------------------ one sweep, pointwise *)
Section Step.
Context (PA PB : nat -> vec -> vec).
Notation step := (step F frz PA PB).
Notation iter := (iter F frz PA PB).

Lemma step_y k s i : (i < n)%nat -> sy (step k s) i = PA k (arg_first F frz s) i.
Proof. intros Hi. unfold C05_Dykstra.step, arg_first. cbn [sy]. now rewrite frz_spec. Qed.
Lemma step_p k s i : (i < n)%nat -> sp (step k s) i = sx s i + sp s i - sy (step k s) i.
Proof. intros Hi. unfold C05_Dykstra.step. cbn [sp sy]. rewrite frz_spec by exact Hi.
  unfold vsub at 1. rewrite (frz_spec (vadd (sx s) (sp s))) by exact Hi. reflexivity. Qed.
Lemma step_x k s i : (i < n)%nat -> sx (step k s) i = PB k (arg_second F frz s (step k s)) i.
Proof. intros Hi. unfold C05_Dykstra.step, arg_second. cbn [sx sy]. now rewrite frz_spec. Qed.
Lemma step_q k s i : (i < n)%nat -> sq (step k s) i = sy (step k s) i + sq s i - sx (step k s) i.
Proof. intros Hi. unfold C05_Dykstra.step. cbn [sq sy sx]. rewrite frz_spec by exact Hi.
  unfold vsub at 1. rewrite (frz_spec (vadd _ (sq s))) by exact Hi. reflexivity. Qed.
Lemma arg_first_spec s i : (i < n)%nat -> arg_first F frz s i = sx s i + sp s i.
Proof. intros Hi. unfold arg_first. now rewrite frz_spec. Qed.
Lemma arg_second_spec s s' i : (i < n)%nat -> arg_second F frz s s' i = sy s' i + sq s i.
Proof. intros Hi. unfold arg_second. now rewrite frz_spec. Qed.

(* the sum x + p + q is preserved by every sweep, whatever the two projections return *)
Lemma step_invariant k s i : (i < n)%nat ->
  sx (step k s) i + sp (step k s) i + sq (step k s) i = sx s i + sp s i + sq s i.
Proof. intros Hi. rewrite step_p, step_q by exact Hi. ring. Qed.

Theorem invariant x0 k : forall i, (i < n)%nat ->
  sx (iter k (init F frz x0)) i + sp (iter k (init F frz x0)) i + sq (iter k (init F frz x0)) i = x0 i.
Proof. induction k as [|k IH]; intros i Hi.
  - cbn. rewrite frz_spec by exact Hi. unfold vzero. ring.
  - cbn [C05_Dykstra.iter]. rewrite step_invariant by exact Hi. now apply IH. Qed.

(* x_{k+1} - y_{k+1} = q_k - q_{k+1} : the returned point is as close to the last y as q moved *)
Lemma step_xy k s i : (i < n)%nat -> sx (step k s) i - sy (step k s) i = sq s i - sq (step k s) i.
Proof. intros Hi. rewrite step_q by exact Hi. ring. Qed.
End Step.

(* ------------------------------------------------------------------ abstract optimality certificate *)
(* what is evaluated on the implementation's FINAL history record: nothing but the invariant and the two
   normal-cone inequalities of that record are needed *)
Theorem certificate_record (x0 x y p q z : vec) (a b : F) :
  (forall i, (i < n)%nat -> x i + p i + q i = x0 i) ->
  dot n p (vsub z y) <= a -> dot n q (vsub z x) <= b ->
  dot n (vsub x0 x) (vsub z x) <= dot n p (vsub y x) + a + b.
Proof. intros Hinv Ha Hb.
  assert (E : dot n (vsub x0 x) (vsub z x) = dot n p (vsub z y) + dot n p (vsub y x) + dot n q (vsub z x)).
  { unfold dot, vsub. rewrite <- !sumn_add. apply sumn_ext; intros i Hi. rewrite <- (Hinv i Hi). ring. }
  rewrite E. now apply le_add3. Qed.

Definition dist2 := dist2 F n.
Lemma pythagoras_alg (x0 x z : vec) :
  dist2 x0 z = dist2 x0 x + dist2 x z - (dot n (vsub x0 x) (vsub z x) + dot n (vsub x0 x) (vsub z x)).
Proof. unfold dist2, C05_Dykstra.dist2, dot, vsub. rewrite <- !sumn_add, <- sumn_sub.
  apply sumn_ext; intros; ring. Qed.

Theorem pythagoras_bound (x0 x z : vec) (g : F) :
  dot n (vsub x0 x) (vsub z x) <= g -> dist2 x0 x + dist2 x z - (g + g) <= dist2 x0 z.
Proof. intros H. rewrite (pythagoras_alg x0 x z). apply (proj2 (le_sub F _ _)).
  set (t := dot n (vsub x0 x) (vsub z x)) in *.
  replace (dist2 x0 x + dist2 x z - (t + t) - (dist2 x0 x + dist2 x z - (g + g))) with ((g - t) + (g - t)) by ring.
  apply add_nonneg; now apply (proj1 (le_sub F _ _)). Qed.

(* distance from a certified point x to ANY nearest feasible point zs, given some feasible w (close to x) *)
Theorem near_nearest (C : vec -> Prop) (x0 x zs w : vec) (g : F) :
  (forall z, C z -> dot n (vsub x0 x) (vsub z x) <= g) ->
  C zs -> (forall z, C z -> dist2 x0 zs <= dist2 x0 z) -> C w ->
  dist2 x zs <= (g + g) + (dot n (vsub x0 x) (vsub x w) + dot n (vsub x0 x) (vsub x w)) + dist2 x w.
Proof. intros Hc Hzs Hnear Hw.
  pose proof (pythagoras_bound x0 x zs g (Hc zs Hzs)) as P.
  pose proof (Hnear w Hw) as N.
  assert (E : dist2 x0 w = dist2 x0 x + (dot n (vsub x0 x) (vsub x w) + dot n (vsub x0 x) (vsub x w)) + dist2 x w).
  { unfold dist2, C05_Dykstra.dist2, dot, vsub. rewrite <- !sumn_add. apply sumn_ext; intros; ring. }
  rewrite E in N. pose proof (k_trans F _ _ _ P N) as T.
  apply (proj1 (le_sub F _ _)) in T. apply (proj2 (le_sub F _ _)).
  set (c := dot n (vsub x0 x) (vsub x w)) in *.
  replace (g + g + (c + c) + dist2 x w - dist2 x zs)
    with (dist2 x0 x + (c + c) + dist2 x w - (dist2 x0 x + dist2 x zs - (g + g))) by ring. exact T. Qed.

(* two certified points for the same x0 (other order, other routine): they differ by at most the two gaps
   plus their infeasibilities, measured against feasible points w (near x) and w' (near x') *)
Theorem two_runs_agree (C : vec -> Prop) (x0 x x' w w' : vec) (g g' : F) :
  (forall z, C z -> dot n (vsub x0 x) (vsub z x) <= g) ->
  (forall z, C z -> dot n (vsub x0 x') (vsub z x') <= g') -> C w -> C w' ->
  dist2 x x' <= g + g' + dot n (vsub x0 x) (vsub x' w') + dot n (vsub x0 x') (vsub x w).
Proof. intros H1 H2 Hw Hw'. pose proof (H1 w' Hw') as A. pose proof (H2 w Hw) as B.
  assert (E : dist2 x x' = dot n (vsub x0 x) (vsub w' x) + dot n (vsub x0 x') (vsub w x')
              + dot n (vsub x0 x) (vsub x' w') + dot n (vsub x0 x') (vsub x w)).
  { unfold dist2, C05_Dykstra.dist2, dot, vsub. rewrite <- !sumn_add. apply sumn_ext; intros; ring. }
  rewrite E. apply (proj2 (le_sub F _ _)).
  set (u := dot n (vsub x0 x) (vsub x' w')). set (v := dot n (vsub x0 x') (vsub x w)).
  set (s := dot n (vsub x0 x) (vsub w' x)) in *. set (t := dot n (vsub x0 x') (vsub w x')) in *.
  replace (g + g' + u + v - (s + t + u + v)) with ((g - s) + (g' - t)) by ring.
  apply add_nonneg; now apply (proj1 (le_sub F _ _)). Qed.

(* when both points are feasible themselves the infeasibility terms vanish *)
Corollary two_runs_agree_feasible (C : vec -> Prop) (x0 x x' : vec) (g g' : F) :
  (forall z, C z -> dot n (vsub x0 x) (vsub z x) <= g) ->
  (forall z, C z -> dot n (vsub x0 x') (vsub z x') <= g') -> C x -> C x' ->
  dist2 x x' <= g + g'.
Proof. intros H1 H2 Hx Hx'. pose proof (two_runs_agree C x0 x x' x x' g g' H1 H2 Hx Hx') as T.
  assert (Z1 : dot n (vsub x0 x) (vsub x' x') = 0).
  { unfold dot, vsub. apply sumn_zero'. intros; ring. }
  assert (Z2 : dot n (vsub x0 x') (vsub x x) = 0).
  { unfold dot, vsub. apply sumn_zero'. intros; ring. }
  rewrite Z1, Z2 in T. replace (g + g' + 0 + 0) with (g + g') in T by ring. exact T. Qed.

(* ------------------------------------------------------------------ Dykstra with obtuse-angle projections *)
(* P k u lies in the (convex) set and makes an obtuse angle with every point of the set: the variational
   characterisation of the nearest-point projection *)
Definition obtuse (A : vec -> Prop) (P : nat -> vec -> vec) :=
  forall k u, A (P k u) /\ forall z, A z -> dot n (vsub u (P k u)) (vsub z (P k u)) <= 0.

Section Cert.
Context (PA PB : nat -> vec -> vec) (A B : vec -> Prop).
Hypothesis obA : obtuse A PA.
Hypothesis obB : obtuse B PB.
Notation step := (step F frz PA PB).
Notation iter := (iter F frz PA PB).

Lemma step_normal_A k s z : A z -> dot n (sp (step k s)) (vsub z (sy (step k s))) <= 0.
Proof. intros Hz. destruct (obA k (arg_first F frz s)) as [_ H].
  rewrite (dot_ext n _ (vsub (arg_first F frz s) (PA k (arg_first F frz s))) _ (vsub z (PA k (arg_first F frz s)))).
  - now apply H.
  - intros i Hi. unfold vsub. rewrite step_p, step_y, arg_first_spec by exact Hi. reflexivity.
  - intros i Hi. unfold vsub. rewrite step_y by exact Hi. reflexivity. Qed.
Lemma step_normal_B k s z : B z -> dot n (sq (step k s)) (vsub z (sx (step k s))) <= 0.
Proof. intros Hz. destruct (obB k (arg_second F frz s (step k s))) as [_ H].
  rewrite (dot_ext n _ (vsub (arg_second F frz s (step k s)) (PB k (arg_second F frz s (step k s))))
                     _ (vsub z (PB k (arg_second F frz s (step k s))))).
  - now apply H.
  - intros i Hi. unfold vsub. rewrite step_q, step_x, arg_second_spec by exact Hi. reflexivity.
  - intros i Hi. unfold vsub. rewrite step_x by exact Hi. reflexivity. Qed.

(* the a-posteriori certificate: for every sweep count k >= 1 and every point z of the intersection *)
Theorem certificate x0 k z : (1 <= k)%nat -> A z -> B z ->
  dot n (vsub x0 (sx (iter k (init F frz x0)))) (vsub z (sx (iter k (init F frz x0))))
    <= gap F n (iter k (init F frz x0)).
Proof. intros Hk Az Bz. destruct k as [|j]; [lia|]. unfold gap.
  pose proof (certificate_record x0 (sx (iter (S j) (init F frz x0))) (sy (iter (S j) (init F frz x0)))
                (sp (iter (S j) (init F frz x0))) (sq (iter (S j) (init F frz x0))) z 0 0
                (invariant PA PB x0 (S j))) as H.
  replace (dot n (sp (iter (S j) (init F frz x0))) (vsub (sy (iter (S j) (init F frz x0))) (sx (iter (S j) (init F frz x0)))))
    with (dot n (sp (iter (S j) (init F frz x0))) (vsub (sy (iter (S j) (init F frz x0))) (sx (iter (S j) (init F frz x0)))) + 0 + 0) by ring.
  apply H; cbn [C05_Dykstra.iter]; [now apply step_normal_A|now apply step_normal_B]. Qed.

Theorem certificate_pythagoras x0 k z : (1 <= k)%nat -> A z -> B z ->
  dist2 x0 (sx (iter k (init F frz x0))) + dist2 (sx (iter k (init F frz x0))) z
    - (gap F n (iter k (init F frz x0)) + gap F n (iter k (init F frz x0))) <= dist2 x0 z.
Proof. intros Hk Az Bz. apply pythagoras_bound. now apply certificate. Qed.
End Cert.

(* ------------------------------------------------------------------ the stopping quantity bounds gap and infeasibility *)
Section Stop.
Context (PA PB : nat -> vec -> vec).
Notation step := (step F frz PA PB).

Lemma br_split s s' : br F n s s' = dist2 (sp s) (sp s') + dist2 (sq s) (sq s').
Proof. unfold br, sqr, dist2, C05_Dykstra.dist2, dot, vsub. now rewrite sumn_add. Qed.
Lemma dist2_nonneg a b : 0 <= dist2 a b.
Proof. unfold dist2, C05_Dykstra.dist2, dot. apply sumn_nonneg; intros. apply sqr_nonneg. Qed.
Lemma br_nonneg s s' : 0 <= br F n s s'.
Proof. rewrite br_split. apply add_nonneg; apply dist2_nonneg. Qed.
Lemma dq_le_br s s' : dist2 (sq s) (sq s') <= br F n s s'.
Proof. rewrite br_split. apply (proj2 (le_sub F _ _)).
  replace (dist2 (sp s) (sp s') + dist2 (sq s) (sq s') - dist2 (sq s) (sq s')) with (dist2 (sp s) (sp s')) by ring.
  apply dist2_nonneg. Qed.

(* the returned x is within sqrt(error_value) of the last y (a point produced by the FIRST projection) *)
Theorem xy_le_br k s : dist2 (sx (step k s)) (sy (step k s)) <= br F n s (step k s).
Proof. apply (k_trans F _ (dist2 (sq s) (sq (step k s)))); [|apply dq_le_br].
  assert (E : dist2 (sx (step k s)) (sy (step k s)) = dist2 (sq s) (sq (step k s))).
  { unfold dist2, C05_Dykstra.dist2, dot. apply sumn_ext; intros i Hi. unfold vsub.
    rewrite (step_xy PA PB k s i Hi). reflexivity. }
  rewrite E. apply k_refl. Qed.

(* gap^2 <= |p|^2 * error_value  (Cauchy-Schwarz; y - x = q_next - q_prev) *)
Theorem gap_le_br k s :
  gap F n (step k s) * gap F n (step k s) <= dot n (sp (step k s)) (sp (step k s)) * br F n s (step k s).
Proof. unfold gap.
  pose proof (cauchy_schwarz F n (sp (step k s)) (vsub (sy (step k s)) (sx (step k s)))) as CS.
  apply (k_trans F _ _ _ CS). apply mul_le_compat_nonneg.
  { unfold dot. apply sumn_nonneg; intros. apply sqr_nonneg. }
  apply (k_trans F _ (dist2 (sq s) (sq (step k s)))); [|apply dq_le_br].
  assert (E : dot n (vsub (sy (step k s)) (sx (step k s))) (vsub (sy (step k s)) (sx (step k s)))
              = dist2 (sq s) (sq (step k s))).
  { unfold dist2, C05_Dykstra.dist2, dot. apply sumn_ext; intros i Hi. unfold vsub.
    pose proof (step_xy PA PB k s i Hi) as X.
    replace (sy (step k s) i - sx (step k s) i) with (- (sx (step k s) i - sy (step k s) i)) by ring.
    rewrite X. ring. }
  rewrite E. apply k_refl. Qed.
End Stop.

(* ------------------------------------------------------------------ what a certificate says about DISTANCES *)
(* a point satisfying the variational inequality up to g is, in squared distance, within 2g of every feasible point
   (x itself need not be feasible here; with g <= 0 it is at least as near to x0 as every feasible point) *)
Theorem variational_near_optimal (C : vec -> Prop) (x0 x : vec) (g : F) :
  (forall z, C z -> dot n (vsub x0 x) (vsub z x) <= g) ->
  forall z, C z -> dist2 x0 x <= dist2 x0 z + (g + g).
Proof. intros Hc z Hz. pose proof (pythagoras_bound x0 x z g (Hc z Hz)) as P.
  pose proof (dist2_nonneg x z) as N.
  apply (proj2 (le_sub F _ _)). apply (proj1 (le_sub F _ _)) in P.
  replace (dist2 x0 z + (g + g) - dist2 x0 x)
    with ((dist2 x0 z - (dist2 x0 x + dist2 x z - (g + g))) + dist2 x z) by ring.
  now apply add_nonneg. Qed.

(* from the stopping quantity to the variational inequality itself: at the sweep that ends in s' = step k s_k (k >= 0, s_k the
   k-th iterate) with error_value e = br s_k s', every feasible z has  <x0 - x', z - x'>  either negative or, squared, at most
   |p'|^2 * e  — and  e < eps  at a stopping sweep.  (|p'| is a number of the run; no a-priori bound on it is proved.) *)
Theorem stopped_variational_sq (PA PB : nat -> vec -> vec) (A B : vec -> Prop) :
  obtuse A PA -> obtuse B PB -> forall x0 k z, A z -> B z ->
  let s := iter F frz PA PB k (init F frz x0) in
  let s' := step F frz PA PB k s in
  let c := dot n (vsub x0 (sx s')) (vsub z (sx s')) in
  0 <= c -> c * c <= dot n (sp s') (sp s') * br F n s s'.
Proof. intros oA oB x0 k z Az Bz s s' c Hc.
  pose proof (certificate PA PB A B oA oB x0 (S k) z ltac:(lia) Az Bz) as Hg. cbn [C05_Dykstra.iter] in Hg. fold s s' c in Hg.
  pose proof (gap_le_br PA PB k s) as Hb. fold s' in Hb.
  set (g := gap F n s') in *.
  assert (H0g : 0 <= g) by (apply (k_trans F _ _ _ Hc Hg)).
  apply (k_trans F _ (g * g)); [|exact Hb].
  apply (k_trans F _ (c * g)); [now apply mul_le_compat_nonneg|].
  replace (c * g) with (g * c) by ring. now apply mul_le_compat_nonneg. Qed.

Corollary stopped_variational_eps (PA PB : nat -> vec -> vec) (A B : vec -> Prop) eps :
  obtuse A PA -> obtuse B PB -> forall x0 k z, A z -> B z ->
  let s := iter F frz PA PB k (init F frz x0) in
  let s' := step F frz PA PB k s in
  let c := dot n (vsub x0 (sx s')) (vsub z (sx s')) in
  br F n s s' <= eps -> 0 <= c -> c * c <= dot n (sp s') (sp s') * eps.
Proof. intros oA oB x0 k z Az Bz s s' c He Hc.
  apply (k_trans F _ _ _ (stopped_variational_sq PA PB A B oA oB x0 k z Az Bz Hc)).
  apply mul_le_compat_nonneg; [|exact He]. unfold dot. apply sumn_nonneg; intros. apply sqr_nonneg. Qed.

Corollary variational_is_nearest (C : vec -> Prop) (x0 x : vec) :
  (forall z, C z -> dot n (vsub x0 x) (vsub z x) <= 0) ->
  forall z, C z -> dist2 x0 x <= dist2 x0 z.
Proof. intros Hc z Hz. pose proof (variational_near_optimal C x0 x 0 Hc z Hz) as T.
  replace (dist2 x0 z + (0 + 0)) with (dist2 x0 z) in T by ring. exact T. Qed.

Lemma nonneg_sum_zero a b : 0 <= a -> 0 <= b -> a + b = 0 -> a = 0 /\ b = 0.
Proof. intros Ha Hb E.
  assert (Ea : 0 - a = b). { transitivity (a + b - a); [now rewrite E|ring]. }
  assert (Eb : 0 - b = a). { transitivity (a + b - b); [now rewrite E|ring]. }
  split; apply (k_antisym F); try assumption; apply (proj2 (le_sub F _ _)).
  - rewrite Ea. exact Hb.
  - rewrite Eb. exact Ha. Qed.

Lemma sumn_sqr_zero m (f : nat -> F) : sumn m (fun i => f i * f i) = 0 -> forall i, (i < m)%nat -> f i = 0.
Proof. induction m as [|m IH]; intros H i Hi; [lia|]. cbn [sumn] in H.
  assert (A : 0 <= sumn m (fun i => f i * f i)) by (apply sumn_nonneg; intros; apply sqr_nonneg).
  destruct (nonneg_sum_zero _ _ A (sqr_nonneg F (f m)) H) as [H1 H2].
  destruct (Nat.eq_dec i m) as [->|Hne].
  - apply (sum_sqr_zero F (f m) 0). rewrite H2. ring.
  - apply IH; [exact H1|lia]. Qed.

Lemma dist2_zero_veq (a b : vec) : dist2 a b <= 0 -> veq n a b.
Proof. intros H. assert (E : dist2 a b = 0) by (apply (k_antisym F); [exact H|apply dist2_nonneg]).
  unfold dist2, C05_Dykstra.dist2, dot in E. intros i Hi.
  pose proof (sumn_sqr_zero n (vsub a b) E i Hi) as Z. unfold vsub in Z.
  replace (a i) with (a i - b i + b i) by ring. rewrite Z. ring. Qed.

(* THE nearest point: two feasible points that both satisfy the (exact) variational inequality coincide on [0, n) *)
Theorem nearest_unique (C : vec -> Prop) (x0 x x' : vec) :
  (forall z, C z -> dot n (vsub x0 x) (vsub z x) <= 0) ->
  (forall z, C z -> dot n (vsub x0 x') (vsub z x') <= 0) -> C x -> C x' -> veq n x x'.
Proof. intros H1 H2 Hx Hx'. apply dist2_zero_veq.
  pose proof (two_runs_agree_feasible C x0 x x' 0 0 H1 H2 Hx Hx') as T.
  replace (0 + 0) with 0 in T by ring. exact T. Qed.

(* a Dykstra iterate that is itself feasible and whose gap is <= 0 IS a nearest feasible point (and by
   nearest_unique the only one) — the exact-arithmetic statement behind "nearest up to the accuracy of the threshold" *)
Theorem feasible_iterate_is_nearest (PA PB : nat -> vec -> vec) (A B : vec -> Prop) :
  obtuse A PA -> obtuse B PB -> forall x0 k, (1 <= k)%nat ->
  gap F n (iter F frz PA PB k (init F frz x0)) <= 0 ->
  forall z, A z -> B z -> dist2 x0 (sx (iter F frz PA PB k (init F frz x0))) <= dist2 x0 z.
Proof. intros oA oB x0 k Hk Hg z Az Bz.
  apply (variational_is_nearest (fun z => A z /\ B z)); [|split; assumption].
  intros z' [Az' Bz']. apply (k_trans F _ _ _ (certificate PA PB A B oA oB x0 k z' Hk Az' Bz') Hg). Qed.

(* ------------------------------------------------------------------ feasible inputs are fixed points *)
Section Fixed.
Context (PA PB : nat -> vec -> vec) (x0 : vec).
Hypothesis fixA : forall k u, veq n u x0 -> veq n (PA k u) x0.
Hypothesis fixB : forall k u, veq n u x0 -> veq n (PB k u) x0.
Notation step := (step F frz PA PB).
Notation iter := (iter F frz PA PB).

Definition at_fix (s : dstate F) := veq n (sx s) x0 /\ veq n (sp s) vzero /\ veq n (sq s) vzero.

Lemma step_fix k s : at_fix s -> at_fix (step k s) /\ veq n (sy (step k s)) x0.
Proof. intros (Hx & Hp & Hq).
  assert (Hu : veq n (arg_first F frz s) x0).
  { intros i Hi. rewrite arg_first_spec, Hx, Hp by exact Hi. unfold vzero. ring. }
  assert (Hy : veq n (sy (step k s)) x0).
  { intros i Hi. rewrite step_y by exact Hi. now apply fixA. }
  assert (Hv : veq n (arg_second F frz s (step k s)) x0).
  { intros i Hi. rewrite arg_second_spec, Hy, Hq by exact Hi. unfold vzero. ring. }
  assert (Hx' : veq n (sx (step k s)) x0).
  { intros i Hi. rewrite step_x by exact Hi. now apply fixB. }
  repeat split; try assumption.
  - intros i Hi. rewrite step_p, Hx, Hp, Hy by exact Hi. unfold vzero. ring.
  - intros i Hi. rewrite step_q, Hy, Hq, Hx' by exact Hi. unfold vzero. ring. Qed.

Theorem fixed_point k : at_fix (iter k (init F frz x0)).
Proof. induction k as [|k IH].
  - unfold at_fix. cbn [C05_Dykstra.iter init sx sp sq]. repeat split; intros i Hi; try reflexivity. now apply frz_spec.
  - cbn [C05_Dykstra.iter]. now apply step_fix. Qed.

Lemma br_fix s s' : at_fix s -> at_fix s' -> br F n s s' = 0.
Proof. intros (_ & Hp & Hq) (_ & Hp' & Hq'). unfold br, sqr. apply sumn_zero'. intros i Hi.
  rewrite Hp, Hp', Hq, Hq' by exact Hi. unfold vzero. ring. Qed.
End Fixed.

(* ------------------------------------------------------------------ the loop and its history *)
Section Loop.
Context (PA PB : nat -> vec -> vec) (eps : F) (s0 : dstate F).
Notation step := (step F frz PA PB).
Notation iter := (iter F frz PA PB).
Notation loop := (loop F n frz PA PB eps).

Definition it (j : nat) : dstate F := iter j s0.
Definition errf (j : nat) : option F := if (1 <=? j)%nat then Some (br F n (it j) (it (S j))) else None.
Definition stops_at (j : nat) : bool := match errf j with Some v => ltb F v eps | None => false end.

Record loop_post (k fuel : nat) (r : runres F) : Prop := {
  lp_lo : (k + (if fuel then 0 else 1) <= r_steps r)%nat;
  lp_hi : (r_steps r <= k + fuel)%nat;
  lp_final : r_final r = it (r_steps r);
  lp_hist : r_hist r = map it (seq 0 (S (r_steps r)));
  lp_errs : r_errs r = map errf (seq 0 (r_steps r));
  lp_stop : r_stopped r = true -> (k < r_steps r)%nat /\ stops_at (r_steps r - 1) = true;
  lp_fuel : r_stopped r = false -> r_steps r = (k + fuel)%nat;
  lp_nomiss : forall j, (k <= j)%nat -> (S j < r_steps r)%nat -> stops_at j = false }.

Lemma loop_spec fuel : forall k,
  loop_post k fuel (loop fuel k (it k) (map it (seq 0 (S k))) (map errf (seq 0 k))).
Proof. induction fuel as [|f IH]; intros k.
  - cbn [C05_Dykstra.loop]. constructor; cbn [r_steps r_final r_hist r_errs r_stopped]; try reflexivity; try lia; try discriminate; intros; lia.
  - cbn [C05_Dykstra.loop].
    assert (Hs : step k (it k) = it (S k)) by reflexivity. rewrite Hs.
    assert (He : (if (1 <=? k)%nat then Some (br F n (it k) (it (S k))) else None) = errf k) by reflexivity.
    rewrite He.
    assert (Hh : map it (seq 0 (S k)) ++ [it (S k)] = map it (seq 0 (S (S k)))).
    { rewrite (seq_S (S k) 0), map_app. reflexivity. }
    assert (Hr : map errf (seq 0 k) ++ [errf k] = map errf (seq 0 (S k))).
    { rewrite (seq_S k 0), map_app. reflexivity. }
    rewrite Hh, Hr. fold (stops_at k). destruct (stops_at k) eqn:Est.
    + constructor; cbn [r_steps r_final r_hist r_errs r_stopped]; try reflexivity; try lia; try discriminate;
        try (intros _; split; [lia|]; replace (S k - 1)%nat with k by lia; exact Est); intros; lia.
    + destruct (IH (S k)) as [a b c d e g h i]. constructor; try assumption; try lia.
      * intros T. destruct (g T) as [g1 g2]. split; [lia|exact g2].
      * intros T. rewrite (h T). lia.
      * intros j Hj1 Hj2. destruct (Nat.eq_dec j k) as [->|Hne]; [exact Est|]. apply i; lia. Qed.

(* a run that ended through `break` does not depend on how much fuel was left *)
Lemma loop_fuel_mono f : forall f' k s h e, (f <= f')%nat ->
  r_stopped (loop f k s h e) = true -> loop f' k s h e = loop f k s h e.
Proof. induction f as [|f IH]; intros f' k s h e Hf Hs.
  - cbn in Hs. discriminate.
  - destruct f' as [|f']; [lia|]. cbn [C05_Dykstra.loop] in *.
    destruct (match (if (1 <=? k)%nat then Some (br F n s (step k s)) else None) with
              | Some v => ltb F v eps | None => false end); [reflexivity|].
    apply IH; [lia|exact Hs]. Qed.
End Loop.

Theorem run_history (PA PB : nat -> vec -> vec) eps max_iter x0 :
  (1 <= max_iter)%nat ->
  exists r, run_dykstra F n frz PA PB eps max_iter x0 = Some r /\
    (1 <= r_steps r <= max_iter)%nat /\
    r_final r = iter F frz PA PB (r_steps r) (init F frz x0) /\
    r_hist r = map (fun j => iter F frz PA PB j (init F frz x0)) (seq 0 (S (r_steps r))) /\
    r_errs r = map (errf PA PB (init F frz x0)) (seq 0 (r_steps r)) /\
    last (r_hist r) (init F frz x0) = r_final r /\
    (r_stopped r = true -> (2 <= r_steps r)%nat /\ stops_at PA PB eps (init F frz x0) (r_steps r - 1) = true) /\
    (r_stopped r = false -> r_steps r = max_iter) /\
    (forall j, (S j < r_steps r)%nat -> stops_at PA PB eps (init F frz x0) j = false).
Proof. intros Hm. destruct max_iter as [|m]; [lia|]. cbn [run_dykstra].
  eexists; split; [reflexivity|].
  pose proof (loop_spec PA PB eps (init F frz x0) (S m) 0) as L. cbn [seq map] in L.
  change (it PA PB (init F frz x0) 0) with (init F frz x0) in L.
  destruct L as [a b c d e g h i].
  set (r := loop F n frz PA PB eps (S m) 0 (init F frz x0) [init F frz x0] []) in *.
  repeat split; try assumption; try lia.
  - rewrite d. rewrite c. rewrite (seq_S (r_steps r) 0), map_app. cbn [map]. now rewrite last_last.
  - destruct (g H) as [g1 g2]. destruct (r_steps r) as [|[|t]] eqn:Et; try lia.
    cbn in g2. unfold stops_at, errf in g2. cbn in g2. discriminate.
  - apply g. exact H.
  - intros j Hj. apply i; lia. Qed.

(* ------------------------------------------------------------------ capping the fuel (what the executed op c05.run relies on) *)
Lemma loop_unstopped_steps (PA PB : nat -> vec -> vec) eps fuel : forall k s h e,
  r_stopped (loop F n frz PA PB eps fuel k s h e) = false -> r_steps (loop F n frz PA PB eps fuel k s h e) = (k + fuel)%nat.
Proof. induction fuel as [|f IH]; intros k s h e H; cbn [loop] in *; [cbn; lia|].
  destruct (match (if (1 <=? k)%nat then Some (br F n s (step F frz PA PB k s)) else None) with
            | Some v => ltb F v eps | None => false end); [cbn in H; discriminate|].
  rewrite (IH _ _ _ _ H). lia. Qed.

(* a run made with the fuel capped at S K that used at most K sweeps is THE run with the full fuel: either the cap was not
   active, or the loop left through `break`, and then the remaining fuel is irrelevant *)
Theorem run_fuel_cap (PA PB : nat -> vec -> vec) eps max_iter K x0 r :
  run_dykstra F n frz PA PB eps (Nat.min max_iter (S K)) x0 = Some r -> (r_steps r <= K)%nat ->
  run_dykstra F n frz PA PB eps max_iter x0 = Some r.
Proof. intros Hr Hs. destruct (Nat.le_gt_cases max_iter (S K)) as [Hle|Hgt].
  - now rewrite (Nat.min_l _ _ Hle) in Hr.
  - rewrite (Nat.min_r _ _ (Nat.lt_le_incl _ _ Hgt)) in Hr.
    change (run_dykstra F n frz PA PB eps (S K) x0)
      with (Some (loop F n frz PA PB eps (S K) 0 (init F frz x0) [init F frz x0] [])) in Hr.
    remember (loop F n frz PA PB eps (S K) 0 (init F frz x0) [init F frz x0] []) as L eqn:EL.
    assert (Er : L = r) by congruence. subst r. clear Hr.
    destruct max_iter as [|m]; [lia|].
    change (run_dykstra F n frz PA PB eps (S m) x0)
      with (Some (loop F n frz PA PB eps (S m) 0 (init F frz x0) [init F frz x0] [])). f_equal. rewrite EL.
    apply loop_fuel_mono; [lia|]. rewrite <- EL.
    destruct (r_stopped L) eqn:E; [reflexivity|]. exfalso. rewrite EL in E.
    pose proof (loop_unstopped_steps PA PB eps (S K) 0 _ _ _ E) as T. rewrite <- EL in T. lia. Qed.

(* already-physical input: every iterate equals the input, p = q = 0, and the loop stops after exactly two sweeps *)
Theorem run_fixed_point (PA PB : nat -> vec -> vec) eps max_iter x0 :
  (forall k u, veq n u x0 -> veq n (PA k u) x0) -> (forall k u, veq n u x0 -> veq n (PB k u) x0) ->
  (2 <= max_iter)%nat -> ltb F 0 eps = true ->
  exists r, run_dykstra F n frz PA PB eps max_iter x0 = Some r /\ r_stopped r = true /\ r_steps r = 2%nat /\
    at_fix x0 (r_final r) /\ r_errs r = [None; Some 0].
Proof. intros fA fB Hm He.
  destruct (run_history PA PB eps max_iter x0 ltac:(lia)) as (r & Hr & Hst & Hf & Hh & Her & Hl & Hs & Hnf & Hno).
  exists r. split; [exact Hr|].
  assert (B1 : br F n (iter F frz PA PB 1 (init F frz x0)) (iter F frz PA PB 2 (init F frz x0)) = 0).
  { apply (br_fix x0); apply (fixed_point PA PB x0 fA fB). }
  assert (S1 : stops_at PA PB eps (init F frz x0) 1 = true).
  { unfold stops_at, errf, it. cbn [Nat.leb]. rewrite B1. exact He. }
  assert (St : r_steps r = 2%nat).
  { destruct (Nat.lt_ge_cases 2 (r_steps r)) as [G|G].
    - pose proof (Hno 1%nat ltac:(lia)) as N. congruence.
    - destruct (r_stopped r) eqn:E.
      + destruct (Hs eq_refl). lia.
      + rewrite (Hnf eq_refl) in *. lia. }
  assert (Sp : r_stopped r = true).
  { destruct (r_stopped r) eqn:E; [reflexivity|]. pose proof (Hnf eq_refl) as X.
    (* out of fuel with max_iter = 2: the test of sweep 1 succeeded, so the code did break *)
    exfalso. clear Hs Hno.
    unfold run_dykstra in Hr. destruct max_iter as [|[|[|m]]]; try lia.
    injection Hr as Hr. rewrite <- Hr in E. cbn [C05_Dykstra.loop Nat.leb] in E.
    change (C05_Dykstra.step F frz PA PB 0 (init F frz x0)) with (iter F frz PA PB 1 (init F frz x0)) in E.
    change (C05_Dykstra.step F frz PA PB 1 (iter F frz PA PB 1 (init F frz x0))) with (iter F frz PA PB 2 (init F frz x0)) in E.
    rewrite B1, He in E. cbn in E. discriminate. }
  repeat split; try assumption.
  - rewrite Hf, St. apply (fixed_point PA PB x0 fA fB).
  - rewrite Hf, St. apply (fixed_point PA PB x0 fA fB).
  - rewrite Hf, St. apply (fixed_point PA PB x0 fA fB).
  - rewrite Her, St. cbn [seq map]. unfold errf, it. cbn [Nat.leb]. now rewrite B1. Qed.

(* ------------------------------------------------------------------ both values of mode_proj_order *)
Section Modes.
Context (Peq Pineq : nat -> vec -> vec) (E I : vec -> Prop).
Hypothesis obE : obtuse E Peq.
Hypothesis obI : obtuse I Pineq.

Theorem invariant_mode (b : bool) x0 k : forall i, (i < n)%nat ->
  sx (iter_mode F frz Peq Pineq b k (init F frz x0)) i + sp (iter_mode F frz Peq Pineq b k (init F frz x0)) i
    + sq (iter_mode F frz Peq Pineq b k (init F frz x0)) i = x0 i.
Proof. unfold iter_mode. apply invariant. Qed.

Theorem certificate_mode (b : bool) x0 k z : (1 <= k)%nat -> E z -> I z ->
  dot n (vsub x0 (sx (iter_mode F frz Peq Pineq b k (init F frz x0)))) (vsub z (sx (iter_mode F frz Peq Pineq b k (init F frz x0))))
    <= gap F n (iter_mode F frz Peq Pineq b k (init F frz x0)).
Proof. intros Hk Ez Iz. unfold iter_mode. destruct b; cbn [first_proj second_proj].
  - now apply (certificate Peq Pineq E I obE obI).
  - now apply (certificate Pineq Peq I E obI obE). Qed.

(* the two orders, stopped anywhere (k, k' >= 1): both iterates satisfy the certificate for the SAME set E /\ I,
   hence (two_runs_agree) they differ by at most their gaps plus infeasibilities *)
Theorem orders_agree x0 k k' (w w' : vec) : (1 <= k)%nat -> (1 <= k')%nat -> E w -> I w -> E w' -> I w' ->
  let s := iter_mode F frz Peq Pineq true k (init F frz x0) in
  let s' := iter_mode F frz Peq Pineq false k' (init F frz x0) in
  dist2 (sx s) (sx s') <= gap F n s + gap F n s' + dot n (vsub x0 (sx s)) (vsub (sx s') w')
                          + dot n (vsub x0 (sx s')) (vsub (sx s) w).
Proof. intros Hk Hk' Ew Iw Ew' Iw' s s'.
  apply (two_runs_agree (fun z => E z /\ I z)); try (split; assumption).
  - intros z [Ez Iz]. now apply (certificate_mode true).
  - intros z [Ez Iz]. now apply (certificate_mode false). Qed.
End Modes.
End Proofs.
