(* C07 — the qutrit -> two-qubit embedding  X |-> Pi (X (+) c I) Pi^T : a multiplicative map (hence Kraus sets of embedded maps
   act on embedded inputs as the original maps, TP is preserved when m c^2 = 1), trace and inner products of embedded
   operands, positive semidefiniteness (real symmetric form: block diagonal + permutation congruence). *)
From Coq Require Import Arith List Bool Lia Ring.
From QV.Core Require Import OF Sums Mat Psd.
From QV.Model Require Import C07_Tensor C07_Embed.
From QV.Proofs Require Import C07_Kron.
Import ListNotations.

(* s is a bijection of [0,n) with inverse t *)
Definition bij (n : nat) (s t : nat -> nat) : Prop :=
  (forall i, (i < n)%nat -> (s i < n)%nat /\ t (s i) = i) /\ (forall i, (i < n)%nat -> (t i < n)%nat /\ s (t i) = i).

Section Embed.
Context {R : CR}.
Add Ring Re7 : (c_ring R).
Notation "0" := (c0 R). Notation "1" := (c1 R).
Infix "+" := (cadd R). Infix "*" := (cmul R).
Local Notation mat := (@Mat.mat R).

Lemma sumn_bij n s t (f : nat -> R) : bij n s t -> sumn n (fun a => f (s a)) = sumn n f.
Proof. intros [Hs Ht].
  rewrite (sumn_ext n _ (fun a => sumn n (fun i => if Nat.eqb i (s a) then f i else 0))).
  2:{ intros a Ha. symmetry. apply sumn_delta. now apply Hs. }
  rewrite sumn_swap. apply sumn_ext; intros i Hi.
  rewrite (sumn_ext n _ (fun a => if Nat.eqb a (t i) then f i else 0)).
  2:{ intros a Ha. destruct (Nat.eqb_spec i (s a)) as [E|NE].
      - subst i. destruct (Hs a Ha) as [_ ->]. now rewrite Nat.eqb_refl.
      - destruct (Nat.eqb_spec a (t i)) as [E|_]; [|reflexivity]. subst a. destruct (Ht i Hi) as [_ E]. congruence. }
  rewrite (sumn_delta n (t i) (fun _ => f i)); [reflexivity|]. now apply Ht. Qed.

Lemma embed_fast_eq n4 n3 s t c (M : mat) : bij n4 s t -> meq n4 n4 (embed_mat n4 n3 s c M) (embed_fast n3 s c M).
Proof. intros [Hs _] a b Ha Hb. unfold embed_mat, embed_fast.
  rewrite mmul_pmat_rT by (now apply Hs). rewrite mmul_pmat_l by (now apply Hs). reflexivity. Qed.

(* block matrices multiply blockwise *)
Lemma emb_block_mmul n3 k c1 c2 (A B : mat) : forall i j, (i < n3 + k)%nat -> (j < n3 + k)%nat ->
  mmul (n3 + k) (emb_block n3 c1 A) (emb_block n3 c2 B) i j = emb_block n3 (c1 * c2) (mmul n3 A B) i j.
Proof. intros i j Hi Hj. unfold mmul. rewrite sumn_app. unfold emb_block.
  destruct (Nat.ltb_spec i n3) as [Hi3|Hi3].
  - rewrite (sumn_zero' k). 2:{ intros m _. destruct (Nat.ltb_spec (n3 + m) n3); [lia|]. ring. }
    destruct (Nat.ltb_spec j n3) as [Hj3|Hj3].
    + rewrite (sumn_ext n3 _ (fun l => A i l * B l j)). 2:{ intros l Hl. destruct (Nat.ltb_spec l n3); [reflexivity|lia]. } ring.
    + rewrite sumn_zero'. 2:{ intros l Hl. destruct (Nat.ltb_spec l n3); [ring|lia]. } ring.
  - rewrite (sumn_zero' n3). 2:{ intros l Hl. destruct (Nat.ltb_spec l n3); [|lia]. destruct (Nat.eqb_spec i l); [lia|ring]. }
    rewrite (sumn_ext k _ (fun m => if Nat.eqb m (i - n3) then (if Nat.eqb i j then c1 * c2 else 0) else 0)).
    2:{ intros m Hm. destruct (Nat.ltb_spec (n3 + m) n3); [lia|].
        destruct (Nat.eqb_spec i (n3 + m)) as [E|NE].
        - destruct (Nat.eqb_spec m (i - n3)); [|lia]. rewrite <- E. destruct (Nat.eqb i j); ring.
        - destruct (Nat.eqb_spec m (i - n3)); [lia|]. ring. }
    rewrite (sumn_delta k (i - n3) (fun _ => if Nat.eqb i j then c1 * c2 else 0)) by lia.
    destruct (Nat.ltb_spec j n3) as [Hj3|Hj3]; [|ring]. destruct (Nat.eqb_spec i j); [lia|ring]. Qed.

(* the embedding is multiplicative: emb_c1(A) emb_c2(B) = emb_(c1 c2)(A B) *)
Theorem embed_mmul n3 k s t c1 c2 (A B : mat) : bij (n3 + k) s t ->
  meq (n3 + k) (n3 + k) (mmul (n3 + k) (embed_fast n3 s c1 A) (embed_fast n3 s c2 B)) (embed_fast n3 s (c1 * c2) (mmul n3 A B)).
Proof. intros Hb a b Ha Hb'. unfold embed_fast at 3. destruct Hb as [Hs Ht].
  rewrite <- (emb_block_mmul n3 k c1 c2 A B (s a) (s b)) by (now apply Hs). unfold mmul, embed_fast.
  apply (sumn_bij (n3 + k) s t (fun m => emb_block n3 c1 A (s a) m * emb_block n3 c2 B m (s b))). now split. Qed.
Lemma embed_madd n3 s c1 c2 (A B : mat) i j :
  madd (embed_fast n3 s c1 A) (embed_fast n3 s c2 B) i j = embed_fast n3 s (c1 + c2) (madd A B) i j.
Proof. unfold madd, embed_fast, emb_block. destruct (s i <? n3)%nat; [destruct (s j <? n3)%nat; ring|destruct (Nat.eqb (s i) (s j)); ring]. Qed.
Lemma embed_mT n3 s c (A : mat) i j : mT (embed_fast n3 s c A) i j = embed_fast n3 s c (mT A) i j.
Proof. unfold mT, embed_fast, emb_block.
  destruct (Nat.ltb_spec (s i) n3), (Nat.ltb_spec (s j) n3); try reflexivity.
  - destruct (Nat.eqb_spec (s j) (s i)); [lia|reflexivity].
  - destruct (Nat.eqb_spec (s i) (s j)); [lia|reflexivity].
  - now rewrite Nat.eqb_sym. Qed.
(* the embedded identity with coefficient 1 is the identity *)
Lemma embed_id n3 k s t : bij (n3 + k) s t -> meq (n3 + k) (n3 + k) (embed_fast n3 s 1 mid) mid.
Proof. intros [Hs Ht] a b Ha Hb. unfold embed_fast, emb_block, mid.
  assert (Inj : s a = s b -> a = b).
  { intros E. destruct (Hs a Ha) as [_ <-]. destruct (Hs b Hb) as [_ <-]. now rewrite E. }
  destruct (Nat.eqb_spec a b) as [->|NE].
  - rewrite Nat.eqb_refl. destruct (s b <? n3)%nat; reflexivity.
  - destruct (Nat.eqb_spec (s a) (s b)) as [E|_]; [now apply Inj in E|].
    destruct (s a <? n3)%nat; [destruct (s b <? n3)%nat|]; reflexivity. Qed.

(* trace *)
Lemma mtrace_block n3 k c (A : mat) : mtrace (n3 + k) (emb_block n3 c A) = mtrace n3 A + sumn k (fun _ => c).
Proof. unfold mtrace. rewrite sumn_app. f_equal.
  - apply sumn_ext; intros i Hi. unfold emb_block. destruct (Nat.ltb_spec i n3); [reflexivity|lia].
  - apply sumn_ext; intros m _. unfold emb_block. destruct (Nat.ltb_spec (n3 + m) n3); [lia|]. now rewrite Nat.eqb_refl. Qed.
Theorem embed_trace n3 k s t c (A : mat) : bij (n3 + k) s t ->
  mtrace (n3 + k) (embed_fast n3 s c A) = mtrace n3 A + sumn k (fun _ => c).
Proof. intros Hb. rewrite <- mtrace_block. unfold mtrace, embed_fast.
  apply (sumn_bij (n3 + k) s t (fun m => emb_block n3 c A m m) Hb). Qed.
Lemma sumn_const0 k : sumn k (fun _ => 0) = 0. Proof. apply sumn_zero. Qed.

(* statistics of embedded inputs: tr(emb_cE(E) emb_0(rho)) = tr(E rho); emb_c(K) emb_0(rho) emb_c'(K') = emb_0(K rho K') *)
Theorem embed_statistics n3 k s t cE (E rho : mat) : bij (n3 + k) s t ->
  mtrace (n3 + k) (mmul (n3 + k) (embed_fast n3 s cE E) (embed_fast n3 s 0 rho)) = mtrace n3 (mmul n3 E rho).
Proof. intros Hb. rewrite (mtrace_ext _ _ _ (embed_mmul n3 k s t cE 0 E rho Hb)).
  rewrite (embed_trace n3 k s t _ _ Hb). replace (cE * 0) with 0 by ring. rewrite sumn_const0. ring. Qed.
Theorem embed_kraus_action n3 k s t c c' (K rho K' : mat) : bij (n3 + k) s t ->
  meq (n3 + k) (n3 + k)
    (mmul (n3 + k) (mmul (n3 + k) (embed_fast n3 s c K) (embed_fast n3 s 0 rho)) (embed_fast n3 s c' K'))
    (embed_fast n3 s 0 (mmul n3 (mmul n3 K rho) K')).
Proof. intros Hb.
  eapply meq_trans; [apply mmul_ext; [apply (embed_mmul n3 k s t c 0 K rho Hb)|apply meq_refl]|].
  eapply meq_trans; [apply (embed_mmul n3 k s t _ c' _ K' Hb)|].
  replace (c * 0 * c') with 0 by ring. apply meq_refl. Qed.
End Embed.

(* ---- positive semidefiniteness (real symmetric form over an ordered field) *)
Section EmbedPsd.
Context (F : OF).
Add Field Ffe7 : (k_field F).
Notation "0" := (c0 F). Notation "1" := (c1 F).
Infix "+" := (cadd F). Infix "*" := (cmul F). Infix "<=" := (kle F).

Lemma sumn_nonneg n (f : nat -> F) : (forall i, (i < n)%nat -> 0 <= f i) -> 0 <= sumn n f.
Proof. induction n as [|n IH]; intros H; cbn; [apply k_refl|]. apply add_nonneg; [apply IH; intros; apply H; lia|apply H; lia]. Qed.

Lemma qf_block n3 k c (M : @mat F) x : qf F (n3 + k) (emb_block n3 c M) x = qf F n3 M x + c * sumn k (fun m => x (n3 + m)%nat * x (n3 + m)%nat).
Proof. unfold qf. rewrite sumn_app. f_equal.
  - apply sumn_ext; intros i Hi. rewrite sumn_app.
    rewrite (sumn_zero' k). 2:{ intros m _. unfold emb_block. destruct (Nat.ltb_spec i n3); [|lia]. destruct (Nat.ltb_spec (n3 + m) n3); [lia|]. ring. }
    rewrite (sumn_ext n3 _ (fun j => x i * M i j * x j)).
    2:{ intros j Hj. unfold emb_block. destruct (Nat.ltb_spec i n3); [|lia]. destruct (Nat.ltb_spec j n3); [reflexivity|lia]. } ring.
  - rewrite <- sumn_scale_l. apply sumn_ext; intros m Hm. rewrite sumn_app.
    rewrite (sumn_zero' n3). 2:{ intros j Hj. unfold emb_block. destruct (Nat.ltb_spec (n3 + m) n3); [lia|]. destruct (Nat.eqb_spec (n3 + m) j); [lia|ring]. }
    rewrite (sumn_ext k _ (fun m' => if Nat.eqb m' m then x (n3 + m)%nat * c * x (n3 + m)%nat else 0)).
    2:{ intros m' Hm'. unfold emb_block. destruct (Nat.ltb_spec (n3 + m) n3); [lia|].
        destruct (Nat.eqb_spec (n3 + m) (n3 + m')) as [E|NE].
        - assert (m' = m) by lia. subst m'. now rewrite Nat.eqb_refl.
        - destruct (Nat.eqb_spec m' m); [lia|ring]. }
    rewrite (sumn_delta k m (fun _ => x (n3 + m)%nat * c * x (n3 + m)%nat)) by exact Hm. ring. Qed.

(* block diagonal + permutation congruence preserves PSD *)
Theorem embed_psd n3 k s t c (M : @mat F) : bij (n3 + k) s t -> PSD F n3 M -> 0 <= c ->
  PSD F (n3 + k) (embed_fast n3 s c M).
Proof. intros Hb HM Hc x. unfold qf, embed_fast.
  assert (Hb' : bij (n3 + k) t s) by (destruct Hb; now split).
  (* substitute y = x o t *)
  rewrite (sumn_ext (n3 + k) _ (fun a => sumn (n3 + k) (fun j => x (t (s a)) * emb_block n3 c M (s a) j * x (t j)))).
  2:{ intros a Ha. destruct Hb as [Hs Ht]. destruct (Hs a Ha) as [_ ->].
      rewrite <- (@sumn_bij F (n3 + k) s t (fun j => x a * emb_block n3 c M (s a) j * x (t j))) by (now split).
      apply sumn_ext; intros b Hb2. now destruct (Hs b Hb2) as [_ ->]. }
  rewrite (@sumn_bij F (n3 + k) s t (fun i => sumn (n3 + k) (fun j => x (t i) * emb_block n3 c M i j * x (t j))) Hb).
  change (0 <= qf F (n3 + k) (emb_block n3 c M) (fun i => x (t i))). rewrite qf_block.
  apply add_nonneg; [apply HM|]. apply k_mul; [exact Hc|]. apply sumn_nonneg. intros; apply sqr_nonneg. Qed.
End EmbedPsd.

(* ---- trace preservation of embedded Kraus sets, the concrete permutation *)
Section EmbedTP.
Context {R : CR}.
Add Ring Re7b : (c_ring R).
Notation "0" := (c0 R). Notation "1" := (c1 R).
Infix "+" := (cadd R). Infix "*" := (cmul R).
Local Notation mat := (@Mat.mat R).

(* sum_k A_k B_k  for a list of pairs (A_k, B_k)  (A_k = K_k^dagger, B_k = K_k) *)
Fixpoint sum_prod (n : nat) (l : list (mat * mat)) : mat :=
  match l with [] => mzero | p :: r => madd (mmul n (fst p) (snd p)) (sum_prod n r) end.
Fixpoint nsum (n : nat) (c : R) : R := match n with O => 0 | S k => c + nsum k c end.
Lemma embed_ext n3 s c (M M' : mat) : meq n3 n3 M M' -> forall i j, embed_fast n3 s c M i j = embed_fast n3 s c M' i j.
Proof. intros H i j. unfold embed_fast, emb_block.
  destruct (Nat.ltb_spec (s i) n3); [|reflexivity]. destruct (Nat.ltb_spec (s j) n3); [|reflexivity]. now apply H. Qed.
Theorem embed_sum_prod n3 k s t c' c (l : list (mat * mat)) : bij (n3 + k) s t ->
  meq (n3 + k) (n3 + k)
    (sum_prod (n3 + k) (map (fun p => (embed_fast n3 s c' (fst p), embed_fast n3 s c (snd p))) l))
    (embed_fast n3 s (nsum (length l) (c' * c)) (sum_prod n3 l)).
Proof. intros Hb. induction l as [|p r IH]; intros i j Hi Hj; cbn [map sum_prod length nsum fst snd].
  - unfold mzero, embed_fast, emb_block. destruct (s i <? n3)%nat; [destruct (s j <? n3)%nat|destruct (Nat.eqb (s i) (s j))]; reflexivity.
  - rewrite <- embed_madd. unfold madd. rewrite IH by assumption. f_equal. now apply embed_mmul with (t := t). Qed.
(* if sum_k K_k^dagger K_k = I and m c' c = 1 then the embedded Kraus set is trace preserving as well *)
Theorem embed_tp n3 k s t c' c (l : list (mat * mat)) : bij (n3 + k) s t ->
  meq n3 n3 (sum_prod n3 l) mid -> nsum (length l) (c' * c) = 1 ->
  meq (n3 + k) (n3 + k) (sum_prod (n3 + k) (map (fun p => (embed_fast n3 s c' (fst p), embed_fast n3 s c (snd p))) l)) mid.
Proof. intros Hb Hsum Hc. eapply meq_trans; [now apply embed_sum_prod with (t := t)|]. rewrite Hc.
  intros i j Hi Hj. rewrite (embed_ext n3 s 1 _ mid Hsum). now apply (embed_id n3 k s t Hb). Qed.
(* instruments: one Kraus list PER OUTCOME (any lengths, possibly different): the padding coefficient must make the TOTAL number of
   Kraus operators over all outcomes times c' c equal to one (MProcess: c' = c = 1 / sqrt(total Kraus count)) *)
Lemma length_concat_sum {A : Type} (ls : list (list A)) : length (concat ls) = list_sum (map (@length A) ls).
Proof. induction ls as [|l ls IH]; cbn; [reflexivity|]. now rewrite app_length, IH. Qed.
Theorem embed_tp_instrument n3 k s t c' c (ls : list (list (mat * mat))) : bij (n3 + k) s t ->
  meq n3 n3 (sum_prod n3 (concat ls)) mid -> nsum (list_sum (map (@length _) ls)) (c' * c) = 1 ->
  meq (n3 + k) (n3 + k)
    (sum_prod (n3 + k) (concat (map (map (fun p => (embed_fast n3 s c' (fst p), embed_fast n3 s c (snd p)))) ls))) mid.
Proof. intros Hb Hsum Hc. rewrite <- concat_map. rewrite <- length_concat_sum in Hc. now apply embed_tp with (t := t). Qed.
(* ... and only then: with at least one padded dimension (k > 0), an embedded set that sums to the identity forces m c' c = 1 *)
Theorem embed_tp_only_if n3 k s t c' c (l : list (mat * mat)) : bij (n3 + k) s t -> (0 < k)%nat ->
  meq (n3 + k) (n3 + k) (sum_prod (n3 + k) (map (fun p => (embed_fast n3 s c' (fst p), embed_fast n3 s c (snd p))) l)) mid ->
  nsum (length l) (c' * c) = 1.
Proof. intros Hb Hk H. pose proof (embed_sum_prod n3 k s t c' c l Hb) as E.
  destruct Hb as [Hs Ht]. assert (Hn : (n3 < n3 + k)%nat) by lia.
  destruct (Ht n3 Hn) as [Ha Hsa]. specialize (H (t n3) (t n3) Ha Ha). specialize (E (t n3) (t n3) Ha Ha).
  rewrite E in H. unfold embed_fast, emb_block, mid in H. rewrite Hsa in H.
  destruct (Nat.ltb_spec n3 n3); [lia|]. now rewrite !Nat.eqb_refl in H. Qed.
(* POVMs: the embedded elements sum to the identity when the elements do and m c = 1 (Povm._embed...: c = 1 / m) *)
Fixpoint sum_mats (l : list mat) : mat := match l with [] => mzero | A :: r => madd A (sum_mats r) end.
Theorem embed_sum_mats n3 s c (l : list mat) : forall i j,
  sum_mats (map (embed_fast n3 s c) l) i j = embed_fast n3 s (nsum (length l) c) (sum_mats l) i j.
Proof. induction l as [|A r IH]; intros i j; cbn [map sum_mats length nsum].
  - unfold mzero, embed_fast, emb_block. destruct (s i <? n3)%nat; [destruct (s j <? n3)%nat|destruct (Nat.eqb (s i) (s j))]; reflexivity.
  - rewrite <- embed_madd. unfold madd. now rewrite IH. Qed.
Theorem embed_povm_identity_sum n3 k s t c (l : list mat) : bij (n3 + k) s t ->
  meq n3 n3 (sum_mats l) mid -> nsum (length l) c = 1 ->
  meq (n3 + k) (n3 + k) (sum_mats (map (embed_fast n3 s c) l)) mid.
Proof. intros Hb Hsum Hc i j Hi Hj. rewrite embed_sum_mats, Hc. rewrite (embed_ext n3 s 1 _ mid Hsum). now apply (embed_id n3 k s t Hb). Qed.
(* the m-fold sum is m times the summand: with c c m = 1 (c = 1 / sqrt m) resp. c m = 1 (c = 1 / m) the conditions above hold *)
Lemma nsum_scale m x : nsum m x = nsum m 1 * x.
Proof. induction m as [|m IH]; cbn [nsum]; [ring|]. rewrite IH. ring. Qed.
End EmbedTP.

(* the permutation built by _permutation_matrix_from_qutrits_to_qubits is a bijection of [0, 4^n) — checked by evaluation
   for one, two and three qutrits (the statement for every n is not proved) *)
Definition bijb (n : nat) (s t : nat -> nat) : bool :=
  forallb (fun i => (s i <? n) && Nat.eqb (t (s i)) i && (t i <? n) && Nat.eqb (s (t i)) i)%nat (seq 0 n).
Lemma bijb_spec n s t : bijb n s t = true -> bij n s t.
Proof. intros H. unfold bijb in H. rewrite forallb_forall in H.
  assert (G : forall i, (i < n)%nat -> ((s i < n)%nat /\ t (s i) = i) /\ ((t i < n)%nat /\ s (t i) = i)).
  { intros i Hi. specialize (H i). rewrite in_seq in H. specialize (H ltac:(lia)).
    rewrite !andb_true_iff in H. destruct H as [[[A B] C] D].
    apply Nat.ltb_lt in A, C. apply Nat.eqb_eq in B, D. tauto. }
  split; intros i Hi; now apply G. Qed.
Definition emb_inv (n : nat) : nat -> nat :=
  let tbl := map snd (emb_pairs n) in
  fun i => match find (fun a => Nat.eqb (nth a tbl 0%nat) i) (seq 0 (4 ^ n)) with Some a => a | None => 0%nat end.
Lemma emb_perm_bij_1 : bij (3 ^ 1 + (4 ^ 1 - 3 ^ 1)) (emb_perm 1) (emb_inv 1).
Proof. apply bijb_spec. vm_compute. reflexivity. Qed.
Lemma emb_perm_bij_2 : bij (3 ^ 2 + (4 ^ 2 - 3 ^ 2)) (emb_perm 2) (emb_inv 2).
Proof. apply bijb_spec. vm_compute. reflexivity. Qed.
Lemma emb_perm_bij_3 : bij (3 ^ 3 + (4 ^ 3 - 3 ^ 3)) (emb_perm 3) (emb_inv 3).
Proof. apply bijb_spec. vm_compute. reflexivity. Qed.
Lemma emb_perm_bij_upto3 : forall n, (1 <= n <= 3)%nat -> bij (3 ^ n + (4 ^ n - 3 ^ n)) (emb_perm n) (emb_inv n).
Proof. intros n Hn. assert (n = 1 \/ n = 2 \/ n = 3)%nat as [->|[->| ->]] by lia;
  [exact emb_perm_bij_1|exact emb_perm_bij_2|exact emb_perm_bij_3]. Qed.
(* qubit basis states without the digit 3 are the qutrit basis states, in order: pi(a) = base-3 reading of a's base-4 digits *)
Fixpoint base3 (n a : nat) : nat := match n with O => 0%nat | S k => (a mod 4 + 3 * base3 k (a / 4))%nat end.
Lemma emb_perm_qutrit_states_upto3 : forall n, (1 <= n <= 3)%nat ->
  forallb (fun a => if has3 n a then (3 ^ n <=? emb_perm n a)%nat else Nat.eqb (emb_perm n a) (base3 n a)) (seq 0 (4 ^ n)) = true.
Proof. intros n Hn. assert (n = 1 \/ n = 2 \/ n = 3)%nat as [->|[->| ->]] by lia; vm_compute; reflexivity. Qed.
