(* C03 — variables <-> objects: round trips, lengths, stacked conversions, "points at the entry", gradient. *)
From Coq Require Import ZArith Bool List Arith Lia.
From QV.Core Require Import OF Sums.
From QV.Model Require Import C03_Index C03_VarObj.
From QV.Proofs Require Import C03_Lists C03_Index.
Import ListNotations.

Lemma nth_map_seq0 {B : Type} (f : nat -> B) (d : B) n i : (i < n)%nat -> nth i (map f (seq 0 n)) d = f i.
Proof. intros H. rewrite (nth_indep _ d (f O)) by (now rewrite map_length, seq_length).
  rewrite map_nth, seq_nth by exact H. reflexivity. Qed.
Lemma div_add_small q h c : (c < h)%nat -> ((q * h + c) / h = q)%nat.
Proof. intros H. rewrite Nat.div_add_l by lia. rewrite Nat.div_small by exact H. lia. Qed.
Lemma arith_blocks m n : (1 <= m)%nat -> (1 <= n)%nat -> ((m - 1) * (n * n) + (n + (n - 1) * n) = m * (n * n))%nat.
Proof. intros. destruct m; [lia|]. destruct n; [lia|]. cbn [Nat.sub]. rewrite !Nat.sub_0_r. ring. Qed.
Lemma arith_row n : (1 <= n)%nat -> (n + (n - 1) * n = n * n)%nat.
Proof. intros. destruct n; [lia|]. cbn [Nat.sub]. rewrite !Nat.sub_0_r. ring. Qed.
Lemma arith_small n : (1 <= n)%nat -> ((n - 1) * n < n * n)%nat.
Proof. intros. rewrite <- (arith_row n) by assumption. lia. Qed.
Lemma sq_pos d : (1 <= d)%nat -> (1 <= d * d)%nat. Proof. nia. Qed.
Lemma skipn_app_ge {A : Type} (l1 l2 : list A) k : (length l1 <= k)%nat -> skipn k (l1 ++ l2) = skipn (k - length l1) l2.
Proof. intros H. rewrite skipn_app, skipn_all2 by exact H. reflexivity. Qed.
Lemma chunk_app {A : Type} n k1 : forall k2 (l1 l2 : list A), length l1 = (k1 * n)%nat ->
  chunk n (k1 + k2) (l1 ++ l2) = chunk n k1 l1 ++ chunk n k2 l2.
Proof. induction k1 as [|k1 IH]; intros k2 l1 l2 H; cbn in *.
  - destruct l1; [reflexivity|discriminate].
  - assert (Hn : (n <= length l1)%nat) by lia.
    rewrite firstn_app, skipn_app. replace (n - length l1)%nat with O by lia. rewrite firstn_O, skipn_O, app_nil_r.
    f_equal. apply IH. rewrite skipn_length. lia. Qed.
Lemma chunk_one {A : Type} n (l : list A) : length l = n -> chunk n 1 l = [l].
Proof. intros H. cbn. rewrite firstn_all2 by lia. reflexivity. Qed.
Lemma concat_snoc {A : Type} (L : list (list A)) (x : list A) : concat (L ++ [x]) = concat L ++ x.
Proof. rewrite concat_app. cbn. now rewrite app_nil_r. Qed.
Lemma snoc_inj {A : Type} (l l' : list A) (x y : A) : l ++ [x] = l' ++ [y] <-> l = l' /\ x = y.
Proof. split; [apply app_inj_tail|]. intros [-> ->]. reflexivity. Qed.

Section VarObjProofs.
Context (F : OF).
Add Field Ff : (k_field F).
Notation "0" := (c0 F). Notation "1" := (c1 F).
Local Notation "x -f y" := (csub F x y) (at level 50, left associativity).
Local Notation "x +f y" := (cadd F x y) (at level 50, left associativity).
Local Notation "x /f y" := (kdiv F x y) (at level 40, left associativity).
Implicit Types (flag : bool) (d m q n : nat).

Lemma lead_length c n : length (lead F c n) = n.
Proof. unfold lead. now rewrite map_length, seq_length. Qed.
Lemma nth_lead c n j : (j < n)%nat -> nth j (lead F c n) 0 = if Nat.eqb j 0 then c else 0.
Proof. intros H. unfold lead. now rewrite nth_map_seq0. Qed.

(* ================================================================== State *)
Lemma state_var_obj_var sd flag var : state_to_var F flag (state_var_to_vec F sd flag var) = var.
Proof. destruct flag; reflexivity. Qed.

Lemma state_from_var_spec d sd flag var vec :
  state_from_var F d sd flag var = Some vec <-> vec = state_var_to_vec F sd flag var /\ length vec = (d * d)%nat.
Proof. unfold state_from_var. destruct (Nat.eqb_spec (length (state_var_to_vec F sd flag var)) (d * d)) as [E|E]; split.
  - intros [= <-]. now split.
  - intros [-> _]. reflexivity.
  - discriminate.
  - intros [-> H]. contradiction. Qed.

Lemma state_from_var_ok d sd flag var : (1 <= d)%nat ->
  length var = (d * d - (if flag then 1 else 0))%nat ->
  state_from_var F d sd flag var = Some (state_var_to_vec F sd flag var) /\ state_wf F d (state_var_to_vec F sd flag var).
Proof. intros Hd H. pose proof (sq_pos d Hd) as Hn.
  assert (L : length (state_var_to_vec F sd flag var) = (d * d)%nat) by (destruct flag; cbn; lia).
  split; [|exact L]. apply state_from_var_spec. now split. Qed.

Lemma state_to_var_length d flag vec : state_wf F d vec ->
  length (state_to_var F flag vec) = (d * d - (if flag then 1 else 0))%nat.
Proof. unfold state_wf. intros H. destruct flag; cbn; [|lia]. destruct vec; cbn in *; lia. Qed.

Lemma state_obj_var_obj d sd flag vec : (1 <= d)%nat -> state_wf F d vec ->
  state_from_var F d sd flag (state_to_var F flag vec) = Some (state_reimplied F sd flag vec).
Proof. intros Hd H. pose proof (sq_pos d Hd) as Hn. unfold state_wf in H. apply state_from_var_spec.
  destruct flag; cbn; [|now split]. destruct vec; cbn in *; [lia|]. now split. Qed.

Lemma state_reimplied_id d sd flag vec : (1 <= d)%nat -> state_wf F d vec ->
  (state_reimplied F sd flag vec = vec <-> state_eq_ok F sd flag vec).
Proof. intros Hd H. pose proof (sq_pos d Hd) as Hn. unfold state_wf in H. unfold state_reimplied, state_eq_ok.
  destruct flag.
  - destruct vec as [|x t]; cbn in *; [lia|]. split.
    + intros [= E]. right. now symmetry.
    + intros [E|E]; [discriminate|]. now rewrite E.
  - split; [now left|reflexivity]. Qed.

Lemma state_num_variables d flag vec : (1 <= d)%nat -> state_wf F d vec ->
  Z.of_nat (length (state_to_var F flag vec)) = nv_state (Z.of_nat d) flag.
Proof. intros Hd H. rewrite (state_to_var_length d) by exact H. pose proof (sq_pos d Hd). unfold nv_state.
  destruct flag; [rewrite Nat2Z.inj_sub by lia|rewrite Nat.sub_0_r]; rewrite Nat2Z.inj_mul; lia. Qed.

Lemma state_points d flag vec i : state_wf F d vec -> (0 <= i < nv_state (Z.of_nat d) flag)%Z ->
  nth (Z.to_nat (flat_state (state_index_of_var flag i))) (state_stacked F vec) 0 =
  nth (Z.to_nat i) (state_to_var F flag vec) 0.
Proof. intros H Hi. unfold flat_state, state_index_of_var, state_stacked, state_to_var. destruct flag; [|reflexivity].
  replace (Z.to_nat (i + 1)) with (S (Z.to_nat i)) by lia. destruct vec; [now destruct (Z.to_nat i)|reflexivity]. Qed.

(* ================================================================== Povm *)
Lemma povm_last_length n sd pre : length (povm_last F n sd pre) = n.
Proof. unfold povm_last. now rewrite map_length, seq_length. Qed.
Lemma nth_povm_last n sd pre c : (c < n)%nat ->
  nth c (povm_last F n sd pre) 0 = (if Nat.eqb c 0 then sd else 0) -f colsum F pre c.
Proof. intros H. unfold povm_last. now rewrite nth_map_seq0. Qed.
Lemma colsum_snoc pre v c : colsum F (pre ++ [v]) c = colsum F pre c +f nth c v 0.
Proof. unfold colsum. rewrite app_length, Nat.add_1_r. cbn [sumn]. f_equal.
  - apply sumn_ext. intros x Hx. now rewrite app_nth1.
  - now rewrite nth_middle. Qed.

Lemma povm_to_var_length d m flag vecs : povm_wf F d m vecs ->
  length (povm_to_var F flag vecs) = ((m - (if flag then 1 else 0)) * (d * d))%nat.
Proof. intros [Hl Hu]. unfold povm_to_var. destruct flag.
  - rewrite (length_concat_uniform (d * d)) by (now apply uniform_removelast). now rewrite length_removelast, Hl.
  - rewrite (length_concat_uniform (d * d)) by exact Hu. now rewrite Hl, Nat.sub_0_r. Qed.

(* var -> vecs -> var, any variable vector whose length is a multiple of d^2 *)
Lemma povm_var_obj_var d sd flag q var : (1 <= d)%nat -> length var = (q * (d * d))%nat ->
  exists vecs, povm_var_to_vecs F d sd flag var = Some vecs /\ povm_to_var F flag vecs = var /\
               povm_wf F d (q + (if flag then 1 else 0)) vecs.
Proof. intros Hd H. pose proof (sq_pos d Hd) as Hn. unfold povm_var_to_vecs.
  rewrite H, Nat.div_mul, Nat.eqb_refl by lia.
  pose proof (concat_chunk (d * d) q var H) as C. pose proof (chunk_uniform (d * d) q var H) as U.
  eexists; split; [reflexivity|]. destruct flag; unfold povm_to_var, povm_wf.
  - rewrite removelast_last. split; [exact C|]. split.
    + rewrite app_length, chunk_length. reflexivity.
    + apply uniform_app. split; [exact U|]. constructor; [apply povm_last_length|constructor].
  - split; [exact C|]. split; [now rewrite chunk_length, Nat.add_0_r|exact U]. Qed.

Lemma povm_from_var_ok d sd flag q var : (1 <= d)%nat -> length var = (q * (d * d))%nat ->
  (1 <= q + (if flag then 1 else 0))%nat ->
  exists vecs, povm_from_var F d sd flag var = Some vecs /\ povm_to_var F flag vecs = var /\
               povm_wf F d (q + (if flag then 1 else 0)) vecs.
Proof. intros Hd H Hq. destruct (povm_var_obj_var d sd flag q var Hd H) as (vecs & E & R & W).
  exists vecs. split; [|now split]. unfold povm_from_var. rewrite E. destruct vecs; [|reflexivity].
  destruct W as [W _]. cbn in W. lia. Qed.

Lemma povm_obj_var_obj d m sd flag vecs : (1 <= d)%nat -> ((if flag then 1 else 0) <= m)%nat -> povm_wf F d m vecs ->
  povm_var_to_vecs F d sd flag (povm_to_var F flag vecs) = Some (povm_reimplied F d sd flag vecs).
Proof. intros Hd Hm [Hl Hu]. pose proof (sq_pos d Hd) as Hn. unfold povm_var_to_vecs.
  rewrite (povm_to_var_length d m) by (now split). rewrite Nat.div_mul, Nat.eqb_refl by lia.
  unfold povm_to_var, povm_reimplied. destruct flag.
  - assert (E : chunk (d * d) (m - 1) (concat (removelast vecs)) = removelast vecs).
    { rewrite <- (chunk_concat (d * d) (removelast vecs)) at 2 by (now apply uniform_removelast).
      now rewrite length_removelast, Hl. }
    now rewrite E.
  - rewrite Nat.sub_0_r, <- Hl. now rewrite chunk_concat. Qed.

Lemma povm_reimplied_id d m sd flag vecs : (1 <= m)%nat -> povm_wf F d m vecs ->
  (povm_reimplied F d sd flag vecs = vecs <-> povm_eq_ok F d sd flag vecs).
Proof. intros Hm [Hl Hu]. unfold povm_reimplied, povm_eq_ok. destruct flag; [|split; [now left|reflexivity]].
  destruct vecs as [|lastv pre _] using rev_ind; [cbn in Hl; lia|].
  rewrite removelast_last. apply uniform_app in Hu as [Hp Hv]. inversion Hv as [|? ? Hlv _]; subst.
  rewrite snoc_inj. split.
  - intros [_ E]. right. intros c Hc. rewrite colsum_snoc, <- E, nth_povm_last by exact Hc. ring.
  - intros [E|E]; [discriminate|]. split; [reflexivity|].
    apply (nth_ext _ _ 0 0); [now rewrite povm_last_length|]. rewrite povm_last_length. intros c Hc.
    rewrite nth_povm_last by exact Hc. rewrite <- (E c Hc), colsum_snoc. ring. Qed.

Lemma povm_num_variables d m flag vecs : ((if flag then 1 else 0) <= m)%nat -> povm_wf F d m vecs ->
  Z.of_nat (length (povm_to_var F flag vecs)) = nv_povm (Z.of_nat d) (Z.of_nat m) flag.
Proof. intros Hm H. rewrite (povm_to_var_length d m) by exact H. unfold nv_povm.
  destruct flag; [rewrite Nat2Z.inj_mul, Nat2Z.inj_sub by lia|rewrite Nat.sub_0_r, Nat2Z.inj_mul]; rewrite Nat2Z.inj_mul; lia. Qed.

Lemma povm_points d m flag vecs i : (1 <= d)%nat -> povm_wf F d m vecs ->
  (0 <= i < nv_povm (Z.of_nat d) (Z.of_nat m) flag)%Z ->
  nth (Z.to_nat (flat_povm (Z.of_nat d) (povm_index_of_var (Z.of_nat d * Z.of_nat d) i))) (povm_stacked F vecs) 0 =
  nth (Z.to_nat i) (povm_to_var F flag vecs) 0.
Proof. intros Hd W Hi. destruct (povm_index_fwd (Z.of_nat d) (Z.of_nat m) flag i ltac:(lia) Hi) as (_ & _ & ->).
  unfold povm_stacked, povm_to_var. destruct flag; [|reflexivity].
  assert (Hm : (1 <= m)%nat). { unfold nv_povm in Hi. destruct m; [nia|lia]. }
  pose proof (povm_num_variables d m true vecs Hm W) as L. destruct W as [Hl Hu].
  destruct vecs as [|lastv pre _] using rev_ind; [cbn in Hl; lia|].
  unfold povm_to_var in L. rewrite removelast_last in *. rewrite concat_snoc. apply app_nth1. lia. Qed.

(* static conversions *)
Lemma povm_var_to_stacked_consistent d sd flag var vecs :
  povm_var_to_vecs F d sd flag var = Some vecs -> (1 <= d)%nat ->
  povm_var_to_stacked F d sd flag var = Some (povm_stacked F vecs).
Proof. intros E Hd. unfold povm_var_to_stacked, povm_stacked. destruct flag; [now rewrite E|].
  f_equal. unfold povm_var_to_vecs in E. destruct (Nat.eqb_spec (length var) (length var / (d * d) * (d * d))) as [L|]; [|discriminate].
  injection E as <-. symmetry. now apply concat_chunk. Qed.

Lemma povm_stacked_to_var_consistent d m sd flag vecs : (1 <= d)%nat -> povm_wf F d m vecs ->
  povm_stacked_to_var F d sd flag (povm_stacked F vecs) = Some (povm_to_var F flag vecs).
Proof. intros Hd W. unfold povm_stacked_to_var, povm_stacked. destruct flag; [|reflexivity].
  pose proof (povm_obj_var_obj d m sd false vecs Hd ltac:(cbn; lia) W) as E. unfold povm_to_var at 1 in E.
  rewrite E. reflexivity. Qed.

(* ================================================================== Gate *)
Lemma gate_to_var_length d flag hs : (1 <= d)%nat -> gate_wf F d hs ->
  length (gate_to_var F flag hs) = ((d * d - (if flag then 1 else 0)) * (d * d))%nat.
Proof. intros Hd [Hl Hu]. unfold gate_to_var. destruct flag.
  - rewrite (length_concat_uniform (d * d)) by (now apply uniform_tl). destruct hs; cbn in *; [lia|]. f_equal. lia.
  - rewrite (length_concat_uniform (d * d)) by exact Hu. now rewrite Hl, Nat.sub_0_r. Qed.

Lemma gate_var_obj_var d flag var : (1 <= d)%nat ->
  length var = ((d * d - (if flag then 1 else 0)) * (d * d))%nat ->
  exists hs, gate_var_to_hs F d flag var = Some hs /\ gate_to_var F flag hs = var /\ gate_wf F d hs.
Proof. intros Hd H. pose proof (sq_pos d Hd) as Hn. unfold gate_var_to_hs. destruct flag.
  - rewrite H, Nat.eqb_refl. eexists; split; [reflexivity|]. unfold gate_to_var, gate_wf. cbn [tl].
    split; [now apply concat_chunk|]. split.
    + cbn. rewrite chunk_length. lia.
    + constructor; [apply lead_length|now apply chunk_uniform].
  - rewrite Nat.sub_0_r in H. rewrite H, Nat.eqb_refl. eexists; split; [reflexivity|]. unfold gate_to_var, gate_wf.
    split; [now apply concat_chunk|]. split; [apply chunk_length|now apply chunk_uniform]. Qed.

(* the error branch: generate_from_var succeeds exactly on vectors of the right length *)
Lemma gate_from_var_error_iff d flag var : (1 <= d)%nat ->
  (gate_var_to_hs F d flag var = None <-> length var <> ((d * d - (if flag then 1 else 0)) * (d * d))%nat).
Proof. intros Hd. unfold gate_var_to_hs. destruct flag; [|rewrite Nat.sub_0_r];
  destruct (Nat.eqb_spec (length var) ((d * d - 1) * (d * d))) as [E|E];
  destruct (Nat.eqb_spec (length var) (d * d * (d * d))) as [E'|E']; split; intros H; congruence. Qed.

Lemma gate_obj_var_obj d flag hs : (1 <= d)%nat -> gate_wf F d hs ->
  gate_var_to_hs F d flag (gate_to_var F flag hs) = Some (gate_reimplied F d flag hs).
Proof. intros Hd W. pose proof (sq_pos d Hd) as Hn. pose proof (gate_to_var_length d flag hs Hd W) as L.
  destruct W as [Hl Hu]. unfold gate_var_to_hs, gate_reimplied. destruct flag.
  - rewrite L, Nat.eqb_refl. unfold gate_to_var. do 2 f_equal.
    destruct hs as [|r0 t]; cbn in *; [lia|]. inversion Hu; subst.
    replace (d * d - 1)%nat with (length t) by lia. now apply chunk_concat.
  - rewrite Nat.sub_0_r in L. rewrite L, Nat.eqb_refl. unfold gate_to_var. f_equal. rewrite <- Hl at 2. now apply chunk_concat. Qed.

Lemma gate_reimplied_id d flag hs : (1 <= d)%nat -> gate_wf F d hs ->
  (gate_reimplied F d flag hs = hs <-> gate_eq_ok F d flag hs).
Proof. intros Hd [Hl Hu]. pose proof (sq_pos d Hd) as Hn. unfold gate_reimplied, gate_eq_ok.
  destruct flag; [|split; [now left|reflexivity]].
  destruct hs as [|r0 t]; cbn in *; [lia|]. split.
  - intros [= E]. right. now symmetry.
  - intros [E|E]; [discriminate|]. now rewrite E. Qed.

Lemma gate_num_variables d flag hs : (1 <= d)%nat -> gate_wf F d hs ->
  Z.of_nat (length (gate_to_var F flag hs)) = nv_gate (Z.of_nat d) flag.
Proof. intros Hd W. rewrite (gate_to_var_length d) by assumption. pose proof (sq_pos d Hd). unfold nv_gate.
  destruct flag; [rewrite Nat2Z.inj_mul, Nat2Z.inj_sub by lia|rewrite Nat.sub_0_r, Nat2Z.inj_mul]; rewrite Nat2Z.inj_mul; lia. Qed.

Lemma gate_points d flag hs i : (1 <= d)%nat -> gate_wf F d hs -> (0 <= i < nv_gate (Z.of_nat d) flag)%Z ->
  nth (Z.to_nat (flat_gate (Z.of_nat d) (gate_index_of_var (Z.of_nat d) flag i))) (gate_stacked F hs) 0 =
  nth (Z.to_nat i) (gate_to_var F flag hs) 0.
Proof. intros Hd [Hl Hu] Hi. pose proof (sq_pos d Hd) as Hn.
  destruct (gate_index_fwd (Z.of_nat d) flag i ltac:(lia) Hi) as (_ & _ & ->).
  unfold gate_stacked, gate_to_var, shift_gate. destruct flag; [|now rewrite Z.add_0_r].
  destruct hs as [|r0 t]; cbn in Hl; [lia|]. inversion Hu as [|? ? Hr _]; subst. cbn [concat tl].
  replace (Z.to_nat (i + Z.of_nat d * Z.of_nat d)) with (length r0 + Z.to_nat i)%nat by (rewrite Hr; nia).
  apply nth_app_shift. Qed.

Lemma gate_var_to_stacked_consistent d flag var hs : (1 <= d)%nat ->
  gate_var_to_hs F d flag var = Some hs -> gate_var_to_stacked F d flag var = gate_stacked F hs.
Proof. intros Hd E. unfold gate_var_to_hs in E. unfold gate_var_to_stacked, gate_stacked. destruct flag.
  - destruct (Nat.eqb_spec (length var) ((d * d - 1) * (d * d))) as [L|]; [|discriminate]. injection E as <-.
    cbn [concat]. now rewrite concat_chunk.
  - destruct (Nat.eqb_spec (length var) (d * d * (d * d))) as [L|]; [|discriminate]. injection E as <-.
    now rewrite concat_chunk. Qed.

Lemma gate_stacked_to_var_consistent d flag hs : (1 <= d)%nat -> gate_wf F d hs ->
  gate_stacked_to_var F d flag (gate_stacked F hs) = gate_to_var F flag hs.
Proof. intros Hd [Hl Hu]. pose proof (sq_pos d Hd) as Hn. unfold gate_stacked_to_var, gate_stacked, gate_to_var.
  destruct flag; [|reflexivity]. destruct hs as [|r0 t]; cbn in Hl; [lia|]. inversion Hu as [|? ? Hr _]; subst.
  cbn [concat tl]. now apply skipn_app_exact'. Qed.

(* ================================================================== MProcess *)
Lemma gate_wf_chunk d (l : list F) : length l = (d * d * (d * d))%nat -> gate_wf F d (chunk (d * d) (d * d) l).
Proof. intros H. split; [apply chunk_length|now apply chunk_uniform]. Qed.
Lemma Forall_gate_wf_chunks d k (l : list F) : length l = (k * (d * d * (d * d)))%nat ->
  Forall (gate_wf F d) (map (chunk (d * d) (d * d)) (chunk (d * d * (d * d)) k l)).
Proof. intros H. apply Forall_map. pose proof (chunk_uniform _ k l H) as U. unfold uniform in U.
  eapply Forall_impl; [|exact U]. intros a Ha. now apply gate_wf_chunk. Qed.
Lemma gate_wf_uniform_concat d (pre : list (list (list F))) : Forall (gate_wf F d) pre ->
  uniform (d * d * (d * d)) (map (@concat F) pre).
Proof. intros H. apply uniform_map_concat. exact H. Qed.
Lemma mp_A_length d (pre : list (list (list F))) : Forall (gate_wf F d) pre ->
  length (concat (map (@concat F) pre)) = (length pre * (d * d * (d * d)))%nat.
Proof. intros H. rewrite (length_concat_uniform (d * d * (d * d))) by (now apply gate_wf_uniform_concat).
  now rewrite map_length. Qed.
Lemma mp_implied_row_length n q var : length (mp_implied_row F n q var) = n.
Proof. unfold mp_implied_row. now rewrite map_length, seq_length. Qed.
Lemma mp_implied_row_of_length n pre : length (mp_implied_row_of F n pre) = n.
Proof. unfold mp_implied_row_of. now rewrite map_length, seq_length. Qed.

(* reshape of  l1 ++ row ++ l2  : k full HS blocks, then a block whose first row is [row] *)
Lemma mp_hss_of_parts n k (l1 row l2 : list F) : (1 <= n)%nat ->
  length l1 = (k * (n * n))%nat -> length row = n -> length l2 = ((n - 1) * n)%nat ->
  map (chunk n n) (chunk (n * n) (S k) (l1 ++ row ++ l2)) =
  map (chunk n n) (chunk (n * n) k l1) ++ [row :: chunk n (n - 1) l2].
Proof. intros Hn H1 Hr H2. replace (S k) with (k + 1)%nat by lia.
  rewrite chunk_app by exact H1. rewrite map_app. f_equal.
  rewrite chunk_one by (rewrite app_length; nia). cbn [map]. f_equal.
  replace n with (1 + (n - 1))%nat at 2 by lia. rewrite chunk_app by lia.
  rewrite chunk_one by exact Hr. reflexivity. Qed.

(* decomposition of a well-formed MProcess into  pre ++ [r0 :: rest] *)
Lemma mp_wf_split d m hss : (1 <= d)%nat -> (1 <= m)%nat -> mp_wf F d m hss ->
  exists pre r0 rest, hss = pre ++ [r0 :: rest] /\ length pre = (m - 1)%nat /\ Forall (gate_wf F d) pre /\
    length r0 = (d * d)%nat /\ length rest = (d * d - 1)%nat /\ uniform (d * d) rest.
Proof. intros Hd Hm [Hl Hw]. pose proof (sq_pos d Hd) as Hn.
  destruct hss as [|lastm pre _] using rev_ind; [cbn in Hl; lia|].
  apply Forall_app in Hw as [Hp Hlast]. inversion Hlast as [|? ? [Hll Hlu] _]; subst.
  destruct lastm as [|r0 rest]; [cbn in Hll; lia|]. inversion Hlu as [|? ? Hr0 Hrest]; subst.
  exists pre, r0, rest. rewrite app_length in Hm |- *. cbn in *. repeat split; try assumption; lia. Qed.

Lemma mp_to_var_split flag pre r0 rest :
  mp_to_var F flag (pre ++ [r0 :: rest]) =
  concat (map (@concat F) pre) ++ (if flag then [] else r0) ++ concat rest.
Proof. unfold mp_to_var. destruct flag.
  - now rewrite removelast_last, last_last.
  - rewrite map_app. cbn [map]. rewrite concat_snoc. reflexivity. Qed.
Lemma mp_stacked_split pre r0 rest :
  mp_stacked F (pre ++ [r0 :: rest]) = concat (map (@concat F) pre) ++ r0 ++ concat rest.
Proof. unfold mp_stacked. rewrite map_app. cbn [map]. rewrite concat_snoc. reflexivity. Qed.

Lemma mp_to_var_length d m flag hss : (1 <= d)%nat -> (1 <= m)%nat -> mp_wf F d m hss ->
  length (mp_to_var F flag hss) =
  (if flag then (m - 1) * (d * d * (d * d)) + (d * d - 1) * (d * d) else m * (d * d * (d * d)))%nat.
Proof. intros Hd Hm W. destruct (mp_wf_split d m hss Hd Hm W) as (pre & r0 & rest & -> & Hp & Wp & Hr0 & Hrl & Hru).
  rewrite mp_to_var_split, !app_length. rewrite (mp_A_length d) by exact Wp.
  rewrite (length_concat_uniform (d * d)) by exact Hru. rewrite Hp, Hrl. pose proof (sq_pos d Hd) as Hn.
  destruct flag; cbn [length]; [lia|rewrite Hr0; now apply arith_blocks]. Qed.

Lemma mp_var_obj_var d m flag var : (1 <= d)%nat -> (1 <= m)%nat ->
  length var = (if flag then (m - 1) * (d * d * (d * d)) + (d * d - 1) * (d * d) else m * (d * d * (d * d)))%nat ->
  exists hss, mp_var_to_hss F d flag var = Some hss /\ mp_to_var F flag hss = var /\ mp_wf F d m hss.
Proof. intros Hd Hm H. pose proof (sq_pos d Hd) as Hn. unfold mp_var_to_hss, mp_var_to_stacked. cbv zeta.
  set (n := (d * d)%nat) in *. destruct flag.
  - assert (Q : (length var / (n * n) = m - 1)%nat) by (rewrite H; apply div_add_small; nia).
    rewrite Q. set (l1 := firstn (n * n * (m - 1)) var). set (l2 := skipn (n * n * (m - 1)) var).
    set (row := mp_implied_row F n (m - 1) var).
    assert (L1 : length l1 = ((m - 1) * (n * n))%nat) by (unfold l1; rewrite firstn_length; nia).
    assert (L2 : length l2 = ((n - 1) * n)%nat) by (unfold l2; rewrite skipn_length; nia).
    assert (Lr : length row = n) by apply mp_implied_row_length.
    assert (E : Nat.eqb (length (l1 ++ row ++ l2)) (S (m - 1) * (n * n)) = true).
    { apply Nat.eqb_eq. rewrite !app_length. nia. }
    rewrite E, mp_hss_of_parts by assumption. eexists; split; [reflexivity|]. split.
    + rewrite mp_to_var_split. cbn [app].
      rewrite concat_map_chunk by (apply (chunk_uniform (n * n)); exact L1).
      rewrite !concat_chunk by assumption. apply firstn_skipn.
    + split.
      * rewrite app_length, map_length, chunk_length. cbn. lia.
      * apply Forall_app. split; [now apply Forall_gate_wf_chunks|]. constructor; [|constructor].
        split; [cbn; rewrite chunk_length; lia|]. constructor; [exact Lr|now apply chunk_uniform].
  - assert (Q : (length var / (n * n) = m)%nat) by (rewrite H; apply Nat.div_mul; nia).
    rewrite Q, H, Nat.eqb_refl. eexists; split; [reflexivity|]. split.
    + unfold mp_to_var. rewrite concat_map_chunk by (apply (chunk_uniform (n * n)); exact H). now apply concat_chunk.
    + split; [now rewrite map_length, chunk_length|now apply Forall_gate_wf_chunks]. Qed.

Lemma mp_from_var_ok d m flag var : (1 <= d)%nat -> (1 <= m)%nat ->
  length var = (if flag then (m - 1) * (d * d * (d * d)) + (d * d - 1) * (d * d) else m * (d * d * (d * d)))%nat ->
  exists hss, mp_from_var F d m flag var = Some hss /\ mp_to_var F flag hss = var /\ mp_wf F d m hss.
Proof. intros Hd Hm H. destruct (mp_var_obj_var d m flag var Hd Hm H) as (hss & E & R & W).
  exists hss. split; [|now split]. unfold mp_from_var. rewrite E. destruct W as [-> _]. now rewrite Nat.eqb_refl. Qed.

(* the implied row computed from the variable vector is the implied row of the object *)
Lemma implied_row_eq d (pre : list (list (list F))) (B : list F) : (1 <= d)%nat -> Forall (gate_wf F d) pre ->
  mp_implied_row F (d * d) (length pre) (concat (map (@concat F) pre) ++ B) = mp_implied_row_of F (d * d) pre.
Proof. intros Hd W. pose proof (sq_pos d Hd) as Hn. unfold mp_implied_row, mp_implied_row_of. apply map_ext_in.
  intros c Hc. apply in_seq in Hc. f_equal. unfold first_row_sum. apply sumn_ext. intros x Hx.
  set (n := (d * d)%nat) in *.
  rewrite app_nth1 by (rewrite (mp_A_length d) by exact W; fold n; nia).
  replace (n * n * x + c)%nat with (x * (n * n) + c)%nat by lia.
  rewrite (nth_concat_uniform (n * n)) by (try (now apply gate_wf_uniform_concat); nia).
  change (@nil F) with (concat (@nil (list F))) at 1. rewrite map_nth.
  assert (Wx : gate_wf F d (nth x pre [])). { eapply Forall_forall; [exact W|]. now apply nth_In. }
  destruct Wx as [_ Ux]. fold n in Ux.
  replace c with (0 * n + c)%nat at 1 by lia. apply nth_concat_uniform; [exact Ux|lia]. Qed.

Lemma mp_obj_var_obj_hss d m flag hss : (1 <= d)%nat -> (1 <= m)%nat -> mp_wf F d m hss ->
  mp_var_to_hss F d flag (mp_to_var F flag hss) = Some (mp_reimplied F d flag hss).
Proof. intros Hd Hm W. pose proof (sq_pos d Hd) as Hn. pose proof (mp_to_var_length d m flag hss Hd Hm W) as L.
  destruct (mp_wf_split d m hss Hd Hm W) as (pre & r0 & rest & -> & Hp & Wp & Hr0 & Hrl & Hru).
  unfold mp_var_to_hss, mp_var_to_stacked, mp_reimplied. cbv zeta. set (n := (d * d)%nat) in *. destruct flag.
  - assert (Q : (length (mp_to_var F true (pre ++ [r0 :: rest])) / (n * n) = m - 1)%nat) by (rewrite L; apply div_add_small; nia).
    rewrite Q. rewrite mp_to_var_split in *. cbn [app] in *.
    set (A := concat (map (@concat F) pre)) in *. set (B := concat rest) in *.
    assert (LA : length A = ((m - 1) * (n * n))%nat) by (unfold A; rewrite (mp_A_length d) by exact Wp; now rewrite Hp).
    assert (LB : length B = ((n - 1) * n)%nat) by (unfold B; rewrite (length_concat_uniform n) by exact Hru; now rewrite Hrl).
    rewrite (firstn_app_exact' A B) by lia. rewrite (skipn_app_exact' A B) by lia.
    set (row := mp_implied_row F n (m - 1) (A ++ B)).
    assert (Lr : length row = n) by apply mp_implied_row_length.
    assert (E : Nat.eqb (length (A ++ row ++ B)) (S (m - 1) * (n * n)) = true).
    { apply Nat.eqb_eq. rewrite !app_length. nia. }
    rewrite E, mp_hss_of_parts by assumption. f_equal.
    rewrite removelast_last, last_last. cbn [tl]. f_equal.
    + unfold A. rewrite <- Hp. rewrite <- (map_length (@concat F) pre).
      rewrite chunk_concat by (now apply gate_wf_uniform_concat). now apply map_chunk_concat.
    + f_equal. f_equal.
      * unfold row, A. rewrite <- Hp. now apply implied_row_eq.
      * unfold B. rewrite <- Hrl. now apply chunk_concat.
  - assert (Q : (length (mp_to_var F false (pre ++ [r0 :: rest])) / (n * n) = m)%nat) by (rewrite L; apply Nat.div_mul; nia).
    rewrite Q, L, Nat.eqb_refl. f_equal. unfold mp_to_var.
    assert (Wall : Forall (gate_wf F d) (pre ++ [r0 :: rest])) by (now destruct W).
    assert (Lh : length (pre ++ [r0 :: rest]) = m) by (now destruct W).
    rewrite <- Lh at 1. rewrite <- (map_length (@concat F) (pre ++ [r0 :: rest])).
    rewrite chunk_concat by (now apply gate_wf_uniform_concat). now apply map_chunk_concat. Qed.

Lemma mp_obj_var_obj d m flag hss : (1 <= d)%nat -> (1 <= m)%nat -> mp_wf F d m hss ->
  mp_from_var F d m flag (mp_to_var F flag hss) = Some (mp_reimplied F d flag hss).
Proof. intros Hd Hm W. unfold mp_from_var. rewrite (mp_obj_var_obj_hss d m) by assumption.
  destruct (mp_wf_split d m hss Hd Hm W) as (pre & r0 & rest & -> & Hp & _).
  unfold mp_reimplied. destruct flag.
  - rewrite removelast_last, app_length, Hp. cbn [length]. replace (m - 1 + 1)%nat with m by lia. now rewrite Nat.eqb_refl.
  - destruct W as [-> _]. now rewrite Nat.eqb_refl. Qed.

Lemma first_row_sum_snoc pre hs c : first_row_sum F (pre ++ [hs]) c = first_row_sum F pre c +f nth c (nth 0%nat hs []) 0.
Proof. unfold first_row_sum. rewrite app_length, Nat.add_1_r. cbn [sumn]. f_equal.
  - apply sumn_ext. intros x Hx. now rewrite app_nth1.
  - now rewrite nth_middle. Qed.
Lemma nth_mp_implied_row_of n pre c : (c < n)%nat ->
  nth c (mp_implied_row_of F n pre) 0 = (if Nat.eqb c 0 then 1 else 0) -f first_row_sum F pre c.
Proof. intros H. unfold mp_implied_row_of. now rewrite nth_map_seq0. Qed.

Lemma mp_reimplied_id d m flag hss : (1 <= d)%nat -> (1 <= m)%nat -> mp_wf F d m hss ->
  (mp_reimplied F d flag hss = hss <-> mp_eq_ok F d flag hss).
Proof. intros Hd Hm W. destruct (mp_wf_split d m hss Hd Hm W) as (pre & r0 & rest & -> & Hp & Wp & Hr0 & Hrl & Hru).
  unfold mp_reimplied, mp_eq_ok. destruct flag; [|split; [now left|reflexivity]].
  rewrite removelast_last, last_last. cbn [tl]. rewrite snoc_inj. split.
  - intros [_ [= E]]. right. intros c Hc. rewrite first_row_sum_snoc. cbn [nth]. rewrite <- E, nth_mp_implied_row_of by exact Hc. ring.
  - intros [E|E]; [discriminate|]. split; [reflexivity|]. f_equal.
    apply (nth_ext _ _ 0 0); [now rewrite mp_implied_row_of_length|]. rewrite mp_implied_row_of_length. intros c Hc.
    rewrite nth_mp_implied_row_of by exact Hc. rewrite <- (E c Hc), first_row_sum_snoc. cbn [nth]. ring. Qed.

Lemma mp_num_variables d m flag hss : (1 <= d)%nat -> (1 <= m)%nat -> mp_wf F d m hss ->
  Z.of_nat (length (mp_to_var F flag hss)) = nv_mproc (Z.of_nat d) (Z.of_nat m) flag.
Proof. intros Hd Hm W. rewrite (mp_to_var_length d m) by assumption. pose proof (sq_pos d Hd). unfold nv_mproc.
  destruct flag.
  - rewrite Nat2Z.inj_add, !Nat2Z.inj_mul, !Nat2Z.inj_sub by lia. rewrite !Nat2Z.inj_mul. ring.
  - rewrite !Nat2Z.inj_mul. ring. Qed.

Lemma mp_points d m flag hss i : (1 <= d)%nat -> (1 <= m)%nat -> mp_wf F d m hss ->
  (0 <= i < nv_mproc (Z.of_nat d) (Z.of_nat m) flag)%Z ->
  nth (Z.to_nat (flat_mproc (Z.of_nat d) (mproc_index_of_var (Z.of_nat d) (Z.of_nat m) flag i))) (mp_stacked F hss) 0 =
  nth (Z.to_nat i) (mp_to_var F flag hss) 0.
Proof. intros Hd Hm W Hi. pose proof (sq_pos d Hd) as Hn.
  destruct (mproc_index_fwd (Z.of_nat d) (Z.of_nat m) flag i ltac:(lia) Hi) as (_ & _ & ->).
  destruct (mp_wf_split d m hss Hd Hm W) as (pre & r0 & rest & -> & Hp & Wp & Hr0 & Hrl & Hru).
  rewrite mp_stacked_split, mp_to_var_split. unfold shift_mproc, nv_mproc in *.
  set (A := concat (map (@concat F) pre)).
  assert (LA : length A = ((m - 1) * (d * d * (d * d)))%nat) by (unfold A; rewrite (mp_A_length d) by exact Wp; now rewrite Hp).
  destruct flag; cbn [andb app]; [|now rewrite Z.add_0_r].
  set (zn := (Z.of_nat d * Z.of_nat d)%Z) in *. assert (Hzn : (0 < zn)%Z) by (unfold zn; nia).
  assert (ZA : Z.of_nat (length A) = ((Z.of_nat m - 1) * (zn * zn))%Z).
  { rewrite LA. unfold zn. rewrite Nat2Z.inj_mul, Nat2Z.inj_sub by lia. rewrite !Nat2Z.inj_mul. ring. }
  destruct (Z.eqb_spec (i / (zn * zn)) (Z.of_nat m - 1)) as [E|E].
  - assert (Hge : (Z.of_nat (length A) <= i)%Z).
    { rewrite ZA, <- E. rewrite Z.mul_comm. apply Z.mul_div_le. nia. }
    replace (Z.to_nat (i + zn)) with (length A + (length r0 + (Z.to_nat i - length A)))%nat.
    2:{ rewrite Hr0. unfold zn. nia. }
    rewrite nth_app_shift, nth_app_shift.
    replace (Z.to_nat i) with (length A + (Z.to_nat i - length A))%nat at 2 by lia.
    now rewrite nth_app_shift.
  - assert (Hlt : (i < Z.of_nat (length A))%Z).
    { rewrite ZA. assert (i / (zn * zn) < Z.of_nat m - 1)%Z.
      { assert (i / (zn * zn) < Z.of_nat m)%Z by (apply Z.div_lt_upper_bound; nia). lia. }
      assert (Hh : (0 < zn * zn)%Z) by nia. pose proof (Z.div_mod i (zn * zn) ltac:(lia)).
      pose proof (Z.mod_pos_bound i (zn * zn) Hh). nia. }
    rewrite Z.add_0_r. rewrite !app_nth1 by lia. reflexivity. Qed.

Lemma mp_var_to_stacked_consistent d flag var hss :
  mp_var_to_hss F d flag var = Some hss -> mp_stacked F hss = mp_var_to_stacked F d flag var.
Proof. unfold mp_var_to_hss. cbv zeta. set (v := mp_var_to_stacked F d flag var).
  set (m := if flag then S _ else _). destruct (Nat.eqb_spec (length v) (m * (d * d * (d * d)))) as [L|]; [|discriminate].
  intros [= <-]. unfold mp_stacked. rewrite concat_map_chunk by (apply (chunk_uniform (d * d * (d * d))); exact L).
  now apply concat_chunk. Qed.

Lemma mp_stacked_to_var_consistent d m flag hss : (1 <= d)%nat -> (1 <= m)%nat -> mp_wf F d m hss ->
  mp_stacked_to_var F d flag (mp_stacked F hss) = mp_to_var F flag hss.
Proof. intros Hd Hm W. pose proof (sq_pos d Hd) as Hn.
  destruct (mp_wf_split d m hss Hd Hm W) as (pre & r0 & rest & -> & Hp & Wp & Hr0 & Hrl & Hru).
  unfold mp_stacked_to_var. destruct flag; [|unfold mp_stacked, mp_to_var; reflexivity].
  rewrite mp_stacked_split, mp_to_var_split. cbn [app]. cbv zeta.
  set (A := concat (map (@concat F) pre)). set (B := concat rest). set (n := (d * d)%nat) in *.
  assert (LA : length A = ((m - 1) * (n * n))%nat) by (unfold A; rewrite (mp_A_length d) by exact Wp; now rewrite Hp).
  assert (LB : length B = ((n - 1) * n)%nat) by (unfold B; rewrite (length_concat_uniform n) by exact Hru; now rewrite Hrl).
  assert (Q : (length (A ++ r0 ++ B) / (n * n) = m)%nat).
  { rewrite !app_length, LA, LB, Hr0. replace ((m - 1) * (n * n) + (n + (n - 1) * n))%nat with (m * (n * n))%nat by nia.
    apply Nat.div_mul. nia. }
  rewrite Q. rewrite (firstn_app_exact' A) by lia. f_equal.
  rewrite skipn_app_ge by lia. replace (n * n * (m - 1) + n - length A)%nat with (length r0) by lia.
  apply skipn_app_exact. Qed.

(* ================================================================== calc_gradient *)
Lemma onehot_length total k : (k < total)%nat -> length (onehot F total k) = total.
Proof. intros H. unfold onehot. rewrite app_length, repeat_length. cbn. rewrite repeat_length. lia. Qed.
Lemma nth_onehot total k j : (k < total)%nat -> nth j (onehot F total k) 0 = if Nat.eqb j k then 1 else 0.
Proof. intros H. unfold onehot. destruct (Nat.eqb_spec j k) as [->|Hne].
  - rewrite <- (repeat_length 0 k) at 1. apply nth_middle.
  - destruct (Nat.lt_ge_cases j k) as [Hlt|Hge].
    + rewrite app_nth1 by (now rewrite repeat_length). apply nth_repeat.
    + rewrite app_nth2 by (rewrite repeat_length; lia). rewrite repeat_length.
      destruct (j - k)%nat as [|p] eqn:E; [lia|]. cbn. apply nth_repeat. Qed.
Lemma gradient_at_spec total k : (0 <= k < Z.of_nat total)%Z ->
  gradient_at F total k = Some (onehot F total (Z.to_nat k)).
Proof. intros H. unfold gradient_at. destruct (Z.leb_spec 0 k); [|lia]. destruct (Z.ltb_spec k (Z.of_nat total)); [|lia]. reflexivity. Qed.
Lemma gradient_at_error total k : (Z.of_nat total <= k)%Z -> gradient_at F total k = None.
Proof. intros H. unfold gradient_at. destruct (Z.ltb_spec k (Z.of_nat total)); [lia|]. now rewrite andb_false_r. Qed.

Lemma free_flat_state (zd : Z) flag k : free_state zd flag k -> (0 <= flat_state k < zd * zd)%Z.
Proof. unfold free_state, flat_state. destruct flag; lia. Qed.
Lemma free_flat_povm (zd zm : Z) flag p : (0 < zd)%Z -> free_povm zd zm flag p -> (0 <= flat_povm zd p < zm * (zd * zd))%Z.
Proof. intros Hd. destruct p as [x a]. unfold free_povm, flat_povm. destruct flag; nia. Qed.
Lemma free_flat_gate (zd : Z) flag p : (0 < zd)%Z -> free_gate zd flag p -> (0 <= flat_gate zd p < zd * zd * (zd * zd))%Z.
Proof. intros Hd. destruct p as [r c]. unfold free_gate, flat_gate. destruct flag; nia. Qed.
Lemma free_flat_mproc (zd zm : Z) flag p : (0 < zd)%Z -> free_mproc zd zm flag p ->
  (0 <= flat_mproc zd p < zm * (zd * zd * (zd * zd)))%Z.
Proof. intros Hd. destruct p as [[x r] c]. unfold free_mproc, flat_mproc. set (zn := (zd * zd)%Z). intros (Hx & Hr & Hc).
  assert (0 <= r < zn)%Z by (destruct (flag && (x =? zm - 1)%Z); lia). nia. Qed.

End VarObjProofs.

(* ================================================================== all four kinds at once *)
Section QopProofs.
Context (F : OF).
Add Field Ff2 : (k_field F).
Notation "0" := (c0 F). Notation "1" := (c1 F).
Implicit Types (o : qop F) (sdf : nat -> F).

Theorem qop_num_variables_length o : qop_wf F o -> Z.of_nat (length (qop_to_var F o)) = qop_num_variables F o.
Proof. destruct o as [d f v|d f h|d f v|d f h]; cbn [qop_wf qop_to_var qop_num_variables].
  - intros [Hd W]. now apply state_num_variables.
  - intros [Hd W]. now apply gate_num_variables.
  - intros (Hd & Hm & W). apply povm_num_variables; [destruct f; lia|exact W].
  - intros (Hd & Hm & W). now apply mp_num_variables. Qed.

(* var -> object -> var = var, for EVERY variable vector of the right length *)
Theorem qop_var_obj_var sdf o var : qop_wf F o -> length var = length (qop_to_var F o) ->
  exists o', qop_from_var F sdf o var = Some o' /\ qop_to_var F o' = var /\ qop_wf F o' /\ qop_same_shape F o o'.
Proof. destruct o as [d f v|d f h|d f v|d f h]; cbn [qop_wf qop_to_var qop_from_var].
  - intros [Hd W] L. rewrite (state_to_var_length F d) in L by exact W.
    destruct (state_from_var_ok F d (sdf d) f var Hd L) as [E W']. rewrite E. eexists; split; [reflexivity|].
    cbn. split; [apply state_var_obj_var|]. repeat split; auto.
  - intros [Hd W] L. rewrite (gate_to_var_length F d) in L by assumption.
    destruct (gate_var_obj_var F d f var Hd L) as (hs & E & R & W'). unfold gate_from_var. rewrite E.
    eexists; split; [reflexivity|]. cbn. repeat split; auto; now destruct W'.
  - intros (Hd & Hm & W) L. rewrite (povm_to_var_length F d (length v)) in L by exact W.
    assert (Hq : (length v - (if f then 1 else 0) + (if f then 1 else 0) = length v)%nat) by (destruct f; lia).
    destruct (povm_from_var_ok F d (sdf d) f _ var Hd L ltac:(destruct f; lia)) as (vecs & E & R & W').
    rewrite Hq in W'. rewrite E. eexists; split; [reflexivity|]. cbn. pose proof W' as [Wl _].
    rewrite Wl. repeat split; try assumption; try (now destruct W'); try (now symmetry).
  - intros (Hd & Hm & W) L. rewrite (mp_to_var_length F d (length h)) in L by assumption.
    destruct (mp_from_var_ok F d (length h) f var Hd Hm L) as (hss & E & R & W'). rewrite E.
    eexists; split; [reflexivity|]. cbn. pose proof W' as [Wl _]. rewrite Wl. repeat split; try assumption; try (now destruct W'); try (now symmetry). Qed.

(* object -> var -> object = the object with its implied component overwritten *)
Theorem qop_obj_var_obj sdf o : qop_wf F o -> qop_from_var F sdf o (qop_to_var F o) = Some (qop_reimplied F sdf o).
Proof. destruct o as [d f v|d f h|d f v|d f h]; cbn [qop_wf qop_to_var qop_from_var qop_reimplied].
  - intros [Hd W]. now rewrite (state_obj_var_obj F d).
  - intros [Hd W]. unfold gate_from_var. now rewrite (gate_obj_var_obj F d).
  - intros (Hd & Hm & W). unfold povm_from_var.
    rewrite (povm_obj_var_obj F d (length v)) by (try assumption; destruct f; lia).
    destruct (povm_reimplied F d (sdf d) f v) eqn:E; [|reflexivity]. exfalso.
    unfold povm_reimplied in E. destruct f; [now destruct (removelast v)|]. subst v. cbn in Hm. lia.
  - intros (Hd & Hm & W). now rewrite (mp_obj_var_obj F d (length h)). Qed.

(* ... which is the object itself exactly when the object satisfies its equality constraint *)
Theorem qop_reimplied_id sdf o : qop_wf F o -> (qop_reimplied F sdf o = o <-> qop_eq_ok F sdf o).
Proof. destruct o as [d f v|d f h|d f v|d f h]; cbn [qop_wf qop_reimplied qop_eq_ok].
  - intros [Hd W]. rewrite <- (state_reimplied_id F d) by assumption. split; [now intros [= E]|now intros ->].
  - intros [Hd W]. rewrite <- (gate_reimplied_id F d) by assumption. split; [now intros [= E]|now intros ->].
  - intros (Hd & Hm & W). rewrite <- (povm_reimplied_id F d (length v)) by (try assumption; destruct f; lia).
    split; [now intros [= E]|now intros ->].
  - intros (Hd & Hm & W). rewrite <- (mp_reimplied_id F d (length h)) by assumption. split; [now intros [= E]|now intros ->]. Qed.

Theorem qop_obj_var_obj_iff sdf o : qop_wf F o ->
  (qop_from_var F sdf o (qop_to_var F o) = Some o <-> qop_eq_ok F sdf o).
Proof. intros W. rewrite qop_obj_var_obj by exact W. rewrite <- (qop_reimplied_id sdf o W).
  split; [now intros [= E]|now intros ->]. Qed.

(* what is lost otherwise: nothing but the implied component (all free entries survive) *)
Theorem qop_reimplied_keeps_free sdf o : qop_wf F o ->
  qop_to_var F (qop_reimplied F sdf o) = qop_to_var F o /\ qop_eq_ok F sdf (qop_reimplied F sdf o).
Proof. intros W. destruct (qop_var_obj_var sdf o (qop_to_var F o) W eq_refl) as (o' & E & R & W' & S).
  rewrite (qop_obj_var_obj sdf o W) in E. injection E as <-. split; [exact R|].
  apply (qop_reimplied_id sdf _ W').
  assert (E2 : qop_from_var F sdf (qop_reimplied F sdf o) (qop_to_var F (qop_reimplied F sdf o)) = Some (qop_reimplied F sdf o)).
  { rewrite R. rewrite <- (qop_obj_var_obj sdf o W).
    destruct o as [d f v|d f h|d f v|d f h]; cbn [qop_reimplied qop_from_var]; try reflexivity.
    cbn in S. destruct S as (_ & _ & S). now rewrite S. }
  rewrite (qop_obj_var_obj sdf _ W') in E2. now injection E2. Qed.

(* static conversions agree with the correspondence *)
Theorem qop_var_to_stacked_consistent sdf o var o' : qop_wf F o -> qop_from_var F sdf o var = Some o' ->
  qop_var_to_stacked F sdf o var = Some (qop_stacked F o').
Proof. destruct o as [d f v|d f h|d f v|d f h]; cbn [qop_wf qop_from_var qop_var_to_stacked].
  - intros _ E. destruct (state_from_var F d (sdf d) f var) eqn:E1; [|discriminate]. injection E as <-.
    apply state_from_var_spec in E1 as [-> _]. reflexivity.
  - intros [Hd _] E. unfold gate_from_var in E. destruct (gate_var_to_hs F d f var) eqn:E1; [|discriminate]. injection E as <-.
    cbn. f_equal. now apply gate_var_to_stacked_consistent.
  - intros (Hd & _) E. destruct (povm_from_var F d (sdf d) f var) eqn:E1; [|discriminate]. injection E as <-.
    cbn. apply povm_var_to_stacked_consistent; [|exact Hd]. unfold povm_from_var in E1.
    destruct (povm_var_to_vecs F d (sdf d) f var) as [[|a t]|]; congruence.
  - intros _ E. destruct (mp_from_var F d (length h) f var) eqn:E1; [|discriminate]. injection E as <-.
    cbn. f_equal. symmetry. apply mp_var_to_stacked_consistent. unfold mp_from_var in E1.
    destruct (mp_var_to_hss F d f var) as [x|]; [|discriminate]. destruct (Nat.eqb (length x) (length h)); congruence. Qed.

Theorem qop_stacked_to_var_consistent sdf o : qop_wf F o ->
  qop_stacked_to_var F sdf o (qop_stacked F o) = Some (qop_to_var F o).
Proof. destruct o as [d f v|d f h|d f v|d f h]; cbn [qop_wf qop_stacked qop_stacked_to_var qop_to_var].
  - reflexivity.
  - intros [Hd W]. f_equal. now apply gate_stacked_to_var_consistent.
  - intros (Hd & _ & W). now apply (povm_stacked_to_var_consistent F d (length v)).
  - intros (Hd & Hm & W). f_equal. now apply (mp_stacked_to_var_consistent F d (length h)). Qed.

(* the index map points at the entry that holds the variable's value *)
Theorem qop_index_points o i : qop_wf F o -> (0 <= i < qop_num_variables F o)%Z ->
  nth (Z.to_nat (qop_flat_index F o i)) (qop_stacked F o) 0 = nth (Z.to_nat i) (qop_to_var F o) 0.
Proof. destruct o as [d f v|d f h|d f v|d f h]; cbn [qop_wf qop_num_variables qop_flat_index qop_stacked qop_to_var].
  - intros [Hd W] Hi. now apply (state_points F d).
  - intros [Hd W] Hi. now apply gate_points.
  - intros (Hd & _ & W) Hi. now apply (povm_points F d (length v)).
  - intros (Hd & Hm & W) Hi. now apply mp_points. Qed.

Lemma stacked_length o : qop_wf F o -> length (qop_stacked F o) =
  match o with QState _ d _ _ => (d * d)%nat | QGate _ d _ _ => (d * d * (d * d))%nat
             | QPovm _ d _ v => (length v * (d * d))%nat | QMproc _ d _ h => (length h * (d * d * (d * d)))%nat end.
Proof. destruct o as [d f v|d f h|d f v|d f h]; cbn [qop_wf qop_stacked].
  - now intros [_ W].
  - intros [_ [Hl Hu]]. unfold gate_stacked. rewrite (length_concat_uniform (d * d)) by exact Hu. now rewrite Hl.
  - intros (_ & _ & [Hl Hu]). unfold povm_stacked. now rewrite (length_concat_uniform (d * d)) by exact Hu.
  - intros (_ & _ & [Hl Hw]). unfold mp_stacked. now apply mp_A_length. Qed.

(* calc_gradient(i) is the one-hot at that entry *)
Theorem qop_gradient_one_hot o i : qop_wf F o -> (0 <= i < qop_num_variables F o)%Z ->
  exists g, qop_gradient F o i = Some g /\ length g = length (qop_stacked F o) /\
    (Z.to_nat (qop_flat_index F o i) < length g)%nat /\
    forall j, nth j g 0 = if Nat.eqb j (Z.to_nat (qop_flat_index F o i)) then 1 else 0.
Proof. intros W Hi. rewrite (stacked_length o W).
  destruct o as [d f v|d f h|d f v|d f h]; cbn [qop_wf qop_num_variables qop_flat_index qop_gradient] in *.
  - destruct W as [Hd W]. destruct (state_index_fwd (Z.of_nat d) f i Hi) as (Fr & _ & _).
    apply free_flat_state in Fr. unfold state_gradient.
    assert (B : (0 <= flat_state (state_index_of_var f i) < Z.of_nat (d * d))%Z) by (rewrite Nat2Z.inj_mul; exact Fr).
    rewrite gradient_at_spec by exact B. eexists; split; [reflexivity|].
    assert (K : (Z.to_nat (flat_state (state_index_of_var f i)) < d * d)%nat) by lia.
    rewrite onehot_length by exact K. repeat split; [exact K|]. intros j. now apply nth_onehot.
  - destruct W as [Hd W]. destruct (gate_index_fwd (Z.of_nat d) f i ltac:(lia) Hi) as (Fr & _ & _).
    apply free_flat_gate in Fr; [|lia]. unfold gate_gradient.
    assert (B : (0 <= flat_gate (Z.of_nat d) (gate_index_of_var (Z.of_nat d) f i) < Z.of_nat (d * d * (d * d)))%Z) by (rewrite !Nat2Z.inj_mul; exact Fr).
    rewrite gradient_at_spec by exact B. eexists; split; [reflexivity|].
    assert (K : (Z.to_nat (flat_gate (Z.of_nat d) (gate_index_of_var (Z.of_nat d) f i)) < d * d * (d * d))%nat) by lia.
    rewrite onehot_length by exact K. repeat split; [exact K|]. intros j. now apply nth_onehot.
  - destruct W as (Hd & Hm & W). destruct (povm_index_fwd (Z.of_nat d) (Z.of_nat (length v)) f i ltac:(lia) Hi) as (Fr & _ & _).
    apply free_flat_povm in Fr; [|lia]. unfold povm_gradient.
    assert (B : (0 <= flat_povm (Z.of_nat d) (povm_index_of_var (Z.of_nat d * Z.of_nat d) i) < Z.of_nat (length v * (d * d)))%Z) by (rewrite !Nat2Z.inj_mul; exact Fr).
    rewrite gradient_at_spec by exact B. eexists; split; [reflexivity|].
    assert (K : (Z.to_nat (flat_povm (Z.of_nat d) (povm_index_of_var (Z.of_nat d * Z.of_nat d) i)) < length v * (d * d))%nat) by lia.
    rewrite onehot_length by exact K. repeat split; [exact K|]. intros j. now apply nth_onehot.
  - destruct W as (Hd & Hm & W). destruct (mproc_index_fwd (Z.of_nat d) (Z.of_nat (length h)) f i ltac:(lia) Hi) as (Fr & _ & _).
    apply free_flat_mproc in Fr; [|lia]. unfold mp_gradient.
    assert (B : (0 <= flat_mproc (Z.of_nat d) (mproc_index_of_var (Z.of_nat d) (Z.of_nat (length h)) f i) < Z.of_nat (length h * (d * d * (d * d))))%Z) by (rewrite !Nat2Z.inj_mul; exact Fr).
    rewrite gradient_at_spec by exact B. eexists; split; [reflexivity|].
    assert (K : (Z.to_nat (flat_mproc (Z.of_nat d) (mproc_index_of_var (Z.of_nat d) (Z.of_nat (length h)) f i)) < length h * (d * d * (d * d)))%nat) by lia.
    rewrite onehot_length by exact K. repeat split; [exact K|]. intros j. now apply nth_onehot. Qed.
End QopProofs.
