(* C09 — "the object defined by these variables": facts about the hand-written models of Model/C09_VarSem.v, for EVERY
   number of outcomes m and every block size (every ordered field).  For a measurement process with the equality
   constraint parametrised away, ref_hss_stacked (i) has m full Hilbert-Schmidt blocks, (ii) KEEPS the variables (deleting
   the d2 reconstructed entries gives var back), (iii) satisfies the constraint: the first rows of the m blocks add up
   to e_0 — so the reconstructed entries are the unique ones the constraint allows. *)
From Coq Require Import Arith Lia List Bool Ring.
From QV.Core Require Import OF.
From QV.Model Require Import C09_VarSem.
Import ListNotations.

Section V.
Context (F : OF).
Add Ring Fr9v : (c_ring (K F)).
Notation "0" := (c0 F). Notation "1" := (c1 F).

Lemma concat_chunk sz : forall k (v : list F), length v = (sz * k)%nat -> concat (chunk sz k v) = v.
Proof. induction k as [|k IH]; intros v H; cbn.
  - rewrite Nat.mul_0_r in H. now destruct v.
  - rewrite IH; [apply firstn_skipn|]. rewrite skipn_length. lia. Qed.

Lemma length_vadd_l : forall a b : list F, length (vadd_l a b) = Nat.min (length a) (length b).
Proof. induction a as [|x a IH]; intros [|y b]; cbn; try reflexivity. now rewrite IH. Qed.
Lemma length_vsub_l : forall a b : list F, length (vsub_l a b) = Nat.min (length a) (length b).
Proof. induction a as [|x a IH]; intros [|y b]; cbn; try reflexivity. now rewrite IH. Qed.
Lemma length_np_zeros n : length (np_zeros (F:=F) n) = n.
Proof. apply repeat_length. Qed.
Lemma length_sl (v : list F) a b : length (sl v a b) = Nat.min (b - a) (length v - a).
Proof. unfold sl. now rewrite firstn_length, skipn_length. Qed.
Lemma length_e0 n : length (e0 (F:=F) n) = Nat.max n 1.
Proof. unfold e0, set_item, np_zeros. destruct n; cbn; [reflexivity|]. rewrite repeat_length. lia. Qed.

(* a + (b - a) = b, entrywise, for lists of equal length *)
Lemma vadd_vsub : forall a b : list F, length a = length b -> vadd_l a (vsub_l b a) = b.
Proof. induction a as [|x a IH]; intros [|y b] H; cbn in *; try discriminate; [reflexivity|].
  f_equal; [ring|]. apply IH. lia. Qed.

(* slices *)
Lemma sl_prefix (l1 l2 : list F) a b : (a <= b)%nat -> (b <= length l1)%nat -> sl (l1 ++ l2) a b = sl l1 a b.
Proof. intros Hab Hb. unfold sl. rewrite skipn_app. replace (a - length l1)%nat with 0%nat by lia. cbn [skipn].
  rewrite firstn_app, skipn_length. replace (b - a - (length l1 - a))%nat with 0%nat by lia. cbn [firstn]. apply app_nil_r. Qed.
Lemma sl_firstn (v : list F) p a b : (a <= b)%nat -> (b <= p)%nat -> sl (firstn p v) a b = sl v a b.
Proof. intros Hab Hb. unfold sl. rewrite skipn_firstn_comm, firstn_firstn. f_equal. lia. Qed.
Lemma sl_middle (l1 row l3 : list F) : sl (l1 ++ row ++ l3) (length l1) (length l1 + length row) = row.
Proof. unfold sl. rewrite skipn_app, skipn_all, Nat.sub_diag. cbn [skipn app].
  replace (length l1 + length row - length l1)%nat with (length row) by lia.
  rewrite firstn_app, firstn_all, Nat.sub_diag. cbn [firstn]. apply app_nil_r. Qed.

Lemma first_rows_sum_ext d2 hs (r v : list F) : forall k,
  (forall x, (x < k)%nat -> sl r (hs * x) (hs * x + d2) = sl v (hs * x) (hs * x + d2)) ->
  first_rows_sum d2 hs k r = first_rows_sum d2 hs k v.
Proof. induction k as [|k IH]; intros H; cbn [first_rows_sum]; [reflexivity|].
  rewrite IH by (intros x Hx; apply H; lia). now rewrite (H k) by lia. Qed.
Lemma length_first_rows_sum d2 hs (v : list F) : forall k,
  (hs * k <= length v)%nat -> (d2 <= hs)%nat -> length (first_rows_sum d2 hs k v) = d2.
Proof. induction k as [|k IH]; intros H Hd; cbn [first_rows_sum]; [apply length_np_zeros|].
  rewrite length_vadd_l, IH, length_sl by nia. nia. Qed.

Theorem ref_hss_spec d2 m (var : list F) : (0 < d2)%nat -> (1 <= m)%nat ->
  length var = (d2 * d2 * (m - 1) + (d2 * d2 - d2))%nat ->
  let r := ref_hss_stacked d2 m var in
  length r = (d2 * d2 * m)%nat /\
  firstn (d2 * d2 * (m - 1)) r ++ skipn (d2 * d2 * (m - 1) + d2) r = var /\
  first_rows_sum d2 (d2 * d2) m r = e0 d2.
Proof. intros Hd Hm Hl r. set (hs := (d2 * d2)%nat) in *. set (p := (hs * (m - 1))%nat) in *.
  assert (Hhs : (d2 <= hs)%nat) by (unfold hs; nia).
  assert (Hp : (p <= length var)%nat) by lia.
  set (FS := first_rows_sum d2 hs (m - 1) var).
  assert (LS : length FS = d2) by (apply length_first_rows_sum; assumption).
  set (row := vsub_l (e0 d2) FS).
  assert (Lrow : length row = d2) by (unfold row; rewrite length_vsub_l, length_e0, LS; lia).
  assert (Lpre : length (firstn p var) = p) by (rewrite firstn_length; lia).
  assert (Er : r = firstn p var ++ row ++ skipn p var) by reflexivity.
  split; [|split].
  - rewrite Er, !app_length, Lpre, Lrow, skipn_length. unfold p. replace m with (Datatypes.S (m - 1)) at 2 by lia. nia.
  - rewrite Er. rewrite firstn_app, Lpre, Nat.sub_diag, firstn_all2 by lia. cbn [firstn]. rewrite app_nil_r.
    rewrite skipn_app, Lpre. replace (p + d2 - p)%nat with d2 by lia.
    rewrite (skipn_all2 (firstn p var)) by lia. cbn [app].
    rewrite skipn_app, Lrow, Nat.sub_diag, (skipn_all2 row) by lia. cbn [app skipn]. apply firstn_skipn.
  - replace m with (Datatypes.S (m - 1)) at 1 by lia. cbn [first_rows_sum]. fold p.
    rewrite (first_rows_sum_ext d2 hs r var (m - 1)).
    + fold FS. pose proof (sl_middle (firstn p var) row (skipn p var)) as X. rewrite Lpre, Lrow in X. rewrite Er, X.
      unfold row. apply vadd_vsub. rewrite LS, length_e0. lia.
    + intros x Hx. rewrite Er.
      assert ((hs * x + d2 <= p)%nat) by (unfold p; nia).
      rewrite sl_prefix by lia. apply sl_firstn; lia. Qed.
(* ---------------- POVM: the last element is  sd e_0 - sum of the others, so the elements add up to  sd e_0  (= the identity) *)
Lemma chunk_app sz (last : list F) : length last = sz -> forall k (v : list F), length v = (sz * k)%nat ->
  chunk sz (k + 1) (v ++ last) = chunk sz k v ++ [last].
Proof. intros Hl. induction k as [|k IH]; intros v Hv.
  - rewrite Nat.mul_0_r in Hv. destruct v; [|discriminate]. cbn. rewrite <- Hl at 1. now rewrite firstn_all.
  - rewrite Nat.mul_succ_r in Hv. cbn [Nat.add chunk app]. assert (sz <= length v)%nat by lia.
    rewrite firstn_app, skipn_app. replace (sz - length v)%nat with 0%nat by lia. cbn [firstn skipn]. rewrite app_nil_r.
    f_equal. apply IH. rewrite skipn_length. lia. Qed.
Lemma length_sum_rows n : forall (rows : list (list F)) (acc : list F), length acc = n ->
  (forall r, In r rows -> length r = n) -> length (fold_left vadd_l rows acc) = n.
Proof. induction rows as [|r rows IH]; intros acc Ha Hr; cbn; [exact Ha|].
  apply IH; [|intros r' Hr'; apply Hr; now right]. rewrite length_vadd_l, Ha. rewrite (Hr r) by (now left). apply Nat.min_id. Qed.
Lemma chunk_lengths sz : forall k (v : list F) r, length v = (sz * k)%nat -> In r (chunk sz k v) -> length r = sz.
Proof. induction k as [|k IH]; intros v r Hv Hin; cbn in Hin; [destruct Hin|]. rewrite Nat.mul_succ_r in Hv. destruct Hin as [<-|Hin].
  - rewrite firstn_length. lia.
  - apply (IH (skipn sz v)); [rewrite skipn_length; lia|exact Hin]. Qed.

Theorem ref_vecs_spec d2 k (sd : F) (var : list F) : (0 < d2)%nat -> length var = (d2 * k)%nat ->
  let r := ref_vecs_stacked d2 (k + 1) sd var in
  length r = (d2 * (k + 1))%nat /\ firstn (d2 * k) r = var /\
  sum_axis0 d2 (chunk d2 (k + 1) r) = sd :: np_zeros (d2 - 1).
Proof. intros Hd Hl. cbv zeta. unfold ref_vecs_stacked. replace (k + 1 - 1)%nat with k by lia.
  set (T := sd :: np_zeros (d2 - 1)). set (Sm := sum_axis0 d2 (chunk d2 k var)).
  assert (LT : length T = d2) by (unfold T; cbn; rewrite length_np_zeros; lia).
  assert (LS : length Sm = d2).
  { unfold Sm, sum_axis0. apply length_sum_rows; [apply length_np_zeros|]. intros r0 Hr0. exact (chunk_lengths d2 k var r0 Hl Hr0). }
  assert (LL : length (vsub_l T Sm) = d2) by (rewrite length_vsub_l, LT, LS; lia).
  split; [|split].
  - rewrite app_length, LL, Hl. nia.
  - rewrite <- Hl. rewrite firstn_app, Nat.sub_diag, firstn_all. cbn [firstn]. apply app_nil_r.
  - rewrite (chunk_app d2 (vsub_l T Sm) LL k var Hl). unfold sum_axis0. rewrite fold_left_app. cbn [fold_left].
    change (fold_left vadd_l (chunk d2 k var) (np_zeros d2)) with Sm. apply vadd_vsub. now rewrite LS, LT. Qed.
End V.
