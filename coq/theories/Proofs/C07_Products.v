(* C07 — the products: an object that denotes the Kronecker product of its factors in ascending name order keeps doing so
   under tensor_product, for every order and grouping of the arguments (induction over the expression tree). *)
From Coq Require Import Arith List Bool ZArith Lia Ring Permutation Sorted.
From QV.Core Require Import OF Sums Mat.
From QV.Model Require Import C07_Tensor.
From QV.Proofs Require Import C07_Kron C07_Perm C07_Loop C07_Main.
Import ListNotations.

(* ---------------------------------------------------------------- sorting by name *)
Section SortLemmas.
Context {B : Type}.
Implicit Types l : list (Z * B).
Lemma insert_perm x l : Permutation (insert_by_name x l) (x :: l).
Proof. induction l as [|y r IH]; cbn; [apply Permutation_refl|].
  destruct (fst x <? fst y)%Z; [apply Permutation_refl|].
  eapply Permutation_trans; [apply perm_skip; exact IH|apply perm_swap]. Qed.
Lemma sort_perm l : Permutation (sort_by_name l) l.
Proof. induction l as [|x r IH]; cbn; [constructor|].
  eapply Permutation_trans; [apply insert_perm|now apply perm_skip]. Qed.
Lemma insert_sorted x l : Sorted Z.le (map fst l) -> Sorted Z.le (map fst (insert_by_name x l)).
Proof. induction l as [|y r IH]; intros H; cbn; [repeat constructor|].
  destruct (Z.ltb_spec (fst x) (fst y)) as [Hlt|Hge]; cbn [map].
  - constructor; [exact H|constructor; lia].
  - cbn [map] in H. inversion H as [|? ? Hs Hh]; subst. constructor; [now apply IH|].
    destruct r as [|z r']; cbn.
    + constructor. exact Hge.
    + destruct (fst x <? fst z)%Z; cbn [map]; constructor; [exact Hge|]. inversion Hh; subst. assumption. Qed.
Lemma sort_sorted l : Sorted Z.le (map fst (sort_by_name l)).
Proof. induction l as [|x r IH]; cbn; [constructor|]. now apply insert_sorted. Qed.

Lemma sorted_perm_unique : forall l1 l2, Permutation l1 l2 -> NoDup (map fst l1) ->
  Sorted Z.le (map fst l1) -> Sorted Z.le (map fst l2) -> l1 = l2.
Proof. induction l1 as [|x t1 IH]; intros l2 Hp Hnd Hs1 Hs2.
  - apply Permutation_nil in Hp. now subst.
  - destruct l2 as [|y t2]; [apply Permutation_sym, Permutation_nil in Hp; discriminate|].
    assert (Hx : In x (y :: t2)) by (eapply Permutation_in; [exact Hp|now left]).
    assert (Hy : In y (x :: t1)) by (eapply Permutation_in; [apply Permutation_sym; exact Hp|now left]).
    apply Sorted_StronglySorted in Hs1; [|intros a b c; apply Z.le_trans].
    apply Sorted_StronglySorted in Hs2; [|intros a b c; apply Z.le_trans].
    cbn [map] in *. inversion Hs1 as [|? ? Hs1' Hf1]; subst. inversion Hs2 as [|? ? Hs2' Hf2]; subst.
    inversion Hnd as [|? ? Hni Hnd']; subst.
    assert (E : x = y).
    { destruct Hx as [E|Hx]; [now symmetry|]. destruct Hy as [E|Hy]; [exact E|]. exfalso.
      rewrite Forall_forall in Hf1, Hf2.
      assert (fst x <= fst y)%Z by (apply Hf1; now apply in_map).
      assert (fst y <= fst x)%Z by (apply Hf2; now apply in_map).
      apply Hni. replace (fst x) with (fst y) by lia. now apply in_map. }
    subst y. f_equal. apply IH.
    + eapply Permutation_cons_inv; exact Hp.
    + exact Hnd'.
    + now apply StronglySorted_Sorted.
    + now apply StronglySorted_Sorted. Qed.
End SortLemmas.

Lemma nodupb_spec l : nodupb l = true -> NoDup l.
Proof. induction l as [|x r IH]; cbn; [constructor|]. intros H. apply andb_true_iff in H. destruct H as [H1 H2].
  constructor; [|now apply IH]. intros Hin. apply negb_true_iff in H1.
  assert (existsb (Z.eqb x) r = true) by (apply existsb_exists; exists x; split; [exact Hin|apply Z.eqb_refl]). congruence. Qed.
Lemma nodupb_complete l : NoDup l -> nodupb l = true.
Proof. induction 1 as [|x r Hni _ IH]; cbn; [reflexivity|]. rewrite IH, andb_true_r. apply negb_true_iff.
  destruct (existsb (Z.eqb x) r) eqn:E; [|reflexivity]. apply existsb_exists in E. destruct E as (y & Hy & E).
  apply Z.eqb_eq in E. subst. contradiction. Qed.
Lemma combine_fst_snd {A B : Type} (l : list (A * B)) : combine (map fst l) (map snd l) = l.
Proof. induction l as [|[a b] r IH]; cbn; [reflexivity|]. now rewrite IH. Qed.
Lemma map_fst_combine {A B : Type} (l1 : list A) : forall l2 : list B, length l1 = length l2 -> map fst (combine l1 l2) = l1.
Proof. induction l1 as [|a r IH]; intros [|b s] H; cbn in *; try lia; [reflexivity|]. now rewrite IH by lia. Qed.
Lemma map_snd_combine {A B : Type} (l1 : list A) : forall l2 : list B, length l1 = length l2 -> map snd (combine l1 l2) = l2.
Proof. induction l1 as [|a r IH]; intros [|b s] H; cbn in *; try lia; [reflexivity|]. now rewrite IH by lia. Qed.
Lemma combine_map_pair {A B C D : Type} (f : A -> C) (g : A -> D) (h : A -> B) (l : list A) :
  combine (map h l) (combine (map f l) (map g l)) = map (fun x => (h x, (f x, g x))) l.
Proof. induction l as [|a r IH]; cbn; [reflexivity|]. now rewrite IH. Qed.
Lemma nodup_app_l {A : Type} (l1 l2 : list A) : NoDup (l1 ++ l2) -> NoDup l1.
Proof. induction l1 as [|x r IH]; cbn; intros H; [constructor|]. inversion H; subst. constructor; [|now apply IH].
  intros Hin. apply H2. apply in_or_app. now left. Qed.
Lemma nodup_app_r {A : Type} (l1 l2 : list A) : NoDup (l1 ++ l2) -> NoDup l2.
Proof. induction l1 as [|x r IH]; cbn; intros H; [exact H|]. inversion H; subst. now apply IH. Qed.
Lemma prodn_perm l1 l2 : Permutation l1 l2 -> prodn l1 = prodn l2.
Proof. unfold prodn. induction 1; simpl; lia. Qed.

Section Products.
Context {R : CR}.
Add Ring Rpr : (c_ring R).
Notation "0" := (c0 R). Notation "1" := (c1 R).
Infix "+" := (cadd R). Infix "*" := (cmul R).
Local Notation mat := (@Mat.mat R). Local Notation vec := (@Mat.vec R).
Local Notation rfac := (@rfac R). Local Notation robj := (@robj R). Local Notation texp := (@texp R).

(* o denotes the Kronecker product of the factors [items] (name, factor), names ascending and distinct *)
Definition denotes (o : robj) (items : list (Z * rfac)) : Prop :=
  let fs := map snd items in
  o_names o = map fst items /\ o_rs o = map frows fs /\ o_cs o = map fcols fs /\
  Sorted Z.le (map fst items) /\ NoDup (map fst items) /\ Forall fpos fs /\
  meq (rsize fs) (csize fs) (o_m o) (tensm fs).
Definition fsquare (f : rfac) : Prop := frows f = fcols f.
Definition kind_ok (k : kind) (fs : list rfac) : Prop :=
  match k with KVec => Forall onecol fs | KRows => True | KHs => Forall fsquare fs end.
Lemma kind_ok_perm k fs fs' : Permutation fs fs' -> kind_ok k fs -> kind_ok k fs'.
Proof. intros Hp. destruct k; cbn; [apply Permutation_Forall; exact Hp|auto|apply Permutation_Forall; exact Hp]. Qed.
Lemma square_sizes (fs : list rfac) : Forall fsquare fs -> map fcols fs = map frows fs.
Proof. induction 1 as [|f r Hf _ IH]; cbn; [reflexivity|]. now rewrite IH, Hf. Qed.

Theorem perm_col_sorts md fuel names (fs : list rfac) (Q : mat) :
  length names = length fs -> Forall fpos fs -> Forall onecol fs -> (md = Fixed \/ length names <= 3)%nat ->
  calc_perm_matrix md fuel names (map frows fs) = POk Q ->
  exists names' fs', Permutation (combine names fs) (combine names' fs') /\ length names' = length fs' /\
    Sorted Z.le names' /\ meq (rsize fs) 1 (mmul (rsize fs) Q (tensm fs)) (tensm fs').
Proof. intros Hl Hpos Hone Hmd HQ.
  pose proof (loop_sound_col rfac (fun f => f) md fuel names fs mid Q (tensm fs)) as L.
  rewrite !map_id in L. destruct (L Hl Hpos Hone Hmd HQ (mmul_mid_l _ _ _)) as (names' & fs' & H1 & H2 & H3 & H4).
  exists names', fs'. rewrite map_id in H4. now repeat split. Qed.

(* the product matrix before permutation is the Kronecker product of all factors in argument order *)
Lemma X_denotes k (o1 o2 : robj) items1 items2 : denotes o1 items1 -> denotes o2 items2 ->
  kind_ok k (map snd (items1 ++ items2)) ->
  let fs := map snd (items1 ++ items2) in
  meq (rsize fs) (csize fs)
    (match k with
     | KHs => hs_hs_core (prodn (o_rs o1)) (prodn (o_rs o2)) (o_m o1) (o_m o2)
     | _ => kron (prodn (o_rs o2)) (prodn (o_cs o2)) (o_m o1) (o_m o2)
     end) (tensm fs).
Proof. intros (N1 & R1 & C1 & _ & _ & F1 & M1) (N2 & R2 & C2 & _ & _ & F2 & M2) Hk fs.
  unfold fs. rewrite map_app in *. set (fs1 := map snd items1) in *. set (fs2 := map snd items2) in *.
  pose proof (rsize_pos fs2 F2) as Hr2. pose proof (csize_pos fs2 F2) as Hc2.
  assert (G : meq (rsize (fs1 ++ fs2)) (csize (fs1 ++ fs2)) (kron (rsize fs2) (csize fs2) (o_m o1) (o_m o2)) (tensm (fs1 ++ fs2))).
  { eapply meq_trans; [|apply meq_sym; now apply tensm_app]. rewrite rsize_app, csize_app. now apply kron_ext. }
  rewrite R1, R2, C2. fold (rsize fs1) (rsize fs2) (csize fs2).
  destruct k; try exact G.
  cbn [kind_ok] in Hk. apply Forall_app in Hk. destruct Hk as [K1 K2].
  assert (Ec2 : csize fs2 = rsize fs2) by (unfold csize, rsize; now rewrite square_sizes).
  assert (Ec1 : csize fs1 = rsize fs1) by (unfold csize, rsize; now rewrite square_sizes).
  eapply meq_trans; [|exact G]. rewrite rsize_app, csize_app, Ec1, Ec2. apply hs_hs_core_kron. Qed.

Theorem tp_obj_sound k md fuel (o1 o2 o : robj) items1 items2 :
  denotes o1 items1 -> denotes o2 items2 -> kind_ok k (map snd (items1 ++ items2)) ->
  (md = Fixed \/ length (items1 ++ items2) <= 3)%nat ->
  tp_obj k md fuel o1 o2 = POk o ->
  exists items, Permutation (items1 ++ items2) items /\ denotes o items.
Proof. intros D1 D2 Hk Hmd H.
  pose proof (X_denotes k o1 o2 items1 items2 D1 D2 Hk) as HX. cbv zeta in HX.
  destruct D1 as (N1 & R1 & C1 & _ & _ & F1 & _). destruct D2 as (N2 & R2 & C2 & _ & _ & F2 & _).
  set (items := items1 ++ items2) in *. set (fs := map snd items) in *.
  assert (EN : o_names o1 ++ o_names o2 = map fst items) by (unfold items; rewrite map_app; congruence).
  assert (ER : o_rs o1 ++ o_rs o2 = map frows fs) by (unfold fs, items; rewrite !map_app; congruence).
  assert (EC : o_cs o1 ++ o_cs o2 = map fcols fs) by (unfold fs, items; rewrite !map_app; congruence).
  assert (Ffs : Forall fpos fs) by (unfold fs, items; rewrite map_app; apply Forall_app; now split).
  assert (Hlen : length (map fst items) = length fs) by (unfold fs; now rewrite !map_length).
  assert (Hmd' : (md = Fixed \/ length (map fst items) <= 3)%nat) by (rewrite map_length; exact Hmd).
  unfold tp_obj in H. rewrite EN, ER, EC in H.
  destruct (nodupb (map fst items)) eqn:End; cbn [negb] in H; [|discriminate].
  apply nodupb_spec in End.
  set (srt := sort_by_name (combine (map fst items) (combine (map frows fs) (map fcols fs)))) in *.
  (* common final step: given the sorted permutation found by the loop, the composite system computed by sorting is the same *)
  assert (Fin : forall names' fs' M, Permutation (combine (map fst items) fs) (combine names' fs') -> length names' = length fs' ->
            Sorted Z.le names' -> meq (rsize fs) (csize fs) M (tensm fs') ->
            exists items', Permutation items items' /\
              denotes {| o_names := map fst srt; o_rs := map (fun x => fst (snd x)) srt; o_cs := map (fun x => snd (snd x)) srt; o_m := M |} items').
  { intros names' fs' M Hperm Hl' Hs HM. exists (combine names' fs').
    unfold fs in Hperm. rewrite combine_fst_snd in Hperm. split; [exact Hperm|].
    set (items' := combine names' fs') in *.
    assert (Efst : map fst items' = names') by (now apply map_fst_combine).
    assert (Esnd : map snd items' = fs') by (now apply map_snd_combine).
    assert (Esrt : srt = map (fun x => (fst x, (frows (snd x), fcols (snd x)))) items').
    { apply sorted_perm_unique.
      - unfold srt. eapply Permutation_trans; [apply sort_perm|]. unfold fs. rewrite !map_map.
        rewrite (combine_map_pair (fun x => frows (snd x)) (fun x => fcols (snd x)) fst items).
        apply Permutation_map. exact Hperm.
      - eapply Permutation_NoDup; [|exact End]. unfold srt. apply Permutation_sym.
        eapply Permutation_trans; [apply Permutation_map; apply sort_perm|].
        unfold fs. rewrite !map_map. rewrite (combine_map_pair (fun x => frows (snd x)) (fun x => fcols (snd x)) fst items).
        rewrite map_map. cbn [fst]. apply Permutation_refl.
      - apply sort_sorted.
      - rewrite map_map. cbn [fst]. change (map (fun x => fst x) items') with (map fst items'). now rewrite Efst. }
    unfold denotes. cbn [o_names o_rs o_cs o_m]. rewrite Esrt, !map_map. cbn [fst snd]. rewrite Esnd.
    repeat split.
    - now rewrite Efst.
    - eapply Permutation_NoDup; [|exact End]. now apply Permutation_map.
    - rewrite <- Esnd. eapply Permutation_Forall; [|exact Ffs]. unfold fs. now apply Permutation_map.
    - assert (Pf : Permutation fs fs') by (rewrite <- Esnd; unfold fs; now apply Permutation_map).
      replace (rsize fs') with (rsize fs) by (unfold rsize; apply prodn_perm; now apply Permutation_map).
      replace (csize fs') with (csize fs) by (unfold csize; apply prodn_perm; now apply Permutation_map).
      exact HM. }
  destruct k.
  - (* one-sided *)
    destruct (calc_perm_matrix md fuel (map fst items) (map frows fs)) as [Q|c] eqn:EQ; [|discriminate].
    inversion H; subst o; clear H.
    destruct (perm_col_sorts md fuel (map fst items) fs Q Hlen Ffs Hk Hmd' EQ) as (names' & fs' & Hperm & Hl' & Hs & HM).
    apply (Fin names' fs'); try assumption.
    assert (Ec1 : csize fs = 1%nat) by (now apply csize_onecol). rewrite Ec1.
    eapply meq_trans; [|exact HM]. fold (rsize fs). apply mmul_ext; [apply meq_refl|]. rewrite <- Ec1. exact HX.
  - destruct (calc_perm_matrix md fuel (map fst items) (map fcols fs)) as [P|c] eqn:EP; [|discriminate].
    destruct (calc_perm_matrix md fuel (map fst items) (map frows fs)) as [Q|c] eqn:EQ; [|discriminate].
    inversion H; subst o; clear H.
    pose proof (perm_rect_sorts (fun f : rfac => f) md fuel (map fst items) fs Q P) as L. cbv zeta in L. rewrite !map_id in L.
    destruct (L Hlen Ffs Hmd' EQ EP) as (names' & fs' & Hperm & Hl' & Hs & HM). rewrite map_id in HM.
    apply (Fin names' fs'); try assumption.
    eapply meq_trans; [|exact HM]. fold (rsize fs) (csize fs).
    apply mmul_ext; [|apply meq_refl]. apply mmul_ext; [apply meq_refl|exact HX].
  - destruct (calc_perm_matrix md fuel (map fst items) (map fcols fs)) as [P|c] eqn:EP; [|discriminate].
    destruct (calc_perm_matrix md fuel (map fst items) (map frows fs)) as [Q|c] eqn:EQ; [|discriminate].
    inversion H; subst o; clear H.
    pose proof (perm_rect_sorts (fun f : rfac => f) md fuel (map fst items) fs Q P) as L. cbv zeta in L. rewrite !map_id in L.
    destruct (L Hlen Ffs Hmd' EQ EP) as (names' & fs' & Hperm & Hl' & Hs & HM). rewrite map_id in HM.
    apply (Fin names' fs'); try assumption.
    eapply meq_trans; [|exact HM]. fold (rsize fs) (csize fs).
    apply mmul_ext; [|apply meq_refl]. apply mmul_ext; [apply meq_refl|exact HX]. Qed.

(* ---- any order, any grouping: expression trees whose leaves denote products of factors *)
Inductive dtree := DLeaf (o : robj) (items : list (Z * rfac)) | DNode (l r : dtree).
Fixpoint erase (d : dtree) : texp :=
  match d with DLeaf o _ => TLeaf o | DNode l r => TNode (erase l) (erase r) end.
Fixpoint ditems (d : dtree) : list (Z * rfac) :=
  match d with DLeaf _ it => it | DNode l r => ditems l ++ ditems r end.
Fixpoint dwf (d : dtree) : Prop :=
  match d with DLeaf o it => denotes o it | DNode l r => dwf l /\ dwf r end.

Lemma kind_ok_app k (l1 l2 : list rfac) : kind_ok k (l1 ++ l2) <-> kind_ok k l1 /\ kind_ok k l2.
Proof. destruct k; cbn; [apply Forall_app|tauto|apply Forall_app]. Qed.

Theorem eval_sound k md fuel : forall d o, dwf d -> kind_ok k (map snd (ditems d)) ->
  (md = Fixed \/ length (ditems d) <= 3)%nat ->
  eval k md fuel (erase d) = POk o -> exists items, Permutation (ditems d) items /\ denotes o items.
Proof. induction d as [o0 it|l IHl r IHr]; intros o Hwf Hk Hmd H; cbn in *.
  - inversion H; subst. exists it. split; [apply Permutation_refl|exact Hwf].
  - destruct Hwf as [Wl Wr]. rewrite map_app in Hk. apply kind_ok_app in Hk. destruct Hk as [Kl Kr].
    rewrite app_length in Hmd.
    destruct (eval k md fuel (erase l)) as [a|c] eqn:Ea; [|discriminate].
    destruct (eval k md fuel (erase r)) as [b|c] eqn:Eb; [|discriminate].
    destruct (IHl a Wl Kl ltac:(destruct Hmd; [now left|right; lia]) eq_refl) as (ia & Pa & Da).
    destruct (IHr b Wr Kr ltac:(destruct Hmd; [now left|right; lia]) eq_refl) as (ib & Pb & Db).
    assert (Pab : Permutation (ditems l ++ ditems r) (ia ++ ib)) by (now apply Permutation_app).
    destruct (tp_obj_sound k md fuel a b o ia ib Da Db) as (items & Pi & Di).
    + eapply kind_ok_perm; [apply Permutation_map; exact Pab|]. rewrite map_app. apply kind_ok_app. now split.
    + rewrite <- (Permutation_length Pab), app_length. exact Hmd.
    + exact H.
    + exists items. split; [|exact Di]. eapply Permutation_trans; [exact Pab|exact Pi]. Qed.

(* no error: distinct names and n^2 fuel (the Python loop is unbounded) *)
Theorem tp_obj_total k md fuel (o1 o2 : robj) items1 items2 :
  denotes o1 items1 -> denotes o2 items2 -> NoDup (map fst (items1 ++ items2)) ->
  (md = Fixed \/ length (items1 ++ items2) <= 3)%nat ->
  (length (items1 ++ items2) * length (items1 ++ items2) <= fuel)%nat ->
  exists o, tp_obj k md fuel o1 o2 = POk o.
Proof. intros (N1 & R1 & C1 & _) (N2 & R2 & C2 & _) Hnd Hmd Hfuel.
  set (items := items1 ++ items2) in *. set (fs := map snd items) in *.
  assert (EN : o_names o1 ++ o_names o2 = map fst items) by (unfold items; rewrite map_app; congruence).
  assert (ER : o_rs o1 ++ o_rs o2 = map frows fs) by (unfold fs, items; rewrite !map_app; congruence).
  assert (EC : o_cs o1 ++ o_cs o2 = map fcols fs) by (unfold fs, items; rewrite !map_app; congruence).
  unfold tp_obj. rewrite EN, ER, EC. rewrite (nodupb_complete _ Hnd). cbn [negb].
  assert (Hinv : (inversions (map fst items) <= fuel)%nat).
  { eapply Nat.le_trans; [apply inversions_le|]. now rewrite map_length. }
  assert (Hmd' : (md = Fixed \/ length (map fst items) <= 3)%nat) by (now rewrite map_length).
  destruct (@perm_terminates R md fuel (map fst items) (map frows fs)) as (Q & EQ); try assumption.
  { unfold fs. now rewrite !map_length. }
  destruct (@perm_terminates R md fuel (map fst items) (map fcols fs)) as (P & EP); try assumption.
  { unfold fs. now rewrite !map_length. }
  rewrite EQ, EP. destruct k; eexists; reflexivity. Qed.

Theorem eval_total k md fuel : forall d, dwf d -> kind_ok k (map snd (ditems d)) -> NoDup (map fst (ditems d)) ->
  (md = Fixed \/ length (ditems d) <= 3)%nat -> (length (ditems d) * length (ditems d) <= fuel)%nat ->
  exists o, eval k md fuel (erase d) = POk o.
Proof. induction d as [o0 it|l IHl r IHr]; intros Hwf Hk Hnd Hmd Hfuel; cbn in *.
  - eexists; reflexivity.
  - destruct Hwf as [Wl Wr]. rewrite map_app in Hk, Hnd. apply kind_ok_app in Hk. destruct Hk as [Kl Kr].
    rewrite app_length in Hmd, Hfuel.
    assert (Hml : (md = Fixed \/ length (ditems l) <= 3)%nat) by (destruct Hmd; [now left|right; lia]).
    assert (Hmr : (md = Fixed \/ length (ditems r) <= 3)%nat) by (destruct Hmd; [now left|right; lia]).
    assert (Hfl : (length (ditems l) * length (ditems l) <= fuel)%nat).
    { eapply Nat.le_trans; [|exact Hfuel]. apply Nat.mul_le_mono; lia. }
    assert (Hfr : (length (ditems r) * length (ditems r) <= fuel)%nat).
    { eapply Nat.le_trans; [|exact Hfuel]. apply Nat.mul_le_mono; lia. }
    destruct (IHl Wl Kl (nodup_app_l _ _ Hnd) Hml Hfl) as (a & Ea).
    destruct (IHr Wr Kr (nodup_app_r _ _ Hnd) Hmr Hfr) as (b & Eb).
    rewrite Ea, Eb.
    destruct (eval_sound k md fuel l a Wl Kl Hml Ea) as (ia & Pa & Da).
    destruct (eval_sound k md fuel r b Wr Kr Hmr Eb) as (ib & Pb & Db).
    assert (Pab : Permutation (ditems l ++ ditems r) (ia ++ ib)) by (now apply Permutation_app).
    apply (tp_obj_total k md fuel a b ia ib Da Db).
    + eapply Permutation_NoDup; [apply Permutation_map; exact Pab|]. now rewrite map_app.
    + rewrite <- (Permutation_length Pab), app_length. exact Hmd.
    + rewrite <- (Permutation_length Pab), app_length. exact Hfuel. Qed.

(* ---- product statistics *)
Local Notation vfac := (@vfac R).
Fixpoint apply_facs (fs : list rfac) (xs : list vfac) : list vfac :=
  match fs, xs with
  | f :: r, x :: s => (frows f, mv (fcols f) (fmat f) (snd x)) :: apply_facs r s
  | _, _ => []
  end.
Lemma vsize_apply_facs (fs : list rfac) : forall xs, length xs = length fs -> vsize (apply_facs fs xs) = rsize fs.
Proof. induction fs as [|f r IH]; intros [|x s] H; cbn in H; try lia; [reflexivity|].
  cbn [apply_facs]. unfold vsize, rsize in *. cbn [map fst]. rewrite !prodn_cons. rewrite IH by lia. reflexivity. Qed.
(* ((x) V_k) ((x) x_k) = (x) (V_k x_k) *)
Lemma tensm_mv_tens (fs : list rfac) : forall xs, Forall fpos fs -> map fst xs = map fcols fs ->
  forall i, mv (csize fs) (tensm fs) (tens xs) i = tens (apply_facs fs xs) i.
Proof. induction fs as [|f r IH]; intros [|x s] Hpos Hsz i; cbn in Hsz; try discriminate.
  - cbn. unfold mv. cbn. ring.
  - inversion Hpos as [|? ? Hf Hr]; subst. inversion Hsz as [[E1 E2]].
    cbn [tensm tens apply_facs]. rewrite csize_cons.
    replace (vsize s) with (csize r) by (unfold vsize, csize; now rewrite E2).
    rewrite kron_mixed_v by (now apply csize_pos).
    rewrite vsize_apply_facs by (apply (f_equal (@length nat)) in E2; now rewrite !map_length in E2).
    unfold kronv. now rewrite IH. Qed.

(* row-major multi-index (nat version of C16's row_major) and the value of a Kronecker product of vectors there *)
Fixpoint rmaj (shape idx : list nat) : nat :=
  match shape, idx with n :: t, x :: xs => (x * prodn t + rmaj t xs)%nat | _, _ => 0%nat end.
Fixpoint prodvals (fs : list vfac) (idx : list nat) : R :=
  match fs, idx with f :: r, x :: xs => snd f x * prodvals r xs | _, _ => 1 end.
Lemma rmaj_lt shape : forall idx, Forall2 (fun n x => (x < n)%nat) shape idx -> (rmaj shape idx < prodn shape)%nat.
Proof. induction shape as [|n t IH]; intros idx H; inversion H; subst; cbn [rmaj]; [cbn; lia|].
  rewrite prodn_cons. specialize (IH _ H4). nia. Qed.
Theorem tens_rmaj (fs : list vfac) : forall idx, Forall2 (fun n x => (x < n)%nat) (map fst fs) idx ->
  tens fs (rmaj (map fst fs) idx) = prodvals fs idx.
Proof. induction fs as [|f r IH]; intros idx H; inversion H; subst; cbn [map rmaj tens prodvals]; [reflexivity|].
  unfold kronv. fold (vsize r). pose proof (rmaj_lt _ _ H4) as Hlt. fold (vsize r) in Hlt.
  destruct (divmod_flat y (rmaj (map fst r) l') (vsize r) Hlt) as [-> ->]. now rewrite IH. Qed.

(* product measurement on a product state: the probability at the row-major position of the multi-index [idx]
   (shape = the local outcome counts in the object's subsystem order) is the product of the local probabilities *)
Theorem product_statistics (fs : list rfac) (xs : list vfac) idx :
  Forall fpos fs -> map fst xs = map fcols fs -> Forall2 (fun n x => (x < n)%nat) (map frows fs) idx ->
  mv (csize fs) (tensm fs) (tens xs) (rmaj (map frows fs) idx) = prodvals (apply_facs fs xs) idx.
Proof. intros Hpos Hsz Hidx. rewrite tensm_mv_tens by assumption.
  assert (E : map fst (apply_facs fs xs) = map frows fs).
  { clear Hidx Hpos. revert xs Hsz. induction fs as [|f r IH]; intros [|x s] Hsz; cbn in *; try discriminate; [reflexivity|].
    inversion Hsz. now rewrite IH. }
  rewrite <- E in *. now apply tens_rmaj. Qed.

(* ---- MProcess (x) MProcess: which pair of outcomes sits at the position the reported shape (n1, n2) assigns to (i1, i2) *)
Theorem mp_layout_fixed n1 n2 i1 i2 : (i1 < n1)%nat -> (i2 < n2)%nat ->
  mp_slot Fixed n1 n2 (rmaj [n1; n2] [i1; i2]) = (i1, i2).
Proof. intros H1 H2. cbn. unfold mp_slot_fixed. rewrite !Nat.mul_1_r, Nat.add_0_r.
  now destruct (divmod_flat i1 i2 n2 H2) as [-> ->]. Qed.
(* what the loops of the code do: column-major, i.e. the layout of shape (n2, n1) *)
Theorem mp_layout_coded n1 n2 i1 i2 : (i1 < n1)%nat -> (i2 < n2)%nat ->
  mp_slot Coded n1 n2 (rmaj [n2; n1] [i2; i1]) = (i1, i2).
Proof. intros H1 H2. cbn. unfold mp_slot_coded. rewrite !Nat.mul_1_r, Nat.add_0_r.
  now destruct (divmod_flat i2 i1 n1 H1) as [-> ->]. Qed.
End Products.

Theorem mp_layout_refuted :
  exists n1 n2 i1 i2, (i1 < n1)%nat /\ (i2 < n2)%nat /\ mp_slot Coded n1 n2 (rmaj [n1; n2] [i1; i2]) <> (i1, i2).
Proof. exists 3%nat, 2%nat, 0%nat, 1%nat. repeat split; try lia. cbn. discriminate. Qed.
(* with equal outcome counts the two operands' outcomes are exchanged *)
Theorem mp_layout_equal_counts n i1 i2 : (i1 < n)%nat -> (i2 < n)%nat ->
  mp_slot Coded n n (rmaj [n; n] [i1; i2]) = (i2, i1).
Proof. intros H1 H2. cbn. unfold mp_slot_coded. rewrite !Nat.mul_1_r, Nat.add_0_r.
  now destruct (divmod_flat i1 i2 n H2) as [-> ->]. Qed.
