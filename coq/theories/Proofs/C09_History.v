(* C09 — a history of jobs on one estimator object = the map of the jobs on fresh objects; consequences. *)
From Coq Require Import Arith Lia List Bool ZArith.
From QV.Core Require Import OF Sums Mat.
From QV.Model Require Import C09_LinEst C09_History.
From QV.Proofs Require Import C09_LinEst.
Import ListNotations.

Section H.
Context (F : OF).
Notation job := (job F).

Theorem history_is_map (st : est_state) (jobs : list job) : run_history st jobs = map run_job jobs.
Proof. revert st. induction jobs as [|j rest IH]; intros st; cbn; [reflexivity|]. now rewrite IH. Qed.

(* the result of a job does not depend on what was estimated before it or after it *)
Theorem history_position_independent (st : est_state) (pre post : list job) (j : job) :
  nth_error (run_history st (pre ++ j :: post)) (length pre) = Some (run_job j).
Proof. rewrite history_is_map, map_app. rewrite nth_error_app2 by (rewrite map_length; lia).
  rewrite map_length, Nat.sub_diag. reflexivity. Qed.

(* two histories that contain the same job give it the same result, wherever it stands *)
Theorem history_same_job_same_result (st st' : est_state) (pre post pre' post' : list job) (j : job) :
  nth_error (run_history st (pre ++ j :: post)) (length pre) =
  nth_error (run_history st' (pre' ++ j :: post')) (length pre').
Proof. now rewrite !history_position_independent. Qed.

Theorem history_length (st : est_state) (jobs : list job) : length (run_history st jobs) = length jobs.
Proof. rewrite history_is_map. apply map_length. Qed.

(* splitting a history / continuing with the same object = concatenating the results *)
Theorem history_app (st : est_state) (jobs1 jobs2 : list job) :
  run_history st (jobs1 ++ jobs2) = run_history st jobs1 ++ run_history st jobs2.
Proof. rewrite !history_is_map. apply map_app. Qed.

(* exact recovery at ANY position of ANY history: a job that returns, whose dataset i holds the exact data of v,
   returns v at position i — whatever tomographies and data the object has seen before *)
Theorem history_exact_recovery (st : est_state) (pre post : list job) (j : job) xs (v : @vec F) :
  nth_error (run_history st (pre ++ j :: post)) (length pre) = Some (E_ok xs) ->
  Forall2 (fun ds x => forall f, flat_ok F (j_m j) ds f -> veq (j_m j) (vofl f) (predict (j_n j) (j_A j) (vofl (j_b j)) v) ->
                       length x = j_n j /\ veq (j_n j) (vofl x) v) (j_sq j) xs.
Proof. rewrite history_position_independent. intros H. injection H as H.
  exact (coded_exact_recovery F (j_m j) (j_n j) (j_A j) (j_b j) (j_sq j) xs v H). Qed.
(* ------------------------------------------------------------------ the result is a function of the CONTENTS of matA
   (its m x n entries), of vecB and of the data — not of the object that supplies them: two tomographies with entrywise
   equal matA give identical results, error branches included *)
Lemma lvec_ext n (u v : @vec F) : veq n u v -> lvec n u = lvec n v.
Proof. intros H. unfold lvec. apply map_ext_in. intros i Hi. apply in_seq in Hi. apply H. lia. Qed.
Lemma lrows_ext m n (A A' : @mat F) : meq m n A A' -> lrows m n A = lrows m n A'.
Proof. intros H. unfold lrows. apply map_ext_in. intros i Hi. apply in_seq in Hi. apply lvec_ext. intros j Hj. apply H; lia. Qed.
Lemma gram_ext m n (A A' : @mat F) : meq m n A A' -> meq n n (gram m A) (gram m A').
Proof. intros H i j Hi Hj. unfold gram, mmul, mT. apply sumn_ext. intros k Hk. now rewrite (H k i Hk Hi), (H k j Hk Hj). Qed.
Lemma solve_ext m n (A A' : @mat F) : meq m n A A' -> solve m n A = solve m n A'.
Proof. intros H. unfold solve, mfrz. now rewrite (lrows_ext n n _ _ (gram_ext m n A A' H)). Qed.
Lemma one_estimate_ext m n (M A A' : @mat F) b f : meq m n A A' -> one_estimate m n M A b f = one_estimate m n M A' b f.
Proof. intros H. unfold one_estimate, estimate_x. set (Y := vfrz m (vsub (vofl f) (vofl b))). unfold vfrz.
  rewrite (lvec_ext n (mv m (mT A) Y) (mv m (mT A') Y)); [reflexivity|].
  intros j Hj. unfold mv, mT. apply sumn_ext. intros k Hk. now rewrite (H k j Hk Hj). Qed.
Lemma est_loop_with_ext stack (one one' : list F -> list F) m : (forall f, one f = one' f) ->
  forall (sq : list (dataset F)) acc, est_loop_with stack one m sq acc = est_loop_with stack one' m sq acc.
Proof. intros H. induction sq as [|ds rest IH]; intros acc; cbn; [reflexivity|].
  destruct (stack (map snd ds)) as [f|]; [|reflexivity]. destruct (Nat.eqb (length f) m); [|reflexivity].
  rewrite H. apply IH. Qed.

Theorem calc_estimate_sequence_ext m n (A A' : @mat F) b (sq : list (dataset F)) :
  meq m n A A' -> calc_estimate_sequence m n A b sq = calc_estimate_sequence m n A' b sq.
Proof. intros H. unfold calc_estimate_sequence, calc_estimate_sequence_with, coded_guard, rank_of.
  rewrite (lrows_ext m n A A' H), (solve_ext m n A A' H).
  destruct (negb _); [reflexivity|]. destruct (solve m n A') as [M|w|]; try reflexivity.
  apply est_loop_with_ext. intros f. now apply one_estimate_ext. Qed.
End H.
