(* C03 — the executed wrappers of Exec/C03_ops.v compute the MODEL functions of the arguments the harness encodes:
   sizes travel as four length-prefixed blocks, objects as (type code, d, m, flag, stacked vector).  These lemmas close the step
   "op(request) = model(intended arguments)"; that harness/props/c03.py builds the request in this format is 3 lines of Python. *)
From Coq Require Import ZArith QArith Qcanon Bool List Arith Lia.
From QV.Core Require Import OF QcOF.
From QV.Exec Require Import Base C03_ops.
From QV.Model Require Import C03_Index C03_VarObj C03_SetQOps.
From QV.Proofs Require Import C03_Lists C03_VarObj.
Import ListNotations.

(* ------------------------------------------------------------------ size families *)
Definition encode_block (l : list Z) : list Z := Z.of_nat (length l) :: l.
Definition encode_sizes (s : sizes) : list Z :=
  encode_block (s KState) ++ encode_block (s KGate) ++ encode_block (s KPovm) ++ encode_block (s KMproc).

Lemma block_encode (a r : list Z) : block (encode_block a ++ r) = (a, r).
Proof. unfold encode_block, block. cbn [app]. rewrite Nat2Z.id. now rewrite firstn_app_exact, skipn_app_exact. Qed.

Theorem read_sizes_encode (s : sizes) (k : kind) : read_sizes (encode_sizes s) k = s k.
Proof. unfold read_sizes, encode_sizes. rewrite block_encode, block_encode, block_encode.
  rewrite <- (app_nil_r (encode_block (s KMproc))), block_encode. now destruct k. Qed.

Lemma kind_of_code k : kind_of (code_of k) = k.
Proof. now destruct k. Qed.

Lemma sumz_ext_sizes (s s' : sizes) : (forall k, s k = s' k) ->
  (forall k, first_index s k = first_index s' k) /\ size_total s = size_total s'.
Proof. intros H. unfold first_index, size_total, size_kind. split; [intros k; destruct k|]; now rewrite ?H. Qed.

Lemma local_from_total_ext (s s' : sizes) t : (forall k, s k = s' k) -> local_from_total s t = local_from_total s' t.
Proof. intros H. destruct (sumz_ext_sizes s s' H) as [Hf Ht]. unfold local_from_total, mode_of_total.
  rewrite !Hf, Ht. destruct (_ && _); [now rewrite H, Hf|]. destruct (_ && _); [now rewrite H, Hf|].
  destruct (_ && _); [now rewrite H, Hf|]. destruct (_ && _); [now rewrite H, Hf|reflexivity]. Qed.
Lemma total_from_local_ext (s s' : sizes) k i j : (forall k, s k = s' k) -> total_from_local s k i j = total_from_local s' k i j.
Proof. intros H. destruct (sumz_ext_sizes s s' H) as [Hf _]. unfold total_from_local. now rewrite H, Hf. Qed.

Theorem op_local_from_total_spec (s : sizes) (t : Z) (qs : list Qc) :
  op_local_from_total (t :: encode_sizes s) qs =
  match local_from_total s t with
  | LOk k i j => Ok [qz (code_of k); qz i; qz j]
  | LIndexError => Err 3
  | LUnbound => Err 4
  end.
Proof. unfold op_local_from_total. now rewrite (local_from_total_ext _ s t (read_sizes_encode s)). Qed.

Theorem op_total_from_local_spec (s : sizes) (k : kind) (i j : Z) (qs : list Qc) :
  op_total_from_local (code_of k :: i :: j :: encode_sizes s) qs =
  match total_from_local s k i j with Some t => Ok [qz t] | None => Err 3 end.
Proof. unfold op_total_from_local. rewrite kind_of_code. now rewrite (total_from_local_ext _ s k i j (read_sizes_encode s)). Qed.

(* ------------------------------------------------------------------ objects *)
Definition qop_code (o : qop Qc_OF) : Z := match o with QState _ _ _ _ => 0 | QGate _ _ _ _ => 1 | QPovm _ _ _ _ => 2 | QMproc _ _ _ _ => 3 end.
Definition qop_d (o : qop Qc_OF) : nat := match o with QState _ d _ _ | QGate _ d _ _ | QPovm _ d _ _ | QMproc _ d _ _ => d end.
Definition qop_flag (o : qop Qc_OF) : bool := match o with QState _ _ f _ | QGate _ _ f _ | QPovm _ _ f _ | QMproc _ _ f _ => f end.
Definition qop_m (o : qop Qc_OF) : nat := match o with QPovm _ _ _ v => length v | QMproc _ _ _ h => length h | _ => 0 end.
Definition flag_code (f : bool) : Z := if f then 1 else 0.
Lemma fl_flag_code f : fl (flag_code f) = f. Proof. now destruct f. Qed.
Lemma nn_of_nat d : nn (Z.of_nat d) = (d * d)%nat. Proof. unfold nn. now rewrite Nat2Z.id. Qed.

(* a well-formed object is rebuilt exactly from its stacked vector *)
Theorem obj_of_stacked_stacked (o : qop Qc_OF) : qop_wf Qc_OF o ->
  obj_of_stacked (qop_code o) (Z.of_nat (qop_d o)) (Z.of_nat (qop_m o)) (qop_flag o) (qop_stacked Qc_OF o) = o.
Proof. destruct o as [d f v|d f h|d f v|d f h]; cbn [qop_wf qop_code qop_d qop_m qop_flag qop_stacked]; unfold obj_of_stacked;
  cbn [Z.eqb Pos.eqb]; rewrite ?nn_of_nat, ?Nat2Z.id.
  - reflexivity.
  - intros [_ [Hl Hu]]. unfold gate_stacked. f_equal. rewrite <- Hl at 2. now apply chunk_concat.
  - intros (_ & _ & [_ Hu]). unfold povm_stacked. f_equal. now apply chunk_concat.
  - intros (_ & _ & [_ Hw]). unfold mp_stacked. f_equal.
    match goal with |- context [chunk ?a (length h) (concat ?L)] =>
      assert (U : uniform a L) by (apply uniform_map_concat; exact Hw);
      replace (length h) with (length L) by apply map_length;
      transitivity (map (chunk (d * d) (d * d)) L); [apply (f_equal (map (chunk (d * d) (d * d)))); exact (chunk_concat a L U)|] end.
    now apply map_chunk_concat. Qed.

Theorem op_to_var_spec (o : qop Qc_OF) : qop_wf Qc_OF o ->
  op_to_var [qop_code o; Z.of_nat (qop_d o); Z.of_nat (qop_m o); flag_code (qop_flag o)] (qop_stacked Qc_OF o) = Ok (qop_to_var Qc_OF o).
Proof. intros W. unfold op_to_var. now rewrite fl_flag_code, (obj_of_stacked_stacked o W). Qed.

(* ------------------------------------------------------------------ generate_from_var / calc_gradient wrappers: the template rebuilt from NO data
   has the configuration (type, d, flag, number of outcomes) of the object, and the model functions read nothing else of the template *)
Lemma qop_from_var_shape (sdf : nat -> Qc) (o o' : qop Qc_OF) var : qop_same_shape Qc_OF o o' ->
  qop_from_var Qc_OF sdf o var = qop_from_var Qc_OF sdf o' var.
Proof. destruct o, o'; cbn; try contradiction; intros H; decompose [and] H; subst; try reflexivity. now rewrite H3. Qed.
Lemma qop_gradient_shape (o o' : qop Qc_OF) i : qop_same_shape Qc_OF o o' -> qop_gradient Qc_OF o i = qop_gradient Qc_OF o' i.
Proof. destruct o, o'; cbn; try contradiction; intros H; decompose [and] H; subst; try reflexivity; now rewrite H3. Qed.

Lemma template_shape (o : qop Qc_OF) :
  qop_same_shape Qc_OF o (obj_of_stacked (qop_code o) (Z.of_nat (qop_d o)) (Z.of_nat (qop_m o)) (qop_flag o) []).
Proof. destruct o as [d f v|d f h|d f v|d f h]; unfold obj_of_stacked; cbn [qop_code qop_d qop_m qop_flag Z.eqb Pos.eqb qop_same_shape];
  rewrite ?nn_of_nat, ?Nat2Z.id; repeat split; try reflexivity; now rewrite ?map_length, chunk_length. Qed.

Theorem op_from_var_spec (o : qop Qc_OF) (sd : Qc) (var : list Qc) :
  op_from_var [qop_code o; Z.of_nat (qop_d o); Z.of_nat (qop_m o); flag_code (qop_flag o)] (sd :: var) =
  match qop_from_var Qc_OF (fun _ => sd) o var with Some o' => Ok (qop_stacked Qc_OF o') | None => Err 1 end.
Proof. unfold op_from_var. rewrite fl_flag_code. rewrite <- (qop_from_var_shape (fun _ => sd) o _ var (template_shape o)).
  destruct (qop_from_var Qc_OF (fun _ : nat => sd) o var); reflexivity. Qed.

Theorem op_gradient_spec (o : qop Qc_OF) (i : Z) (qs : list Qc) :
  op_gradient [qop_code o; Z.of_nat (qop_d o); Z.of_nat (qop_m o); flag_code (qop_flag o); i] qs =
  match qop_gradient Qc_OF o i with Some g => Ok g | None => Err 2 end.
Proof. unfold op_gradient. rewrite fl_flag_code, !Nat2Z.id.
  destruct o as [d f v|d f h|d f v|d f h]; cbn [qop_code qop_d qop_m qop_flag Z.eqb Pos.eqb qop_gradient]; now destruct (_ : option (list Qc)). Qed.

(* ------------------------------------------------------------------ the static stacked <-> var wrappers (zs = [type code; d; flag]) *)
Theorem op_var_to_stacked_spec (o : qop Qc_OF) (sd : Qc) (var : list Qc) :
  op_var_to_stacked [qop_code o; Z.of_nat (qop_d o); flag_code (qop_flag o)] (sd :: var) =
  match qop_var_to_stacked Qc_OF (fun _ => sd) o var with Some l => Ok l | None => Err 1 end.
Proof. unfold op_var_to_stacked. rewrite fl_flag_code, Nat2Z.id.
  destruct o as [d f v|d f h|d f v|d f h]; cbn [qop_code qop_d qop_flag Z.eqb Pos.eqb qop_var_to_stacked out_opt]; try reflexivity;
  try (now destruct (povm_var_to_stacked Qc_OF d sd f var)). Qed.
Theorem op_stacked_to_var_spec (o : qop Qc_OF) (sd : Qc) (st : list Qc) :
  op_stacked_to_var [qop_code o; Z.of_nat (qop_d o); flag_code (qop_flag o)] (sd :: st) =
  match qop_stacked_to_var Qc_OF (fun _ => sd) o st with Some l => Ok l | None => Err 1 end.
Proof. unfold op_stacked_to_var. rewrite fl_flag_code, Nat2Z.id.
  destruct o as [d f v|d f h|d f v|d f h]; cbn [qop_code qop_d qop_flag Z.eqb Pos.eqb qop_stacked_to_var out_opt]; try reflexivity;
  try (now destruct (povm_stacked_to_var Qc_OF d sd f st)). Qed.

(* ------------------------------------------------------------------ the index wrappers (idx_table / inv_table / idx / numvar are maps of these over ranges) *)
Theorem exec_numvar_spec (o : qop Qc_OF) :
  op_numvar [qop_code o; Z.of_nat (qop_d o); Z.of_nat (qop_m o); flag_code (qop_flag o)] [] = Ok [qz (qop_num_variables Qc_OF o)].
Proof. unfold op_numvar, numvar. rewrite fl_flag_code.
  destruct o; cbn [qop_code qop_d qop_m qop_flag Z.eqb Pos.eqb qop_num_variables]; reflexivity. Qed.
(* the flat position the table reports for variable i is the model's qop_flat_index *)
Theorem exec_idx_flat_spec (o : qop Qc_OF) (i : Z) :
  idx_flat (qop_code o) (Z.of_nat (qop_d o))
           (idx_fwd (qop_code o) (Z.of_nat (qop_d o)) (Z.of_nat (qop_m o)) (qop_flag o) i) = qop_flat_index Qc_OF o i.
Proof. destruct o as [d f v|d f h|d f v|d f h]; unfold idx_flat, idx_fwd; cbn [qop_code qop_d qop_m qop_flag Z.eqb Pos.eqb qop_flat_index].
  - reflexivity.
  - destruct (gate_index_of_var (Z.of_nat d) f i) as [r c] eqn:E. cbn [nth]. reflexivity.
  - destruct (povm_index_of_var (Z.of_nat d * Z.of_nat d) i) as [x a] eqn:E. cbn [nth]. reflexivity.
  - destruct (mproc_index_of_var (Z.of_nat d) (Z.of_nat (length h)) f i) as [[x r] c] eqn:E. cbn [nth]. reflexivity. Qed.
