(* C15 — depolarising noise preserves complete positivity of EVERY outcome of an instrument (not only of trace-preserving
   maps): the trace-functional part  X |-> tr(G(X)) I/d  of a CP map G is CP.
   Its Choi matrix is (1/d) I (x) tr_out(Choi G); the partial trace of a PSD matrix is PSD (sum of principal blocks) and
   I (x) M is PSD when M is.  Everything through the real symmetric embedding, as a four-term real Hermitian form.
   Axiom-free, generic in the ordered field. *)
From Coq Require Import Field Ring Setoid List Arith Bool Lia.
From QV.Core Require Import OF Sums Mat Cplx Psd.
From QV.Model Require Import QObj HermEmbed C15_Depol.
From QV.Proofs Require Import C15_Depol C15_DepolPsd.
Import ListNotations.

Section InstrCP.
Context (F : OF).
Add Field Ffi : (k_field F).
Notation "0" := (c0 F). Notation "1" := (c1 F).
Infix "+" := (cadd F). Infix "*" := (cmul F). Infix "<=" := (kle F). Infix "-" := (csub F).
Infix "/" := (kdiv F). Notation "- x" := (copp F x).
Notation Cx := (CF F).
Notation PSD := (PSD F). Notation qf := (qf F).

(* ------------------------------------------------------------------ the embedded quadratic form as a Hermitian form *)
Definition hterm (z : Cx) (a b e f : F) : F := a * re z * b - a * im z * f + e * im z * b + e * re z * f.
Definition hf (n : nat) (C : cmat F) (u w : nat -> F) : F :=
  sumn n (fun i => sumn n (fun j => hterm (C i j) (u i) (u j) (w i) (w j))).

Lemma embed_ll n (C : cmat F) i j : (i < n)%nat -> (j < n)%nat -> embed F n C i j = re (C i j).
Proof. intros Hi Hj. unfold embed. destruct (Nat.ltb_spec i n), (Nat.ltb_spec j n); try lia. reflexivity. Qed.
Lemma embed_lr n (C : cmat F) i j : (i < n)%nat -> embed F n C i (n + j)%nat = - im (C i j).
Proof. intros Hi. unfold embed. destruct (Nat.ltb_spec i n), (Nat.ltb_spec (n + j) n); try lia.
  replace (n + j - n)%nat with j by lia. reflexivity. Qed.
Lemma embed_rl n (C : cmat F) i j : (j < n)%nat -> embed F n C (n + i)%nat j = im (C i j).
Proof. intros Hj. unfold embed. destruct (Nat.ltb_spec (n + i) n), (Nat.ltb_spec j n); try lia.
  replace (n + i - n)%nat with i by lia. reflexivity. Qed.
Lemma embed_rr n (C : cmat F) i j : embed F n C (n + i)%nat (n + j)%nat = re (C i j).
Proof. unfold embed. destruct (Nat.ltb_spec (n + i) n), (Nat.ltb_spec (n + j) n); try lia.
  replace (n + i - n)%nat with i by lia. replace (n + j - n)%nat with j by lia. reflexivity. Qed.

Lemma qf_embed n (C : cmat F) x : qf (n + n) (embed F n C) x = hf n C x (fun i => x (n + i)%nat).
Proof. unfold Psd.qf, hf. rewrite sumn_app.
  rewrite (sumn_ext n (fun i => sumn (n + n) (fun j => x i * embed F n C i j * x j))
            (fun i => sumn n (fun j => x i * re (C i j) * x j + x i * (- im (C i j)) * x (n + j)%nat))).
  2:{ intros i Hi. rewrite sumn_app, sumn_add. f_equal.
      - apply sumn_ext; intros j Hj. now rewrite embed_ll.
      - apply sumn_ext; intros j Hj. now rewrite embed_lr. }
  rewrite (sumn_ext n (fun j => sumn (n + n) (fun j0 => x (n + j)%nat * embed F n C (n + j)%nat j0 * x j0))
            (fun i => sumn n (fun j => x (n + i)%nat * im (C i j) * x j + x (n + i)%nat * re (C i j) * x (n + j)%nat))).
  2:{ intros i Hi. rewrite sumn_app, sumn_add. f_equal.
      - apply sumn_ext; intros j Hj. now rewrite embed_rl.
      - apply sumn_ext; intros j Hj. now rewrite embed_rr. }
  rewrite <- sumn_add. apply sumn_ext; intros i Hi. rewrite <- sumn_add. apply sumn_ext; intros j Hj.
  unfold hterm. ring. Qed.

Lemma hf_ext n (C : cmat F) u w u' w' : (forall i, (i < n)%nat -> u i = u' i) -> (forall i, (i < n)%nat -> w i = w' i) ->
  hf n C u w = hf n C u' w'.
Proof. intros Hu Hw. unfold hf. apply sumn_ext; intros i Hi. apply sumn_ext; intros j Hj.
  now rewrite (Hu i Hi), (Hu j Hj), (Hw i Hi), (Hw j Hj). Qed.

Lemma hf_nonneg n (C : cmat F) u w : PSD (n + n) (embed F n C) -> 0 <= hf n C u w.
Proof. intros HP. pose (x := fun i => if (i <? n)%nat then u i else w (i - n)%nat).
  rewrite (hf_ext n C u w x (fun i => x (n + i)%nat)).
  - rewrite <- qf_embed. apply HP.
  - intros i Hi. unfold x. destruct (Nat.ltb_spec i n); [reflexivity|lia].
  - intros i Hi. unfold x. destruct (Nat.ltb_spec (n + i) n); [lia|]. f_equal. lia. Qed.

Lemma PSD_of_hf n (C : cmat F) : (forall u w, 0 <= hf n C u w) -> PSD (n + n) (embed F n C).
Proof. intros H x. rewrite qf_embed. apply H. Qed.

(* ------------------------------------------------------------------ d*d x d*d matrices as d x d arrays of d x d blocks *)
Section Blocks.
Variable d : nat.
Hypothesis Hd : (0 < d)%nat.

Lemma div_lin a k : (k < d)%nat -> ((a * d + k) / d = a)%nat.
Proof. intros Hk. rewrite Nat.div_add_l by lia. rewrite Nat.div_small by exact Hk. lia. Qed.
Lemma mod_lin a k : (k < d)%nat -> ((a * d + k) mod d = k)%nat.
Proof. intros Hk. rewrite Nat.add_comm, Nat.mod_add by lia. now apply Nat.mod_small. Qed.

Definition blk (C : cmat F) (m : nat) : cmat F := fun k l => C (m * d + k)%nat (m * d + l)%nat.
Definition ptr (C : cmat F) : cmat F := fun k l => sumn d (fun m => blk C m k l).               (* trace over the first factor *)
Definition IM (M : cmat F) : cmat F :=                                                         (* I (x) M *)
  fun I J => if Nat.eqb (I / d) (J / d) then M (I mod d)%nat (J mod d)%nat else c0 Cx.
Definition ext (m : nat) (u : nat -> F) : nat -> F := fun I => if Nat.eqb (I / d) m then u (I mod d)%nat else 0.
Definition sub (a : nat) (u : nat -> F) : nat -> F := fun k => u (a * d + k)%nat.

Lemma hterm_zero_l z b f : hterm z 0 b 0 f = 0.
Proof. unfold hterm. ring. Qed.
Lemma hterm_zero_r z a e : hterm z a 0 e 0 = 0.
Proof. unfold hterm. ring. Qed.
Lemma hterm_zero_z a b e f : hterm (c0 Cx) a b e f = 0.
Proof. unfold hterm. cbn. ring. Qed.

(* a vector supported on block m sees only the principal block m *)
Lemma hf_blk (C : cmat F) m u w : (m < d)%nat -> hf (d * d) C (ext m u) (ext m w) = hf d (blk C m) u w.
Proof. intros Hm. unfold hf. rewrite sumn_flat.
  rewrite (sumn_ext d _ (fun a => if Nat.eqb a m then
             sumn d (fun k => sumn d (fun l => hterm (blk C m k l) (u k) (u l) (w k) (w l))) else 0)).
  2:{ intros a Ha. destruct (Nat.eqb_spec a m) as [->|Hne].
      - apply sumn_ext; intros k Hk. rewrite sumn_flat.
        rewrite (sumn_ext d _ (fun b => if Nat.eqb b m then sumn d (fun l => hterm (blk C m k l) (u k) (u l) (w k) (w l)) else 0)).
        2:{ intros b Hb. destruct (Nat.eqb_spec b m) as [->|Hne].
            - apply sumn_ext; intros l Hl. unfold ext, blk.
              rewrite !div_lin, !mod_lin by assumption. rewrite Nat.eqb_refl. reflexivity.
            - apply sumn_zero'. intros l Hl. unfold ext at 2 4. rewrite div_lin by assumption.
              destruct (Nat.eqb_spec b m); [contradiction|]. apply hterm_zero_r. }
        apply (sumn_delta d m (fun _ => sumn d (fun l => hterm (blk C m k l) (u k) (u l) (w k) (w l))) Hm).
      - apply sumn_zero'. intros k Hk. apply sumn_zero'. intros J HJ. unfold ext at 1 3. rewrite div_lin by assumption.
        destruct (Nat.eqb_spec a m); [contradiction|]. apply hterm_zero_l. }
  apply (sumn_delta d m (fun _ => sumn d (fun k => sumn d (fun l => hterm (blk C m k l) (u k) (u l) (w k) (w l)))) Hm). Qed.

Lemma hterm_sum n (f : nat -> Cx) a b e g :
  hterm (sumn n f) a b e g = sumn n (fun m => hterm (f m) a b e g).
Proof. unfold hterm. rewrite re_sumn, im_sumn. induction n as [|n IH]; cbn [sumn]; [ring|]. rewrite <- IH. ring. Qed.

(* partial trace = sum of the principal blocks *)
Lemma hf_ptr (C : cmat F) u w : hf d (ptr C) u w = sumn d (fun m => hf d (blk C m) u w).
Proof. unfold hf.
  rewrite (sumn_swap d d (fun m k => sumn d (fun l => hterm (blk C m k l) (u k) (u l) (w k) (w l)))).
  apply sumn_ext; intros k Hk.
  rewrite (sumn_swap d d (fun m l => hterm (blk C m k l) (u k) (u l) (w k) (w l))).
  apply sumn_ext; intros l Hl. unfold ptr. apply hterm_sum. Qed.

(* I (x) M : the form decouples over the blocks *)
Lemma hf_IM (M : cmat F) u w : hf (d * d) (IM M) u w = sumn d (fun a => hf d M (sub a u) (sub a w)).
Proof. unfold hf. rewrite sumn_flat. apply sumn_ext; intros a Ha. apply sumn_ext; intros k Hk. rewrite sumn_flat.
  rewrite (sumn_ext d _ (fun b => if Nat.eqb b a then sumn d (fun l => hterm (M k l) (sub a u k) (sub a u l) (sub a w k) (sub a w l)) else 0)).
  2:{ intros b Hb. destruct (Nat.eqb_spec b a) as [->|Hne].
      - apply sumn_ext; intros l Hl. unfold IM, sub. rewrite !div_lin, !mod_lin by assumption. rewrite Nat.eqb_refl. reflexivity.
      - apply sumn_zero'. intros l Hl. unfold IM. rewrite !div_lin by assumption.
        destruct (Nat.eqb_spec a b); [congruence|]. apply hterm_zero_z. }
  apply (sumn_delta d a (fun _ => sumn d (fun l => hterm (M k l) (sub a u k) (sub a u l) (sub a w k) (sub a w l))) Ha). Qed.

(* C PSD  ->  I (x) tr_1 C  PSD *)
Theorem IM_ptr_psd (C : cmat F) : PSD (d * d + d * d) (embed F (d * d) C) -> PSD (d * d + d * d) (embed F (d * d) (IM (ptr C))).
Proof. intros HP. apply PSD_of_hf. intros u w. rewrite hf_IM. apply sumn_nonneg. intros a Ha.
  rewrite hf_ptr. apply sumn_nonneg. intros m Hm. rewrite <- hf_blk by exact Hm. now apply hf_nonneg. Qed.
End Blocks.

(* ------------------------------------------------------------------ the trace-functional part of a CP map is CP *)
Section Basis.
Variables (d : nat) (sd dF : F) (B : nat -> cmat F).
Hypothesis Hd : (0 < d)%nat.
Hypothesis HdF : dF = ones F d.
Hypothesis Hsd : sd * sd = dF.
Hypothesis HB0 : basis_0th_identity d sd B.
Hypothesis HBt : basis_rest_traceless F d B.
Add Ring Cri : (c_ring Cx).

Let Hs : sd <> 0 := sd_neq0 F d sd dF Hd HdF Hsd.
Let Hdd : (0 < d * d)%nat := dd_pos d Hd.

Definition S0 (HS : rmat F) : cmat F :=
  fun k l => sumn (d * d) (fun b => cmul Cx (zof (HS 0%nat b)) (cconj (B b) k l)).

Lemma B0_val i j : (i < d)%nat -> (j < d)%nat -> B 0%nat i j = if Nat.eqb i j then zof (1 / sd) else c0 Cx.
Proof. intros Hi Hj. apply cplx_eq.
  - rewrite (B0_re F d sd dF B Hd HdF Hsd HB0 i j Hi Hj). destruct (Nat.eqb i j); reflexivity.
  - rewrite (B0_im F d sd dF B Hd HdF Hsd HB0 i j Hi Hj). destruct (Nat.eqb i j); reflexivity. Qed.

Lemma ctrace_B0 : ctrace F d (B 0%nat) = zof sd.
Proof. apply cplx_eq; [apply (ctrace_B0_re F d sd dF B Hd HdF Hsd HB0)|apply (ctrace_B0_im F d sd dF B Hd HdF Hsd HB0)]. Qed.

(* Choi of the trace-functional part: (I / sd) (x) S0 *)
Lemma choi_row0_val HS I J : (I < d * d)%nat -> (J < d * d)%nat ->
  choi_of_hs d B (row0 F HS) I J =
  cmul Cx (if Nat.eqb (I / d) (J / d) then zof (1 / sd) else c0 Cx) (S0 HS (I mod d)%nat (J mod d)%nat).
Proof. intros HI HJ. unfold choi_of_hs.
  rewrite (sumn_ext (d * d) _ (fun a => if Nat.eqb a 0 then
            sumn (d * d) (fun b => cmul Cx (zof (HS 0%nat b)) (bbc d B 0%nat b I J)) else c0 Cx)).
  2:{ intros a Ha. unfold row0. destruct (Nat.eqb_spec a 0) as [->|Hne]; [reflexivity|].
      apply sumn_zero'. intros b _. apply cplx_eq; cbn; ring. }
  rewrite (sumn_delta (d * d) 0%nat (fun _ => sumn (d * d) (fun b => cmul Cx (zof (HS 0%nat b)) (bbc d B 0%nat b I J))) Hdd).
  unfold S0. rewrite <- (@sumn_scale_l Cx). apply sumn_ext; intros b Hb.
  unfold bbc, kron.
  assert (Hi1 : (I / d < d)%nat) by (apply Nat.div_lt_upper_bound; lia).
  assert (Hj1 : (J / d < d)%nat) by (apply Nat.div_lt_upper_bound; lia).
  rewrite (B0_val _ _ Hi1 Hj1). ring. Qed.

(* partial trace over the output factor of the Choi matrix: sd * S0 *)
Lemma ptr_choi_val HS k l : (k < d)%nat -> (l < d)%nat ->
  ptr d (choi_of_hs d B HS) k l = cmul Cx (zof sd) (S0 HS k l).
Proof. intros Hk Hl. unfold ptr, blk, choi_of_hs.
  rewrite (@sumn_swap Cx d (d * d) (fun m a => sumn (d * d) (fun b => cmul Cx (zof (HS a b)) (bbc d B a b (m * d + k)%nat (m * d + l)%nat)))).
  rewrite (sumn_ext (d * d) _ (fun a => if Nat.eqb a 0 then
            sumn (d * d) (fun b => cmul Cx (zof (HS 0%nat b)) (cmul Cx (zof sd) (cconj (B b) k l))) else c0 Cx)).
  2:{ intros a Ha.
      rewrite (@sumn_swap Cx d (d * d) (fun m b => cmul Cx (zof (HS a b)) (bbc d B a b (m * d + k)%nat (m * d + l)%nat))).
      assert (E : forall b, sumn d (fun m => cmul Cx (zof (HS a b)) (bbc d B a b (m * d + k)%nat (m * d + l)%nat))
                      = cmul Cx (zof (HS a b)) (cmul Cx (ctrace F d (B a)) (cconj (B b) k l))).
      { intros b. rewrite (@sumn_scale_l Cx). f_equal. unfold ctrace. rewrite <- (@sumn_scale_r Cx).
        apply sumn_ext; intros m Hm. unfold bbc, kron. rewrite !(div_lin d Hd), !(mod_lin d Hd) by assumption. reflexivity. }
      destruct (Nat.eqb_spec a 0) as [->|Hne].
      - apply sumn_ext; intros b Hb. rewrite E, ctrace_B0. reflexivity.
      - apply sumn_zero'. intros b Hb. rewrite E, (HBt a) by lia. ring. }
  rewrite (sumn_delta (d * d) 0%nat (fun _ => sumn (d * d) (fun b => cmul Cx (zof (HS 0%nat b)) (cmul Cx (zof sd) (cconj (B b) k l)))) Hdd).
  unfold S0. rewrite <- (@sumn_scale_l Cx). apply sumn_ext; intros b Hb. ring. Qed.

Theorem choi_row0_as_IM HS I J : (I < d * d)%nat -> (J < d * d)%nat ->
  choi_of_hs d B (row0 F HS) I J = cmul Cx (zof (1 / dF)) (IM d (ptr d (choi_of_hs d B HS)) I J).
Proof. intros HI HJ. rewrite choi_row0_val by assumption. unfold IM.
  assert (Hi2 : (I mod d < d)%nat) by (apply Nat.mod_upper_bound; lia).
  assert (Hj2 : (J mod d < d)%nat) by (apply Nat.mod_upper_bound; lia).
  destruct (Nat.eqb (I / d) (J / d)).
  - rewrite ptr_choi_val by assumption.
    assert (E : (zof (1 / sd) : Cx) = cmul Cx (zof (1 / dF)) (zof sd)).
    { apply cplx_eq; cbn; rewrite <- Hsd; field; exact Hs. }
    rewrite E. ring.
  - ring. Qed.

(* CP of G  ->  CP of  X |-> tr(G(X)) I/d  *)
Theorem row0_cp HS : PSD (d * d + d * d) (embed F (d * d) (choi_of_hs d B HS)) ->
  PSD (d * d + d * d) (embed F (d * d) (choi_of_hs d B (row0 F HS))).
Proof. intros HP. set (n := (d * d)%nat) in *.
  pose proof (IM_ptr_psd d Hd (choi_of_hs d B HS) HP) as HI. fold n in HI.
  assert (Hf : dF <> 0) by (rewrite HdF; now apply ones_neq0).
  apply (PSD_ext F (n + n) (fun i j => (1 / dF) * embed F n (IM d (ptr d (choi_of_hs d B HS))) i j + 0 * idm F i j)).
  - intros i j Hi Hj.
    rewrite (embed_ext F n (choi_of_hs d B (row0 F HS))
              (fun i j => cadd Cx (cmul Cx (zof (1 / dF)) (IM d (ptr d (choi_of_hs d B HS)) i j))
                                  (cmul Cx (zof 0) (if Nat.eqb i j then c1 Cx else c0 Cx)))) by
      (try assumption; intros i' j' Hi' Hj'; unfold n; rewrite (choi_row0_as_IM HS i' j' Hi' Hj');
       destruct (Nat.eqb i' j'); apply cplx_eq; cbn; ring).
    rewrite (embed_comb F n (1 / dF) 0 (IM d (ptr d (choi_of_hs d B HS))) (fun i j => if Nat.eqb i j then c1 Cx else c0 Cx)).
    rewrite (embed_cid F) by assumption. reflexivity.
  - apply PSD_comb; [|apply k_refl|exact HI|apply PSD_idm].
    apply inv_nonneg; [exact Hf|]. rewrite HdF. apply ones_ge. Qed.

(* complete positivity of EVERY outcome of an instrument survives depolarising noise, 0 <= p <= 1 *)
Theorem depol_instrument_cp p HS : 0 <= p -> p <= 1 ->
  PSD (d * d + d * d) (embed F (d * d) (choi_of_hs d B HS)) ->
  PSD (d * d + d * d) (embed F (d * d) (choi_of_hs d B (depol_gate F (d * d) p HS))).
Proof. intros Hp0 Hp1 HP. apply (depol_instrument_cp_partial F d B p HS Hp0 Hp1 HP). now apply row0_cp. Qed.
(* ... hence of every outcome of a depolarised MProcess *)
Theorem depol_mprocess_cp p HSs : 0 <= p -> p <= 1 ->
  Forall (fun HS => PSD (d * d + d * d) (embed F (d * d) (choi_of_hs d B HS))) HSs ->
  Forall (fun HS => PSD (d * d + d * d) (embed F (d * d) (choi_of_hs d B HS))) (depol_mprocess F (d * d) p HSs).
Proof. intros Hp0 Hp1 H. unfold depol_mprocess. induction H as [|HS t HP _ IH]; cbn [map]; constructor.
  - now apply depol_instrument_cp.
  - exact IH. Qed.
End Basis.

End InstrCP.
