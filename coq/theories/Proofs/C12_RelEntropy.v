(* C12 — relative entropy, algebraic part (any ordered field, [ln] an arbitrary function; axiom-free):
   the value is the weighted sum of the reported terms, fast path = generic path on non-negative data,
   and the contraction of gradient / Hessian with a direction in the form used by the analytic part. *)
From Coq Require Import Ring Field Setoid Arith Lia Bool List.
From QV.Core Require Import OF Sums Mat.
From QV.Model Require Import C12_Loss.
Import ListNotations.

Section REAlg.
Context (F : OF) (ln : F -> F).
Add Field Fre : (k_field F).
Notation "0" := (c0 F). Notation "1" := (c1 F).
Infix "+" := (cadd F). Infix "*" := (cmul F). Infix "-" := (csub F). Infix "/" := (kdiv F).
Infix "<=" := (kle F). Notation "- x" := (copp F x).
Notation mat := (@mat F). Notation vec := (@vec F).

Lemma div_def (x y : F) : x / y = x * kinv F y.
Proof. apply (Fdiv_def (k_field F)). Qed.

Lemma wsc_sum (w : option vec) j n (f : nat -> F) : wsc F w j (sumn n f) = sumn n (fun x => wsc F w j (f x)).
Proof. destruct w as [ws|]; cbn [wsc]; [now rewrite sumn_scale_l|reflexivity]. Qed.
Lemma wsc_mul (w : option vec) j (x y : F) : wsc F w j (x * y) = wsc F w j x * y.
Proof. destruct w as [ws|]; cbn [wsc]; ring. Qed.
Lemma wsc_zero (w : option vec) j : wsc F w j 0 = 0.
Proof. destruct w as [ws|]; cbn [wsc]; ring. Qed.

(* what the executable op reports: value = sum_i c_i * ln a_i *)
Lemma re_value_terms ns m (w : option vec) epsq epsp (p q : vec) :
  re_value_at F ln ns m w epsq epsp p q
  = sumn (ns * m) (fun i => wsc F w (i / m)%nat (re_coef F epsq (q i)) * ln (re_arg F epsq epsp (q i) (p i))).
Proof. unfold re_value_at. rewrite sumn_flat. apply sumn_ext; intros j Hj. rewrite wsc_sum.
  apply sumn_ext; intros x Hx. destruct (divmod_flat j x m Hx) as [-> _].
  unfold re_term, re_coef. destruct (re_on F epsq (q (j * m + x)%nat)).
  - apply wsc_mul.
  - rewrite wsc_zero. ring. Qed.

(* ---------- fast path = generic path on non-negative data *)
Lemma qtrunc_on epsq (q X : F) : 0 <= q ->
  qtrunc F epsq q * X = if re_on F epsq q then rmax F q epsq * X else 0.
Proof. intros Hq. unfold qtrunc, re_on, rmax, absF, ltb.
  rewrite (proj2 (k_leb F 0 q) Hq). destruct (kleb F epsq q); cbn [negb]; [reflexivity|ring]. Qed.
Lemma qtrunc_val epsq (q : F) : 0 <= q -> qtrunc F epsq q = if re_on F epsq q then q else 0.
Proof. intros Hq. unfold qtrunc, re_on, absF, ltb.
  rewrite (proj2 (k_leb F 0 q) Hq). destruct (kleb F epsq q); reflexivity. Qed.

Definition ew_matches (m : nat) (w ew : option vec) (N : nat) : Prop :=
  match w, ew with
  | Some ws, Some e => forall i, (i < N)%nat -> e i = ew_of F m ws i
  | None, None => True
  | _, _ => False
  end.

Lemma flat_lt' ns m j x : (j < ns)%nat -> (x < m)%nat -> (j * m + x < ns * m)%nat.
Proof. intros Hj Hx. apply Nat.lt_le_trans with (S j * m)%nat; [lia|]. apply Nat.mul_le_mono_r. lia. Qed.

Lemma esc_wsc m (w ew : option vec) ns j x (t : F) : ew_matches m w ew (ns * m) -> (j < ns)%nat -> (x < m)%nat ->
  esc F ew (j * m + x)%nat t = wsc F w j t.
Proof. intros HE Hj Hx. destruct w as [ws|], ew as [e|]; cbn in HE; try contradiction; cbn [esc wsc]; [|reflexivity].
  rewrite HE by now apply flat_lt'. unfold ew_of, ew_of'. now destruct (divmod_flat j x m Hx) as [-> _]. Qed.

Lemma re_fast_value_eq ns m (w ew : option vec) epsq epsp (p q : vec) :
  ew_matches m w ew (ns * m) -> (forall i, (i < ns * m)%nat -> 0 <= q i) ->
  re_fast_value_at F ln (ns * m) ew epsq epsp p q = re_value_at F ln ns m w epsq epsp p q.
Proof. intros HE Hq. unfold re_fast_value_at, re_value_at. rewrite sumn_flat. apply sumn_ext; intros j Hj.
  rewrite wsc_sum. apply sumn_ext; intros x Hx. rewrite (esc_wsc m w ew ns j x _ HE Hj Hx). f_equal.
  unfold ref_term, re_term. apply qtrunc_on. apply Hq. now apply flat_lt'. Qed.

Lemma re_fast_grad_eq ns m (w ew : option vec) epsq epsp (A : mat) (p q : vec) al :
  ew_matches m w ew (ns * m) -> (forall i, (i < ns * m)%nat -> 0 <= q i) ->
  re_fast_grad_at F (ns * m) ew epsq epsp A p q al = re_grad_at F ns m w epsq epsp A p q al.
Proof. intros HE Hq. unfold re_fast_grad_at, re_grad_at. rewrite sumn_flat. apply sumn_ext; intros j Hj.
  rewrite wsc_sum. apply sumn_ext; intros x Hx. rewrite (esc_wsc m w ew ns j x _ HE Hj Hx). f_equal.
  unfold re_gterm. rewrite qtrunc_val by (apply Hq; now apply flat_lt').
  destruct (re_on F epsq (q (j * m + x)%nat)); rewrite !div_def; ring. Qed.

(* ---------- contraction of the gradient / Hessian with a direction h, s = A h *)
Definition re_dterm (epsq epsp q p s : F) : F := if re_on F epsq q then (- q * s) / rmax F p epsp else 0.
Definition re_d2term (epsq epsp q p a s : F) : F :=
  if re_on F epsq q then (q / (rmax F p epsp * rmax F p epsp)) * (a * s) else 0.

Lemma re_grad_dot ns m nv (w : option vec) epsq epsp (A : mat) (p q h : vec) :
  dot nv (re_grad_at F ns m w epsq epsp A p q) h
  = sumn ns (fun j => wsc F w j (sumn m (fun x =>
        re_dterm epsq epsp (q (j * m + x)%nat) (p (j * m + x)%nat) (mv nv A h (j * m + x)%nat)))).
Proof. unfold dot, re_grad_at.
  rewrite (sumn_ext nv _ (fun al => sumn ns (fun j => wsc F w j (sumn m (fun x =>
      re_gterm F epsq epsp (q (j * m + x)%nat) (p (j * m + x)%nat) (A (j * m + x)%nat al) * h al))))).
  2:{ intros al _. rewrite <- sumn_scale_r. apply sumn_ext; intros j _. rewrite <- wsc_mul. f_equal.
      now rewrite sumn_scale_r. }
  rewrite sumn_swap. apply sumn_ext; intros j _.
  rewrite <- (wsc_sum w j nv). f_equal. rewrite sumn_swap. apply sumn_ext; intros x _.
  unfold re_gterm, re_dterm, mv. destruct (re_on F epsq _).
  - rewrite div_def. rewrite <- sumn_scale_l, <- sumn_scale_r. apply sumn_ext; intros al _. rewrite div_def. ring.
  - apply sumn_zero'. intros; ring. Qed.

Lemma re_hess_mv ns m nv (w : option vec) epsq epsp (A : mat) (p q h : vec) al :
  mv nv (re_hess_at F ns m w epsq epsp A hp0 p q) h al
  = sumn ns (fun j => wsc F w j (sumn m (fun x =>
        re_d2term epsq epsp (q (j * m + x)%nat) (p (j * m + x)%nat) (A (j * m + x)%nat al) (mv nv A h (j * m + x)%nat)))).
Proof. unfold mv at 1, re_hess_at.
  rewrite (sumn_ext nv _ (fun be => sumn ns (fun j => wsc F w j (sumn m (fun x =>
      re_hterm F epsq epsp (q (j * m + x)%nat) (p (j * m + x)%nat) (A (j * m + x)%nat al) (A (j * m + x)%nat be)
               (hp0 al be (j * m + x)%nat) * h be))))).
  2:{ intros be _. rewrite <- sumn_scale_r. apply sumn_ext; intros j _. rewrite <- wsc_mul. f_equal.
      now rewrite sumn_scale_r. }
  rewrite sumn_swap. apply sumn_ext; intros j _.
  rewrite <- (wsc_sum w j nv). f_equal. rewrite sumn_swap. apply sumn_ext; intros x _.
  unfold re_hterm, re_d2term, mv, hp0. destruct (re_on F epsq _).
  - rewrite <- !sumn_scale_l. apply sumn_ext; intros be _. rewrite !div_def. ring.
  - apply sumn_zero'. intros; ring. Qed.

(* the predicted distribution along a line *)
Lemma pv_line nv (A : mat) (b v h : vec) (t : F) i :
  pv nv A b (vadd v (vscale t h)) i = pv nv A b v i + t * mv nv A h i.
Proof. unfold pv, vadd at 1. rewrite mv_vadd. unfold vadd. rewrite mv_vscale. unfold vscale. ring. Qed.
End REAlg.
