(* C09 — concrete instances over Qc: non-vacuity examples and the witnesses of the two refuted statements. *)
From Coq Require Import ZArith QArith Qcanon List Bool Arith Lia.
From QV.Core Require Import OF QcOF Sums Mat.
From QV.Model Require Import C09_LinEst.
From QV.Proofs Require Import C09_LinEst.
Import ListNotations.

Notation matQ := (@mat Qc_OF).
Notation vecQ := (@vec Qc_OF).
Definition q (a : Z) (b : positive) : Qc := Q2Qc (a # b).

(* ---- a well-posed instance: two schedules with 3 and 2 outcomes, two variables (asymmetric on purpose) *)
Definition exA : matQ := mofr (F:=Qc_OF) [[q 1 1; q 0 1]; [q 0 1; q 1 1]; [q (-1) 1; q (-1) 1]; [q 1 1; q 1 1]; [q (-1) 1; q (-1) 1]].
Definition exb : list Qc := [q 0 1; q 0 1; q 1 1; q 0 1; q 1 1].
Definition exv : vecQ := vofl (F:=Qc_OF) [q 1 2; q 1 4].
Definition exM : matQ := mofr (F:=Qc_OF) [[q 4 7; q (-3) 7]; [q (-3) 7; q 4 7]].
(* the exact outcome distributions of exv: (1/2,1/4,1/4) and (3/4,1/4), with sample counts 10 and 20 *)
Definition exds : dataset Qc_OF := [(10%Z, [q 1 2; q 1 4; q 1 4]); (20%Z, [q 3 4; q 1 4])].
Definition exf : list Qc := concat (map snd exds).

Lemma ex_cert : left_inverse_cert 2 exM (gram 5 exA).
Proof. apply cert_okb_spec. vm_compute. reflexivity. Qed.
Lemma ex_exact_data : veq 5 (vofl (F:=Qc_OF) exf) (predict 2 exA (vofl (F:=Qc_OF) exb) exv).
Proof. apply veqb_spec. vm_compute. reflexivity. Qed.
Lemma ex_solve : match solve (F:=Qc_OF) 5 2 exA with S_inv _ => True | _ => False end.
Proof. vm_compute. exact I. Qed.
Lemma ex_guard : coded_guard (F:=Qc_OF) 5 2 exA = true.
Proof. vm_compute. reflexivity. Qed.
(* adversarial, non-normalised data: the estimate still satisfies the normal equations (computed) *)
Definition exf_adv : list Qc := [q 3 1; q (-2) 1; q 5 7; q 0 1; q 11 3].
Lemma ex_normal_adv :
  veqb 2 (mv 5 (mT exA) (residual 2 exA (vofl (F:=Qc_OF) exb) (vofl (F:=Qc_OF) exf_adv)
                            (estimate 5 2 exM exA (vofl (F:=Qc_OF) exb) (vofl (F:=Qc_OF) exf_adv)))) vzero = true.
Proof. vm_compute. reflexivity. Qed.

(* ---- an instance with equal outcome counts on which the coded estimator returns values, for a sequence of two datasets *)
Definition exA2 : matQ := mofr (F:=Qc_OF) [[q 1 1; q 2 1]; [q (-1) 1; q (-2) 1]; [q 3 1; q (-1) 1]; [q (-3) 1; q 1 1]].
Definition exb2 : list Qc := [q 0 1; q 1 1; q 0 1; q 1 1].
Definition exsq2 : list (dataset Qc_OF) :=
  [ [(5%Z, [q 1 2; q 1 2]); (7%Z, [q 1 3; q 2 3])]; [(1%Z, [q 2 1; q (-1) 1]); (1%Z, [q 0 1; q 4 1])] ].
Lemma ex_coded_ok : exists xs, calc_estimate_sequence (F:=Qc_OF) 4 2 exA2 exb2 exsq2 = E_ok xs /\ length xs = 2%nat.
Proof.
  assert (E : match calc_estimate_sequence (F:=Qc_OF) 4 2 exA2 exb2 exsq2 with E_ok xs => Nat.eqb (length xs) 2 | _ => false end = true)
    by (vm_compute; reflexivity).
  destruct (calc_estimate_sequence (F:=Qc_OF) 4 2 exA2 exb2 exsq2) as [xs| | | | |]; try discriminate E.
  exists xs. split; [reflexivity|now apply Nat.eqb_eq]. Qed.

(* ---- witness 1: the rank guard as coded (rank == min(shape)) passes for a WIDE matrix whose Gram matrix is singular *)
Definition wA : matQ := mofr (F:=Qc_OF) [[q 1 1; q 0 1]].
Lemma guard_refuted_witness :
  coded_guard (F:=Qc_OF) 1 2 wA = true /\ (forall M, ~ left_inverse_cert 2 M (gram 1 wA)) /\
  calc_estimate_sequence (F:=Qc_OF) 1 2 wA [q 0 1] [[(1%Z, [q 1 1])]] = E_singular.
Proof. split; [vm_compute; reflexivity|]. split; [|vm_compute; reflexivity].
  intros M. apply (kernel_no_inverse Qc_OF 2 (gram 1 wA) M (vofl (F:=Qc_OF) [q 0 1; q 1 1])).
  apply ker_okb_spec. vm_compute. reflexivity. Qed.

Lemma guard_refuted : exists (m n : nat) (A : matQ) (b : list Qc) (ds : dataset Qc_OF),
  coded_guard m n A = true /\ (forall M, ~ left_inverse_cert n M (gram m A)) /\
  calc_estimate m n A b ds = E_singular.
Proof. exists 1%nat, 2%nat, wA, [q 0 1], [(1%Z, [q 1 1])]. exact guard_refuted_witness. Qed.

(* ---- witness 2: a full-column-rank tester set with unequal outcome counts and EXACT data: the coded estimator raises *)
Lemma mixed_counts_refuted : exists (m n : nat) (A M : matQ) (b : list Qc) (v : vecQ) (ds : dataset Qc_OF),
  left_inverse_cert n M (gram m A) /\ coded_guard m n A = true /\
  length (concat (map snd ds)) = m /\
  veq m (vofl (F:=Qc_OF) (concat (map snd ds))) (predict n A (vofl (F:=Qc_OF) b) v) /\
  calc_estimate m n A b ds = E_stack.
Proof. exists 5%nat, 2%nat, exA, exM, exb, exv, exds.
  split; [exact ex_cert|]. split; [exact ex_guard|]. split; [reflexivity|]. split; [exact ex_exact_data|].
  vm_compute. reflexivity. Qed.
