(* C09 — concrete instances over Qc: non-vacuity examples, and the witnesses of the two statements that were false of
   the code BEFORE the repairs (definitions ..._before_fix), together with the same inputs through the repaired model. *)
From Coq Require Import ZArith QArith Qcanon List Bool Arith Lia.
From QV.Core Require Import OF QcOF Sums Mat.
From QV.Model Require Import C09_LinEst.
From QV.Proofs Require Import C09_LinEst.
Import ListNotations.

Notation matQ := (@mat Qc_OF).
Notation vecQ := (@vec Qc_OF).
Definition q (a : Z) (b : positive) : Qc := Q2Qc (a # b).

(* Proof engineering: never [vm_compute] a goal  _ = _ :> eres Qc_OF  (the type argument Qc_OF is normalised too and
   [reflexivity]/[Qed] then take 10-20 s each).  Compute the constructor tag (a nat) and convert back. *)
Definition tag (r : eres Qc_OF) : nat :=
  match r with E_ok _ => 0 | E_guard => 1 | E_singular => 2 | E_stack => 3 | E_shape => 4 | E_internal => 5 end.
Lemma tag_guard r : tag r = 1%nat -> r = E_guard.    Proof. destruct r; try discriminate; reflexivity. Qed.
Lemma tag_singular r : tag r = 2%nat -> r = E_singular. Proof. destruct r; try discriminate; reflexivity. Qed.
Lemma tag_stack r : tag r = 3%nat -> r = E_stack.    Proof. destruct r; try discriminate; reflexivity. Qed.

(* ---- a well-posed instance: two schedules with 3 and 2 outcomes, two variables (asymmetric on purpose) *)
Definition exA : matQ := mofr (F:=Qc_OF) [[q 1 1; q 0 1]; [q 0 1; q 1 1]; [q (-1) 1; q (-1) 1]; [q 1 1; q 1 1]; [q (-1) 1; q (-1) 1]].
Definition exb : list Qc := [q 0 1; q 0 1; q 1 1; q 0 1; q 1 1].
Definition exv : vecQ := vofl (F:=Qc_OF) [q 1 2; q 1 4].
Definition exM : matQ := mofr (F:=Qc_OF) [[q 4 7; q (-3) 7]; [q (-3) 7; q 4 7]].
(* the exact outcome distributions of exv: (1/2,1/4,1/4) and (3/4,1/4), with sample counts 10 and 20 *)
Definition exds : dataset Qc_OF := [(10%Z, [q 1 2; q 1 4; q 1 4]); (20%Z, [q 3 4; q 1 4])].
Definition exf : list Qc := concat (map snd exds).

Lemma ex_cert : left_inverse_cert 2 exM (gram 5 exA).
Proof. apply cert_okb_spec. vm_compute. reflexivity. Qed.
Lemma ex_exact_data : veq 5 (vofl (F:=Qc_OF) exf) (predict 2 exA (vofl (F:=Qc_OF) exb) exv).
Proof. apply veqb_spec. vm_compute. reflexivity. Qed.
Lemma ex_solve : match solve (F:=Qc_OF) 5 2 exA with S_inv _ => True | _ => False end.
Proof. vm_compute. exact I. Qed.
Lemma ex_guard : coded_guard (F:=Qc_OF) 5 2 exA = true.
Proof. vm_compute. reflexivity. Qed.
(* adversarial, non-normalised data: the estimate still satisfies the normal equations (computed) *)
Definition exf_adv : list Qc := [q 3 1; q (-2) 1; q 5 7; q 0 1; q 11 3].
Lemma ex_normal_adv :
  veqb 2 (mv 5 (mT exA) (residual 2 exA (vofl (F:=Qc_OF) exb) (vofl (F:=Qc_OF) exf_adv)
                            (estimate 5 2 exM exA (vofl (F:=Qc_OF) exb) (vofl (F:=Qc_OF) exf_adv)))) vzero = true.
Proof. vm_compute. reflexivity. Qed.

(* ---- an instance with equal outcome counts on which the coded estimator returns values, for a sequence of two datasets *)
Definition exA2 : matQ := mofr (F:=Qc_OF) [[q 1 1; q 2 1]; [q (-1) 1; q (-2) 1]; [q 3 1; q (-1) 1]; [q (-3) 1; q 1 1]].
Definition exb2 : list Qc := [q 0 1; q 1 1; q 0 1; q 1 1].
Definition exsq2 : list (dataset Qc_OF) :=
  [ [(5%Z, [q 1 2; q 1 2]); (7%Z, [q 1 3; q 2 3])]; [(1%Z, [q 2 1; q (-1) 1]); (1%Z, [q 0 1; q 4 1])] ].
Lemma ex_coded_ok : exists xs, calc_estimate_sequence (F:=Qc_OF) 4 2 exA2 exb2 exsq2 = E_ok xs /\ length xs = 2%nat.
Proof.
  assert (E : match calc_estimate_sequence (F:=Qc_OF) 4 2 exA2 exb2 exsq2 with E_ok xs => Nat.eqb (length xs) 2 | _ => false end = true)
    by (vm_compute; reflexivity).
  destruct (calc_estimate_sequence (F:=Qc_OF) 4 2 exA2 exb2 exsq2) as [xs| | | | |]; try discriminate E.
  exists xs. split; [reflexivity|now apply Nat.eqb_eq]. Qed.

(* ---- witness 1 (code AS IT WAS BEFORE fix fullrank-guard-column-rank): the rank guard rank == min(shape) passes for a
        WIDE matrix whose Gram matrix is singular *)
Definition wA : matQ := mofr (F:=Qc_OF) [[q 1 1; q 0 1]].
Lemma guard_refuted_witness :
  coded_guard_before_fix (F:=Qc_OF) 1 2 wA = true /\ (forall M, ~ left_inverse_cert 2 M (gram 1 wA)) /\
  calc_estimate_sequence_before_fix (F:=Qc_OF) 1 2 wA [q 0 1] [[(1%Z, [q 1 1])]] = E_singular.
Proof. split; [vm_compute; reflexivity|]. split; [|apply tag_singular; vm_compute; reflexivity].
  intros M. apply (kernel_no_inverse Qc_OF 2 (gram 1 wA) M (vofl (F:=Qc_OF) [q 0 1; q 1 1])).
  apply ker_okb_spec. vm_compute. reflexivity. Qed.

Lemma guard_refuted : exists (m n : nat) (A : matQ) (b : list Qc) (ds : dataset Qc_OF),
  coded_guard_before_fix m n A = true /\ (forall M, ~ left_inverse_cert n M (gram m A)) /\
  calc_estimate_before_fix m n A b ds = E_singular.
Proof. exists 1%nat, 2%nat, wA, [q 0 1], [(1%Z, [q 1 1])]. exact guard_refuted_witness. Qed.

(* the same input through the repaired code: the guard raises *)
Lemma ex_wide_fixed : calc_estimate (F:=Qc_OF) 1 2 wA [q 0 1] [(1%Z, [q 1 1])] = E_guard.
Proof. apply tag_guard. vm_compute. reflexivity. Qed.

(* ---- witness 2 (code AS IT WAS BEFORE fix linear-estimator-unequal-outcome-counts): a full-column-rank tester set with
        unequal outcome counts and EXACT data: the estimator raised *)
Lemma mixed_counts_refuted : exists (m n : nat) (A M : matQ) (b : list Qc) (v : vecQ) (ds : dataset Qc_OF),
  left_inverse_cert n M (gram m A) /\ coded_guard_before_fix m n A = true /\
  length (concat (map snd ds)) = m /\
  veq m (vofl (F:=Qc_OF) (concat (map snd ds))) (predict n A (vofl (F:=Qc_OF) b) v) /\
  calc_estimate_before_fix m n A b ds = E_stack.
Proof. exists 5%nat, 2%nat, exA, exM, exb, exv, exds.
  split; [exact ex_cert|]. split; [vm_compute; reflexivity|]. split; [reflexivity|]. split; [exact ex_exact_data|].
  apply tag_stack. vm_compute. reflexivity. Qed.

(* the same input through the repaired code: the true variables (1/2, 1/4) come back *)
Lemma ex_mixed_fixed : exists x, calc_estimate (F:=Qc_OF) 5 2 exA exb exds = E_ok [x] /\ length x = 2%nat /\ veq 2 (vofl (F:=Qc_OF) x) exv.
Proof.
  assert (E : match calc_estimate (F:=Qc_OF) 5 2 exA exb exds with
              | E_ok [x] => Nat.eqb (length x) 2 && veqb 2 (vofl (F:=Qc_OF) x) exv | _ => false end = true)
    by (vm_compute; reflexivity).
  destruct (calc_estimate (F:=Qc_OF) 5 2 exA exb exds) as [[|x [|y t]]| | | | |]; try discriminate E.
  apply andb_true_iff in E. destruct E as [E1 E2]. exists x. split; [reflexivity|]. split; [now apply Nat.eqb_eq|now apply veqb_spec]. Qed.
