(* C18 — proofs about the equality projection, the Taylor partial sums of exp and the
   trace-preservation reading of "first row zero".  Generic in the ordered field; axiom-free. *)
From Coq Require Import Field Ring Setoid Arith Lia Bool List.
From QV.Core Require Import OF Sums Mat Cplx Psd.
From QV.Model Require Import QObj HermEmbed C18_Lindblad.
Import ListNotations.

Section Misc.
Context (F : OF).
Add Field Ffm : (k_field F).
Notation "0" := (c0 F). Notation "1" := (c1 F).
Infix "+" := (cadd F). Infix "*" := (cmul F). Infix "<=" := (kle F). Infix "-" := (csub F).
Infix "/" := (kdiv F). Notation "- x" := (copp F x).
Notation rmat := (rmat F).
Notation rvec := (rvec F).

Definition row0_zero (n : nat) (L : rmat) := forall j, (j < n)%nat -> L 0%nat j = 0.

(* ------------------------------------------------------------------ equality projection *)
Lemma proj_eq_row0 n (X : rmat) : row0_zero n (proj_eq X).
Proof. intros j _. reflexivity. Qed.
Lemma proj_eq_other (X : rmat) i j : i <> 0%nat -> proj_eq X i j = X i j.
Proof. intros Hi. unfold proj_eq. destruct (Nat.eqb_spec i 0); [contradiction|reflexivity]. Qed.
Lemma proj_eq_fix n (X : rmat) : row0_zero n X -> meq n n (proj_eq X) X.
Proof. intros H i j Hi Hj. unfold proj_eq. destruct (Nat.eqb_spec i 0) as [->|]; [now rewrite H|reflexivity]. Qed.
Lemma proj_eq_idem (X : rmat) i j : proj_eq (proj_eq X) i j = proj_eq X i j.
Proof. unfold proj_eq. now destruct (Nat.eqb i 0). Qed.

Definition dist2 (n : nat) (A B : rmat) : F := inner n n (msub A B) (msub A B).

Lemma dist2_split n (A B : rmat) :
  dist2 (S n) A B = sumn (S n) (fun j => (A 0%nat j - B 0%nat j) * (A 0%nat j - B 0%nat j))
                  + sumn n (fun i => sumn (S n) (fun j => (A (S i) j - B (S i) j) * (A (S i) j - B (S i) j))).
Proof. unfold dist2, inner, msub. now rewrite sumn_S_first. Qed.

(* Pythagoras: the projection is the nearest point of the affine set { first row = 0 } *)
Lemma proj_eq_pythagoras n (X Z : rmat) : row0_zero n Z ->
  dist2 n X Z = dist2 n X (proj_eq X) + dist2 n (proj_eq X) Z.
Proof. destruct n as [|n]; intros HZ. { unfold dist2, inner. cbn. ring. }
  rewrite !dist2_split.
  rewrite (sumn_ext (S n) (fun j => (X 0%nat j - Z 0%nat j) * (X 0%nat j - Z 0%nat j)) (fun j => X 0%nat j * X 0%nat j)).
  2:{ intros j Hj. rewrite HZ by exact Hj. ring. }
  rewrite (sumn_ext (S n) (fun j => (X 0%nat j - proj_eq X 0%nat j) * (X 0%nat j - proj_eq X 0%nat j)) (fun j => X 0%nat j * X 0%nat j)).
  2:{ intros j Hj. unfold proj_eq. cbn. ring. }
  rewrite (sumn_ext n (fun i => sumn (S n) (fun j => (X (S i) j - proj_eq X (S i) j) * (X (S i) j - proj_eq X (S i) j))) (fun _ => 0)).
  2:{ intros i Hi. apply sumn_zero'. intros j Hj. unfold proj_eq. cbn. ring. }
  rewrite sumn_zero.
  rewrite (sumn_ext (S n) (fun j => (proj_eq X 0%nat j - Z 0%nat j) * (proj_eq X 0%nat j - Z 0%nat j)) (fun _ => 0)).
  2:{ intros j Hj. rewrite HZ by exact Hj. unfold proj_eq. cbn. ring. }
  rewrite sumn_zero.
  rewrite (sumn_ext n (fun i => sumn (S n) (fun j => (proj_eq X (S i) j - Z (S i) j) * (proj_eq X (S i) j - Z (S i) j)))
                      (fun i => sumn (S n) (fun j => (X (S i) j - Z (S i) j) * (X (S i) j - Z (S i) j)))).
  2:{ intros i Hi. apply sumn_ext. intros j Hj. reflexivity. }
  ring. Qed.

Lemma sumn_nonneg n (f : nat -> F) : (forall i, (i < n)%nat -> 0 <= f i) -> 0 <= sumn n f.
Proof. induction n as [|n IH]; intros H; cbn. { apply k_refl. }
  apply add_nonneg; [apply IH; intros; apply H; lia|apply H; lia]. Qed.
Lemma dist2_nonneg n (A B : rmat) : 0 <= dist2 n A B.
Proof. unfold dist2, inner. apply sumn_nonneg; intros i _. apply sumn_nonneg; intros j _. apply sqr_nonneg. Qed.

Lemma proj_eq_nearest n (X Z : rmat) : row0_zero n Z -> dist2 n X (proj_eq X) <= dist2 n X Z.
Proof. intros HZ. rewrite (proj_eq_pythagoras n X Z HZ). apply le_sub.
  replace (dist2 n X (proj_eq X) + dist2 n (proj_eq X) Z - dist2 n X (proj_eq X)) with (dist2 n (proj_eq X) Z) by ring.
  apply dist2_nonneg. Qed.

(* bundled statements for Props/C18.v *)
Lemma proj_eq_exact n (X : rmat) :
  row0_zero n (proj_eq X) /\ (forall i j, i <> 0%nat -> proj_eq X i j = X i j) /\
  (row0_zero n X -> meq n n (proj_eq X) X) /\ (forall i j, proj_eq (proj_eq X) i j = proj_eq X i j).
Proof. split; [apply proj_eq_row0|]. split; [intros; now apply proj_eq_other|]. split; [apply proj_eq_fix|apply proj_eq_idem]. Qed.
Lemma proj_eq_nearest_point n (X Z : rmat) : row0_zero n Z ->
  dist2 n X Z = dist2 n X (proj_eq X) + dist2 n (proj_eq X) Z /\ dist2 n X (proj_eq X) <= dist2 n X Z.
Proof. intros H. split; [now apply proj_eq_pythagoras|now apply proj_eq_nearest]. Qed.

(* ------------------------------------------------------------------ Taylor partial sums:  first row of L zero  =>  first row e_0 *)
Lemma mmul_row0 n (L M : rmat) j : row0_zero n L -> mmul n L M 0%nat j = 0.
Proof. intros H. unfold mmul. apply sumn_zero'. intros l Hl. rewrite H by exact Hl. ring. Qed.
Lemma mpow_row0 n (L : rmat) k j : row0_zero n L -> mpow n L (S k) 0%nat j = 0.
Proof. intros H. cbn [mpow]. now apply mmul_row0. Qed.
(* every polynomial in L, in particular every partial sum of the exponential series *)
Lemma poly_sum_row0 n (c : nat -> F) (L : rmat) N j : row0_zero n L ->
  poly_sum n c L N 0%nat j = c 0%nat * (if Nat.eqb 0 j then 1 else 0).
Proof. intros H. unfold poly_sum. rewrite sumn_S_first.
  rewrite (sumn_zero' N). 2:{ intros k Hk. rewrite mpow_row0 by exact H. ring. }
  cbn [mpow]. unfold mid. ring. Qed.

Section Frz.
Variable frz : rmat -> rmat.
Variable n : nat.
Hypothesis frz_spec : forall M i j, (i < n)%nat -> (j < n)%nat -> frz M i j = M i j.

Lemma tterm_row0 (L : rmat) k j : row0_zero n L -> (j < n)%nat -> tterm frz n L (S k) 0%nat j = 0.
Proof. intros H Hj. cbn [tterm]. rewrite frz_spec by lia. unfold mscale. rewrite mmul_row0 by exact H. ring. Qed.
Lemma texp_row0 (L : rmat) N j : row0_zero n L -> (j < n)%nat ->
  texp frz n L N 0%nat j = (if Nat.eqb 0 j then 1 else 0).
Proof. intros H Hj. unfold texp. rewrite sumn_S_first.
  rewrite (sumn_zero' N). 2:{ intros k Hk. now apply tterm_row0. }
  cbn [tterm]. unfold mid. ring. Qed.

(* the recurrence really computes L^k / k! *)
Lemma ofnat_nonneg k : 0 <= @ofnat F k.
Proof. induction k as [|k IH]; cbn. { apply k_refl. } apply add_nonneg; [exact IH|apply one_nonneg]. Qed.
Lemma ofnat_S_neq0 k : @ofnat F (S k) <> 0.
Proof. cbn. intros E. apply (not_le_0_m1 F). replace (- (1)) with (@ofnat F k). { apply ofnat_nonneg. }
  replace (@ofnat F k) with ((@ofnat F k + 1) - 1) by ring. rewrite E. ring. Qed.
Fixpoint ffact (k : nat) : F := match k with O => 1 | S k' => @ofnat F (S k') * ffact k' end.
Lemma ffact_neq0 k : ffact k <> 0.
Proof. induction k as [|k IH]; cbn [ffact]. { apply one_neq_zero. }
  intros E. destruct (k_field F) as [_ _ _ Hinv].
  apply IH. replace (ffact k) with (kinv F (@ofnat F (S k)) * (@ofnat F (S k) * ffact k)).
  - rewrite E. ring.
  - replace (kinv F (@ofnat F (S k)) * (@ofnat F (S k) * ffact k)) with ((kinv F (@ofnat F (S k)) * @ofnat F (S k)) * ffact k) by ring.
    rewrite Hinv by apply ofnat_S_neq0. ring. Qed.
Lemma tterm_mpow (L : rmat) k : meq n n (tterm frz n L k) (mscale (1 / ffact k) (mpow n L k)).
Proof. induction k as [|k IH]; intros i j Hi Hj.
  - cbn [tterm mpow ffact]. unfold mscale. field. apply one_neq_zero.
  - cbn [tterm mpow]. rewrite frz_spec by assumption. unfold mscale.
    assert (E : mmul n L (tterm frz n L k) i j = (1 / ffact k) * mmul n L (mpow n L k) i j).
    { unfold mmul. rewrite <- sumn_scale_l. apply sumn_ext. intros l Hl. rewrite IH by assumption. unfold mscale. ring. }
    rewrite E. cbn [ffact]. field. split; [apply ffact_neq0|apply ofnat_S_neq0]. Qed.
Lemma texp_poly (L : rmat) N : meq n n (texp frz n L N) (poly_sum n (fun k => 1 / ffact k) L N).
Proof. intros i j Hi Hj. unfold texp, poly_sum. apply sumn_ext. intros k Hk. now rewrite tterm_mpow. Qed.
End Frz.

(* ------------------------------------------------------------------ "first row zero" is trace annihilation *)
(* For a basis with tr B_a = sd * delta_{a0} (consequence of orthonormality and B_0 = I/sd, see C18_Lindblad) the trace of
   the operator with coefficient vector w is sd * w_0; hence  tr (L rho) = 0 for every rho  <=>  first row of HS is zero. *)
Definition out_coef0 (n : nat) (HS : rmat) (v : rvec) : F := mv n HS v 0%nat.
Lemma row0_zero_iff_annihilates n (HS : rmat) :
  row0_zero n HS <-> (forall v : rvec, out_coef0 n HS v = 0).
Proof. split.
  - intros H v. unfold out_coef0, mv. apply sumn_zero'. intros j Hj. rewrite H by exact Hj. ring.
  - intros H j Hj. specialize (H (fun l => if Nat.eqb l j then 1 else 0)). unfold out_coef0, mv in H.
    rewrite (sumn_ext n _ (fun l => if Nat.eqb l j then HS 0%nat l else 0)) in H.
    2:{ intros l _. destruct (Nat.eqb l j); ring. }
    now rewrite sumn_delta in H. Qed.

(* ------------------------------------------------------------------ verdicts *)
Lemma fabs_le x a : kleb F (fabs F x) a = true <-> (x <= a /\ - a <= x).
Proof. unfold fabs. destruct (kleb F 0 x) eqn:E.
  - apply k_leb in E. rewrite k_leb. split.
    + intros H. split; [exact H|]. apply (k_trans F _ 0); [|exact E]. apply opp_nonpos. now apply (k_trans F _ x).
    + tauto.
  - apply leb_false_lt in E. destruct E as [E _]. rewrite k_leb. split.
    + intros H. split.
      * apply (k_trans F _ 0); [exact E|]. apply (k_trans F _ (- x)); [now apply opp_nonneg|exact H].
      * apply (proj2 (le_sub F (- a) x)). replace (x - - a) with (a - - x) by ring. exact (proj1 (le_sub F (- x) a) H).
    + intros [_ H]. apply (proj2 (le_sub F (- x) a)). replace (a - - x) with (x - - a) by ring. exact (proj1 (le_sub F (- a) x) H). Qed.
Lemma allb_spec n p : allb n p = true <-> forall i, (i < n)%nat -> p i = true.
Proof. induction n as [|n IH]; cbn. { split; [intros _ i Hi; lia|reflexivity]. }
  rewrite andb_true_iff, IH. split.
  - intros [A B] i Hi. destruct (Nat.eq_dec i n) as [->|]; [exact B|apply A; lia].
  - intros H. split; [intros i Hi; apply H; lia|apply H; lia]. Qed.
(* is_tp(atol): every entry of the first row is within atol of zero; with atol = 0 it is exactly "first row zero" *)
Lemma is_tp_dec_spec n atol (HS : rmat) :
  is_tp_dec F n atol HS = true <-> forall j, (j < n)%nat -> HS 0%nat j <= atol /\ - atol <= HS 0%nat j.
Proof. unfold is_tp_dec. rewrite allb_spec. split; intros H j Hj; apply fabs_le; now apply H. Qed.
Lemma is_tp_dec_zero n (HS : rmat) : is_tp_dec F n 0 HS = true <-> row0_zero n HS.
Proof. rewrite is_tp_dec_spec. split; intros H j Hj.
  - destruct (H j Hj) as [A B]. apply (k_antisym F); [exact A|]. now replace (- 0) with 0 in B by ring.
  - rewrite H by exact Hj. split; [apply k_refl|]. replace (- 0) with 0 by ring. apply k_refl. Qed.
(* ------------------------------------------------------------------ eigenvalue clipping of the inequality projection *)
Lemma clip_neg_nonneg (l : list F) : Forall (fun x => 0 <= x) (clip_neg l).
Proof. unfold clip_neg. apply Forall_forall. intros y Hy. apply in_map_iff in Hy. destruct Hy as [x [<- _]].
  unfold fltb. destruct (kleb F 0 x) eqn:E; cbn [negb]; [now apply k_leb|apply k_refl]. Qed.
Lemma clip_neg_fix (l : list F) : Forall (fun x => 0 <= x) l -> clip_neg l = l.
Proof. unfold clip_neg. induction 1 as [|x l Hx Hl IH]; [reflexivity|]. cbn [map]. rewrite IH. unfold fltb.
  apply k_leb in Hx. now rewrite Hx. Qed.
Lemma clip_neg_all_negative (l : list F) : Forall (fun x => x <= 0 /\ x <> 0) l -> clip_neg l = map (fun _ => 0) l.
Proof. unfold clip_neg. induction 1 as [|x l [Hx Hne] Hl IH]; [reflexivity|]. cbn [map]. rewrite IH. unfold fltb.
  destruct (kleb F 0 x) eqn:E; [|reflexivity]. apply k_leb in E. exfalso. apply Hne. now apply (k_antisym F). Qed.
Lemma clip_neg_spec (l : list F) :
  Forall (fun x => 0 <= x) (clip_neg l) /\ (Forall (fun x => 0 <= x) l -> clip_neg l = l) /\
  (Forall (fun x => x <= 0 /\ x <> 0) l -> clip_neg l = map (fun _ => 0) l) /\ length (clip_neg l) = length l.
Proof. split; [apply clip_neg_nonneg|]. split; [apply clip_neg_fix|]. split; [apply clip_neg_all_negative|]. unfold clip_neg. apply map_length. Qed.
End Misc.
