(* C19 — exact moments of the empirical distribution of n i.i.d. categorical draws, for every n, every
   number of outcomes and every ordered field; independence across schedules.  Axiom-free. *)
From Coq Require Import Field Ring Setoid Arith Lia Bool List.
From QV.Core Require Import OF Sums Mat.
From QV.Model Require Import C19_Expect.
Import ListNotations.

Section ExpectProofs.
Context (F : OF).
Add Field Ffe : (k_field F).
Notation "0" := (c0 F). Notation "1" := (c1 F).
Infix "+" := (cadd F). Infix "*" := (cmul F). Infix "-" := (csub F). Infix "/" := (kdiv F).
Infix "<=" := (kle F). Notation "- x" := (copp F x).
Notation vec := (@vec F). Notation mat := (@mat F).
Notation of_nat := (of_nat F). Notation expect := (expect F). Notation expectL := (expectL F).
Notation cnt := (cnt F). Notation ind := (ind F). Notation freq := (freq F). Notation dev := (dev F).

(* ---------- of_nat ---------- *)
Lemma of_nat_nonneg n : 0 <= of_nat n.
Proof. induction n as [|n IH]; cbn [C19_Expect.of_nat]. { apply k_refl. }
  apply add_nonneg; [exact IH|apply one_nonneg]. Qed.
Lemma of_nat_S_neq0 n : of_nat (S n) <> 0.
Proof. cbn [C19_Expect.of_nat]. intros E. apply (not_le_0_m1 F).
  replace (- (1)) with (of_nat n) by (replace (of_nat n) with (of_nat n + 1 - 1) by ring; rewrite E; ring).
  apply of_nat_nonneg. Qed.
Lemma of_nat_pos_neq0 n : (1 <= n)%nat -> of_nat n <> 0.
Proof. destruct n; [lia|]. intros _. apply of_nat_S_neq0. Qed.
Lemma of_nat_add a b : of_nat (a + b) = of_nat a + of_nat b.
Proof. induction a as [|a IH]; cbn [C19_Expect.of_nat Nat.add]; [ring|]. rewrite IH. ring. Qed.

(* ---------- linearity of the expectation functional ---------- *)
Lemma expect_ext m p n g h : (forall s, length s = n -> g s = h s) -> expect m p n g = expect m p n h.
Proof. revert g h. induction n as [|n IH]; intros g h H; cbn [C19_Expect.expect]. { now apply H. }
  apply sumn_ext; intros x _. f_equal. apply IH. intros s Hs. apply H. cbn. now rewrite Hs. Qed.
Lemma expect_add m p n g h : expect m p n (fun s => g s + h s) = expect m p n g + expect m p n h.
Proof. revert g h. induction n as [|n IH]; intros g h; cbn [C19_Expect.expect]; [reflexivity|].
  rewrite <- sumn_add. apply sumn_ext; intros x _. rewrite IH. ring. Qed.
Lemma expect_scale m p n c g : expect m p n (fun s => c * g s) = c * expect m p n g.
Proof. revert g. induction n as [|n IH]; intros g; cbn [C19_Expect.expect]; [reflexivity|].
  rewrite <- sumn_scale_l. apply sumn_ext; intros x _. rewrite IH. ring. Qed.
Lemma expect_scale_r m p n c g : expect m p n (fun s => g s * c) = expect m p n g * c.
Proof. rewrite (expect_ext m p n _ (fun s => c * g s)) by (intros; ring). rewrite expect_scale. ring. Qed.
Lemma expect_sub m p n g h : expect m p n (fun s => g s - h s) = expect m p n g - expect m p n h.
Proof. rewrite (expect_ext m p n _ (fun s => g s + (- (1)) * h s)) by (intros; ring).
  rewrite expect_add, expect_scale. ring. Qed.
Lemma expect_const m p n c : sumn m p = 1 -> expect m p n (fun _ => c) = c.
Proof. intros Hp. induction n as [|n IH]; cbn [C19_Expect.expect]; [reflexivity|].
  rewrite (sumn_ext m _ (fun x => p x * c)) by (intros; now rewrite IH).
  rewrite sumn_scale_r, Hp. ring. Qed.
Lemma expect_sumn m p n k (g : nat -> list nat -> F) :
  expect m p n (fun s => sumn k (fun a => g a s)) = sumn k (fun a => expect m p n (g a)).
Proof. induction k as [|k IH]; cbn [sumn].
  - revert g. induction n as [|n IHn]; intros g; cbn [C19_Expect.expect]; [reflexivity|].
    rewrite (sumn_ext m _ (fun _ => 0)). { apply sumn_zero. }
    intros x _. rewrite (IHn (fun a s => g a (x :: s))). ring.
  - rewrite expect_add, IH. reflexivity. Qed.

(* ---------- first and second moments of the counts ---------- *)
Lemma sum_p_ind m p x : (x < m)%nat -> sumn m (fun z => p z * ind x z) = p x.
Proof. intros Hx. unfold C19_Expect.ind.
  rewrite (sumn_ext m _ (fun z => if Nat.eqb z x then p z else 0)).
  2:{ intros z _. destruct (Nat.eqb z x); ring. }
  exact (sumn_delta m x p Hx). Qed.
Lemma sum_p_ind2 m p x y : (x < m)%nat ->
  sumn m (fun z => p z * (ind x z * ind y z)) = if Nat.eqb x y then p x else 0.
Proof. intros Hx. unfold C19_Expect.ind.
  rewrite (sumn_ext m _ (fun z => if Nat.eqb z x then (if Nat.eqb x y then p z else 0) else 0)).
  2:{ intros z _. destruct (Nat.eqb_spec z x) as [->|Hne]; [|ring].
      destruct (Nat.eqb x y); ring. }
  rewrite (sumn_delta m x (fun z => if Nat.eqb x y then p z else 0) Hx). reflexivity. Qed.

Theorem expect_cnt m p n x : sumn m p = 1 -> (x < m)%nat ->
  expect m p n (cnt x) = of_nat n * p x.
Proof. intros Hp Hx. induction n as [|n IH]; cbn [C19_Expect.expect C19_Expect.of_nat C19_Expect.cnt]. { ring. }
  rewrite (sumn_ext m _ (fun z => p z * ind x z + p z * (of_nat n * p x))).
  2:{ intros z _. rewrite expect_add, expect_const, IH by exact Hp. ring. }
  rewrite sumn_add, sumn_scale_r, Hp, sum_p_ind by exact Hx. ring. Qed.

Theorem expect_cnt2 m p n x y : sumn m p = 1 -> (x < m)%nat -> (y < m)%nat ->
  expect m p n (fun s => cnt x s * cnt y s)
  = of_nat n * (if Nat.eqb x y then p x else 0) + of_nat n * (of_nat n - 1) * (p x * p y).
Proof. intros Hp Hx Hy. induction n as [|n IH]; cbn [C19_Expect.expect C19_Expect.of_nat C19_Expect.cnt]. { ring. }
  rewrite (sumn_ext m _ (fun z =>
     p z * (ind x z * ind y z) + (p z * ind x z) * (of_nat n * p y) + (p z * ind y z) * (of_nat n * p x)
     + p z * (of_nat n * (if Nat.eqb x y then p x else 0) + of_nat n * (of_nat n - 1) * (p x * p y)))).
  2:{ intros z _.
      rewrite (expect_ext m p n _ (fun s => ind x z * ind y z + ind x z * cnt y s + ind y z * cnt x s + cnt x s * cnt y s))
        by (intros; ring).
      rewrite !expect_add, !expect_scale, expect_const, IH, !expect_cnt by assumption. ring. }
  rewrite !sumn_add, !sumn_scale_r, Hp, sum_p_ind2, !sum_p_ind by assumption. ring. Qed.

(* ---------- mean and covariance of the empirical distribution ---------- *)
Theorem expect_freq m p n x : sumn m p = 1 -> (x < m)%nat -> (1 <= n)%nat ->
  expect m p n (fun s => freq n s x) = p x.
Proof. intros Hp Hx Hn. unfold C19_Expect.freq.
  rewrite (expect_ext m p n _ (fun s => (1 / of_nat n) * cnt x s)).
  2:{ intros. field. now apply of_nat_pos_neq0. }
  rewrite expect_scale, expect_cnt by assumption. field. now apply of_nat_pos_neq0. Qed.

Theorem expect_dev m p n x : sumn m p = 1 -> (x < m)%nat -> (1 <= n)%nat ->
  expect m p n (fun s => dev n p s x) = 0.
Proof. intros Hp Hx Hn. unfold C19_Expect.dev.
  rewrite expect_sub, expect_freq, expect_const by assumption. ring. Qed.

Theorem expect_dev2 m p n x y : sumn m p = 1 -> (x < m)%nat -> (y < m)%nat -> (1 <= n)%nat ->
  expect m p n (fun s => dev n p s x * dev n p s y)
  = ((if Nat.eqb x y then p x else 0) - p x * p y) / of_nat n.
Proof. intros Hp Hx Hy Hn. pose proof (of_nat_pos_neq0 n Hn) as Hn0.
  unfold C19_Expect.dev, C19_Expect.freq.
  rewrite (expect_ext m p n _ (fun s =>
     (1 / (of_nat n * of_nat n)) * (cnt x s * cnt y s) + (- (p y / of_nat n)) * cnt x s
     + (- (p x / of_nat n)) * cnt y s + p x * p y)).
  2:{ intros. field. exact Hn0. }
  rewrite !expect_add, !expect_scale, expect_const, expect_cnt2, !expect_cnt by assumption.
  destruct (Nat.eqb x y); field; exact Hn0. Qed.

(* ---------- several independent schedules ---------- *)
Lemma expectL_ext ss g h : (forall obs, g obs = h obs) -> expectL ss g = expectL ss h.
Proof. revert g h. induction ss as [|[[m p] n] t IH]; intros g h H; cbn [C19_Expect.expectL]. { apply H. }
  apply expect_ext; intros s _. apply IH. intros st. apply H. Qed.
Lemma expectL_add ss g h : expectL ss (fun o => g o + h o) = expectL ss g + expectL ss h.
Proof. revert g h. induction ss as [|[[m p] n] t IH]; intros g h; cbn [C19_Expect.expectL]; [reflexivity|].
  rewrite <- expect_add. apply expect_ext; intros s _. apply IH. Qed.
Lemma expectL_scale ss c g : expectL ss (fun o => c * g o) = c * expectL ss g.
Proof. revert g. induction ss as [|[[m p] n] t IH]; intros g; cbn [C19_Expect.expectL]; [reflexivity|].
  rewrite <- expect_scale. apply expect_ext; intros s _. apply IH. Qed.
Lemma expectL_const ss c : Forall (valid_sched F) ss -> expectL ss (fun _ => c) = c.
Proof. induction 1 as [|[[m p] n] t [Hp Hn] Ht IH]; cbn [C19_Expect.expectL]; [reflexivity|].
  rewrite (expect_ext m p n _ (fun _ => c)) by (intros; apply IH). now apply expect_const. Qed.
Lemma expectL_sumn ss k (g : nat -> list (list nat) -> F) :
  expectL ss (fun o => sumn k (fun a => g a o)) = sumn k (fun a => expectL ss (g a)).
Proof. induction k as [|k IH]; cbn [sumn].
  - revert g. induction ss as [|[[m p] n] t IHs]; intros g; cbn [C19_Expect.expectL]; [reflexivity|].
    rewrite (expect_ext m p n _ (fun _ => 0)).
    2:{ intros s _. apply (IHs (fun a st => g a (s :: st))). }
    clear. induction n as [|n IHn]; cbn [C19_Expect.expect]; [reflexivity|].
    rewrite (sumn_ext m _ (fun _ => 0)). { apply sumn_zero. } intros x _. rewrite IHn. ring.
  - rewrite expectL_add, IH. reflexivity. Qed.

Notation dev_total := (dev_total F). Notation f_total := (f_total F). Notation p_total := (p_total F).
Notation total_size := (total_size F).

Lemma dev_total_cons m p n t s st i :
  dev_total ((m, p, n) :: t) (s :: st) i = if Nat.ltb i m then dev n p s i else dev_total t st (i - m)%nat.
Proof. unfold C19_Expect.dev_total. cbn [C19_Expect.f_total C19_Expect.p_total hd tl].
  destruct (Nat.ltb i m); reflexivity. Qed.
Lemma dev_total_nil obs i : dev_total [] obs i = 0.
Proof. unfold C19_Expect.dev_total. cbn. ring. Qed.

(* E[deviation] = 0 : the empirical distributions are unbiased (any index; beyond the total size both sides are 0) *)
Theorem expectL_dev ss i : Forall (valid_sched F) ss ->
  expectL ss (fun obs => dev_total ss obs i) = 0.
Proof. intros H. revert i. induction H as [|[[m p] n] t [Hp Hn] Ht IH]; intros i; cbn [C19_Expect.expectL].
  { apply dev_total_nil. }
  destruct (Nat.ltb_spec i m) as [Hlt|Hge].
  - rewrite (expect_ext m p n _ (fun s => dev n p s i)).
    2:{ intros s _. rewrite (expectL_ext t _ (fun _ => dev n p s i)).
        2:{ intros st. rewrite dev_total_cons. destruct (Nat.ltb_spec i m); [reflexivity|lia]. }
        now apply expectL_const. }
    now apply expect_dev.
  - rewrite (expect_ext m p n _ (fun _ => 0)). { now apply expect_const. }
    intros s _. rewrite (expectL_ext t _ (fun st => dev_total t st (i - m)%nat)).
    2:{ intros st. rewrite dev_total_cons. destruct (Nat.ltb_spec i m); [lia|reflexivity]. }
    apply IH. Qed.
End ExpectProofs.
