(* C12 — a symmetric positive definite matrix over an ordered field HAS a (two-sided) inverse, for every dimension
   (induction on the dimension with the Schur complement of the last row / column).  Hence the matrix the inverse-covariance
   weighting modes hand to np.linalg.inv is invertible for every outcome count: the construction cannot fail.  Axiom-free. *)
From Coq Require Import Ring Field Setoid Arith Lia Bool List.
From QV.Core Require Import OF Sums Mat.
From QV.Model Require Import C12_Loss.
From QV.Proofs Require Import C12_Loss C12_Config C12_CovPD.
Import ListNotations.

Section PDInverse.
Context (F : OF).
Add Field Fpi : (k_field F).
Notation "0" := (c0 F). Notation "1" := (c1 F).
Infix "+" := (cadd F). Infix "*" := (cmul F). Infix "-" := (csub F). Infix "/" := (kdiv F).
Notation "- x" := (copp F x).
Infix "<=" := (kle F).
Notation mat := (@mat F). Notation vec := (@vec F).

Definition posdef (n : nat) (M : mat) : Prop :=
  forall x : vec, 0 <= qfm n M x /\ (qfm n M x = 0 -> forall i, (i < n)%nat -> x i = 0).

Lemma qfm_mv n (M : mat) (x : vec) : qfm n M x = sumn n (fun a => x a * mv n M x a).
Proof. unfold qfm, mv. apply sumn_ext; intros a _. rewrite <- sumn_scale_l. apply sumn_ext; intros c _. ring. Qed.
Lemma posdef_kernel n (M : mat) (x : vec) : posdef n M ->
  (forall a, (a < n)%nat -> mv n M x a = 0) -> forall i, (i < n)%nat -> x i = 0.
Proof. intros H Hk. apply (proj2 (H x)). rewrite qfm_mv. apply sumn_zero'. intros a Ha. rewrite (Hk a Ha). ring. Qed.

(* restriction to the leading block *)
Lemma posdef_restrict k (M : mat) : posdef (S k) M -> posdef k M.
Proof. intros H x. set (x' := fun i => if i <? k then x i else 0).
  assert (E : qfm (S k) M x' = qfm k M x).
  { unfold qfm. cbn [sumn].
    assert (Xk : x' k = 0) by (unfold x'; now rewrite Nat.ltb_irrefl).
    assert (Xi : forall i, (i < k)%nat -> x' i = x i) by (intros i Hi; unfold x'; destruct (Nat.ltb_spec i k); [reflexivity|lia]).
    rewrite Xk.
    rewrite (sumn_ext k (fun a => sumn k (fun c => x' a * M a c * x' c) + x' a * M a k * 0)
                        (fun a => sumn k (fun c => x a * M a c * x c))).
    2:{ intros a Ha. rewrite (Xi a Ha). rewrite (sumn_ext k _ (fun c => x a * M a c * x c)) by (intros c Hc; now rewrite (Xi c Hc)). ring. }
    rewrite (sumn_zero' k (fun c => 0 * M k c * x' c)) by (intros; ring). ring. }
  destruct (H x') as [H1 H2]. rewrite E in H1, H2. split; [exact H1|].
  intros Hz i Hi. specialize (H2 Hz i ltac:(lia)). unfold x' in H2. destruct (Nat.ltb_spec i k); [exact H2|lia]. Qed.

(* the block inverse *)
Definition uvec (k : nat) (Ai M : mat) : vec := fun i => sumn k (fun m => Ai i m * M m k).
Definition schur (k : nat) (Ai M : mat) : F := M k k - sumn k (fun l => M l k * uvec k Ai M l).
Definition binv (k : nat) (Ai M : mat) : mat :=
  let u := uvec k Ai M in let s := schur k Ai M in
  fun i j => if i <? k then (if j <? k then Ai i j + u i * u j / s else - u i / s)
             else (if j <? k then - u j / s else 1 / s).

Section Step.
Variables (k : nat) (M Ai : mat).
Hypothesis Msym : msym (S k) M.
Hypothesis Hinv : is_inverse F k M Ai.
Let u := uvec k Ai M.
Let s := schur k Ai M.

Lemma Au_eq i : (i < k)%nat -> sumn k (fun l => M i l * u l) = M i k.
Proof. intros Hi. unfold u, uvec.
  rewrite (sumn_ext k (fun l => M i l * sumn k (fun m => Ai l m * M m k)) (fun l => sumn k (fun m => M i l * Ai l m * M m k))).
  2:{ intros l _. rewrite <- sumn_scale_l. apply sumn_ext; intros; ring. }
  rewrite sumn_swap.
  rewrite (sumn_ext k _ (fun m => (if Nat.eqb i m then M m k else 0))).
  - now rewrite sumn_delta'.
  - intros m Hm. rewrite sumn_scale_r. fold (mmul k M Ai i m). rewrite (proj1 Hinv i m Hi Hm). unfold mid.
    destruct (Nat.eqb i m); ring. Qed.
Lemma Ai_sym : msym k Ai.
Proof. apply (inverse_of_sym_is_sym F k M Ai); [|exact Hinv]. intros x y Hx Hy. apply Msym; lia. Qed.
Lemma uA_eq j : (j < k)%nat -> sumn k (fun l => M k l * Ai l j) = u j.
Proof. intros Hj. unfold u, uvec. apply sumn_ext; intros l Hl. rewrite (Msym k l ltac:(lia) ltac:(lia)).
  rewrite (Ai_sym l j Hl Hj). ring. Qed.
Lemma bu_eq : sumn k (fun l => M k l * u l) = M k k - s.
Proof. unfold s, schur. fold u. rewrite (sumn_ext k (fun l => M k l * u l) (fun l => M l k * u l)).
  - ring.
  - intros l Hl. now rewrite (Msym k l ltac:(lia) ltac:(lia)). Qed.

Hypothesis Hs : s <> 0.

Lemma binv_ii i j : (i < k)%nat -> (j < k)%nat -> binv k Ai M i j = Ai i j + u i * u j / s.
Proof. intros Hi Hj. unfold binv. cbv zeta. destruct (Nat.ltb_spec i k); [|lia]. destruct (Nat.ltb_spec j k); [reflexivity|lia]. Qed.
Lemma binv_ik i : (i < k)%nat -> binv k Ai M i k = - u i / s.
Proof. intros Hi. unfold binv. cbv zeta. destruct (Nat.ltb_spec i k); [|lia]. now rewrite Nat.ltb_irrefl. Qed.
Lemma binv_kj j : (j < k)%nat -> binv k Ai M k j = - u j / s.
Proof. intros Hj. unfold binv. cbv zeta. rewrite Nat.ltb_irrefl. destruct (Nat.ltb_spec j k); [reflexivity|lia]. Qed.
Lemma binv_kk : binv k Ai M k k = 1 / s.
Proof. unfold binv. cbv zeta. now rewrite Nat.ltb_irrefl. Qed.

Lemma binv_right : meq (S k) (S k) (mmul (S k) M (binv k Ai M)) mid.
Proof. intros i j Hi Hj. unfold mmul. cbn [sumn].
  destruct (Nat.eq_dec i k) as [->|Hik], (Nat.eq_dec j k) as [->|Hjk].
  - (* k, k *) rewrite binv_kk. rewrite (sumn_ext k _ (fun l => (M k l * u l) * (- (1) / s))).
    2:{ intros l Hl. rewrite (binv_ik l Hl). field. exact Hs. }
    rewrite sumn_scale_r, bu_eq. unfold mid. rewrite Nat.eqb_refl. field. exact Hs.
  - (* k, j<k *) assert (Hj' : (j < k)%nat) by lia. rewrite (binv_kj j Hj').
    rewrite (sumn_ext k _ (fun l => M k l * Ai l j + (M k l * u l) * (u j / s))).
    2:{ intros l Hl. rewrite (binv_ii l j Hl Hj'). field. exact Hs. }
    rewrite sumn_add, sumn_scale_r, (uA_eq j Hj'), bu_eq. unfold mid.
    destruct (Nat.eqb_spec k j); [lia|]. field. exact Hs.
  - (* i<k, k *) assert (Hi' : (i < k)%nat) by lia. rewrite binv_kk.
    rewrite (sumn_ext k _ (fun l => (M i l * u l) * (- (1) / s))).
    2:{ intros l Hl. rewrite (binv_ik l Hl). field. exact Hs. }
    rewrite sumn_scale_r, (Au_eq i Hi'). unfold mid. destruct (Nat.eqb_spec i k); [lia|]. field. exact Hs.
  - (* i<k, j<k *) assert (Hi' : (i < k)%nat) by lia. assert (Hj' : (j < k)%nat) by lia. rewrite (binv_kj j Hj').
    rewrite (sumn_ext k _ (fun l => M i l * Ai l j + (M i l * u l) * (u j / s))).
    2:{ intros l Hl. rewrite (binv_ii l j Hl Hj'). field. exact Hs. }
    rewrite sumn_add, sumn_scale_r, (Au_eq i Hi'). fold (mmul k M Ai i j). rewrite (proj1 Hinv i j Hi' Hj').
    field. exact Hs. Qed.

Lemma binv_sym : msym (S k) (binv k Ai M).
Proof. intros i j Hi Hj. destruct (Nat.eq_dec i k) as [->|Hik], (Nat.eq_dec j k) as [->|Hjk]; [reflexivity| | |].
  - rewrite (binv_kj j ltac:(lia)), (binv_ik j ltac:(lia)). reflexivity.
  - rewrite (binv_kj i ltac:(lia)), (binv_ik i ltac:(lia)). reflexivity.
  - rewrite !binv_ii by lia. rewrite (Ai_sym i j ltac:(lia) ltac:(lia)). field. exact Hs. Qed.

Lemma binv_is_inverse : is_inverse F (S k) M (binv k Ai M).
Proof. split; [exact binv_right|]. intros i j Hi Hj.
  transitivity (mmul (S k) M (binv k Ai M) j i).
  - unfold mmul. apply sumn_ext; intros l Hl. rewrite (binv_sym i l Hi Hl), (Msym l j Hl Hj). ring.
  - rewrite (binv_right j i Hj Hi). unfold mid. now rewrite Nat.eqb_sym. Qed.
End Step.

Theorem posdef_sym_has_inverse : forall k (M : mat), msym k M -> posdef k M -> exists inv, is_inverse F k M inv.
Proof. induction k as [|k IH]; intros M Hsym Hpd.
  - exists M. split; intros i j Hi; lia.
  - assert (HsymA : msym k M) by (intros x y Hx Hy; apply Hsym; lia).
    destruct (IH M HsymA (posdef_restrict k M Hpd)) as [Ai HAi].
    assert (Hs : schur k Ai M <> 0).
    { intros E.
      set (x := fun i => if i <? k then - uvec k Ai M i else 1).
      assert (Xk : x k = 1) by (unfold x; now rewrite Nat.ltb_irrefl).
      assert (Xi : forall i, (i < k)%nat -> x i = - uvec k Ai M i) by (intros i Hi; unfold x; destruct (Nat.ltb_spec i k); [reflexivity|lia]).
      assert (K : forall a, (a < S k)%nat -> mv (S k) M x a = 0).
      { intros a Ha. unfold mv. cbn [sumn]. rewrite Xk.
        rewrite (sumn_ext k (fun j => M a j * x j) (fun j => - (M a j * uvec k Ai M j))) by (intros j Hj; rewrite (Xi j Hj); ring).
        rewrite sumn_opp. destruct (Nat.eq_dec a k) as [->|Hak].
        - rewrite (bu_eq k M Ai Hsym). rewrite E. ring.
        - rewrite (Au_eq k M Ai HAi a ltac:(lia)). ring. }
      pose proof (posdef_kernel (S k) M x Hpd K k ltac:(lia)) as Z. rewrite Xk in Z. exact (one_neq_zero F Z). }
    exists (binv k Ai M). now apply binv_is_inverse. Qed.

(* the regularised covariance block of the inverse-covariance weighting modes is invertible, for every outcome count *)
Theorem extracted_has_inverse k (q : vec) ncov n32 :
  (forall i, (i < k)%nat -> 0 <= q i) -> sumn k q <= 1 -> 0 <= ncov -> ncov <> 0 -> 0 <= n32 -> n32 <> 0 ->
  exists inv, is_inverse F k (extracted F q ncov n32) inv /\
    forall inv', is_inverse F k (extracted F q ncov n32) inv' -> meq k k inv' inv.
Proof. intros Hq Hsum Hc Hc0 Hn Hn0.
  destruct (posdef_sym_has_inverse k (extracted F q ncov n32)) as [inv Hi].
  - intros x y _ _. apply extracted_sym.
  - intros x. exact (extracted_positive_definite F k q x ncov n32 Hq Hsum Hc Hc0 Hn Hn0).
  - exists inv. split; [exact Hi|]. intros inv' Hi'. exact (is_inverse_unique F k _ inv' inv Hi' Hi). Qed.
End PDInverse.
