(* C12 — the per-schedule row ranges partition the rows of the stacked forward model.  Axiom-free. *)
From Coq Require Import List Arith Lia.
From QV.Model Require Import C12_Slices.
Import ListNotations.

Lemma slices_from_length s sizes : length (slices_from s sizes) = length sizes.
Proof. revert s. induction sizes as [|n t IH]; intros s; cbn; [reflexivity|]. now rewrite IH. Qed.
Lemma slices_from_nth sizes : forall s j, (j < length sizes)%nat ->
  nth j (slices_from s sizes) (0, 0) = (s + offset sizes j, s + offset sizes j + nth j sizes 0).
Proof. induction sizes as [|n t IH]; intros s j Hj; cbn in Hj; [lia|].
  destruct j as [|j]; cbn [slices_from nth].
  - unfold offset. cbn. f_equal; lia.
  - rewrite IH by lia. unfold offset. cbn [firstn fold_right]. f_equal; lia. Qed.
Lemma offset_S sizes j : (j < length sizes)%nat -> offset sizes (S j) = offset sizes j + nth j sizes 0.
Proof. revert j. induction sizes as [|n t IH]; intros j Hj; cbn in Hj; [lia|].
  destruct j as [|j].
  - unfold offset. cbn. lia.
  - specialize (IH j ltac:(lia)). unfold offset in *. cbn [nth]. change (firstn (S (S j)) (n :: t)) with (n :: firstn (S j) t).
    change (firstn (S j) (n :: t)) with (n :: firstn j t). cbn [fold_right]. lia. Qed.
Lemma offset_all sizes : offset sizes (length sizes) = total sizes.
Proof. unfold offset, total. now rewrite firstn_all. Qed.

(* schedule j occupies rows [offset j, offset j + size j); consecutive ranges touch; the last one ends at the total *)
Lemma slices_partition sizes :
  length (slices sizes) = length sizes /\
  (forall j, (j < length sizes)%nat ->
     nth j (slices sizes) (0, 0) = (offset sizes j, offset sizes j + nth j sizes 0) /\
     snd (nth j (slices sizes) (0, 0)) = offset sizes (S j)) /\
  offset sizes 0 = 0 /\ offset sizes (length sizes) = total sizes.
Proof. split; [apply slices_from_length|]. split; [|split; [reflexivity|apply offset_all]].
  intros j Hj. unfold slices. rewrite (slices_from_nth sizes 0 j Hj). cbn [Nat.add snd]. split; [reflexivity|].
  now rewrite offset_S. Qed.

(* a closure built for the slice [lo, hi) with (size = hi - lo, index = 0) reads exactly the rows of the slice *)
Lemma helper_on_slice lo hi : (lo <= hi)%nat ->
  lo + fst (helper_rows (hi - lo) 0) = lo /\ lo + snd (helper_rows (hi - lo) 0) = hi /\
  forall i, (i < hi - lo)%nat -> lo + helper_grad_row (hi - lo) 0 i = lo + i.
Proof. intros H. unfold helper_rows, helper_grad_row. cbn [fst snd]. split; [lia|]. split; [lia|]. intros i Hi. lia. Qed.
