(* C07 — concrete instances on which the hypotheses of the property theorems hold (used by the Examples of Props/C07.v). *)
From Coq Require Import Arith List Bool ZArith Lia Permutation Sorted QArith Qcanon.
From QV.Core Require Import OF Sums Mat QcOF Psd.
From QV.Exec Require Import Base.
From QV.Model Require Import C07_Tensor C07_Embed.
From QV.Proofs Require Import C07_Kron C07_Perm C07_Loop C07_Main C07_Products C07_Fast C07_Embed.
Import ListNotations.

Section Single.
Context {R : CR}.
Add Ring Rex7 : (c_ring R).
(* an object over ONE subsystem denotes its own matrix *)
Lemma denotes_single (name : Z) (r c : nat) (M : @mat R) : (0 < r)%nat -> (0 < c)%nat ->
  denotes {| o_names := [name]; o_rs := [r]; o_cs := [c]; o_m := M |} [(name, (r, c, M))].
Proof. intros Hr Hc. unfold denotes. cbn [map fst snd o_names o_rs o_cs o_m frows fcols].
  repeat split; try reflexivity.
  - repeat constructor.
  - constructor; [intros []|constructor].
  - constructor; [split; assumption|constructor].
  - intros i j _ _. cbn [tensm map]. unfold kron, rsize, csize, fmat. cbn [map prodn fold_right snd].
    rewrite !Nat.div_1_r. ring. Qed.
End Single.

(* ---- four State-like factors (coefficient vectors of length 3) named 1, 2, 3, 0 in argument order, grouped (1 (x) 2) (x) (3 (x) 0) *)
Definition ex_vec (k : nat) : @vec Qc_CR := fun i => Q2Qc (inject_Z (Z.of_nat (1 + i + 10 * k))).
Definition ex_leaf (name : Z) (k : nat) : @dtree Qc_CR :=
  DLeaf {| o_names := [name]; o_rs := [3%nat]; o_cs := [1%nat]; o_m := colm (ex_vec k) |} [(name, (3%nat, 1%nat, colm (ex_vec k)))].
Definition ex_tree : @dtree Qc_CR := DNode (DNode (ex_leaf 1 0) (ex_leaf 2 1)) (DNode (ex_leaf 3 2) (ex_leaf 0 3)).

Lemma ex_tree_hyps :
  dwf ex_tree /\ kind_ok KVec (map snd (ditems ex_tree)) /\ NoDup (map fst (ditems ex_tree)) /\
  map fst (ditems ex_tree) = [1; 2; 3; 0]%Z /\ (length (ditems ex_tree) * length (ditems ex_tree) <= 16)%nat.
Proof. split; [|split; [|split; [|split]]].
  - cbn [dwf ex_tree ex_leaf]. repeat split; apply denotes_single; lia.
  - cbn. repeat constructor.
  - cbn. repeat constructor; cbn; intuition discriminate.
  - reflexivity.
  - cbn. lia. Qed.

(* the repaired sizes give a value with the subsystems in ascending order; the sizes as coded before the repair
   (fixes/C07-left-permutation-matrix-size-product) make the same call raise (error code 1 = numpy's matmul ValueError) *)
Lemma ex_tree_fixed_names : exists o, eval_fast (vfreeze 0%nat) KVec Fixed 16 (erase ex_tree) = POk o /\ o_names o = [0; 1; 2; 3]%Z.
Proof. destruct ex_tree_hyps as (W & K & ND & EN & Hf).
  destruct (eval_fast_total (vfreeze 0%nat) KVec Fixed 16 vfreeze_memo_ok ex_tree W K ND (or_introl eq_refl) Hf) as (o & Eo).
  exists o. split; [exact Eo|].
  destruct (eval_fast_sound (vfreeze 0%nat) KVec Fixed 16 vfreeze_memo_ok ex_tree o W K (or_introl eq_refl) Eo) as (items & Pi & Di).
  destruct Di as (N & _ & _ & S & NDi & _).
  rewrite N.
  assert (P : Permutation [1; 2; 3; 0]%Z (map fst items)) by (rewrite <- EN; now apply Permutation_map).
  (* a sorted duplicate-free permutation of 1 2 3 0 *)
  assert (L : length (map fst items) = 4%nat) by (rewrite <- (Permutation_length P); reflexivity).
  destruct (map fst items) as [|a [|b [|c [|d [|]]]]]; try discriminate L.
  assert (Hin : forall x, In x [a; b; c; d] -> (x = 1 \/ x = 2 \/ x = 3 \/ x = 0)%Z).
  { intros x Hx. apply (Permutation_in _ (Permutation_sym P)) in Hx. cbn in Hx. intuition lia. }
  assert (Hall : forall x, (x = 1 \/ x = 2 \/ x = 3 \/ x = 0)%Z -> In x [a; b; c; d]).
  { intros x Hx. apply (Permutation_in _ P). cbn. intuition lia. }
  apply Sorted_StronglySorted in S; [|intros x y z; apply Z.le_trans].
  inversion S as [|? ? S1 F1]; subst. inversion S1 as [|? ? S2 F2]; subst. inversion S2 as [|? ? S3 F3]; subst.
  inversion F1 as [|? ? ab F1']; subst. inversion F1' as [|? ? ac F1'']; subst. inversion F1'' as [|? ? ad _]; subst.
  inversion F2 as [|? ? bc F2']; subst. inversion F2' as [|? ? bd _]; subst. inversion F3 as [|? ? cd _]; subst.
  inversion NDi as [|? ? na NDb]; subst. inversion NDb as [|? ? nb NDc]; subst. inversion NDc as [|? ? nc _]; subst.
  cbn in na, nb, nc.
  pose proof (Hin a (or_introl eq_refl)) as Ha. pose proof (Hin b (or_intror (or_introl eq_refl))) as Hb.
  pose proof (Hin c (or_intror (or_intror (or_introl eq_refl)))) as Hc.
  pose proof (Hin d (or_intror (or_intror (or_intror (or_introl eq_refl))))) as Hd.
  clear Hin Hall S S1 S2 S3 F1 F1' F1'' F2 F2' F3 NDi NDb NDc P L N.
  assert (a = 0 /\ b = 1 /\ c = 2 /\ d = 3)%Z as (-> & -> & -> & ->) by lia. reflexivity. Qed.

Lemma ex_tree_coded_raises : @eval Qc_CR KVec Coded 16 (erase ex_tree) = PErr 1.
Proof. vm_compute. reflexivity. Qed.

(* ---- embedding: identity on a qutrit *)
Lemma ex_psd_id3 : PSD Qc_OF 3 (@mid Qc_CR).
Proof. apply (psd_dec_spec Qc_OF 3 mid).
  - intros i j _ _. unfold mid. now rewrite Nat.eqb_sym.
  - vm_compute. reflexivity. Qed.
Definition ex_third : Qc := Q2Qc (1 # 3).
Lemma ex_third_nonneg : kle Qc_OF (c0 Qc_OF) ex_third.
Proof. apply (k_leb Qc_OF). vm_compute. reflexivity. Qed.
Lemma ex_tp_hyps : meq 3 3 (@sum_prod Qc_CR 3 [(mid, mid)]) mid /\ @nsum Qc_CR (length [(@mid Qc_CR, @mid Qc_CR)]) (cmul Qc_CR (c1 Qc_CR) (c1 Qc_CR)) = c1 Qc_CR.
Proof. split.
  - intros i j Hi Hj. destruct i as [|[|[|]]]; try lia; destruct j as [|[|[|]]]; try lia; vm_compute; reflexivity.
  - vm_compute. reflexivity. Qed.

(* a Hermitian PSD qutrit operator with non-zero imaginary part: [[1, i, 0], [-i, 1, 0], [0, 0, 1]] (eigenvalues 0, 2, 1) *)
From QV.Core Require Import Cplx.
From QV.Model Require Import HermEmbed.
Definition ex_herm : @mat (CF Qc_OF) := fun i j =>
  match i, j with
  | 0%nat, 0%nat | 1%nat, 1%nat | 2%nat, 2%nat => (1%Qc, 0%Qc)
  | 0%nat, 1%nat => (0%Qc, 1%Qc)
  | 1%nat, 0%nat => (0%Qc, Qcopp 1%Qc)
  | _, _ => (0%Qc, 0%Qc)
  end.
Lemma ex_herm_psd : PSD Qc_OF (3 + 3) (embed Qc_OF 3 ex_herm).
Proof. apply (psd_dec_spec Qc_OF (3 + 3)).
  - intros i j Hi Hj.
    destruct i as [|[|[|[|[|[|]]]]]]; try lia; destruct j as [|[|[|[|[|[|]]]]]]; try lia; vm_compute; reflexivity.
  - vm_compute. reflexivity. Qed.
