(* C10 — constrained estimators: lemmas and main theorems about Model/C10_Estimators.v.
   Everything is generic in the ordered field F (holds for Qc, which is executed, and for R); axiom-free. *)
From Coq Require Import Arith List Bool ZArith Lia Field Ring.
From QV.Core Require Import OF Sums Mat.
From QV.Model Require Import C10_Estimators.
Import ListNotations.

(* ------------------------------------------------------------------ 1. decision table *)
Lemma C10_kind_table : forall e i,
  (C10_kind_of_flags e i = KPhysical <-> e = true /\ i = true) /\
  (C10_kind_of_flags e i = KEq <-> e = true /\ i = false) /\
  (C10_kind_of_flags e i = KIneq <-> e = false /\ i = true) /\
  (C10_kind_of_flags e i = KIdentity <-> e = false /\ i = false).
Proof. intros [] []; cbn; repeat split; intros; try congruence; try (destruct H; congruence). Qed.

Lemma C10_select_fresh : forall t o,
  C10_select None t o = {| d_kind := C10_kind_of_flags (o_eq o) (o_ineq o); d_on_para := t_on_para t;
                          d_order := o_order o; d_maxit := o_maxit_proj o |}.
Proof. reflexivity. Qed.
Lemma C10_select_cached : forall d t o, C10_select (Some d) t o = d.
Proof. reflexivity. Qed.
Lemma C10_select_table : forall t o,
  let d := C10_select None t o in
  (d_kind d = KPhysical <-> o_eq o = true /\ o_ineq o = true) /\
  (d_kind d = KEq <-> o_eq o = true /\ o_ineq o = false) /\
  (d_kind d = KIneq <-> o_eq o = false /\ o_ineq o = true) /\
  (d_kind d = KIdentity <-> o_eq o = false /\ o_ineq o = false) /\
  d_on_para d = t_on_para t /\ d_order d = o_order o /\ d_maxit d = o_maxit_proj o.
Proof. intros t o. cbn. destruct (C10_kind_table (o_eq o) (o_ineq o)) as [A [B [C D]]]. repeat split; tauto. Qed.
(* the template's order has no influence: the closure runs in the order it is given *)
Lemma C10_select_ignores_template_order : forall c p ord ord' o,
  C10_select c {| t_on_para := p; t_order := ord |} o = C10_select c {| t_on_para := p; t_order := ord' |} o.
Proof. intros [d|] p ord ord' o; reflexivity. Qed.

(* AS CODED BEFORE FIX qoperation-func-proj-physical-with-var-order: the option's projection order never reached the closure *)
Lemma C10_select_before_fix_ignores_option_order : forall c t e i ord ord' mx,
  C10_select_before_fix c t {| o_eq := e; o_ineq := i; o_order := ord; o_maxit_proj := mx |} =
  C10_select_before_fix c t {| o_eq := e; o_ineq := i; o_order := ord'; o_maxit_proj := mx |}.
Proof. intros [d|] t e i ord ord' mx; reflexivity. Qed.
(* ... it is the repaired selection run with the template's order in place of the option's *)
Lemma C10_select_before_fix_eq : forall c t o,
  C10_select_before_fix c t o =
  C10_select c t {| o_eq := o_eq o; o_ineq := o_ineq o; o_order := t_order t; o_maxit_proj := o_maxit_proj o |}.
Proof. intros [d|] t o; reflexivity. Qed.
(* ... and differs from the repaired selection exactly when a fresh physical projection is asked for in the other order *)
Lemma C10_select_before_fix_differs : forall t o,
  C10_select_before_fix None t o = C10_select None t o <-> t_order t = o_order o.
Proof. intros t o. unfold C10_select_before_fix, C10_select. split.
  - intro H. injection H. auto.
  - intro H. rewrite H. reflexivity. Qed.

Lemma C10_apply_table : forall (V : Type) (Pphys : C10_order -> bool -> Z -> V -> V) (Peq Pineq : bool -> V -> V) t o,
  C10_apply Pphys Peq Pineq (C10_select None t o) =
  (if o_eq o then (if o_ineq o then Pphys (o_order o) (t_on_para t) (o_maxit_proj o) else Peq (t_on_para t))
   else (if o_ineq o then Pineq (t_on_para t) else (fun x => x))).
Proof. intros V Pphys Peq Pineq t o. unfold C10_apply, C10_select. cbn.
  destruct (o_eq o), (o_ineq o); reflexivity. Qed.

(* ---- histories of configurations *)
Lemma C10_configure_given : forall a c, a_given (C10_configure a c) = a_given a.
Proof. intros a c. unfold C10_configure. destruct (a_given a) eqn:E; [exact E|reflexivity]. Qed.
Lemma C10_configure_seq_given : forall cfgs a, a_given (fold_left C10_configure cfgs a) = a_given a.
Proof. induction cfgs as [|c l IH]; intros a; cbn [fold_left]; [reflexivity|]. rewrite IH. apply C10_configure_given. Qed.
(* a projection handed to the constructor is the installed one after ANY sequence of configurations *)
Lemma C10_configure_seq_keeps_given : forall cfgs a d, a_given a = Some d ->
  C10_installed (fold_left C10_configure cfgs a) = Some d.
Proof. intros cfgs a d H. unfold C10_installed. rewrite C10_configure_seq_given, H. reflexivity. Qed.
(* otherwise the installed projection is the one the decision table derives from the LAST configuration, whatever came before *)
Lemma C10_configure_seq_last : forall cfgs a c, a_given a = None ->
  C10_installed (fold_left C10_configure (cfgs ++ [c]) a) = Some (C10_select None (fst c) (snd c)).
Proof. intros cfgs a c H. rewrite fold_left_app. cbn [fold_left].
  pose proof (C10_configure_seq_given cfgs a) as G. rewrite H in G.
  remember (fold_left C10_configure cfgs a) as X. unfold C10_installed, C10_configure. rewrite G. reflexivity. Qed.
(* AS CODED BEFORE FIX pgd-cached-func-proj: the projection derived from the FIRST configuration stays installed *)
Lemma C10_configure_before_fix_keeps : forall cfgs a d, C10_installed a = Some d ->
  C10_installed (fold_left C10_configure_before_fix cfgs a) = Some d.
Proof. induction cfgs as [|c l IH]; intros a d H; cbn [fold_left]; [exact H|].
  apply IH. unfold C10_configure_before_fix. rewrite H. exact H. Qed.
Lemma C10_configure_before_fix_seq_first : forall cfgs a c, C10_installed a = None ->
  C10_installed (fold_left C10_configure_before_fix (c :: cfgs) a) = Some (C10_select None (fst c) (snd c)).
Proof. intros cfgs a c H. cbn [fold_left]. apply C10_configure_before_fix_keeps.
  unfold C10_configure_before_fix. rewrite H. reflexivity. Qed.

Section P.
Context (F : OF).
Add Field C10f : (k_field F).
Notation "0" := (c0 F). Notation "1" := (c1 F).
Infix "+" := (cadd F). Infix "*" := (cmul F). Infix "<=" := (kle F). Infix "-" := (csub F).
Infix "/" := (kdiv F). Notation "- x" := (copp F x).
Notation vec := (@vec F).
Notation mat := (@mat F).
Notation half := (C10_half F). Notation two := (C10_two F). Notation ofnat := (C10_ofnat F).

(* ------------------------------------------------------------------ vocabulary *)
(* convex set of vectors of length n (membership depends on the first n entries only) *)
Definition C10_convex (C : vec -> Prop) :=
  forall a b t, C a -> C b -> 0 <= t -> t <= 1 -> C (fun i => t * a i + (1 - t) * b i).
Definition C10_ext (n : nat) (C : vec -> Prop) := forall a b, veq n a b -> C a -> C b.
Definition C10_into (P : vec -> vec) (C : vec -> Prop) := forall z, C (P z).
Definition C10_fixes (n : nat) (P : vec -> vec) (C : vec -> Prop) := forall z, C z -> veq n (P z) z.

(* ------------------------------------------------------------------ small arithmetic *)
Lemma C10_two_neq0 : two <> 0.
Proof. apply double_neq0. apply one_neq_zero. Qed.
Lemma C10_half_nonneg : 0 <= half.
Proof. unfold C10_half. apply inv_nonneg; [apply C10_two_neq0|]. apply add_nonneg; apply one_nonneg. Qed.
Lemma C10_half_le1 : half <= 1.
Proof. apply (proj2 (le_sub F half 1)). replace (1 - half) with half.
  - apply C10_half_nonneg.
  - unfold C10_half, C10_two. field. apply C10_two_neq0. Qed.
Lemma C10_half_mul_neq0 a : a <> 0 -> half * a <> 0.
Proof. intros Ha E. apply Ha. replace a with (two * (half * a)).
  - rewrite E. ring.
  - unfold C10_half, C10_two. field. apply C10_two_neq0. Qed.
Lemma C10_ofnat_nonneg k : 0 <= ofnat k.
Proof. induction k as [|k IH]; cbn; [apply k_refl|]. apply add_nonneg; [exact IH|apply one_nonneg]. Qed.
Lemma C10_ofnat_S_neq0 k : ofnat (S k) <> 0.
Proof. cbn. intros E. apply (one_neq_zero F). apply (k_antisym F); [|apply one_nonneg].
  pose proof (k_add F _ _ 1 (C10_ofnat_nonneg k)) as A. rewrite E in A.
  replace (0 + 1) with 1 in A by ring. exact A. Qed.
Lemma C10_sumn_const m c : sumn m (fun _ => c) = ofnat m * c.
Proof. induction m as [|m IH]; cbn; [ring|]. rewrite IH. ring. Qed.

(* ------------------------------------------------------------------ 2. the outer loop: an invariant rule *)
Section LoopInv.
Context {S : Type} (step : nat -> S -> S) (cur : S -> vec) (stop : list vec -> bool).
Context (I J : S -> Prop).
Context (Hstep : forall k s, I s -> J (step k s)) (HJI : forall s, J s -> I s).

Lemma C10_loop_inv : forall fuel k s hist, I s ->
  let r := C10_loop F step cur stop fuel k s hist in
  exists new, snd r = new ++ hist /\ Forall (fun v => exists s', J s' /\ v = cur s') new /\
    ((fuel = O /\ fst r = s /\ new = []) \/ (J (fst r) /\ exists rest, new = cur (fst r) :: rest)).
Proof. induction fuel as [|f IH]; intros k s hist Hs; cbn [C10_loop].
  - exists []. cbn. repeat split; auto.
  - set (s' := step k s). assert (Js : J s') by (apply Hstep; exact Hs).
    destruct (stop (cur s' :: hist)) eqn:Est.
    + exists [cur s']. cbn. repeat split.
      * constructor; [|constructor]. exists s'. auto.
      * right. split; [exact Js|]. exists []. reflexivity.
    + destruct (IH (Datatypes.S k) s' (cur s' :: hist) (HJI _ Js)) as [new [E [Fa D]]].
      exists (new ++ [cur s']). split; [|split].
      * rewrite E. rewrite <- app_assoc. reflexivity.
      * apply Forall_app. split; [exact Fa|]. constructor; [|constructor]. exists s'. auto.
      * right. destruct D as [[-> [E2 ->]]|[Jr [rest ->]]].
        -- cbn [C10_loop fst]. split; [exact Js|]. exists []. reflexivity.
        -- split; [exact Jr|]. exists (rest ++ [cur s']). reflexivity. Qed.

(* a run that returns (max_iteration >= 1): the returned state satisfies J, it is the newest history entry, and every
   stored iterate except the start point is the current point of a J-state *)
Lemma C10_run_inv : forall maxit s0 r, I s0 -> C10_run F step cur stop maxit s0 = Some r ->
  J (fst r) /\ exists new, snd r = new ++ [cur s0] /\ Forall (fun v => exists s', J s' /\ v = cur s') new /\
                           exists rest, new = cur (fst r) :: rest.
Proof. intros maxit s0 r Hs. destruct maxit as [|m]; cbn [C10_run]; [discriminate|]. intros E. injection E as <-.
  destruct (C10_loop_inv (Datatypes.S m) 1 s0 [cur s0] Hs) as [new [E1 [Fa D]]].
  destruct D as [[Z _]|[Jr Hn]]; [discriminate|]. split; [exact Jr|]. exists new. auto. Qed.
Lemma C10_run_some : forall maxit s0, (0 < maxit)%nat -> exists r, C10_run F step cur stop maxit s0 = Some r.
Proof. intros [|m] s0 H; [lia|]. eexists. reflexivity. Qed.
End LoopInv.
(* the loop result is the start state advanced by j steps, 1 <= j <= fuel, whatever the stopping rule *)
Lemma C10_loop_is_steps : forall (S : Type) (step : nat -> S -> S) cur stop fuel k s hist, (0 < fuel)%nat ->
  exists j, (1 <= j <= fuel)%nat /\ fst (C10_loop F step cur stop fuel k s hist) = C10_steps step j k s.
Proof. intros S step cur stop. induction fuel as [|f IH]; intros k s hist Hf; [lia|].
  cbn [C10_loop]. destruct (stop (cur (step k s) :: hist)).
  - exists 1%nat. split; [lia|reflexivity].
  - destruct f as [|f'].
    + exists 1%nat. split; [lia|reflexivity].
    + destruct (IH (Datatypes.S k) (step k s) (cur (step k s) :: hist)) as [j [Hj E]]; [lia|].
      exists (Datatypes.S j). split; [lia|]. rewrite E. reflexivity. Qed.
Lemma C10_run_is_steps : forall (S : Type) (step : nat -> S -> S) cur stop maxit s0 r,
  C10_run F step cur stop maxit s0 = Some r -> exists j, (1 <= j <= maxit)%nat /\ fst r = C10_steps step j 1 s0.
Proof. intros S step cur stop maxit s0 r E. destruct maxit as [|m]; [discriminate|]. unfold C10_run in E.
  assert (Er : r = C10_loop F step cur stop (Datatypes.S m) 1 s0 [cur s0]) by congruence. rewrite Er.
  apply (C10_loop_is_steps S step cur stop (Datatypes.S m) 1 s0 [cur s0]). lia. Qed.
(* an invariant of every step is an invariant of the iterates *)
Lemma C10_steps_inv : forall (S : Type) (step : nat -> S -> S) (I : S -> Prop), (forall k s, I s -> I (step k s)) ->
  forall j k s, I s -> I (C10_steps step j k s).
Proof. intros S step I H. induction j as [|j IH]; intros k s Hs; cbn [C10_steps]; [exact Hs|]. apply IH, H, Hs. Qed.
Lemma C10_steps_last : forall (S : Type) (step : nat -> S -> S) j k s,
  C10_steps step (Datatypes.S j) k s = step (k + j)%nat (C10_steps step j k s).
Proof. intros S step. induction j as [|j IH]; intros k s.
  - cbn [C10_steps]. now rewrite Nat.add_0_r.
  - change (C10_steps step (Datatypes.S (Datatypes.S j)) k s) with (C10_steps step (Datatypes.S j) (Datatypes.S k) (step k s)).
    rewrite IH. cbn [C10_steps]. f_equal. lia. Qed.
Lemma C10_run_some_iff : forall (S : Type) (step : nat -> S -> S) cur stop maxit s0,
  (exists r, C10_run F step cur stop maxit s0 = Some r) <-> (0 < maxit)%nat.
Proof. intros S step cur stop maxit s0. split.
  - intros [r E]. destruct maxit; [discriminate|lia].
  - apply C10_run_some. Qed.

(* ------------------------------------------------------------------ 3. backtracking: feasibility of every iterate *)
Section BT.
Context (n : nat) (P : vec -> vec) (f : vec -> F) (g : vec -> vec) (mu gamma : F) (afuel : nat).
Notation bt_step := (C10_bt_step F n P f g mu gamma afuel).
Notation bt_alpha := (C10_bt_alpha F n P f g mu gamma afuel).
Notation bt_arg := (C10_bt_arg F g mu).

Lemma C10_alpha_search_range : forall fuel x y a, 0 <= a -> a <= 1 -> a <> 0 ->
  let r := C10_alpha_search F n f g gamma fuel x y a in 0 <= r /\ r <= 1 /\ r <> 0.
Proof. induction fuel as [|k IH]; intros x y a H0 H1 Hn; cbn [C10_alpha_search]; [auto|].
  destruct (C10_armijo_fails F n f g gamma x y a); [|auto]. apply IH.
  - apply k_mul; [apply C10_half_nonneg|exact H0].
  - apply (k_trans F _ (half * 1)). { apply mul_le_compat_nonneg; [apply C10_half_nonneg|exact H1]. }
    replace (half * 1) with half by ring. apply C10_half_le1.
  - now apply C10_half_mul_neq0. Qed.
(* alpha is 2^-j for the number j of failed Armijo tests *)
Lemma C10_alpha_search_pow : forall fuel x y a,
  exists j, (j <= fuel)%nat /\ C10_alpha_search F n f g gamma fuel x y a = Nat.iter j (fun b => half * b) a.
Proof. induction fuel as [|k IH]; intros x y a; cbn [C10_alpha_search]. { exists O. split; [lia|reflexivity]. }
  destruct (C10_armijo_fails F n f g gamma x y a). 2:{ exists O. split; [lia|reflexivity]. }
  destruct (IH x y (half * a)) as [j [Hj E]]. exists (Datatypes.S j). split; [lia|]. rewrite E.
  clear. induction j as [|j IHj]; [reflexivity|]. unfold Nat.iter in *. cbn [nat_rect] in *. f_equal. exact IHj. Qed.

Lemma C10_bt_alpha_range x : 0 <= bt_alpha x /\ bt_alpha x <= 1 /\ bt_alpha x <> 0.
Proof. unfold C10_bt_alpha. apply C10_alpha_search_range; [apply one_nonneg|apply k_refl|apply one_neq_zero]. Qed.

(* x+ = alpha P(x - g/mu) + (1 - alpha) x *)
Lemma C10_bt_alpha_full x :
  0 <= bt_alpha x /\ bt_alpha x <= 1 /\ bt_alpha x <> 0 /\
  exists j, (j <= afuel)%nat /\ bt_alpha x = Nat.iter j (fun b => half * b) 1.
Proof. destruct (C10_bt_alpha_range x) as [A [B C]]. repeat split; try assumption. apply C10_alpha_search_pow. Qed.
Lemma C10_bt_step_convex_comb x i :
  bt_step x i = bt_alpha x * P (bt_arg x) i + (1 - bt_alpha x) * x i.
Proof. unfold C10_bt_step, C10_bt_dir, vadd, vscale, vsub. ring. Qed.

Context (C : vec -> Prop) (Hconv : C10_convex C) (Hext : C10_ext n C) (Hinto : C10_into P C).

Lemma C10_bt_step_feasible x : C x -> C (bt_step x).
Proof. intros Hx. destruct (C10_bt_alpha_range x) as [A0 [A1 _]].
  apply (Hext (fun i => bt_alpha x * P (bt_arg x) i + (1 - bt_alpha x) * x i)).
  - intros i _. symmetry. apply C10_bt_step_convex_comb.
  - apply Hconv; auto. Qed.

Lemma C10_bt_run_feasible stop maxit x0 r : C x0 ->
  C10_bt_run F n P f g mu gamma afuel stop maxit x0 = Some r -> C (fst r) /\ Forall C (snd r).
Proof. intros H0 E. unfold C10_bt_run in E.
  destruct (C10_run_inv (fun _ => bt_step) (fun x => x) stop C C (fun _ s Hs => C10_bt_step_feasible s Hs) (fun s H => H)
              maxit x0 r H0 E) as [Hr [new [E1 [Fa _]]]].
  split; [exact Hr|]. rewrite E1. apply Forall_app. split.
  - eapply Forall_impl; [|exact Fa]. intros v [s' [Hs ->]]. exact Hs.
  - constructor; [exact H0|constructor]. Qed.

(* the truth of exact data is a fixed point of the iteration: feasible, zero gradient, P fixes feasible points *)
Lemma C10_bt_step_fixed x : C10_fixes n P C -> mu <> 0 -> C x -> veq n (g x) vzero -> veq n (bt_step x) x.
Proof. intros Hfix Hmu Hx Hg.
  assert (Ea : veq n (bt_arg x) x). { intros i Hi. unfold C10_bt_arg. rewrite (Hg i Hi). unfold vzero. field. exact Hmu. }
  assert (Ca : C (bt_arg x)) by (apply (Hext x); [apply veq_sym; exact Ea|exact Hx]).
  intros i Hi. rewrite C10_bt_step_convex_comb. rewrite (Hfix _ Ca i Hi), (Ea i Hi). ring. Qed.
End BT.

(* ------------------------------------------------------------------ 4. momentum and FISTA: iterates are outputs of P *)
Section Range.
Context (P : vec -> vec) (f : vec -> F) (g : vec -> vec).
Definition C10_in_range (v : vec) := exists z, v = P z.

Lemma C10_mom_step_range gam z0 mag s : C10_in_range (ms_x F (C10_mom_step F P f g gam z0 mag s)).
Proof. unfold C10_mom_step. cbn [ms_x]. eexists. reflexivity. Qed.
Lemma C10_fista_step_range delta k s : C10_in_range (snd (C10_fista_step F P g delta k s)).
Proof. destruct s as [xpp xp]. cbn. eexists. reflexivity. Qed.

Lemma C10_mom_run_range gam z0 mag stop maxit x0 m0 r :
  C10_mom_run F P f g gam z0 mag stop maxit x0 m0 = Some r ->
  C10_in_range (ms_x F (fst r)) /\ exists new, snd r = new ++ [x0] /\ Forall C10_in_range new /\
                                               exists rest, new = ms_x F (fst r) :: rest.
Proof. intros E. unfold C10_mom_run in E.
  destruct (C10_run_inv (fun _ => C10_mom_step F P f g gam z0 mag) (ms_x F) stop (fun _ => True)
              (fun s => C10_in_range (ms_x F s)) (fun _ s _ => C10_mom_step_range gam z0 mag s) (fun _ _ => I)
              maxit _ r I E) as [Hr [new [E1 [Fa Hn]]]].
  split; [exact Hr|]. exists new. split; [exact E1|]. split; [|exact Hn].
  eapply Forall_impl; [|exact Fa]. intros v [s' [Hs ->]]. exact Hs. Qed.

Lemma C10_fista_run_range delta stop maxit x0 r :
  C10_fista_run F P g delta stop maxit x0 = Some r ->
  C10_in_range (snd (fst r)) /\ exists new, snd r = new ++ [x0] /\ Forall C10_in_range new /\
                                            exists rest, new = snd (fst r) :: rest.
Proof. intros E. unfold C10_fista_run in E.
  destruct (C10_run_inv (C10_fista_step F P g delta) snd stop (fun _ => True)
              (fun s => C10_in_range (snd s)) (fun k s _ => C10_fista_step_range delta k s) (fun _ _ => I)
              maxit _ r I E) as [Hr [new [E1 [Fa Hn]]]].
  split; [exact Hr|]. exists new. split; [exact E1|]. split; [|exact Hn].
  eapply Forall_impl; [|exact Fa]. intros v [s' [Hs ->]]. exact Hs. Qed.

(* consequence: if P maps into C and the start point is in C, the result and every stored iterate are in C *)
Context (C : vec -> Prop) (Hinto : C10_into P C).
Lemma C10_range_feasible v : C10_in_range v -> C v.
Proof. intros [z ->]. apply Hinto. Qed.
Lemma C10_mom_run_feasible gam z0 mag stop maxit x0 m0 r : C x0 ->
  C10_mom_run F P f g gam z0 mag stop maxit x0 m0 = Some r -> C (ms_x F (fst r)) /\ Forall C (snd r).
Proof. intros H0 E. destruct (C10_mom_run_range _ _ _ _ _ _ _ _ E) as [Hr [new [E1 [Fa _]]]].
  split; [now apply C10_range_feasible|]. rewrite E1. apply Forall_app. split.
  - eapply Forall_impl; [|exact Fa]. intros v. apply C10_range_feasible.
  - constructor; [exact H0|constructor]. Qed.
Lemma C10_fista_run_feasible delta stop maxit x0 r : C x0 ->
  C10_fista_run F P g delta stop maxit x0 = Some r -> C (snd (fst r)) /\ Forall C (snd r).
Proof. intros H0 E. destruct (C10_fista_run_range _ _ _ _ _ E) as [Hr [new [E1 [Fa _]]]].
  split; [now apply C10_range_feasible|]. rewrite E1. apply Forall_app. split.
  - eapply Forall_impl; [|exact Fa]. intros v. apply C10_range_feasible.
  - constructor; [exact H0|constructor]. Qed.
End Range.

(* ------------------------------------------------------------------ 5. calc_proj_physical: range and fixed points *)
Section Dyk.
Context (n : nat) (PA PB : vec -> vec) (eps : F).

(* whatever happens, the returned point is an output of the projection applied LAST (PB) *)
Lemma C10_dyk_loop_last : forall fuel k s, (0 < fuel)%nat ->
  exists z, fst (fst (C10_dyk_loop F n PA PB eps fuel k s)) = PB z.
Proof. induction fuel as [|f IH]; intros k s H; [lia|]. cbn [C10_dyk_loop].
  destruct s as [[x p] q].
  destruct ((1 <=? k)%nat && C10_ltb F (C10_dyk_err F n (x, p, q) (C10_dyk_step F PA PB (x, p, q))) eps).
  - cbn. eexists. reflexivity.
  - destruct f as [|f']. { cbn. eexists. reflexivity. } apply IH. lia. Qed.
Lemma C10_dyk_run_last maxit x0 r : C10_dyk_run F n PA PB eps maxit x0 = Some r -> exists z, r = PB z.
Proof. destruct maxit as [|m]; cbn [C10_dyk_run]; [discriminate|]. intros E. injection E as <-.
  apply (C10_dyk_loop_last (Datatypes.S m) 0 (x0, vzero, vzero)). lia. Qed.

Context (A B : vec -> Prop) (HAext : C10_ext n A) (HBext : C10_ext n B)
        (HPA : C10_fixes n PA A) (HPB : C10_fixes n PB B).
Definition C10_dinv (x0 : vec) (s : C10_dstate F) : Prop :=
  let '(x, p, q) := s in veq n x x0 /\ veq n p vzero /\ veq n q vzero.

Lemma C10_dyk_step_fix x0 s : A x0 -> B x0 -> C10_dinv x0 s -> C10_dinv x0 (C10_dyk_step F PA PB s).
Proof. intros Ha Hb. destruct s as [[x p] q]. intros [Hx [Hp Hq]]. cbn [C10_dyk_step C10_dinv].
  assert (E1 : veq n (vadd x p) x0). { intros i Hi. unfold vadd. rewrite (Hx i Hi), (Hp i Hi). unfold vzero. ring. }
  assert (A1 : A (vadd x p)) by (apply (HAext x0); [apply veq_sym; exact E1|exact Ha]).
  assert (Ey : veq n (PA (vadd x p)) x0) by (eapply veq_trans; [apply HPA; exact A1|exact E1]).
  assert (E2 : veq n (vadd (PA (vadd x p)) q) x0).
  { intros i Hi. unfold vadd at 1. rewrite (Ey i Hi), (Hq i Hi). unfold vzero. ring. }
  assert (B1 : B (vadd (PA (vadd x p)) q)) by (apply (HBext x0); [apply veq_sym; exact E2|exact Hb]).
  assert (Ex : veq n (PB (vadd (PA (vadd x p)) q)) x0) by (eapply veq_trans; [apply HPB; exact B1|exact E2]).
  split; [exact Ex|]. split.
  - intros i Hi. unfold vsub. rewrite (E1 i Hi), (Ey i Hi). unfold vzero. ring.
  - intros i Hi. unfold vsub. rewrite (E2 i Hi), (Ex i Hi). unfold vzero. ring. Qed.
Lemma C10_dyk_loop_fix x0 : A x0 -> B x0 -> forall fuel k s, C10_dinv x0 s -> C10_dinv x0 (C10_dyk_loop F n PA PB eps fuel k s).
Proof. intros Ha Hb. induction fuel as [|f IH]; intros k s Hs; cbn [C10_dyk_loop]; [exact Hs|].
  pose proof (C10_dyk_step_fix x0 s Ha Hb Hs) as H1.
  destruct ((1 <=? k)%nat && C10_ltb F (C10_dyk_err F n s (C10_dyk_step F PA PB s)) eps); [exact H1|]. now apply IH. Qed.
Lemma C10_dyk_run_fix maxit x0 : A x0 -> B x0 -> (0 < maxit)%nat ->
  exists r, C10_dyk_run F n PA PB eps maxit x0 = Some r /\ veq n r x0.
Proof. intros Ha Hb Hm. destruct maxit as [|m]; [lia|]. cbn [C10_dyk_run]. eexists. split; [reflexivity|].
  assert (H0 : C10_dinv x0 (x0, vzero, vzero)) by (repeat split; apply veq_refl).
  pose proof (C10_dyk_loop_fix x0 Ha Hb (Datatypes.S m) 0 _ H0) as H.
  destruct (C10_dyk_loop F n PA PB eps (Datatypes.S m) 0 (x0, vzero, vzero)) as [[x p] q]. cbn. apply H. Qed.
End Dyk.

Section Phys.
Context (n : nat) (Peq Pineq : vec -> vec) (eps : F).
Context (E Q : vec -> Prop) (HEext : C10_ext n E) (HQext : C10_ext n Q)
        (HPeq : C10_fixes n Peq E) (HPineq : C10_fixes n Pineq Q).

(* physical points are fixed by calc_proj_physical, either order, any iteration cap >= 1, any threshold *)
Lemma C10_proj_physical_fix order maxit x0 : E x0 -> Q x0 -> (0 < maxit)%nat ->
  exists r, C10_proj_physical F n Peq Pineq eps order maxit x0 = Some r /\ veq n r x0.
Proof. intros He Hq Hm. destruct order; cbn [C10_proj_physical].
  - now apply (C10_dyk_run_fix n Peq Pineq eps E Q).
  - now apply (C10_dyk_run_fix n Pineq Peq eps Q E). Qed.
Lemma C10_proj_physical_last order maxit x0 r : C10_proj_physical F n Peq Pineq eps order maxit x0 = Some r ->
  exists z, r = (match order with EqIneq => Pineq | IneqEq => Peq end) z.
Proof. destruct order; cbn [C10_proj_physical]; apply C10_dyk_run_last. Qed.

(* ------------------------------------------------------------------ 6. linear estimate, projected linear estimate *)
Lemma C10_lin_est_exact nv nd (M A : mat) (b v : vec) :
  meq nv nv (mmul nv M (mmul nd (mT A) A)) mid ->
  veq nv (C10_lin_est F nv nd M A b (vadd (mv nv A v) b)) v.
Proof. intros Hinv. unfold C10_lin_est.
  assert (E1 : veq nd (vsub (vadd (mv nv A v) b) b) (mv nv A v)). { intros i _. unfold vsub, vadd. ring. }
  assert (E2 : veq nv (mv nd (mT A) (vsub (vadd (mv nv A v) b) b)) (mv nv (mmul nd (mT A) A) v)).
  { intros i Hi. rewrite mv_mmul. apply (mv_ext nv nd (mT A) (mT A)); [apply meq_refl|exact E1|exact Hi]. }
  intros i Hi.
  rewrite (mv_ext nv nv M M _ _ (meq_refl _ _ _) E2 i Hi).
  rewrite <- mv_mmul. rewrite (mv_ext nv nv _ mid v v Hinv (veq_refl _ _) i Hi). now apply mv_mid. Qed.

Context (nv nd : nat) (to_stacked to_var : vec -> vec).
Context (Hts : forall a b, veq nv a b -> veq n (to_stacked a) (to_stacked b))
        (Htv : forall a b, veq n a b -> veq nv (to_var a) (to_var b))
        (Hrt : forall v, veq nv (to_var (to_stacked v)) v).

(* exact data f = A v + b of a physical v: the projected linear estimator returns v (up to the representation) *)
Lemma C10_ple_exact order maxit (M A : mat) (b v : vec) :
  meq nv nv (mmul nv M (mmul nd (mT A) A)) mid -> E (to_stacked v) -> Q (to_stacked v) -> (0 < maxit)%nat ->
  exists r, C10_ple F n nv nd to_stacked to_var Peq Pineq eps order maxit M A b (vadd (mv nv A v) b) = Some r /\
            veq nv r v.
Proof. intros Hinv He Hq Hm. unfold C10_ple.
  set (x0 := to_stacked (C10_lin_est F nv nd M A b (vadd (mv nv A v) b))).
  assert (E0 : veq n x0 (to_stacked v)) by (apply Hts; now apply C10_lin_est_exact).
  assert (He0 : E x0) by (apply (HEext (to_stacked v)); [now apply veq_sym|exact He]).
  assert (Hq0 : Q x0) by (apply (HQext (to_stacked v)); [now apply veq_sym|exact Hq]).
  destruct (C10_proj_physical_fix order maxit x0 He0 Hq0 Hm) as [r [Er Hr]].
  rewrite Er. cbn [option_map]. eexists. split; [reflexivity|].
  eapply veq_trans; [apply Htv; eapply veq_trans; [exact Hr|exact E0]|apply Hrt]. Qed.
End Phys.

(* ------------------------------------------------------------------ 6b. both constraint options on: the installed physical projection
   maps into the set of the constraint projected LAST (in the option's order); hence every iterate of the three algorithms
   satisfies that constraint exactly (the other one only to the stopping accuracy of the Dykstra loop, not proved) *)
Section Installed.
Context (n : nat) (Peq Pineq : vec -> vec) (eps : F) (order : C10_order) (maxitp : nat) (Hm : (0 < maxitp)%nat).
Context (Cl : vec -> Prop) (Hlast : forall z, Cl (C10_last_proj F Peq Pineq order z)).
Notation Pphys := (C10_phys_total F n Peq Pineq eps order maxitp).

Lemma C10_phys_total_into : C10_into Pphys Cl.
Proof. intro z. unfold C10_phys_total.
  destruct (C10_proj_physical F n Peq Pineq eps order maxitp z) as [r|] eqn:E.
  - destruct (C10_proj_physical_last n Peq Pineq eps order maxitp z r E) as [w ->]. apply Hlast.
  - exfalso. destruct maxitp as [|m]; [lia|]. destruct order; cbn in E; discriminate. Qed.

Lemma C10_bt_physical_last_feasible f g mu gamma afuel : C10_convex Cl -> C10_ext n Cl ->
  forall stop maxit x0 r, Cl x0 -> C10_bt_run F n Pphys f g mu gamma afuel stop maxit x0 = Some r ->
  Cl (fst r) /\ Forall Cl (snd r).
Proof. intros Hc He. apply (C10_bt_run_feasible n Pphys f g mu gamma afuel Cl Hc He C10_phys_total_into). Qed.
Lemma C10_mom_physical_last_feasible f g gam z0 mag stop maxit x0 m0 r : Cl x0 ->
  C10_mom_run F Pphys f g gam z0 mag stop maxit x0 m0 = Some r -> Cl (ms_x F (fst r)) /\ Forall Cl (snd r).
Proof. apply (C10_mom_run_feasible Pphys f g Cl C10_phys_total_into). Qed.
Lemma C10_fista_physical_last_feasible g delta stop maxit x0 r : Cl x0 ->
  C10_fista_run F Pphys g delta stop maxit x0 = Some r -> Cl (snd (fst r)) /\ Forall Cl (snd r).
Proof. apply (C10_fista_run_feasible Pphys g Cl C10_phys_total_into). Qed.
End Installed.

(* ------------------------------------------------------------------ 7. origin objects satisfy the equality constraint *)
Lemma C10_origin_eq_state d2 m sd : C10_eq_constraint F TState d2 m sd (C10_origin F TState d2 m sd).
Proof. reflexivity. Qed.
Lemma C10_origin_eq_gate d2 m sd : C10_eq_constraint F TGate d2 m sd (C10_origin F TGate d2 m sd).
Proof. intros b Hb. reflexivity. Qed.
Lemma C10_origin_eq_povm d2 m sd : (0 < m)%nat -> C10_eq_constraint F TPovm d2 m sd (C10_origin F TPovm d2 m sd).
Proof. intros Hm a Ha. cbn [C10_origin].
  rewrite (sumn_ext m _ (fun _ => if (a =? 0)%nat then sd / ofnat m else 0)).
  2:{ intros x _. destruct (divmod_flat x a d2 Ha) as [_ ->]. reflexivity. }
  rewrite C10_sumn_const. unfold C10_delta0. destruct m as [|m']; [lia|].
  destruct (a =? 0)%nat; [|ring]. field. apply C10_ofnat_S_neq0. Qed.
Lemma C10_origin_eq_mprocess d2 m sd : (0 < m)%nat -> C10_eq_constraint F TMProcess d2 m sd (C10_origin F TMProcess d2 m sd).
Proof. intros Hm b Hb. cbn [C10_origin].
  assert (Hb2 : (b < d2 * d2)%nat) by nia.
  rewrite (sumn_ext m _ (fun _ => if (b =? 0)%nat then 1 / ofnat m else 0)).
  2:{ intros x _. destruct (divmod_flat x b (d2 * d2) Hb2) as [_ ->]. reflexivity. }
  rewrite C10_sumn_const. unfold C10_delta0. destruct m as [|m']; [lia|].
  destruct (b =? 0)%nat; [|ring]. field. apply C10_ofnat_S_neq0. Qed.

Lemma C10_origin_eq_all ty d2 m sd : (0 < m)%nat -> C10_eq_constraint F ty d2 m sd (C10_origin F ty d2 m sd).
Proof. destruct ty; intros Hm;
  [apply C10_origin_eq_state|now apply C10_origin_eq_povm|apply C10_origin_eq_gate|now apply C10_origin_eq_mprocess]. Qed.

(* ------------------------------------------------------------------ 8. a concrete family satisfying the hypotheses
   (used by the non-vacuity examples in Props/C10.v): the interval [0,1] in coordinate 0 with the clamp, and, for the
   Dykstra statements, the affine set {v | v 0 = 1} and the half space {v | 0 <= v 1} in length-2 vectors *)
Definition C10_ex_C (v : vec) : Prop := 0 <= v 0%nat /\ v 0%nat <= 1.
Definition C10_ex_P (z : vec) : vec :=
  fun _ => if kleb F (z 0%nat) 0 then 0 else if kleb F 1 (z 0%nat) then 1 else z 0%nat.
Lemma C10_ex_convex : C10_convex C10_ex_C.
Proof. intros a b t [A0 A1] [B0 B1] T0 T1. unfold C10_ex_C.
  assert (T2 : 0 <= 1 - t) by (apply (proj1 (le_sub F t 1)); exact T1). split.
  - apply add_nonneg; apply k_mul; assumption.
  - apply (k_trans F _ (t * 1 + (1 - t) * 1)).
    + apply le_add_compat; apply mul_le_compat_nonneg; assumption.
    + replace (t * 1 + (1 - t) * 1) with 1 by ring. apply k_refl. Qed.
Lemma C10_ex_ext : C10_ext 1 C10_ex_C.
Proof. intros a b H [A0 A1]. unfold C10_ex_C. rewrite <- (H 0%nat) by lia. auto. Qed.
Lemma C10_ex_into : C10_into C10_ex_P C10_ex_C.
Proof. intros z. unfold C10_ex_C, C10_ex_P.
  destruct (kleb F (z 0%nat) 0) eqn:E1. { split; [apply k_refl|apply one_nonneg]. }
  destruct (kleb F 1 (z 0%nat)) eqn:E2. { split; [apply one_nonneg|apply k_refl]. }
  split; [apply (leb_false_lt F _ _ E1)|apply (leb_false_lt F _ _ E2)]. Qed.
Lemma C10_ex_fixes : C10_fixes 1 C10_ex_P C10_ex_C.
Proof. intros z [Z0 Z1] i Hi. assert (i = 0)%nat as -> by lia. unfold C10_ex_P.
  destruct (kleb F (z 0%nat) 0) eqn:E1. { apply k_leb in E1. now apply (k_antisym F). }
  destruct (kleb F 1 (z 0%nat)) eqn:E2. { apply k_leb in E2. now apply (k_antisym F). }
  reflexivity. Qed.

Definition C10_ex_E (v : vec) : Prop := v 0%nat = 1.
Definition C10_ex_Q (v : vec) : Prop := 0 <= v 1%nat.
Definition C10_ex_Peq (z : vec) : vec := fun i => if (i =? 0)%nat then 1 else z i.
Definition C10_ex_Pineq (z : vec) : vec := fun i => if (i =? 1)%nat then (if kleb F 0 (z 1%nat) then z 1%nat else 0) else z i.
Lemma C10_ex_E_ext : C10_ext 2 C10_ex_E.
Proof. intros a b H A. unfold C10_ex_E. rewrite <- (H 0%nat) by lia. exact A. Qed.
Lemma C10_ex_Q_ext : C10_ext 2 C10_ex_Q.
Proof. intros a b H A. unfold C10_ex_Q. rewrite <- (H 1%nat) by lia. exact A. Qed.
Lemma C10_ex_Peq_fixes : C10_fixes 2 C10_ex_Peq C10_ex_E.
Proof. intros z Hz i Hi. unfold C10_ex_Peq. destruct (Nat.eqb_spec i 0) as [->|]; [symmetry; exact Hz|reflexivity]. Qed.
Lemma C10_ex_Pineq_fixes : C10_fixes 2 C10_ex_Pineq C10_ex_Q.
Proof. intros z Hz i Hi. unfold C10_ex_Pineq. destruct (Nat.eqb_spec i 1) as [->|]; [|reflexivity].
  apply (k_leb F) in Hz. rewrite Hz. reflexivity. Qed.
(* hypotheses of the "constraint projected last" theorems on this instance *)
Lemma C10_ex_E_convex : C10_convex C10_ex_E.
Proof. intros a b t Ha Hb _ _. unfold C10_ex_E in *. rewrite Ha, Hb. ring. Qed.
Lemma C10_ex_Q_convex : C10_convex C10_ex_Q.
Proof. intros a b t Ha Hb T0 T1. unfold C10_ex_Q in *.
  assert (T2 : 0 <= 1 - t) by (apply (proj1 (le_sub F t 1)); exact T1).
  apply add_nonneg; apply k_mul; assumption. Qed.
Lemma C10_ex_last_eq : forall z, C10_ex_E (C10_last_proj F C10_ex_Peq C10_ex_Pineq IneqEq z).
Proof. intro z. reflexivity. Qed.
Lemma C10_ex_last_ineq : forall z, C10_ex_Q (C10_last_proj F C10_ex_Peq C10_ex_Pineq EqIneq z).
Proof. intro z. unfold C10_ex_Q, C10_last_proj, C10_ex_Pineq. cbn [Nat.eqb].
  destruct (kleb F 0 (z 1%nat)) eqn:E; [apply (k_leb F); exact E|apply k_refl]. Qed.
End P.

(* ------------------------------------------------------------------ 9. ineq-only projection under on_para_eq_constraint=True
   leaves the PSD set (flags (eq off, ineq on): outside the property's quantifier, see Props/C10.v): witness over Qc in the diagonal two-qubit family; variables (IZ, ZI, ZZ) = (3/2, 0, 0) *)
From Coq Require Import QArith Qcanon.
From QV.Core Require Import QcOF.
Definition C10_wit : @vec Qc_OF := fun i => match i with O => Q2Qc (3 # 2) | _ => 0%Qc end.
Lemma C10_ineq_with_var_para_eq_wit :
  let stacked_proj := C10_d4_Pineq Qc_OF (C10_d4_to_stacked Qc_OF C10_wit) in
  let r := C10_proj_ineq_with_var Qc_OF (C10_d4_to_stacked Qc_OF) (C10_d4_to_var Qc_OF) (C10_d4_Pineq Qc_OF) C10_wit in
  C10_d4_psdb Qc_OF (C10_d4_to_stacked Qc_OF C10_wit) = false /\        (* the input is not PSD *)
  C10_d4_psdb Qc_OF stacked_proj = true /\                               (* the clipped matrix is PSD ... *)
  C10_d4_psdb Qc_OF (C10_d4_to_stacked Qc_OF r) = false /\               (* ... the object denoted by the returned variables is not *)
  Qeq_bool (this (C10_d4_eig Qc_OF (C10_d4_to_stacked Qc_OF r) 1)) (-1 # 4) = true /\
  Qeq_bool (this (r 0%nat)) 1 = true.
Proof. repeat split; vm_compute; reflexivity. Qed.

Lemma C10_ineq_with_var_para_eq_not_into_psd :
  exists v : @vec Qc_OF,
    C10_d4_psdb Qc_OF (C10_d4_Pineq Qc_OF (C10_d4_to_stacked Qc_OF v)) = true /\
    C10_d4_psdb Qc_OF (C10_d4_to_stacked Qc_OF
       (C10_proj_ineq_with_var Qc_OF (C10_d4_to_stacked Qc_OF) (C10_d4_to_var Qc_OF) (C10_d4_Pineq Qc_OF) v)) = false.
Proof. exists C10_wit. destruct C10_ineq_with_var_para_eq_wit as [_ [A [B _]]]. split; assumption. Qed.
