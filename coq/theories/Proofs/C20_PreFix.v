(* C20 — statements about THE CODE AS IT WAS BEFORE THE TWO REPAIRS (Model/C20_PreFix.v), and how it relates to the
   repaired code (Model/C20_Schedule.v).  The ..._before_fix_refuted theorems record the two defects with their witnesses. *)
From Coq Require Import ZArith List Bool Arith String Lia.
From QV.Model Require Import C20_Schedule C20_PreFix.
From QV.Proofs Require Import C20_Schedule C20_Tomo.
Import ListNotations.

(* ================================================================== Experiment._validate_schedules before fix c20-noniterable-schedule *)
(* the code before the repair and the repaired code differ exactly where the repaired code reports a non-iterable schedule:
   in first position the old code let UnboundLocalError escape, later it raised the item error with a stale item number *)
Lemma validate_from0_rel c ss : forall i jst,
  match validate_from c i ss with
  | VNonIter k => (jst = None /\ k = i /\ validate_from0 c i jst ss = V0Unbound i) \/
                  (exists j, validate_from0 c i jst ss = V0 (VItemError k j TypeError))
  | r => validate_from0 c i jst ss = V0 r
  end.
Proof.
  induction ss as [|s ss IH]; intros i jst; cbn; [reflexivity|].
  destruct s as [items|].
  - destruct (validate_items c 0 items) as [t|[j e]] eqn:Hi; [|reflexivity].
    destruct (validate_order t) as [r|] eqn:Ho; [reflexivity|].
    assert (Hwf : well_formed c (SSeq items)) by (apply seq_wf_iff; now exists t).
    pose proof (wf_items_nonempty _ _ Hwf) as Hne.
    set (jst' := match items with [] => jst | _ :: _ => Some (List.length items - 1)%nat end).
    assert (Hj : jst' <> None) by (subst jst'; destruct items; [contradiction|discriminate]).
    specialize (IH (S i) jst').
    destruct (validate_from c (S i) ss); try exact IH.
    destruct IH as [(H & _)|H]; [contradiction|now right].
  - destruct jst as [j|]; [right; now exists j|left; auto].
Qed.
Theorem before_fix_relation c ss :
  match validate_schedules c ss with
  | VNonIter k => (k = 0%nat /\ validate_schedules0 c ss = V0Unbound 0) \/
                  (exists j, validate_schedules0 c ss = V0 (VItemError k j TypeError))
  | r => validate_schedules0 c ss = V0 r
  end.
Proof.
  pose proof (validate_from0_rel c ss 0 None) as H. unfold validate_schedules, validate_schedules0.
  destruct (validate_from c 0 ss); try exact H. destruct H as [(_ & H1 & H2)|H]; [left; auto|now right].
Qed.
(* both versions accept the same schedule lists *)
Theorem before_fix_accepts_same c ss : validate_schedules0 c ss = V0 VOk <-> validate_schedules c ss = VOk.
Proof.
  pose proof (before_fix_relation c ss) as H. destruct (validate_schedules c ss) eqn:E.
  - split; auto.
  - rewrite H. split; [intros [= X]|]; discriminate.
  - split; [|discriminate]. destruct H as [(_ & H)|(j & H)]; rewrite H; discriminate.
  - rewrite H. split; [intros [= X]|]; discriminate.
Qed.
(* UnboundLocalError escaped exactly for a non-iterable FIRST schedule *)
Theorem before_fix_unbound_iff c ss :
  (exists i, validate_schedules0 c ss = V0Unbound i) <-> exists post, ss = SNonIter :: post.
Proof.
  split.
  - intros (i & H). destruct ss as [|[items|] post]; [discriminate| |now exists post].
    exfalso. unfold validate_schedules0 in H. cbn in H.
    destruct (validate_items c 0 items) as [t|[j e]] eqn:Hi; [|discriminate].
    destruct (validate_order t) as [r|] eqn:Ho; [discriminate|].
    assert (Hwf : well_formed c (SSeq items)) by (apply seq_wf_iff; now exists t).
    pose proof (wf_items_nonempty _ _ Hwf) as Hne. destruct items as [|v items]; [contradiction|].
    pose proof (validate_from0_rel c post 1 (Some (List.length (v :: items) - 1)%nat)) as R. rewrite H in R.
    destruct (validate_from c 1 post); try discriminate. destruct R as [(R & _)|(j & R)]; discriminate.
  - intros (post & ->). now exists 0%nat.
Qed.
(* FULL statement of the property ("anything else is rejected with the schedule-item or schedule-order error"), about the
   code before the repair:  forall c ss, exists r, validate_schedules0 c ss = V0 r.   It was FALSE (finding C20-2): *)
Theorem noniterable_first_schedule_before_fix_refuted :
  exists c ss, forall r, validate_schedules0 c ss <> V0 r.
Proof. exists (mkcfg [true] [true] [] []), [SNonIter]. intros r. discriminate. Qed.
(* ... and the repaired code does satisfy it on the same input *)
Example noniterable_first_schedule_repaired :
  validate_schedules (mkcfg [true] [true] [] []) [SNonIter] = VNonIter 0 /\
  validate_schedules0 (mkcfg [true] [true] [] []) [SNonIter] = V0Unbound 0.
Proof. split; reflexivity. Qed.

(* ================================================================== StandardQmpt._validate_schedules before fix c20-qmpt-schedule-length *)
(* what StandardQmpt accepted: the documented shape followed by any number of ("mprocess", 0) items *)
Definition qmpt_accepted_shape0 (ns np : nat) (s : rsched) : Prop :=
  exists i j n, (0 <= i < Z.of_nat ns)%Z /\ (0 <= j < Z.of_nat np)%Z /\
                s = sched_of ([(KState, i); (KMprocess, 0%Z); (KPovm, j)] ++ repeat (KMprocess, 0%Z) n).

Lemma nth_error_tail3 {A} (a b c : A) tail n : nth_error (a :: b :: c :: tail) (3 + n) = nth_error tail n.
Proof. reflexivity. Qed.
Lemma qmpt0_typed ns np items :
  accepted_typed_with (guard_one0 Qmpt) Qmpt ns np items <->
  exists i j n, (0 <= i < Z.of_nat ns)%Z /\ (0 <= j < Z.of_nat np)%Z /\
                items = [(KState, i); (KMprocess, 0%Z); (KPovm, j)] ++ repeat (KMprocess, 0%Z) n.
Proof.
  split.
  - intros (Hr & (Hlen & (z & rest & Hst & Hns) & Hp & _) & G). unfold guard_one0 in G.
    destruct (guard3 Qmpt items KMprocess KPovm eq_refl G) as (z0 & z1 & z2 & tail & ->).
    injection Hst as <- <-.
    rewrite Forall_forall in Hr.
    pose proof (Hr (KState, z0) (or_introl eq_refl)) as H0. pose proof (Hr (KMprocess, z1) (or_intror (or_introl eq_refl))) as H1.
    pose proof (Hr (KPovm, z2) (or_intror (or_intror (or_introl eq_refl)))) as H2.
    apply in_range_class in H0, H1, H2. cbn in H0, H1, H2.
    assert (Ht : Forall (eq (KMprocess, 0%Z)) tail).
    { apply Forall_forall. intros [k zz] Hin.
      assert (Hin' : In (k, zz) ((KState, z0) :: (KMprocess, z1) :: (KPovm, z2) :: tail)) by (right; right; right; exact Hin).
      pose proof (Hr _ Hin') as Hkz. apply in_range_class in Hkz.
      inversion Hns as [|? ? _ Hns1]; subst. inversion Hns1 as [|? ? _ Hns2]; subst. rewrite Forall_forall in Hns2.
      pose proof (Hns2 _ Hin) as Hk. cbn [fst] in Hk.
      destruct k; cbn in Hkz; try lia; try contradiction.
      - exfalso. apply In_nth_error in Hin. destruct Hin as [n Hn].
        specialize (Hp 2%nat (3 + n)%nat z2 zz eq_refl). rewrite nth_error_tail3 in Hp. specialize (Hp Hn). lia.
      - f_equal. lia. }
    apply Forall_eq_repeat in Ht. exists z0, z2, (List.length tail). repeat split; try lia.
    cbn [app]. rewrite <- Ht. f_equal. f_equal. f_equal. lia.
  - intros (i & j & n & Hi & Hj & ->). split; [|split].
    + apply Forall_app. split.
      * repeat (first [apply Forall_nil | apply Forall_cons; [apply in_range_class; cbn [class_size]; lia|]]).
      * apply Forall_forall. intros x Hx. apply repeat_spec in Hx. subst x. apply in_range_class. cbn. lia.
    + split; [cbn; lia|]. split; [|split].
      * exists i, ((KMprocess, 0%Z) :: (KPovm, j) :: repeat (KMprocess, 0%Z) n). split; [reflexivity|].
        constructor; [discriminate|]. constructor; [discriminate|].
        apply Forall_forall. intros x Hx. apply repeat_spec in Hx. subst x. discriminate.
      * assert (P2 : forall a za, nth_error ([(KState, i); (KMprocess, 0%Z); (KPovm, j)] ++ repeat (KMprocess, 0%Z) n) a = Some (KPovm, za) -> a = 2%nat).
        { intros [|[|[|a]]] za; cbn; try discriminate; [reflexivity|].
          intros H. apply nth_error_In in H. apply repeat_spec in H. discriminate. }
        intros a b za zb Ha Hb. apply P2 in Ha, Hb. congruence.
      * destruct n as [|n].
        -- exists [(KState, i); (KMprocess, 0%Z)], KPovm, j. split; [reflexivity|now left].
        -- exists ([(KState, i); (KMprocess, 0%Z); (KPovm, j)] ++ repeat (KMprocess, 0%Z) n), KMprocess, 0%Z.
           split; [|now right]. rewrite <- app_assoc. f_equal. cbn [repeat]. apply repeat_cons.
    + reflexivity.
Qed.
(* the exact language StandardQmpt accepted before the repair *)
Theorem qmpt_before_fix_accepts_iff ns np ss : tomo_run0 Qmpt ns np ss = TOk <-> Forall (qmpt_accepted_shape0 ns np) ss.
Proof.
  unfold tomo_run0. rewrite tomo_run_with_ok_iff. apply Forall_iff. intros s. unfold qmpt_accepted_shape0. split.
  - intros (items & -> & H). apply qmpt0_typed in H. destruct H as (i & j & n & Hi & Hj & ->). now exists i, j, n.
  - intros (i & j & n & Hi & Hj & ->). eexists. split; [reflexivity|]. apply qmpt0_typed. now exists i, j, n.
Qed.
(* FULL statement for StandardQmpt:  tomo_run0 Qmpt ns np ss = TOk <-> Forall (class_shape Qmpt ns np) ss.
   It was FALSE of the code before the repair (finding C20-1, DESIGN 4 #17): *)
Theorem qmpt_before_fix_accepts_longer_schedule_refuted :
  exists ns np s, tomo_run0 Qmpt ns np [s] = TOk /\ ~ class_shape Qmpt ns np s.
Proof.
  exists 1%nat, 1%nat, (sched_of [(KState, 0%Z); (KMprocess, 0%Z); (KPovm, 0%Z); (KMprocess, 0%Z)]). split; [reflexivity|].
  intros (i & j & _ & _ & H). apply sched_of_inj in H. discriminate.
Qed.
(* ... and it ran off the end of a schedule [state i, mprocess 0] (IndexError instead of ValueError) *)
Theorem qmpt_before_fix_short_schedule_index_error ns np i : (0 <= i < Z.of_nat ns)%Z ->
  tomo_run0 Qmpt ns np [sched_of [(KState, i); (KMprocess, 0%Z)]] = TGuardIndexError 0.
Proof.
  intros Hi. unfold tomo_run0, tomo_run_with.
  assert (Hr : Forall (in_range (class_cfg Qmpt ns np)) [(KState, i); (KMprocess, 0%Z)])
    by (repeat (first [apply Forall_nil | apply Forall_cons; [apply in_range_class; cbn [class_size]; lia|]])).
  assert (W : validate_schedules (class_cfg Qmpt ns np) [sched_of [(KState, i); (KMprocess, 0%Z)]] = VOk).
  { apply experiment_accepts_iff. constructor; [|constructor]. eexists. split; [reflexivity|]. split; [exact Hr|].
    now apply validate_order_none_iff. }
  rewrite W. cbn [guard_from]. now rewrite typed_of_sched_of.
Qed.
(* the repaired guard rejects both witnesses with the class's ValueError *)
Example qmpt_witnesses_repaired :
  tomo_run Qmpt 1 1 [sched_of [(KState, 0%Z); (KMprocess, 0%Z); (KPovm, 0%Z); (KMprocess, 0%Z)]] = TGuardValueError 0 /\
  tomo_run Qmpt 1 1 [sched_of [(KState, 0%Z); (KMprocess, 0%Z)]] = TGuardValueError 0.
Proof. split; reflexivity. Qed.
(* the other three classes have no length test: before = after *)
Theorem other_classes_unchanged t ns np ss : t <> Qmpt -> tomo_run0 t ns np ss = tomo_run t ns np ss.
Proof.
  intros Ht. unfold tomo_run0, tomo_run, tomo_run_with. destruct (validate_schedules (class_cfg t ns np) ss); try reflexivity.
  generalize 0%nat. induction ss as [|s ss IH]; intros i; cbn; [reflexivity|].
  unfold guard_one0. rewrite guard_one_core by (destruct t; [reflexivity..|contradiction]).
  destruct (guard_core t _); [apply IH|reflexivity..].
Qed.
