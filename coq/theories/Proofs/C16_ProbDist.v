(* C16 — legacy ProbDist.__getitem__ (objects/prob_dist.py, successive indexing of the reshaped array) addresses, for a multi-index
   whose components are all in range, the SAME row-major entry as MultinomialDistribution.__getitem__ — every shape, every index. *)
From Coq Require Import List Arith Bool ZArith Lia String.
From QV.Core Require Import OF.
From QV.Model Require Import IndexUtil Multinomial C16_PySem.
From QV.Proofs Require Import C16_Marginal C16_Conditional C16_Layout.
Import ListNotations.

Lemma zprod_of_nat t : zprod (map Z.of_nat t) = Z.of_nat (prodn t).
Proof. unfold zprod. assert (G : forall a, fold_left Z.mul (map Z.of_nat t) a = (a * Z.of_nat (prodn t))%Z).
  { induction t as [|n t IH]; intros a; cbn [map fold_left prodn fold_right]; [lia|].
    rewrite IH. change (fold_right Nat.mul 1 t) with (prodn t). lia. }
  rewrite G. lia. Qed.

Lemma nth_firstn_lt {A} (d : A) : forall m l j, j < m -> nth j (firstn m l) d = nth j l d.
Proof. induction m as [|m IH]; intros l j Hj; [lia|]. destruct l as [|x l]; [destruct j; reflexivity|].
  cbn [firstn]. destruct j as [|j]; [reflexivity|]. cbn [nth]. apply IH. lia. Qed.
Lemma nth_skipn_add {A} (d : A) : forall a l j, nth j (skipn a l) d = nth (a + j) l d.
Proof. induction a as [|a IH]; intros l j; [reflexivity|]. destruct l as [|x l]; [cbn; destruct j; reflexivity|]. cbn [skipn plus nth]. apply IH. Qed.
Lemma nth_firstn_skipn {A} (l : list A) a m j d : j < m -> nth j (firstn m (skipn a l)) d = nth (a + j) l d.
Proof. intros H. rewrite nth_firstn_lt by exact H. apply nth_skipn_add. Qed.

Section PD.
Context (F : OF).

Lemma pd_walk : forall sh idx ps, in_rangen sh idx -> List.length ps = prodn sh ->
  pfor (map Z.of_nat idx) (fun i target => nd_getitem F target i) (ps, map Z.of_nat sh) = PRet ([nth (rowmajorn sh idx) ps (c0 F)], []).
Proof. induction sh as [|n t IH]; intros [|x xs] ps Hr Hl; cbn [in_rangen] in Hr; try contradiction.
  - cbn [map pfor rowmajorn]. cbn [prodn fold_right] in Hl. destruct ps as [|p [|q ps]]; cbn in Hl; try lia. reflexivity.
  - destruct Hr as [Hx Hr]. cbn [map pfor]. unfold nd_getitem at 1. cbn [snd fst].
    rewrite seq_pos_nonneg by lia. rewrite Nat2Z.id, zprod_of_nat, Nat2Z.id.
    rewrite prodn_cons in Hl. pose proof (rowmajorn_bound t xs Hr) as Hb.
    rewrite IH; [|exact Hr|].
    + cbn [rowmajorn]. rewrite nth_firstn_skipn by exact Hb. reflexivity.
    + rewrite firstn_length, skipn_length. nia. Qed.

(* all components in range, as many entries as the shape says: the row-major entry, as a 0-d array *)
Theorem probdist_get_in_range sh idx ps : in_rangen sh idx -> List.length ps = prodn sh ->
  probdist_get F (mk_pd F ps (Some (map Z.of_nat sh))) (ATuple (map Z.of_nat idx)) = PRet (nd_scalar F (nth (rowmajorn sh idx) ps (c0 F))).
Proof. intros Hr Hl. unfold probdist_get. cbn [pd_shape pd_ps]. unfold nd_reshape_chk, py_len.
  rewrite zprod_of_nat, Hl, Z.eqb_refl. cbn [pbind]. now apply pd_walk. Qed.

(* hence the legacy accessor and MultinomialDistribution.__getitem__ (index_get) return the same entry *)
Corollary probdist_same_layout sh idx ps : in_rangen sh idx -> List.length ps = prodn sh ->
  exists v, probdist_get F (mk_pd F ps (Some (map Z.of_nat sh))) (ATuple (map Z.of_nat idx)) = PRet (nd_scalar F v) /\
            index_get ps (map Z.of_nat sh) (ATuple (map Z.of_nat idx)) = MOk v.
Proof. intros Hr Hl. exists (nth (rowmajorn sh idx) ps (c0 F)). split; [now apply probdist_get_in_range|now apply index_get_tuple_in_range]. Qed.

(* the error branches as coded: no shape -> ValueError; an int argument is a plain sequence access; anything else TypeError *)
Theorem probdist_get_branches (p : probdist F) :
  (pd_shape F p = None -> forall t, probdist_get F p (ATuple t) = PRaise "ValueError"%string) /\
  probdist_get F p AOther = PRaise "TypeError"%string /\
  (forall i, probdist_get F p (AInt i) = pbind (py_getitem (pd_ps F p) i) (fun x => PRet (nd_scalar F x))).
Proof. split; [intros H t; unfold probdist_get; now rewrite H|]. split; reflexivity. Qed.
End PD.
