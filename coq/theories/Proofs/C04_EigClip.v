(* C04 — the inequality projections' algorithm after np.linalg.eigh (clip the negative eigenvalues, rebuild with the CONJUGATE
   transpose) returns THE nearest PSD point, GIVEN eigh's contract: U^dagger U = I and the input is U diag(w) U^dagger.
   Proved for complex matrices of every size over any ordered field by showing that the exact certificate of
   Proofs/C04_Herm.v holds: X = U w+ U^dagger and X - Y = U w- U^dagger are Hermitian PSD (x^dagger U d U^dagger x =
   sum_k d_k |(U^dagger x)_k|^2) and <X, X - Y> = Re tr(U w+ U^dagger U w- U^dagger) = 0 because w+ w- = 0. *)
From Coq Require Import Field Ring Setoid Arith Lia Bool.
From QV.Core Require Import OF Sums Mat Cplx Psd C04_ProjCert C04_HermForm.
From QV.Model Require Import QObj HermEmbed C04_Cert.
From QV.Model Require Import C04_EigClip.
From QV.Proofs Require Import C04_Herm.

Section C04EigClipProofs.
Context (F : OF).
Add Field Ffe : (k_field F).
Notation Cx := (CF F).
Add Ring Cxr : (c_ring Cx).
Notation "0" := (c0 F). Notation "1" := (c1 F).
Infix "+" := (cadd F). Infix "*" := (cmul F). Infix "<=" := (kle F). Infix "-" := (csub F).
Notation "- x" := (copp F x).
Notation cmat := (cmat F).

(* entries of  U @ diag(d) @ U^dagger *)
Lemma rebuild_entry n (U : cmat) d i j :
  rebuild n U d i j = sumn n (fun k => cmul Cx (cmul Cx (U i k) (zof (d k))) (zconj (U j k))).
Proof. unfold rebuild, mmul at 1. apply sumn_ext; intros k Hk. f_equal.
  unfold mmul, cdiag. rewrite (sumn_ext n _ (fun l => if Nat.eqb l k then cmul Cx (U i l) (zof (d l)) else c0 Cx)).
  - now rewrite sumn_delta.
  - intros l _. destruct (Nat.eqb_spec l k); [reflexivity|]. ring. Qed.

Lemma rebuild_hermitian n (U : cmat) d : hermitian n (rebuild n U d).
Proof. intros i j _ _. rewrite !rebuild_entry, zconj_sumn. apply sumn_ext; intros k _.
  cbn [cmul Cx]. rewrite !zconj_mul, zconj_conj, zconj_zof. apply cplx_eq; cbn; ring. Qed.

(* x^dagger (U diag(d) U^dagger) x = sum_k d_k |(U^dagger x)_k|^2 *)
Lemma hqf_rebuild n (U : cmat) d (x : cvec F) :
  hqf n (rebuild n U d) x = sumn n (fun k => d k * znorm2 (sumn n (fun j => cmul Cx (zconj (U j k)) (x j)))).
Proof. unfold hqf.
  set (cx := fun i => zconj (x i) : Cx).
  set (A := mmul n U (cdiag d)). set (B := cadj U).
  assert (E : sumn n (fun i => sumn n (fun j => cmul Cx (cmul Cx (zconj (x i)) (rebuild n U d i j)) (x j)))
              = @dot Cx n (@mv Cx n (mT A) cx) (@mv Cx n B x)).
  { rewrite (@dot_comm Cx n (@mv Cx n (mT A) cx)), <- (@dot_mv Cx n n A (@mv Cx n B x) cx), dot_comm. unfold dot. apply sumn_ext; intros i _.
    rewrite <- (mv_mmul n n A B x i). unfold mv at 1. rewrite <- sumn_scale_l. apply sumn_ext; intros j _.
    unfold rebuild, A, B, cx. ring. }
  rewrite E. unfold dot. rewrite re_sumn. apply sumn_ext; intros k Hk.
  assert (EA : @mv Cx n (mT A) cx k = cmul Cx (zof (d k)) (zconj (@mv Cx n B x k))).
  { unfold mv, mT, A, B, cadj, cx. rewrite zconj_sumn, <- sumn_scale_l. apply sumn_ext; intros i _.
    unfold mmul, cdiag. rewrite (sumn_ext n _ (fun l => if Nat.eqb l k then cmul Cx (U i l) (zof (d l)) else c0 Cx)).
    2:{ intros l _. destruct (Nat.eqb_spec l k); [reflexivity|]. apply cplx_eq; cbn; ring. }
    rewrite sumn_delta by exact Hk. cbn [cmul Cx]. rewrite zconj_mul, zconj_conj. apply cplx_eq; cbn; ring. }
  rewrite EA. unfold mv, B, cadj. set (c := sumn n _). destruct c as [a b]. unfold znorm2. cbn. ring. Qed.

Lemma rebuild_HPSD n (U : cmat) d : (forall k, (k < n)%nat -> 0 <= d k) -> HPSD n (rebuild n U d).
Proof. intros Hd x. rewrite hqf_rebuild. apply sumn_nonneg; intros k Hk.
  apply (k_mul F); [now apply Hd|]. unfold znorm2. apply add_nonneg; apply sqr_nonneg. Qed.

(* X - Y for two rebuilds of the same U *)
Lemma rebuild_sub n (U : cmat) p w i j : csubm (rebuild n U p) (rebuild n U w) i j = rebuild n U (fun k => p k - w k) i j.
Proof. unfold csubm, zsub. rewrite !rebuild_entry. apply cplx_eq; cbn [re im fst snd]; rewrite ?re_sumn, ?im_sumn, <- sumn_sub;
  apply sumn_ext; intros k _; cbn; ring. Qed.

(* ---------------------------------------------------------------- U P U^dagger U Q U^dagger = 0 when P Q = 0 *)
Lemma meq_of_eq m k (A B : cmat) : (forall i j, A i j = B i j) -> meq m k A B.
Proof. intros H i j _ _. apply H. Qed.
Lemma cdiag_mul n p q : meq n n (mmul n (cdiag p) (cdiag q)) (cdiag (fun k => p k * q k)).
Proof. intros i j Hi Hj. unfold mmul, cdiag.
  rewrite (sumn_ext n _ (fun l => if Nat.eqb i l then cmul Cx (zof (p i)) (if Nat.eqb l j then zof (q l) else c0 Cx) else c0 Cx)).
  2:{ intros l _. destruct (Nat.eqb_spec i l); [reflexivity|]. apply cplx_eq; cbn; ring. }
  rewrite sumn_delta' by exact Hi. destruct (Nat.eqb_spec i j); apply cplx_eq; cbn; ring. Qed.
Lemma mmul_zero_mid n (A B : cmat) i j : mmul n A (mmul n (@mzero Cx) B) i j = c0 Cx.
Proof. unfold mmul, mzero. apply sumn_zero'. intros l _. rewrite (sumn_zero' n); [apply cplx_eq; cbn; ring|].
  intros m _. apply cplx_eq; cbn; ring. Qed.

Lemma rebuild_product_zero n (U : cmat) p q : unitary n U -> (forall k, (k < n)%nat -> p k * q k = 0) ->
  meq n n (mmul n (rebuild n U p) (rebuild n U q)) (@mzero Cx).
Proof. intros HU Hpq. unfold rebuild.
  unfold unitary in HU. set (Ud := cadj U) in *. set (Dp := cdiag p). set (Dq := cdiag q).
  (* U^dagger ((U Dq) U^dagger) = Dq U^dagger *)
  assert (I1 : meq n n (mmul n Ud (mmul n (mmul n U Dq) Ud)) (mmul n Dq Ud)).
  { apply (meq_trans n n _ (mmul n (mmul n (mmul n Ud U) Dq) Ud)).
    - intros a b Ha Hb. rewrite <- (mmul_assoc n n Ud (mmul n U Dq) Ud a b).
      apply (mmul_ext n _ _ Ud Ud n n); [|apply meq_refl|exact Ha|exact Hb]. intros a' b' _ _. symmetry. apply mmul_assoc.
    - apply mmul_ext; [|apply meq_refl]. intros a b Ha Hb.
      rewrite (mmul_ext n _ mid Dq Dq n n HU (meq_refl _ _ _) a b Ha Hb). now apply mmul_id_l. }
  intros i j Hi Hj.
  rewrite (mmul_assoc n n (mmul n U Dp) Ud (mmul n (mmul n U Dq) Ud) i j).
  rewrite (mmul_ext n (mmul n U Dp) (mmul n U Dp) _ _ n n (meq_refl _ _ _) I1 i j Hi Hj).
  rewrite (mmul_assoc n n U Dp (mmul n Dq Ud) i j).
  assert (I2 : meq n n (mmul n Dp (mmul n Dq Ud)) (mmul n (@mzero Cx) Ud)).
  { intros a b Ha Hb. rewrite <- (mmul_assoc n n Dp Dq Ud a b).
    apply (mmul_ext n _ _ Ud Ud n n); [|apply meq_refl|exact Ha|exact Hb].
    apply (meq_trans n n _ (cdiag (fun k => p k * q k))); [apply cdiag_mul|].
    intros a' b' Ha' _. unfold cdiag, mzero. destruct (Nat.eqb a' b'); [|reflexivity]. now rewrite Hpq. }
  rewrite (mmul_ext n U U _ _ n n (meq_refl _ _ _) I2 i j Hi Hj).
  apply mmul_zero_mid. Qed.

(* Re tr(A^dagger B)-type inner product as a trace *)
Lemma cre_inner_trace n (A B : cmat) : cre_inner n A B = re (@mtrace Cx n (mmul n A (cadj B))).
Proof. unfold cre_inner, mtrace, mmul, cadj. rewrite re_sumn. apply sumn_ext; intros i _. rewrite re_sumn. apply sumn_ext; intros j _.
  destruct (A i j), (B i j); cbn; ring. Qed.
Lemma cre_inner_zero n (X R : cmat) : hermitian n R -> meq n n (mmul n X R) (@mzero Cx) -> cre_inner n X R = 0.
Proof. intros HR HZ. rewrite cre_inner_trace.
  rewrite (mtrace_ext n _ (@mzero Cx)).
  - unfold mtrace, mzero. now rewrite sumn_zero.
  - intros i j Hi Hj. rewrite <- (HZ i j Hi Hj). apply (mmul_ext n X X (cadj R) R n n); [apply meq_refl| |exact Hi|exact Hj].
    intros a b Ha Hb. unfold cadj. symmetry. now apply HR. Qed.
Lemma cre_inner_ext_r n (A B B' : cmat) : (forall i j, B i j = B' i j) -> cre_inner n A B = cre_inner n A B'.
Proof. intros H. unfold cre_inner. apply sumn_ext; intros i _. apply sumn_ext; intros j _. now rewrite H. Qed.

(* the clipping function *)
Lemma clip0_nonneg x : 0 <= clip0 x.
Proof. unfold clip0. destruct (kleb F 0 x) eqn:E; [now apply k_leb|apply k_refl]. Qed.
Lemma clip0_ge x : 0 <= clip0 x - x.
Proof. unfold clip0. destruct (kleb F 0 x) eqn:E.
  - replace (x - x) with 0 by ring. apply k_refl.
  - apply (proj1 (le_sub F x 0)). destruct (k_total F 0 x) as [H|H]; [apply k_leb in H; congruence|exact H]. Qed.
Lemma clip0_orth x : clip0 x * (clip0 x - x) = 0.
Proof. unfold clip0. destruct (kleb F 0 x); ring. Qed.

Lemma HPSD_embed n (H : cmat) : HPSD n H -> PSD F (n + n) (shift 0 (embed F n H)).
Proof. intros P. apply (PSD_ext F (n + n) (embed F n H)); [apply meq_sym, shift0|]. now apply embed_PSD_iff. Qed.

(* eigh contract => the exact certificate holds for  X = U clip(w) U^dagger,  Y = U w U^dagger *)
Theorem eig_clip_cert n (U : cmat) (w : nat -> F) : unitary n U ->
  cert_check n (eig_clip n U w) (rebuild n U w) 0 0 = true.
Proof. intros HU. unfold eig_clip. set (p := fun k => clip0 (w k)).
  pose proof (rebuild_hermitian n U p) as HX. pose proof (rebuild_hermitian n U w) as HY.
  pose proof (csubm_herm F n _ _ HX HY) as HR.
  assert (ER : forall i j, csubm (rebuild n U p) (rebuild n U w) i j = rebuild n U (fun k => p k - w k) i j) by (intros; apply rebuild_sub).
  assert (I0 : cre_inner n (rebuild n U p) (csubm (rebuild n U p) (rebuild n U w)) = 0).
  { rewrite (cre_inner_ext_r n _ _ _ ER). apply cre_inner_zero; [apply rebuild_hermitian|].
    apply rebuild_product_zero; [exact HU|]. intros k _. apply clip0_orth. }
  unfold cert_check. rewrite I0.
  rewrite (proj2 (herm_dec_spec F n _) HX), (proj2 (herm_dec_spec F n _) HY).
  rewrite (proj2 (k_leb F 0 0) (k_refl F 0)).
  replace (kleb F (- 0) 0) with true by (symmetry; apply k_leb; replace (- 0) with 0 by ring; apply k_refl).
  rewrite (proj2 (C04_Herm.herm_psd_dec_spec F n _ 0 HX)).
  2:{ apply HPSD_embed, rebuild_HPSD. intros k _. apply clip0_nonneg. }
  rewrite (proj2 (C04_Herm.herm_psd_dec_spec F n _ 0 HR)).
  2:{ apply HPSD_embed. intros x.
      rewrite (hqf_ext F n _ (rebuild n U (fun k => p k - w k)) x x); [|intros i j _ _; apply ER|apply veq_refl].
      apply rebuild_HPSD. intros k _. apply clip0_ge. }
  reflexivity. Qed.

(* hence: GIVEN an exact eigendecomposition, the code's  eigh -> clip -> U diag U^dagger  returns THE nearest PSD point *)
Theorem eig_clip_nearest n (U : cmat) (w : nat -> F) : unitary n U ->
  hermitian n (rebuild n U w) /\ hermitian n (eig_clip n U w) /\ herm_PSD n (eig_clip n U w) /\
  forall Z, hermitian n Z -> herm_PSD n Z ->
    hdist2 n (rebuild n U w) (eig_clip n U w) <= hdist2 n (rebuild n U w) Z /\
    (hdist2 n (rebuild n U w) Z <= hdist2 n (rebuild n U w) (eig_clip n U w) ->
     forall i j, (i < n)%nat -> (j < n)%nat -> Z i j = eig_clip n U w i j).
Proof. intros HU. destruct (herm_proj_exact F n _ _ (eig_clip_cert n U w HU)) as [PX N].
  split; [apply rebuild_hermitian|]. split; [apply rebuild_hermitian|]. split; [exact PX|exact N]. Qed.
End C04EigClipProofs.
