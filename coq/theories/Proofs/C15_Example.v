(* C15 — a concrete exactly-rational instance for the non-vacuity examples of Props/C15.v:
   the normalised 2-qubit Pauli basis (d = 4, sd = 2, entries +-1/2, +-i/2) over Qc, and bounded-quantifier reflection. *)
From Coq Require Import ZArith QArith Qcanon List Arith Bool Lia.
From QV.Core Require Import OF QcOF Sums Mat Cplx Psd.
From QV.Model Require Import QObj HermEmbed C15_Depol.
From QV.Proofs Require Import C15_Depol C15_DepolPsd.
Import ListNotations.

Fixpoint forall_lt (n : nat) (p : nat -> bool) : bool := match n with O => true | S k => forall_lt k p && p k end.
Lemma forall_lt_spec n p : forall_lt n p = true -> forall i, (i < n)%nat -> p i = true.
Proof. induction n as [|n IH]; intros H i Hi; [lia|]. cbn in H. apply andb_true_iff in H. destruct H as [H1 H2].
  destruct (Nat.eq_dec i n) as [->|]; [exact H2|apply IH; [exact H1|lia]]. Qed.

Definition qeqb (x y : Qc) : bool := Qc_eq_bool x y.
Lemma qeqb_spec x y : qeqb x y = true -> x = y. Proof. apply Qc_eq_bool_correct. Qed.
Definition ceqb (x y : cplx Qc_OF) : bool := qeqb (fst x) (fst y) && qeqb (snd x) (snd y).
Lemma ceqb_spec x y : ceqb x y = true -> x = y.
Proof. destruct x, y. unfold ceqb. cbn. intros H. apply andb_true_iff in H. destruct H as [H1 H2].
  apply qeqb_spec in H1, H2. now subst. Qed.

Definition cq (a b : Z) : cplx Qc_OF := (Q2Qc (inject_Z a), Q2Qc (inject_Z b)).
Definition pauli (k : nat) : cmat Qc_OF := fun i j =>
  match k, i, j with
  | 0, 0, 0 => cq 1 0 | 0, 1, 1 => cq 1 0
  | 1, 0, 1 => cq 1 0 | 1, 1, 0 => cq 1 0
  | 2, 0, 1 => cq 0 (-1) | 2, 1, 0 => cq 0 1
  | 3, 0, 0 => cq 1 0 | 3, 1, 1 => cq (-1) 0
  | _, _, _ => cq 0 0
  end%nat.
Definition half : cplx Qc_OF := (Q2Qc (1 # 2), 0%Qc).
(* B_a = (sigma_{a / 4} (x) sigma_{a mod 4}) / 2 *)
Definition pauli2 (a : nat) : cmat Qc_OF := fun i j =>
  cmul (CF Qc_OF) half (kron 2 2 (pauli (a / 4)) (pauli (a mod 4)) i j).
Definition two : Qc := Q2Qc 2.
Definition four : Qc := Q2Qc 4.

Lemma pauli2_0th_identity : @basis_0th_identity Qc_OF 4 two pauli2.
Proof. intros i j Hi Hj. apply ceqb_spec.
  revert j Hj. apply (forall_lt_spec 4 (fun j => ceqb _ _)). revert i Hi. apply (forall_lt_spec 4 (fun i => forall_lt 4 (fun j => ceqb _ _))).
  vm_compute. reflexivity. Qed.
Lemma pauli2_rest_traceless : basis_rest_traceless Qc_OF 4 pauli2.
Proof. intros a Ha Hb. apply ceqb_spec. destruct a as [|a]; [lia|]. assert (Hb' : (a < 15)%nat) by lia. clear Ha Hb.
  revert a Hb'. apply (forall_lt_spec 15 (fun a => ceqb _ _)). vm_compute. reflexivity. Qed.
Lemma pauli2_hermitian : @basis_hermitian Qc_OF 4 pauli2.
Proof. intros a Ha i j Hi Hj. apply ceqb_spec.
  revert j Hj. apply (forall_lt_spec 4 (fun j => ceqb _ _)). revert i Hi. apply (forall_lt_spec 4 (fun i => forall_lt 4 (fun j => ceqb _ _))).
  revert a Ha. apply (forall_lt_spec 16 (fun a => forall_lt 4 (fun i => forall_lt 4 (fun j => ceqb _ _)))).
  vm_compute. reflexivity. Qed.

(* rho = (II + ZZ)/4 : coefficient 1/2 on B_0 and on B_15, rank 2 (on the boundary of the state space) *)
Definition v_zz : rvec Qc_OF := fun a => if (Nat.eqb a 0 || Nat.eqb a 15)%bool then Q2Qc (1 # 2) else 0%Qc.

Lemma symmetric_by_computation n (M : rmat Qc_OF) :
  forall_lt n (fun i => forall_lt n (fun j => qeqb (M i j) (M j i))) = true -> symmetric Qc_OF n M.
Proof. intros H i j Hi Hj. apply qeqb_spec. revert j Hj. apply (forall_lt_spec n (fun j => qeqb _ _)).
  revert i Hi. apply (forall_lt_spec n (fun i => forall_lt n (fun j => qeqb _ _))). exact H. Qed.

Lemma v_zz_psd : PSD Qc_OF (4 + 4) (embed Qc_OF 4 (op_of_vec 4 pauli2 v_zz)).
Proof. apply psd_dec_spec.
  - apply symmetric_by_computation. vm_compute. reflexivity.
  - vm_compute. reflexivity. Qed.

(* one outcome of a 2-qubit instrument: "with probability 1/2 answer x and leave the maximally mixed state":
   G(X) = tr(X)/2 * I/4, HS matrix = 1/2 at (0,0).  Not trace preserving. *)
Definition hs00 : rmat Qc_OF := fun a b => if (Nat.eqb a 0 && Nat.eqb b 0)%bool then Q2Qc (1 # 2) else 0%Qc.
Definition eighth : Qc_OF := Q2Qc (1 # 8).

Lemma choi_hs00 i j : (i < 16)%nat -> (j < 16)%nat ->
  choi_of_hs 4 pauli2 hs00 i j = cmul (CF Qc_OF) (@zof Qc_OF eighth) (if Nat.eqb i j then c1 (CF Qc_OF) else c0 (CF Qc_OF)).
Proof. intros Hi Hj. apply ceqb_spec.
  revert j Hj. apply (forall_lt_spec 16 (fun j => ceqb _ _)). revert i Hi. apply (forall_lt_spec 16 (fun i => forall_lt 16 (fun j => ceqb _ _))).
  vm_compute. reflexivity. Qed.

Lemma hs00_cp : PSD Qc_OF (4 * 4 + 4 * 4) (embed Qc_OF (4 * 4) (choi_of_hs 4 pauli2 hs00)).
Proof. change (4 * 4)%nat with 16%nat.
  apply (PSD_ext Qc_OF (16 + 16) (fun i j => cadd Qc_OF (cmul Qc_OF eighth (idm Qc_OF i j)) (cmul Qc_OF (c0 Qc_OF) (idm Qc_OF i j)))).
  - intros i j Hi Hj.
    rewrite (embed_ext Qc_OF 16 (choi_of_hs 4 pauli2 hs00)
              (fun i j => cadd (CF Qc_OF) (cmul (CF Qc_OF) (@zof Qc_OF eighth) (if Nat.eqb i j then c1 (CF Qc_OF) else c0 (CF Qc_OF)))
                                          (cmul (CF Qc_OF) (@zof Qc_OF (c0 Qc_OF)) (if Nat.eqb i j then c1 (CF Qc_OF) else c0 (CF Qc_OF))))).
    + rewrite (embed_comb Qc_OF 16 eighth (c0 Qc_OF)). rewrite (embed_cid Qc_OF) by assumption. reflexivity.
    + intros i' j' Hi' Hj'. rewrite (choi_hs00 i' j' Hi' Hj'). destruct (Nat.eqb i' j'); apply ceqb_spec; vm_compute; reflexivity.
    + exact Hi. + exact Hj.
  - apply PSD_comb; [apply Qcleb_spec; vm_compute; reflexivity|apply k_refl|apply PSD_idm|apply PSD_idm]. Qed.
