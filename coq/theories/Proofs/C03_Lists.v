(* C03 — generic list lemmas: reshape ([chunk]) / flatten ([concat]), positions in concatenations. *)
From Coq Require Import List Arith Lia.
From QV.Model Require Import C03_VarObj.
Import ListNotations.

Section Lists.
Context {A : Type}.
Implicit Types (l : list A) (rows : list (list A)).

Lemma firstn_app_exact l1 l2 : firstn (length l1) (l1 ++ l2) = l1.
Proof. rewrite firstn_app, firstn_all, Nat.sub_diag, firstn_O. apply app_nil_r. Qed.
Lemma skipn_app_exact l1 l2 : skipn (length l1) (l1 ++ l2) = l2.
Proof. rewrite skipn_app, skipn_all, Nat.sub_diag, skipn_O. reflexivity. Qed.
Lemma firstn_app_exact' l1 l2 k : k = length l1 -> firstn k (l1 ++ l2) = l1.
Proof. intros ->. apply firstn_app_exact. Qed.
Lemma skipn_app_exact' l1 l2 k : k = length l1 -> skipn k (l1 ++ l2) = l2.
Proof. intros ->. apply skipn_app_exact. Qed.

Lemma chunk_length n k l : length (chunk n k l) = k.
Proof. revert l; induction k as [|k IH]; intros l; cbn; [reflexivity|]. now rewrite IH. Qed.

Lemma concat_chunk n k : forall l, length l = (k * n)%nat -> concat (chunk n k l) = l.
Proof. induction k as [|k IH]; intros l H; cbn in *.
  - destruct l; [reflexivity|discriminate].
  - rewrite IH. { apply firstn_skipn. } rewrite skipn_length. lia. Qed.

Lemma chunk_uniform n k : forall l, length l = (k * n)%nat -> uniform n (chunk n k l).
Proof. induction k as [|k IH]; intros l H; cbn in *; constructor.
  - rewrite firstn_length. lia.
  - apply IH. rewrite skipn_length. lia. Qed.

Lemma length_concat_uniform n rows : uniform n rows -> length (concat rows) = (length rows * n)%nat.
Proof. induction 1 as [|r t Hr _ IH]; cbn; [reflexivity|]. rewrite app_length, IH, Hr. reflexivity. Qed.

Lemma chunk_concat n rows : uniform n rows -> chunk n (length rows) (concat rows) = rows.
Proof. induction 1 as [|r t Hr _ IH]; cbn; [reflexivity|].
  rewrite firstn_app_exact', skipn_app_exact' by (now symmetry). now rewrite IH. Qed.

Lemma uniform_app n (r1 r2 : list (list A)) : uniform n (r1 ++ r2) <-> uniform n r1 /\ uniform n r2.
Proof. apply Forall_app. Qed.

Lemma uniform_removelast n rows : uniform n rows -> uniform n (removelast rows).
Proof. intros H. destruct rows as [|r t] using rev_ind; [exact H|].
  rewrite removelast_last. now apply uniform_app in H as [H _]. Qed.

Lemma uniform_tl n rows : uniform n rows -> uniform n (tl rows).
Proof. intros H. destruct rows; [exact H|]. now inversion H. Qed.

Lemma uniform_last n rows d : rows <> [] -> uniform n rows -> length (last rows d) = n.
Proof. intros Hne H. destruct rows as [|r t] using rev_ind; [congruence|].
  rewrite last_last. apply uniform_app in H as [_ H]. now inversion H. Qed.

Lemma length_removelast l : length (removelast l) = (length l - 1)%nat.
Proof. destruct l as [|x t] using rev_ind; [reflexivity|]. rewrite removelast_last, app_length. cbn. lia. Qed.

(* position of an entry of a uniform nested list in its flattening *)
Lemma nth_concat_uniform n rows (d : A) : uniform n rows -> forall r c, (c < n)%nat ->
  nth (r * n + c) (concat rows) d = nth c (nth r rows []) d.
Proof. induction 1 as [|row t Hr _ IH]; intros r c Hc.
  - cbn. destruct r; destruct c; destruct (_ + _)%nat; reflexivity.
  - destruct r as [|r]; cbn [concat nth].
    + cbn. rewrite app_nth1 by lia. reflexivity.
    + rewrite app_nth2 by (cbn; lia). replace (S r * n + c - length row)%nat with (r * n + c)%nat by (cbn; lia).
      apply IH, Hc. Qed.

Lemma nth_app_shift l1 l2 (d : A) k : nth (length l1 + k) (l1 ++ l2) d = nth k l2 d.
Proof. rewrite app_nth2 by lia. f_equal. lia. Qed.

Lemma last_nth l (d : A) : last l d = nth (length l - 1) l d.
Proof. destruct l as [|x t] using rev_ind; [reflexivity|].
  rewrite last_last, app_length. cbn. replace (length t + 1 - 1)%nat with (length t + 0)%nat by lia.
  now rewrite nth_app_shift. Qed.

Lemma nth_removelast l (d : A) k : (k < length l - 1)%nat -> nth k (removelast l) d = nth k l d.
Proof. intros H. destruct l as [|x t] using rev_ind; [cbn in H; lia|].
  rewrite removelast_last. rewrite app_length in H. cbn in H. now rewrite app_nth1 by lia. Qed.

Lemma removelast_last_eq l (d : A) : l <> [] -> removelast l ++ [last l d] = l.
Proof. intros H. symmetry. now apply app_removelast_last. Qed.

End Lists.

(* two-level reshape *)
Lemma concat_map_chunk {A : Type} n (L : list (list A)) :
  Forall (fun l => length l = (n * n)%nat) L -> map (@concat A) (map (chunk n n) L) = L.
Proof. induction 1 as [|l t Hl _ IH]; cbn; [reflexivity|]. rewrite IH, concat_chunk by exact Hl. reflexivity. Qed.

Lemma map_chunk_concat {A : Type} n (hss : list (list (list A))) :
  Forall (fun hs => length hs = n /\ uniform n hs) hss -> map (chunk n n) (map (@concat A) hss) = hss.
Proof. induction 1 as [|hs t [Hl Hu] _ IH]; cbn; [reflexivity|]. rewrite IH. f_equal.
  rewrite <- Hl at 2. now apply chunk_concat. Qed.

Lemma uniform_map_concat {A : Type} n (hss : list (list (list A))) :
  Forall (fun hs => length hs = n /\ uniform n hs) hss -> uniform (n * n) (map (@concat A) hss).
Proof. induction 1 as [|hs t [Hl Hu] _ IH]; cbn; constructor; [|exact IH].
  rewrite (length_concat_uniform n) by exact Hu. now rewrite Hl. Qed.
