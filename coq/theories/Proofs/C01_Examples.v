(* C01 — the standing concrete instance over Qc: the exactly rational 2-qubit normalised Pauli basis (entries 0, +-1/2, +-i/2; sd = 2),
   witnesses of the _refuted theorems, and non-vacuity examples.  Everything here is computed (vm_compute) through boolean reflections. *)
From Coq Require Import QArith Qcanon Arith Lia Bool List.
From QV.Core Require Import OF QcOF Sums Mat Cplx Psd C01_HermPsd.
From QV.Model Require Import QObj HermEmbed C01_Verdicts.
From QV.Proofs Require Import C01_Verdicts.

Notation Fq := Qc_OF.
Notation Cq := (CF Qc_OF).
Local Open Scope Qc_scope.

Definition qc (n : Z) (d : positive) : Qc := Q2Qc (n # d).
Definition cq (a b : Qc) : Cq := (a, b).
(* 1-qubit Pauli matrices *)
Definition z_one : Cq := cq 1 0.  Definition z_mone : Cq := cq (- (1)) 0.  Definition z_i : Cq := cq 0 1.
Definition z_mi : Cq := cq 0 (- (1)). Definition z_zero : Cq := cq 0 0.
Definition sigma (a i j : nat) : Cq :=
  match a, i, j with
  | 0, 0, 0 => z_one | 0, 1, 1 => z_one
  | 1, 0, 1 => z_one | 1, 1, 0 => z_one
  | 2, 0, 1 => z_mi | 2, 1, 0 => z_i
  | 3, 0, 0 => z_one | 3, 1, 1 => z_mone
  | _, _, _ => z_zero
  end%nat.
(* B_(4a+b) = (sigma_a (x) sigma_b) / 2 *)
Definition pauli2n (a : nat) : cmat Fq :=
  fun i j => cmul Cq (cq (qc 1 2) 0) (cmul Cq (sigma (a / 4) (i / 2) (j / 2)) (sigma (a mod 4) (i mod 2) (j mod 2))).

Definition ceqb (x y : Cq) : bool := keqb Fq (re x) (re y) && keqb Fq (im x) (im y).
Lemma ceqb_spec x y : ceqb x y = true <-> x = y.
Proof. unfold ceqb. rewrite andb_true_iff, !keqb_spec. split.
  - intros [A B]. now apply cplx_eq. - intros ->. split; reflexivity. Qed.

Definition orthonormal_b (d : nat) (B : nat -> cmat Fq) : bool :=
  all2 (d * d) (fun a b => ceqb (hs_inner d (B a) (B b)) (if Nat.eqb a b then c1 Cq else c0 Cq)).
Definition hermitian_b (d : nat) (B : nat -> cmat Fq) : bool :=
  allb (d * d) (fun a => all2 d (fun i j => ceqb (B a i j) (zconj (B a j i)))).
Definition identity0_b (d : nat) (sd : Qc) (B : nat -> cmat Fq) : bool :=
  all2 d (fun i j => ceqb (cmul Cq (@zof Fq sd) (B 0%nat i j)) (if Nat.eqb i j then c1 Cq else c0 Cq)).
Lemma orthonormal_b_spec d B : orthonormal_b d B = true -> basis_orthonormal d B.
Proof. unfold orthonormal_b. rewrite all2_spec. intros H a b Ha Hb. apply ceqb_spec. now apply H. Qed.
Lemma hermitian_b_spec d B : hermitian_b d B = true -> basis_hermitian d B.
Proof. unfold hermitian_b. rewrite allb_spec. intros H a Ha i j Hi Hj. apply ceqb_spec.
  exact (proj1 (all2_spec d _) (H a Ha) i j Hi Hj). Qed.
Lemma identity0_b_spec d sd B : identity0_b d sd B = true -> @basis_0th_identity Fq d sd B.
Proof. unfold identity0_b. rewrite all2_spec. intros H i j Hi Hj. apply ceqb_spec. now apply H. Qed.

Lemma pauli2n_orthonormal : basis_orthonormal 4 pauli2n.
Proof. apply orthonormal_b_spec. vm_compute. reflexivity. Qed.
Lemma pauli2n_hermitian : basis_hermitian 4 pauli2n.
Proof. apply hermitian_b_spec. vm_compute. reflexivity. Qed.
Definition q2 : Qc := qc 2 1.
Lemma pauli2n_identity0 : @basis_0th_identity Fq 4 q2 pauli2n.
Proof. apply identity0_b_spec. vm_compute. reflexivity. Qed.
Lemma sd2 : cmul Fq q2 q2 = @knat Fq 4 /\ kle Fq (c0 Fq) q2 /\ q2 <> c0 Fq.
Proof. split; [|split]. - apply Qc_is_canon. reflexivity. - apply (proj1 (k_leb Fq _ _)). reflexivity. - discriminate. Qed.

Lemma not_le_of_leb (x y : Qc) : kleb Fq x y = false -> ~ kle Fq x y.
Proof. intros E H. apply (proj2 (k_leb Fq x y)) in H. congruence. Qed.

(* ---- witnesses: a defect of 5e-6 is accepted at atol = 1e-13 by the verdicts as coded (numpy's default rtol) *)
Definition w_atol : Qc := qc 1 10000000000000.
Definition w_state : rvec Fq := fun a => if Nat.eqb a 0 then qc 200001 400000 else 0.          (* (1 + 5e-6)/2 *)
Definition w_povm : nat -> rvec Fq := fun _ a => if Nat.eqb a 0 then qc 200001 200000 else 0.   (* each element (1 + 5e-6)/2 * I *)

Lemma w_state_coded : state_is_trace_one 4 pauli2n w_state w_atol np_rtol = true.
Proof. vm_compute. reflexivity. Qed.
Lemma w_state_fixed : state_is_trace_one 4 pauli2n w_state w_atol (c0 Fq) = false.
Proof. vm_compute. reflexivity. Qed.
Lemma w_state_defect : ~ kle Fq (kabs (csub Fq (re (state_trace 4 pauli2n w_state)) (c1 Fq))) w_atol.
Proof. apply not_le_of_leb. vm_compute. reflexivity. Qed.
Lemma w_state_ctor : @state_ctor_raises Fq w_atol np_rtol 4 pauli2n w_state true = false
                  /\ @state_ctor_raises Fq w_atol (c0 Fq) 4 pauli2n w_state true = true.
Proof. split; vm_compute; reflexivity. Qed.

Lemma w_povm_coded : povm_is_identity_sum 4 pauli2n 2 w_povm w_atol np_rtol = true.
Proof. vm_compute. reflexivity. Qed.
Lemma w_povm_fixed : povm_is_identity_sum 4 pauli2n 2 w_povm w_atol (c0 Fq) = false.
Proof. vm_compute. reflexivity. Qed.
Lemma w_povm_defect : ~ kle Fq (znorm2 (zsub (povm_sum 4 pauli2n 2 w_povm 0%nat 0%nat) (cdelta 0%nat 0%nat))) (cmul Fq w_atol w_atol).
Proof. apply not_le_of_leb. vm_compute. reflexivity. Qed.

Theorem state_trace_verdict_refuted :
  exists (d : nat) (sd : Qc) (B : nat -> cmat Fq) (v : rvec Fq) (atol : Qc),
    basis_orthonormal d B /\ basis_hermitian d B /\ @basis_0th_identity Fq d sd B /\ kle Fq (c0 Fq) atol /\
    state_is_trace_one d B v atol np_rtol = true /\
    ~ kle Fq (kabs (csub Fq (re (state_trace d B v)) (c1 Fq))) atol.
Proof. exists 4%nat, q2, pauli2n, w_state, w_atol.
  split; [exact pauli2n_orthonormal|]. split; [exact pauli2n_hermitian|]. split; [exact pauli2n_identity0|].
  split; [apply (proj1 (k_leb Fq _ _)); reflexivity|]. split; [exact w_state_coded|exact w_state_defect]. Qed.
Theorem povm_identity_sum_refuted :
  exists (d : nat) (sd : Qc) (B : nat -> cmat Fq) (m : nat) (vs : nat -> rvec Fq) (atol : Qc),
    basis_orthonormal d B /\ basis_hermitian d B /\ @basis_0th_identity Fq d sd B /\ kle Fq (c0 Fq) atol /\
    povm_is_identity_sum d B m vs atol np_rtol = true /\
    exists i j, (i < d)%nat /\ (j < d)%nat /\
      ~ kle Fq (znorm2 (zsub (povm_sum d B m vs i j) (cdelta i j))) (cmul Fq atol atol).
Proof. exists 4%nat, q2, pauli2n, 2%nat, w_povm, w_atol.
  split; [exact pauli2n_orthonormal|]. split; [exact pauli2n_hermitian|]. split; [exact pauli2n_identity0|].
  split; [apply (proj1 (k_leb Fq _ _)); reflexivity|]. split; [exact w_povm_coded|].
  exists 0%nat, 0%nat. split; [lia|]. split; [lia|]. exact w_povm_defect. Qed.

(* ---- non-vacuity: boundary objects that pass every verdict at tolerance 0 *)
(* |00><00| = (II + IZ + ZI + ZZ)/4 : coefficients 1/2 at indices 0, 3, 12, 15  (pure, rank 1) *)
Definition ex_pure : rvec Fq := fun a => if (Nat.eqb a 0 || Nat.eqb a 3 || Nat.eqb a 12 || Nat.eqb a 15)%bool then qc 1 2 else 0.
(* projective two-outcome measurement { |0><0| (x) I , |1><1| (x) I } = B_0 +- B_12 *)
Definition ex_proj : nat -> rvec Fq := fun x a =>
  if Nat.eqb a 0 then 1 else if Nat.eqb a 12 then (if Nat.eqb x 0 then 1 else - (1)) else 0.
(* not a state: the same with a negative eigenvalue *)
Definition ex_neg : rvec Fq := fun a => if Nat.eqb a 0 then qc 1 2 else if Nat.eqb a 15 then 1 else 0.
