(* C01 — the standing concrete instance over Qc: the exactly rational 2-qubit normalised Pauli basis (entries 0, +-1/2, +-i/2; sd = 2),
   witnesses of the _refuted theorems (verdicts AS CODED BEFORE the repairs fixes/C01-state-is-trace-one-rtol.diff and
   fixes/C01-povm-is-identity-sum-rtol.diff, i.e. with rtol = np_rtol), and non-vacuity examples for every object type.
   Everything here is computed (vm_compute) through boolean reflections; verdicts containing a PSD decision are first rewritten
   into their memoised executable form (Proofs/C01_Exec.v), which is proved equal. *)
From Coq Require Import ZArith QArith Qcanon Arith Lia Bool List.
From QV.Core Require Import OF QcOF Sums Mat Cplx Psd C01_HermPsd.
From QV.Exec Require Import Base Core_ops C01_ops.
From QV.Model Require Import QObj HermEmbed C01_Verdicts C01_History.
From QV.Proofs Require Import C01_Verdicts C01_Exec.
Import ListNotations.

Local Open Scope Qc_scope.

Definition qc (n : Z) (d : positive) : Qc := Q2Qc (n # d).
Definition cq (a b : Qc) : Cq := (a, b).
(* 1-qubit Pauli matrices *)
Definition z_one : Cq := cq 1 0.  Definition z_mone : Cq := cq (- (1)) 0.  Definition z_i : Cq := cq 0 1.
Definition z_mi : Cq := cq 0 (- (1)). Definition z_zero : Cq := cq 0 0.
Definition sigma (a i j : nat) : Cq :=
  match a, i, j with
  | 0, 0, 0 => z_one | 0, 1, 1 => z_one
  | 1, 0, 1 => z_one | 1, 1, 0 => z_one
  | 2, 0, 1 => z_mi | 2, 1, 0 => z_i
  | 3, 0, 0 => z_one | 3, 1, 1 => z_mone
  | _, _, _ => z_zero
  end%nat.
(* B_(4a+b) = (sigma_a (x) sigma_b) / 2 *)
Definition pauli2n (a : nat) : cmat Fq :=
  fun i j => cmul Cq (cq (qc 1 2) 0) (cmul Cq (sigma (a / 4) (i / 2) (j / 2)) (sigma (a mod 4) (i mod 2) (j mod 2))).

Definition ceqb (x y : Cq) : bool := keqb Fq (re x) (re y) && keqb Fq (im x) (im y).
Lemma ceqb_spec x y : ceqb x y = true <-> x = y.
Proof. unfold ceqb. rewrite andb_true_iff, !keqb_spec. split.
  - intros [A B]. now apply cplx_eq. - intros ->. split; reflexivity. Qed.

Definition orthonormal_b (d : nat) (B : nat -> cmat Fq) : bool :=
  all2 (d * d) (fun a b => ceqb (hs_inner d (B a) (B b)) (if Nat.eqb a b then c1 Cq else c0 Cq)).
Definition hermitian_b (d : nat) (B : nat -> cmat Fq) : bool :=
  allb (d * d) (fun a => all2 d (fun i j => ceqb (B a i j) (zconj (B a j i)))).
Definition identity0_b (d : nat) (sd : Qc) (B : nat -> cmat Fq) : bool :=
  all2 d (fun i j => ceqb (cmul Cq (@zof Fq sd) (B 0%nat i j)) (if Nat.eqb i j then c1 Cq else c0 Cq)).
Lemma orthonormal_b_spec d B : orthonormal_b d B = true -> basis_orthonormal d B.
Proof. unfold orthonormal_b. rewrite all2_spec. intros H a b Ha Hb. apply ceqb_spec. now apply H. Qed.
Lemma hermitian_b_spec d B : hermitian_b d B = true -> basis_hermitian d B.
Proof. unfold hermitian_b. rewrite allb_spec. intros H a Ha i j Hi Hj. apply ceqb_spec.
  exact (proj1 (all2_spec d _) (H a Ha) i j Hi Hj). Qed.
Lemma identity0_b_spec d sd B : identity0_b d sd B = true -> @basis_0th_identity Fq d sd B.
Proof. unfold identity0_b. rewrite all2_spec. intros H i j Hi Hj. apply ceqb_spec. now apply H. Qed.

Lemma pauli2n_orthonormal : basis_orthonormal 4 pauli2n.
Proof. apply orthonormal_b_spec. vm_compute. reflexivity. Qed.
Lemma pauli2n_hermitian : basis_hermitian 4 pauli2n.
Proof. apply hermitian_b_spec. vm_compute. reflexivity. Qed.
Definition q2 : Qc := qc 2 1.
Lemma pauli2n_identity0 : @basis_0th_identity Fq 4 q2 pauli2n.
Proof. apply identity0_b_spec. vm_compute. reflexivity. Qed.
Lemma sd2 : cmul Fq q2 q2 = @knat Fq 4 /\ kle Fq (c0 Fq) q2 /\ q2 <> c0 Fq.
Proof. split; [|split]. - apply Qc_is_canon. reflexivity. - apply (proj1 (k_leb Fq _ _)). reflexivity. - discriminate. Qed.

Lemma not_le_of_leb (x y : Qc) : kleb Fq x y = false -> ~ kle Fq x y.
Proof. intros E H. apply (proj2 (k_leb Fq x y)) in H. congruence. Qed.
Ltac compute_true := vm_cast_no_check (@eq_refl bool true).
Ltac compute_false := vm_cast_no_check (@eq_refl bool false).

(* ---- executable forms of is_physical (frozen operators, memoised PSD decision), proved equal to the model *)
Definition x_state_phys (st rtol : Qc) d (B : nat -> cmat Fq) (v : rvec Fq) (aeq aineq : option Qc) : bool :=
  let H := cfreeze d (op_of_vec d B v) in
  @ciscl Fq (mtrace d H) (c1 Cq) 1%Qc (@resolve_atol Fq st aeq) rtol && x_is_psd d H (@resolve_atol Fq st aineq).
Lemma x_state_phys_eq st rtol d B v aeq aineq : x_state_phys st rtol d B v aeq aineq = @state_is_physical Fq st rtol d B v aeq aineq.
Proof. unfold x_state_phys, state_is_physical, state_is_trace_one, state_trace, state_is_psd. cbv zeta.
  pose proof (cfreeze_meq d (op_of_vec d B v)) as E. now rewrite (mtrace_ext d _ _ E), (x_is_psd_meq d _ _ _ E). Qed.
Definition x_povm_phys (st rtol : Qc) d (B : nat -> cmat Fq) m (vs : nat -> rvec Fq) (aeq aineq : option Qc) : bool :=
  let E := x_povm_elems d B m vs in
  fst (x_povm_eq d m E (@resolve_atol Fq st aeq) rtol) && allb m (fun x => x_is_psd d (E x) (@resolve_atol Fq st aineq)).
Lemma x_povm_phys_eq st rtol d B m vs aeq aineq : x_povm_phys st rtol d B m vs aeq aineq = @povm_is_physical Fq st rtol d B m vs aeq aineq.
Proof. unfold x_povm_phys, povm_is_physical. cbv zeta. now rewrite x_povm_eq_eq, x_povm_psd_eq. Qed.
Definition x_gate_phys (st : Qc) flag d (B : nat -> cmat Fq) (HS : rmat Fq) (aeq aineq : option Qc) : bool :=
  gate_is_tp flag d B HS (@resolve_atol Fq st aeq) && x_is_psd (d * d) (x_choi d B HS) (@resolve_atol Fq st aineq).
Lemma x_gate_phys_eq st flag d B HS aeq aineq : x_gate_phys st flag d B HS aeq aineq = @gate_is_physical Fq st flag d B HS aeq aineq.
Proof. unfold x_gate_phys, gate_is_physical. now rewrite x_gate_is_cp_eq. Qed.
Definition x_mp_phys (st : Qc) flag d (B : nat -> cmat Fq) m (hss : nat -> rmat Fq) (aeq aineq : option Qc) : bool :=
  gate_is_tp flag d B (freeze 0%Qc (d * d) (d * d) (mprocess_sum_hs m hss)) (@resolve_atol Fq st aeq)
  && allb m (fun x => x_is_psd (d * d) (x_choi d B (hss x)) (@resolve_atol Fq st aineq)).
Lemma x_mp_phys_eq st flag d B m hss aeq aineq : (0 < d)%nat ->
  x_mp_phys st flag d B m hss aeq aineq = @mprocess_is_physical Fq st flag d B m hss aeq aineq.
Proof. intros Hd. unfold x_mp_phys, mprocess_is_physical, mprocess_is_sum_tp, mprocess_is_cp.
  rewrite (gate_is_tp_frozen flag d B _ _ Hd). f_equal. apply allb_ext; intros x _. apply x_gate_is_cp_eq. Qed.

(* ---- witnesses: a defect of 5e-6 is accepted at atol = 1e-13 by the verdicts AS CODED BEFORE THE REPAIRS (numpy's default rtol),
        and rejected by the repaired verdicts (rtol = 0) *)
Definition w_atol : Qc := qc 1 10000000000000.
Definition w_state : rvec Fq := fun a => if Nat.eqb a 0 then qc 200001 400000 else 0.          (* (1 + 5e-6)/2 *)
Definition w_povm : nat -> rvec Fq := fun _ a => if Nat.eqb a 0 then qc 200001 200000 else 0.   (* each element (1 + 5e-6)/2 * I *)

Lemma w_state_coded : state_is_trace_one 4 pauli2n w_state w_atol np_rtol = true.
Proof. compute_true. Qed.
Lemma w_state_fixed : state_is_trace_one 4 pauli2n w_state w_atol (c0 Fq) = false.
Proof. compute_false. Qed.
Lemma w_state_defect : ~ kle Fq (kabs (csub Fq (re (state_trace 4 pauli2n w_state)) (c1 Fq))) w_atol.
Proof. apply not_le_of_leb. compute_false. Qed.
Lemma w_state_ctor : @state_ctor_raises Fq w_atol np_rtol 4 pauli2n w_state true = false
                  /\ @state_ctor_raises Fq w_atol (c0 Fq) 4 pauli2n w_state true = true.
Proof. unfold state_ctor_raises, ctor_raises. rewrite <- !x_state_phys_eq. split; [compute_false|compute_true]. Qed.

Lemma w_povm_coded : povm_is_identity_sum 4 pauli2n 2 w_povm w_atol np_rtol = true.
Proof. compute_true. Qed.
Lemma w_povm_fixed : povm_is_identity_sum 4 pauli2n 2 w_povm w_atol (c0 Fq) = false.
Proof. compute_false. Qed.
Lemma w_povm_defect : ~ kle Fq (znorm2 (zsub (povm_sum 4 pauli2n 2 w_povm 0%nat 0%nat) (cdelta 0%nat 0%nat))) (cmul Fq w_atol w_atol).
Proof. apply not_le_of_leb. compute_false. Qed.
Lemma w_povm_ctor : @povm_ctor_raises Fq w_atol np_rtol 4 pauli2n 2 w_povm true = false
                 /\ @povm_ctor_raises Fq w_atol (c0 Fq) 4 pauli2n 2 w_povm true = true.
Proof. unfold povm_ctor_raises, ctor_raises. rewrite <- !x_povm_phys_eq. split; [compute_false|compute_true]. Qed.

(* the verdict of State.is_trace_one AS CODED BEFORE fix C01-state-is-trace-one-rtol (rtol = np_rtol = 1e-5) is true on an object whose
   exact trace defect exceeds atol: "atol is the only slack" is false of that code *)
Theorem state_trace_verdict_refuted :
  exists (d : nat) (sd : Qc) (B : nat -> cmat Fq) (v : rvec Fq) (atol : Qc),
    basis_orthonormal d B /\ basis_hermitian d B /\ @basis_0th_identity Fq d sd B /\ kle Fq (c0 Fq) atol /\
    state_is_trace_one d B v atol np_rtol = true /\
    ~ kle Fq (kabs (csub Fq (re (state_trace d B v)) (c1 Fq))) atol.
Proof. exists 4%nat, q2, pauli2n, w_state, w_atol.
  split; [exact pauli2n_orthonormal|]. split; [exact pauli2n_hermitian|]. split; [exact pauli2n_identity0|].
  split; [apply (proj1 (k_leb Fq _ _)); reflexivity|]. split; [exact w_state_coded|exact w_state_defect]. Qed.
(* the same for Povm.is_identity_sum AS CODED BEFORE fix C01-povm-is-identity-sum-rtol *)
Theorem povm_identity_sum_refuted :
  exists (d : nat) (sd : Qc) (B : nat -> cmat Fq) (m : nat) (vs : nat -> rvec Fq) (atol : Qc),
    basis_orthonormal d B /\ basis_hermitian d B /\ @basis_0th_identity Fq d sd B /\ kle Fq (c0 Fq) atol /\
    povm_is_identity_sum d B m vs atol np_rtol = true /\
    exists i j, (i < d)%nat /\ (j < d)%nat /\
      ~ kle Fq (znorm2 (zsub (povm_sum d B m vs i j) (cdelta i j))) (cmul Fq atol atol).
Proof. exists 4%nat, q2, pauli2n, 2%nat, w_povm, w_atol.
  split; [exact pauli2n_orthonormal|]. split; [exact pauli2n_hermitian|]. split; [exact pauli2n_identity0|].
  split; [apply (proj1 (k_leb Fq _ _)); reflexivity|]. split; [exact w_povm_coded|].
  exists 0%nat, 0%nat. split; [lia|]. split; [lia|]. exact w_povm_defect. Qed.
(* the repaired verdicts (rtol = 0) reject both witnesses, and the repaired constructors raise on them *)
Theorem witnesses_rejected_after_fix :
  state_is_trace_one 4 pauli2n w_state w_atol (c0 Fq) = false /\ @state_ctor_raises Fq w_atol (c0 Fq) 4 pauli2n w_state true = true /\
  povm_is_identity_sum 4 pauli2n 2 w_povm w_atol (c0 Fq) = false /\ @povm_ctor_raises Fq w_atol (c0 Fq) 4 pauli2n 2 w_povm true = true.
Proof. split; [exact w_state_fixed|]. split; [exact (proj2 w_state_ctor)|]. split; [exact w_povm_fixed|exact (proj2 w_povm_ctor)]. Qed.

(* ---- non-vacuity: concrete objects of every type *)
Definition q0 : Qc := 0.
(* |00><00| = (II + IZ + ZI + ZZ)/4 : coefficients 1/2 at indices 0, 3, 12, 15  (pure, rank 1: a boundary object) *)
Definition ex_pure : rvec Fq := fun a => if (Nat.eqb a 0 || Nat.eqb a 3 || Nat.eqb a 12 || Nat.eqb a 15)%bool then qc 1 2 else 0.
(* projective two-outcome measurement { |0><0| (x) I , |1><1| (x) I } = B_0 +- B_12 *)
Definition ex_proj : nat -> rvec Fq := fun x a =>
  if Nat.eqb a 0 then 1 else if Nat.eqb a 12 then (if Nat.eqb x 0 then 1 else - (1)) else 0.
(* not a state: I/4 + ZZ/2, unit trace, eigenvalues 3/4 and -1/4 *)
Definition ex_neg : rvec Fq := fun a => if Nat.eqb a 0 then qc 1 2 else if Nat.eqb a 15 then 1 else 0.
(* identity gate: HS = I (unitary: a boundary object) *)
Definition hs_id : rmat Fq := fun a b => if Nat.eqb a b then 1 else 0.
(* transposition X |-> X^T : diagonal HS matrix, -1 on the basis elements with an odd number of sigma_y factors.
   Trace preserving and positive but NOT completely positive (Choi matrix = swap operator, eigenvalues +-1) *)
Definition ysign (a : nat) : Qc := if xorb (Nat.eqb (a / 4) 2) (Nat.eqb (a mod 4) 2) then - (1) else 1.
Definition hs_transpose : rmat Fq := fun a b => if Nat.eqb a b then ysign a else 0.
(* twice the identity map: completely positive, not trace preserving *)
Definition hs_twice : rmat Fq := fun a b => if Nat.eqb a b then qc 2 1 else 0.
(* a two-outcome instrument: each outcome half the identity map *)
Definition ex_instr : nat -> rmat Fq := fun _ a b => if Nat.eqb a b then qc 1 2 else 0.
(* ... and one whose outcomes do not sum to a trace-preserving map *)
Definition ex_instr_bad : nat -> rmat Fq := fun _ a b => if Nat.eqb a b then qc 2 3 else 0.

Lemma ex_pure_physical : @state_is_physical Fq q0 q0 4 pauli2n ex_pure (Some q0) (Some q0) = true
                      /\ @state_ctor_raises Fq q0 q0 4 pauli2n ex_pure true = false.
Proof. unfold state_ctor_raises, ctor_raises. rewrite <- !x_state_phys_eq. split; [compute_true|compute_false]. Qed.
(* trace verdict true, PSD verdict false at atol = 1/5 (< 1/4), true at atol = 1/4: the threshold is exactly the smallest eigenvalue *)
Lemma ex_neg_verdicts : state_is_trace_one 4 pauli2n ex_neg q0 q0 = true
                     /\ @state_is_physical Fq q0 q0 4 pauli2n ex_neg (Some q0) (Some (qc 1 5)) = false
                     /\ @state_is_physical Fq q0 q0 4 pauli2n ex_neg (Some q0) (Some (qc 1 4)) = true
                     /\ @state_ctor_raises Fq (qc 1 5) q0 4 pauli2n ex_neg true = true
                     /\ @state_ctor_raises Fq (qc 1 5) q0 4 pauli2n ex_neg false = false.
Proof. unfold state_ctor_raises, ctor_raises. rewrite <- !x_state_phys_eq.
  split; [compute_true|]. split; [compute_false|]. split; [compute_true|]. split; [compute_true|compute_false]. Qed.
Lemma ex_proj_physical : @povm_is_physical Fq q0 q0 4 pauli2n 2 ex_proj (Some q0) (Some q0) = true
                      /\ @povm_ctor_raises Fq q0 q0 4 pauli2n 2 ex_proj true = false.
Proof. unfold povm_ctor_raises, ctor_raises. rewrite <- !x_povm_phys_eq. split; [compute_true|compute_false]. Qed.
Lemma hs_id_physical : @gate_is_physical Fq q0 true 4 pauli2n hs_id (Some q0) (Some q0) = true
                    /\ @gate_is_physical Fq q0 false 4 pauli2n hs_id (Some q0) (Some q0) = true
                    /\ @gate_ctor_raises Fq q0 true 4 pauli2n hs_id true = false.
Proof. unfold gate_ctor_raises, ctor_raises. rewrite <- !x_gate_phys_eq. split; [compute_true|]. split; [compute_true|compute_false]. Qed.
Lemma hs_transpose_verdicts : gate_is_tp true 4 pauli2n hs_transpose q0 = true /\ gate_is_tp false 4 pauli2n hs_transpose q0 = true
                           /\ gate_is_cp 4 pauli2n hs_transpose (qc 1 2) = false /\ gate_is_cp 4 pauli2n hs_transpose 1 = true
                           /\ @gate_ctor_raises Fq (qc 1 2) true 4 pauli2n hs_transpose true = true.
Proof. unfold gate_ctor_raises, ctor_raises. rewrite <- !x_gate_phys_eq, <- !x_gate_is_cp_eq.
  split; [compute_true|]. split; [compute_true|]. split; [compute_false|]. split; [compute_true|compute_true]. Qed.
Lemma hs_twice_verdicts : gate_is_cp 4 pauli2n hs_twice q0 = true
                       /\ gate_is_tp true 4 pauli2n hs_twice (qc 1 2) = false /\ gate_is_tp false 4 pauli2n hs_twice (qc 1 2) = false
                       /\ gate_is_tp true 4 pauli2n hs_twice 1 = true /\ gate_is_tp false 4 pauli2n hs_twice (qc 2 1) = true.
Proof. rewrite <- !x_gate_is_cp_eq.
  split; [compute_true|]. split; [compute_false|]. split; [compute_false|]. split; [compute_true|compute_true]. Qed.
Lemma ex_instr_physical : @mprocess_is_physical Fq q0 true 4 pauli2n 2 ex_instr (Some q0) (Some q0) = true
                       /\ @mprocess_ctor_raises Fq q0 true 4 pauli2n 2 ex_instr true = false
                       /\ @mprocess_ctor_raises Fq q0 false 4 pauli2n 2 ex_instr false = true
                       /\ @mprocess_is_physical Fq q0 true 4 pauli2n 2 ex_instr_bad (Some (qc 1 4)) (Some q0) = false
                       /\ @mprocess_is_physical Fq q0 true 4 pauli2n 2 ex_instr_bad (Some (qc 1 3)) (Some q0) = true.
Proof. unfold mprocess_ctor_raises, ctor_raises. rewrite <- !(x_mp_phys_eq _ _ 4) by lia.
  split; [compute_true|]. split; [compute_false|]. split; [compute_true|]. split; [compute_false|compute_true]. Qed.

(* a history on ONE object (ex_neg: unit trace, smallest eigenvalue -1/4): global tolerance 1/5, then 1/4, then 1/5 again, then an explicit
   argument while the global value is 1/5 -- every answer is the verdict at the tolerance in force at that call *)
Lemma ex_neg_history :
  @run_history Fq (fun t => state_is_trace_one 4 pauli2n ex_neg t q0) (state_is_psd 4 pauli2n ex_neg) q0
    [@HSet Fq (qc 1 5); HQuery QPhys None None; @HSet Fq (qc 1 4); HQuery QPhys None None; @HSet Fq (qc 1 5); HQuery QIneq None None;
     @HQuery Fq QIneq None (Some (qc 1 4)); HQuery QEq None None]
  = [false; true; false; true; true].
Proof. cbn [run_history hanswer resolve_atol]. unfold state_is_psd.
  repeat rewrite <- (x_is_psd_meq 4 _ _ _ (cfreeze_meq 4 (op_of_vec 4 pauli2n ex_neg))).
  vm_cast_no_check (@eq_refl (list bool) [false; true; false; true; true]). Qed.
