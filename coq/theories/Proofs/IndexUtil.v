(* Serial <-> multi-dimensional index maps: mutually inverse bijections, row-major. *)
From Coq Require Import ZArith List Lia.
From QV.Model Require Import IndexUtil.
Import ListNotations.
Local Open Scope Z_scope.

Fixpoint prodz (l : list Z) : Z := match l with [] => 1 | n :: t => n * prodz t end.
(* specification: mixed-radix digits, most significant first *)
Fixpoint digits (shape : list Z) (k : Z) : list Z :=
  match shape with [] => [] | n :: t => ((k / prodz t) mod n) :: digits t k end.
Fixpoint row_major (shape idx : list Z) : Z :=
  match shape, idx with n :: t, x :: xs => x * prodz t + row_major t xs | _, _ => 0 end.
Fixpoint in_range (shape idx : list Z) : Prop :=
  match shape, idx with
  | [], [] => True
  | n :: t, x :: xs => 0 <= x < n /\ in_range t xs
  | _, _ => False
  end.
Definition positive_shape (shape : list Z) := Forall (fun n => 0 < n) shape.

Lemma prodz_pos shape : positive_shape shape -> 0 < prodz shape.
Proof. induction 1 as [|n t Hn _ IH]; cbn; lia. Qed.

Lemma multi_fold shape : positive_shape shape -> forall acc k,
  fold_left multi_step (rev shape) (acc, k) = (digits shape k ++ acc, k / prodz shape).
Proof. induction 1 as [|n t Hn Ht IH]; intros acc k.
  - cbn. now rewrite Z.div_1_r.
  - cbn [rev]. rewrite fold_left_app, IH. cbn. pose proof (prodz_pos t Ht) as Hp.
    rewrite Z.div_div by lia. do 2 f_equal. lia. Qed.

Lemma multi_from_serial_digits shape k : positive_shape shape -> multi_from_serial shape k = digits shape k.
Proof. intros H. unfold multi_from_serial. rewrite multi_fold by exact H. cbn. apply app_nil_r. Qed.

Lemma serial_fold shape : forall idx s t, length shape = length idx ->
  fold_left serial_step (rev (combine shape idx)) (s, t) = (s + t * row_major shape idx, t * prodz shape).
Proof. induction shape as [|n sh IH]; intros [|x xs] s t Hl; try discriminate.
  - cbn. f_equal; lia.
  - cbn [combine rev]. rewrite fold_left_app, IH by (cbn in Hl; lia). cbn [fold_left serial_step row_major prodz fst snd]. f_equal; ring. Qed.

Lemma serial_from_multi_row_major shape idx : length shape = length idx ->
  serial_from_multi shape idx = Some (row_major shape idx).
Proof. intros Hl. unfold serial_from_multi. rewrite Hl, Nat.eqb_refl, serial_fold by exact Hl. cbn [fst]. f_equal. ring. Qed.

Lemma serial_from_multi_mismatch shape idx : length shape <> length idx -> serial_from_multi shape idx = None.
Proof. intros Hl. unfold serial_from_multi. now apply Nat.eqb_neq in Hl as ->. Qed.

Lemma in_range_length shape : forall idx, in_range shape idx -> length shape = length idx.
Proof. induction shape as [|n t IH]; intros [|x xs]; cbn; try tauto. intros [_ H]. f_equal. now apply IH. Qed.

Lemma digits_in_range shape k : positive_shape shape -> in_range shape (digits shape k).
Proof. induction 1 as [|n t Hn Ht IH]; cbn; [exact I|]. split; [apply Z.mod_pos_bound; lia|exact IH]. Qed.

Lemma row_major_bounds shape : forall idx, in_range shape idx -> 0 <= row_major shape idx < prodz shape.
Proof. induction shape as [|n t IH]; intros [|x xs]; cbn; try tauto; [lia|].
  intros [Hx Hr]. specialize (IH xs Hr). nia. Qed.

Lemma digits_add_mul sh : positive_shape sh -> forall k c, digits sh (c * prodz sh + k) = digits sh k.
Proof. induction 1 as [|m u Hm Hu IHu]; intros k c; cbn; [reflexivity|].
  pose proof (prodz_pos u Hu) as Hpu. f_equal.
  - replace (c * (m * prodz u) + k) with (k + (c * m) * prodz u) by ring. rewrite Z.div_add by lia.
    replace (k / prodz u + c * m) with (k / prodz u + c * m) by ring. rewrite Z.mod_add by lia. reflexivity.
  - replace (c * (m * prodz u)) with ((c * m) * prodz u) by ring. apply IHu. Qed.

Lemma in_range_positive shape : forall idx, in_range shape idx -> positive_shape shape.
Proof. induction shape as [|m u IHu]; intros [|y ys]; cbn; try tauto; [constructor|].
  intros [Hy Hr]. constructor; [lia|]. now apply (IHu ys). Qed.

Lemma row_major_digits shape : positive_shape shape -> forall k, 0 <= k < prodz shape ->
  row_major shape (digits shape k) = k.
Proof. induction 1 as [|n t Hn Ht IH]; intros k Hk; cbn in *; [lia|].
  pose proof (prodz_pos t Ht) as Hp.
  assert (Hq : 0 <= k / prodz t < n). { split; [apply Z.div_pos; lia|apply Z.div_lt_upper_bound; lia]. }
  rewrite (Z.mod_small (k / prodz t) n) by exact Hq.
  assert (E : digits t k = digits t (k mod prodz t)).
  { rewrite (Z.div_mod k (prodz t)) at 1 by lia. rewrite (Z.mul_comm (prodz t)). now apply digits_add_mul. }
  rewrite E, IH by (apply Z.mod_pos_bound; lia). rewrite (Z.div_mod k (prodz t)) at 3 by lia. ring. Qed.

Lemma digits_row_major shape : forall idx, in_range shape idx -> digits shape (row_major shape idx) = idx.
Proof. induction shape as [|n t IH]; intros [|x xs]; cbn; try tauto. intros [Hx Hr].
  pose proof (row_major_bounds t xs Hr) as Hb. f_equal.
  - rewrite Z.div_add_l by lia. rewrite (Z.div_small (row_major t xs)) by lia. rewrite Z.add_0_r. now apply Z.mod_small.
  - rewrite <- (IH xs Hr) at 2. apply digits_add_mul. now apply (in_range_positive t xs). Qed.

(* Statements used by Props/C16.v *)
Theorem serial_multi_inverse shape k : positive_shape shape -> 0 <= k < prodz shape ->
  in_range shape (multi_from_serial shape k) /\ serial_from_multi shape (multi_from_serial shape k) = Some k.
Proof. intros Hs Hk. rewrite multi_from_serial_digits by exact Hs. split; [now apply digits_in_range|].
  rewrite serial_from_multi_row_major by (apply in_range_length; now apply digits_in_range).
  f_equal. now apply row_major_digits. Qed.

Theorem multi_serial_inverse shape idx : in_range shape idx ->
  exists k, serial_from_multi shape idx = Some k /\ 0 <= k < prodz shape /\           k = row_major shape idx /\ multi_from_serial shape k = idx.
Proof. intros Hr. exists (row_major shape idx). split; [apply serial_from_multi_row_major; now apply in_range_length|].
  split; [now apply row_major_bounds|]. split; [reflexivity|].
  rewrite multi_from_serial_digits by (now apply (in_range_positive shape idx)). now apply digits_row_major. Qed.

Theorem serial_from_multi_error_iff shape idx : serial_from_multi shape idx = None <-> length shape <> length idx.
Proof. split.
  - intros H E. rewrite serial_from_multi_row_major in H by exact E. discriminate.
  - apply serial_from_multi_mismatch. Qed.
