(* C07 — main statements about calc_permutation_matrix: it sorts Kronecker products by name (corrected sizes; coded sizes
   up to three subsystems), it terminates, the executed index-map version is the matrix version, and the coded sizes
   are refuted from four subsystems on. *)
From Coq Require Import Arith List Bool ZArith Lia Ring Permutation Sorted QArith Qcanon.
From QV.Core Require Import OF Sums Mat QcOF.
From QV.Model Require Import C07_Tensor.
From QV.Proofs Require Import C07_Kron C07_Perm C07_Loop.
Import ListNotations.

Section Main.
Context {R : CR}.
Add Ring Rm7 : (c_ring R).
Notation "0" := (c0 R). Notation "1" := (c1 R).
Infix "+" := (cadd R). Infix "*" := (cmul R).
Local Notation mat := (@Mat.mat R). Local Notation vec := (@Mat.vec R).
Local Notation rfac := (@rfac R). Local Notation vfac := (@vfac R).

(* two-sided: Q (x)fs P^T is the Kronecker product of the same factors in ascending name order *)
Theorem perm_rect_sorts {T : Type} (tofac : T -> rfac) md fuel names (ts : list T) (Q P : mat) :
  let fs := map tofac ts in
  length names = length ts -> Forall fpos fs -> (md = Fixed \/ length names <= 3)%nat ->
  calc_perm_matrix md fuel names (map frows fs) = POk Q ->
  calc_perm_matrix md fuel names (map fcols fs) = POk P ->
  exists names' ts', Permutation (combine names ts) (combine names' ts') /\ length names' = length ts' /\
    Sorted Z.le names' /\
    meq (rsize fs) (csize fs) (mmul (csize fs) (mmul (rsize fs) Q (tensm fs)) (mT P)) (tensm (map tofac ts')).
Proof. intros fs Hl Hpos Hmd HQ HP.
  apply (loop_sound_rect T tofac md fuel fuel names ts mid mid Q P (tensm fs) Hl Hpos Hmd HQ HP).
  eapply meq_trans; [apply mmul_mTmid_r|apply mmul_mid_l]. Qed.

(* vectors as single-column factors *)
Definition colfac (f : vfac) : rfac := (fst f, 1%nat, colm (snd f)).
Lemma rsize_colfac (fs : list vfac) : rsize (map colfac fs) = vsize fs.
Proof. unfold rsize, vsize. now rewrite map_map. Qed.
Lemma tensm_colfac (fs : list vfac) : forall i j, tensm (map colfac fs) i j = tens fs i.
Proof. induction fs as [|f fs IH]; intros i j; [reflexivity|]. cbn [map tensm tens].
  rewrite rsize_colfac. unfold kron, kronv. rewrite IH. reflexivity. Qed.

Theorem perm_vec_sorts md fuel names (fs : list vfac) (Q : mat) :
  length names = length fs -> Forall (fun f => 0 < fst f)%nat fs -> (md = Fixed \/ length names <= 3)%nat ->
  calc_perm_matrix md fuel names (map fst fs) = POk Q ->
  exists names' fs', Permutation (combine names fs) (combine names' fs') /\ length names' = length fs' /\
    Sorted Z.le names' /\ veq (vsize fs) (mv (vsize fs) Q (tens fs)) (tens fs').
Proof. intros Hl Hpos Hmd HQ.
  assert (Hf : Forall fpos (map colfac fs)).
  { apply Forall_map. eapply Forall_impl; [|exact Hpos]. intros f Hf. split; [exact Hf|cbn; lia]. }
  assert (Ho : Forall onecol (map colfac fs)) by (apply Forall_map; apply Forall_forall; intros; reflexivity).
  assert (Em : map frows (map colfac fs) = map fst fs) by (rewrite map_map; reflexivity).
  unfold calc_perm_matrix in HQ. rewrite <- Em in HQ. change (prodn (map frows (map colfac fs))) with (rsize (map colfac fs)) in HQ.
  destruct (loop_sound_col vfac colfac md fuel names fs mid Q (tensm (map colfac fs)) Hl Hf Ho Hmd HQ (mmul_mid_l _ _ _))
    as (names' & fs' & Hperm & Hl' & Hs & Hm).
  exists names', fs'. repeat split; try assumption.
  intros i Hi. rewrite rsize_colfac in Hm. specialize (Hm i 0%nat Hi ltac:(lia)).
  rewrite tensm_colfac in Hm. rewrite <- Hm. unfold mv, mmul. apply sumn_ext; intros l _. now rewrite tensm_colfac. Qed.

Theorem perm_terminates md fuel names sizes :
  length names = length sizes -> (inversions names <= fuel)%nat -> (md = Fixed \/ length names <= 3)%nat ->
  exists Q : mat, calc_perm_matrix md fuel names sizes = POk Q.
Proof. intros. now apply loop_terminates. Qed.

(* ---- the executed index-map version computes the same permutation matrix *)
Definition memo_ok (memo : nat -> (nat -> nat) -> nat -> nat) := forall n f i, (i < n)%nat -> memo n f i = f i.
Lemma calc_perm_map_loop_eq memo m fuel total names sizes s :
  calc_perm_map_loop memo m fuel total names sizes s =
  match check_cross names with
  | None => POk s
  | Some pos =>
      match fuel with
      | O => PErr 2
      | S f => if (left_perm_dim m pos sizes =? total)%nat
               then calc_perm_map_loop memo m f total (swap_at pos names) (swap_at pos sizes)
                      (memo total (fun i => s (left_perm_map m pos sizes i)))
               else PErr 1
      end
  end.
Proof. destruct fuel; reflexivity. Qed.

Definition perm_rel (total : nat) (a : pres mat) (b : pres (nat -> nat)) : Prop :=
  match a, b with
  | POk P, POk s => meq total total P (pmat s) /\ (forall i, (i < total)%nat -> (s i < total)%nat)
  | PErr c, PErr c' => c = c'
  | _, _ => False
  end.
Lemma calc_perm_map_loop_correct memo md : memo_ok memo -> forall fuel total names sizes s (P : mat),
  (forall i, (i < total)%nat -> (s i < total)%nat) -> meq total total P (pmat s) ->
  perm_rel total (calc_perm_loop md fuel total names sizes P) (calc_perm_map_loop memo md fuel total names sizes s).
Proof. intros Hmemo. induction fuel as [|f IH]; intros total names sizes s P Hs HP;
  rewrite calc_perm_loop_eq, calc_perm_map_loop_eq; destruct (check_cross names) as [pos|]; cbn [perm_rel]; try (split; assumption); try reflexivity.
  destruct (Nat.eqb_spec (left_perm_dim md pos sizes) total) as [E|NE]; [|reflexivity].
  unfold left_perm_dim in E.
  set (h := head_size md pos sizes) in *. set (t := tail_size md pos sizes) in *.
  set (dp := nth pos sizes 0%nat) in *. set (dq := nth (pos - 1) sizes 0%nat) in *.
  assert (Hlam : forall i, (i < total)%nat -> (left_perm_map md pos sizes i < total)%nat).
  { intros i Hi. unfold left_perm_map. fold t dp dq. rewrite <- E in *. now apply lpm_map_lt. }
  apply IH.
  - intros i Hi. rewrite Hmemo by exact Hi. apply Hs. now apply Hlam.
  - intros i j Hi Hj. unfold left_perm_matrix. fold t dp dq.
    rewrite (mmul_ext _ _ (pmat (lpm_map t dp dq)) _ (pmat s) total total).
    + rewrite mmul_pmat_l by (apply (Hlam i Hi)). unfold pmat. rewrite Hmemo by exact Hi. reflexivity.
    + rewrite <- E. apply lpm_pmat.
    + exact HP.
    + exact Hi.
    + exact Hj. Qed.
Theorem calc_perm_map_correct memo md fuel names sizes : memo_ok memo ->
  perm_rel (prodn sizes) (@calc_perm_matrix R md fuel names sizes) (calc_perm_map memo md fuel names sizes).
Proof. intros Hmemo. apply calc_perm_map_loop_correct; [exact Hmemo|auto|].
  intros i j _ _. unfold mid, pmat. now rewrite Nat.eqb_sym. Qed.
End Main.

(* ---- refutation of the coded head / tail sizes (sum instead of product) *)
(* (a) four subsystems out of order: the matrix built by the code has the wrong dimension -> matmul raises *)
Lemma coded_crash (R : CR) fuel : @calc_perm_matrix R Coded (S fuel) [1; 2; 3; 0]%Z [4; 4; 4; 4]%nat = PErr 1.
Proof. reflexivity. Qed.
Lemma fixed_no_crash (R : CR) : exists Q, @calc_perm_matrix R Fixed 16 [1; 2; 3; 0]%Z [4; 4; 4; 4]%nat = POk Q.
Proof. apply perm_terminates; [reflexivity|vm_compute; lia|now left]. Qed.

(* (b) six subsystems with sizes 1,2,2,2,3,3, swap at position 3: the coded matrix has the right dimension (3*4*6 = 72 = 2*4*9)
   and is the wrong permutation *)
Definition w_sizes : list nat := [1; 2; 2; 2; 3; 3]%nat.
Definition w_vec (k n : nat) : @vec Qc_CR := fun i => Q2Qc (inject_Z (Z.of_nat (1 + i + 10 * k))).
Definition w_fs : list (@vfac Qc_CR) := map (fun kn => (snd kn, w_vec (fst kn) (snd kn))) (combine (seq 0 6) w_sizes).
Lemma coded_wrong :
  left_perm_dim Coded 3 w_sizes = prodn w_sizes /\
  mv 72 (@left_perm_matrix Qc_CR Coded 3 w_sizes) (tens w_fs) 6%nat <> tens (swap_at 3 w_fs) 6%nat /\
  mv 72 (@left_perm_matrix Qc_CR Fixed 3 w_sizes) (tens w_fs) 6%nat = tens (swap_at 3 w_fs) 6%nat.
Proof. split; [reflexivity|]. split.
  - intros H. apply (f_equal (fun q : Qc => Qnum (this q))) in H. vm_compute in H. discriminate H.
  - vm_compute. reflexivity. Qed.
