(* C08 — proofs about the tomography forward model (Model/C08_Forward.v). Axiom-free, generic in F : OF. *)
From Coq Require Import Arith List Bool Lia Field Ring.
From QV.Core Require Import OF Sums Mat Cplx.
From QV.Model Require Import QObj C08_Forward.
Import ListNotations.

Section C08Proofs.
Context (F : OF).
Add Field Ff8 : (k_field F).
Notation "0" := (c0 F). Notation "1" := (c1 F).
Infix "+" := (cadd F). Infix "*" := (cmul F). Infix "-" := (csub F). Infix "/" := (kdiv F).
Notation "- x" := (copp F x).
Notation lvec := (lvec F).
Notation coeff := (coeff F).
Notation dict := (dict F).

Lemma add0r (x : F) : x + 0 = x. Proof. ring. Qed.

(* ------------------------------------------------------------------ lists *)
Lemma nth_zeros i k : nth i (zeros (F:=F) k) 0 = 0.
Proof. apply nth_repeat. Qed.
Lemma length_zeros k : length (zeros (F:=F) k) = k.
Proof. apply repeat_length. Qed.
Lemma nth_firstn_lt {A} (d : A) k : forall (l : list A) i, (i < k)%nat -> nth i (firstn k l) d = nth i l d.
Proof. induction k as [|k IH]; intros l i H; [lia|]. destruct l as [|a l]; [reflexivity|].
  destruct i as [|i]; [reflexivity|]. cbn. apply IH. lia. Qed.
Lemma nth_skipn_plus {A} (d : A) k : forall (l : list A) i, nth i (skipn k l) d = nth (k + i)%nat l d.
Proof. induction k as [|k IH]; intros l i; [reflexivity|]. destruct l as [|a l]; [now destruct i|]. cbn. apply IH. Qed.
Lemma nth_map0 (f : F -> F) (l : list F) i : f 0 = 0 -> nth i (map f l) 0 = f (nth i l 0).
Proof. intros H. rewrite <- H at 1. apply map_nth. Qed.
Lemma nth_map_lt {A B} (f : A -> B) (l : list A) (da : A) (db : B) i : (i < length l)%nat -> nth i (map f l) db = f (nth i l da).
Proof. intros H. rewrite (nth_indep _ db (f da)) by (now rewrite map_length). apply map_nth. Qed.
Lemma length_tile (l : lvec) k : length (tile l k) = (k * length l)%nat.
Proof. unfold tile. induction k as [|k IH]; [reflexivity|]. cbn [repeat concat]. rewrite app_length, IH. lia. Qed.
Lemma nth_tile (l : lvec) k a b : (b < length l)%nat -> (a < k)%nat -> nth (a * length l + b) (tile l k) 0 = nth b l 0.
Proof. revert a. induction k as [|k IH]; intros a Hb Ha; [lia|]. unfold tile. cbn [repeat concat]. fold (tile l k).
  destruct a as [|a]. { cbn [Nat.mul Nat.add]. now apply app_nth1. }
  replace (S a * length l + b)%nat with (length l + (a * length l + b))%nat by lia.
  rewrite app_nth2_plus. apply IH; lia. Qed.
Lemma length_map2 {A B D} (f : A -> B -> D) : forall a b, length (map2 f a b) = Nat.min (length a) (length b).
Proof. induction a as [|x a IH]; intros b; [reflexivity|]. destruct b as [|y b]; [reflexivity|]. cbn. now rewrite IH. Qed.
Lemma nth_map2 {A B D} (f : A -> B -> D) da db dd : forall a b i, (i < length a)%nat -> (i < length b)%nat ->
  nth i (map2 f a b) dd = f (nth i a da) (nth i b db).
Proof. induction a as [|x a IH]; intros b i Ha Hb; [cbn in Ha; lia|]. destruct b as [|y b]; [cbn in Hb; lia|].
  destruct i as [|i]; [reflexivity|]. cbn in *. apply IH; lia. Qed.
Lemma map2_map_map {A B D E} (f : B -> D -> E) (g : A -> B) (h : A -> D) (l : list A) :
  map2 f (map g l) (map h l) = map (fun x => f (g x) (h x)) l.
Proof. induction l as [|x l IH]; [reflexivity|]. cbn. now rewrite IH. Qed.
Lemma combine_map_map {A B D} (g : A -> B) (h : A -> D) (l : list A) :
  combine (map g l) (map h l) = map (fun x => (g x, h x)) l.
Proof. induction l as [|x l IH]; [reflexivity|]. cbn. now rewrite IH. Qed.
Lemma combine_app_eq {A B} (a1 a2 : list A) (b1 b2 : list B) : length a1 = length b1 ->
  combine (a1 ++ a2) (b1 ++ b2) = combine a1 b1 ++ combine a2 b2.
Proof. revert b1. induction a1 as [|x a1 IH]; intros b1 H; destruct b1 as [|y b1]; cbn in H; try lia; [reflexivity|].
  cbn. rewrite IH by lia. reflexivity. Qed.
Lemma combine_zeros {A} (l : list A) : combine l (zeros (F:=F) (length l)) = map (fun r => (r, 0)) l.
Proof. induction l as [|x l IH]; [reflexivity|]. cbn. now rewrite <- IH. Qed.
Lemma map_snd_combine_seq {A} (l : list A) s : map snd (combine (seq s (length l)) l) = l.
Proof. revert s. induction l as [|x l IH]; intros s; [reflexivity|]. cbn. now rewrite IH. Qed.
Lemma flat_map_map {A B D} (f : B -> list D) (g : A -> B) (l : list A) : flat_map f (map g l) = flat_map (fun x => f (g x)) l.
Proof. induction l as [|x l IH]; [reflexivity|]. cbn. now rewrite IH. Qed.
Lemma map_flat_map {A B D} (f : A -> list B) (g : B -> D) (l : list A) : map g (flat_map f l) = flat_map (fun x => map g (f x)) l.
Proof. induction l as [|x l IH]; [reflexivity|]. cbn. now rewrite map_app, IH. Qed.
Lemma flat_map_ext_in {A B} (f g : A -> list B) (l : list A) : (forall x, In x l -> f x = g x) -> flat_map f l = flat_map g l.
Proof. induction l as [|x l IH]; intros H; [reflexivity|]. cbn. rewrite H by (now left). rewrite IH; [reflexivity|]. intros; apply H; now right. Qed.
Lemma length_flat_map_const {A B} (f : A -> list B) (l : list A) k : (forall x, In x l -> length (f x) = k) -> length (flat_map f l) = (length l * k)%nat.
Proof. induction l as [|x l IH]; intros H; [reflexivity|]. cbn. rewrite app_length, H by (now left). rewrite IH; [lia|]. intros; apply H; now right. Qed.

(* ------------------------------------------------------------------ row @ var *)
Lemma dotl_ext_nth (r : lvec) (v : rvec F) k (f : nat -> F) :
  length r = k -> (forall i, (i < k)%nat -> nth i r 0 = f i) -> dotl r v = sumn k (fun i => f i * v i).
Proof. intros <- H. unfold dotl. apply sumn_ext. intros i Hi. now rewrite H. Qed.
Lemma dotl_nil (v : rvec F) : dotl (@nil F) v = 0. Proof. reflexivity. Qed.
Lemma dotl_app (a b : lvec) (v : rvec F) : dotl (a ++ b) v = dotl a v + dotl b (fun i => v (length a + i)%nat).
Proof. unfold dotl. rewrite app_length, sumn_app. f_equal.
  - apply sumn_ext; intros i Hi. now rewrite app_nth1.
  - apply sumn_ext; intros i Hi. now rewrite app_nth2_plus. Qed.
Lemma dotl_zeros k (v : rvec F) : dotl (zeros k) v = 0.
Proof. unfold dotl. apply sumn_zero'. intros i _. rewrite nth_zeros. ring. Qed.
Lemma dotl_ext (r : lvec) (v w : rvec F) : (forall i, (i < length r)%nat -> v i = w i) -> dotl r v = dotl r w.
Proof. intros H. apply sumn_ext. intros i Hi. now rewrite H. Qed.
Lemma dotl_pad (a b : nat) (c : lvec) (v : rvec F) : dotl (zeros a ++ c ++ zeros b) v = dotl c (fun i => v (a + i)%nat).
Proof. rewrite !dotl_app, !dotl_zeros, length_zeros. ring. Qed.
Lemma dotl_tile (D : lvec) k : forall v : rvec F, dotl (tile D k) v = sumn k (fun x => dotl D (fun i => v (x * length D + i)%nat)).
Proof. induction k as [|k IH]; intros v; [reflexivity|]. unfold tile. cbn [repeat concat]. fold (tile D k).
  rewrite dotl_app, IH, sumn_S_first. f_equal.
  apply sumn_ext; intros x _. apply dotl_ext; intros i _. f_equal. lia. Qed.
Lemma dotl_vl (r : lvec) (v : rvec F) : dotl r v = dot (length r) (vl r) v.
Proof. reflexivity. Qed.

(* ------------------------------------------------------------------ the dictionary: sorted stacking = insertion order *)
Fixpoint chain (d : dict) : Prop :=
  match d with
  | [] => True
  | e :: t => match t with [] => True | h :: _ => key_lt (fst e) (fst h) end /\ chain t
  end.
Lemma key_lt_leb a b : key_lt a b -> key_leb a b = true.
Proof. unfold key_lt, key_leb. intros [H|[H1 H2]].
  - apply orb_true_iff; left. now apply Nat.ltb_lt.
  - apply orb_true_iff; right. apply andb_true_iff; split; [now apply Nat.eqb_eq|apply Nat.leb_le; lia]. Qed.
Lemma sorted_items_chain (d : dict) : chain d -> sorted_items d = d.
Proof. induction d as [|e t IH]; intros H; [reflexivity|]. destruct H as [H1 H2]. cbn [sorted_items fold_right].
  fold (sorted_items t). rewrite IH by exact H2. destruct t as [|h t']; [reflexivity|].
  cbn [insert_entry]. now rewrite key_lt_leb. Qed.
Lemma chain_app (a b : dict) : chain a -> chain b -> (forall x y, In x a -> In y b -> key_lt (fst x) (fst y)) -> chain (a ++ b).
Proof. induction a as [|e t IH]; intros Ha Hb H; [exact Hb|]. destruct Ha as [H1 H2]. cbn [app chain]. split.
  - destruct t as [|h t']; cbn [app].
    + destruct b as [|y b']; [exact I|]. apply H; now left.
    + exact H1.
  - apply IH; [exact H2|exact Hb|]. intros x y Hx Hy. apply H; [now right|exact Hy]. Qed.
Definition block (j s : nat) (rows : list coeff) : dict :=
  map (fun xr => ((j, fst xr), snd xr)) (combine (seq s (length rows)) rows).
Lemma block_chain j : forall rows s, chain (block j s rows).
Proof. induction rows as [|r rows IH]; intros s; [exact I|]. unfold block. cbn [length seq combine map chain]. split.
  - destruct rows as [|r' rows']; [exact I|]. cbn. right. split; [reflexivity|simpl; lia].
  - apply IH. Qed.
Lemma block_keys j : forall rows s e, In e (block j s rows) -> fst (fst e) = j.
Proof. intros rows s e H. unfold block in H. apply in_map_iff in H. destruct H as [xr [<- _]]. reflexivity. Qed.
Lemma map_snd_block j s rows : map snd (block j s rows) = rows.
Proof. unfold block. rewrite map_map. cbn [snd]. exact (map_snd_combine_seq rows s). Qed.
Definition bd_from (s : nat) (ps : list (list coeff)) : dict :=
  flat_map (fun jr => block (fst jr) O (snd jr)) (combine (seq s (length ps)) ps).
Lemma build_dict_bd (ps : list (list coeff)) : build_dict ps = bd_from O ps. Proof. reflexivity. Qed.
Lemma bd_from_keys : forall ps s e, In e (bd_from s ps) -> (s <= fst (fst e))%nat.
Proof. induction ps as [|rows ps IH]; intros s e H; [destruct H|]. unfold bd_from in H. cbn [length seq combine flat_map] in H.
  apply in_app_or in H. destruct H as [H|H].
  - apply block_keys in H. cbn in H. lia.
  - apply (IH (S s)) in H. lia. Qed.
Lemma bd_from_chain : forall ps s, chain (bd_from s ps).
Proof. induction ps as [|rows ps IH]; intros s; [exact I|]. unfold bd_from. cbn [length seq combine flat_map].
  apply chain_app; [apply block_chain|apply (IH (S s))|]. intros x y Hx Hy. left.
  apply block_keys in Hx. cbn in Hx. apply (bd_from_keys ps (S s)) in Hy. lia. Qed.
Lemma map_snd_bd_from : forall ps s, map snd (bd_from s ps) = concat ps.
Proof. induction ps as [|rows ps IH]; intros s; [reflexivity|]. unfold bd_from. cbn [length seq combine flat_map concat].
  rewrite map_app, map_snd_block. f_equal. apply (IH (S s)). Qed.

(* the stacked matrix / vector are the rows in insertion order *)
Lemma calc_matA_build (ps : list (list coeff)) : calc_matA (build_dict ps) = map fst (concat ps).
Proof. unfold calc_matA. rewrite sorted_items_chain by (rewrite build_dict_bd; apply bd_from_chain).
  rewrite build_dict_bd, <- (map_snd_bd_from ps O), map_map. reflexivity. Qed.
Lemma calc_vecB_build (ps : list (list coeff)) : calc_vecB (build_dict ps) = map snd (concat ps).
Proof. unfold calc_vecB. rewrite sorted_items_chain by (rewrite build_dict_bd; apply bd_from_chain).
  rewrite build_dict_bd, <- (map_snd_bd_from ps O), map_map. reflexivity. Qed.
Lemma affine_rows (rows : list coeff) (v : rvec F) : affine (map fst rows) (map snd rows) v = eval_rows rows v.
Proof. unfold affine, eval_rows. exact (map2_map_map (fun r c => dotl r v + c) fst snd rows). Qed.
(* A var + b = concatenation over the schedules of (rows of the schedule evaluated at var) *)
Lemma affine_build (ps : list (list coeff)) (v : rvec F) :
  affine (calc_matA (build_dict ps)) (calc_vecB (build_dict ps)) v = concat (map (fun rows => eval_rows rows v) ps).
Proof. rewrite calc_matA_build, calc_vecB_build, affine_rows. unfold eval_rows. apply concat_map. Qed.
Lemma forward_generic (ps : list (list coeff)) (v : rvec F) (borns : list (list F)) :
  map (fun rows => eval_rows rows v) ps = borns ->
  affine (calc_matA (build_dict ps)) (calc_vecB (build_dict ps)) v = concat borns.
Proof. intros <-. apply affine_build. Qed.

(* position of (schedule j, outcome x) in a concatenation *)
Lemma nth_concat_offset {A} (d : A) : forall (ls : list (list A)) j x, (j < length ls)%nat -> (x < length (nth j ls []))%nat ->
  nth (offset (map (@length A) ls) j + x) (concat ls) d = nth x (nth j ls []) d.
Proof. induction ls as [|l ls IH]; intros j x Hj Hx; [cbn in Hj; lia|]. destruct j as [|j].
  - cbn in *. now apply app_nth1.
  - cbn [map offset firstn natsum fold_right concat nth] in *. fold (natsum (firstn j (map (@length A) ls))).
    rewrite <- Nat.add_assoc, app_nth2_plus. apply IH; [cbn in Hj; lia|exact Hx]. Qed.
Lemma length_concat_counts {A} (ls : list (list A)) : length (concat ls) = natsum (map (@length A) ls).
Proof. induction ls as [|l ls IH]; [reflexivity|]. cbn. now rewrite app_length, IH. Qed.

(* ------------------------------------------------------------------ QST *)
Lemma qst_row_para d sd (pv : lvec) (v : rvec F) : sd <> 0 -> length pv = (d * d)%nat ->
  dotl (tl pv) v + hd 0 pv / sd = born d (vl pv) (state_of_var F true sd v).
Proof. intros Hsd Hl. unfold born, dot. rewrite <- Hl. destruct pv as [|a t].
  - cbn. field. exact Hsd.
  - cbn [length]. rewrite sumn_S_first. cbn [tl hd state_of_var]. unfold dotl, vl. cbn [nth]. field. exact Hsd. Qed.
Lemma qst_row_nopara d sd (pv : lvec) (v : rvec F) : length pv = (d * d)%nat ->
  dotl pv v + 0 = born d (vl pv) (state_of_var F false sd v).
Proof. intros Hl. unfold born, dot. rewrite <- Hl. cbn [state_of_var]. unfold dotl, vl. ring. Qed.
Lemma qst_rows_ok d para sd (povm : list lvec) (v : rvec F) : sd <> 0 ->
  (forall pv, In pv povm -> length pv = (d * d)%nat) ->
  eval_rows (qst_rows F para sd povm) v = qst_born F d para sd povm v.
Proof. intros Hsd H. unfold eval_rows, qst_rows, qst_born, born_povm_state. rewrite map_map. apply map_ext_in. intros pv Hpv.
  destruct para; cbn [fst snd]; [apply qst_row_para|apply qst_row_nopara]; auto. Qed.
Theorem qst_forward d para sd (povms : list (list lvec)) (scheds : list nat) (v : rvec F) : sd <> 0 ->
  (forall i, In i scheds -> forall pv, In pv (nth i povms []) -> length pv = (d * d)%nat) ->
  affine (calc_matA (qst_coeffs F para sd povms scheds)) (calc_vecB (qst_coeffs F para sd povms scheds)) v
  = concat (map (fun i => qst_born F d para sd (nth i povms []) v) scheds).
Proof. intros Hsd H. unfold qst_coeffs. apply forward_generic. unfold qst_per_schedule. rewrite map_map.
  apply map_ext_in. intros i Hi. apply qst_rows_ok; [exact Hsd|]. now apply H. Qed.

(* ------------------------------------------------------------------ outer products (QPT, QMPT) *)
Lemma length_outer_flat (p s : lvec) : length (outer_flat F p s) = (length p * length s)%nat.
Proof. unfold outer_flat. apply length_flat_map_const. intros x _. apply map_length. Qed.
Lemma nth_nil i : nth i (@nil F) 0 = 0. Proof. now destruct i. Qed.
Lemma nth_outer_flat (s : lvec) : forall (p : lvec) a b, (b < length s)%nat ->
  nth (a * length s + b) (outer_flat F p s) 0 = nth a p 0 * nth b s 0.
Proof. induction p as [|a0 p IH]; intros a b Hb.
  - cbn [outer_flat flat_map]. rewrite !nth_nil. ring.
  - unfold outer_flat. cbn [flat_map]. fold (outer_flat F p s). destruct a as [|a].
    + cbn [Nat.mul Nat.add nth]. rewrite app_nth1 by (now rewrite map_length).
      now rewrite (nth_map_lt _ _ 0 0) by exact Hb.
    + replace (S a * length s + b)%nat with (length (map (fun b0 => cmul F a0 b0) s) + (a * length s + b))%nat by (rewrite map_length; lia).
      rewrite app_nth2_plus. cbn [nth]. now apply IH. Qed.
Lemma dotl_outer (p s : lvec) (u : rvec F) :
  dotl (outer_flat F p s) u = sumn (length p) (fun a => sumn (length s) (fun b => nth a p 0 * nth b s 0 * u (a * length s + b)%nat)).
Proof. rewrite (dotl_ext_nth _ u (length p * length s) (fun i => nth i (outer_flat F p s) 0)) by (auto using length_outer_flat).
  rewrite sumn_flat. apply sumn_ext; intros a Ha. apply sumn_ext; intros b Hb. now rewrite nth_outer_flat. Qed.
(* a full outer-product row against a var segment laid out row-major = Born probability with that HS matrix *)
Lemma outer_row_born d (pv s : lvec) (u : rvec F) : length pv = (d * d)%nat -> length s = (d * d)%nat ->
  dotl (outer_flat F pv s) u = born d (vl pv) (mv (d * d) (fun a b => u (a * (d * d) + b)%nat) (vl s)).
Proof. intros Hp Hs. rewrite dotl_outer, Hp, Hs. unfold born, dot, mv, vl. apply sumn_ext; intros a _.
  rewrite <- sumn_scale_l. apply sumn_ext; intros b _. ring. Qed.
(* the row without its first d*d entries against the var segment holding rows 1.. of the HS matrix, plus the contribution of an
   arbitrary implied first row [top] *)
Lemma outer_row_born_tail d (pv s : lvec) (u : rvec F) (top : nat -> F) :
  length pv = (d * d)%nat -> length s = (d * d)%nat ->
  dotl (skipn (d * d) (outer_flat F pv s)) u + nth O pv 0 * sumn (d * d) (fun b => top b * nth b s 0)
  = born d (vl pv) (mv (d * d) (fun a b => match a with O => top b | S a' => u (a' * (d * d) + b)%nat end) (vl s)).
Proof. intros Hp Hs. unfold born. remember (d * d)%nat as n eqn:En. destruct n as [|n'].
  - destruct pv; [|discriminate]. cbn. ring.
  - rewrite (dotl_ext_nth _ u (n' * S n') (fun i => nth (S n' + i) (outer_flat F pv s) 0)).
    2:{ rewrite skipn_length, length_outer_flat, Hp, Hs. lia. }
    2:{ intros i _. apply nth_skipn_plus. }
    rewrite sumn_flat. unfold dot, mv, vl.
    match goal with |- ?L = _ => set (lhs := L) end. rewrite (sumn_S_first n'). subst lhs.
    etransitivity; [apply (Radd_comm (c_ring F))|]. f_equal.
    apply sumn_ext; intros a Ha. rewrite <- sumn_scale_l. apply sumn_ext; intros b Hb.
    replace (S n' + (a * S n' + b))%nat with (S a * length s + b)%nat by (rewrite Hs; lia).
    rewrite nth_outer_flat by (rewrite Hs; exact Hb). ring. Qed.
Lemma sumn_unit_row n (f : nat -> F) : (0 < n)%nat -> sumn n (fun b => (if (b =? O)%nat then 1 else 0) * f b) = f O.
Proof. intros Hn. rewrite (sumn_ext n _ (fun b => if (b =? O)%nat then f b else 0)).
  2:{ intros b _. destruct (b =? O)%nat; ring. } now apply (sumn_delta n O f). Qed.

(* ------------------------------------------------------------------ QPT *)
Lemma qpt_rows_ok d para (s : lvec) (povm : list lvec) (v : rvec F) : (0 < d)%nat -> length s = (d * d)%nat ->
  (forall pv, In pv povm -> length pv = (d * d)%nat) ->
  eval_rows (qpt_rows F para s povm) v = qpt_born F d para s povm v.
Proof. intros Hd Hs H. assert (Hn : (0 < d * d)%nat) by nia.
  unfold eval_rows, qpt_rows, qpt_c_rows, qpt_born, born_gate, born_povm_state. rewrite !map_map.
  apply map_ext_in. intros pv Hpv. specialize (H pv Hpv). destruct para; cbn [fst snd hs_of_var].
  - rewrite Hs. rewrite <- (outer_row_born_tail d pv s v (fun b => if (b =? O)%nat then 1 else 0) H Hs).
    f_equal. rewrite sumn_unit_row by exact Hn.
    replace O with (O * length s + O)%nat at 1 by reflexivity. rewrite nth_outer_flat by (rewrite Hs; exact Hn). reflexivity.
  - rewrite (outer_row_born d pv s v H Hs). ring. Qed.
Theorem qpt_forward d para (states : list lvec) (povms : list (list lvec)) (scheds : list (nat * nat)) (v : rvec F) : (0 < d)%nat ->
  (forall ik, In ik scheds -> length (nth (fst ik) states []) = (d * d)%nat /\
                              forall pv, In pv (nth (snd ik) povms []) -> length pv = (d * d)%nat) ->
  affine (calc_matA (qpt_coeffs F para states povms scheds)) (calc_vecB (qpt_coeffs F para states povms scheds)) v
  = concat (map (fun ik => qpt_born F d para (nth (fst ik) states []) (nth (snd ik) povms []) v) scheds).
Proof. intros Hd H. unfold qpt_coeffs. apply forward_generic. unfold qpt_per_schedule. rewrite map_map.
  apply map_ext_in. intros ik Hik. destruct (H ik Hik) as [H1 H2]. now apply qpt_rows_ok. Qed.

(* ------------------------------------------------------------------ POVMT *)
Lemma nth_tile' (l : lvec) n k a b : length l = n -> (b < n)%nat -> (a < k)%nat -> nth (a * n + b) (tile l k) 0 = nth b l 0.
Proof. intros <-. apply nth_tile. Qed.
Lemma nth_povmt_c n m x x' k (s : lvec) : length s = n -> (k < n)%nat ->
  nth (x' * n + k) (povmt_c F n m x s) 0 = if (x' =? x)%nat then nth k s 0 else 0.
Proof. intros Hs Hk. unfold povmt_c. destruct (Nat.eqb_spec x' x) as [->|Hne].
  - replace (x * n + k)%nat with (length (zeros (F:=F) (x * n)) + k)%nat by (rewrite length_zeros; lia).
    rewrite app_nth2_plus. apply app_nth1. lia.
  - destruct (Nat.lt_ge_cases x' x) as [Hlt|Hge].
    + rewrite app_nth1 by (rewrite length_zeros; nia). apply nth_zeros.
    + replace (x' * n + k)%nat with (length (zeros (F:=F) (x * n)) + (length s + ((x' - x - 1) * n + k)))%nat
        by (rewrite length_zeros, Hs; nia).
      rewrite !app_nth2_plus. apply nth_zeros. Qed.
Lemma length_povmt_c n m x (s : lvec) : length s = n -> (x < m)%nat -> length (povmt_c F n m x s) = (m * n)%nat.
Proof. intros Hs Hx. unfold povmt_c. rewrite !app_length, !length_zeros, Hs. nia. Qed.
Lemma length_povmt_row_para n sd m x (s : lvec) : length s = n -> (x < m)%nat ->
  length (fst (povmt_row F true sd m x s)) = ((m - 1) * n)%nat.
Proof. intros Hs Hx. unfold povmt_row. cbn [fst]. rewrite Hs. rewrite length_map2, firstn_length, length_tile, skipn_length.
  rewrite (length_povmt_c n m x s Hs Hx). nia. Qed.
Lemma povmt_row_para_nth n sd m x (s : lvec) x' k : length s = n -> (x < m)%nat -> (x' < m - 1)%nat -> (k < n)%nat ->
  nth (x' * n + k) (fst (povmt_row F true sd m x s)) 0
  = (if (x' =? x)%nat then nth k s 0 else 0) - (if (m - 1 =? x)%nat then nth k s 0 else 0).
Proof. intros Hs Hx Hx' Hk. unfold povmt_row. cbn [fst]. rewrite Hs.
  pose proof (length_povmt_c n m x s Hs Hx) as Hlc.
  assert (Hcp : length (skipn (n * (m - 1)) (povmt_c F n m x s)) = n) by (rewrite skipn_length, Hlc; nia).
  rewrite (nth_map2 _ 0 0 0).
  2:{ rewrite firstn_length, Hlc. nia. }
  2:{ rewrite length_tile, Hcp. nia. }
  rewrite nth_firstn_lt by nia. rewrite (nth_tile' _ n) by (auto; lia).
  rewrite nth_skipn_plus. replace (n * (m - 1) + k)%nat with ((m - 1) * n + k)%nat by lia.
  now rewrite !nth_povmt_c. Qed.
Lemma sumn_scaled_unit_row n (c : F) (f : nat -> F) : (0 < n)%nat -> sumn n (fun b => (if (b =? O)%nat then c else 0) * f b) = c * f O.
Proof. intros Hn. rewrite (sumn_ext n _ (fun b => if (b =? O)%nat then c * f b else 0)).
  2:{ intros b _. destruct (b =? O)%nat; ring. } now apply (sumn_delta n O (fun b => c * f b)). Qed.
Lemma povmt_row_ok d para sd m x (s : lvec) (v : rvec F) : (0 < d)%nat -> length s = (d * d)%nat -> (x < m)%nat ->
  dotl (fst (povmt_row F para sd m x s)) v + snd (povmt_row F para sd m x s)
  = born d (povm_of_var F para sd (d * d) m v x) (vl s).
Proof. intros Hd Hs Hx. assert (Hn : (0 < d * d)%nat) by nia. remember (d * d)%nat as n eqn:En. unfold born. rewrite <- En. destruct para.
  - rewrite (dotl_ext_nth _ v ((m - 1) * n) (fun i => nth i (fst (povmt_row F true sd m x s)) 0))
      by (auto using length_povmt_row_para).
    rewrite sumn_flat.
    rewrite (sumn_ext (m - 1) _ (fun x' => sumn n (fun k =>
       ((if (x' =? x)%nat then nth k s 0 else 0) - (if (m - 1 =? x)%nat then nth k s 0 else 0)) * v (x' * n + k)%nat))).
    2:{ intros x' Hx'. apply sumn_ext; intros k Hk. now rewrite povmt_row_para_nth. }
    assert (Hb : snd (povmt_row F true sd m x s) = sd * (if (m - 1 =? x)%nat then nth O s 0 else 0)).
    { unfold povmt_row. cbn [snd]. rewrite Hs, nth_skipn_plus. replace (n * (m - 1) + 0)%nat with ((m - 1) * n + 0)%nat by lia.
      now rewrite nth_povmt_c. }
    rewrite Hb. unfold povm_of_var, dot, vl. cbn [andb]. rewrite (Nat.eqb_sym x (m - 1)).
    destruct (Nat.eqb_spec (m - 1) x) as [E|E].
    + (* the implied last element *)
      rewrite (sumn_ext n (fun i => _ * nth i s 0)
                 (fun i => (if (i =? O)%nat then sd else 0) * nth i s 0 - sumn (m - 1) (fun x' => v (x' * n + i)%nat * nth i s 0))).
      2:{ intros i _. rewrite sumn_scale_r. ring. }
      rewrite sumn_sub, sumn_scaled_unit_row by exact Hn. rewrite (sumn_swap n (m - 1)).
      rewrite (sumn_ext (m - 1) _ (fun x' => - sumn n (fun k => v (x' * n + k)%nat * nth k s 0))).
      2:{ intros x' Hx'. assert ((x' =? x)%nat = false) as -> by (apply Nat.eqb_neq; lia).
          rewrite <- sumn_opp. apply sumn_ext; intros k _. ring. }
      rewrite sumn_opp. ring.
    + rewrite (sumn_ext (m - 1) _ (fun x' => if (x' =? x)%nat then sumn n (fun k => nth k s 0 * v (x' * n + k)%nat) else 0)).
      2:{ intros x' Hx'. destruct (x' =? x)%nat.
          - apply sumn_ext; intros k _. ring.
          - apply sumn_zero'. intros k _. ring. }
      rewrite (sumn_delta (m - 1) x (fun x' => sumn n (fun k => nth k s 0 * v (x' * n + k)%nat))) by lia.
      cbv iota. replace (sd * 0) with 0 by ring.
      rewrite add0r.
      apply sumn_ext; intros k _. ring.
  - unfold povmt_row. cbn [fst snd]. rewrite Hs. unfold povmt_c. rewrite dotl_pad. unfold povm_of_var, dot, dotl, vl. cbn [andb].
    rewrite Hs, add0r.
    apply sumn_ext; intros k _. ring. Qed.
Lemma povmt_rows_ok d para sd m (s : lvec) (v : rvec F) : (0 < d)%nat -> length s = (d * d)%nat ->
  eval_rows (povmt_rows F para sd m s) v = povmt_born F d para sd m s v.
Proof. intros Hd Hs. unfold eval_rows, povmt_rows, povmt_born. rewrite map_map. apply map_ext_in. intros x Hx.
  apply in_seq in Hx. apply povmt_row_ok; auto. lia. Qed.
Theorem povmt_forward d para sd m (states : list lvec) (scheds : list nat) (v : rvec F) : (0 < d)%nat ->
  (forall i, In i scheds -> length (nth i states []) = (d * d)%nat) ->
  affine (calc_matA (povmt_coeffs F para sd m states scheds)) (calc_vecB (povmt_coeffs F para sd m states scheds)) v
  = concat (map (fun i => povmt_born F d para sd m (nth i states []) v) scheds).
Proof. intros Hd H. unfold povmt_coeffs. apply forward_generic. unfold povmt_per_schedule. rewrite map_map.
  apply map_ext_in. intros i Hi. apply povmt_rows_ok; auto. Qed.

(* ------------------------------------------------------------------ QMPT *)
Lemma born_mv_ext d (pv sv : rvec F) (H H' : rmat F) :
  (forall a b, (a < d * d)%nat -> (b < d * d)%nat -> H a b = H' a b) ->
  born d pv (mv (d * d) H sv) = born d pv (mv (d * d) H' sv).
Proof. intros E. unfold born, dot, mv. apply sumn_ext; intros a Ha. f_equal. apply sumn_ext; intros b Hb. now rewrite E. Qed.
Lemma flat_map_nil {A B} (l : list A) : flat_map (fun _ => @nil B) l = [].
Proof. induction l; [reflexivity|exact IHl]. Qed.
(* a row of a diagonal block: the outer-product row placed at block x *)
Lemma qmpt_row_plain d (pv s : lvec) (v : rvec F) x post : length pv = (d * d)%nat -> length s = (d * d)%nat ->
  dotl (zeros (x * (d * d * (d * d))) ++ outer_flat F pv s ++ zeros post) v
  = born d (vl pv) (mv (d * d) (fun a b => v (x * (d * d * (d * d)) + a * (d * d) + b)%nat) (vl s)).
Proof. intros Hp Hs. rewrite dotl_pad, (outer_row_born d pv s _ Hp Hs). apply born_mv_ext. intros a b _ _. f_equal. lia. Qed.
(* the row of the last instrument element under the equality constraint *)
Lemma qmpt_row_last d k (pv s : lvec) (v : rvec F) : (0 < d)%nat -> length pv = (d * d)%nat -> length s = (d * d)%nat ->
  dotl (tile (map (copp F) (firstn (d * d)%nat (outer_flat F pv s)) ++ zeros ((d * d * (d * d) - d * d)%nat)) k
        ++ skipn (d * d)%nat (outer_flat F pv s)) v
  + nth O (firstn (d * d)%nat (outer_flat F pv s)) 0
  = born d (vl pv) (mv (d * d)%nat
      (fun a b => match a with
                  | O => (if (b =? O)%nat then 1 else 0) - sumn k (fun x' => v (x' * ((d * d)%nat * (d * d)%nat) + b)%nat)
                  | S a' => v (k * ((d * d)%nat * (d * d)%nat) + (a' * (d * d)%nat + b))%nat
                  end) (vl s)).
Proof. intros Hd Hp Hs. assert (Hn : (0 < (d * d)%nat)%nat) by nia.
  set (c := outer_flat F pv s). assert (Hc : length c = ((d * d)%nat * (d * d)%nat)%nat) by (unfold c; rewrite length_outer_flat, Hp, Hs; reflexivity).
  set (D := map (copp F) (firstn (d * d)%nat c) ++ zeros ((d * d * (d * d) - d * d)%nat)).
  assert (HD : length D = ((d * d)%nat * (d * d)%nat)%nat). { unfold D. rewrite app_length, map_length, firstn_length, length_zeros, Hc. nia. }
  assert (Hcb : forall b, (b < (d * d)%nat)%nat -> nth b c 0 = nth O pv 0 * nth b s 0).
  { intros b Hb. unfold c. replace b with (O * length s + b)%nat at 1 by reflexivity. apply nth_outer_flat. now rewrite Hs. }
  rewrite dotl_app, length_tile, HD.
  rewrite <- (outer_row_born_tail d pv s (fun i => v (k * ((d * d)%nat * (d * d)%nat) + i)%nat)
       (fun b => (if (b =? O)%nat then 1 else 0) - sumn k (fun x' => v (x' * ((d * d)%nat * (d * d)%nat) + b)%nat)) Hp Hs).
  fold c.
  (* remaining: tile part + c[0] = p_0 * sum_b top_b s_b *)
  rewrite nth_firstn_lt by exact Hn. rewrite (Hcb O Hn).
  rewrite dotl_tile, HD.
  rewrite (sumn_ext k _ (fun x' => - (nth O pv 0 * sumn (d * d)%nat (fun b => v (x' * ((d * d)%nat * (d * d)%nat) + b)%nat * nth b s 0)))).
  2:{ intros x' _. unfold D. rewrite dotl_app, dotl_zeros, add0r.
      rewrite (dotl_ext_nth _ _ (d * d)%nat (fun b => - (nth O pv 0 * nth b s 0))).
      2:{ rewrite map_length, firstn_length, Hc. nia. }
      2:{ intros b Hb. rewrite nth_map0 by ring. rewrite nth_firstn_lt by exact Hb. now rewrite Hcb. }
      rewrite <- sumn_scale_l, <- sumn_opp. apply sumn_ext; intros b _. ring. }
  rewrite sumn_opp, sumn_scale_l.
  rewrite (sumn_ext (d * d)%nat (fun b => _ * nth b s 0)
             (fun b => (if (b =? O)%nat then 1 else 0) * nth b s 0 - sumn k (fun x' => v (x' * ((d * d)%nat * (d * d)%nat) + b)%nat * nth b s 0))).
  2:{ intros b _. rewrite sumn_scale_r. ring. }
  rewrite sumn_sub, sumn_unit_row by exact Hn. rewrite (sumn_swap (d * d)%nat k). ring. Qed.

Lemma block_diag_pos k (rows : list lvec) : (0 < k)%nat ->
  block_diag F k rows = flat_map (fun x => map (fun r => zeros (x * row_width F rows)%nat ++ r ++ zeros ((k - 1 - x) * row_width F rows)%nat) rows) (seq O k).
Proof. destruct k; [lia|reflexivity]. Qed.
Lemma length_block_diag k (rows : list lvec) : (0 < k)%nat -> length (block_diag F k rows) = (k * length rows)%nat.
Proof. intros Hk. rewrite block_diag_pos by exact Hk. rewrite (length_flat_map_const _ _ (length rows)).
  - now rewrite seq_length.
  - intros x _. apply map_length. Qed.
Lemma qmpt_rows_ok d (para : bool) m (s : lvec) (povm : list lvec) : (0 < d)%nat -> length s = (d * d)%nat ->
  (forall pv, In pv povm -> length pv = (d * d)%nat) -> ((if para then 2 else 1) <= m)%nat ->
  exists rows, qmpt_rows F para (d * d) m s povm = Some rows /\ forall v : rvec F, eval_rows rows v = qmpt_born F d para m s povm v.
Proof. intros Hd Hs Hp Hm. destruct povm as [|pv0 povm'].
  { (* a POVM without elements: no rows *)
    unfold qmpt_rows, cqpt_to_cqmpt. cbn [qpt_c_rows map]. destruct para.
    - rewrite (block_diag_pos (m - 1)) by lia. cbn [map]. rewrite flat_map_nil. cbn. eexists; split; [reflexivity|].
      intros v. unfold qmpt_born, born_gate, born_povm_state. cbn [map]. now rewrite flat_map_nil.
    - rewrite (block_diag_pos m) by lia. cbn [map]. rewrite flat_map_nil. cbn. eexists; split; [reflexivity|].
      intros v. unfold qmpt_born, born_gate, born_povm_state. cbn [map]. now rewrite flat_map_nil. }
  set (povm := pv0 :: povm') in *. set (cq := qpt_c_rows F s povm).
  assert (Hw : row_width F cq = (d * d * (d * d))%nat).
  { unfold cq, povm. cbn [qpt_c_rows map row_width]. rewrite length_outer_flat, Hs, (Hp pv0) by (now left). reflexivity. }
  assert (Hlen : length cq = length povm) by (unfold cq, qpt_c_rows; apply map_length).
  unfold qmpt_rows, cqpt_to_cqmpt. fold cq. destruct para.
  - (* equality constraint: m - 1 full blocks, then the last element *)
    rewrite Hw. set (k := (m - 1)%nat). assert (Hk : (0 < k)%nat) by (unfold k; lia).
    rewrite !map_map, map2_map_map. cbn [fst snd].
    set (a0 := map (fun r => r ++ zeros (d * d * (d * d) - d * d)) (block_diag F k cq)).
    assert (Hla0 : length a0 = (@length (list F) cq * k)%nat).
    { unfold a0. rewrite map_length, length_block_diag by exact Hk. apply Nat.mul_comm. }
    rewrite !app_length, !map_length, length_zeros, Hla0, Nat.leb_refl.
    eexists; split; [reflexivity|]. intros v.
    rewrite combine_app_eq by (now rewrite length_zeros). rewrite <- Hla0, combine_zeros, combine_map_map.
    unfold eval_rows. rewrite map_app, !map_map. cbn [fst snd].
    unfold qmpt_born. replace m with (S k) by (unfold k; lia). rewrite seq_S, flat_map_app. cbn [flat_map Nat.add]. rewrite app_nil_r.
    f_equal.
    + unfold a0. rewrite map_map, block_diag_pos, map_flat_map by exact Hk. rewrite Hw. apply flat_map_ext_in. intros x Hx. apply in_seq in Hx.
      unfold born_gate, born_povm_state, cq, qpt_c_rows. rewrite !map_map. apply map_ext_in. intros pv Hpv.
      rewrite dotl_app, dotl_zeros, !add0r. rewrite (qmpt_row_plain d pv s v x) by auto.
      apply born_mv_ext. intros a b _ _. unfold hss_of_var. cbn [andb].
      assert ((x =? S k - 1)%nat = false) as -> by (apply Nat.eqb_neq; lia). reflexivity.
    + unfold born_gate, born_povm_state, cq, qpt_c_rows. rewrite !map_map. apply map_ext_in. intros pv Hpv.
      rewrite (qmpt_row_last d k pv s v) by auto.
      apply born_mv_ext. intros a b _ _. unfold hss_of_var. cbn [andb].
      replace (S k - 1)%nat with k by lia. rewrite Nat.eqb_refl. destruct a; [reflexivity|]. f_equal. lia.
  - (* no constraint: m diagonal blocks, zero offsets *)
    cbn [fst snd]. rewrite length_zeros, Nat.leb_refl. eexists; split; [reflexivity|]. intros v.
    rewrite combine_zeros. unfold eval_rows. rewrite map_map. cbn [fst snd].
    rewrite block_diag_pos, map_flat_map by lia. rewrite Hw. unfold qmpt_born. apply flat_map_ext_in. intros x Hx.
    unfold born_gate, born_povm_state, cq, qpt_c_rows. rewrite !map_map. apply map_ext_in. intros pv Hpv.
    rewrite add0r. rewrite (qmpt_row_plain d pv s v x) by auto. reflexivity. Qed.

Theorem qmpt_forward d (para : bool) m (states : list lvec) (povms : list (list lvec)) (scheds : list (nat * nat)) :
  (0 < d)%nat -> ((if para then 2 else 1) <= m)%nat ->
  (forall ik, In ik scheds -> length (nth (fst ik) states []) = (d * d)%nat /\
                              forall pv, In pv (nth (snd ik) povms []) -> length pv = (d * d)%nat) ->
  exists dct, qmpt_coeffs F para (d * d) m states povms scheds = Some dct /\
    forall v : rvec F, affine (calc_matA dct) (calc_vecB dct) v
      = concat (map (fun ik => qmpt_born F d para m (nth (fst ik) states []) (nth (snd ik) povms []) v) scheds).
Proof. intros Hd Hm H. unfold qmpt_coeffs, qmpt_per_schedule.
  assert (E : exists ps, all_some (map (fun ik => qmpt_rows F para (d * d) m (nth (fst ik) states []) (nth (snd ik) povms [])) scheds) = Some ps /\
            forall v : rvec F, map (fun rows => eval_rows rows v) ps
                    = map (fun ik => qmpt_born F d para m (nth (fst ik) states []) (nth (snd ik) povms []) v) scheds).
  { induction scheds as [|ik scheds IH]. { exists []. split; reflexivity. }
    destruct (H ik (or_introl eq_refl)) as [H1 H2].
    destruct (qmpt_rows_ok d para m (nth (fst ik) states []) (nth (snd ik) povms []) Hd H1 H2 Hm) as [rows [E1 E2]].
    destruct IH as [ps [E3 E4]]. { intros ik' Hik'. apply H. now right. }
    exists (rows :: ps). cbn [map all_some]. rewrite E1, E3. split; [reflexivity|]. intros v. now rewrite E2, E4. }
  destruct E as [ps [E1 E2]]. rewrite E1. exists (build_dict ps). split; [reflexivity|]. intros v. apply forward_generic. apply E2. Qed.

(* ------------------------------------------------------------------ shape of A and b *)
Lemma cols_generic (ps : list (list coeff)) nv :
  (forall rows, In rows ps -> forall r, In r rows -> length (fst r) = nv) ->
  Forall (fun r => length r = nv) (calc_matA (build_dict ps)).
Proof. intros H. rewrite calc_matA_build. apply Forall_forall. intros r Hr. apply in_map_iff in Hr. destruct Hr as [c [<- Hc]].
  apply in_concat in Hc. destruct Hc as [rows [H1 H2]]. now apply (H rows). Qed.
Lemma rows_generic (ps : list (list coeff)) :
  length (calc_matA (build_dict ps)) = natsum (map (@length coeff) ps) /\
  length (calc_vecB (build_dict ps)) = natsum (map (@length coeff) ps).
Proof. rewrite calc_matA_build, calc_vecB_build, !map_length. split; apply length_concat_counts. Qed.

Theorem qst_shape d para sd (povms : list (list lvec)) (scheds : list nat) :
  (forall i, In i scheds -> forall pv, In pv (nth i povms []) -> length pv = (d * d)%nat) ->
  let dct := qst_coeffs F para sd povms scheds in
  Forall (fun r => length r = qst_num_variables para d) (calc_matA dct) /\
  length (calc_matA dct) = natsum (qst_counts F povms scheds) /\ length (calc_vecB dct) = natsum (qst_counts F povms scheds).
Proof. intros H dct. unfold dct, qst_coeffs. split.
  - apply cols_generic. intros rows Hrows r Hr. unfold qst_per_schedule in Hrows. apply in_map_iff in Hrows.
    destruct Hrows as [i [<- Hi]]. unfold qst_rows in Hr. apply in_map_iff in Hr. destruct Hr as [pv [<- Hpv]].
    specialize (H i Hi pv Hpv). destruct para; cbn [fst qst_num_variables]; [|exact H]. destruct pv; cbn in *; lia.
  - replace (qst_counts F povms scheds) with (map (@length coeff) (qst_per_schedule F para sd povms scheds)).
    + apply rows_generic.
    + unfold qst_per_schedule, qst_counts, qst_rows. rewrite map_map. apply map_ext. intros i. apply map_length. Qed.

Theorem povmt_shape d para sd m (states : list lvec) (scheds : list nat) :
  (forall i, In i scheds -> length (nth i states []) = (d * d)%nat) ->
  let dct := povmt_coeffs F para sd m states scheds in
  Forall (fun r => length r = povmt_num_variables para d m) (calc_matA dct) /\
  length (calc_matA dct) = (length scheds * m)%nat /\ length (calc_vecB dct) = (length scheds * m)%nat.
Proof. intros H dct. unfold dct, povmt_coeffs. split.
  - apply cols_generic. intros rows Hrows r Hr. unfold povmt_per_schedule in Hrows. apply in_map_iff in Hrows.
    destruct Hrows as [i [<- Hi]]. unfold povmt_rows in Hr. apply in_map_iff in Hr. destruct Hr as [x [<- Hx]]. apply in_seq in Hx.
    specialize (H i Hi). destruct para; cbn [povmt_num_variables].
    + apply length_povmt_row_para; [exact H|lia].
    + unfold povmt_row. cbn [fst]. rewrite H. apply length_povmt_c; [exact H|lia].
  - assert (E : natsum (map (@length coeff) (povmt_per_schedule F para sd m states scheds)) = (length scheds * m)%nat).
    { unfold povmt_per_schedule. rewrite map_map. induction scheds as [|i t IH]; [reflexivity|]. cbn [map natsum fold_right length].
      fold (natsum (map (fun x => length (povmt_rows F para sd m (nth x states []))) t)). rewrite IH by (intros; apply H; now right).
      unfold povmt_rows. rewrite map_length, seq_length. lia. }
    rewrite <- E. apply rows_generic. Qed.

Theorem qpt_shape d para (states : list lvec) (povms : list (list lvec)) (scheds : list (nat * nat)) :
  (forall ik, In ik scheds -> length (nth (fst ik) states []) = (d * d)%nat /\
                              forall pv, In pv (nth (snd ik) povms []) -> length pv = (d * d)%nat) ->
  let dct := qpt_coeffs F para states povms scheds in
  Forall (fun r => length r = qpt_num_variables para d) (calc_matA dct) /\
  length (calc_matA dct) = natsum (qpt_counts F povms scheds) /\ length (calc_vecB dct) = natsum (qpt_counts F povms scheds).
Proof. intros H dct. unfold dct, qpt_coeffs. split.
  - apply cols_generic. intros rows Hrows r Hr. unfold qpt_per_schedule in Hrows. apply in_map_iff in Hrows.
    destruct Hrows as [ik [<- Hik]]. unfold qpt_rows, qpt_c_rows in Hr. rewrite map_map in Hr. apply in_map_iff in Hr.
    destruct Hr as [pv [<- Hpv]]. destruct (H ik Hik) as [H1 H2]. specialize (H2 pv Hpv).
    destruct para; cbn [fst qpt_num_variables].
    + rewrite skipn_length, length_outer_flat, H1, H2. reflexivity.
    + rewrite length_outer_flat, H1, H2. reflexivity.
  - replace (qpt_counts F povms scheds) with (map (@length coeff) (qpt_per_schedule F para states povms scheds)).
    + apply rows_generic.
    + unfold qpt_per_schedule, qpt_counts, qpt_rows, qpt_c_rows. rewrite map_map. apply map_ext. intros ik. now rewrite !map_length. Qed.

(* "restricted to schedule j, outcome x": position offset_j + x of a concatenation *)
Theorem restrict_to_schedule (l : list F) (borns : list (list F)) j x :
  l = concat borns -> (j < length borns)%nat -> (x < length (nth j borns []))%nat ->
  nth (offset (map (@length F) borns) j + x) l 0 = nth x (nth j borns []) 0.
Proof. intros -> Hj Hx. now apply nth_concat_offset. Qed.
Lemma nth_affine (A : list lvec) (b : list F) (v : rvec F) i : (i < length A)%nat -> (i < length b)%nat ->
  nth i (affine A b v) 0 = dotl (nth i A []) v + nth i b 0.
Proof. intros HA Hb. unfold affine. exact (nth_map2 (fun (r : lvec) (c : F) => dotl r v + c) [] 0 0 A b i HA Hb). Qed.

(* ------------------------------------------------------------------ the ensemble path of compose(povm, mprocess, state) *)
Lemma ensemble_path_ok d sd (pv : lvec) (HS : rmat F) (s : lvec) :
  sd * mv (d * d) HS (vl s) O <> 0 ->
  ensemble_path F d sd pv HS s = born d (vl pv) (mv (d * d) HS (vl s)).
Proof. intros Hp. unfold ensemble_path, born, dot. cbv zeta. rewrite <- sumn_scale_l. apply sumn_ext; intros i _. field.
  split; intros E; apply Hp; rewrite E; ring. Qed.

(* ------------------------------------------------------------------ calc_prob_dists *)
Lemma trunc_norm_valid eps (p : list F) : valid_dist F eps p -> trunc_norm F eps p = p.
Proof. intros [H1 H2]. unfold trunc_norm.
  assert (E : map (fun x => if kleb F eps x then x else 0) p = p).
  { rewrite <- (map_id p) at 2. apply map_ext_in. intros x Hx. destruct (kleb F eps x) eqn:E; [reflexivity|].
    destruct (H1 x Hx) as [->|Hle]; [reflexivity|]. apply k_leb in Hle. congruence. }
  rewrite E, H2. rewrite <- (map_id p) at 2. apply map_ext. intros x. field. apply one_neq_zero. Qed.
Lemma chunk_concat w : forall (ls : list (list F)), (forall l, In l ls -> length l = w) -> chunk F w (length ls) (concat ls) = ls.
Proof. induction ls as [|l ls IH]; intros H; [reflexivity|]. cbn [length chunk concat].
  assert (Hl : length l = w) by (apply H; now left).
  rewrite firstn_app, <- Hl, firstn_all, Nat.sub_diag, firstn_O, app_nil_r. f_equal.
  rewrite skipn_app, skipn_all, Nat.sub_diag. cbn [skipn app]. rewrite Hl. apply IH. intros; apply H; now right. Qed.
Lemma length_concat_const w (ls : list (list F)) : (forall l, In l ls -> length l = w) -> length (concat ls) = (length ls * w)%nat.
Proof. induction ls as [|l ls IH]; intros H; [reflexivity|]. cbn. rewrite app_length, IH by (intros; apply H; now right).
  rewrite (H l) by (now left). lia. Qed.
(* ---- np.split at the cumulative outcome counts *)
Lemma split_np_counts : forall (counts : list nat) (l : list F), counts <> [] -> length l = natsum counts ->
  split_np F counts l = split_counts F counts l.
Proof. induction counts as [|c t IH]; intros l Hne Hl; [congruence|]. destruct t as [|c' t'].
  - cbn [split_np split_counts]. cbn in Hl. rewrite firstn_all2 by lia. reflexivity.
  - change (split_np F (c :: c' :: t') l) with (firstn c l :: split_np F (c' :: t') (skipn c l)).
    cbn [split_counts]. f_equal. apply IH; [discriminate|]. rewrite skipn_length, Hl. cbn [natsum fold_right]. lia. Qed.
Lemma split_counts_concat : forall (ls : list (list F)), split_counts F (map (@length F) ls) (concat ls) = ls.
Proof. induction ls as [|l ls IH]; [reflexivity|]. cbn [map split_counts concat].
  rewrite firstn_app, firstn_all, Nat.sub_diag, firstn_O, app_nil_r. f_equal.
  rewrite skipn_app, skipn_all, Nat.sub_diag. cbn [skipn app]. exact IH. Qed.
Lemma map_trunc_norm_valid eps (borns : list (list F)) : (forall p, In p borns -> valid_dist F eps p) -> map (trunc_norm F eps) borns = borns.
Proof. intros H. rewrite <- (map_id borns) at 2. apply map_ext_in. intros p Hp. apply trunc_norm_valid. now apply H. Qed.

(* calc_prob_dists (after fix calc-prob-dists-mixed-outcome-counts) returns the schedules' distributions, whatever the
   outcome counts are: [counts] = the lengths of the schedules' distributions, equal or not *)
Theorem calc_prob_dists_ok eps (A : list lvec) (b : list F) (v : rvec F) (borns : list (list F)) :
  affine A b v = concat borns -> borns <> [] -> (forall p, In p borns -> valid_dist F eps p) ->
  calc_prob_dists F eps A b v (map (@length F) borns) = borns.
Proof. intros E Hne Hval. unfold calc_prob_dists. rewrite E, split_np_counts.
  - rewrite split_counts_concat. now apply map_trunc_norm_valid.
  - destruct borns; [congruence|discriminate].
  - apply length_concat_counts. Qed.
(* without the validity hypothesis: every returned row is truncate_and_normalize of the schedule's own Born vector *)
Theorem calc_prob_dists_rows eps (A : list lvec) (b : list F) (v : rvec F) (borns : list (list F)) :
  affine A b v = concat borns -> borns <> [] ->
  calc_prob_dists F eps A b v (map (@length F) borns) = map (trunc_norm F eps) borns.
Proof. intros E Hne. unfold calc_prob_dists. rewrite E, split_np_counts.
  - now rewrite split_counts_concat.
  - destruct borns; [congruence|discriminate].
  - apply length_concat_counts. Qed.

(* ---- the code before the fix: reshape((num_schedules, -1)) *)
(* all schedules have the same number of outcomes: the reshape returned the schedules' distributions *)
Theorem calc_prob_dists_reshape_equal_counts eps (A : list lvec) (b : list F) (v : rvec F) (borns : list (list F)) w :
  affine A b v = concat borns -> borns <> [] -> (0 < w)%nat -> (forall p, In p borns -> length p = w) ->
  (forall p, In p borns -> valid_dist F eps p) ->
  calc_prob_dists_reshape F eps A b v (length borns) = Some borns.
Proof. intros E Hne Hw Hlen Hval. unfold calc_prob_dists_reshape. rewrite E, (length_concat_const w) by exact Hlen.
  destruct (length borns) as [|S'] eqn:ES. { destruct borns; [congruence|discriminate]. }
  rewrite (Nat.mul_comm (S S') w), Nat.mod_mul by lia. cbn [Nat.eqb]. rewrite Nat.div_mul by lia. rewrite <- ES, chunk_concat by exact Hlen.
  f_equal. rewrite <- (map_id borns) at 2. apply map_ext_in. intros p Hp. apply trunc_norm_valid. now apply Hval. Qed.
(* the repair does not change any result the old code computed for equal outcome counts (no validity hypothesis) *)
Lemma chunk_split_counts w : forall k (l : list F), chunk F w k l = split_counts F (repeat w k) l.
Proof. induction k as [|k IH]; intros l; [reflexivity|]. cbn [chunk repeat split_counts]. now rewrite IH. Qed.
Lemma natsum_repeat w k : natsum (repeat w k) = (k * w)%nat.
Proof. induction k as [|k IH]; [reflexivity|]. cbn [repeat natsum fold_right]. fold (natsum (repeat w k)). rewrite IH. lia. Qed.
Theorem calc_prob_dists_compat eps (A : list lvec) (b : list F) (v : rvec F) S w :
  (0 < S)%nat -> (0 < w)%nat -> length (affine A b v) = (S * w)%nat ->
  calc_prob_dists_reshape F eps A b v S = Some (calc_prob_dists F eps A b v (repeat w S)).
Proof. intros HS Hw Hl. unfold calc_prob_dists_reshape, calc_prob_dists. rewrite Hl.
  destruct S as [|S']; [lia|]. rewrite (Nat.mul_comm (S S') w), Nat.mod_mul by lia. cbn [Nat.eqb]. rewrite Nat.div_mul by lia.
  rewrite chunk_split_counts, split_np_counts; [reflexivity|discriminate|]. rewrite natsum_repeat. exact Hl. Qed.

(* ---- calc_fisher_matrix's slice (after fix calc-fisher-matrix-mixed-outcome-counts) *)
Lemma map2_skipn {A B D} (f : A -> B -> D) : forall k (a : list A) (b : list B), map2 f (skipn k a) (skipn k b) = skipn k (map2 f a b).
Proof. induction k as [|k IH]; intros a b; [reflexivity|]. destruct a as [|x a]; [now destruct b|].
  destruct b as [|y b]; [cbn [skipn map2]; now destruct (skipn k a)|]. cbn [skipn map2]. apply IH. Qed.
Lemma map2_firstn {A B D} (f : A -> B -> D) : forall k (a : list A) (b : list B), map2 f (firstn k a) (firstn k b) = firstn k (map2 f a b).
Proof. induction k as [|k IH]; intros a b; [reflexivity|]. destruct a as [|x a]; [reflexivity|].
  destruct b as [|y b]; [reflexivity|]. cbn [firstn map2]. now rewrite IH. Qed.
Lemma affine_slice (A : list lvec) (b : list F) (v : rvec F) s c :
  affine (firstn c (skipn s A)) (firstn c (skipn s b)) v = firstn c (skipn s (affine A b v)).
Proof. unfold affine. now rewrite map2_firstn, map2_skipn. Qed.
Lemma slice_concat : forall (ls : list (list F)) j, (j < length ls)%nat ->
  firstn (length (nth j ls [])) (skipn (offset (map (@length F) ls) j) (concat ls)) = nth j ls [].
Proof. induction ls as [|l ls IH]; intros j Hj; [cbn in Hj; lia|]. destruct j as [|j].
  - cbn [nth map offset firstn natsum fold_right skipn concat]. now rewrite firstn_app, firstn_all, Nat.sub_diag, firstn_O, app_nil_r.
  - cbn [nth map offset firstn natsum fold_right concat]. fold (natsum (firstn j (map (@length F) ls))).
    rewrite skipn_app, (skipn_all2 l) by lia. cbn [app].
    replace (length l + natsum (firstn j (map (@length F) ls)) - length l)%nat with (offset (map (@length F) ls) j) by (unfold offset; lia).
    apply IH. cbn in Hj. lia. Qed.
Theorem fisher_slice_ok (A : list lvec) (b : list F) (v : rvec F) (borns : list (list F)) j :
  affine A b v = concat borns -> (j < length borns)%nat ->
  fisher_prob_dist F A b v (map (@length F) borns) j = nth j borns [].
Proof. intros E Hj. unfold fisher_prob_dist. cbv zeta. rewrite affine_slice, E.
  change O with (@length F []). rewrite map_nth. now apply slice_concat. Qed.
(* compatibility: with equal outcome counts the old slice [size*j, size*(j+1)) is the same slice *)
Lemma offset_repeat w k j : (j <= k)%nat -> offset (repeat w k) j = (w * j)%nat.
Proof. revert k. induction j as [|j IH]; intros k H; [unfold offset; cbn; lia|]. destruct k as [|k]; [lia|].
  unfold offset in *. cbn [repeat firstn natsum fold_right]. fold (natsum (firstn j (repeat w k))). rewrite IH by lia. lia. Qed.
Theorem fisher_slice_compat (A : list lvec) (b : list F) (v : rvec F) S w j :
  (0 < S)%nat -> length A = (S * w)%nat -> (j < S)%nat ->
  fisher_prob_dist_evenslice F A b v S j = fisher_prob_dist F A b v (repeat w S) j.
Proof. intros HS Hl Hj. unfold fisher_prob_dist_evenslice, fisher_prob_dist. cbv zeta.
  rewrite Hl, (Nat.mul_comm S w), Nat.div_mul by lia. rewrite offset_repeat by lia.
  rewrite (nth_indep _ O w) by (rewrite repeat_length; exact Hj). now rewrite nth_repeat. Qed.

(* ---- the outcome counts (num_outcomes(j)) are the lengths of the schedules' Born distributions *)
Lemma qst_counts_born d para sd (povms : list (list lvec)) (scheds : list nat) (v : rvec F) :
  map (@length F) (map (fun i => qst_born F d para sd (nth i povms []) v) scheds) = qst_counts F povms scheds.
Proof. unfold qst_counts. rewrite map_map. apply map_ext. intros i. unfold qst_born, born_povm_state. apply map_length. Qed.
Lemma povmt_counts_born d para sd m (states : list lvec) (scheds : list nat) (v : rvec F) :
  map (@length F) (map (fun i => povmt_born F d para sd m (nth i states []) v) scheds) = povmt_counts m scheds.
Proof. unfold povmt_counts. rewrite map_map. apply map_ext. intros i. unfold povmt_born. now rewrite map_length, seq_length. Qed.
Lemma qpt_counts_born d para (states : list lvec) (povms : list (list lvec)) (scheds : list (nat * nat)) (v : rvec F) :
  map (@length F) (map (fun ik => qpt_born F d para (nth (fst ik) states []) (nth (snd ik) povms []) v) scheds) = qpt_counts F povms scheds.
Proof. unfold qpt_counts. rewrite map_map. apply map_ext. intros ik. unfold qpt_born, born_gate, born_povm_state. apply map_length. Qed.
Lemma qmpt_counts_born d para m (states : list lvec) (povms : list (list lvec)) (scheds : list (nat * nat)) (v : rvec F) :
  map (@length F) (map (fun ik => qmpt_born F d para m (nth (fst ik) states []) (nth (snd ik) povms []) v) scheds) = qmpt_counts F m povms scheds.
Proof. unfold qmpt_counts. rewrite map_map. apply map_ext. intros ik. unfold qmpt_born.
  rewrite (length_flat_map_const _ _ (length (nth (snd ik) povms []))).
  - now rewrite seq_length.
  - intros x _. unfold born_gate, born_povm_state. apply map_length. Qed.

(* ---- end to end, per tomography type: calc_prob_dists / the Fisher slice computed from the stacked coefficient dictionary with
   counts = num_outcomes are the Born distributions of the schedules' circuits -- any outcome counts, equal or mixed *)
Theorem qst_calc_prob_dists d para sd eps (povms : list (list lvec)) (scheds : list nat) (v : rvec F) : sd <> 0 -> scheds <> [] ->
  (forall i, In i scheds -> forall pv, In pv (nth i povms []) -> length pv = (d * d)%nat) ->
  (forall i, In i scheds -> valid_dist F eps (qst_born F d para sd (nth i povms []) v)) ->
  let dct := qst_coeffs F para sd povms scheds in
  calc_prob_dists F eps (calc_matA dct) (calc_vecB dct) v (qst_counts F povms scheds)
  = map (fun i => qst_born F d para sd (nth i povms []) v) scheds.
Proof. intros Hsd Hne Hwf Hval dct. rewrite <- (qst_counts_born d para sd povms scheds v). apply calc_prob_dists_ok.
  - now apply qst_forward.
  - destruct scheds; [congruence|discriminate].
  - intros p Hp. apply in_map_iff in Hp. destruct Hp as [i [<- Hi]]. now apply Hval. Qed.
Theorem qst_fisher_slice d para sd (povms : list (list lvec)) (scheds : list nat) (v : rvec F) j : sd <> 0 -> (j < length scheds)%nat ->
  (forall i, In i scheds -> forall pv, In pv (nth i povms []) -> length pv = (d * d)%nat) ->
  let dct := qst_coeffs F para sd povms scheds in
  fisher_prob_dist F (calc_matA dct) (calc_vecB dct) v (qst_counts F povms scheds) j
  = qst_born F d para sd (nth (nth j scheds O) povms []) v.
Proof. intros Hsd Hj Hwf dct. rewrite <- (qst_counts_born d para sd povms scheds v).
  rewrite (fisher_slice_ok _ _ v (map (fun i => qst_born F d para sd (nth i povms []) v) scheds) j).
  - rewrite (nth_map_lt _ _ O []) by exact Hj. reflexivity.
  - now apply qst_forward.
  - now rewrite map_length. Qed.
Theorem povmt_calc_prob_dists d para sd eps m (states : list lvec) (scheds : list nat) (v : rvec F) : (0 < d)%nat -> scheds <> [] ->
  (forall i, In i scheds -> length (nth i states []) = (d * d)%nat) ->
  (forall i, In i scheds -> valid_dist F eps (povmt_born F d para sd m (nth i states []) v)) ->
  let dct := povmt_coeffs F para sd m states scheds in
  calc_prob_dists F eps (calc_matA dct) (calc_vecB dct) v (povmt_counts m scheds)
  = map (fun i => povmt_born F d para sd m (nth i states []) v) scheds.
Proof. intros Hd Hne Hwf Hval dct. rewrite <- (povmt_counts_born d para sd m states scheds v). apply calc_prob_dists_ok.
  - now apply povmt_forward.
  - destruct scheds; [congruence|discriminate].
  - intros p Hp. apply in_map_iff in Hp. destruct Hp as [i [<- Hi]]. now apply Hval. Qed.
Theorem qpt_calc_prob_dists d para eps (states : list lvec) (povms : list (list lvec)) (scheds : list (nat * nat)) (v : rvec F) :
  (0 < d)%nat -> scheds <> [] ->
  (forall ik, In ik scheds -> length (nth (fst ik) states []) = (d * d)%nat /\
                              forall pv, In pv (nth (snd ik) povms []) -> length pv = (d * d)%nat) ->
  (forall ik, In ik scheds -> valid_dist F eps (qpt_born F d para (nth (fst ik) states []) (nth (snd ik) povms []) v)) ->
  let dct := qpt_coeffs F para states povms scheds in
  calc_prob_dists F eps (calc_matA dct) (calc_vecB dct) v (qpt_counts F povms scheds)
  = map (fun ik => qpt_born F d para (nth (fst ik) states []) (nth (snd ik) povms []) v) scheds.
Proof. intros Hd Hne Hwf Hval dct. rewrite <- (qpt_counts_born d para states povms scheds v). apply calc_prob_dists_ok.
  - now apply qpt_forward.
  - destruct scheds; [congruence|discriminate].
  - intros p Hp. apply in_map_iff in Hp. destruct Hp as [ik [<- Hik]]. now apply Hval. Qed.
Theorem qpt_fisher_slice d para (states : list lvec) (povms : list (list lvec)) (scheds : list (nat * nat)) (v : rvec F) j :
  (0 < d)%nat -> (j < length scheds)%nat ->
  (forall ik, In ik scheds -> length (nth (fst ik) states []) = (d * d)%nat /\
                              forall pv, In pv (nth (snd ik) povms []) -> length pv = (d * d)%nat) ->
  let dct := qpt_coeffs F para states povms scheds in
  fisher_prob_dist F (calc_matA dct) (calc_vecB dct) v (qpt_counts F povms scheds) j
  = qpt_born F d para (nth (fst (nth j scheds (O, O))) states []) (nth (snd (nth j scheds (O, O))) povms []) v.
Proof. intros Hd Hj Hwf dct. rewrite <- (qpt_counts_born d para states povms scheds v).
  rewrite (fisher_slice_ok _ _ v (map (fun ik => qpt_born F d para (nth (fst ik) states []) (nth (snd ik) povms []) v) scheds) j).
  - rewrite (nth_map_lt _ _ (O, O) []) by exact Hj. reflexivity.
  - now apply qpt_forward.
  - now rewrite map_length. Qed.
Theorem qmpt_calc_prob_dists d (para : bool) eps m (states : list lvec) (povms : list (list lvec)) (scheds : list (nat * nat)) :
  (0 < d)%nat -> ((if para then 2 else 1) <= m)%nat -> scheds <> [] ->
  (forall ik, In ik scheds -> length (nth (fst ik) states []) = (d * d)%nat /\
                              forall pv, In pv (nth (snd ik) povms []) -> length pv = (d * d)%nat) ->
  exists dct, qmpt_coeffs F para (d * d) m states povms scheds = Some dct /\
    forall v : rvec F,
      (forall ik, In ik scheds -> valid_dist F eps (qmpt_born F d para m (nth (fst ik) states []) (nth (snd ik) povms []) v)) ->
      calc_prob_dists F eps (calc_matA dct) (calc_vecB dct) v (qmpt_counts F m povms scheds)
      = map (fun ik => qmpt_born F d para m (nth (fst ik) states []) (nth (snd ik) povms []) v) scheds.
Proof. intros Hd Hm Hne Hwf. destruct (qmpt_forward d para m states povms scheds Hd Hm Hwf) as [dct [E1 E2]].
  exists dct. split; [exact E1|]. intros v Hval. rewrite <- (qmpt_counts_born d para m states povms scheds v). apply calc_prob_dists_ok.
  - apply E2.
  - destruct scheds; [congruence|discriminate].
  - intros p Hp. apply in_map_iff in Hp. destruct Hp as [ik [<- Hik]]. now apply Hval. Qed.

(* ------------------------------------------------------------------ exact decision of full column rank *)
Lemma dotl_cons (a : F) (r : lvec) (v : rvec F) : dotl (a :: r) v = a * v O + dotl r (fun i => v (S i)).
Proof. unfold dotl. cbn [length]. rewrite sumn_S_first. reflexivity. Qed.
Lemma dotl_hd_tl n (r : lvec) (v : rvec F) : length r = S n -> dotl r v = hd 0 r * v O + dotl (tl r) (fun i => v (S i)).
Proof. destruct r as [|a r]; [discriminate|]. intros _. apply dotl_cons. Qed.
Lemma dotl_vsubs c (r p : lvec) (w : rvec F) : length r = length p -> dotl (vsubs F c r p) w = dotl r w - c * dotl p w.
Proof. intros H. unfold vsubs.
  rewrite (dotl_ext_nth _ w (length r) (fun i => nth i r 0 - c * nth i p 0)).
  2:{ rewrite length_map2, <- H. apply Nat.min_id. }
  2:{ intros i Hi. apply (nth_map2 (fun x y => x - c * y) 0 0 0); [exact Hi|now rewrite <- H]. }
  unfold dotl. rewrite <- H, <- sumn_scale_l, <- sumn_sub. apply sumn_ext; intros i _. ring. Qed.
Lemma length_vsubs c (r p : lvec) : length (vsubs F c r p) = Nat.min (length r) (length p).
Proof. apply length_map2. Qed.
Lemma find_pivot_none : forall rows, find_pivot F rows = None -> forall r, In r rows -> hd 0 r = 0.
Proof. induction rows as [|r0 rows IH]; intros E r Hr; [destruct Hr|]. cbn [find_pivot] in E.
  destruct (keqb F (hd 0 r0) 0) eqn:E0; [|discriminate].
  destruct (find_pivot F rows) as [[p rest]|] eqn:E1; [discriminate|].
  destruct Hr as [<-|Hr]; [now apply keqb_spec|]. now apply IH. Qed.
Lemma find_pivot_some : forall rows p rest, find_pivot F rows = Some (p, rest) ->
  hd 0 p <> 0 /\ forall r, In r rows <-> r = p \/ In r rest.
Proof. induction rows as [|r0 rows IH]; intros p rest E; [discriminate|]. cbn [find_pivot] in E.
  destruct (keqb F (hd 0 r0) 0) eqn:E0.
  - destruct (find_pivot F rows) as [[p' rest']|] eqn:E1; [|discriminate]. injection E as <- <-.
    destruct (IH p' rest' eq_refl) as [H1 H2]. split; [exact H1|]. intros r. cbn [In]. rewrite H2. intuition congruence.
  - injection E as <- <-. split.
    + intros H. apply (proj2 (keqb_spec F _ _)) in H. congruence.
    + intros r. cbn [In]. intuition congruence. Qed.
Lemma rank_elim_le : forall n rows, (rank_elim F n rows <= n)%nat.
Proof. induction n as [|n IH]; intros rows; [apply Nat.le_refl|]. cbn [rank_elim].
  destruct (find_pivot F rows) as [[p rest]|].
  - apply le_n_S, IH.
  - apply Nat.le_trans with n; [apply IH|lia]. Qed.
Definition wf_rows (n : nat) (rows : list lvec) : Prop := forall r, In r rows -> length r = n.
Lemma wf_elim n p (rest : list lvec) : length p = S n -> wf_rows (S n) rest ->
  wf_rows n (map (fun r => vsubs F (hd 0 r / hd 0 p) (tl r) (tl p)) rest).
Proof. intros Hp H r Hr. apply in_map_iff in Hr. destruct Hr as [r' [<- Hr']]. rewrite length_vsubs.
  specialize (H r' Hr'). destruct r'; [discriminate|]. destruct p; [discriminate|]. cbn in *. lia. Qed.
(* the eliminated row against the tail of a vector *)
Lemma elim_row n (p r : lvec) (v : rvec F) : length p = S n -> length r = S n -> hd 0 p <> 0 ->
  dotl (vsubs F (hd 0 r / hd 0 p) (tl r) (tl p)) (fun i => v (S i)) = dotl r v - (hd 0 r / hd 0 p) * dotl p v.
Proof. intros Hp Hr Ha. rewrite dotl_vsubs. 2:{ destruct r; [discriminate|]. destruct p; [discriminate|]. cbn in *. lia. }
  rewrite (dotl_hd_tl n r v Hr), (dotl_hd_tl n p v Hp). field. exact Ha. Qed.
Lemma rank_full_kernel : forall n rows, wf_rows n rows -> rank_elim F n rows = n -> kernel_trivial F n rows.
Proof. induction n as [|n IH]; intros rows Hwf E v Hv i Hi; [lia|]. cbn [rank_elim] in E.
  destruct (find_pivot F rows) as [[p rest]|] eqn:Ep.
  2:{ pose proof (rank_elim_le n (map (@tl F) rows)). lia. }
  destruct (find_pivot_some rows p rest Ep) as [Ha Hin].
  assert (Hp : length p = S n) by (apply Hwf, Hin; now left).
  assert (Hrest : wf_rows (S n) rest) by (intros r Hr; apply Hwf, Hin; now right).
  injection E as E.
  assert (Htail : forall k, (k < n)%nat -> v (S k) = 0).
  { apply (IH _ (wf_elim n p rest Hp Hrest) E (fun k => v (S k))). intros r' Hr'. apply in_map_iff in Hr'.
    destruct Hr' as [r [<- Hr]]. rewrite (elim_row n p r v Hp (Hrest r Hr) Ha).
    rewrite (Hv r) by (apply Hin; now right). rewrite (Hv p) by (apply Hin; now left). ring. }
  destruct i as [|k]; [|apply Htail; lia].
  pose proof (Hv p (proj2 (Hin p) (or_introl eq_refl))) as Hpv. rewrite (dotl_hd_tl n p v Hp) in Hpv.
  assert (Hz : dotl (tl p) (fun i => v (S i)) = 0).
  { apply sumn_zero'. intros k Hk. rewrite Htail; [ring|]. destruct p; [discriminate|]. cbn in *. lia. }
  rewrite Hz in Hpv. replace (v O) with ((hd 0 p * v O + 0) / hd 0 p) by (field; exact Ha). rewrite Hpv. field. exact Ha. Qed.
Lemma rank_deficient_kernel : forall n rows, wf_rows n rows -> (rank_elim F n rows < n)%nat ->
  exists v : rvec F, (forall r, In r rows -> dotl r v = 0) /\ exists i, (i < n)%nat /\ v i <> 0.
Proof. induction n as [|n IH]; intros rows Hwf E; [lia|]. cbn [rank_elim] in E.
  destruct (find_pivot F rows) as [[p rest]|] eqn:Ep.
  - destruct (find_pivot_some rows p rest Ep) as [Ha Hin].
    assert (Hp : length p = S n) by (apply Hwf, Hin; now left).
    assert (Hrest : wf_rows (S n) rest) by (intros r Hr; apply Hwf, Hin; now right).
    destruct (IH _ (wf_elim n p rest Hp Hrest)) as [w [Hw [i [Hi Hwi]]]]; [lia|].
    set (v := fun k => match k with O => - (dotl (tl p) w / hd 0 p) | S k' => w k' end).
    assert (Hpv : dotl p v = 0). { rewrite (dotl_hd_tl n p v Hp). unfold v at 1. change (fun i0 => v (S i0)) with w. field. exact Ha. }
    exists v. split.
    + intros r Hr. apply Hin in Hr. destruct Hr as [->|Hr]; [exact Hpv|].
      pose proof (Hw _ (in_map _ rest r Hr)) as Hz. cbv beta in Hz.
      pose proof (elim_row n p r v Hp (Hrest r Hr) Ha) as Hel. change (fun i0 => v (S i0)) with w in Hel.
      rewrite Hz, Hpv in Hel. replace (dotl r v) with (dotl r v - hd 0 r / hd 0 p * 0) by (field; exact Ha). now symmetry.
    + exists (S i). split; [lia|exact Hwi].
  - (* the first column vanishes: e_0 is in the kernel *)
    exists (fun k => match k with O => 1 | S _ => 0 end). split.
    + intros r Hr. rewrite (dotl_hd_tl n r _ (Hwf r Hr)), (find_pivot_none rows Ep r Hr).
      unfold dotl. rewrite (sumn_zero' (length (tl r))); [ring|]. intros k _. ring.
    + exists O. split; [lia|apply one_neq_zero]. Qed.
Theorem fullcolrank_dec_spec n (A : list lvec) : wf_rows n A -> (fullcolrank_dec F n A = true <-> kernel_trivial F n A).
Proof. intros Hwf. unfold fullcolrank_dec. rewrite Nat.eqb_eq. split.
  - now apply rank_full_kernel.
  - intros Hk. pose proof (rank_elim_le n A) as Hle. destruct (Nat.eq_dec (rank_elim F n A) n) as [E|E]; [exact E|].
    destruct (rank_deficient_kernel n A Hwf) as [v [Hv [i [Hi Hvi]]]]; [lia|]. exfalso. apply Hvi. now apply (Hk v Hv). Qed.

(* ------------------------------------------------------------------ full column rank <=> the unknown is identified by the statistics *)
Lemma affine_eq_rows : forall (A : list lvec) (b : list F) (v v' : rvec F), length A = length b ->
  (affine A b v = affine A b v' <-> forall r, In r A -> dotl r v = dotl r v').
Proof. induction A as [|r A IH]; intros b v v' Hl. { split; [intros _ r []|reflexivity]. }
  destruct b as [|c b]; [discriminate|]. cbn [affine map2]. fold (affine A b v). fold (affine A b v'). split.
  - intros E. injection E as E1 E2. intros r' [<-|Hr'].
    + replace (dotl r v) with (dotl r v + c - c) by ring. rewrite E1. ring.
    + apply (proj1 (IH b v v' ltac:(cbn in Hl; lia)) E2). exact Hr'.
  - intros H. f_equal; [now rewrite (H r (or_introl eq_refl))|]. apply IH; [cbn in Hl; lia|]. intros r' Hr'. apply H. now right. Qed.
Lemma dotl_sub (r : lvec) (v v' : rvec F) : dotl r (fun i => v i - v' i) = dotl r v - dotl r v'.
Proof. unfold dotl. rewrite <- sumn_sub. apply sumn_ext; intros i _. ring. Qed.
Theorem fullrank_iff_identifiable n (A : list lvec) (b : list F) (stat : rvec F -> list F) :
  length A = length b -> (forall v, affine A b v = stat v) ->
  (kernel_trivial F n A <-> identifiable F n stat).
Proof. intros Hl Hst. unfold identifiable. split.
  - intros Hk v v' E i Hi. rewrite <- !Hst in E. pose proof (proj1 (affine_eq_rows A b v v' Hl) E) as E'. clear E. rename E' into E.
    assert (Hz : (fun k => v k - v' k) i = 0).
    { apply (Hk (fun k => v k - v' k)); [|exact Hi]. intros r Hr. rewrite dotl_sub, (E r Hr). ring. }
    cbv beta in Hz. replace (v i) with (v i - v' i + v' i) by ring. rewrite Hz. ring.
  - intros Hid v Hv i Hi. apply (Hid v (fun _ => 0)); [|exact Hi]. rewrite <- !Hst. apply (proj2 (affine_eq_rows A b _ _ Hl)).
    intros r Hr. rewrite (Hv r Hr). unfold dotl. symmetry. apply sumn_zero'. intros k _. ring. Qed.

(* QST without the equality constraint: the rows of A are the scheduled effects, so full column rank <=> they separate *)
Lemma qst_matA_nopara sd (povms : list (list lvec)) (scheds : list nat) :
  calc_matA (qst_coeffs F false sd povms scheds) = concat (map (fun i => nth i povms []) scheds).
Proof. unfold qst_coeffs. rewrite calc_matA_build. unfold qst_per_schedule. rewrite concat_map, map_map. f_equal.
  apply map_ext. intros i. unfold qst_rows. rewrite map_map. cbn [fst]. apply map_id. Qed.
Lemma separating_iff_kernel n (effects : list lvec) : wf_rows n effects -> (separating F n effects <-> kernel_trivial F n effects).
Proof. intros Hwf. split.
  - intros Hs v Hv i Hi. apply (Hs v (fun _ => 0)); [|exact Hi]. intros e He. rewrite <- (Hwf e He). change (dot (length e) (vl e) v) with (dotl e v).
    rewrite (Hv e He). symmetry. apply sumn_zero'. intros k _. ring.
  - intros Hk s s' H i Hi. assert (Hz : (fun k => s k - s' k) i = 0).
    { apply (Hk (fun k => s k - s' k)); [|exact Hi]. intros e He. rewrite dotl_sub. specialize (H e He). rewrite <- (Hwf e He) in H.
      change (dot (length e) (vl e) s) with (dotl e s) in H. change (dot (length e) (vl e) s') with (dotl e s') in H. rewrite H. ring. }
    cbv beta in Hz. replace (s i) with (s i - s' i + s' i) by ring. rewrite Hz. ring. Qed.
Theorem separating_dec_spec n (effects : list lvec) : wf_rows n effects -> (fullcolrank_dec F n effects = true <-> separating F n effects).
Proof. intros H. rewrite (fullcolrank_dec_spec n effects H). symmetry. exact (separating_iff_kernel n effects H). Qed.
Theorem qst_fullrank_iff_ic d sd (povms : list (list lvec)) (scheds : list nat) :
  (forall i, In i scheds -> forall pv, In pv (nth i povms []) -> length pv = (d * d)%nat) ->
  (kernel_trivial F (d * d) (calc_matA (qst_coeffs F false sd povms scheds))
   <-> separating F (d * d) (concat (map (fun i => nth i povms []) scheds))).
Proof. intros H. rewrite qst_matA_nopara. symmetry. apply separating_iff_kernel. intros e He. apply in_concat in He.
  destruct He as [povm [H1 H2]]. apply in_map_iff in H1. destruct H1 as [i [<- Hi]]. now apply (H i). Qed.

(* ------------------------------------------------------------------ informationally complete testers => full column rank
   (the direction the property states), all four tomography types, both flags. Route: full column rank <=> the variables are
   identified by the schedules' Born statistics (above); equal statistics on separating testers force equal objects; the
   object determines the variables (layout of object_of_var). *)
Lemma app_eq_len {A} : forall (a a' b b' : list A), length a = length a' -> a ++ b = a' ++ b' -> a = a' /\ b = b'.
Proof. induction a as [|x a IH]; intros a' b b' Hl E; destruct a' as [|x' a']; cbn in Hl; try lia.
  - now split.
  - cbn in E. injection E as -> E. destruct (IH a' b b' ltac:(lia) E) as [-> ->]. now split. Qed.
Lemma concat_map_inj {A B} (f g : A -> list B) : forall l, (forall x, In x l -> length (f x) = length (g x)) ->
  concat (map f l) = concat (map g l) -> forall x, In x l -> f x = g x.
Proof. induction l as [|y l IH]; intros Hl E x Hx; [destruct Hx|]. cbn [map concat] in E.
  destruct (app_eq_len _ _ _ _ (Hl y (or_introl eq_refl)) E) as [E1 E2].
  destruct Hx as [<-|Hx]; [exact E1|]. apply IH; auto. intros; apply Hl; now right. Qed.
Lemma map_eq_in {A B} (f g : A -> B) : forall l, map f l = map g l -> forall x, In x l -> f x = g x.
Proof. induction l as [|y l IH]; intros E x Hx; [destruct Hx|]. cbn in E. injection E as E1 E2. destruct Hx as [<-|Hx]; auto. Qed.
Lemma length_AB_build (ps : list (list coeff)) : length (calc_matA (build_dict ps)) = length (calc_vecB (build_dict ps)).
Proof. destruct (rows_generic ps) as [H1 H2]. now rewrite H1, H2. Qed.
(* index decoding  k = (k / n) * n + k mod n *)
Lemma div_mod_pos k n : (0 < n)%nat -> k = ((k / n) * n + k mod n)%nat /\ (k mod n < n)%nat.
Proof. intros Hn. split; [|apply Nat.mod_upper_bound; lia]. rewrite (Nat.mul_comm (k / n) n). apply Nat.div_mod. lia. Qed.

Theorem qst_fullrank_of_ic d para sd (povms : list (list lvec)) (scheds : list nat) : sd <> 0 ->
  (forall i, In i scheds -> forall pv, In pv (nth i povms []) -> length pv = (d * d)%nat) ->
  separating F (d * d) (concat (map (fun i => nth i povms []) scheds)) ->
  kernel_trivial F (qst_num_variables para d) (calc_matA (qst_coeffs F para sd povms scheds)).
Proof. intros Hsd Hwf Hsep.
  apply (proj2 (fullrank_iff_identifiable (qst_num_variables para d) _ (calc_vecB (qst_coeffs F para sd povms scheds))
          (fun v => concat (map (fun i => qst_born F d para sd (nth i povms []) v) scheds))
          (length_AB_build _) (fun v => qst_forward d para sd povms scheds v Hsd Hwf))).
  intros v v' E k Hk.
  assert (Hs : forall i, (i < d * d)%nat -> state_of_var F para sd v i = state_of_var F para sd v' i).
  { apply Hsep. intros e He. apply in_concat in He. destruct He as [povm [H1 H2]]. apply in_map_iff in H1. destruct H1 as [i [<- Hi]].
    assert (E1 : qst_born F d para sd (nth i povms []) v = qst_born F d para sd (nth i povms []) v').
    { apply (concat_map_inj (fun i => qst_born F d para sd (nth i povms []) v) (fun i => qst_born F d para sd (nth i povms []) v') scheds);
        [|exact E|exact Hi]. intros x _. unfold qst_born, born_povm_state. now rewrite !map_length. }
    exact (map_eq_in _ _ _ E1 e H2). }
  destruct para; cbn [qst_num_variables] in Hk.
  - apply (Hs (S k)). lia.
  - apply (Hs k Hk). Qed.

Theorem povmt_fullrank_of_ic d para sd m (states : list lvec) (scheds : list nat) : (0 < d)%nat ->
  (forall i, In i scheds -> length (nth i states []) = (d * d)%nat) ->
  separating F (d * d) (map (fun i => nth i states []) scheds) ->
  kernel_trivial F (povmt_num_variables para d m) (calc_matA (povmt_coeffs F para sd m states scheds)).
Proof. intros Hd Hwf Hsep. assert (Hn : (0 < d * d)%nat) by (apply Nat.mul_pos_pos; exact Hd).
  apply (proj2 (fullrank_iff_identifiable (povmt_num_variables para d m) _ (calc_vecB (povmt_coeffs F para sd m states scheds))
          (fun v => concat (map (fun i => povmt_born F d para sd m (nth i states []) v) scheds))
          (length_AB_build _) (fun v => povmt_forward d para sd m states scheds v Hd Hwf))).
  intros v v' E k Hk. remember (d * d)%nat as n eqn:En.
  assert (Hp : forall x, (x < m)%nat -> forall j, (j < n)%nat -> povm_of_var F para sd n m v x j = povm_of_var F para sd n m v' x j).
  { intros x Hx. apply Hsep. intros e He. apply in_map_iff in He. destruct He as [i [<- Hi]].
    assert (E1 : povmt_born F d para sd m (nth i states []) v = povmt_born F d para sd m (nth i states []) v').
    { apply (concat_map_inj (fun i => povmt_born F d para sd m (nth i states []) v) (fun i => povmt_born F d para sd m (nth i states []) v') scheds);
        [|exact E|exact Hi]. intros y _. unfold povmt_born. now rewrite !map_length. }
    unfold povmt_born in E1. rewrite <- En in E1. pose proof (map_eq_in _ _ _ E1 x (proj2 (in_seq m O x) ltac:(lia))) as E2.
    unfold born in E2. rewrite <- En in E2. rewrite (dot_comm n (vl _)), (dot_comm n (vl _) (povm_of_var F para sd n m v' x)). exact E2. }
  destruct (div_mod_pos k n Hn) as [Ek Hr]. set (x := (k / n)%nat) in *. set (j := (k mod n)%nat) in *.
  destruct para; cbn [povmt_num_variables] in Hk; rewrite <- En in Hk.
  - assert (Hx : (x < m - 1)%nat) by (apply Nat.div_lt_upper_bound; [lia|]; rewrite Nat.mul_comm; exact Hk).
    specialize (Hp x ltac:(lia) j Hr). unfold povm_of_var in Hp. cbn [andb] in Hp.
    assert ((x =? m - 1)%nat = false) as Hf by (apply Nat.eqb_neq; lia). rewrite Hf in Hp. rewrite Ek. exact Hp.
  - assert (Hx : (x < m)%nat) by (apply Nat.div_lt_upper_bound; [lia|]; rewrite Nat.mul_comm; exact Hk).
    specialize (Hp x Hx j Hr). unfold povm_of_var in Hp. cbn [andb] in Hp. rewrite Ek. exact Hp. Qed.

(* equal Born statistics with a gate, on separating effects and separating states, force equal HS matrices *)
Lemma born_gate_separates d (I K : list nat) (states : list lvec) (povms : list (list lvec)) (H H' : rmat F) :
  separating F (d * d) (map (fun i => nth i states []) I) ->
  separating F (d * d) (concat (map (fun k => nth k povms []) K)) ->
  (forall i k, In i I -> In k K -> born_gate F d (nth k povms []) H (nth i states []) = born_gate F d (nth k povms []) H' (nth i states [])) ->
  forall a b, (a < d * d)%nat -> (b < d * d)%nat -> H a b = H' a b.
Proof. intros Hst Heff E a b Ha Hb. revert b Hb. apply Hst. intros s Hs. apply in_map_iff in Hs. destruct Hs as [i [<- Hi]].
  rewrite (dot_comm _ (vl _)), (dot_comm _ (vl _) (H' a)).
  change (mv (d * d) H (vl (nth i states [])) a = mv (d * d) H' (vl (nth i states [])) a).
  revert a Ha. apply Heff. intros e He. apply in_concat in He. destruct He as [povm [H1 H2]]. apply in_map_iff in H1. destruct H1 as [k [<- Hk]].
  specialize (E i k Hi Hk). unfold born_gate, born_povm_state in E. exact (map_eq_in _ _ _ E e H2). Qed.

Theorem qpt_fullrank_of_ic d para (I K : list nat) (states : list lvec) (povms : list (list lvec)) (scheds : list (nat * nat)) : (0 < d)%nat ->
  (forall ik, In ik scheds -> length (nth (fst ik) states []) = (d * d)%nat /\
                              forall pv, In pv (nth (snd ik) povms []) -> length pv = (d * d)%nat) ->
  (forall i k, In i I -> In k K -> In (i, k) scheds) ->
  separating F (d * d) (map (fun i => nth i states []) I) ->
  separating F (d * d) (concat (map (fun k => nth k povms []) K)) ->
  kernel_trivial F (qpt_num_variables para d) (calc_matA (qpt_coeffs F para states povms scheds)).
Proof. intros Hd Hwf Hprod Hst Heff. assert (Hn : (0 < d * d)%nat) by (apply Nat.mul_pos_pos; exact Hd).
  apply (proj2 (fullrank_iff_identifiable (qpt_num_variables para d) _ (calc_vecB (qpt_coeffs F para states povms scheds))
          (fun v => concat (map (fun ik => qpt_born F d para (nth (fst ik) states []) (nth (snd ik) povms []) v) scheds))
          (length_AB_build _) (fun v => qpt_forward d para states povms scheds v Hd Hwf))).
  intros v v' E idx Hidx.
  assert (HH : forall a b, (a < d * d)%nat -> (b < d * d)%nat -> hs_of_var F para (d * d) v a b = hs_of_var F para (d * d) v' a b).
  { apply (born_gate_separates d I K states povms _ _ Hst Heff). intros i k Hi Hk.
    apply (concat_map_inj (fun ik => qpt_born F d para (nth (fst ik) states []) (nth (snd ik) povms []) v)
                          (fun ik => qpt_born F d para (nth (fst ik) states []) (nth (snd ik) povms []) v') scheds
             (fun x _ => ltac:(unfold qpt_born, born_gate, born_povm_state; now rewrite !map_length)) E (i, k) (Hprod i k Hi Hk)). }
  remember (d * d)%nat as n eqn:En.
  destruct (div_mod_pos idx n Hn) as [Ek Hr]. set (a := (idx / n)%nat) in *. set (b := (idx mod n)%nat) in *.
  destruct para; cbn [qpt_num_variables] in Hidx; rewrite <- En in Hidx.
  - assert (Ha : (a < n - 1)%nat).
    { apply Nat.div_lt_upper_bound; [lia|]. rewrite Nat.mul_sub_distr_l, Nat.mul_1_r. exact Hidx. }
    specialize (HH (S a) b ltac:(lia) Hr). cbn [hs_of_var] in HH. rewrite Ek. exact HH.
  - assert (Ha : (a < n)%nat) by (apply Nat.div_lt_upper_bound; [lia|exact Hidx]).
    specialize (HH a b Ha Hr). cbn [hs_of_var] in HH. rewrite Ek. exact HH. Qed.

Theorem qmpt_fullrank_of_ic d (para : bool) m (I K : list nat) (states : list lvec) (povms : list (list lvec)) (scheds : list (nat * nat)) :
  (0 < d)%nat -> ((if para then 2 else 1) <= m)%nat ->
  (forall ik, In ik scheds -> length (nth (fst ik) states []) = (d * d)%nat /\
                              forall pv, In pv (nth (snd ik) povms []) -> length pv = (d * d)%nat) ->
  (forall i k, In i I -> In k K -> In (i, k) scheds) ->
  separating F (d * d) (map (fun i => nth i states []) I) ->
  separating F (d * d) (concat (map (fun k => nth k povms []) K)) ->
  exists dct, qmpt_coeffs F para (d * d) m states povms scheds = Some dct /\
              kernel_trivial F (qmpt_num_variables para d m) (calc_matA dct).
Proof. intros Hd Hm Hwf Hprod Hst Heff. assert (Hn : (0 < d * d)%nat) by (apply Nat.mul_pos_pos; exact Hd).
  destruct (qmpt_forward d para m states povms scheds Hd Hm Hwf) as [dct [E1 E2]]. exists dct. split; [exact E1|].
  assert (Hlen : length (calc_matA dct) = length (calc_vecB dct)).
  { unfold qmpt_coeffs in E1. destruct (qmpt_per_schedule F para (d * d) m states povms scheds) as [ps|]; [|discriminate].
    injection E1 as <-. apply length_AB_build. }
  apply (proj2 (fullrank_iff_identifiable (qmpt_num_variables para d m) _ (calc_vecB dct)
          (fun v => concat (map (fun ik => qmpt_born F d para m (nth (fst ik) states []) (nth (snd ik) povms []) v) scheds)) Hlen E2)).
  intros v v' E idx Hidx.
  assert (HH : forall x, (x < m)%nat -> forall a b, (a < d * d)%nat -> (b < d * d)%nat ->
               hss_of_var F para (d * d) m v x a b = hss_of_var F para (d * d) m v' x a b).
  { intros x Hx. apply (born_gate_separates d I K states povms _ _ Hst Heff). intros i k Hi Hk.
    assert (Eb : qmpt_born F d para m (nth i states []) (nth k povms []) v = qmpt_born F d para m (nth i states []) (nth k povms []) v').
    { assert (Hl : forall ik, In ik scheds ->
                length (qmpt_born F d para m (nth (fst ik) states []) (nth (snd ik) povms []) v)
                = length (qmpt_born F d para m (nth (fst ik) states []) (nth (snd ik) povms []) v')).
      { intros ik _. unfold qmpt_born.
        rewrite (length_flat_map_const _ _ (length (nth (snd ik) povms []))), (length_flat_map_const _ _ (length (nth (snd ik) povms [])));
          [reflexivity| |]; intros y _; unfold born_gate, born_povm_state; apply map_length. }
      exact (concat_map_inj (fun ik => qmpt_born F d para m (nth (fst ik) states []) (nth (snd ik) povms []) v)
                            (fun ik => qmpt_born F d para m (nth (fst ik) states []) (nth (snd ik) povms []) v') scheds Hl E (i, k) (Hprod i k Hi Hk)). }
    unfold qmpt_born in Eb. rewrite !flat_map_concat_map in Eb.
    apply (concat_map_inj (fun x0 => born_gate F d (nth k povms []) (hss_of_var F para (d * d) m v x0) (nth i states []))
                          (fun x0 => born_gate F d (nth k povms []) (hss_of_var F para (d * d) m v' x0) (nth i states [])) (seq O m));
      [|exact Eb|apply in_seq; lia].
    intros y _. unfold born_gate, born_povm_state. now rewrite !map_length. }
  remember (d * d)%nat as n eqn:En.
  assert (HN : (0 < n * n)%nat) by (apply Nat.mul_pos_pos; exact Hn).
  (* decode an index inside a block x < m whose rows a < n are all variables *)
  assert (Hblock : forall x i, (i < n * n)%nat -> exists a b, (a < n)%nat /\ (b < n)%nat /\ (x * (n * n) + i = x * (n * n) + a * n + b)%nat).
  { intros x i Hi. destruct (div_mod_pos i n Hn) as [Ei Hb]. exists (i / n)%nat, (i mod n)%nat. split; [|split; [exact Hb|lia]].
    apply Nat.div_lt_upper_bound; [lia|exact Hi]. }
  destruct para; cbn [qmpt_num_variables] in Hidx; rewrite <- En in Hidx.
  - (* equality constraint: blocks 0 .. m-2 in full, then rows 1 .. n-1 of the last block *)
    destruct m as [|k]; [lia|]. rewrite Nat.mul_succ_l in Hidx.
    destruct (Nat.lt_ge_cases idx (k * (n * n))) as [Hlo|Hhi].
    + destruct (div_mod_pos idx (n * n) HN) as [Ei Hr].
      assert (Hx : (idx / (n * n) < k)%nat) by (apply Nat.div_lt_upper_bound; [lia|]; rewrite Nat.mul_comm; exact Hlo).
      destruct (Hblock (idx / (n * n))%nat (idx mod (n * n))%nat Hr) as [a [b [Ha [Hb Eab]]]].
      specialize (HH (idx / (n * n))%nat ltac:(lia) a b Ha Hb). unfold hss_of_var in HH. cbn [andb] in HH.
      assert ((idx / (n * n) =? S k - 1)%nat = false) as Hf by (apply Nat.eqb_neq; lia). rewrite Hf in HH.
      rewrite Ei, Eab. exact HH.
    + set (r := (idx - k * (n * n))%nat). assert (Hr : (r < n * n - n)%nat) by (unfold r; lia).
      destruct (div_mod_pos r n Hn) as [Er Hb].
      assert (Ha : (r / n < n - 1)%nat).
      { apply Nat.div_lt_upper_bound; [lia|]. rewrite Nat.mul_sub_distr_l, Nat.mul_1_r. exact Hr. }
      specialize (HH k ltac:(lia) (S (r / n)) (r mod n)%nat ltac:(lia) Hb). unfold hss_of_var in HH. cbn [andb] in HH.
      replace (S k - 1)%nat with k in HH by lia. rewrite Nat.eqb_refl in HH.
      replace idx with (k * (n * n) + r / n * n + r mod n)%nat by (unfold r in *; lia). exact HH.
  - destruct (div_mod_pos idx (n * n) HN) as [Ei Hr].
    assert (Hx : (idx / (n * n) < m)%nat) by (apply Nat.div_lt_upper_bound; [lia|]; rewrite Nat.mul_comm; exact Hidx).
    destruct (Hblock (idx / (n * n))%nat (idx mod (n * n))%nat Hr) as [a [b [Ha [Hb Eab]]]].
    specialize (HH (idx / (n * n))%nat Hx a b Ha Hb). unfold hss_of_var in HH. cbn [andb] in HH.
    rewrite Ei, Eab. exact HH. Qed.

(* ------------------------------------------------------------------ is_fullrank_matA (after fix fullrank-guard-column-rank) *)
Theorem is_fullrank_matA_spec n (A : list lvec) : wf_rows n A -> (is_fullrank_matA F n A = true <-> kernel_trivial F n A).
Proof. exact (fullcolrank_dec_spec n A). Qed.
(* the old guard agrees with it on every matrix that is not wide *)
Theorem is_fullrank_matA_compat n (A : list lvec) : (n <= length A)%nat -> is_fullrank_matA_minshape F n A = is_fullrank_matA F n A.
Proof. intros H. unfold is_fullrank_matA_minshape, is_fullrank_matA, fullcolrank_dec. now rewrite Nat.min_r. Qed.
End C08Proofs.
