(* C06 — the threshold / normalisation layer of MProcess on State(Ensemble): what the code computes when no outcome is cut,
   normalisation of the post states with the repaired division, and its failure as coded.  Generic in the ordered field. *)
From Coq Require Import List Arith Bool Lia Ring Field ZArith.
From QV.Core Require Import OF Sums Mat.
From QV.Model Require Import QObj Multinomial C06_Compose.
Import ListNotations.

Section Coded.
Context (F : OF).
Add Field Ffc6 : (k_field F).
Notation "0" := (c0 F). Notation "1" := (c1 F).
Infix "+" := (cadd F). Infix "*" := (cmul F). Infix "-" := (csub F). Infix "/" := (kdiv F).
Notation RM := (rmat F). Notation RV := (rvec F).
Variables (n : nat) (sd : F) (ortho : bool) (ivec : RV).

Lemma keq0_spec x : keq0 F x = true <-> x = 0.
Proof. unfold keq0. rewrite andb_true_iff, !k_leb. split; [intros [A B]; now apply (k_antisym F)|intros ->; split; apply k_refl]. Qed.
Lemma keq0_zero : keq0 F 0 = true. Proof. now apply keq0_spec. Qed.

(* the post state times its probability is the un-normalised M_x(rho) *)
Lemma mps_post_spec (m : RV) (p : F) i : p <> 0 -> p * mps_post F m p i = m i.
Proof. intros Hp. unfold mps_post. destruct (keq0 F p) eqn:E; [apply keq0_spec in E; contradiction|]. field. exact Hp. Qed.
Lemma mps_post_zero (m : RV) i : mps_post F m 0 i = 0.
Proof. unfold mps_post. now rewrite keq0_zero. Qed.

(* no outcome cut: the distribution is the raw one, nothing is renormalised *)
Lemma mps_ps0_nocut eps w raw : forallb (fun p => negb (mps_cut F eps w p)) raw = true -> mps_ps0 F eps w raw = raw.
Proof. unfold mps_ps0. induction raw as [|p t IH]; cbn [forallb map]; [reflexivity|].
  rewrite andb_true_iff, negb_true_iff. intros [Hp Ht]. rewrite Hp, IH by exact Ht. reflexivity. Qed.
Lemma existsb_nocut eps w raw : forallb (fun p => negb (mps_cut F eps w p)) raw = true -> existsb (mps_cut F eps w) raw = false.
Proof. induction raw as [|p t IH]; cbn [forallb existsb]; [reflexivity|].
  rewrite andb_true_iff, negb_true_iff. intros [Hp Ht]. now rewrite Hp, IH. Qed.
Lemma mps_ps1_nocut eps w raw : forallb (fun p => negb (mps_cut F eps w p)) raw = true -> mps_ps1 F eps w raw = raw.
Proof. intros H. unfold mps_ps1. rewrite (existsb_nocut eps w raw H), (mps_ps0_nocut eps w raw H). reflexivity. Qed.

Lemma combine_map_self {A B} (f : A -> B) (l : list A) : combine l (map f l) = map (fun a => (a, f a)) l.
Proof. induction l; cbn; [reflexivity|]. now rewrite IHl. Qed.

(* MProcess on a state, no outcome cut (either variant of the division): outcome x gets the weight w * p_x and the post state M_x(rho)/p_x *)
Theorem mps_core_nocut fix_ps (hss : list RM) eps v w :
  forallb (fun H => negb (mps_cut F eps w (px_raw F n sd ortho ivec (mv n H v)))) hss = true ->
  mps_core F n sd ortho ivec fix_ps hss eps v w
  = (map (fun H => mps_post F (mv n H v) (px_raw F n sd ortho ivec (mv n H v))) hss,
     map (fun H => w * px_raw F n sd ortho ivec (mv n H v)) hss).
Proof. intros Hc. unfold mps_core.
  assert (Hc' : forallb (fun p => negb (mps_cut F eps w p)) (map (px_raw F n sd ortho ivec) (map (fun H => mv n H v) hss)) = true).
  { rewrite map_map. clear -Hc. induction hss as [|H t IH]; cbn [forallb map] in *; [reflexivity|].
    apply andb_true_iff in Hc as [A B]. now rewrite A, IH. }
  rewrite (mps_ps1_nocut _ _ _ Hc'), (mps_ps0_nocut _ _ _ Hc').
  replace (if fix_ps then map (px_raw F n sd ortho ivec) (map (fun H => mv n H v) hss) else map (px_raw F n sd ortho ivec) (map (fun H => mv n H v) hss))
    with (map (px_raw F n sd ortho ivec) (map (fun H => mv n H v) hss)) by (now destruct fix_ps).
  rewrite combine_map_self, !map_map. reflexivity. Qed.

(* with the repaired division every returned post state is either the zero vector (outcome cut) or has trace one
   ( sd * rho_0 = 1 ), whatever is cut *)
Definition normalised_or_zero (st : RV) : Prop := (forall i, st i = 0) \/ sd * st 0%nat = 1.
Theorem mps_core_fixed_normalised (hss : list RM) eps v w :
  Forall normalised_or_zero (fst (mps_core F n sd true ivec true hss eps v w)).
Proof. unfold mps_core. cbn [fst]. unfold mps_ps0. rewrite !map_map.
  induction hss as [|H t IH]; cbn [map combine]; constructor; [|exact IH].
  cbn [fst snd]. unfold px_raw.
  destruct (mps_cut F eps w (sd * mv n H v 0%nat)).
  - left. intros i. apply mps_post_zero.
  - unfold mps_post. destruct (keq0 F (sd * mv n H v 0%nat)) eqn:E; [left; reflexivity|].
    right. assert (Hp : sd * mv n H v 0%nat <> 0). { intros E0. apply keq0_spec in E0. congruence. }
    field. split; intros E0; apply Hp; rewrite E0; ring. Qed.

(* lists: fold_left sum of a two-element list *)
Lemma lsum2 a b : lsum F [a; b] = a + b. Proof. unfold lsum. cbn. ring. Qed.
End Coded.
