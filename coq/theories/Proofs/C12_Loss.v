(* C12 — proofs about the squared-error losses, the fast path and the weight configuration (any commutative
   ring / ordered field; axiom-free). *)
From Coq Require Import Ring Field Setoid Arith Lia Bool List.
From QV.Core Require Import OF Sums Mat.
From QV.Model Require Import C12_Loss.
Import ListNotations.

Section SE.
Context {R : CR}.
Add Ring Rse : (c_ring R).
Notation "0" := (c0 R). Notation "1" := (c1 R).
Infix "+" := (cadd R). Infix "*" := (cmul R). Infix "-" := (csub R). Notation "- x" := (copp R x).
Notation mat := (@mat R). Notation vec := (@vec R). Notation wts := (@wts R).

(* ---------- the bilinear form  wterm m W j a b  *)
Lemma wterm_ext m (W : wts) j (a a' b b' : vec) :
  (forall x, (x < m)%nat -> a x = a' x) -> (forall x, (x < m)%nat -> b x = b' x) ->
  wterm m W j a b = wterm m W j a' b'.
Proof. intros Ha Hb. destruct W as [w|]; cbn [wterm]; unfold abC, dot, mv.
  - apply sumn_ext; intros x Hx. rewrite Ha by assumption. f_equal.
    apply sumn_ext; intros y Hy. now rewrite Hb.
  - apply sumn_ext; intros x Hx. now rewrite Ha, Hb. Qed.
Lemma wterm_add_l m (W : wts) j (a a' b : vec) : wterm m W j (vadd a a') b = wterm m W j a b + wterm m W j a' b.
Proof. destruct W as [w|]; cbn [wterm]; unfold abC, dot, vadd; rewrite <- sumn_add; apply sumn_ext; intros; ring. Qed.
Lemma wterm_add_r m (W : wts) j (a b b' : vec) : wterm m W j a (vadd b b') = wterm m W j a b + wterm m W j a b'.
Proof. destruct W as [w|]; cbn [wterm]; unfold abC, dot; rewrite <- sumn_add; apply sumn_ext; intros x _.
  - rewrite mv_vadd. unfold vadd. ring.
  - unfold vadd. ring. Qed.
Lemma wterm_scale_l m (W : wts) j c (a b : vec) : wterm m W j (vscale c a) b = c * wterm m W j a b.
Proof. destruct W as [w|]; cbn [wterm]; unfold abC, dot, vscale; rewrite <- sumn_scale_l; apply sumn_ext; intros; ring. Qed.
Lemma wterm_scale_r m (W : wts) j c (a b : vec) : wterm m W j a (vscale c b) = c * wterm m W j a b.
Proof. destruct W as [w|]; cbn [wterm]; unfold abC, dot; rewrite <- sumn_scale_l; apply sumn_ext; intros x _.
  - rewrite mv_vscale. unfold vscale. ring.
  - unfold vscale. ring. Qed.
Lemma wterm_zero_l m (W : wts) j (a b : vec) : (forall x, (x < m)%nat -> a x = 0) -> wterm m W j a b = 0.
Proof. intros Ha. destruct W as [w|]; cbn [wterm]; unfold abC, dot; apply sumn_zero'; intros x Hx; rewrite Ha by assumption; ring. Qed.
Lemma wterm_zero_r m (W : wts) j (a b : vec) : (forall x, (x < m)%nat -> b x = 0) -> wterm m W j a b = 0.
Proof. intros Hb. destruct W as [w|]; cbn [wterm]; unfold abC, dot, mv; apply sumn_zero'; intros x Hx.
  - rewrite (sumn_zero' m) by (intros y Hy; rewrite Hb by assumption; ring). ring.
  - rewrite Hb by assumption. ring. Qed.
Lemma wterm_sum_l m (W : wts) j n (f : nat -> vec) (b : vec) :
  wterm m W j (fun x => sumn n (fun k => f k x)) b = sumn n (fun k => wterm m W j (f k) b).
Proof. induction n as [|n IH]; cbn [sumn].
  - apply wterm_zero_l. reflexivity.
  - change (fun x => sumn n (fun k => f k x) + f n x) with (vadd (fun x => sumn n (fun k => f k x)) (f n)).
    now rewrite wterm_add_l, IH. Qed.
Lemma wterm_sum_r m (W : wts) j n (a : vec) (f : nat -> vec) :
  wterm m W j a (fun x => sumn n (fun k => f k x)) = sumn n (fun k => wterm m W j a (f k)).
Proof. induction n as [|n IH]; cbn [sumn].
  - apply wterm_zero_r. reflexivity.
  - change (fun x => sumn n (fun k => f k x) + f n x) with (vadd (fun x => sumn n (fun k => f k x)) (f n)).
    now rewrite wterm_add_r, IH. Qed.
Lemma abC_sym m (a b : vec) (Cm : mat) : msym m Cm -> abC m a b Cm = abC m b a Cm.
Proof. intros Hs. unfold abC, dot, mv.
  rewrite (sumn_ext m _ (fun x => sumn m (fun y => a x * Cm x y * b y))).
  2:{ intros x _. rewrite <- sumn_scale_l. apply sumn_ext; intros; ring. }
  rewrite sumn_swap. apply sumn_ext; intros y Hy. rewrite <- sumn_scale_l.
  apply sumn_ext; intros x Hx. rewrite (Hs x y) by assumption. ring. Qed.
Lemma wterm_sym ns m (W : wts) j (a b : vec) : wsym ns m W -> (j < ns)%nat -> wterm m W j a b = wterm m W j b a.
Proof. intros Hs Hj. destruct W as [w|]; cbn [wterm].
  - apply abC_sym. now apply Hs.
  - apply dot_comm. Qed.

(* linearity in the direction h through the Jacobian *)
Lemma wterm_lin_l m (W : wts) j nv (A : mat) (h b : vec) :
  wterm m W j (blk m j (mv nv A h)) b = sumn nv (fun al => h al * wterm m W j (blk m j (col A al)) b).
Proof. rewrite (wterm_ext m W j _ (fun x => sumn nv (fun al => vscale (h al) (blk m j (col A al)) x)) b b).
  - rewrite wterm_sum_l. apply sumn_ext; intros al _. apply wterm_scale_l.
  - intros x _. unfold blk, mv, vscale, col. apply sumn_ext; intros; ring.
  - reflexivity. Qed.
Lemma wterm_lin_r m (W : wts) j nv (A : mat) (h a : vec) :
  wterm m W j a (blk m j (mv nv A h)) = sumn nv (fun al => h al * wterm m W j a (blk m j (col A al))).
Proof. rewrite (wterm_ext m W j a a _ (fun x => sumn nv (fun al => vscale (h al) (blk m j (col A al)) x))).
  - rewrite wterm_sum_r. apply sumn_ext; intros al _. apply wterm_scale_r.
  - reflexivity.
  - intros x _. unfold blk, mv, vscale, col. apply sumn_ext; intros; ring. Qed.

Lemma pv_vadd nv (A : mat) (b v h : vec) i : pv nv A b (vadd v h) i = pv nv A b v i + mv nv A h i.
Proof. unfold pv, vadd at 1. rewrite mv_vadd. unfold vadd. ring. Qed.

(* ---------- value = the defining formula *)
Lemma wterm_qfm m (W : wts) j (d : vec) : wterm m W j d d = qfm m (wmat W j) d.
Proof. destruct W as [w|]; cbn [wterm wmat]; unfold abC, dot, mv, qfm.
  - apply sumn_ext; intros x _. rewrite <- sumn_scale_l. apply sumn_ext; intros; ring.
  - apply sumn_ext; intros x Hx.
    rewrite (sumn_ext m _ (fun y => if Nat.eqb x y then d x * d y else 0)).
    2:{ intros y _. unfold mid. destruct (Nat.eqb x y); ring. }
    now rewrite (sumn_delta' m x (fun y => d x * d y) Hx). Qed.
Lemma se_value_is_spec ns m (W : wts) (p q : vec) : se_value_at ns m W p q = se_spec ns m W p q.
Proof. unfold se_value_at, se_spec. apply sumn_ext; intros j _. apply wterm_qfm. Qed.

(* ---------- exact second-order expansion *)
Section Taylor.
Variables (ns m nv : nat) (W : wts) (A : mat) (b q v h : vec).
Let D : vec := vsub (pv nv A b v) q.
Let S : vec := mv nv A h.
Let X : R := sumn ns (fun j => wterm m W j (blk m j S) (blk m j D)).
Let Y : R := sumn ns (fun j => wterm m W j (blk m j S) (blk m j S)).

Lemma blk_shift j x : blk m j (vsub (pv nv A b (vadd v h)) q) x = vadd (blk m j D) (blk m j S) x.
Proof. unfold blk. unfold vsub at 1. rewrite pv_vadd. unfold vadd, D, S, vsub. ring. Qed.

Lemma value_shift : wsym ns m W -> se_value ns m nv W A b q (vadd v h) = se_value ns m nv W A b q v + (X + X) + Y.
Proof. intros Hs. unfold se_value, se_value_at, X, Y. rewrite <- !sumn_add. apply sumn_ext; intros j Hj.
  rewrite (wterm_ext m W j _ (vadd (blk m j D) (blk m j S)) _ (vadd (blk m j D) (blk m j S)))
    by (intros; apply blk_shift).
  rewrite wterm_add_l, !wterm_add_r. rewrite (wterm_sym ns m W j (blk m j D) (blk m j S) Hs Hj).
  fold D. ring. Qed.

Lemma grad_dot : dot nv (se_grad ns m nv W A b q v) h = X + X.
Proof. unfold dot, se_grad, se_grad_at, se_grad_half_at, X. fold D.
  rewrite (sumn_ext ns _ (fun j => sumn nv (fun al => h al * wterm m W j (blk m j (col A al)) (blk m j D)))).
  2:{ intros j _. apply wterm_lin_l. }
  rewrite sumn_swap, <- sumn_add. apply sumn_ext; intros al _. rewrite sumn_scale_l. unfold two. ring. Qed.

Lemma hess_qfm : qfm nv (se_hess_half ns m nv W A b q v) h = Y.
Proof. unfold qfm, se_hess_half, se_hess_half_at, Y.
  rewrite (sumn_ext ns _ (fun j => sumn nv (fun al => sumn nv (fun be =>
            h al * wterm m W j (blk m j (col A al)) (blk m j (col A be)) * h be)))).
  2:{ intros j _. unfold S. rewrite wterm_lin_l. apply sumn_ext; intros al _. rewrite wterm_lin_r, <- sumn_scale_l.
      apply sumn_ext; intros; ring. }
  symmetry. rewrite sumn_swap. apply sumn_ext; intros al _. rewrite sumn_swap. apply sumn_ext; intros be _.
  rewrite <- sumn_scale_l, <- sumn_scale_r. apply sumn_ext; intros j _.
  rewrite (wterm_zero_l m W j (blk m j (hp0 al be))) by reflexivity. ring. Qed.

Lemma se_taylor : wsym ns m W ->
  se_value ns m nv W A b q (vadd v h)
  = se_value ns m nv W A b q v + dot nv (se_grad ns m nv W A b q v) h + qfm nv (se_hess_half ns m nv W A b q v) h.
Proof. intros Hs. rewrite value_shift, grad_dot, hess_qfm by assumption. ring. Qed.

(* the gradient is affine and its increment is the Hessian (no symmetry needed) *)
Lemma se_grad_shift al :
  se_grad ns m nv W A b q (vadd v h) al = se_grad ns m nv W A b q v al + mv nv (se_hess ns m nv W A b q v) h al.
Proof. unfold se_grad, se_grad_at, se_grad_half_at, mv, se_hess, se_hess_at, se_hess_half_at. fold D.
  rewrite (sumn_ext ns _ (fun j => wterm m W j (blk m j (col A al)) (blk m j D)
                                   + sumn nv (fun be => h be * wterm m W j (blk m j (col A al)) (blk m j (col A be))))).
  2:{ intros j _. rewrite (wterm_ext m W j _ (blk m j (col A al)) _ (vadd (blk m j D) (blk m j S)))
        by (intros; try reflexivity; apply blk_shift).
      rewrite wterm_add_r. unfold S. now rewrite wterm_lin_r. }
  rewrite sumn_add, sumn_swap.
  replace (sumn nv (fun be => two * sumn ns (fun j => wterm m W j (blk m j (col A al)) (blk m j (col A be))
                                                  + wterm m W j (blk m j (hp0 al be)) (blk m j D)) * h be))
     with (two * sumn nv (fun be => sumn ns (fun j => h be * wterm m W j (blk m j (col A al)) (blk m j (col A be))))).
  - ring.
  - rewrite <- sumn_scale_l. apply sumn_ext; intros be _. rewrite sumn_scale_l.
    rewrite (sumn_ext ns (fun j => wterm m W j (blk m j (col A al)) (blk m j (col A be)) + wterm m W j (blk m j (hp0 al be)) (blk m j D))
                         (fun j => wterm m W j (blk m j (col A al)) (blk m j (col A be)))).
    + ring.
    + intros j _. rewrite (wterm_zero_l m W j (blk m j (hp0 al be))) by reflexivity. ring. Qed.

Lemma se_hess_double al be : se_hess ns m nv W A b q v al be = se_hess_half ns m nv W A b q v al be + se_hess_half ns m nv W A b q v al be.
Proof. unfold se_hess, se_hess_at, se_hess_half, two. ring. Qed.

Lemma se_hess_sym : wsym ns m W -> msym nv (se_hess ns m nv W A b q v).
Proof. intros Hs al be _ _. unfold se_hess, se_hess_at, se_hess_half_at. f_equal. apply sumn_ext; intros j Hj.
  rewrite (wterm_sym ns m W j (blk m j (col A al)) (blk m j (col A be)) Hs Hj).
  rewrite !(wterm_zero_l m W j (blk m j (hp0 _ _))) by reflexivity. reflexivity. Qed.
End Taylor.

(* ---------- fast path = generic *)
Lemma mv_ext_of ns m (w : nat -> mat) (d : vec) j x : (j < ns)%nat -> (x < m)%nat ->
  mv (ns * m) (ext_of m w) d (j * m + x)%nat = mv m (w j) (blk m j d) x.
Proof. intros Hj Hx. unfold mv. rewrite sumn_flat.
  rewrite (sumn_ext ns _ (fun j' => if Nat.eqb j' j then sumn m (fun y => w j x y * blk m j d y) else 0)).
  - now rewrite (sumn_delta ns j (fun _ => sumn m (fun y => w j x y * blk m j d y)) Hj).
  - intros j' Hj'. destruct (Nat.eqb_spec j' j) as [->|Hne].
    + apply sumn_ext; intros y Hy. unfold ext_of, blk.
      destruct (divmod_flat j x m Hx) as [-> ->]. destruct (divmod_flat j y m Hy) as [-> ->].
      now rewrite Nat.eqb_refl.
    + apply sumn_zero'; intros y Hy. unfold ext_of.
      destruct (divmod_flat j x m Hx) as [-> _]. destruct (divmod_flat j' y m Hy) as [-> _].
      destruct (Nat.eqb_spec j j'); [congruence|ring]. Qed.

Definition ext_matches (N m : nat) (W : wts) (E : option mat) : Prop :=
  match W, E with
  | Some w, Some e => meq N N e (ext_of m w)
  | None, None => True
  | _, _ => False
  end.

Lemma fast_value_at_eq ns m (W : wts) (E : option mat) (d : vec) : ext_matches (ns * m) m W E ->
  fast_value_at (ns * m) E d = sumn ns (fun j => wterm m W j (blk m j d) (blk m j d)).
Proof. intros HE. destruct W as [w|], E as [e|]; cbn in HE; try contradiction; cbn [fast_value_at wterm].
  - unfold abC, dot. rewrite sumn_flat. apply sumn_ext; intros j Hj. apply sumn_ext; intros x Hx.
    unfold blk at 1. f_equal. rewrite <- (mv_ext_of ns m w d j x Hj Hx).
    apply sumn_ext; intros k Hk. rewrite HE; [reflexivity| |exact Hk].
    apply Nat.lt_le_trans with (j * m + m)%nat; [lia|]. replace (j * m + m)%nat with (S j * m)%nat by lia.
    apply Nat.mul_le_mono_r. lia.
  - unfold dot. now rewrite sumn_flat. Qed.

Lemma flat_lt ns m j x : (j < ns)%nat -> (x < m)%nat -> (j * m + x < ns * m)%nat.
Proof. intros Hj Hx. apply Nat.lt_le_trans with (S j * m)%nat; [lia|]. apply Nat.mul_le_mono_r. lia. Qed.

Lemma fast_grad_at_eq ns m (W : wts) (E : option mat) (A : mat) (d : vec) al : ext_matches (ns * m) m W E ->
  fast_grad_at (ns * m) E A d al = two * sumn ns (fun j => wterm m W j (blk m j (col A al)) (blk m j d)).
Proof. intros HE. destruct W as [w|], E as [e|]; cbn in HE; try contradiction; cbn [fast_grad_at wterm].
  - rewrite (sumn_ext (ns * m) _ (fun k => sumn (ns * m) (fun i => two * A i al * (e i k * d k)))).
    2:{ intros k _. rewrite <- sumn_scale_r. apply sumn_ext; intros; ring. }
    rewrite sumn_swap.
    rewrite (sumn_ext (ns * m) _ (fun i => two * (A i al * mv (ns * m) e d i))).
    2:{ intros i _. unfold mv. rewrite <- !sumn_scale_l. apply sumn_ext; intros; ring. }
    rewrite sumn_scale_l. f_equal. rewrite sumn_flat. apply sumn_ext; intros j Hj.
    unfold abC, dot. apply sumn_ext; intros x Hx. unfold blk at 1, col. f_equal.
    rewrite <- (mv_ext_of ns m w d j x Hj Hx). apply sumn_ext; intros k Hk.
    rewrite HE; [reflexivity| |exact Hk]. now apply flat_lt.
  - rewrite (sumn_ext (ns * m) _ (fun i => two * (A i al * d i))) by (intros; ring).
    rewrite sumn_scale_l. f_equal. unfold dot. now rewrite sumn_flat. Qed.

Lemma fast_value_eq ns m nv (W : wts) (E : option mat) (A : mat) (b q v : vec) : ext_matches (ns * m) m W E ->
  fast_value (ns * m) nv E A b q v = se_value ns m nv W A b q v.
Proof. intros HE. unfold fast_value, se_value, se_value_at. now apply fast_value_at_eq. Qed.
Lemma fast_grad_eq ns m nv (W : wts) (E : option mat) (A : mat) (b q v : vec) al : ext_matches (ns * m) m W E ->
  fast_grad (ns * m) nv E A b q v al = se_grad ns m nv W A b q v al.
Proof. intros HE. unfold fast_grad, se_grad, se_grad_at, se_grad_half_at. now apply fast_grad_at_eq. Qed.

(* ---------- simple quadratic loss *)
Lemma sq_taylor n (ref v h : vec) :
  sq_value n ref (vadd v h) = sq_value n ref v + dot n (sq_grad ref v) h + dot n h h.
Proof. unfold sq_value, dot, sq_grad, vadd, two. rewrite <- !sumn_add. apply sumn_ext; intros; ring. Qed.
Lemma sq_grad_shift n (ref v h : vec) i : (i < n)%nat -> sq_grad ref (vadd v h) i = sq_grad ref v i + mv n sq_hess h i.
Proof. intros Hi. unfold sq_grad, vadd, sq_hess, mv.
  rewrite (sumn_ext n _ (fun j => two * (mid i j * h j))) by (intros; ring).
  rewrite sumn_scale_l. change (sumn n (fun j => mid i j * h j)) with (mv n mid h i).
  rewrite mv_mid by exact Hi. ring. Qed.
End SE.

(* over an ordered field the expansion reads with the usual 1/2 *)
Section SEOF.
Context (F : OF).
Add Field Fse : (k_field F).
Notation "0" := (c0 F). Notation "1" := (c1 F).
Infix "+" := (cadd F). Infix "*" := (cmul F). Infix "/" := (kdiv F).

Lemma qfm_hess_double ns m nv (W : @wts F) (A : @mat F) (b q v h : @vec F) :
  qfm nv (se_hess ns m nv W A b q v) h = (1 + 1) * qfm nv (se_hess_half ns m nv W A b q v) h.
Proof. unfold qfm. rewrite <- sumn_scale_l. apply sumn_ext; intros al _. rewrite <- sumn_scale_l.
  apply sumn_ext; intros be _. unfold se_hess, se_hess_at, se_hess_half, two. ring. Qed.

Lemma se_taylor_half ns m nv (W : @wts F) (A : @mat F) (b q v h : @vec F) : wsym ns m W ->
  se_value ns m nv W A b q (vadd v h)
  = se_value ns m nv W A b q v + dot nv (se_grad ns m nv W A b q v) h
    + qfm nv (se_hess ns m nv W A b q v) h / (1 + 1).
Proof. intros Hs. rewrite (se_taylor ns m nv W A b q v h Hs), qfm_hess_double.
  assert (H2 : 1 + 1 <> 0) by (apply double_neq0, one_neq_zero). field. exact H2. Qed.
End SEOF.
