(* C17 — Taylor partial sums of exp(c Q) for a matrix with  Q Q = a Q  (a = 1: a projector), in ANY commutative ring and any dimension,
   division-free.  With  f_N = N!,
        T_0 = I,  T_{N+1} = (N+1) T_N + (cQ)^{N+1}          ( = N! * sum_{n<=N} (cQ)^n / n! )
        u_0 = 0,  u_{N+1} = (N+1) u_N + c^{N+1} a^N
        t_0 = 1,  t_{N+1} = (N+1) t_N + (ac)^{N+1}          ( = N! * sum_{n<=N} (ac)^n / n! , the scalar exponential series at ac)
   the theorems are     T_N = f_N I + u_N Q      and      a u_N = t_N - f_N      for every N.
   Dividing by N!:  S_N(cQ) = I + ((s_N(ac) - 1)/a) Q.
   Use (Props/C17.v): toffoli / fredkin have H = (pi/8) M with M M = -8 M and table gate 4 U = 4 I + M.  Take Q = M, a = -8, c = -i pi/8, so
   ac = i pi: the partial sums of exp(-iH) are I + ((s_N(i pi) - 1)/(-8)) M, which tends to I + M/4 = U because s_N(i pi) -> e^{i pi} = -1.
   Only these two analytic facts (convergence of the scalar series, Euler's identity) are not proved.  Axiom-free. *)
From Coq Require Import Ring Arith Lia.
From QV.Core Require Import OF Sums Mat.

Section ProjExp.
Context {R : CR}.
Add Ring Rpe : (c_ring R).
Notation "0" := (c0 R). Notation "1" := (c1 R).
Infix "+" := (cadd R). Infix "*" := (cmul R). Infix "-" := (csub R).
Variable d : nat.
Variable Q : @mat R.
Variables a c : R.
Hypothesis HQ : meq d d (mmul d Q Q) (mscale a Q).

Fixpoint rnat (n : nat) : R := match n with O => 0 | S k => rnat k + 1 end.            (* n as a ring element *)
Fixpoint rpow (x : R) (n : nat) : R := match n with O => 1 | S k => rpow x k * x end.
Fixpoint mpow (n : nat) : @mat R := match n with O => mid | S k => mmul d (mpow k) (mscale c Q) end.
Fixpoint fact_r (n : nat) : R := match n with O => 1 | S k => rnat (S k) * fact_r k end.
Fixpoint usum (n : nat) : R := match n with O => 0 | S k => rnat (S k) * usum k + rpow c (S k) * rpow a k end.
Fixpoint tsum (n : nat) : R := match n with O => 1 | S k => rnat (S k) * tsum k + rpow (a * c) (S k) end.
Fixpoint Tsum (n : nat) : @mat R := match n with O => mid | S k => madd (mscale (rnat (S k)) (Tsum k)) (mpow (S k)) end.

Lemma mpow_S n : meq d d (mpow (S n)) (mscale (rpow c (S n) * rpow a n) Q).
Proof. induction n as [|n IH].
  - intros i j Hi Hj. cbn [mpow rpow]. rewrite mmul_id_l by exact Hi. unfold mscale. ring.
  - intros i j Hi Hj. change (mpow (S (S n))) with (mmul d (mpow (S n)) (mscale c Q)).
    rewrite (mmul_ext d _ (mscale (rpow c (S n) * rpow a n) Q) _ (mscale c Q) d d IH (meq_refl d d _) i j Hi Hj).
    rewrite mmul_mscale_l. unfold mscale at 1. rewrite mmul_mscale_r. unfold mscale at 1. rewrite (HQ i j Hi Hj).
    change (rpow c (S (S n))) with (rpow c (S n) * c). change (rpow a (S n)) with (rpow a n * a). unfold mscale. ring. Qed.

Theorem quasi_projector_exp_partial_sums n : meq d d (Tsum n) (madd (mscale (fact_r n) mid) (mscale (usum n) Q)).
Proof. induction n as [|n IH]; intros i j Hi Hj.
  - cbn [Tsum fact_r usum]. unfold madd, mscale. ring.
  - change (Tsum (S n)) with (madd (mscale (rnat (S n)) (Tsum n)) (mpow (S n))).
    unfold madd at 1. unfold mscale at 1. rewrite (IH i j Hi Hj). rewrite (mpow_S n i j Hi Hj).
    change (fact_r (S n)) with (rnat (S n) * fact_r n). change (usum (S n)) with (rnat (S n) * usum n + rpow c (S n) * rpow a n).
    unfold madd, mscale. ring. Qed.

Lemma rpow_mul x y n : rpow (x * y) n = rpow x n * rpow y n.
Proof. induction n as [|n IH]; cbn [rpow]; [ring|]. rewrite IH. ring. Qed.
Theorem usum_scalar_series n : a * usum n = tsum n - fact_r n.
Proof. induction n as [|n IH]; cbn [usum tsum fact_r]; [ring|].
  change (rpow (a * c) n * (a * c)) with (rpow (a * c) (S n)). rewrite (rpow_mul a c (S n)).
  transitivity (rnat (S n) * (a * usum n) + rpow a (S n) * rpow c (S n)); [cbn [rpow]; ring|]. rewrite IH. ring. Qed.
End ProjExp.
