(* C06 — the threshold semantics of composition as theorems (what round 2 only modelled and tested):
     matrix_util.truncate_and_normalize (Povm on State): the result is the list of Born numbers with the sub-threshold ones zeroed, divided by the
       retained mass s; it is entrywise non-negative and sums to exactly one; a returned entry times s IS the Born number (so the deviation from
       the Born rule is exactly the factor 1/s, s = 1 - zeroed mass when the Born numbers sum to one);
     the eps_zero cut of MProcess on State / StateEnsemble: after a cut the returned branch probabilities are the retained raw probabilities
       divided by the retained mass and sum to the branch weight w; without a cut they are w * p_x unchanged.
   Generic in the ordered field, axiom-free. *)
From Coq Require Import List Arith Bool Lia Ring Field.
From QV.Core Require Import OF Sums Mat.
From QV.Model Require Import QObj Multinomial C06_Compose.
From QV.Proofs Require Import C16_Multinomial C06_Coded.
Import ListNotations.

Section Thresholds.
Context (F : OF).
Add Field Fft : (k_field F).
Notation "0" := (c0 F). Notation "1" := (c1 F).
Infix "+" := (cadd F). Infix "*" := (cmul F). Infix "-" := (csub F). Infix "/" := (kdiv F).
Infix "<=" := (kle F).

Lemma tn_zeroed_is_zeroed atol l : tn_zeroed F atol l = zeroed F atol l. Proof. reflexivity. Qed.

Lemma div_nonneg p s : 0 <= p -> 0 <= s -> s <> 0 -> 0 <= p / s.
Proof. intros Hp Hs Hne. replace (p / s) with (p * (1 / s)) by (field; exact Hne). apply (k_mul F); [exact Hp|now apply inv_nonneg]. Qed.

(* truncate_and_normalize: normal form, exact normalisation, non-negativity *)
Theorem truncate_and_normalize_spec atol l r : 0 <= atol -> truncate_and_normalize F atol l = MOk r ->
  lsum F (tn_zeroed F atol l) <> 0 /\
  r = map (fun p => p / lsum F (tn_zeroed F atol l)) (tn_zeroed F atol l) /\
  lsum F r = 1 /\ Forall (fun p => 0 <= p) r.
Proof. intros Ha H. unfold truncate_and_normalize in H. cbv zeta in H.
  destruct (keq0 F (lsum F (tn_zeroed F atol l))) eqn:E; [discriminate|]. injection H as <-.
  assert (Hs : lsum F (tn_zeroed F atol l) <> 0). { intros E0. apply (keq0_spec F) in E0. congruence. }
  split; [exact Hs|]. split; [reflexivity|]. split.
  - rewrite (lsum_map_div F _ _ Hs). field. exact Hs.
  - pose proof (zeroed_nonneg F atol l Ha) as Hz. rewrite <- tn_zeroed_is_zeroed in Hz.
    pose proof (lsum_nonneg F _ Hz) as Hs0. apply Forall_forall. intros x Hx. apply in_map_iff in Hx. destruct Hx as [p [<- Hp]].
    apply div_nonneg; [|exact Hs0|exact Hs]. rewrite Forall_forall in Hz. now apply Hz. Qed.
(* every returned probability times the retained mass is the (possibly zeroed) Born number *)
Corollary truncate_and_normalize_proportional atol l r x : 0 <= atol -> truncate_and_normalize F atol l = MOk r ->
  nth x r 0 * lsum F (tn_zeroed F atol l) = nth x (tn_zeroed F atol l) 0.
Proof. intros Ha H. destruct (truncate_and_normalize_spec atol l r Ha H) as (Hs & -> & _ & _).
  set (s := lsum F (tn_zeroed F atol l)) in *. generalize (tn_zeroed F atol l) as z. intros z. revert x.
  induction z as [|p z IH]; intros [|x]; cbn [map nth]; try ring; [field; exact Hs|apply IH]. Qed.
(* the error branch: everything is below the threshold (0/0 = NaN is rejected by the distribution constructor) *)
Theorem truncate_and_normalize_error atol l c : truncate_and_normalize F atol l = MErr c -> c = 3%nat /\ lsum F (tn_zeroed F atol l) = 0.
Proof. unfold truncate_and_normalize. cbv zeta. destruct (keq0 F (lsum F (tn_zeroed F atol l))) eqn:E; [|discriminate].
  intros H. injection H as <-. split; [reflexivity|now apply (keq0_spec F)]. Qed.

(* ---- the eps_zero cut of _compose_qoperations_MProcess_State_for_States *)
Lemma lsum_map_scale (w : F) (l : list F) : lsum F (map (fun p => w * p) l) = w * lsum F l.
Proof. induction l as [|x l IH]; cbn [map]; [rewrite !lsum_nil; ring|]. rewrite !lsum_cons, IH. ring. Qed.
(* a cut happened and something is retained: retained raw probabilities divided by the retained mass; they sum to one, the branch
   probabilities w * p sum to the branch weight w *)
Theorem mps_ps1_cut eps w raw : existsb (mps_cut F eps w) raw = true -> lsum F (mps_ps0 F eps w raw) <> 0 ->
  mps_ps1 F eps w raw = map (fun p => p / lsum F (mps_ps0 F eps w raw)) (mps_ps0 F eps w raw) /\
  lsum F (mps_ps1 F eps w raw) = 1 /\
  lsum F (map (fun p => w * p) (mps_ps1 F eps w raw)) = w.
Proof. intros Hc Hs. unfold mps_ps1. cbv zeta. rewrite Hc.
  destruct (keq0 F (lsum F (mps_ps0 F eps w raw))) eqn:E. { apply (keq0_spec F) in E. contradiction. }
  cbn [negb andb]. split; [reflexivity|]. assert (L : lsum F (map (fun p => p / lsum F (mps_ps0 F eps w raw)) (mps_ps0 F eps w raw)) = 1).
  { rewrite (lsum_map_div F _ _ Hs). field. exact Hs. }
  split; [exact L|]. rewrite lsum_map_scale, L. ring. Qed.
(* a cut happened and nothing is retained: all probabilities are zero (the branch contributes zero states) *)
Theorem mps_ps1_all_cut eps w raw : forallb (mps_cut F eps w) raw = true -> Forall (fun p => p = 0) (mps_ps1 F eps w raw).
Proof. intros Ha. assert (Z : Forall (fun p => p = 0) (mps_ps0 F eps w raw)).
  { unfold mps_ps0. induction raw as [|p raw IH]; cbn [map forallb] in *; constructor.
    - apply andb_true_iff in Ha as [A _]. now rewrite A.
    - apply IH. now apply andb_true_iff in Ha as [_ B]. }
  assert (S0 : lsum F (mps_ps0 F eps w raw) = 0).
  { induction Z as [|p z Hp _ IH]; [apply lsum_nil|]. rewrite lsum_cons, Hp, IH. ring. }
  unfold mps_ps1. cbv zeta. rewrite S0, (keq0_zero F). rewrite andb_false_r. exact Z. Qed.

(* ---- from the linear (un-normalised) content to the normalised result: a pair (probability, trace-one state) is DETERMINED by the
   un-normalised vector p * rho.  Together with C06_bracketing_independent (equal un-normalised vectors at equal positions for any two
   bracketings) this gives equal probabilities and equal post states for the normalised results of two bracketings wherever both carry
   trace-one states - the bridge from the linear associativity theorem to normalised chains ending in a state. *)
Theorem normalised_determined n sd (p p' : F) (st st' : rvec F) : (0 < n)%nat ->
  sd * st 0%nat = 1 -> sd * st' 0%nat = 1 -> (forall i, (i < n)%nat -> p * st i = p' * st' i) ->
  p = p' /\ (p <> 0 -> veq n st st').
Proof. intros Hn Hs Hs' H. assert (E : p = p').
  { transitivity (sd * (p * st 0%nat)); [transitivity (p * (sd * st 0%nat)); [rewrite Hs; ring|ring]|].
    rewrite (H 0%nat Hn). transitivity (p' * (sd * st' 0%nat)); [ring|rewrite Hs'; ring]. }
  split; [exact E|]. intros Hp i Hi. pose proof (H i Hi) as Hi'. rewrite <- E in Hi'.
  transitivity ((p * st i) / p); [field; exact Hp|]. rewrite Hi'. field. exact Hp. Qed.
End Thresholds.
