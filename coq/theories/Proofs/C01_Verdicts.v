(* C01 — proofs about the verdict model (Model/C01_Verdicts.v).  Generic in the ordered field, axiom-free. *)
From Coq Require Import Field Ring Setoid Arith Lia Bool List.
From QV.Core Require Import OF Sums Mat Cplx Psd C01_HermPsd.
From QV.Model Require Import QObj HermEmbed C01_Verdicts.

Section C01Proofs.
Context (F : OF).
Add Field Ffv : (k_field F).
Notation "0" := (c0 F). Notation "1" := (c1 F).
Infix "+" := (cadd F). Infix "*" := (cmul F). Infix "<=" := (kle F). Infix "-" := (csub F).
Infix "/" := (kdiv F). Notation "- x" := (copp F x).
Notation Cx := (CF F).

(* ------------------------------------------------------------------ booleans *)
Lemma allb_spec n p : allb n p = true <-> forall i, (i < n)%nat -> p i = true.
Proof. induction n as [|n IH]; cbn. { split; [intros _ i Hi; lia|reflexivity]. }
  rewrite andb_true_iff, IH. split.
  - intros [A B] i Hi. destruct (Nat.eq_dec i n) as [->|]; [exact B|apply A; lia].
  - intros H. split; [intros i Hi; apply H; lia|apply H; lia]. Qed.
Lemma allb_ext n p q : (forall i, (i < n)%nat -> p i = q i) -> allb n p = allb n q.
Proof. induction n as [|n IH]; intros H; cbn; [reflexivity|]. rewrite IH, H by (intros; auto with arith). reflexivity. Qed.
Lemma all2_spec n p : all2 n p = true <-> forall i j, (i < n)%nat -> (j < n)%nat -> p i j = true.
Proof. unfold all2. rewrite allb_spec. split.
  - intros H i j Hi Hj. exact (proj1 (allb_spec n _) (H i Hi) j Hj).
  - intros H i Hi. apply allb_spec. intros j Hj. now apply H. Qed.
Lemma all2_ext n p q : (forall i j, (i < n)%nat -> (j < n)%nat -> p i j = q i j) -> all2 n p = all2 n q.
Proof. intros H. unfold all2. apply allb_ext; intros i Hi. apply allb_ext; intros j Hj. now apply H. Qed.
Lemma bool_eq_iff (a b : bool) : (a = true <-> b = true) -> a = b.
Proof. destruct a, b; intros [H1 H2]; try reflexivity; [symmetry; now apply H1|now apply H2]. Qed.
Lemma allb_mono n p q : (forall i, (i < n)%nat -> p i = true -> q i = true) -> allb n p = true -> allb n q = true.
Proof. rewrite !allb_spec. intros H A i Hi. apply H; [exact Hi|now apply A]. Qed.
Lemma all2_mono n p q : (forall i j, (i < n)%nat -> (j < n)%nat -> p i j = true -> q i j = true) -> all2 n p = true -> all2 n q = true.
Proof. rewrite !all2_spec. intros H A i j Hi Hj. apply H; [exact Hi|exact Hj|now apply A]. Qed.

(* ------------------------------------------------------------------ order facts *)
Lemma le_refl' x y : x = y -> x <= y. Proof. intros ->. apply k_refl. Qed.
Lemma kabs_nonneg x : 0 <= kabs x.
Proof. unfold kabs. destruct (kleb F 0 x) eqn:E; [now apply k_leb|].
  apply opp_nonneg. destruct (leb_false_lt F _ _ E) as [A _]. exact A. Qed.
Lemma kabs_le_iff x t : kabs x <= t <-> (- t <= x /\ x <= t).
Proof. unfold kabs. destruct (kleb F 0 x) eqn:E.
  - apply k_leb in E. split.
    + intros H. split; [|exact H]. apply (k_trans F _ 0); [|exact E].
      apply opp_nonpos. now apply (k_trans F _ x).
    + intros [_ H]. exact H.
  - destruct (leb_false_lt F _ _ E) as [A _]. split.
    + intros H. split.
      * apply (proj2 (le_sub F (- t) x)). replace (x - - t) with (t - - x) by ring. exact (proj1 (le_sub F (- x) t) H).
      * apply (k_trans F _ 0); [exact A|]. apply (k_trans F _ (- x)); [now apply opp_nonneg|exact H].
    + intros [H _]. apply (proj2 (le_sub F (- x) t)). replace (t - - x) with (x - - t) by ring. exact (proj1 (le_sub F (- t) x) H). Qed.
Lemma kabs_zero : kabs 0 = 0.
Proof. unfold kabs. destruct (kleb F 0 0); ring. Qed.
Lemma kabs_sq x : kabs x * kabs x = x * x.
Proof. unfold kabs. destruct (kleb F 0 x); ring. Qed.
Lemma sq_le_mono x y : 0 <= x -> x <= y -> x * x <= y * y.
Proof. intros Hx H. apply (k_trans F _ (x * y)).
  - now apply mul_le_compat_nonneg.
  - replace (x * y) with (y * x) by ring. apply mul_le_compat_nonneg; [now apply (k_trans F _ x)|exact H]. Qed.
Lemma sq_le_inv x y : 0 <= x -> 0 <= y -> x * x <= y * y -> x <= y.
Proof. intros Hx Hy H. destruct (k_total F x y) as [A|A]; [exact A|].
  (* y <= x : then y*y <= x*x, so x*x = y*y, (x-y)(x+y)=0 *)
  assert (E : x * x = y * y) by (apply (k_antisym F); [exact H|now apply sq_le_mono]).
  destruct (keqb F (x + y) 0) eqn:Z.
  - apply keqb_spec in Z. assert (x = 0).
    { apply (k_antisym F); [|exact Hx]. replace x with (0 - y) by (rewrite <- Z; ring).
      replace (0 - y) with (- y) by ring. now apply opp_nonpos. }
    subst x. exact Hy.
  - assert (Hn : x + y <> 0). { intros Z'. rewrite Z' in Z. unfold keqb in Z.
      rewrite (proj2 (k_leb F 0 0) (k_refl F 0)) in Z. discriminate. }
    apply le_refl'. replace x with (y + (x * x - y * y) / (x + y)) by (field; exact Hn). rewrite E. field. exact Hn. Qed.
Lemma sq_le_abs_iff x t : (0 <= t /\ x * x <= t * t) <-> kabs x <= t.
Proof. split.
  - intros [Ht H]. apply sq_le_inv; [apply kabs_nonneg|exact Ht|]. now rewrite kabs_sq.
  - intros H. split; [apply (k_trans F _ (kabs x)); [apply kabs_nonneg|exact H]|].
    rewrite <- kabs_sq. apply sq_le_mono; [apply kabs_nonneg|exact H]. Qed.
Lemma znorm2_nonneg (z : Cx) : 0 <= znorm2 z.
Proof. unfold znorm2. apply add_nonneg; apply sqr_nonneg. Qed.
Lemma znorm2_zero_iff (z : Cx) : znorm2 z = 0 <-> z = c0 Cx.
Proof. split.
  - intros H. unfold znorm2 in H. apply cplx_eq; cbn.
    + exact (sum_sqr_zero F _ _ H).
    + apply (sum_sqr_zero F (im z) (re z)). rewrite <- H. ring.
  - intros ->. unfold znorm2. cbn. ring. Qed.

(* ------------------------------------------------------------------ isclose / ciscl *)
Lemma isclose_spec0 a b atol : isclose a b atol 0 = true <-> kabs (a - b) <= atol.
Proof. unfold isclose. rewrite k_leb. replace (atol + 0 * kabs b) with atol by ring. reflexivity. Qed.
Lemma isclose_mono a b atol atol' rtol : atol <= atol' -> isclose a b atol rtol = true -> isclose a b atol' rtol = true.
Proof. unfold isclose. rewrite !k_leb. intros H A. apply (k_trans F _ _ _ A). now apply k_add. Qed.
Lemma ciscl_spec0 (a b : Cx) babs atol : ciscl a b babs atol 0 = true <-> (0 <= atol /\ znorm2 (zsub a b) <= atol * atol).
Proof. unfold ciscl. cbv zeta. replace (atol + 0 * babs) with atol by ring. rewrite andb_true_iff, !k_leb. reflexivity. Qed.
Lemma ciscl_mono (a b : Cx) babs atol atol' rtol : atol <= atol' -> ciscl a b babs atol rtol = true -> ciscl a b babs atol' rtol = true.
Proof. unfold ciscl. cbv zeta. rewrite !andb_true_iff, !k_leb. intros H [A B].
  assert (H' : atol + rtol * babs <= atol' + rtol * babs) by now apply k_add.
  split; [now apply (k_trans F _ _ _ A)|]. apply (k_trans F _ _ _ B). now apply sq_le_mono. Qed.
(* for a real difference the squared complex test is the absolute-value test *)
Lemma ciscl_real0 (a b : Cx) babs atol e : zsub a b = zof e -> (ciscl a b babs atol 0 = true <-> kabs e <= atol).
Proof. intros E. rewrite ciscl_spec0, E. unfold znorm2. cbn [re im zof fst snd].
  replace (e * e + 0 * 0) with (e * e) by ring. apply sq_le_abs_iff. Qed.
Lemma ciscl_zero (a : Cx) babs atol rtol : 0 <= atol -> 0 <= rtol -> 0 <= babs -> ciscl a a babs atol rtol = true.
Proof. intros H1 H2 H3. unfold ciscl. cbv zeta. rewrite andb_true_iff, !k_leb.
  assert (T : 0 <= atol + rtol * babs) by (apply add_nonneg; [exact H1|now apply k_mul]).
  split; [exact T|]. replace (znorm2 (zsub a a)) with 0 by (unfold znorm2; cbn; ring). now apply k_mul. Qed.

(* ------------------------------------------------------------------ matrix_util.is_hermitian / lower triangle / is_positive_semidefinite *)
Lemma mutil_is_hermitian_ext n (H H' : cmat F) atol : meq n n H H' -> mutil_is_hermitian n H atol = mutil_is_hermitian n H' atol.
Proof. intros E. unfold mutil_is_hermitian. apply all2_ext; intros i j Hi Hj. now rewrite (E i j Hi Hj), (E j i Hj Hi). Qed.
Lemma mutil_is_hermitian_mono n (H : cmat F) atol atol' : atol <= atol' -> mutil_is_hermitian n H atol = true -> mutil_is_hermitian n H atol' = true.
Proof. intros Ha. unfold mutil_is_hermitian. apply all2_mono; intros i j _ _. now apply ciscl_mono. Qed.
Lemma mutil_is_hermitian_exact n (H : cmat F) atol : hermitian n H -> 0 <= atol -> mutil_is_hermitian n H atol = true.
Proof. intros Hh Ha. unfold mutil_is_hermitian. apply all2_spec; intros i j Hi Hj. rewrite <- (Hh i j Hi Hj).
  apply ciscl_zero; [exact Ha|apply k_refl|apply k_refl]. Qed.
(* with atol = 0 the test is exact Hermiticity *)
Lemma mutil_is_hermitian_0 n (H : cmat F) : mutil_is_hermitian n H 0 = true <-> hermitian n H.
Proof. unfold mutil_is_hermitian. rewrite all2_spec. split; intros A i j Hi Hj.
  - specialize (A i j Hi Hj). apply ciscl_spec0 in A. destruct A as [_ A].
    replace (0 * 0) with 0 in A by ring.
    assert (Z : znorm2 (zsub (H i j) (zconj (H j i))) = 0) by (apply (k_antisym F); [exact A|apply znorm2_nonneg]).
    apply znorm2_zero_iff in Z. destruct (H i j) as [p q], (H j i) as [r s]. pose proof (f_equal fst Z) as Z1. pose proof (f_equal snd Z) as Z2. cbn in Z1, Z2.
    apply cplx_eq; cbn.
    + replace p with (p - r + r) by ring. rewrite Z1. ring.
    + replace q with (q - - s + - s) by ring. rewrite Z2. ring.
  - rewrite <- (A i j Hi Hj). apply ciscl_zero; apply k_refl. Qed.

Lemma lowerherm_hermitian n (H : cmat F) : hermitian n (lowerherm H).
Proof. intros i j _ _. unfold lowerherm.
  destruct (Nat.ltb_spec j i) as [L|L]; destruct (Nat.ltb_spec i j) as [L'|L']; try lia.
  - destruct (Nat.eqb_spec j i); [lia|]. now rewrite zconj_conj.
  - destruct (Nat.eqb_spec i j); [lia|]. reflexivity.
  - assert (i = j) by lia. subst j. rewrite Nat.eqb_refl. now rewrite zconj_zof. Qed.
Lemma lowerherm_ext n (H H' : cmat F) : meq n n H H' -> meq n n (lowerherm H) (lowerherm H').
Proof. intros E i j Hi Hj. unfold lowerherm. now rewrite (E i j Hi Hj), (E j i Hj Hi), (E i i Hi Hi). Qed.
Lemma herm_diag_real n (H : cmat F) i : hermitian n H -> (i < n)%nat -> im (H i i) = 0.
Proof. intros Hh Hi. pose proof (Hh i i Hi Hi) as E. destruct (H i i) as [p q]. pose proof (f_equal snd E) as E'. cbn in E'. cbn.
  destruct (keqb F q 0) eqn:Z; [now apply keqb_spec|]. exfalso.
  assert (Hq : q <> 0). { intros ->. unfold keqb in Z. rewrite (proj2 (k_leb F 0 0) (k_refl F 0)) in Z. discriminate. }
  apply (double_neq0 F q Hq). rewrite E' at 1. ring. Qed.
Lemma lowerherm_id n (H : cmat F) : hermitian n H -> meq n n (lowerherm H) H.
Proof. intros Hh i j Hi Hj. unfold lowerherm. destruct (Nat.ltb_spec j i) as [L|L]; [reflexivity|].
  destruct (Nat.eqb_spec i j) as [->|N].
  - pose proof (herm_diag_real n H j Hh Hj) as Z. destruct (H j j) as [p q]. cbn in *. now rewrite Z.
  - symmetry. now apply Hh. Qed.

Lemma embed_ext n (H H' : cmat F) : meq n n H H' -> meq (n + n) (n + n) (embed F n H) (embed F n H').
Proof. intros E i j Hi Hj. unfold embed.
  destruct (Nat.ltb_spec i n); destruct (Nat.ltb_spec j n); rewrite E by lia; reflexivity. Qed.
Lemma shiftI_ext n t (M M' : rmat F) : meq n n M M' -> meq n n (shiftI F t M) (shiftI F t M').
Proof. intros E i j Hi Hj. unfold shiftI. now rewrite (E i j Hi Hj). Qed.
Lemma herm_psd_dec_ext n (H H' : cmat F) t : meq n n H H' -> herm_psd_dec F n H t = herm_psd_dec F n H' t.
Proof. intros E. unfold herm_psd_dec. apply psd_dec_ext. apply shiftI_ext. now apply embed_ext. Qed.
Lemma mutil_is_psd_ext n (H H' : cmat F) atol : meq n n H H' -> mutil_is_psd n H atol = mutil_is_psd n H' atol.
Proof. intros E. unfold mutil_is_psd. rewrite (mutil_is_hermitian_ext n H H' atol E).
  rewrite (herm_psd_dec_ext n _ _ atol (lowerherm_ext n H H' E)). reflexivity. Qed.

(* the PSD verdict, exactly: Hermitian within atol (entrywise) and  L + atol*I >= 0  for the lower-triangle matrix L that eigvalsh reads *)
Theorem mutil_is_psd_spec n (H : cmat F) atol : mutil_is_psd n H atol = true <->
  (mutil_is_hermitian n H atol = true /\ forall x : cvec F, 0 <= hqf n (lowerherm H) x + atol * cnorm2 n x).
Proof. unfold mutil_is_psd. destruct (mutil_is_hermitian n H atol).
  - rewrite (herm_psd_dec_spec F n _ atol (lowerherm_hermitian n H)). tauto.
  - split; [discriminate|intros [A _]; discriminate]. Qed.
(* for an exactly Hermitian operator: verdict <-> H + atol*I >= 0 ;  with atol = 0: <-> H >= 0 *)
Theorem mutil_is_psd_spec_herm n (H : cmat F) atol : hermitian n H -> 0 <= atol ->
  (mutil_is_psd n H atol = true <-> forall x : cvec F, 0 <= hqf n H x + atol * cnorm2 n x).
Proof. intros Hh Ha. rewrite mutil_is_psd_spec. rewrite (mutil_is_hermitian_exact n H atol Hh Ha).
  split.
  - intros [_ P] x. rewrite <- (hqf_ext F n _ _ x x (lowerherm_id n H Hh) (veq_refl n x)). apply P.
  - intros P. split; [reflexivity|]. intros x. rewrite (hqf_ext F n _ _ x x (lowerherm_id n H Hh) (veq_refl n x)). apply P. Qed.
Corollary mutil_is_psd_0 n (H : cmat F) : hermitian n H -> (mutil_is_psd n H 0 = true <-> HPSD n H).
Proof. intros Hh. rewrite (mutil_is_psd_spec_herm n H 0 Hh (k_refl F 0)). unfold HPSD. split; intros P x; specialize (P x).
  - replace (hqf n H x + 0 * cnorm2 n x) with (hqf n H x) in P by ring. exact P.
  - replace (hqf n H x + 0 * cnorm2 n x) with (hqf n H x) by ring. exact P. Qed.
Theorem mutil_is_psd_mono n (H : cmat F) atol atol' : atol <= atol' -> mutil_is_psd n H atol = true -> mutil_is_psd n H atol' = true.
Proof. intros Ha. unfold mutil_is_psd. destruct (mutil_is_hermitian n H atol) eqn:E; [|discriminate].
  rewrite (mutil_is_hermitian_mono n H atol atol' Ha E). apply herm_psd_dec_mono; [apply lowerherm_hermitian|exact Ha]. Qed.
(* a non-negative multiple of the identity passes at every non-negative tolerance *)
Lemma mutil_is_psd_scalar n (H : cmat F) c atol :
  (forall i j, (i < n)%nat -> (j < n)%nat -> H i j = if Nat.eqb i j then zof c else c0 Cx) ->
  0 <= c -> 0 <= atol -> mutil_is_psd n H atol = true.
Proof. intros HH Hc Ha.
  assert (Hh : hermitian n H).
  { intros i j Hi Hj. rewrite (HH i j Hi Hj), (HH j i Hj Hi), (Nat.eqb_sym j i). destruct (Nat.eqb i j); apply cplx_eq; cbn; ring. }
  apply (mutil_is_psd_spec_herm n H atol Hh Ha). intros x. rewrite (hqf_scalar F n c H x HH).
  apply add_nonneg; (apply k_mul; [assumption|apply cnorm2_nonneg]). Qed.

(* ------------------------------------------------------------------ operators denoted by coefficient vectors *)
Lemma op_of_vec_hermitian d B (v : rvec F) : basis_hermitian d B -> hermitian d (op_of_vec d B v).
Proof. intros HB i j Hi Hj. unfold op_of_vec. rewrite zconj_sumn. apply sumn_ext; intros a Ha.
  rewrite (HB a Ha i j Hi Hj). destruct (B a j i) as [p q]. apply cplx_eq; cbn; ring. Qed.
Lemma op_of_vec_ext d B (v v' : rvec F) i j : veq (d * d) v v' -> op_of_vec d B v i j = op_of_vec d B v' i j.
Proof. intros E. unfold op_of_vec. apply sumn_ext; intros a Ha. now rewrite (E a Ha). Qed.
Lemma trace_real n (H : cmat F) : hermitian n H -> im (mtrace n H) = 0.
Proof. intros Hh. unfold mtrace. rewrite im_sumn. apply sumn_zero'. intros i Hi. now apply (herm_diag_real n). Qed.
Lemma mtrace_op_of_vec d B (w : rvec F) :
  mtrace d (op_of_vec d B w) = sumn (d * d) (fun a => cmul Cx (zof (w a)) (mtrace d (B a))).
Proof. unfold mtrace, op_of_vec. rewrite sumn_swap. apply sumn_ext; intros a _. now rewrite sumn_scale_l. Qed.

(* Tr B_a = sd * delta_{0a} for an orthonormal basis whose first element is I/sd *)
Lemma basis_trace d sd B a : basis_orthonormal d B -> basis_0th_identity d sd B -> (0 < d)%nat -> (a < d * d)%nat ->
  mtrace d (B a) = cmul Cx (zof sd) (if Nat.eqb O a then c1 Cx else c0 Cx).
Proof. intros Ho H0 Hd Ha. rewrite <- (Ho O a ltac:(nia) Ha). unfold hs_inner, mtrace.
  rewrite <- sumn_scale_l. apply sumn_ext; intros i Hi. rewrite <- sumn_scale_l.
  rewrite (sumn_ext d _ (fun j => if Nat.eqb j i then B a i j else c0 Cx)).
  2:{ intros j Hj. transitivity (cmul Cx (zconj (cmul Cx (zof sd) (B O i j))) (B a i j)).
      { destruct (B O i j), (B a i j); apply cplx_eq; cbn; ring. }
      rewrite (H0 i j Hi Hj), (Nat.eqb_sym j i). destruct (Nat.eqb i j); destruct (B a i j); apply cplx_eq; cbn; ring. }
  now rewrite sumn_delta. Qed.
Lemma mtrace_op_basis d sd B (w : rvec F) : basis_orthonormal d B -> basis_0th_identity d sd B -> (0 < d)%nat ->
  mtrace d (op_of_vec d B w) = zof (sd * w O).
Proof. intros Ho H0 Hd. rewrite mtrace_op_of_vec.
  rewrite (sumn_ext (d * d) _ (fun a => if Nat.eqb a O then (zof (sd * w a) : Cx) else c0 Cx)).
  2:{ intros a Ha. rewrite (basis_trace d sd B a Ho H0 Hd Ha), (Nat.eqb_sym a O).
      destruct (Nat.eqb O a); apply cplx_eq; cbn; ring. }
  rewrite (sumn_delta (d * d) O (fun a => zof (sd * w a) : Cx)) by nia. reflexivity. Qed.

(* ------------------------------------------------------------------ (b) equality verdicts with rtol = 0 : true iff exact defect <= atol *)
(* State: |Tr rho - 1| <= atol *)
Theorem state_trace_verdict_iff_sq d B (v : rvec F) atol :
  state_is_trace_one d B v atol 0 = true <-> (0 <= atol /\ znorm2 (zsub (state_trace d B v) (c1 Cx)) <= atol * atol).
Proof. apply ciscl_spec0. Qed.
Theorem state_trace_verdict_iff d B (v : rvec F) atol : basis_hermitian d B ->
  (state_is_trace_one d B v atol 0 = true <-> kabs (re (state_trace d B v) - 1) <= atol).
Proof. intros HB. unfold state_is_trace_one. apply ciscl_real0.
  pose proof (trace_real d _ (op_of_vec_hermitian d B v HB)) as Z. fold (state_trace d B v) in Z.
  destruct (state_trace d B v) as [p q]. cbn in Z. subst q. apply cplx_eq; cbn; ring. Qed.
Corollary state_trace_verdict_exact d B (v : rvec F) :
  state_is_trace_one d B v 0 0 = true <-> state_trace d B v = c1 Cx.
Proof. rewrite state_trace_verdict_iff_sq. replace (0 * 0) with 0 by ring. split.
  - intros [_ A]. assert (Z : znorm2 (zsub (state_trace d B v) (c1 Cx)) = 0) by (apply (k_antisym F); [exact A|apply znorm2_nonneg]).
    apply znorm2_zero_iff in Z. destruct (state_trace d B v) as [p q].
    pose proof (f_equal fst Z) as Z1. pose proof (f_equal snd Z) as Z2. cbn in Z1, Z2. apply cplx_eq; cbn.
    + replace p with (p - 1 + 1) by ring. rewrite Z1. ring.
    + replace q with (q - 0 + 0) by ring. rewrite Z2. ring.
  - intros ->. split; [apply k_refl|]. apply le_refl'. unfold znorm2. cbn. ring. Qed.

(* Povm: max_ij |(sum_x Pi_x - I)_ij| <= atol *)
Theorem povm_identity_sum_iff d B m (vs : nat -> rvec F) atol : (0 < d)%nat ->
  (povm_is_identity_sum d B m vs atol 0 = true <->
   (0 <= atol /\ forall i j, (i < d)%nat -> (j < d)%nat -> znorm2 (zsub (povm_sum d B m vs i j) (cdelta i j)) <= atol * atol)).
Proof. intros Hd. unfold povm_is_identity_sum. rewrite all2_spec. split.
  - intros A. split.
    + exact (proj1 (proj1 (ciscl_spec0 _ _ _ _) (A O O Hd Hd))).
    + intros i j Hi Hj. exact (proj2 (proj1 (ciscl_spec0 _ _ _ _) (A i j Hi Hj))).
  - intros [Ha A] i j Hi Hj. apply ciscl_spec0. split; [exact Ha|now apply A]. Qed.
Corollary povm_identity_sum_exact d B m (vs : nat -> rvec F) : (0 < d)%nat ->
  (povm_is_identity_sum d B m vs 0 0 = true <-> forall i j, (i < d)%nat -> (j < d)%nat -> povm_sum d B m vs i j = cdelta i j).
Proof. intros Hd. rewrite (povm_identity_sum_iff d B m vs 0 Hd). replace (0 * 0) with 0 by ring. split.
  - intros [_ A] i j Hi Hj. specialize (A i j Hi Hj).
    assert (Z : znorm2 (zsub (povm_sum d B m vs i j) (cdelta i j)) = 0) by (apply (k_antisym F); [exact A|apply znorm2_nonneg]).
    apply znorm2_zero_iff in Z. destruct (povm_sum d B m vs i j) as [p q], (cdelta i j) as [r s].
    pose proof (f_equal fst Z) as Z1. pose proof (f_equal snd Z) as Z2. cbn in Z1, Z2. apply cplx_eq; cbn.
    + replace p with (p - r + r) by ring. rewrite Z1. ring.
    + replace q with (q - s + s) by ring. rewrite Z2. ring.
  - intros A. split; [apply k_refl|]. intros i j Hi Hj. rewrite (A i j Hi Hj). apply le_refl'. unfold znorm2. destruct (cdelta i j); cbn. ring. Qed.

(* Gate, first-row branch: max_a |HS_0a - delta_0a| <= atol *)
Theorem gate_tp_row_iff d (HS : rmat F) atol :
  gate_is_tp_row d HS atol = true <-> forall a, (a < d * d)%nat -> kabs (HS O a - rdelta O a) <= atol.
Proof. unfold gate_is_tp_row. rewrite allb_spec. split; intros A a Ha; specialize (A a Ha); now apply isclose_spec0. Qed.
(* Gate, trace branch: max_a |Tr G(B_a) - Tr B_a| <= atol *)
Theorem gate_tp_trace_iff d B (HS : rmat F) atol : (0 < d)%nat ->
  (gate_is_tp_trace d B HS atol = true <->
   (0 <= atol /\ forall a, (a < d * d)%nat -> znorm2 (zsub (gate_image_trace d B HS a) (mtrace d (B a))) <= atol * atol)).
Proof. intros Hd. unfold gate_is_tp_trace. rewrite allb_spec. split.
  - intros A. split.
    + exact (proj1 (proj1 (ciscl_spec0 _ _ _ _) (A O ltac:(nia)))).
    + intros a Ha. exact (proj2 (proj1 (ciscl_spec0 _ _ _ _) (A a Ha))).
  - intros [Ha A] a Ha'. apply ciscl_spec0. split; [exact Ha|now apply A]. Qed.

(* the two defect measures: for an orthonormal basis with B_0 = I/sd,  Tr G(B_a) - Tr B_a = sd * (HS_0a - delta_0a) *)
Theorem gate_tp_defect_relation d sd B (HS : rmat F) a :
  basis_orthonormal d B -> basis_0th_identity d sd B -> (0 < d)%nat -> (a < d * d)%nat ->
  zsub (gate_image_trace d B HS a) (mtrace d (B a)) = zof (sd * (HS O a - rdelta O a)).
Proof. intros Ho H0 Hd Ha. unfold gate_image_trace. rewrite (mtrace_op_basis d sd B _ Ho H0 Hd), (basis_trace d sd B a Ho H0 Hd Ha).
  unfold rdelta. destruct (Nat.eqb O a); apply cplx_eq; cbn; ring. Qed.

Lemma mul_le_cancel s x y : 0 <= s -> s <> 0 -> (s * x <= s * y <-> x <= y).
Proof. intros Hs Hn. split.
  - intros H. pose proof (mul_le_compat_nonneg F (1 / s) _ _ (inv_nonneg F s Hn Hs) H) as A.
    replace (1 / s * (s * x)) with x in A by (field; exact Hn). replace (1 / s * (s * y)) with y in A by (field; exact Hn). exact A.
  - now apply mul_le_compat_nonneg. Qed.
Lemma kabs_scale_le s e t : 0 <= s -> s <> 0 -> (kabs (s * e) <= s * t <-> kabs e <= t).
Proof. intros Hs Hn. rewrite !kabs_le_iff. replace (- (s * t)) with (s * - t) by ring. now rewrite !mul_le_cancel. Qed.

(* ... hence the trace branch at tolerance sd*atol is the first-row branch at tolerance atol *)
Theorem gate_tp_branches_agree d sd B (HS : rmat F) atol :
  basis_orthonormal d B -> basis_0th_identity d sd B -> (0 < d)%nat -> 0 <= sd -> sd <> 0 ->
  gate_is_tp_trace d B HS (sd * atol) = gate_is_tp_row d HS atol.
Proof. intros Ho H0 Hd Hs Hn. unfold gate_is_tp_trace, gate_is_tp_row. apply allb_ext; intros a Ha. apply bool_eq_iff.
  rewrite (ciscl_real0 _ _ 0 (sd * atol) _ (gate_tp_defect_relation d sd B HS a Ho H0 Hd Ha)), isclose_spec0.
  now apply kabs_scale_le. Qed.

Lemma kabs_le0_iff x : kabs x <= 0 <-> x = 0.
Proof. rewrite kabs_le_iff. replace (- 0) with 0 by ring. split.
  - intros [A B]. now apply (k_antisym F). - intros ->. split; apply k_refl. Qed.

(* at zero defect both branches say: Tr G(X) = Tr X for every X = sum_a v_a B_a *)
Theorem gate_tp_row_exact_iff d sd B (HS : rmat F) :
  basis_orthonormal d B -> basis_0th_identity d sd B -> (0 < d)%nat -> sd <> 0 ->
  (gate_is_tp_row d HS 0 = true <->
   forall v : rvec F, mtrace d (op_of_vec d B (mv (d * d) HS v)) = mtrace d (op_of_vec d B v)).
Proof. intros Ho H0 Hd Hn. rewrite gate_tp_row_iff. split.
  - intros A v. rewrite !(mtrace_op_basis d sd B _ Ho H0 Hd). f_equal. f_equal. unfold mv.
    rewrite (sumn_ext (d * d) _ (fun a => if Nat.eqb O a then v a else 0)).
    2:{ intros a Ha. pose proof (proj1 (kabs_le0_iff _) (A a Ha)) as E. unfold rdelta in E.
        replace (HS O a) with (HS O a - (if Nat.eqb O a then 1 else 0) + (if Nat.eqb O a then 1 else 0)) by ring.
        rewrite E. destruct (Nat.eqb O a); ring. }
    apply (sumn_delta' (d * d) O v). nia.
  - intros A a Ha. apply kabs_le0_iff. specialize (A (fun b => if Nat.eqb b a then 1 else 0)).
    rewrite !(mtrace_op_basis d sd B _ Ho H0 Hd) in A. pose proof (f_equal fst A) as A1. unfold zof in A1. cbn [fst] in A1. unfold mv in A1.
    rewrite (sumn_ext (d * d) _ (fun b => if Nat.eqb b a then HS O b else 0)) in A1.
    2:{ intros b _. destruct (Nat.eqb b a); ring. }
    rewrite (sumn_delta (d * d) a (fun b => HS O b) Ha) in A1. unfold rdelta.
    assert (E : HS O a = (if Nat.eqb O a then 1 else 0)).
    { replace (HS O a) with (1 / sd * (sd * HS O a)) by (field; exact Hn). rewrite A1. field. exact Hn. }
    rewrite E. ring. Qed.

(* ------------------------------------------------------------------ (c) monotonicity in atol of every sub-verdict *)
Theorem state_is_trace_one_mono d B (v : rvec F) atol atol' rtol : atol <= atol' ->
  state_is_trace_one d B v atol rtol = true -> state_is_trace_one d B v atol' rtol = true.
Proof. intros H. now apply ciscl_mono. Qed.
Theorem state_is_hermitian_mono d B (v : rvec F) atol atol' : atol <= atol' ->
  state_is_hermitian d B v atol = true -> state_is_hermitian d B v atol' = true.
Proof. intros H. now apply mutil_is_hermitian_mono. Qed.
Theorem state_is_psd_mono d B (v : rvec F) atol atol' : atol <= atol' ->
  state_is_psd d B v atol = true -> state_is_psd d B v atol' = true.
Proof. intros H. now apply mutil_is_psd_mono. Qed.
Theorem povm_is_identity_sum_mono d B m (vs : nat -> rvec F) atol atol' rtol : atol <= atol' ->
  povm_is_identity_sum d B m vs atol rtol = true -> povm_is_identity_sum d B m vs atol' rtol = true.
Proof. intros H. unfold povm_is_identity_sum. apply all2_mono; intros i j _ _. now apply ciscl_mono. Qed.
Theorem povm_is_psd_mono d B m (vs : nat -> rvec F) atol atol' : atol <= atol' ->
  povm_is_psd d B m vs atol = true -> povm_is_psd d B m vs atol' = true.
Proof. intros H. unfold povm_is_psd. apply allb_mono; intros x _. now apply mutil_is_psd_mono. Qed.
Theorem gate_is_tp_mono flag d B (HS : rmat F) atol atol' : atol <= atol' ->
  gate_is_tp flag d B HS atol = true -> gate_is_tp flag d B HS atol' = true.
Proof. intros H. unfold gate_is_tp, gate_is_tp_row, gate_is_tp_trace. destruct flag; apply allb_mono; intros a _.
  - now apply isclose_mono. - now apply ciscl_mono. Qed.
Theorem gate_is_cp_mono d B (HS : rmat F) atol atol' : atol <= atol' ->
  gate_is_cp d B HS atol = true -> gate_is_cp d B HS atol' = true.
Proof. intros H. now apply mutil_is_psd_mono. Qed.
Theorem mprocess_is_sum_tp_mono flag d B m (hss : nat -> rmat F) atol atol' : atol <= atol' ->
  mprocess_is_sum_tp flag d B m hss atol = true -> mprocess_is_sum_tp flag d B m hss atol' = true.
Proof. intros H. now apply gate_is_tp_mono. Qed.
Theorem mprocess_is_cp_mono d B m (hss : nat -> rmat F) atol atol' : atol <= atol' ->
  mprocess_is_cp d B m hss atol = true -> mprocess_is_cp d B m hss atol' = true.
Proof. intros H. unfold mprocess_is_cp. apply allb_mono; intros x _. now apply gate_is_cp_mono. Qed.

(* is_physical (conjunction), for explicit tolerances and for the Settings default alike *)
Theorem state_is_physical_mono st st' rtol d B (v : rvec F) aeq aeq' aineq aineq' :
  resolve_atol st aeq <= resolve_atol st' aeq' -> resolve_atol st aineq <= resolve_atol st' aineq' ->
  state_is_physical st rtol d B v aeq aineq = true -> state_is_physical st' rtol d B v aeq' aineq' = true.
Proof. intros H1 H2. unfold state_is_physical. rewrite !andb_true_iff. intros [A C]. split.
  - now apply (state_is_trace_one_mono d B v _ _ rtol H1). - now apply (state_is_psd_mono d B v _ _ H2). Qed.
Theorem povm_is_physical_mono st st' rtol d B m (vs : nat -> rvec F) aeq aeq' aineq aineq' :
  resolve_atol st aeq <= resolve_atol st' aeq' -> resolve_atol st aineq <= resolve_atol st' aineq' ->
  povm_is_physical st rtol d B m vs aeq aineq = true -> povm_is_physical st' rtol d B m vs aeq' aineq' = true.
Proof. intros H1 H2. unfold povm_is_physical. rewrite !andb_true_iff. intros [A C]. split.
  - now apply (povm_is_identity_sum_mono d B m vs _ _ rtol H1). - now apply (povm_is_psd_mono d B m vs _ _ H2). Qed.
Theorem gate_is_physical_mono st st' flag d B (HS : rmat F) aeq aeq' aineq aineq' :
  resolve_atol st aeq <= resolve_atol st' aeq' -> resolve_atol st aineq <= resolve_atol st' aineq' ->
  gate_is_physical st flag d B HS aeq aineq = true -> gate_is_physical st' flag d B HS aeq' aineq' = true.
Proof. intros H1 H2. unfold gate_is_physical. rewrite !andb_true_iff. intros [A C]. split.
  - now apply (gate_is_tp_mono flag d B HS _ _ H1). - now apply (gate_is_cp_mono d B HS _ _ H2). Qed.
Theorem mprocess_is_physical_mono st st' flag d B m (hss : nat -> rmat F) aeq aeq' aineq aineq' :
  resolve_atol st aeq <= resolve_atol st' aeq' -> resolve_atol st aineq <= resolve_atol st' aineq' ->
  mprocess_is_physical st flag d B m hss aeq aineq = true -> mprocess_is_physical st' flag d B m hss aeq' aineq' = true.
Proof. intros H1 H2. unfold mprocess_is_physical. rewrite !andb_true_iff. intros [A C]. split.
  - now apply (mprocess_is_sum_tp_mono flag d B m hss _ _ H1). - now apply (mprocess_is_cp_mono d B m hss _ _ H2). Qed.

(* ------------------------------------------------------------------ (e) constructors: raise iff required and not physical; loosening Settings never turns acceptance into a raise *)
Lemma ctor_raises_iff required physical : ctor_raises required physical = true <-> (required = true /\ physical = false).
Proof. unfold ctor_raises. destruct required, physical; cbn; intuition congruence. Qed.
Theorem state_ctor_raises_iff st rtol d B (v : rvec F) required :
  state_ctor_raises st rtol d B v required = true <-> (required = true /\ state_is_physical st rtol d B v None None = false).
Proof. apply ctor_raises_iff. Qed.
Theorem povm_ctor_raises_iff st rtol d B m (vs : nat -> rvec F) required :
  povm_ctor_raises st rtol d B m vs required = true <-> (required = true /\ povm_is_physical st rtol d B m vs None None = false).
Proof. apply ctor_raises_iff. Qed.
Theorem gate_ctor_raises_iff st flag d B (HS : rmat F) required :
  gate_ctor_raises st flag d B HS required = true <-> (required = true /\ gate_is_physical st flag d B HS None None = false).
Proof. apply ctor_raises_iff. Qed.
Theorem mprocess_ctor_raises_iff st flag d B m (hss : nat -> rmat F) required :
  mprocess_ctor_raises st flag d B m hss required = true <->
  (flag = false \/ (required = true /\ mprocess_is_physical st flag d B m hss None None = false)).
Proof. unfold mprocess_ctor_raises. rewrite orb_true_iff, ctor_raises_iff, negb_true_iff. reflexivity. Qed.
Lemma ctor_accept_mono required p p' : (p = true -> p' = true) -> ctor_raises required p = false -> ctor_raises required p' = false.
Proof. unfold ctor_raises. destruct required, p, p'; cbn; intuition congruence. Qed.
Theorem state_ctor_accept_mono st st' rtol d B (v : rvec F) required : st <= st' ->
  state_ctor_raises st rtol d B v required = false -> state_ctor_raises st' rtol d B v required = false.
Proof. intros H. apply ctor_accept_mono. now apply state_is_physical_mono. Qed.
Theorem povm_ctor_accept_mono st st' rtol d B m (vs : nat -> rvec F) required : st <= st' ->
  povm_ctor_raises st rtol d B m vs required = false -> povm_ctor_raises st' rtol d B m vs required = false.
Proof. intros H. apply ctor_accept_mono. now apply povm_is_physical_mono. Qed.
Theorem gate_ctor_accept_mono st st' flag d B (HS : rmat F) required : st <= st' ->
  gate_ctor_raises st flag d B HS required = false -> gate_ctor_raises st' flag d B HS required = false.
Proof. intros H. apply ctor_accept_mono. now apply gate_is_physical_mono. Qed.
Theorem mprocess_ctor_accept_mono st st' flag d B m (hss : nat -> rmat F) required : st <= st' ->
  mprocess_ctor_raises st flag d B m hss required = false -> mprocess_ctor_raises st' flag d B m hss required = false.
Proof. intros H. unfold mprocess_ctor_raises. rewrite !orb_false_iff. intros [A C]. split; [exact A|].
  revert C. apply ctor_accept_mono. now apply mprocess_is_physical_mono. Qed.

(* ------------------------------------------------------------------ Choi matrix *)
Lemma div_lt_sq i d : (i < d * d)%nat -> (i / d < d)%nat.
Proof. intros H. apply Nat.div_lt_upper_bound; [intros ->; lia|exact H]. Qed.
Lemma mod_lt_sq i d : (i < d * d)%nat -> (i mod d < d)%nat.
Proof. intros H. apply Nat.mod_upper_bound. intros ->; lia. Qed.
Lemma choi_hermitian d B (HS : rmat F) : basis_hermitian d B -> hermitian (d * d) (choi_of_hs d B HS).
Proof. intros HB i j Hi Hj. unfold choi_of_hs. rewrite zconj_sumn. apply sumn_ext; intros a Ha.
  rewrite zconj_sumn. apply sumn_ext; intros b Hb. unfold bbc, kron, cconj.
  rewrite (HB a Ha (i / d)%nat (j / d)%nat (div_lt_sq i d Hi) (div_lt_sq j d Hj)).
  rewrite (HB b Hb (i mod d)%nat (j mod d)%nat (mod_lt_sq i d Hi) (mod_lt_sq j d Hj)).
  destruct (B a (j / d)%nat (i / d)%nat) as [p q], (B b (j mod d)%nat (i mod d)%nat) as [r s2]. apply cplx_eq; cbn; ring. Qed.
(* the re-associated evaluation order used for execution computes the same matrix *)
Lemma choi_assoc_eq d B (HS : rmat F) i j : choi_assoc d B (choi_inner d B HS) i j = choi_of_hs d B HS i j.
Proof. unfold choi_assoc, choi_inner, choi_of_hs. apply sumn_ext; intros a Ha. rewrite <- sumn_scale_l.
  apply sumn_ext; intros b Hb. unfold bbc, kron, cconj.
  destruct (B a (i / d)%nat (j / d)%nat) as [p q], (B b (i mod d)%nat (j mod d)%nat) as [r s2]. apply cplx_eq; cbn; ring. Qed.
Lemma choi_assoc_ext d B (T T' : nat -> cmat F) i j : (i < d * d)%nat -> (j < d * d)%nat ->
  (forall a, (a < d * d)%nat -> meq d d (T a) (T' a)) -> choi_assoc d B T i j = choi_assoc d B T' i j.
Proof. intros Hi Hj E. unfold choi_assoc. apply sumn_ext; intros a Ha.
  now rewrite (E a Ha _ _ (mod_lt_sq i d Hi) (mod_lt_sq j d Hj)). Qed.

(* CP verdict for a Hermitian basis: Choi + atol*I >= 0 ; atol = 0 : Choi >= 0 *)
Theorem gate_is_cp_iff d B (HS : rmat F) atol : basis_hermitian d B -> 0 <= atol ->
  (gate_is_cp d B HS atol = true <-> forall x : cvec F, 0 <= hqf (d * d) (choi_of_hs d B HS) x + atol * cnorm2 (d * d) x).
Proof. intros HB Ha. apply mutil_is_psd_spec_herm; [now apply choi_hermitian|exact Ha]. Qed.
Theorem state_is_psd_iff d B (v : rvec F) atol : basis_hermitian d B -> 0 <= atol ->
  (state_is_psd d B v atol = true <-> forall x : cvec F, 0 <= hqf d (op_of_vec d B v) x + atol * cnorm2 d x).
Proof. intros HB Ha. apply mutil_is_psd_spec_herm; [now apply op_of_vec_hermitian|exact Ha]. Qed.
Theorem povm_is_psd_iff d B m (vs : nat -> rvec F) atol : basis_hermitian d B -> 0 <= atol ->
  (povm_is_psd d B m vs atol = true <->
   forall k, (k < m)%nat -> forall x : cvec F, 0 <= hqf d (op_of_vec d B (vs k)) x + atol * cnorm2 d x).
Proof. intros HB Ha. unfold povm_is_psd. rewrite allb_spec. split; intros A k Hk.
  - apply (mutil_is_psd_spec_herm d _ atol (op_of_vec_hermitian d B (vs k) HB) Ha). now apply A.
  - apply (mutil_is_psd_spec_herm d _ atol (op_of_vec_hermitian d B (vs k) HB) Ha). now apply A. Qed.
Theorem mprocess_is_cp_iff d B m (hss : nat -> rmat F) atol : basis_hermitian d B -> 0 <= atol ->
  (mprocess_is_cp d B m hss atol = true <->
   forall k, (k < m)%nat -> forall x : cvec F, 0 <= hqf (d * d) (choi_of_hs d B (hss k)) x + atol * cnorm2 (d * d) x).
Proof. intros HB Ha. unfold mprocess_is_cp. rewrite allb_spec. split; intros A k Hk.
  - apply (gate_is_cp_iff d B (hss k) atol HB Ha). now apply A.
  - apply (gate_is_cp_iff d B (hss k) atol HB Ha). now apply A. Qed.

(* ------------------------------------------------------------------ (f) origin and zero objects *)
Lemma knat_nonneg n : 0 <= knat n.
Proof. unfold knat. induction n as [|n IH]; cbn [sumn]; [apply k_refl|]. apply add_nonneg; [exact IH|apply one_nonneg]. Qed.
Lemma knat_neq0 n : (0 < n)%nat -> knat n <> 0.
Proof. destruct n as [|n]; [lia|]. intros _ E. apply (one_neq_zero F). apply (k_antisym F); [|apply one_nonneg].
  assert (E1 : 1 = - knat n). { unfold knat in *. cbn [sumn] in E. replace (- sumn n (fun _ => 1)) with (- sumn n (fun _ => 1) + 0) by ring. rewrite <- E. ring. }
  rewrite E1. apply opp_nonpos. apply knat_nonneg. Qed.
Lemma sumn_const n (c : F) : sumn n (fun _ => c) = knat n * c.
Proof. unfold knat. induction n as [|n IH]; cbn [sumn]; [ring|]. rewrite IH. ring. Qed.
Lemma sumn_const_zof n (c : F) : sumn n (fun _ => zof c : Cx) = zof (knat n * c).
Proof. unfold knat. induction n as [|n IH]; cbn [sumn]. { apply cplx_eq; cbn; ring. }
  rewrite IH. apply cplx_eq; cbn; ring. Qed.
Lemma sd_neq0 d sd : sd * sd = knat d -> (0 < d)%nat -> sd <> 0.
Proof. intros E Hd Z. apply (knat_neq0 d Hd). rewrite <- E, Z. ring. Qed.

Definition vec_e0 (c : F) : rvec F := fun a => if Nat.eqb a O then c else 0.
Definition hs_e00 (c : F) : rmat F := fun a b => if Nat.eqb a O && Nat.eqb b O then c else 0.
Definition cscalar (c : F) : cmat F := fun i j => if Nat.eqb i j then zof c else c0 Cx.

Lemma op_of_vec_e0 d B c i j : (0 < d)%nat -> op_of_vec d B (vec_e0 c) i j = cmul Cx (zof c) (B O i j).
Proof. intros Hd. unfold op_of_vec, vec_e0.
  rewrite (sumn_ext (d * d) _ (fun a => if Nat.eqb a O then cmul Cx (zof c) (B a i j) else c0 Cx)).
  2:{ intros a _. destruct (Nat.eqb a O); [reflexivity|]. destruct (B a i j); apply cplx_eq; cbn; ring. }
  rewrite (sumn_delta (d * d) O (fun a => cmul Cx (zof c) (B a i j))) by nia. reflexivity. Qed.
Lemma basis0_entry d sd B i j : basis_0th_identity d sd B -> sd <> 0 -> (i < d)%nat -> (j < d)%nat ->
  B O i j = cscalar (1 / sd) i j.
Proof. intros H0 Hn Hi Hj. transitivity (cmul Cx (zof (1 / sd)) (cmul Cx (zof sd) (B O i j))).
  { destruct (B O i j); apply cplx_eq; cbn; field; exact Hn. }
  rewrite (H0 i j Hi Hj). unfold cscalar. destruct (Nat.eqb i j); apply cplx_eq; cbn; ring. Qed.
Lemma op_of_vec_e0_scalar d sd B c : basis_0th_identity d sd B -> sd <> 0 -> (0 < d)%nat ->
  meq d d (op_of_vec d B (vec_e0 c)) (cscalar (c / sd)).
Proof. intros H0 Hn Hd i j Hi Hj. rewrite (op_of_vec_e0 d B c i j Hd), (basis0_entry d sd B i j H0 Hn Hi Hj).
  unfold cscalar. destruct (Nat.eqb i j); apply cplx_eq; cbn; field; exact Hn. Qed.
Lemma mutil_is_psd_cscalar n (H : cmat F) c atol : meq n n H (cscalar c) -> 0 <= c -> 0 <= atol -> mutil_is_psd n H atol = true.
Proof. intros E. apply mutil_is_psd_scalar. intros i j Hi Hj. exact (E i j Hi Hj). Qed.
Lemma mtrace_cscalar n (H : cmat F) c : meq n n H (cscalar c) -> mtrace n H = zof (knat n * c).
Proof. intros E. unfold mtrace. rewrite (sumn_ext n _ (fun _ => zof c : Cx)).
  2:{ intros i Hi. rewrite (E i i Hi Hi). unfold cscalar. now rewrite Nat.eqb_refl. }
  apply sumn_const_zof. Qed.

(* State *)
Theorem state_origin_physical st rtol d sd B aeq aineq :
  basis_0th_identity d sd B -> sd * sd = knat d -> (0 < d)%nat ->
  0 <= resolve_atol st aeq -> 0 <= resolve_atol st aineq -> 0 <= rtol ->
  state_is_physical st rtol d B (state_origin sd) aeq aineq = true.
Proof. intros H0 Hsd Hd Ha1 Ha2 Hr. pose proof (sd_neq0 d sd Hsd Hd) as Hn.
  pose proof (op_of_vec_e0_scalar d sd B (1 / sd) H0 Hn Hd) as E. change (vec_e0 (1 / sd)) with (state_origin sd) in E.
  unfold state_is_physical. apply andb_true_iff. split.
  - unfold state_is_trace_one, state_trace. rewrite (mtrace_cscalar d _ _ E).
    replace (knat d * (1 / sd / sd)) with 1 by (rewrite <- Hsd; field; exact Hn).
    apply (ciscl_zero (c1 Cx)); [exact Ha1|exact Hr|apply one_nonneg].
  - unfold state_is_psd. apply (mutil_is_psd_cscalar d _ _ _ E); [|exact Ha2].
    replace (1 / sd / sd) with ((1 / sd) * (1 / sd)) by (field; exact Hn). apply sqr_nonneg. Qed.
Theorem state_zero_is_zero_operator d B i j : op_of_vec d B (@state_zero F) i j = c0 Cx.
Proof. unfold op_of_vec, state_zero. apply sumn_zero'. intros a _. destruct (B a i j); apply cplx_eq; cbn; ring. Qed.

(* Povm *)
Theorem povm_origin_physical st rtol d sd B m aeq aineq :
  basis_0th_identity d sd B -> sd * sd = knat d -> (0 < d)%nat -> (0 < m)%nat ->
  0 <= resolve_atol st aeq -> 0 <= resolve_atol st aineq -> 0 <= rtol ->
  povm_is_physical st rtol d B m (povm_origin sd m) aeq aineq = true.
Proof. intros H0 Hsd Hd Hm Ha1 Ha2 Hr. pose proof (sd_neq0 d sd Hsd Hd) as Hn. pose proof (knat_neq0 m Hm) as Hk.
  assert (E : forall x, meq d d (op_of_vec d B (povm_origin sd m x)) (cscalar (1 / knat m))).
  { intros x. replace (1 / knat m) with (sd / knat m / sd) by (field; split; assumption).
    exact (op_of_vec_e0_scalar d sd B (sd / knat m) H0 Hn Hd). }
  unfold povm_is_physical. apply andb_true_iff. split.
  - unfold povm_is_identity_sum. apply all2_spec; intros i j Hi Hj.
    replace (povm_sum d B m (povm_origin sd m) i j) with (cdelta i j : Cx).
    { apply ciscl_zero; [exact Ha1|exact Hr|]. unfold rdelta. destruct (Nat.eqb i j); [apply one_nonneg|apply k_refl]. }
    unfold povm_sum. rewrite (sumn_ext m _ (fun _ => cscalar (1 / knat m) i j)) by (intros x _; apply (E x i j Hi Hj)).
    unfold cscalar, cdelta. destruct (Nat.eqb i j).
    + rewrite sumn_const_zof. replace (knat m * (1 / knat m)) with 1 by (field; exact Hk). reflexivity.
    + now rewrite sumn_zero.
  - unfold povm_is_psd. apply allb_spec; intros x _. apply (mutil_is_psd_cscalar d _ _ _ (E x)); [|exact Ha2].
    apply inv_nonneg; [exact Hk|apply knat_nonneg]. Qed.
Theorem povm_zero_is_zero_operator d B x i j : op_of_vec d B (@povm_zero F x) i j = c0 Cx.
Proof. apply state_zero_is_zero_operator. Qed.

(* Gate / MProcess : HS = c * e_00 *)
Lemma sum_e00 n c (X : nat -> nat -> Cx) : (0 < n)%nat ->
  sumn n (fun a => sumn n (fun b => cmul Cx (zof (hs_e00 c a b)) (X a b))) = cmul Cx (zof c) (X O O).
Proof. intros Hn.
  rewrite (sumn_ext n _ (fun a => if Nat.eqb a O then cmul Cx (zof c) (X a O) else c0 Cx)).
  2:{ intros a _. unfold hs_e00. destruct (Nat.eqb a O); cbn [andb].
      - rewrite (sumn_ext n _ (fun b => if Nat.eqb b O then cmul Cx (zof c) (X a b) else c0 Cx)).
        2:{ intros b _. destruct (Nat.eqb b O); [reflexivity|]. destruct (X a b); apply cplx_eq; cbn; ring. }
        now rewrite (sumn_delta n O (fun b => cmul Cx (zof c) (X a b)) Hn).
      - apply sumn_zero'. intros b _. destruct (X a b); apply cplx_eq; cbn; ring. }
  now rewrite (sumn_delta n O (fun a => cmul Cx (zof c) (X a O)) Hn). Qed.
Lemma divmod_eqb d i j : (0 < d)%nat -> (Nat.eqb (i / d) (j / d) && Nat.eqb (i mod d) (j mod d))%bool = Nat.eqb i j.
Proof. intros Hd. destruct (Nat.eqb_spec i j) as [->|N]. { now rewrite !Nat.eqb_refl. }
  destruct (Nat.eqb_spec (i / d) (j / d)) as [E1|]; [|reflexivity].
  destruct (Nat.eqb_spec (i mod d) (j mod d)) as [E2|]; [|reflexivity]. exfalso. apply N.
  rewrite (Nat.div_mod_eq i d), (Nat.div_mod_eq j d), E1, E2. reflexivity. Qed.
Lemma choi_e00 d sd B c : basis_0th_identity d sd B -> sd <> 0 -> (0 < d)%nat ->
  meq (d * d) (d * d) (choi_of_hs d B (hs_e00 c)) (cscalar (c / sd / sd)).
Proof. intros H0 Hn Hd i j Hi Hj. unfold choi_of_hs. rewrite (sum_e00 (d * d) c (fun a b => bbc d B a b i j)) by nia.
  unfold bbc, kron, cconj.
  rewrite (basis0_entry d sd B _ _ H0 Hn (div_lt_sq i d Hi) (div_lt_sq j d Hj)).
  rewrite (basis0_entry d sd B _ _ H0 Hn (mod_lt_sq i d Hi) (mod_lt_sq j d Hj)).
  unfold cscalar. rewrite <- (divmod_eqb d i j Hd).
  destruct (Nat.eqb (i / d) (j / d)), (Nat.eqb (i mod d) (j mod d)); cbn [andb]; apply cplx_eq; cbn; field; exact Hn. Qed.
Lemma gate_is_cp_e00 d sd B c atol : basis_0th_identity d sd B -> sd <> 0 -> (0 < d)%nat -> 0 <= c -> 0 <= atol ->
  gate_is_cp d B (hs_e00 c) atol = true.
Proof. intros H0 Hn Hd Hc Ha. unfold gate_is_cp. apply (mutil_is_psd_cscalar _ _ _ _ (choi_e00 d sd B c H0 Hn Hd)); [|exact Ha].
  replace (c / sd / sd) with (c * ((1 / sd) * (1 / sd))) by (field; exact Hn). apply k_mul; [exact Hc|apply sqr_nonneg]. Qed.
Lemma gate_is_tp_row_e00 d atol : 0 <= atol -> gate_is_tp_row d (hs_e00 1) atol = true.
Proof. intros Ha. apply gate_tp_row_iff. intros a _. unfold hs_e00, rdelta. rewrite Nat.eqb_refl. cbn [andb]. rewrite (Nat.eqb_sym a O).
  replace ((if Nat.eqb O a then 1 else 0) - (if Nat.eqb O a then 1 else 0)) with 0 by ring. now rewrite kabs_zero. Qed.
Lemma gate_is_tp_ext flag d B (HS HS' : rmat F) atol : (0 < d)%nat -> meq (d * d) (d * d) HS HS' ->
  gate_is_tp flag d B HS atol = gate_is_tp flag d B HS' atol.
Proof. intros Hd E. unfold gate_is_tp, gate_is_tp_row, gate_is_tp_trace. destruct flag; apply allb_ext; intros a Ha.
  - now rewrite (E O a ltac:(nia) Ha).
  - unfold gate_image_trace. f_equal. unfold mtrace. apply sumn_ext; intros i Hi. apply op_of_vec_ext. intros b Hb. now apply E. Qed.
Lemma gate_is_tp_e00 flag d sd B atol :
  (flag = false -> basis_orthonormal d B) -> basis_0th_identity d sd B -> sd <> 0 -> 0 <= sd -> (0 < d)%nat -> 0 <= atol ->
  gate_is_tp flag d B (hs_e00 1) atol = true.
Proof. intros Ho H0 Hn Hs Hd Ha. destruct flag; cbn [gate_is_tp]. { now apply gate_is_tp_row_e00. }
  replace atol with (sd * (atol / sd)) by (field; exact Hn).
  rewrite (gate_tp_branches_agree d sd B _ _ (Ho eq_refl) H0 Hd Hs Hn). apply gate_is_tp_row_e00.
  replace (atol / sd) with (atol * (1 / sd)) by (field; exact Hn). apply k_mul; [exact Ha|now apply inv_nonneg]. Qed.

(* the origin gate is physical: under the first-row branch for every basis with B_0 = I/sd, under the trace branch when the basis is moreover orthonormal *)
Theorem gate_origin_physical st flag d sd B aeq aineq :
  (flag = false -> basis_orthonormal d B) -> basis_0th_identity d sd B -> sd * sd = knat d -> 0 <= sd -> (0 < d)%nat ->
  0 <= resolve_atol st aeq -> 0 <= resolve_atol st aineq ->
  gate_is_physical st flag d B (@gate_origin F) aeq aineq = true.
Proof. intros Ho H0 Hsd Hs Hd Ha1 Ha2. pose proof (sd_neq0 d sd Hsd Hd) as Hn.
  unfold gate_is_physical. apply andb_true_iff. split.
  - exact (gate_is_tp_e00 flag d sd B _ Ho H0 Hn Hs Hd Ha1).
  - exact (gate_is_cp_e00 d sd B 1 _ H0 Hn Hd (one_nonneg F) Ha2). Qed.
Theorem gate_zero_is_zero_operator d B (v : rvec F) i j :
  choi_of_hs d B (@gate_zero F) i j = c0 Cx /\ op_of_vec d B (mv (d * d) (@gate_zero F) v) i j = c0 Cx.
Proof. split.
  - unfold choi_of_hs, gate_zero. apply sumn_zero'. intros a _. apply sumn_zero'. intros b _.
    destruct (bbc d B a b i j); apply cplx_eq; cbn; ring.
  - unfold op_of_vec. apply sumn_zero'. intros a _.
    assert (Z : mv (d * d) (@gate_zero F) v a = 0). { unfold mv, gate_zero. apply sumn_zero'. intros; ring. }
    rewrite Z. destruct (B a i j); apply cplx_eq; cbn; ring. Qed.

Theorem mprocess_origin_physical st flag d sd B m aeq aineq :
  (flag = false -> basis_orthonormal d B) -> basis_0th_identity d sd B -> sd * sd = knat d -> 0 <= sd -> (0 < d)%nat -> (0 < m)%nat ->
  0 <= resolve_atol st aeq -> 0 <= resolve_atol st aineq ->
  mprocess_is_physical st flag d B m (mprocess_origin m) aeq aineq = true.
Proof. intros Ho H0 Hsd Hs Hd Hm Ha1 Ha2. pose proof (sd_neq0 d sd Hsd Hd) as Hn. pose proof (knat_neq0 m Hm) as Hk.
  unfold mprocess_is_physical. apply andb_true_iff. split.
  - unfold mprocess_is_sum_tp. rewrite (gate_is_tp_ext flag d B _ (hs_e00 1) _ Hd).
    + exact (gate_is_tp_e00 flag d sd B _ Ho H0 Hn Hs Hd Ha1).
    + intros a b _ _. unfold mprocess_sum_hs, mprocess_origin, hs_e00. rewrite sumn_const.
      destruct (Nat.eqb a O && Nat.eqb b O); field; exact Hk.
  - unfold mprocess_is_cp. apply allb_spec; intros x _.
    change (mprocess_origin m x) with (hs_e00 (1 / knat m)).
    apply (gate_is_cp_e00 d sd B _ _ H0 Hn Hd); [|exact Ha2]. apply inv_nonneg; [exact Hk|apply knat_nonneg]. Qed.
Theorem mprocess_zero_is_zero_operator d B x i j : choi_of_hs d B (@mprocess_zero F x) i j = c0 Cx.
Proof. exact (proj1 (gate_zero_is_zero_operator d B (fun _ => 0) i j)). Qed.
End C01Proofs.
