(* C18 — sparse tables = slow formulas; specification of the is_cp / is_physical verdict model; the nearest-PSD-point
   certificate (with slack) that the inequality-projection check evaluates on the dissipator matrix.
   Generic in the ordered field; axiom-free. *)
From Coq Require Import Field Ring Setoid Arith Lia Bool List.
From QV.Core Require Import OF Sums Mat Cplx Psd.
From QV.Model Require Import QObj HermEmbed C18_Lindblad.
From QV.Proofs Require Import C18_Algebra C18_Misc.
Import ListNotations.

Section Sparse.
Context (F : OF).
Add Field Ffs : (k_field F).
Notation Cx := (CF F).
Add Ring Crs : (c_ring Cx).
Notation cmat := (cmat F).
Notation "x *c y" := (cmul Cx x y) (at level 40, left associativity).
Variable d : nat.
Variable B : nat -> cmat.
Notation n := (d * d)%nat.
Notation m := (d * d - 1)%nat.

Theorem k_part_sparse_eq (K : cmat) s t : (t < n)%nat -> k_part_sparse d B K s t = k_part d B K s t.
Proof. intros Ht. unfold k_part_sparse, k_part, unvecr, mv. rewrite sumn_flat.
  apply (sumn_ext2 Cx). intros a b Ha Hb. unfold tab_k, vecr.
  destruct (divmod_flat a b m Hb) as [-> ->]. destruct (divmod_flat s t n Ht) as [-> ->]. ring. Qed.
Theorem j_of_k_sparse_eq (K : cmat) i j : (j < d)%nat -> j_of_k_sparse d B K i j = j_of_k d B K i j.
Proof. intros Hj. unfold j_of_k_sparse, j_of_k, mscale, unvecr, mv. f_equal. rewrite sumn_flat.
  apply (sumn_ext2 Cx). intros a b Ha Hb. unfold tab_j, vecr.
  destruct (divmod_flat a b m Hb) as [-> ->]. destruct (divmod_flat i j d Hj) as [-> ->]. ring. Qed.
End Sparse.

Section Verdict.
Context (F : OF).
Add Field Ffw : (k_field F).
Notation Cx := (CF F).
Add Ring Crw : (c_ring Cx).
Notation "0" := (c0 F). Notation "1" := (c1 F).
Infix "+" := (cadd F). Infix "*" := (cmul F). Infix "<=" := (kle F). Infix "-" := (csub F).
Notation "- x" := (copp F x).
Notation cmat := (cmat F).
Notation rmat := (rmat F).

(* ---------------------------------------------------------------- Hermitian part, real embedding *)
Lemma half_conj : zconj (zof (half F) : Cx) = zof (half F). Proof. apply cj_zof. Qed.
Lemma herm_part_hermitian k (K : cmat) : hermitian k (herm_part K).
Proof. intros i j _ _. unfold herm_part. rewrite cj_mul, cj_add, cj_cj, half_conj. ring. Qed.
Lemma herm_im (H : cmat) i j : H i j = zconj (H j i) -> im (H i j) = - im (H j i).
Proof. intros E. rewrite E. reflexivity. Qed.
Lemma herm_re (H : cmat) i j : H i j = zconj (H j i) -> re (H i j) = re (H j i).
Proof. intros E. rewrite E. reflexivity. Qed.
Lemma embed_symmetric k (H : cmat) : hermitian k H -> symmetric F (k + k) (embed F k H).
Proof. intros HH i j Hi Hj. unfold embed.
  destruct (Nat.ltb_spec i k) as [A|A], (Nat.ltb_spec j k) as [C|C].
  - apply herm_re. now apply HH.
  - rewrite (herm_im H i (j - k)%nat) by (apply HH; lia). ring.
  - rewrite (herm_im H j (i - k)%nat) by (apply HH; lia). ring.
  - apply herm_re. apply HH; lia. Qed.
Lemma shiftI_symmetric k t (M : rmat) : symmetric F k M -> symmetric F k (shiftI F t M).
Proof. intros HM i j Hi Hj. unfold shiftI. rewrite (Nat.eqb_sym j i). destruct (Nat.eqb i j); now rewrite (HM i j Hi Hj). Qed.

(* is_cp(atol) in the model: K Hermitian within atol and its Hermitian part + atol I positive semidefinite *)
Theorem is_cp_dec_spec d (B : nat -> cmat) atol (HS : rmat) :
  let K := calc_k_mat d B (cb_of_hs d B HS) in let k := (d * d - 1)%nat in
  is_cp_dec F d B atol HS = true <->
  (forall i j, (i < k)%nat -> (j < k)%nat -> znorm2 (csub Cx (K i j) (zconj (K j i))) <= atol * atol) /\
  PSD F (k + k) (shiftI F atol (embed F k (herm_part K))).
Proof. intros K k. unfold is_cp_dec. fold K. fold k. rewrite andb_true_iff. unfold herm_tol, herm_psd_dec.
  rewrite (psd_dec_spec F (k + k) _ (shiftI_symmetric (k + k) atol _ (embed_symmetric k _ (herm_part_hermitian k K)))).
  rewrite allb_spec. split; intros [A C]; (split; [|exact C]).
  - intros i j Hi Hj. specialize (A i Hi). rewrite allb_spec in A. now apply k_leb, A.
  - intros i Hi. rewrite allb_spec. intros j Hj. now apply k_leb, A. Qed.
Theorem is_physical_dec_spec d (B : nat -> cmat) atol (HS : rmat) :
  is_physical_dec F d B atol HS = true <-> is_tp_dec F (d * d) atol HS = true /\ is_cp_dec F d B atol HS = true.
Proof. unfold is_physical_dec. apply andb_true_iff. Qed.

(* ---------------------------------------------------------------- nearest PSD point: certificate with slack *)
Notation inner k A C := (@Mat.inner F k k A C).
Lemma inner_shiftI k t (M Z : rmat) : inner k (shiftI F t M) Z = inner k M Z + t * mtrace k Z.
Proof. unfold Mat.inner, mtrace. rewrite <- sumn_scale_l, <- sumn_add. apply sumn_ext; intros i Hi.
  rewrite <- (sumn_delta k i (fun j => t * Z i j) Hi). rewrite <- sumn_add. apply sumn_ext; intros j Hj.
  unfold shiftI. rewrite (Nat.eqb_sym j i). destruct (Nat.eqb i j); ring. Qed.
Lemma dist2_expand k (X Y Z : rmat) :
  dist2 F k Y Z = dist2 F k Y X + dist2 F k X Z + (inner k (msub Y X) (msub X Z) + inner k (msub Y X) (msub X Z)).
Proof. unfold dist2, Mat.inner, msub. rewrite <- !sumn_add. apply sumn_ext; intros i _.
  rewrite <- !sumn_add. apply sumn_ext; intros j _. ring. Qed.
Lemma inner_cross k (X Y Z : rmat) : inner k (msub Y X) (msub X Z) = inner k (msub X Y) Z - inner k (msub X Y) X.
Proof. unfold Mat.inner, msub. rewrite <- sumn_sub. apply sumn_ext; intros i _.
  rewrite <- sumn_sub. apply sumn_ext; intros j _. ring. Qed.
Lemma msub_symmetric k (X Y : rmat) : symmetric F k X -> symmetric F k Y -> symmetric F k (msub X Y).
Proof. intros HX HY i j Hi Hj. unfold msub. now rewrite (HX i j Hi Hj), (HY i j Hi Hj). Qed.

(* X = the implementation's output, Y = the input.  If X - Y + eps I is PSD and <X, X - Y> <= delta then for EVERY PSD Z
   |Y - Z|^2 >= |Y - X|^2 + |X - Z|^2 - 2 delta - 2 eps tr Z ;  with eps = delta = 0 : X is the nearest PSD point (when X is
   PSD itself), in particular X = Y when Y is PSD. *)
Theorem psd_proj_certificate k (X Y Z : rmat) eps delta :
  symmetric F k X -> symmetric F k Y -> symmetric F k Z ->
  PSD F k (shiftI F eps (msub X Y)) -> inner k (msub X Y) X <= delta -> PSD F k Z ->
  dist2 F k Y X + dist2 F k X Z - (delta + delta) - (eps * mtrace k Z + eps * mtrace k Z) <= dist2 F k Y Z.
Proof. intros HX HY HZ HP Hd HZp.
  pose proof (psd_inner_nonneg F k _ Z (shiftI_symmetric k eps _ (msub_symmetric k X Y HX HY)) HZ HP HZp) as A.
  rewrite inner_shiftI in A.
  apply (proj1 (le_sub F _ _)) in Hd.
  rewrite (dist2_expand k X Y Z), inner_cross. apply (proj2 (le_sub F _ _)).
  set (P := inner k (msub X Y) Z) in *. set (Q := inner k (msub X Y) X) in *. set (T := mtrace k Z) in *.
  replace (dist2 F k Y X + dist2 F k X Z + (P - Q + (P - Q)) - (dist2 F k Y X + dist2 F k X Z - (delta + delta) - (eps * T + eps * T)))
    with ((P + eps * T) + (P + eps * T) + ((delta - Q) + (delta - Q))) by ring.
  apply add_nonneg; [apply add_nonneg; exact A|apply add_nonneg; exact Hd]. Qed.

Corollary psd_proj_exact k (X Y : rmat) :
  symmetric F k X -> symmetric F k Y -> PSD F k (msub X Y) -> inner k (msub X Y) X = 0 ->
  forall Z, symmetric F k Z -> PSD F k Z -> dist2 F k Y X + dist2 F k X Z <= dist2 F k Y Z.
Proof. intros HX HY HP Hd Z HZ HZp.
  assert (HP' : PSD F k (shiftI F 0 (msub X Y))).
  { intros x. specialize (HP x). unfold qf in *. erewrite sumn_ext; [exact HP|]. intros i _. apply sumn_ext; intros j _.
    unfold shiftI. destruct (Nat.eqb i j); ring. }
  pose proof (psd_proj_certificate k X Y Z 0 0 HX HY HZ HP') as A.
  rewrite Hd in A. specialize (A (k_refl F 0) HZp).
  replace (dist2 F k Y X + dist2 F k X Z - (0 + 0) - (0 * mtrace k Z + 0 * mtrace k Z)) with (dist2 F k Y X + dist2 F k X Z) in A by ring.
  exact A. Qed.
(* a PSD input is left unchanged by any output that passes the exact certificate *)
Lemma dist2_sym k (X Y : rmat) : dist2 F k X Y = dist2 F k Y X.
Proof. unfold dist2, Mat.inner, msub. apply sumn_ext; intros i _. apply sumn_ext; intros j _. ring. Qed.
Lemma dist2_refl k (X : rmat) : dist2 F k X X = 0.
Proof. unfold dist2, Mat.inner, msub. apply sumn_zero'. intros i _. apply sumn_zero'. intros j _. ring. Qed.
Lemma nonneg_double_zero a : 0 <= a -> a + a <= 0 -> a = 0.
Proof. intros Ha Hd. apply (k_antisym F); [|exact Ha].
  apply (k_trans F _ (a + a)); [|exact Hd].
  apply (proj2 (le_sub F a (a + a))). replace (a + a - a) with a by ring. exact Ha. Qed.
Lemma sumn_nonneg_zero k (f : nat -> F) : (forall i, (i < k)%nat -> 0 <= f i) -> sumn k f = 0 -> forall i, (i < k)%nat -> f i = 0.
Proof. induction k as [|k IH]; intros Hf E i Hi; [lia|]. cbn [sumn] in E.
  assert (A : 0 <= sumn k f) by (apply sumn_nonneg; intros; apply Hf; lia).
  assert (C : 0 <= f k) by (apply Hf; lia).
  assert (E1 : sumn k f = 0).
  { apply (k_antisym F); [|exact A]. replace (sumn k f) with (0 - f k) by (rewrite <- E; ring).
    apply (proj2 (le_sub F (0 - f k) 0)). replace (0 - (0 - f k)) with (f k) by ring. exact C. }
  destruct (Nat.eq_dec i k) as [->|Hne].
  - rewrite E1 in E. rewrite <- E. ring.
  - apply IH; [intros; apply Hf; lia|exact E1|lia]. Qed.
Lemma dist2_zero_meq k (X Y : rmat) : dist2 F k X Y = 0 -> meq k k X Y.
Proof. intros E i j Hi Hj. unfold dist2, Mat.inner in E.
  pose proof (sumn_nonneg_zero k _ (fun a _ => sumn_nonneg F k _ (fun b _ => sqr_nonneg F (msub X Y a b))) E i Hi) as E1.
  cbv beta in E1.
  pose proof (sumn_nonneg_zero k _ (fun b _ => sqr_nonneg F (msub X Y i b)) E1 j Hj) as E2. cbv beta in E2.
  assert (E3 : msub X Y i j = 0) by (apply (sum_sqr_zero F _ 0); rewrite E2; ring).
  unfold msub in E3. replace (X i j) with (X i j - Y i j + Y i j) by ring. rewrite E3. ring. Qed.
Theorem psd_proj_fixes_psd k (X Y : rmat) :
  symmetric F k X -> symmetric F k Y -> PSD F k (msub X Y) -> inner k (msub X Y) X = 0 -> PSD F k Y -> meq k k X Y.
Proof. intros HX HY HP Hd HYp. pose proof (psd_proj_exact k X Y HX HY HP Hd Y HY HYp) as A.
  rewrite dist2_refl, (dist2_sym k Y X) in A.
  apply dist2_zero_meq. apply nonneg_double_zero; [apply dist2_nonneg|exact A]. Qed.
End Verdict.
