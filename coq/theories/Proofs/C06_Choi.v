(* C06 — complete positivity as "the Choi matrix is positive semidefinite" (DESIGN 2.9) for everything composition builds from Kraus-form
   factors, and for the instruments Povm.generate_mprocess builds in modes 0 and 1:
     * a non-negative combination of rank-one matrices  sum_k c_k v_k v_k^dagger  is Hermitian-PSD (Re x^dagger H x >= 0 for all x);
     * the Choi matrix of hs_of_kraus Ks (any complete Hermitian basis) IS  sum_K vec(K) vec(K)^dagger  (row-major vec), hence PSD in the sense
       used by C01 / the harness ( Hermitian + PSD of the real symmetric embedding, decided by psd_dec );
     * hence Gate o Gate (and every HS product inside the other pairs) of Kraus-form factors has a PSD Choi matrix;
     * the comp-basis Choi matrix of the mode-0 instrument S (x) conj S and of the mode-1 instrument sum_g key_g P_g (x) conj P_g (keys >= 0)
       is PSD, and so is the Choi matrix of their conversion to any complete basis.
   Uses C02's library (Choi <-> HS, basis independence of the Choi matrix) and Core/C01_HermPsd.  Generic in the ordered field, axiom-free. *)
From Coq Require Import List Arith Bool Lia Ring.
From QV.Core Require Import OF Sums Mat Cplx Psd C01_HermPsd.
From QV.Model Require Import QObj HermEmbed C02_Conv C06_Compose C06_Spec.
From QV.Proofs Require Import C02_QObjBase C02_QObjMaps C02_Conv C06_Physical.
Import ListNotations.

Section Choi.
Context (F : OF).
Notation Cx := (CF F).
Add Ring Cxch : (c_ring Cx).
Add Ring Frch : (c_ring F).
Notation CM := (cmat F).
Notation CV := (cvec F).
Notation "x +c y" := (cadd Cx x y) (at level 50, left associativity).
Notation "x *c y" := (cmul Cx x y) (at level 40, left associativity).
Notation z0 := (c0 Cx).

(* ---------------------------------------------------------------- weighted sums of rank-one matrices are Hermitian-PSD *)
Definition wouter (cvs : list (F * CV)) : CM :=
  fun i j => fold_right (fun cv acc => zof (fst cv) *c (snd cv i *c zconj (snd cv j)) +c acc) z0 cvs.

Lemma znorm2_nonneg (z : Cx) : kle F (c0 F) (znorm2 z).
Proof. unfold znorm2. apply add_nonneg; apply sqr_nonneg. Qed.
Lemma zconj_cmul' (a b : Cx) : zconj (a *c b) = zconj a *c zconj b. Proof. apply (zconj_mul F). Qed.
Lemma zconj_cadd' (a b : Cx) : zconj (a +c b) = zconj a +c zconj b. Proof. apply (zconj_add F). Qed.

Lemma hqf_zero n x : hqf n (fun _ _ => z0) x = c0 F.
Proof. unfold hqf. rewrite (sumn_zero' n). { reflexivity. } intros i _. apply sumn_zero'. intros j _. ring. Qed.
Lemma hqf_add_scaled n (c : F) (A B : CM) x :
  hqf n (fun i j => zof c *c A i j +c B i j) x = cadd F (cmul F c (hqf n A x)) (hqf n B x).
Proof. unfold hqf.
  rewrite (sumn_ext n _ (fun i => zof c *c sumn n (fun j => zconj (x i) *c A i j *c x j) +c sumn n (fun j => zconj (x i) *c B i j *c x j))).
  2:{ intros i _. rewrite <- sumn_scale_l, <- sumn_add. apply sumn_ext; intros j _. ring. }
  rewrite sumn_add, sumn_scale_l. cbn [re cadd cmul CF zadd zmul zof fst snd]. cbn. ring. Qed.
(* x^dagger (v v^dagger) x = |<x, v>|^2 *)
Lemma hqf_rank_one n (v : CV) x : hqf n (fun i j => v i *c zconj (v j)) x = znorm2 (sumn n (fun i => zconj (x i) *c v i)).
Proof. unfold hqf. set (s := sumn n (fun i => zconj (x i) *c v i)).
  assert (E : sumn n (fun i => sumn n (fun j => zconj (x i) *c (v i *c zconj (v j)) *c x j)) = s *c zconj s).
  { unfold s. rewrite (zconj_sumn F). rewrite (sumn_mul n n (fun i => zconj (x i) *c v i)). apply sumn_ext; intros i _. apply sumn_ext; intros j _.
    rewrite zconj_cmul', (zconj_conj F). ring. }
  rewrite E. change (s *c zconj s) with (zmul s (zconj s)). rewrite (zmul_conj F). reflexivity. Qed.

Theorem wouter_hpsd n (cvs : list (F * CV)) : Forall (fun cv => kle F (c0 F) (fst cv)) cvs -> HPSD n (wouter cvs).
Proof. intros Hc x. induction Hc as [|cv cvs Hcv _ IH].
  - unfold wouter. cbn [fold_right]. rewrite hqf_zero. apply k_refl.
  - change (wouter (cv :: cvs)) with (fun i j => zof (fst cv) *c (snd cv i *c zconj (snd cv j)) +c wouter cvs i j).
    pose proof (hqf_add_scaled n (fst cv) (fun i j => snd cv i *c zconj (snd cv j)) (wouter cvs) x) as E. cbv beta in E.
    rewrite E, hqf_rank_one.
    apply add_nonneg; [|exact IH]. apply (k_mul F); [exact Hcv|apply znorm2_nonneg]. Qed.

(* the notion of PSD of C06_Spec / C01 / the harness (real symmetric embedding) *)
Theorem wouter_cpsd n (cvs : list (F * CV)) : Forall (fun cv => kle F (c0 F) (fst cv)) cvs -> hermitian n (wouter cvs) ->
  cpsd F n (wouter cvs).
Proof. intros Hc Hh. split; [exact Hh|]. apply (embed_PSD_iff F). now apply wouter_hpsd. Qed.
Lemma wouter_hermitian n (cvs : list (F * CV)) : hermitian n (wouter cvs).
Proof. intros i j _ _. unfold wouter. induction cvs as [|cv cvs IH]; cbn [fold_right].
  - apply cplx_eq; cbn; ring.
  - rewrite zconj_cadd', <- IH.
    rewrite !zconj_cmul', (zconj_zof F), (zconj_conj F). ring. Qed.

(* PSD is a property of the entries inside the index range *)
Lemma cpsd_ext n (A B : CM) : meq n n A B -> cpsd F n A -> cpsd F n B.
Proof. intros E [Hh HP]. split.
  - intros i j Hi Hj. rewrite <- (E i j Hi Hj), <- (E j i Hj Hi). now apply Hh.
  - apply (embed_PSD_iff F). intros x. rewrite <- (hqf_ext F n A B x x E (veq_refl n x)). revert x. now apply (embed_PSD_iff F). Qed.

(* ---------------------------------------------------------------- the Choi matrix of a Kraus-form map *)
Variable d : nat.
Definition kraus_vecs (Ks : list CM) : list (F * CV) := map (fun K => (c1 F, vecr d K)) Ks.

Lemma kraus_hs_cb_entry (Ks : list CM) al be : (al < d * d)%nat -> (be < d * d)%nat ->
  kraus_hs_cb d Ks ((al / d) * d + be / d)%nat ((al mod d) * d + be mod d)%nat = wouter (kraus_vecs Ks) al be.
Proof. intros Hal Hbe. destruct (divmod_lt d al Hal) as [A1 A2]. destruct (divmod_lt d be Hbe) as [B1 B2].
  unfold kraus_hs_cb, wouter, kraus_vecs. induction Ks as [|K Ks IH]; cbn [map fold_right fst snd]; [reflexivity|].
  rewrite IH. f_equal. unfold kron, cconj, vecr.
  destruct (divmod_flat (al / d) (be / d) d B1) as [-> ->]. destruct (divmod_flat (al mod d) (be mod d) d B2) as [-> ->].
  change (zof (c1 F)) with (c1 Cx). ring. Qed.

(* Choi(hs_of_kraus Ks) = sum_K vec(K) vec(K)^dagger, entry by entry, for any complete Hermitian basis *)
Theorem choi_of_kraus (B : nat -> CM) (Ks : list CM) al be : basis_complete d B -> basis_hermitian d B ->
  (al < d * d)%nat -> (be < d * d)%nat ->
  choi_of_hs d B (hs_of_kraus d B Ks) al be = wouter (kraus_vecs Ks) al be.
Proof. intros Hc Hh Hal Hbe. rewrite choi_of_hs_cchoi.
  rewrite (cchoi_of_hs_ext F d B (cof (hs_of_kraus d B Ks)) (chs_of_kraus d B Ks) al be).
  2:{ intros a b Ha Hb. unfold cof. symmetry. now apply chs_of_kraus_real. }
  rewrite (cchoi_of_hs_ext F d B (chs_of_kraus d B Ks) (chs_of_kraus_impl d B Ks) al be).
  2:{ intros a b _ _. symmetry. apply chs_of_kraus_impl_eq. }
  unfold chs_of_kraus_impl. rewrite (cchoi_convert_hs F d (comp_basis d) B (kraus_hs_cb d Ks) al be Hc Hal Hbe).
  rewrite (cchoi_comp F d (kraus_hs_cb d Ks) al be Hal Hbe). now apply kraus_hs_cb_entry. Qed.

Lemma kraus_vecs_nonneg (Ks : list CM) : Forall (fun cv => kle F (c0 F) (fst cv)) (kraus_vecs Ks).
Proof. unfold kraus_vecs. induction Ks; cbn [map]; constructor; [apply (one_nonneg F)|assumption]. Qed.

(* KRAUS FORM => PSD CHOI MATRIX *)
Theorem kraus_choi_cpsd (B : nat -> CM) (Ks : list CM) : basis_complete d B -> basis_hermitian d B ->
  cpsd F (d * d) (choi_of_hs d B (hs_of_kraus d B Ks)).
Proof. intros Hc Hh. apply (cpsd_ext (d * d) (wouter (kraus_vecs Ks))).
  - intros al be Hal Hbe. symmetry. now apply choi_of_kraus.
  - apply wouter_cpsd; [apply kraus_vecs_nonneg|apply wouter_hermitian]. Qed.

(* the Choi matrix depends only on the HS entries inside the range *)
Lemma choi_of_hs_ext (B : nat -> CM) (H H' : rmat F) : meq (d * d) (d * d) H H' ->
  meq (d * d) (d * d) (choi_of_hs d B H) (choi_of_hs d B H').
Proof. intros E i j _ _. rewrite !choi_of_hs_cchoi. apply cchoi_of_hs_ext. intros a b Ha Hb. unfold cof. now rewrite E. Qed.

(* COMPOSITION OF COMPLETELY POSITIVE (Kraus-form) MAPS IS COMPLETELY POSITIVE (PSD Choi): the HS product the code forms *)
Theorem compose_kraus_choi_cpsd (B : nat -> CM) (Ks1 Ks2 : list CM) : basis_complete d B -> basis_hermitian d B ->
  cpsd F (d * d) (choi_of_hs d B (gate_gate F (d * d) (hs_of_kraus d B Ks1) (hs_of_kraus d B Ks2))).
Proof. intros Hc Hh. apply (cpsd_ext (d * d) (choi_of_hs d B (hs_of_kraus d B (kraus_products F d Ks1 Ks2)))).
  - apply choi_of_hs_ext. intros a b Ha Hb. symmetry. now apply hs_of_kraus_compose.
  - now apply kraus_choi_cpsd. Qed.

(* ---------------------------------------------------------------- generate_mprocess, modes 0 and 1: comp-basis Choi matrices *)
Definition group_vecs (gs : list (F * CM)) : list (F * CV) := map (fun g => (fst g, vecr d (snd g))) gs.
Lemma groups_cb_entry (gs : list (F * CM)) al be : (al < d * d)%nat -> (be < d * d)%nat ->
  gm1_cb_of_groups F d gs ((al / d) * d + be / d)%nat ((al mod d) * d + be mod d)%nat = wouter (group_vecs gs) al be.
Proof. intros Hal Hbe. destruct (divmod_lt d al Hal) as [A1 A2]. destruct (divmod_lt d be Hbe) as [B1 B2].
  unfold gm1_cb_of_groups, wouter, group_vecs. induction gs as [|g gs IH]; cbn [map fold_right fst snd]; [reflexivity|].
  rewrite IH. f_equal. f_equal. unfold kron, cconj, vecr.
  destruct (divmod_flat (al / d) (be / d) d B1) as [-> ->]. destruct (divmod_flat (al mod d) (be mod d) d B2) as [-> ->].
  reflexivity. Qed.
(* every instrument of the form sum_g key_g P_g (x) conj P_g with keys >= 0 - mode 1 for a PSD effect, mode 0 with the single group (1, S) -
   has a PSD Choi matrix, in the comp basis and after conversion to any complete basis B *)
Theorem groups_choi_cpsd (B : nat -> CM) (gs : list (F * CM)) : basis_complete d B ->
  Forall (fun g => kle F (c0 F) (fst g)) gs ->
  cpsd F (d * d) (cchoi_of_hs d B (convert_hs d (comp_basis d) B (gm1_cb_of_groups F d gs))).
Proof. intros Hc Hk. apply (cpsd_ext (d * d) (wouter (group_vecs gs))).
  - intros al be Hal Hbe. rewrite (cchoi_convert_hs F d (comp_basis d) B _ al be Hc Hal Hbe).
    rewrite (cchoi_comp F d _ al be Hal Hbe). symmetry. now apply groups_cb_entry.
  - apply wouter_cpsd; [|apply wouter_hermitian]. unfold group_vecs. induction Hk; cbn [map]; constructor; assumption. Qed.
Lemma gm_mode0_as_groups (S : CM) r c : gm_mode0_cb F d S r c = gm1_cb_of_groups F d [(c1 F, S)] r c.
Proof. unfold gm_mode0_cb, gm1_cb_of_groups. cbn [fold_right fst snd]. change (zof (c1 F)) with (c1 Cx). ring. Qed.
Theorem gm_mode0_choi_cpsd (B : nat -> CM) (S : CM) : basis_complete d B ->
  cpsd F (d * d) (cchoi_of_hs d B (convert_hs d (comp_basis d) B (gm_mode0_cb F d S))).
Proof. intros Hc. apply (cpsd_ext (d * d) (cchoi_of_hs d B (convert_hs d (comp_basis d) B (gm1_cb_of_groups F d [(c1 F, S)])))).
  - intros al be Hal Hbe. apply cchoi_of_hs_ext. intros a b _ _. unfold convert_hs, mmul. apply sumn_ext; intros l _. f_equal.
    apply sumn_ext; intros k _. f_equal. symmetry. apply gm_mode0_as_groups.
  - apply groups_choi_cpsd; [exact Hc|]. constructor; [apply (one_nonneg F)|constructor]. Qed.
Theorem gm_mode1_choi_cpsd (B : nat -> CM) (tol : F) (w : nat -> F) (V : CM) : basis_complete d B ->
  Forall (fun g => kle F (c0 F) (fst g)) (gm1_groups F d (colouter F V) tol w) ->
  cpsd F (d * d) (cchoi_of_hs d B (convert_hs d (comp_basis d) B (gm_mode1_cb F d tol w V))).
Proof. intros Hc Hk. unfold gm_mode1_cb. now apply groups_choi_cpsd. Qed.
End Choi.
