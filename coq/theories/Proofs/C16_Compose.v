(* C16 — the table produced by measuring an ensemble (Model/C16_Compose.v) IS measure_all of the old table (Model/C16_Ensemble.v),
   so the layout theorem (Proofs/C16_Layout.v: measure_all_layout) applies to it: states and raw probabilities of the new ensemble are
   the first / second components of one table, laid out old-entry-major. *)
From Coq Require Import ZArith List Bool String Lia Arith.
From QV.Core Require Import OF.
From QV.Model Require Import IndexUtil Multinomial C16_PySem C16_Ensemble C16_Compose.
Import ListNotations.

Section ComposeProofs.
Context (F : OF) (tol : F) (St : Type).
Context (meas : St -> F -> pyres (list St * list F)) (zero_obj : St -> St).

Lemma combine_app {A B} (a a' : list A) (b b' : list B) : List.length a = List.length b ->
  combine (a ++ a') (b ++ b') = combine a b ++ combine a' b'.
Proof. revert b. induction a as [|x a IH]; intros [|y b] H; try discriminate; [reflexivity|]. cbn. f_equal. apply IH. now inversion H. Qed.

Lemma map_fst_combine {A B} (a : list A) : forall (b : list B), List.length a = List.length b -> map fst (combine a b) = a.
Proof. induction a as [|x a IH]; intros [|y b] H; try discriminate; [reflexivity|]. cbn. f_equal. apply IH. now inversion H. Qed.
Lemma map_snd_combine {A B} (a : list A) : forall (b : list B), List.length a = List.length b -> map snd (combine a b) = b.
Proof. induction a as [|x a IH]; intros [|y b] H; try discriminate; [reflexivity|]. cbn. f_equal. apply IH. now inversion H. Qed.

(* every old entry's measurement succeeded with M states and M probabilities *)
Definition blocks_ok (M : nat) (old : list (St * F)) : Prop :=
  forall s p, In (s, p) old -> exists a b, meas s p = PRet (a, b) /\ List.length a = M /\ List.length b = M.

Theorem collect_is_measure_all (M : nat) : forall old ss pp,
  collect F St meas old = PRet (ss, pp) -> blocks_ok M old ->
  List.length ss = List.length pp /\ combine ss pp = measure_all (block_of F St meas) old /\ List.length ss = (List.length old * M)%nat.
Proof. induction old as [|[s p] t IH]; intros ss pp H Hb; cbn [collect] in H.
  - inversion H; subst. repeat split; reflexivity.
  - destruct (Hb s p (or_introl eq_refl)) as [a [b [Em [La Lb]]]]. rewrite Em in H. cbn [pbind] in H.
    destruct (collect F St meas t) as [[ss' pp']|e] eqn:Ec; cbn [pbind] in H; [|discriminate].
    inversion H; subst ss pp. clear H.
    destruct (IH ss' pp' eq_refl) as [L1 [L2 L3]]. { intros s0 p0 Hin. apply Hb. now right. }
    split; [rewrite !app_length; lia|]. split.
    + rewrite combine_app by lia. unfold measure_all in *. cbn [flat_map]. rewrite <- L2. f_equal.
      unfold block_of. cbn [fst snd]. now rewrite Em.
    + rewrite app_length. cbn [List.length]. lia. Qed.

(* a raising measurement of an old entry aborts the whole composition with that exception (first in order) *)
Theorem collect_first_raise : forall pre s p post exc,
  (forall s0 p0, In (s0, p0) pre -> exists r, meas s0 p0 = PRet r) -> meas s p = PRaise exc ->
  collect F St meas (pre ++ (s, p) :: post) = PRaise exc.
Proof. induction pre as [|[s0 p0] pre IH]; intros s p post exc Hp Hm; cbn [app collect].
  - now rewrite Hm.
  - destruct (Hp s0 p0 (or_introl eq_refl)) as [[a b] E]. rewrite E. cbn [pbind].
    rewrite (IH s p post exc); [reflexivity| |exact Hm]. intros s1 p1 Hin. apply Hp. now right. Qed.

(* the new ensemble: its states are the first components of the measured table, the probabilities handed to the new
   distribution's constructor the second components, shape = old shape ++ outcome shape, eps_zero = max *)
Theorem compose_ens_table mshape mp_eps old_shape (e e' : ensemble F St) :
  compose_ens F tol St meas zero_obj mshape mp_eps old_shape e = PRet e' ->
  md_is_zero_dist F (ens_prob_dist e) = false ->
  blocks_ok (prodn mshape) (combine (ens_states e) (md_ps F (ens_prob_dist e))) ->
  let T := measure_all (block_of F St meas) (combine (ens_states e) (md_ps F (ens_prob_dist e))) in
  ens_states e' = map fst T /\
  md_new F tol (map snd T) (old_shape ++ mshape) = PRet (ens_prob_dist e') /\
  List.length T = (List.length (combine (ens_states e) (md_ps F (ens_prob_dist e))) * prodn mshape)%nat /\
  ens_eps_zero e' = py_max F mp_eps (ens_eps_zero e).
Proof. intros H Hz Hb T. unfold compose_ens in H. rewrite Hz in H.
  destruct (collect F St meas (combine (ens_states e) (md_ps F (ens_prob_dist e)))) as [[ss pp]|x] eqn:Ec; cbn [pbind] in H; [|discriminate].
  destruct (collect_is_measure_all _ _ ss pp Ec Hb) as [L1 [L2 L3]]. fold T in L2.
  destruct (md_new F tol pp (old_shape ++ mshape)) as [d|x] eqn:Ed; cbn [pbind] in H; [|discriminate].
  unfold ens_init in H. destruct (ltb F _ (c0 F)); [discriminate|]. destruct (negb _); [discriminate|].
  inversion H; subst e'. cbn [ens_states ens_prob_dist ens_eps_zero]. rewrite <- L2.
  rewrite map_fst_combine, map_snd_combine by exact L1. repeat split; try reflexivity; [exact Ed|].
  rewrite combine_length, <- L1, Nat.min_id. exact L3. Qed.
(* the constructor keeps the shape it is given *)
Lemma construct_shape eps ps sh d : construct F tol eps ps (Some sh) = MOk d -> d_shape F d = sh.
Proof. unfold construct. destruct (validate F tol false ps); [|discriminate].
  destruct (match Some sh with Some [] => true | _ => false end); [discriminate|]. destruct (negb _); [discriminate|].
  cbv zeta. destruct (forallb _ ps); [intros H; inversion H; reflexivity|].
  destruct (validate F tol true _); [|discriminate]. intros H; inversion H; reflexivity. Qed.

Lemma md_new_shape pp sh m : md_new F tol pp sh = PRet m -> md_shape F m = map Z.of_nat sh /\ List.length (md_ps F m) = List.length pp.
Proof. unfold md_new. destruct (construct F tol tol pp (Some sh)) as [d|c] eqn:E; [|discriminate].
  cbn [to_py]. intros H. inversion H; subst m. cbn [md_of_dist md_shape md_ps]. split; [now rewrite (construct_shape _ _ _ _ E)|].
  revert E. unfold construct. destruct (validate F tol false pp); [|discriminate].
  destruct (match Some sh with Some [] => true | _ => false end); [discriminate|]. destruct (negb _); [discriminate|].
  cbv zeta. destruct (forallb _ pp); destruct (_ && _); try (destruct (validate F tol true _); [|discriminate]);
    intros H'; inversion H'; cbn [d_ps]; now rewrite ?map_length. Qed.

(* one measurement of a state: the ensemble's shape IS the instrument's outcome shape (multi-index kept), its states are the
   oracle's states in order, its distribution is built from the oracle's probabilities with the default threshold *)
Theorem compose_state_table mshape mp_eps s (e' : ensemble F St) :
  compose_state F tol St meas mshape mp_eps s = PRet e' ->
  exists ss pp, meas s (c1 F) = PRet (ss, pp) /\ ens_states e' = ss /\ md_new F tol pp mshape = PRet (ens_prob_dist e') /\
                md_shape F (ens_prob_dist e') = map Z.of_nat mshape /\ List.length ss = List.length pp /\ ens_eps_zero e' = mp_eps.
Proof. unfold compose_state. destruct (meas s (c1 F)) as [[ss pp]|x]; cbn [pbind]; [|discriminate].
  destruct (md_new F tol pp mshape) as [d|x] eqn:Ed; cbn [pbind]; [|discriminate].
  unfold ens_init. destruct (ltb F mp_eps (c0 F)); [discriminate|].
  destruct (Nat.eqb (List.length ss) (List.length (md_ps F d))) eqn:El; cbn [negb]; [|discriminate].
  intros H. inversion H; subst e'. cbn [ens_states ens_prob_dist ens_eps_zero]. exists ss, pp.
  destruct (md_new_shape _ _ _ Ed) as [S1 S2]. apply Nat.eqb_eq in El. repeat split; try reflexivity; try assumption. lia. Qed.

End ComposeProofs.

(* both routes to a twice-measured ensemble have the same multi-index structure: the composite instrument (outcome shape m1 ++ m2,
   its own oracle measC) on the state, or the second instrument (oracle measB, outcome shape m2) on the ensemble (shape m1) of the first *)
Theorem compose_routes_same_shape (F : OF) (tol : F) (St : Type) measC measB zero_obj m1 m2 eps1 eps2 s (e1 e12 ec : ensemble F St) :
  compose_state F tol St measC (m1 ++ m2) eps1 s = PRet ec ->
  compose_ens F tol St measB zero_obj m2 eps2 m1 e1 = PRet e12 ->
  md_shape F (ens_prob_dist ec) = md_shape F (ens_prob_dist e12) /\ md_shape F (ens_prob_dist ec) = map Z.of_nat (m1 ++ m2).
Proof. intros Hc Hs. destruct (compose_state_table F tol St measC _ _ _ _ Hc) as [ss [pp [_ [_ [_ [S1 _]]]]]].
  unfold compose_ens in Hs.
  destruct (if md_is_zero_dist F (ens_prob_dist e1) then _ else _) as [[pp' ss']|x]; cbn [pbind] in Hs; [|discriminate].
  destruct (md_new F tol pp' (m1 ++ m2)) as [d|x] eqn:Ed; cbn [pbind] in Hs; [|discriminate].
  unfold ens_init in Hs. destruct (ltb F _ (c0 F)); [discriminate|]. destruct (negb _); [discriminate|].
  inversion Hs; subst e12. cbn [ens_prob_dist]. destruct (md_new_shape F tol _ _ _ Ed) as [S2 _]. split; [now rewrite S1, S2|exact S1]. Qed.
