(* C09 — the repaired full-rank guard (rank_of m n A == n) is SOUND, for every ordered field and every size:
     coded_guard m n A = true  ->  A is injective  ->  A^T A has no kernel vector  ->  the estimator never reaches the
     "singular A^T A behind a passing guard" branch.
   [rank_of] counts the pivots Gauss-Jordan finds in the columns 0 .. n-1 of the rows of A.  When every column has a
   pivot, the n pivot rows restricted to the n columns are the unit vectors, and every row the elimination produces is
   a linear combination of rows of A — expressed here WITHOUT transformation matrices: any w orthogonal to all rows of
   A stays orthogonal to all produced rows.  Hence A w = 0 -> w_k = e_k . w = 0 for every k.
   (This is the positive counterpart of the refuted statement 15 in Props/C09.v.) *)
From Coq Require Import Field Ring Setoid Arith Lia Bool List ZArith.
From QV.Core Require Import OF Sums Mat.
From QV.Model Require Import C09_LinEst.
From QV.Proofs Require Import C09_LinEst.
Import ListNotations.

Section R.
Context (F : OF).
Add Field Ff9r : (k_field F).
Notation "0" := (c0 F). Notation "1" := (c1 F).
Infix "+" := (cadd F). Infix "*" := (cmul F). Infix "-" := (csub F).
Infix "/" := (kdiv F). Notation "- x" := (copp F x).
Notation mat := (@mat F).
Notation vec := (@vec F).
Notation row := (row F).

(* ------------------------------------------------------------------ entries of the row operations *)
Lemma rget_rscale k : forall (r : row) j, rget F (rscale F k r) j = k * rget F r j.
Proof. unfold rget, rscale. induction r as [|x r IH]; intros [|j]; cbn; try ring. apply IH. Qed.

Lemma rget_rsubmul k : forall (p s : row) j, length p = length s ->
  rget F (rsubmul F k p s) j = rget F s j - k * rget F p j.
Proof. unfold rget. induction p as [|x p IH]; intros [|y s] j H; cbn in H; try discriminate.
  - destruct j; cbn; ring.
  - destruct j; cbn; [ring|]. apply IH. lia. Qed.

Lemma length_rscale k (r : row) : length (rscale F k r) = length r.
Proof. unfold rscale. apply map_length. Qed.

Lemma length_rsubmul k : forall (p s : row), length p = length s -> length (rsubmul F k p s) = length s.
Proof. induction p as [|x p IH]; intros [|y s] H; cbn in H; try discriminate; cbn; [reflexivity|]. f_equal. apply IH. lia. Qed.

Lemma rget_elim c (p r : row) j : length p = length r ->
  rget F (elim_with F c p r) j = rget F r j - rget F r c * rget F p j.
Proof. intros H. unfold elim_with. destruct (is0 F (rget F r c)) eqn:E.
  - unfold is0 in E. apply keqb_spec in E. rewrite E. ring.
  - now apply rget_rsubmul. Qed.

Lemma length_elim c (p r : row) : length p = length r -> length (elim_with F c p r) = length r.
Proof. intros H. unfold elim_with. destruct (is0 F (rget F r c)); [reflexivity|now apply length_rsubmul]. Qed.

(* ------------------------------------------------------------------ the pairing of a row with a vector, and its linearity *)
Definition rdot (n : nat) (r : row) (w : vec) : F := sumn n (fun j => rget F r j * w j).

Lemma rdot_rscale n k (r : row) w : rdot n (rscale F k r) w = k * rdot n r w.
Proof. unfold rdot. rewrite <- sumn_scale_l. apply sumn_ext. intros j _. rewrite rget_rscale. ring. Qed.

Lemma rdot_elim n c (p r : row) w : length p = length r ->
  rdot n (elim_with F c p r) w = rdot n r w - rget F r c * rdot n p w.
Proof. intros H. unfold rdot. rewrite <- sumn_scale_l, <- sumn_sub. apply sumn_ext. intros j _.
  rewrite rget_elim by exact H. ring. Qed.

(* ------------------------------------------------------------------ pivot search *)
Lemma pick_spec c : forall (rows : list row) p rest, pick F c rows = Some (p, rest) ->
  rget F p c <> 0 /\ In p rows /\ (forall r, In r rest -> In r rows).
Proof. induction rows as [|r t IH]; intros p rest H; cbn in H; [discriminate|].
  destruct (is0 F (rget F r c)) eqn:E.
  - destruct (pick F c t) as [[p' rest']|] eqn:Ep; [|discriminate]. injection H as <- <-.
    destruct (IH p' rest' eq_refl) as [H1 [H2 H3]]. split; [exact H1|]. split; [now right|].
    intros r0 [<-|Hr]; [now left|right; now apply H3].
  - injection H as <- <-. split.
    + intros Z. unfold is0 in E. rewrite (proj2 (keqb_spec F _ _) Z) in E. discriminate.
    + split; [now left|intros r0 Hr; now right]. Qed.

(* ------------------------------------------------------------------ the invariant of the elimination *)
Definition delta (k j : nat) : F := if Nat.eqb k j then 1 else 0.

(* after the columns 0 .. c-1:  c pivot rows, unit vectors on the first c columns; the remaining rows vanish there;
   all rows have n entries and are orthogonal to w *)
Definition Inv (n : nat) (w : vec) (c : nat) (dn td : list row) : Prop :=
  length dn = c /\
  (forall r, In r (dn ++ td) -> length r = n /\ rdot n r w = 0) /\
  (forall k r, nth_error dn k = Some r -> forall j, (j < c)%nat -> rget F r j = delta k j) /\
  (forall r, In r td -> forall j, (j < c)%nat -> rget F r j = 0).

Lemma gj_step_inv n w c dn td dn' td' :
  Inv n w c dn td -> gj_step F c (dn, td) = Some (dn', td') -> Inv n w (S c) dn' td'.
Proof. intros [Hl [Hr [Hd Ht]]] H. unfold gj_step in H.
  destruct (pick F c td) as [[p rest]|] eqn:Ep; [|discriminate]. injection H as <- <-.
  destruct (pick_spec c td p rest Ep) as [Hpc [Hpin Hrest]].
  set (p' := rscale F (kinv F (rget F p c)) p).
  assert (Hp : length p = n /\ rdot n p w = 0) by (apply Hr, in_or_app; now right).
  destruct Hp as [Lp Dp].
  assert (Lp' : length p' = n) by (unfold p'; now rewrite length_rscale).
  assert (Dp' : rdot n p' w = 0) by (unfold p'; rewrite rdot_rscale, Dp; ring).
  assert (Gp' : forall j, rget F p' j = rget F p j / rget F p c).
  { intros j. unfold p'. rewrite rget_rscale. field. exact Hpc. }
  assert (Pc : rget F p' c = 1) by (rewrite Gp'; field; exact Hpc).
  assert (Pj : forall j, (j < c)%nat -> rget F p' j = 0).
  { intros j Hj. rewrite Gp', (Ht p Hpin j Hj). field. exact Hpc. }
  assert (He : forall r0, length r0 = n /\ rdot n r0 w = 0 ->
                     length (elim_with F c p' r0) = n /\ rdot n (elim_with F c p' r0) w = 0).
  { intros r0 [L0 D0]. assert (LL : length p' = length r0) by now rewrite Lp', L0. split.
    - now rewrite length_elim.
    - rewrite rdot_elim by exact LL. rewrite D0, Dp'. ring. }
  split; [|split; [|split]].
  - rewrite app_length, map_length, Hl. cbn. lia.
  - intros r Hin. apply in_app_or in Hin. destruct Hin as [Hin|Hin].
    + apply in_app_or in Hin. destruct Hin as [Hin|[<-|[]]].
      * apply in_map_iff in Hin. destruct Hin as [r0 [<- Hr0]]. apply He, Hr, in_or_app. now left.
      * split; assumption.
    + apply in_map_iff in Hin. destruct Hin as [r0 [<- Hr0]]. apply He, Hr, in_or_app. right. now apply Hrest.
  - intros k r Hk j Hj. destruct (Nat.lt_ge_cases k c) as [Hkc|Hkc].
    + rewrite nth_error_app1 in Hk by (now rewrite map_length, Hl).
      destruct (nth_error dn k) as [r0|] eqn:E0.
      2:{ apply nth_error_None in E0. lia. }
      rewrite (map_nth_error _ _ _ E0) in Hk. injection Hk as <-.
      assert (L0 : length p' = length r0).
      { rewrite Lp'. symmetry. apply (Hr r0). apply in_or_app. left. eapply nth_error_In. exact E0. }
      rewrite rget_elim by exact L0.
      destruct (Nat.eq_dec j c) as [->|Hne].
      * rewrite Pc. unfold delta. replace (Nat.eqb k c) with false by (symmetry; apply Nat.eqb_neq; lia). ring.
      * assert (Hjc : (j < c)%nat) by lia. rewrite (Pj j Hjc), (Hd k r0 E0 j Hjc). ring.
    + rewrite nth_error_app2 in Hk by (now rewrite map_length, Hl). rewrite map_length, Hl in Hk.
      destruct (k - c)%nat as [|d] eqn:Ed.
      2:{ cbn in Hk. destruct d; discriminate. }
      cbn in Hk. injection Hk as <-. assert (k = c) by lia. subst k.
      destruct (Nat.eq_dec j c) as [->|Hne].
      * rewrite Pc. unfold delta. now rewrite Nat.eqb_refl.
      * rewrite (Pj j) by lia. unfold delta. replace (Nat.eqb c j) with false by (symmetry; apply Nat.eqb_neq; lia). reflexivity.
  - intros r Hin j Hj. apply in_map_iff in Hin. destruct Hin as [r0 [<- Hr0]].
    assert (In0 : In r0 td) by now apply Hrest.
    assert (L0 : length p' = length r0).
    { rewrite Lp'. symmetry. apply (Hr r0). apply in_or_app. now right. }
    rewrite rget_elim by exact L0.
    destruct (Nat.eq_dec j c) as [->|Hne].
    + rewrite Pc. ring.
    + assert (Hjc : (j < c)%nat) by lia. rewrite (Pj j Hjc), (Ht r0 In0 j Hjc). ring. Qed.

(* ------------------------------------------------------------------ counting pivots *)
Lemma rank_loop_ub : forall fuel c st acc, (rank_loop F fuel c st acc <= acc + fuel)%nat.
Proof. induction fuel as [|k IH]; intros c st acc; cbn [rank_loop]; [lia|].
  destruct (gj_step F c st) as [st'|].
  - specialize (IH (S c) st' (S acc)). lia.
  - specialize (IH (S c) st acc). lia. Qed.

(* the count reaches its maximum only when EVERY column had a pivot; then the invariant holds at the end *)
Lemma rank_loop_full n w : forall fuel c dn td acc,
  Inv n w c dn td -> rank_loop F fuel c (dn, td) acc = (acc + fuel)%nat ->
  exists dn' td', Inv n w (c + fuel) dn' td'.
Proof. induction fuel as [|k IH]; intros c dn td acc HI H.
  - exists dn, td. now rewrite Nat.add_0_r.
  - cbn [rank_loop] in H. destruct (gj_step F c (dn, td)) as [[dn1 td1]|] eqn:E.
    + pose proof (gj_step_inv n w c dn td dn1 td1 HI E) as HI1.
      destruct (IH (S c) dn1 td1 (S acc) HI1) as [dn' [td' HI']]; [lia|].
      exists dn', td'. replace (c + S k)%nat with (S c + k)%nat by lia. exact HI'.
    + pose proof (rank_loop_ub k (S c) (dn, td) acc). lia. Qed.

(* ------------------------------------------------------------------ main theorems *)
(* rank_of m n A = n  ->  the forward map is injective *)
Theorem full_rank_injective m n (A : mat) : rank_of m n A = n ->
  forall w, veq m (mv n A w) vzero -> veq n w vzero.
Proof. intros Hg w Hw. unfold rank_of in Hg.
  assert (I0 : Inv n w 0 [] (lrows m n A)).
  { split; [reflexivity|]. split; [|split].
    - intros r Hin. cbn [app] in Hin. unfold lrows in Hin. apply in_map_iff in Hin.
      destruct Hin as [i [<- Hi]]. apply in_seq in Hi. split; [apply lvec_length|].
      transitivity (mv n A w i); [|apply Hw; lia].
      unfold rdot, mv. apply sumn_ext. intros j Hj. unfold rget. now rewrite lvec_nth by exact Hj.
    - intros k r Hk. destruct k; discriminate.
    - intros r _ j Hj. lia. }
  destruct (rank_loop_full n w n 0 [] (lrows m n A) 0 I0 Hg) as [dn [td [Hl [Hr [Hd _]]]]].
  cbn [Nat.add] in *. intros i Hi.
  destruct (nth_error dn i) as [r|] eqn:E.
  2:{ apply nth_error_None in E. lia. }
  assert (Hin : In r (dn ++ td)) by (apply in_or_app; left; eapply nth_error_In; exact E).
  destruct (Hr r Hin) as [_ D]. unfold vzero. rewrite <- D. unfold rdot. symmetry.
  rewrite (sumn_ext n _ (fun j => if Nat.eqb i j then w j else 0)).
  - now apply sumn_delta'.
  - intros j Hj. rewrite (Hd i r E j Hj). unfold delta. destruct (Nat.eqb i j); ring. Qed.

Theorem guard_sound m n (A : mat) : coded_guard m n A = true ->
  forall w, veq m (mv n A w) vzero -> veq n w vzero.
Proof. intros Hg. apply full_rank_injective. now apply Nat.eqb_eq. Qed.

(* a tester set that passes the repaired guard has NO kernel certificate: A^T A is not singular *)
Theorem guard_excludes_kernel m n (A : mat) (w : vec) : coded_guard m n A = true -> ~ kernel_cert n (gram m A) w.
Proof. intros Hg Hk. pose proof (guard_sound m n A Hg w (kernel_invisible F m n A w Hk)) as Hz.
  destruct Hk as [_ [i [Hi Hne]]]. apply Hne. exact (Hz i Hi). Qed.

(* identifiability: two variable vectors with the same exact data are equal *)
Theorem guard_identifiable m n (A : mat) (b v v' : vec) : coded_guard m n A = true ->
  veq m (predict n A b v) (predict n A b v') -> veq n v v'.
Proof. intros Hg H. assert (Z : veq n (vsub v v') vzero).
  { apply (guard_sound m n A Hg). intros i Hi. rewrite mv_vsub. specialize (H i Hi). unfold predict, vadd in H.
    unfold vsub, vzero. replace (mv n A v i) with ((mv n A v i + b i) - b i) by ring. rewrite H. ring. }
  intros i Hi. specialize (Z i Hi). unfold vsub, vzero in Z.
  replace (v i) with ((v i - v' i) + v' i) by ring. rewrite Z. ring. Qed.

Lemma est_loop_never_singular stack one m : forall (sq : list (dataset F)) acc,
  est_loop_with stack one m sq acc <> E_singular.
Proof. induction sq as [|ds rest IH]; intros acc; cbn; [discriminate|].
  destruct (stack (map snd ds)) as [f|]; [|discriminate].
  destruct (Nat.eqb (length f) m); [apply IH|discriminate]. Qed.

(* the branch "np.linalg.inv of an exactly singular A^T A behind a passing guard" is unreachable in the repaired code *)
Theorem never_singular m n (A : mat) b (sq : list (dataset F)) : calc_estimate_sequence m n A b sq <> E_singular.
Proof. unfold calc_estimate_sequence, calc_estimate_sequence_with.
  destruct (coded_guard m n A) eqn:Hg; cbn [negb]; [|discriminate].
  destruct (solve m n A) as [M|w|] eqn:Es; [apply est_loop_never_singular| |discriminate].
  exfalso. apply (guard_excludes_kernel m n A w Hg). now apply solve_ker_sound. Qed.
End R.
