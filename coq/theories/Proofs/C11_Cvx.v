(* C11 — proofs about the CVXPY interface maps: they denote the operator of quara's own variable -> object
   conversion (generic ordered field, axiom-free); the dense instrument map does not (refutation). *)
From Coq Require Import Arith List Bool Lia Field Ring Setoid.
From QV.Core Require Import OF Sums Mat Cplx C01_HermPsd.
From QV.Model Require Import QObj C11_Cvx.
Import ListNotations.

Section C11_CvxProofs.
Context (F : OF).
Add Field Ffcv : (k_field F).
Notation Cx := (CF F).
Add Ring Rcx : (c_ring (CF F)).
Notation "0" := (c0 F). Notation "1" := (c1 F).
Infix "+" := (cadd F). Infix "*" := (cmul F). Infix "-" := (csub F). Infix "/" := (kdiv F).

(* ------------------------------------------------------------------ small facts *)
Lemma C11_zof_mul a b : zof (a * b) = cmul Cx (zof a) (zof b).
Proof. apply cplx_eq; cbn; ring. Qed.
Lemma C11_zof_0_mul (z : Cx) : cmul Cx (zof 0) z = c0 Cx.
Proof. apply cplx_eq; cbn; ring. Qed.
Lemma C11_zof_1_mul (z : Cx) : cmul Cx (zof 1) z = z.
Proof. apply cplx_eq; cbn; ring. Qed.
Lemma C11_sumn_zero_cx n (f : nat -> Cx) : (forall a, (a < n)%nat -> f a = c0 Cx) -> sumn n f = c0 Cx.
Proof. intros H. exact (sumn_zero' n f H). Qed.
Lemma C11_sumn_first n (f : nat -> Cx) : (0 < n)%nat -> sumn n f = cadd Cx (f 0%nat) (sumn (n - 1) (fun i => f (S i))).
Proof. intros Hn. destruct n as [|k]; [lia|]. rewrite sumn_S_first. now replace (S k - 1)%nat with k by lia. Qed.
Lemma C11_divmod_eqb d i j : (0 < d)%nat ->
  (Nat.eqb (i / d) (j / d) && Nat.eqb (i mod d) (j mod d)) = Nat.eqb i j.
Proof. intros Hd. destruct (Nat.eqb_spec i j) as [->|Hne]. { now rewrite !Nat.eqb_refl. }
  destruct (Nat.eqb_spec (i / d) (j / d)) as [E1|]; [|reflexivity].
  destruct (Nat.eqb_spec (i mod d) (j mod d)) as [E2|]; [|reflexivity].
  exfalso. apply Hne. rewrite (Nat.div_mod_eq i d), (Nat.div_mod_eq j d). now rewrite E1, E2. Qed.
Lemma C11_flat_idx i j d : (i < d)%nat -> ((i + d * j) / d = j /\ (i + d * j) mod d = i)%nat.
Proof. intros Hi. replace (i + d * j)%nat with (j * d + i)%nat by lia. now apply divmod_flat. Qed.

(* the 0th basis element is (1/sd) * identity *)
Section Basis0.
Variables (d : nat) (sd c dd : F) (B : nat -> cmat F).
Hypothesis HB0 : basis_0th_identity d sd B.
Hypothesis Hc : c * sd = 1.
Hypothesis Hdd : sd * sd = dd.

Lemma C11_dd_neq0 : dd <> 0.
Proof. intros E. apply (one_neq_zero F). replace 1 with ((c * c) * dd) by (rewrite <- Hdd; transitivity ((c * sd) * (c * sd)); [ring|rewrite Hc; ring]).
  rewrite E. ring. Qed.
Lemma C11_cc : c * c = 1 / dd.
Proof. assert (E : (c * c) * dd = 1) by (rewrite <- Hdd; transitivity ((c * sd) * (c * sd)); [ring|rewrite Hc; ring]).
  transitivity (((c * c) * dd) / dd); [field; apply C11_dd_neq0|rewrite E; reflexivity]. Qed.
Lemma C11_B0 k l : (k < d)%nat -> (l < d)%nat -> B 0%nat k l = zof (c * C11_delta F k l).
Proof. intros Hk Hl. pose proof (HB0 k l Hk Hl) as E.
  transitivity (cmul Cx (zof (c * sd)) (B 0%nat k l)). { rewrite Hc. symmetry. apply C11_zof_1_mul. }
  rewrite C11_zof_mul. transitivity (cmul Cx (zof c) (cmul Cx (zof sd) (B 0%nat k l))); [ring|]. rewrite E.
  unfold C11_delta. destruct (Nat.eqb k l); apply cplx_eq; cbn; ring. Qed.

(* T8a  dmat_from_var denotes the operator of quara's state variable *)
Lemma C11_dmat_from_var_ok var i j : (i < d)%nat -> (j < d)%nat ->
  C11_dmat_from_var F d dd B var i j = op_of_vec d B (C11_state_vec F c var) i j.
Proof. intros Hi Hj. unfold C11_dmat_from_var, op_of_vec.
  rewrite (C11_sumn_first (d * d)) by nia.
  cbn [C11_state_vec]. f_equal. rewrite (C11_B0 i j Hi Hj), <- C11_zof_mul. f_equal.
  unfold C11_delta. transitivity ((c * c) * (if Nat.eqb i j then 1 else 0)); [rewrite C11_cc; field; apply C11_dd_neq0|ring]. Qed.

(* B_0 (x) conj B_0 = identity / dd *)
Lemma C11_bbc00 i j : (i < d * d)%nat -> (j < d * d)%nat ->
  bbc d B 0%nat 0%nat i j = zof (C11_delta F i j / dd).
Proof. intros Hi Hj. assert (Hd : (0 < d)%nat) by nia. unfold bbc, kron, cconj.
  assert (A1 : (i / d < d)%nat) by (apply Nat.div_lt_upper_bound; lia).
  assert (A2 : (j / d < d)%nat) by (apply Nat.div_lt_upper_bound; lia).
  assert (A3 : (i mod d < d)%nat) by (apply Nat.mod_upper_bound; lia).
  assert (A4 : (j mod d < d)%nat) by (apply Nat.mod_upper_bound; lia).
  rewrite (C11_B0 _ _ A1 A2), (C11_B0 _ _ A3 A4). unfold C11_delta.
  rewrite <- (C11_divmod_eqb d i j Hd).
  destruct (Nat.eqb (i / d) (j / d)), (Nat.eqb (i mod d) (j mod d)); apply cplx_eq; cbn;
    try (rewrite <- C11_cc; ring); try (field; apply C11_dd_neq0). Qed.

(* T8b  choi_from_var denotes the Choi matrix of quara's gate variable *)
Lemma C11_choi_from_var_ok var i j : (i < d * d)%nat -> (j < d * d)%nat ->
  C11_choi_from_var F d dd B var i j = choi_of_hs d B (C11_gate_hs F (d * d) var) i j.
Proof. intros Hi Hj. unfold C11_choi_from_var. symmetry. unfold choi_of_hs.
  rewrite (C11_sumn_first (d * d)) by nia. symmetry.
  f_equal.
  (* row a = 0 of the HS matrix is e_0 *)
  cbn [C11_gate_hs]. rewrite (sumn_ext (d * d) _ (fun b => if Nat.eqb b 0 then bbc d B 0%nat b i j else c0 Cx)).
  2:{ intros b _. unfold C11_delta. destruct (Nat.eqb b 0); [apply C11_zof_1_mul|apply C11_zof_0_mul]. }
  rewrite (sumn_delta (d * d) 0%nat (fun b => bbc d B 0%nat b i j)) by lia. symmetry. now apply C11_bbc00. Qed.
End Basis0.

(* ------------------------------------------------------------------ the with_sparsity variants: column-major reshape
   of row-major flattenings = transpose *)
Lemma C11_basisT_reshape d (B : nat -> cmat F) (v : rvec F) i j : (i < d)%nat -> (j < d)%nat ->
  C11_reshapeF F d (C11_basisT_mul F d B v) i j = mT (op_of_vec d B v) i j.
Proof. intros Hi Hj. unfold C11_reshapeF, C11_basisT_mul, mT, op_of_vec, vecr.
  destruct (C11_flat_idx i j d Hi) as [-> ->]. reflexivity. Qed.
Lemma C11_bbcT_reshape d (B : nat -> cmat F) (v : rvec F) i j : (i < d * d)%nat -> (j < d * d)%nat ->
  C11_reshapeF F (d * d) (C11_bbcT_mul F d B v) i j = mT (choi_of_hs d B (fun a b => v (a * (d * d) + b)%nat)) i j.
Proof. intros Hi Hj. unfold C11_reshapeF, C11_bbcT_mul, mT, choi_of_hs, vecr.
  destruct (C11_flat_idx i j (d * d) Hi) as [-> ->]. rewrite sumn_flat.
  apply sumn_ext; intros a _. apply sumn_ext; intros b Hb.
  destruct (divmod_flat a b (d * d) Hb) as [-> ->]. reflexivity. Qed.
Lemma C11_choi_of_hs_ext d (B : nat -> cmat F) (HS HS' : rmat F) i j :
  (forall a b, (a < d * d)%nat -> (b < d * d)%nat -> HS a b = HS' a b) ->
  choi_of_hs d B HS i j = choi_of_hs d B HS' i j.
Proof. intros H. unfold choi_of_hs. apply sumn_ext; intros a Ha. apply sumn_ext; intros b Hb. now rewrite H. Qed.

(* T8c *)
Lemma C11_dmat_sp_ok d c B var i j : (i < d)%nat -> (j < d)%nat ->
  C11_dmat_sp F d c B var i j = mT (op_of_vec d B (C11_state_vec F c var)) i j.
Proof. apply C11_basisT_reshape. Qed.
Lemma C11_povm_sp_ok d m sd B var x i j : (i < d)%nat -> (j < d)%nat ->
  C11_povm_sp F d m sd B var x i j = mT (op_of_vec d B (C11_povm_vec F (d * d) m sd var x)) i j.
Proof. apply C11_basisT_reshape. Qed.
Lemma C11_povm_element_ok d m sd B var x i j :
  C11_povm_element_from_var F d m sd B var x i j = op_of_vec d B (C11_povm_vec F (d * d) m sd var x) i j.
Proof. reflexivity. Qed.
Lemma C11_choi_sp_ok d B var i j : (i < d * d)%nat -> (j < d * d)%nat ->
  C11_choi_sp F d B var i j = mT (choi_of_hs d B (C11_gate_hs F (d * d) var)) i j.
Proof. intros Hi Hj. unfold C11_choi_sp. rewrite C11_bbcT_reshape by assumption. unfold mT.
  apply C11_choi_of_hs_ext. intros a b Ha Hb. unfold C11_gate_vec_sp, C11_gate_hs.
  destruct a as [|a'].
  - cbn [Nat.mul Nat.add]. destruct (Nat.ltb_spec b (d * d)); [reflexivity|lia].
  - destruct (Nat.ltb_spec (S a' * (d * d) + b) (d * d)); [nia|]. f_equal. nia. Qed.
Lemma C11_mp_choi_sp_ok d m B var x i j : (i < d * d)%nat -> (j < d * d)%nat ->
  C11_mp_choi_sp F d m B var x i j = mT (choi_of_hs d B (C11_mp_hs F (d * d) m var x)) i j.
Proof. intros Hi Hj. unfold C11_mp_choi_sp. rewrite C11_bbcT_reshape by assumption. unfold mT.
  apply C11_choi_of_hs_ext. intros a b Ha Hb. unfold C11_mp_vec_sp, C11_mp_hs.
  destruct (S x <? m)%nat. { f_equal. lia. }
  destruct a as [|a'].
  - cbn [Nat.mul Nat.add]. destruct (Nat.ltb_spec b (d * d)); [reflexivity|lia].
  - destruct (Nat.ltb_spec (S a' * (d * d) + b) (d * d)); [nia|]. f_equal. nia. Qed.

(* T8c in one statement *)
Lemma C11_sp_all_ok d m c sd B :
  (forall var i j, (i < d)%nat -> (j < d)%nat ->
     C11_dmat_sp F d c B var i j = mT (op_of_vec d B (C11_state_vec F c var)) i j)
  /\ (forall var x i j, (i < d)%nat -> (j < d)%nat ->
     C11_povm_sp F d m sd B var x i j = mT (op_of_vec d B (C11_povm_vec F (d * d) m sd var x)) i j)
  /\ (forall var i j, (i < d * d)%nat -> (j < d * d)%nat ->
     C11_choi_sp F d B var i j = mT (choi_of_hs d B (C11_gate_hs F (d * d) var)) i j)
  /\ (forall var x i j, (i < d * d)%nat -> (j < d * d)%nat ->
     C11_mp_choi_sp F d m B var x i j = mT (choi_of_hs d B (C11_mp_hs F (d * d) m var x)) i j).
Proof. split; [intros; now apply C11_dmat_sp_ok|]. split; [intros; now apply C11_povm_sp_ok|].
  split; [intros; now apply C11_choi_sp_ok|intros; now apply C11_mp_choi_sp_ok]. Qed.

(* ------------------------------------------------------------------ the dense instrument map
   T8d  after fix mprocess-element-choi-from-var-last-outcome the dense map denotes the Choi matrix of the instrument
        element of quara's variable, for EVERY outcome *)
Lemma C11_mp_choi_from_var_ok d m B var x i j :
  C11_mp_choi_from_var F d m B var x i j = choi_of_hs d B (C11_mp_hs F (d * d) m var x) i j.
Proof. unfold C11_mp_choi_from_var. apply C11_choi_of_hs_ext. intros a b Ha Hb. unfold C11_mp_vec_sp, C11_mp_hs.
  destruct (S x <? m)%nat. { f_equal. lia. }
  destruct a as [|a'].
  - cbn [Nat.mul Nat.add]. destruct (Nat.ltb_spec b (d * d)); [reflexivity|lia].
  - destruct (Nat.ltb_spec (S a' * (d * d) + b) (d * d)); [nia|]. f_equal. nia. Qed.
(* hence the dense and the _with_sparsity expressions are transposes of each other *)
Lemma C11_mp_choi_sp_dense d m B var x i j : (i < d * d)%nat -> (j < d * d)%nat ->
  C11_mp_choi_sp F d m B var x i j = mT (C11_mp_choi_from_var F d m B var x) i j.
Proof. intros Hi Hj. rewrite C11_mp_choi_sp_ok by assumption. unfold mT. symmetry. apply C11_mp_choi_from_var_ok. Qed.

(* ------------------------------------------------------------------ the function AS CODED BEFORE the fix is wrong for the last outcome *)
(* at var = 0 the old expression is the zero matrix whereas the instrument element of quara's variable has the
   HS matrix e_0 e_0^T, whose Choi matrix is B_0 (x) conj B_0 *)
Lemma C11_mp_before_fix_at_zero d m B i j : C11_mp_choi_from_var_before_fix F d m B (fun _ => 0) (m - 1) i j = c0 Cx.
Proof. unfold C11_mp_choi_from_var_before_fix, choi_of_hs. apply C11_sumn_zero_cx; intros a _. apply C11_sumn_zero_cx; intros b _.
  assert (E : C11_mp_vec_before_fix F (d * d) m (fun _ => 0) (m - 1) (a * (d * d) + b)%nat = 0).
  { unfold C11_mp_vec_before_fix. destruct (S (m - 1) <? m)%nat; [reflexivity|].
    destruct (a * (d * d) + b <? d * d)%nat; [|reflexivity]. apply sumn_zero'. reflexivity. }
  rewrite E. apply C11_zof_0_mul. Qed.
Lemma C11_mp_ref_at_zero d m B i j : (0 < d)%nat ->
  choi_of_hs d B (C11_mp_hs F (d * d) m (fun _ => 0) (m - 1)) i j = bbc d B 0%nat 0%nat i j.
Proof. intros Hd. unfold choi_of_hs.
  assert (Hlt : (S (m - 1) <? m)%nat = false) by (apply Nat.ltb_ge; lia).
  rewrite (C11_sumn_first (d * d)) by nia.
  rewrite (C11_sumn_zero_cx (d * d - 1)).
  2:{ intros a _. apply C11_sumn_zero_cx; intros b _. unfold C11_mp_hs. rewrite Hlt. apply C11_zof_0_mul. }
  rewrite (sumn_ext (d * d) _ (fun b => if Nat.eqb b 0 then bbc d B 0%nat b i j else c0 Cx)).
  2:{ intros b _. unfold C11_mp_hs. rewrite Hlt. unfold C11_delta.
      rewrite (sumn_zero' (m - 1) (fun _ => 0)) by reflexivity.
      destruct (Nat.eqb b 0).
      - replace (1 - 0) with 1 by ring. apply C11_zof_1_mul.
      - replace (0 - 0) with 0 by ring. apply C11_zof_0_mul. }
  rewrite (sumn_delta (d * d) 0%nat (fun b => bbc d B 0%nat b i j)) by nia. ring. Qed.
Lemma C11_mp_before_fix_refuted d m B i j : (0 < d)%nat -> bbc d B 0%nat 0%nat i j <> c0 Cx ->
  C11_mp_choi_from_var_before_fix F d m B (fun _ => 0) (m - 1) i j
  <> choi_of_hs d B (C11_mp_hs F (d * d) m (fun _ => 0) (m - 1)) i j.
Proof. intros Hd Hne. rewrite C11_mp_before_fix_at_zero, C11_mp_ref_at_zero by exact Hd. congruence. Qed.
(* for the other outcomes the old code was right *)
Lemma C11_mp_before_fix_ok_inner d m B var x i j : (S x < m)%nat ->
  C11_mp_choi_from_var_before_fix F d m B var x i j = choi_of_hs d B (C11_mp_hs F (d * d) m var x) i j.
Proof. intros Hx. unfold C11_mp_choi_from_var_before_fix. apply C11_choi_of_hs_ext. intros a b _ _.
  unfold C11_mp_vec_before_fix, C11_mp_hs. destruct (Nat.ltb_spec (S x) m); [|lia]. f_equal. lia. Qed.
(* ------------------------------------------------------------------ the CVXPY loss expressions with equal schedule ratios c_i = cc (equal shots per
   schedule: cc = 1/S) are cc times the identity-weight losses of the predicted distributions: the statement behind the harness check
   `S * problem.value = quara's loss at the returned point` *)
Lemma C11_cvx_uniform_ratio (ln : F -> F) (eps cc : F) (S : nat) (nout : nat -> nat) (c : nat -> F) (q p : nat -> nat -> F) :
  (forall i, (i < S)%nat -> c i = cc) ->
  C11_cvx_se F S nout c q p = cc * sumn S (fun i => sumn (nout i) (fun j => (p i j - q i j) * (p i j - q i j)))
  /\ C11_cvx_re F ln eps S nout c q p
     = cc * sumn S (fun i => sumn (nout i) (fun j => if C11_gt F (q i j) eps then q i j * (ln (q i j) - ln (p i j)) else 0)).
Proof. intros Hc. unfold C11_cvx_se, C11_cvx_re. split; rewrite <- sumn_scale_l; apply sumn_ext; intros i Hi; now rewrite (Hc i Hi). Qed.
(* no term of the relative-entropy expression depends on p at an outcome with q <= eps: such outcomes are skipped ENTIRELY *)
Lemma C11_cvx_re_skips_unobserved (ln : F -> F) (eps : F) (S : nat) (nout : nat -> nat) (c : nat -> F) (q p p' : nat -> nat -> F) :
  (forall i j, (i < S)%nat -> (j < nout i)%nat -> C11_gt F (q i j) eps = true -> p i j = p' i j) ->
  C11_cvx_re F ln eps S nout c q p = C11_cvx_re F ln eps S nout c q p'.
Proof. intros H. unfold C11_cvx_re. apply sumn_ext; intros i Hi. f_equal. apply sumn_ext; intros j Hj.
  destruct (C11_gt F (q i j) eps) eqn:E; [|reflexivity]. now rewrite (H i j Hi Hj E). Qed.

(* ------------------------------------------------------------------ `M >> 0` and `M^T >> 0` are the same constraint:
   Re (x^dagger M^T x) = Re (conj(x)^dagger M conj(x))  for EVERY complex matrix M, so the _with_sparsity expressions
   (transposes of the object's operator, T8c) put exactly the physical inequality constraint *)
Lemma C11_hqf_transpose n (H : cmat F) (x : cvec F) : hqf n (mT H) x = hqf n H (fun i => zconj (x i)).
Proof. rewrite !hqf_expand. rewrite sumn_swap. apply sumn_ext; intros i _. apply sumn_ext; intros j _.
  unfold mT. destruct (x i) as [a b], (x j) as [c e], (H i j) as [p q]. cbn. ring. Qed.
Lemma C11_transpose_hpsd n (H : cmat F) : HPSD n (mT H) <-> HPSD n H.
Proof. split; intros P x.
  - pose proof (P (fun i => zconj (x i))) as A. rewrite C11_hqf_transpose in A.
    erewrite hqf_ext; [exact A|apply meq_refl|]. intros i _. symmetry. apply zconj_conj.
  - rewrite C11_hqf_transpose. apply P. Qed.
End C11_CvxProofs.
