(* C12 — schedules with different numbers of outcomes: value = sum of the defining formulas, exact second-order expansion.
   Any commutative ring, any list of schedules of any sizes.  Axiom-free. *)
From Coq Require Import Ring List Arith Lia.
From QV.Core Require Import OF Sums Mat.
From QV.Model Require Import C12_Loss C12_Mixed.
From QV.Proofs Require Import C12_Loss.
Import ListNotations.

Section Mixed.
Context {R : CR}.
Add Ring Rmx : (c_ring R).
Notation "0" := (c0 R). Infix "+" := (cadd R). Infix "*" := (cmul R).
Notation mat := (@mat R). Notation vec := (@vec R). Notation sblock := (@sblock R).

Lemma mix_value_is_spec nv (Bs : list sblock) (v : vec) : mix_value nv Bs v = mix_spec nv Bs v.
Proof. induction Bs as [|B t IH]; cbn [mix_value mix_spec]; [reflexivity|]. rewrite IH. f_equal. unfold b_value, b_spec, se_value. apply se_value_is_spec. Qed.

Lemma dot_add_l n (x y z : vec) : dot n (fun i => x i + y i) z = dot n x z + dot n y z.
Proof. exact (dot_vadd_l n x y z). Qed.
Lemma qfm_add n (M N : mat) (x : vec) : qfm n (fun a c => M a c + N a c) x = qfm n M x + qfm n N x.
Proof. unfold qfm. rewrite <- sumn_add. apply sumn_ext; intros a _. rewrite <- sumn_add. apply sumn_ext; intros c _. ring. Qed.
Lemma dot_zero_l n (z : vec) : dot n (fun _ => 0) z = 0.
Proof. unfold dot. apply sumn_zero'. intros; ring. Qed.
Lemma qfm_zero n (x : vec) : qfm n (fun _ _ => 0) x = 0.
Proof. unfold qfm. apply sumn_zero'; intros a _. apply sumn_zero'; intros c _. ring. Qed.

Lemma mix_taylor nv (Bs : list sblock) (v h : vec) : blocks_sym Bs ->
  mix_value nv Bs (vadd v h) = mix_value nv Bs v + dot nv (mix_grad nv Bs v) h + qfm nv (mix_hess_half nv Bs v) h.
Proof. induction Bs as [|B t IH]; intros Hs; cbn [mix_value mix_grad mix_hess_half].
  - rewrite dot_zero_l, qfm_zero. ring.
  - rewrite IH by (intros B' HB'; apply Hs; now right).
    unfold b_value at 1. rewrite (se_taylor 1 (b_m B) nv (b_wts B) (b_A B) (b_b B) (b_q B) v h) by (apply Hs; now left).
    fold (b_value nv B v) (b_grad nv B v) (b_hess_half nv B v).
    rewrite dot_add_l, qfm_add. ring. Qed.

Lemma mv_add_m n (M N : mat) (h : vec) al : mv n (fun a c => M a c + N a c) h al = mv n M h al + mv n N h al.
Proof. unfold mv. rewrite <- sumn_add. apply sumn_ext; intros; ring. Qed.
Lemma mv_ext_m n (M N : mat) (h : vec) al : (forall c, M al c = N al c) -> mv n M h al = mv n N h al.
Proof. intros H. unfold mv. apply sumn_ext; intros c _. now rewrite H. Qed.

Lemma mix_grad_shift nv (Bs : list sblock) (v h : vec) al :
  mix_grad nv Bs (vadd v h) al
  = mix_grad nv Bs v al + mv nv (fun a c => mix_hess_half nv Bs v a c + mix_hess_half nv Bs v a c) h al.
Proof. induction Bs as [|B t IH]; cbn [mix_grad mix_hess_half].
  - unfold mv. rewrite sumn_zero' by (intros; ring). ring.
  - rewrite IH. unfold b_grad at 1.
    rewrite (se_grad_shift 1 (b_m B) nv (b_wts B) (b_A B) (b_b B) (b_q B) v h al).
    fold (b_grad nv B v).
    rewrite (mv_ext_m nv (se_hess 1 (b_m B) nv (b_wts B) (b_A B) (b_b B) (b_q B) v)
                        (fun a c => b_hess_half nv B v a c + b_hess_half nv B v a c) h al)
      by (intros c; apply se_hess_double).
    rewrite (mv_ext_m nv (fun a c => b_hess_half nv B v a c + mix_hess_half nv t v a c + (b_hess_half nv B v a c + mix_hess_half nv t v a c))
                        (fun a c => (b_hess_half nv B v a c + b_hess_half nv B v a c) + (mix_hess_half nv t v a c + mix_hess_half nv t v a c)) h al)
      by (intros c; ring).
    rewrite (mv_add_m nv (fun a c => b_hess_half nv B v a c + b_hess_half nv B v a c)
                         (fun a c => mix_hess_half nv t v a c + mix_hess_half nv t v a c) h al).
    ring. Qed.

(* consistency of the two models: for equal outcome counts the sum over the blocks IS the flat squared-error model *)
Lemma sumn_fold n (f : nat -> R) : forall s, fold_right (fun j acc => f j + acc) 0 (seq s n) = sumn n (fun i => f (s + i)%nat).
Proof. induction n as [|n IH]; intros s; [reflexivity|].
  rewrite seq_S, fold_right_app. cbn [fold_right sumn].
  assert (G : forall l a, fold_right (fun j acc => f j + acc) a l = fold_right (fun j acc => f j + acc) 0 l + a).
  { induction l as [|x l IHl]; intros a; cbn; [ring|]. rewrite IHl. ring. }
  rewrite G, IH. ring. Qed.
Lemma block_value ns m nv (W : @wts R) (A : mat) (b q v : vec) j : (j < ns)%nat ->
  b_value nv (block_of m W A b q j) v
  = wterm m W j (blk m j (vsub (pv nv A b v) q)) (blk m j (vsub (pv nv A b v) q)).
Proof. intros Hj. unfold b_value, se_value, se_value_at. cbn [sumn b_m b_A b_b b_q block_of].
  replace (c0 R + wterm m (b_wts (block_of m W A b q j)) 0
             (blk m 0 (vsub (pv nv (shiftm (j * m) A) (shiftv (j * m) b) v) (shiftv (j * m) q)))
             (blk m 0 (vsub (pv nv (shiftm (j * m) A) (shiftv (j * m) b) v) (shiftv (j * m) q))))
    with (wterm m (b_wts (block_of m W A b q j)) 0
             (blk m 0 (vsub (pv nv (shiftm (j * m) A) (shiftv (j * m) b) v) (shiftv (j * m) q)))
             (blk m 0 (vsub (pv nv (shiftm (j * m) A) (shiftv (j * m) b) v) (shiftv (j * m) q)))) by ring.
  unfold b_wts, block_of. cbn [b_W]. destruct W as [w|]; reflexivity. Qed.
Lemma mix_equal_blocks ns m nv (W : @wts R) (A : mat) (b q v : vec) :
  mix_value nv (equal_blocks ns m W A b q) v = se_value ns m nv W A b q v.
Proof. unfold equal_blocks, se_value, se_value_at.
  set (f := fun j => wterm m W j (blk m j (vsub (pv nv A b v) q)) (blk m j (vsub (pv nv A b v) q))).
  transitivity (fold_right (fun j acc => f j + acc) 0 (seq 0 ns)).
  - assert (G : forall l, (forall j, In j l -> (j < ns)%nat) ->
        mix_value nv (map (block_of m W A b q) l) v = fold_right (fun j acc => f j + acc) 0 l).
    { induction l as [|x l IHl]; intros Hl; cbn [map mix_value fold_right]; [reflexivity|].
      rewrite IHl by (intros j Hin; apply Hl; now right). rewrite (block_value ns) by (apply Hl; now left). reflexivity. }
    apply G. intros j Hin. apply in_seq in Hin. lia.
  - rewrite sumn_fold. apply sumn_ext; intros i _. reflexivity. Qed.
End Mixed.
