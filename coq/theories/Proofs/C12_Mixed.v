(* C12 — schedules with different numbers of outcomes: value = sum of the defining formulas, exact second-order expansion.
   Any commutative ring, any list of schedules of any sizes.  Axiom-free. *)
From Coq Require Import Ring List Arith Lia.
From QV.Core Require Import OF Sums Mat.
From QV.Model Require Import C12_Loss C12_Mixed.
From QV.Proofs Require Import C12_Loss.
Import ListNotations.

Section Mixed.
Context {R : CR}.
Add Ring Rmx : (c_ring R).
Notation "0" := (c0 R). Infix "+" := (cadd R). Infix "*" := (cmul R).
Notation mat := (@mat R). Notation vec := (@vec R). Notation sblock := (@sblock R).

Lemma mix_value_is_spec nv (Bs : list sblock) (v : vec) : mix_value nv Bs v = mix_spec nv Bs v.
Proof. induction Bs as [|B t IH]; cbn [mix_value mix_spec]; [reflexivity|]. rewrite IH. f_equal. unfold b_value, b_spec, se_value. apply se_value_is_spec. Qed.

Lemma dot_add_l n (x y z : vec) : dot n (fun i => x i + y i) z = dot n x z + dot n y z.
Proof. exact (dot_vadd_l n x y z). Qed.
Lemma qfm_add n (M N : mat) (x : vec) : qfm n (fun a c => M a c + N a c) x = qfm n M x + qfm n N x.
Proof. unfold qfm. rewrite <- sumn_add. apply sumn_ext; intros a _. rewrite <- sumn_add. apply sumn_ext; intros c _. ring. Qed.
Lemma dot_zero_l n (z : vec) : dot n (fun _ => 0) z = 0.
Proof. unfold dot. apply sumn_zero'. intros; ring. Qed.
Lemma qfm_zero n (x : vec) : qfm n (fun _ _ => 0) x = 0.
Proof. unfold qfm. apply sumn_zero'; intros a _. apply sumn_zero'; intros c _. ring. Qed.

Lemma mix_taylor nv (Bs : list sblock) (v h : vec) : blocks_sym Bs ->
  mix_value nv Bs (vadd v h) = mix_value nv Bs v + dot nv (mix_grad nv Bs v) h + qfm nv (mix_hess_half nv Bs v) h.
Proof. induction Bs as [|B t IH]; intros Hs; cbn [mix_value mix_grad mix_hess_half].
  - rewrite dot_zero_l, qfm_zero. ring.
  - rewrite IH by (intros B' HB'; apply Hs; now right).
    unfold b_value at 1. rewrite (se_taylor 1 (b_m B) nv (b_wts B) (b_A B) (b_b B) (b_q B) v h) by (apply Hs; now left).
    fold (b_value nv B v) (b_grad nv B v) (b_hess_half nv B v).
    rewrite dot_add_l, qfm_add. ring. Qed.

Lemma mv_add_m n (M N : mat) (h : vec) al : mv n (fun a c => M a c + N a c) h al = mv n M h al + mv n N h al.
Proof. unfold mv. rewrite <- sumn_add. apply sumn_ext; intros; ring. Qed.
Lemma mv_ext_m n (M N : mat) (h : vec) al : (forall c, M al c = N al c) -> mv n M h al = mv n N h al.
Proof. intros H. unfold mv. apply sumn_ext; intros c _. now rewrite H. Qed.

Lemma mix_grad_shift nv (Bs : list sblock) (v h : vec) al :
  mix_grad nv Bs (vadd v h) al
  = mix_grad nv Bs v al + mv nv (fun a c => mix_hess_half nv Bs v a c + mix_hess_half nv Bs v a c) h al.
Proof. induction Bs as [|B t IH]; cbn [mix_grad mix_hess_half].
  - unfold mv. rewrite sumn_zero' by (intros; ring). ring.
  - rewrite IH. unfold b_grad at 1.
    rewrite (se_grad_shift 1 (b_m B) nv (b_wts B) (b_A B) (b_b B) (b_q B) v h al).
    fold (b_grad nv B v).
    rewrite (mv_ext_m nv (se_hess 1 (b_m B) nv (b_wts B) (b_A B) (b_b B) (b_q B) v)
                        (fun a c => b_hess_half nv B v a c + b_hess_half nv B v a c) h al)
      by (intros c; apply se_hess_double).
    rewrite (mv_ext_m nv (fun a c => b_hess_half nv B v a c + mix_hess_half nv t v a c + (b_hess_half nv B v a c + mix_hess_half nv t v a c))
                        (fun a c => (b_hess_half nv B v a c + b_hess_half nv B v a c) + (mix_hess_half nv t v a c + mix_hess_half nv t v a c)) h al)
      by (intros c; ring).
    rewrite (mv_add_m nv (fun a c => b_hess_half nv B v a c + b_hess_half nv B v a c)
                         (fun a c => mix_hess_half nv t v a c + mix_hess_half nv t v a c) h al).
    ring. Qed.
End Mixed.
