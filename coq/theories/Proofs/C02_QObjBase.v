(* C02 — the lemma library about the shared vocabulary Model/QObj.v (op_of_vec, vec_of_op, choi_of_hs, hs_of_choi,
   hs_of_kraus, apply_hs, basis predicates) and its complex-coefficient companions in Model/C02_Conv.v.
   Generic in the ordered field F, the dimension d and the basis B; axiom-free.  Meant to be imported by other
   properties (C01, C04, C06, C08).  Naming: <what>_<of what>; hypotheses are always the QObj basis predicates. *)
From Coq Require Import Field Ring Setoid Arith Lia Bool List.
From QV.Core Require Import OF Sums Mat Cplx.
From QV.Model Require Import QObj C02_Conv.
Import ListNotations.

Section QObjBase.
Context (F : OF).
Add Field Fq : (k_field F).
Add Ring Cq : (c_ring (CF F)).
Notation Cx := (CF F).
Notation cmat := (cmat F). Notation rmat := (rmat F). Notation cvec := (cvec F). Notation rvec := (rvec F).
Notation "0" := (c0 Cx). Notation "1" := (c1 Cx).
Infix "+" := (cadd Cx). Infix "*" := (cmul Cx). Infix "-" := (csub Cx). Notation "- x" := (copp Cx x).
Notation csum := (@sumn (CF F)).
Notation r0 := (c0 F).

(* ------------------------------------------------------------------ scalars *)
Lemma cj_add (a b : Cx) : zconj (a + b) = zconj a + zconj b. Proof. apply (zconj_add F). Qed.
Lemma cj_mul (a b : Cx) : zconj (a * b) = zconj a * zconj b. Proof. apply (zconj_mul F). Qed.
Lemma cj_sub (a b : Cx) : zconj (a - b) = zconj a - zconj b. Proof. apply (zconj_sub F). Qed.
Lemma cj_0 : zconj 0 = 0. Proof. apply cplx_eq; cbn; ring. Qed.
Lemma cj_1 : zconj 1 = 1. Proof. apply cplx_eq; cbn; ring. Qed.
Lemma cj_cj (a : Cx) : zconj (zconj a) = a. Proof. apply (zconj_conj F). Qed.
Lemma cj_zof (x : F) : zconj (zof x) = zof x. Proof. apply (zconj_zof F). Qed.
Lemma cj_sum n (f : nat -> Cx) : zconj (csum n f) = csum n (fun i => zconj (f i)).
Proof. apply (zconj_sumn F). Qed.
Lemma cj_if (b : bool) : zconj (if b then 1 else 0) = (if b then 1 else 0 : Cx).
Proof. destruct b; [apply cj_1|apply cj_0]. Qed.
Lemma zof_add (x y : F) : zof (cadd F x y) = zof x + zof y. Proof. apply cplx_eq; cbn; ring. Qed.
Lemma zof_mul (x y : F) : zof (cmul F x y) = zof x * zof y. Proof. apply cplx_eq; cbn; ring. Qed.
Lemma zof_sum n (f : nat -> F) : zof (sumn n f) = csum n (fun i => zof (f i)).
Proof. induction n as [|n IH]; cbn [sumn]; [reflexivity|]. now rewrite zof_add, IH. Qed.
Lemma cplx_real (z : Cx) : im z = r0 -> z = zof (re z).
Proof. intros H. apply cplx_eq; [reflexivity|exact H]. Qed.
Lemma self_conj_real (z : Cx) : zconj z = z -> im z = r0.
Proof. intros H. assert (E : cadd F (im z) (im z) = r0).
  { assert (E1 : copp F (im z) = im z) by (change (im (zconj z) = im z); now rewrite H).
    rewrite <- E1 at 1. ring. }
  destruct (keqb F (im z) r0) eqn:K; [now apply keqb_spec|]. exfalso.
  apply (double_neq0 F (im z)); [|exact E]. intros Z. rewrite Z in K.
  assert (keqb F r0 r0 = true) by now apply keqb_spec. congruence. Qed.
Lemma real_self_conj (z : Cx) : im z = r0 -> zconj z = z.
Proof. intros H. apply cplx_eq; cbn; [reflexivity|]. rewrite H. ring. Qed.
Lemma re_zof_mul (x : F) (z : Cx) : re (zof x * z) = cmul F x (re z). Proof. cbn. ring. Qed.
Lemma im_zof_mul (x : F) (z : Cx) : im (zof x * z) = cmul F x (im z). Proof. cbn. ring. Qed.

(* ------------------------------------------------------------------ finite sums (double / triple) *)
Lemma csum_ext n (f g : nat -> Cx) : (forall i, (i < n)%nat -> f i = g i) -> csum n f = csum n g.
Proof. apply sumn_ext. Qed.
Lemma csum_ext2 m n (f g : nat -> nat -> Cx) : (forall i j, (i < m)%nat -> (j < n)%nat -> f i j = g i j) ->
  csum m (fun i => csum n (fun j => f i j)) = csum m (fun i => csum n (fun j => g i j)).
Proof. intros H. apply csum_ext; intros i Hi. apply csum_ext; intros j Hj. now apply H. Qed.
Lemma csum_rot3 m n p (f : nat -> nat -> nat -> Cx) :
  csum m (fun i => csum n (fun j => csum p (fun a => f i j a))) = csum p (fun a => csum m (fun i => csum n (fun j => f i j a))).
Proof. rewrite (sumn_ext m _ (fun i => csum p (fun a => csum n (fun j => f i j a)))) by (intros; apply sumn_swap).
  apply sumn_swap. Qed.
Lemma csum2_scale_l m n (c : Cx) (f : nat -> nat -> Cx) :
  csum m (fun i => csum n (fun j => c * f i j)) = c * csum m (fun i => csum n (fun j => f i j)).
Proof. rewrite <- sumn_scale_l. apply csum_ext; intros i _. now rewrite sumn_scale_l. Qed.
Lemma csum2_scale_r m n (c : Cx) (f : nat -> nat -> Cx) :
  csum m (fun i => csum n (fun j => f i j * c)) = csum m (fun i => csum n (fun j => f i j)) * c.
Proof. rewrite <- sumn_scale_r. apply csum_ext; intros i _. now rewrite sumn_scale_r. Qed.
Lemma csum2_add m n (f g : nat -> nat -> Cx) :
  csum m (fun i => csum n (fun j => f i j + g i j)) = csum m (fun i => csum n (fun j => f i j)) + csum m (fun i => csum n (fun j => g i j)).
Proof. rewrite <- sumn_add. apply csum_ext; intros i _. now rewrite sumn_add. Qed.
Lemma csum2_delta m n i j (f : nat -> nat -> Cx) : (i < m)%nat -> (j < n)%nat ->
  csum m (fun k => csum n (fun l => if Nat.eqb k i && Nat.eqb l j then f k l else 0)) = f i j.
Proof. intros Hi Hj.
  rewrite (sumn_ext m _ (fun k => if Nat.eqb k i then csum n (fun l => if Nat.eqb l j then f k l else 0) else 0)).
  2:{ intros k _. destruct (Nat.eqb k i); cbn [andb]; [reflexivity|apply sumn_zero]. }
  rewrite (sumn_delta m i (fun k => csum n (fun l => if Nat.eqb l j then f k l else 0)) Hi).
  exact (sumn_delta n j (fun l => f i l) Hj). Qed.
Lemma divmod_lt (d r : nat) : (r < d * d)%nat -> (r / d < d)%nat /\ (r mod d < d)%nat.
Proof. intros H. assert (0 < d)%nat by (destruct d; [cbn in H; lia|lia]). split.
  - apply Nat.div_lt_upper_bound; lia.
  - apply Nat.mod_upper_bound; lia. Qed.
Lemma flat_lt (n a b : nat) : (a < n)%nat -> (b < n)%nat -> (a * n + b < n * n)%nat.
Proof. intros. nia. Qed.
Lemma flat_eqb (n a b a' b' : nat) : (b < n)%nat -> (b' < n)%nat ->
  Nat.eqb (a * n + b) (a' * n + b') = Nat.eqb a a' && Nat.eqb b b'.
Proof. intros Hb Hb'. destruct (Nat.eqb_spec a a') as [->|Ha]; cbn [andb].
  - destruct (Nat.eqb_spec b b') as [->|Hn]; [now rewrite Nat.eqb_refl|]. apply Nat.eqb_neq. lia.
  - apply Nat.eqb_neq. intros E. apply Ha.
    destruct (divmod_flat a b n Hb) as [Q _]. destruct (divmod_flat a' b' n Hb') as [Q' _]. congruence. Qed.
Lemma divmod_eqb (n r s : nat) : (0 < n)%nat ->
  Nat.eqb r s = Nat.eqb (r / n) (s / n) && Nat.eqb (r mod n) (s mod n).
Proof. intros Hn. rewrite (Nat.div_mod_eq r n) at 1. rewrite (Nat.div_mod_eq s n) at 1.
  rewrite (Nat.mul_comm n (r / n)), (Nat.mul_comm n (s / n)).
  apply flat_eqb; apply Nat.mod_upper_bound; lia. Qed.

(* ------------------------------------------------------------------ entrywise operations *)
Lemma cadj_cadj (A : cmat) i j : cadj (cadj A) i j = A i j. Proof. unfold cadj. apply cj_cj. Qed.
Lemma cconj_mT (A : cmat) i j : cconj A i j = mT (cadj A) i j. Proof. reflexivity. Qed.
Lemma cadj_mmul k (A B : cmat) i j : cadj (mmul k A B) i j = mmul k (cadj B) (cadj A) i j.
Proof. unfold cadj, mmul. rewrite cj_sum. apply csum_ext; intros l _. rewrite cj_mul. ring. Qed.
Lemma hermitian_cconj d (A : cmat) : hermitian d A -> hermitian d (cconj A).
Proof. intros H i j Hi Hj. unfold cconj. now rewrite <- (H i j Hi Hj), <- (H j i Hj Hi). Qed.
Lemma hermitian_kron m n (A B : cmat) : hermitian m A -> hermitian n B -> hermitian (m * n) (kron n n A B).
Proof. intros HA HB i j Hi Hj. unfold kron. rewrite cj_mul.
  assert (0 < n)%nat by (destruct n; [lia|lia]).
  assert (i / n < m)%nat by (apply Nat.div_lt_upper_bound; lia).
  assert (j / n < m)%nat by (apply Nat.div_lt_upper_bound; lia).
  rewrite <- HA, <- HB by (try assumption; apply Nat.mod_upper_bound; lia). reflexivity. Qed.

(* ------------------------------------------------------------------ Hilbert-Schmidt inner product *)
Lemma hs_inner_ext d (A A' X X' : cmat) : meq d d A A' -> meq d d X X' -> hs_inner d A X = hs_inner d A' X'.
Proof. intros HA HX. unfold hs_inner. apply csum_ext2; intros i j Hi Hj. now rewrite HA, HX. Qed.
Lemma hs_inner_sum_r d (A : cmat) n (c : nat -> Cx) (M : nat -> cmat) :
  hs_inner d A (fun i j => csum n (fun a => c a * M a i j)) = csum n (fun a => c a * hs_inner d A (M a)).
Proof. unfold hs_inner.
  transitivity (csum d (fun i => csum d (fun j => csum n (fun a => c a * (zconj (A i j) * M a i j))))).
  { apply csum_ext2; intros i j _ _. rewrite <- sumn_scale_l. apply csum_ext; intros; ring. }
  rewrite csum_rot3. apply csum_ext; intros a _. now rewrite csum2_scale_l. Qed.
Lemma hs_inner_sum_l d (X : cmat) n (c : nat -> Cx) (M : nat -> cmat) :
  hs_inner d (fun i j => csum n (fun a => c a * M a i j)) X = csum n (fun a => zconj (c a) * hs_inner d (M a) X).
Proof. unfold hs_inner.
  transitivity (csum d (fun i => csum d (fun j => csum n (fun a => zconj (c a) * (zconj (M a i j) * X i j))))).
  { apply csum_ext2; intros i j _ _. rewrite cj_sum, <- sumn_scale_r. apply csum_ext; intros a _. rewrite cj_mul. ring. }
  rewrite csum_rot3. apply csum_ext; intros a _. now rewrite csum2_scale_l. Qed.
Lemma hs_inner_add_r d (A X Y : cmat) : hs_inner d A (madd X Y) = hs_inner d A X + hs_inner d A Y.
Proof. unfold hs_inner, madd. rewrite <- csum2_add. apply csum_ext2; intros; ring. Qed.
Lemma hs_inner_add_l d (A A' X : cmat) : hs_inner d (madd A A') X = hs_inner d A X + hs_inner d A' X.
Proof. unfold hs_inner, madd. rewrite <- csum2_add. apply csum_ext2; intros. rewrite cj_add. ring. Qed.
Lemma hs_inner_scale_r d (A X : cmat) (c : Cx) : hs_inner d A (mscale c X) = c * hs_inner d A X.
Proof. unfold hs_inner, mscale. rewrite <- csum2_scale_l. apply csum_ext2; intros; ring. Qed.
Lemma hs_inner_scale_l d (A X : cmat) (c : Cx) : hs_inner d (mscale c A) X = zconj c * hs_inner d A X.
Proof. unfold hs_inner, mscale. rewrite <- csum2_scale_l. apply csum_ext2; intros. rewrite cj_mul. ring. Qed.
Lemma hs_inner_zero_r d (A : cmat) : hs_inner d A (fun _ _ => 0) = 0.
Proof. unfold hs_inner. rewrite (csum_ext2 d d _ (fun _ _ => 0)) by (intros; ring).
  rewrite (sumn_ext d _ (fun _ => 0)) by (intros; apply sumn_zero). apply sumn_zero. Qed.
Lemma hs_inner_conj_sym d (A X : cmat) : zconj (hs_inner d A X) = hs_inner d X A.
Proof. unfold hs_inner. rewrite cj_sum. apply csum_ext; intros i _. rewrite cj_sum. apply csum_ext; intros j _.
  rewrite cj_mul, cj_cj. ring. Qed.
Lemma hs_inner_trace d (A X : cmat) : hs_inner d A X = mtrace d (mmul d (cadj A) X).
Proof. unfold hs_inner, mtrace, mmul, cadj. rewrite sumn_swap. reflexivity. Qed.
Lemma hs_inner_cconj d (A X : cmat) : hs_inner d (cconj A) (cconj X) = zconj (hs_inner d A X).
Proof. unfold hs_inner, cconj. rewrite cj_sum. apply csum_ext; intros i _. rewrite cj_sum. apply csum_ext; intros j _.
  now rewrite cj_mul. Qed.
Lemma hs_inner_adj_swap d (A X : cmat) : hs_inner d (cadj A) (cadj X) = hs_inner d X A.
Proof. unfold hs_inner, cadj. rewrite sumn_swap. apply csum_ext2; intros. rewrite cj_cj. ring. Qed.
(* <A, X> is real when both are Hermitian *)
Lemma hs_inner_herm_real d (A X : cmat) : hermitian d A -> hermitian d X -> im (hs_inner d A X) = r0.
Proof. intros HA HX. apply self_conj_real. rewrite hs_inner_conj_sym. unfold hs_inner. rewrite sumn_swap.
  apply csum_ext2; intros j i Hj Hi. rewrite (HX i j Hi Hj), (HA j i Hj Hi), !cj_cj. ring. Qed.
(* <A (x) B, A' (x) B'> = <A,A'> <B,B'> *)
Lemma hs_inner_kron m n (A B A' B' : cmat) :
  hs_inner (m * n) (kron n n A B) (kron n n A' B') = hs_inner m A A' * hs_inner n B B'.
Proof. unfold hs_inner. rewrite sumn_flat, sumn_mul. apply csum_ext; intros a Ha. apply csum_ext; intros b Hb.
  rewrite sumn_flat, sumn_mul. apply csum_ext; intros c Hc. apply csum_ext; intros e He.
  unfold kron. destruct (divmod_flat a b n Hb) as [-> ->]. destruct (divmod_flat c e n He) as [-> ->].
  rewrite cj_mul. ring. Qed.

(* ------------------------------------------------------------------ coefficient vector <-> operator *)
Lemma op_of_vec_cvec d (B : nat -> cmat) (v : rvec) i j : op_of_vec d B v i j = op_of_cvec d B (fun a => zof (v a)) i j.
Proof. reflexivity. Qed.
Lemma vec_of_op_re d (B : nat -> cmat) (X : cmat) a : vec_of_op d B X a = re (cvec_of_op d B X a).
Proof. reflexivity. Qed.
Lemma op_of_cvec_ext d (B : nat -> cmat) (c c' : cvec) i j : veq (d * d) c c' -> op_of_cvec d B c i j = op_of_cvec d B c' i j.
Proof. intros H. unfold op_of_cvec. apply csum_ext; intros a Ha. now rewrite H. Qed.
Lemma cvec_of_op_ext d (B : nat -> cmat) (X Y : cmat) a : meq d d X Y -> cvec_of_op d B X a = cvec_of_op d B Y a.
Proof. intros H. unfold cvec_of_op. apply hs_inner_ext; [apply meq_refl|exact H]. Qed.

(* ROUND TRIP 1: coefficients -> operator -> coefficients  (needs orthonormality only) *)
Lemma cvec_of_op_of_cvec d (B : nat -> cmat) (c : cvec) a : basis_orthonormal d B -> (a < d * d)%nat ->
  cvec_of_op d B (op_of_cvec d B c) a = c a.
Proof. intros Ho Ha. unfold cvec_of_op, op_of_cvec. rewrite hs_inner_sum_r.
  rewrite (sumn_ext (d * d) _ (fun b => if Nat.eqb a b then c b else 0)).
  2:{ intros b Hb. rewrite (Ho a b Ha Hb). destruct (Nat.eqb a b); ring. }
  exact (sumn_delta' (d * d) a c Ha). Qed.
Lemma vec_of_op_of_vec d (B : nat -> cmat) (v : rvec) a : basis_orthonormal d B -> (a < d * d)%nat ->
  vec_of_op d B (op_of_vec d B v) a = v a.
Proof. intros Ho Ha. unfold vec_of_op. change (hs_inner d (B a) (op_of_vec d B v)) with (cvec_of_op d B (op_of_cvec d B (fun a => zof (v a))) a).
  now rewrite cvec_of_op_of_cvec. Qed.
Lemma cvec_of_op_of_vec d (B : nat -> cmat) (v : rvec) a : basis_orthonormal d B -> (a < d * d)%nat ->
  cvec_of_op d B (op_of_vec d B v) a = zof (v a).
Proof. intros Ho Ha. exact (cvec_of_op_of_cvec d B (fun a => zof (v a)) a Ho Ha). Qed.

(* ROUND TRIP 2: operator -> coefficients -> operator  (needs completeness only) *)
Lemma op_of_cvec_of_op d (B : nat -> cmat) (X : cmat) i j : basis_complete d B -> (i < d)%nat -> (j < d)%nat ->
  op_of_cvec d B (cvec_of_op d B X) i j = X i j.
Proof. intros Hc Hi Hj. unfold op_of_cvec, cvec_of_op, hs_inner.
  transitivity (csum (d * d) (fun a => csum d (fun k => csum d (fun l => X k l * (zconj (B a k l) * B a i j))))).
  { apply csum_ext; intros a _. rewrite <- csum2_scale_r. apply csum_ext2; intros; ring. }
  rewrite <- (csum_rot3 d d (d * d) (fun k l a => X k l * (zconj (B a k l) * B a i j))).
  rewrite (csum_ext2 d d _ (fun k l => if Nat.eqb k i && Nat.eqb l j then X k l else 0)).
  2:{ intros k l Hk Hl. rewrite sumn_scale_l, (Hc k l i j Hk Hl Hi Hj). destruct (Nat.eqb k i && Nat.eqb l j); ring. }
  exact (csum2_delta d d i j X Hi Hj). Qed.
Lemma op_of_cvec_of_op_meq d (B : nat -> cmat) (X : cmat) : basis_complete d B -> meq d d (op_of_cvec d B (cvec_of_op d B X)) X.
Proof. intros Hc i j Hi Hj. now apply op_of_cvec_of_op. Qed.

(* Hermitian bases: real coefficients <-> Hermitian operators *)
Lemma cvec_of_op_real d (B : nat -> cmat) (X : cmat) a : basis_hermitian d B -> hermitian d X -> (a < d * d)%nat ->
  cvec_of_op d B X a = zof (vec_of_op d B X a).
Proof. intros Hh HX Ha. apply cplx_real. apply hs_inner_herm_real; [now apply Hh|exact HX]. Qed.
Lemma op_of_vec_hermitian d (B : nat -> cmat) (v : rvec) : basis_hermitian d B -> hermitian d (op_of_vec d B v).
Proof. intros Hh i j Hi Hj. unfold op_of_vec. rewrite cj_sum. apply csum_ext; intros a Ha.
  rewrite cj_mul, cj_zof, <- (Hh a Ha i j Hi Hj). reflexivity. Qed.
Lemma op_of_vec_of_op d (B : nat -> cmat) (X : cmat) i j : basis_complete d B -> basis_hermitian d B -> hermitian d X ->
  (i < d)%nat -> (j < d)%nat -> op_of_vec d B (vec_of_op d B X) i j = X i j.
Proof. intros Hc Hh HX Hi Hj. rewrite <- (op_of_cvec_of_op d B X i j Hc Hi Hj). rewrite op_of_vec_cvec.
  apply op_of_cvec_ext. intros a Ha. symmetry. now apply cvec_of_op_real. Qed.

(* Parseval / polarised Frobenius isometry of the coefficient map *)
Lemma hs_inner_op_of_cvec d (B : nat -> cmat) (c c' : cvec) : basis_orthonormal d B ->
  hs_inner d (op_of_cvec d B c) (op_of_cvec d B c') = csum (d * d) (fun a => zconj (c a) * c' a).
Proof. intros Ho. unfold op_of_cvec at 1. rewrite hs_inner_sum_l. apply csum_ext; intros a Ha.
  change (hs_inner d (B a) (op_of_cvec d B c')) with (cvec_of_op d B (op_of_cvec d B c') a).
  now rewrite cvec_of_op_of_cvec. Qed.
Lemma hs_inner_cvec_of_op d (B : nat -> cmat) (X Y : cmat) : basis_complete d B ->
  hs_inner d X Y = csum (d * d) (fun a => zconj (cvec_of_op d B X a) * cvec_of_op d B Y a).
Proof. intros Hc. rewrite (hs_inner_ext d X (op_of_cvec d B (cvec_of_op d B X)) Y Y).
  2:{ apply meq_sym. now apply op_of_cvec_of_op_meq. } 2:{ apply meq_refl. }
  unfold op_of_cvec. now rewrite hs_inner_sum_l. Qed.
(* Born rule through coefficient vectors: <Pi, rho> = sum_a p_a s_a for Hermitian objects *)
Lemma born_hs_inner d (B : nat -> cmat) (pv sv : rvec) : basis_orthonormal d B ->
  hs_inner d (op_of_vec d B pv) (op_of_vec d B sv) = zof (born d pv sv).
Proof. intros Ho. change (op_of_vec d B pv) with (op_of_cvec d B (fun a => zof (pv a))).
  change (op_of_vec d B sv) with (op_of_cvec d B (fun a => zof (sv a))).
  rewrite hs_inner_op_of_cvec by exact Ho. unfold born, dot. rewrite zof_sum.
  apply csum_ext; intros a _. now rewrite cj_zof, zof_mul. Qed.

(* linearity of the two coefficient maps *)
Lemma op_of_cvec_add d (B : nat -> cmat) (c c' : cvec) i j : op_of_cvec d B (vadd c c') i j = madd (op_of_cvec d B c) (op_of_cvec d B c') i j.
Proof. unfold op_of_cvec, vadd, madd. rewrite <- sumn_add. apply csum_ext; intros; ring. Qed.
Lemma op_of_cvec_scale d (B : nat -> cmat) (k : Cx) (c : cvec) i j : op_of_cvec d B (vscale k c) i j = mscale k (op_of_cvec d B c) i j.
Proof. unfold op_of_cvec, vscale, mscale. rewrite <- sumn_scale_l. apply csum_ext; intros; ring. Qed.
Lemma op_of_cvec_sum d (B : nat -> cmat) n (k : nat -> Cx) (cs : nat -> cvec) i j :
  op_of_cvec d B (fun a => csum n (fun t => k t * cs t a)) i j = csum n (fun t => k t * op_of_cvec d B (cs t) i j).
Proof. unfold op_of_cvec.
  transitivity (csum (d * d) (fun a => csum n (fun t => k t * (cs t a * B a i j)))).
  { apply csum_ext; intros a _. rewrite <- sumn_scale_r. apply csum_ext; intros; ring. }
  rewrite sumn_swap. apply csum_ext; intros t _. now rewrite sumn_scale_l. Qed.
Lemma op_of_vec_add d (B : nat -> cmat) (v w : rvec) i j : op_of_vec d B (vadd v w) i j = madd (op_of_vec d B v) (op_of_vec d B w) i j.
Proof. unfold op_of_vec, vadd, madd. rewrite <- sumn_add. apply csum_ext; intros. rewrite zof_add. ring. Qed.
Lemma op_of_vec_scale d (B : nat -> cmat) (k : F) (v : rvec) i j : op_of_vec d B (vscale k v) i j = mscale (zof k : Cx) (op_of_vec d B v) i j.
Proof. unfold op_of_vec, vscale, mscale. rewrite <- sumn_scale_l. apply csum_ext; intros. rewrite zof_mul. ring. Qed.
Lemma cvec_of_op_add d (B : nat -> cmat) (X Y : cmat) a : cvec_of_op d B (madd X Y) a = vadd (cvec_of_op d B X) (cvec_of_op d B Y) a.
Proof. apply hs_inner_add_r. Qed.
Lemma cvec_of_op_scale d (B : nat -> cmat) (k : Cx) (X : cmat) a : cvec_of_op d B (mscale k X) a = vscale k (cvec_of_op d B X) a.
Proof. apply hs_inner_scale_r. Qed.
Lemma cvec_of_op_sum d (B : nat -> cmat) n (k : nat -> Cx) (M : nat -> cmat) a :
  cvec_of_op d B (fun i j => csum n (fun t => k t * M t i j)) a = csum n (fun t => k t * cvec_of_op d B (M t) a).
Proof. apply hs_inner_sum_r. Qed.
Lemma vec_of_op_add d (B : nat -> cmat) (X Y : cmat) a : vec_of_op d B (madd X Y) a = vadd (vec_of_op d B X) (vec_of_op d B Y) a.
Proof. unfold vec_of_op. now rewrite hs_inner_add_r. Qed.
Lemma vec_of_op_scale_real d (B : nat -> cmat) (k : F) (X : cmat) a : vec_of_op d B (mscale (zof k : Cx) X) a = vscale k (vec_of_op d B X) a.
Proof. unfold vec_of_op. rewrite hs_inner_scale_r. apply re_zof_mul. Qed.

(* ------------------------------------------------------------------ the tensor basis  B_a (x) conj B_b  (dimension d*d) *)
Lemma bb_basis_flat d (B : nat -> cmat) a b i j : (b < d * d)%nat -> bb_basis d B (a * (d * d) + b) i j = bbc d B a b i j.
Proof. intros Hb. unfold bb_basis. now destruct (divmod_flat a b (d * d) Hb) as [-> ->]. Qed.
Lemma bbc_inner d (B : nat -> cmat) a b a' b' :
  hs_inner (d * d) (bbc d B a b) (bbc d B a' b') = hs_inner d (B a) (B a') * zconj (hs_inner d (B b) (B b')).
Proof. unfold bbc. now rewrite hs_inner_kron, hs_inner_cconj. Qed.
Lemma bb_orthonormal d (B : nat -> cmat) : basis_orthonormal d B -> basis_orthonormal (d * d) (bb_basis d B).
Proof. intros Ho c c' Hc Hc'. unfold bb_basis. rewrite bbc_inner.
  assert (HD : (0 < d * d)%nat) by (destruct (d * d)%nat; [cbn in Hc; lia|lia]).
  destruct (divmod_lt (d * d) c Hc) as [A1 A2]. destruct (divmod_lt (d * d) c' Hc') as [A3 A4].
  rewrite (Ho _ _ A1 A3), (Ho _ _ A2 A4), cj_if, (divmod_eqb (d * d) c c' HD).
  destruct (Nat.eqb (c / (d * d)) (c' / (d * d))), (Nat.eqb (c mod (d * d)) (c' mod (d * d))); cbn [andb]; ring. Qed.
Lemma bb_complete d (B : nat -> cmat) : basis_complete d B -> basis_complete (d * d) (bb_basis d B).
Proof. intros Hc i j k l Hi Hj Hk Hl. rewrite (sumn_flat (d * d) (d * d)).
  destruct (divmod_lt d i Hi) as [I1 I2]. destruct (divmod_lt d j Hj) as [J1 J2].
  destruct (divmod_lt d k Hk) as [K1 K2]. destruct (divmod_lt d l Hl) as [L1 L2].
  assert (Hd : (0 < d)%nat) by lia.
  transitivity (csum (d * d) (fun a => zconj (B a (i / d) (j / d)) * B a (k / d) (l / d)) *
                zconj (csum (d * d) (fun b => zconj (B b (i mod d) (j mod d)) * B b (k mod d) (l mod d)))).
  { rewrite cj_sum, sumn_mul. apply csum_ext2; intros a b Ha Hb. rewrite !bb_basis_flat by exact Hb.
    unfold bbc, kron, cconj. rewrite !cj_mul, !cj_cj. ring. }
  rewrite (Hc _ _ _ _ I1 J1 K1 L1), (Hc _ _ _ _ I2 J2 K2 L2), cj_if.
  rewrite (divmod_eqb d i k Hd), (divmod_eqb d j l Hd).
  destruct (Nat.eqb (i / d) (k / d)), (Nat.eqb (j / d) (l / d)), (Nat.eqb (i mod d) (k mod d)), (Nat.eqb (j mod d) (l mod d)); cbn [andb]; ring. Qed.
Lemma bbc_hermitian d (B : nat -> cmat) a b : basis_hermitian d B -> (a < d * d)%nat -> (b < d * d)%nat -> hermitian (d * d) (bbc d B a b).
Proof. intros Hh Ha Hb. unfold bbc. apply hermitian_kron; [now apply Hh|apply hermitian_cconj; now apply Hh]. Qed.
Lemma bb_hermitian d (B : nat -> cmat) : basis_hermitian d B -> basis_hermitian (d * d) (bb_basis d B).
Proof. intros Hh c Hc. destruct (divmod_lt (d * d) c Hc). unfold bb_basis. now apply bbc_hermitian. Qed.

(* ------------------------------------------------------------------ HS <-> Choi *)
Lemma choi_of_hs_cchoi d (B : nat -> cmat) (HS : rmat) i j : choi_of_hs d B HS i j = cchoi_of_hs d B (cof HS) i j.
Proof. reflexivity. Qed.
Lemma hs_of_choi_re d (B : nat -> cmat) (Ch : cmat) a b : hs_of_choi d B Ch a b = re (chs_of_choi d B Ch a b).
Proof. reflexivity. Qed.
(* the Choi matrix is the operator whose coefficient vector w.r.t. the tensor basis is the flattened HS matrix *)
Lemma cchoi_as_op d (B : nat -> cmat) (H : cmat) i j :
  cchoi_of_hs d B H i j = op_of_cvec (d * d) (bb_basis d B) (vecr (d * d) H) i j.
Proof. unfold cchoi_of_hs, op_of_cvec. rewrite (sumn_flat (d * d) (d * d)). apply csum_ext2; intros a b Ha Hb.
  rewrite bb_basis_flat by exact Hb. unfold vecr. now destruct (divmod_flat a b (d * d) Hb) as [-> ->]. Qed.
Lemma chs_as_cvec d (B : nat -> cmat) (Ch : cmat) a b : (b < d * d)%nat ->
  chs_of_choi d B Ch a b = cvec_of_op (d * d) (bb_basis d B) Ch (a * (d * d) + b)%nat.
Proof. intros Hb. unfold chs_of_choi, cvec_of_op. apply hs_inner_ext; [|apply meq_refl].
  intros i j _ _. now rewrite bb_basis_flat. Qed.
Lemma cchoi_of_hs_ext d (B : nat -> cmat) (H H' : cmat) i j : meq (d * d) (d * d) H H' -> cchoi_of_hs d B H i j = cchoi_of_hs d B H' i j.
Proof. intros E. unfold cchoi_of_hs. apply csum_ext2; intros a b Ha Hb. now rewrite E. Qed.
Lemma chs_of_choi_ext d (B : nat -> cmat) (Ch Ch' : cmat) a b : meq (d * d) (d * d) Ch Ch' -> chs_of_choi d B Ch a b = chs_of_choi d B Ch' a b.
Proof. intros E. unfold chs_of_choi. apply hs_inner_ext; [apply meq_refl|exact E]. Qed.

(* ROUND TRIP HS -> Choi -> HS (orthonormal) *)
Lemma chs_of_cchoi d (B : nat -> cmat) (H : cmat) a b : basis_orthonormal d B -> (a < d * d)%nat -> (b < d * d)%nat ->
  chs_of_choi d B (cchoi_of_hs d B H) a b = H a b.
Proof. intros Ho Ha Hb. rewrite chs_as_cvec by exact Hb.
  rewrite (cvec_of_op_ext (d * d) (bb_basis d B) _ (op_of_cvec (d * d) (bb_basis d B) (vecr (d * d) H))).
  2:{ intros i j _ _. apply cchoi_as_op. }
  rewrite cvec_of_op_of_cvec; [|now apply bb_orthonormal|now apply flat_lt].
  unfold vecr. now destruct (divmod_flat a b (d * d) Hb) as [-> ->]. Qed.
Lemma hs_of_choi_of_hs d (B : nat -> cmat) (HS : rmat) a b : basis_orthonormal d B -> (a < d * d)%nat -> (b < d * d)%nat ->
  hs_of_choi d B (choi_of_hs d B HS) a b = HS a b.
Proof. intros Ho Ha Hb. unfold hs_of_choi. change (choi_of_hs d B HS) with (cchoi_of_hs d B (cof HS)).
  now rewrite chs_of_cchoi. Qed.
(* ROUND TRIP Choi -> HS -> Choi (complete) *)
Lemma cchoi_of_chs d (B : nat -> cmat) (Ch : cmat) i j : basis_complete d B -> (i < d * d)%nat -> (j < d * d)%nat ->
  cchoi_of_hs d B (chs_of_choi d B Ch) i j = Ch i j.
Proof. intros Hc Hi Hj. rewrite cchoi_as_op.
  rewrite (op_of_cvec_ext (d * d) (bb_basis d B) _ (cvec_of_op (d * d) (bb_basis d B) Ch)).
  2:{ intros c Hcc. unfold vecr. destruct (divmod_lt (d * d) c Hcc) as [_ A]. rewrite (chs_as_cvec d B Ch _ _ A).
      f_equal. rewrite Nat.mul_comm. symmetry. apply Nat.div_mod_eq. }
  apply op_of_cvec_of_op; [now apply bb_complete|exact Hi|exact Hj]. Qed.
(* a Hermitian Choi matrix has a real HS matrix (Hermitian basis), and a real HS matrix a Hermitian Choi matrix *)
Lemma chs_of_choi_real d (B : nat -> cmat) (Ch : cmat) a b : basis_hermitian d B -> hermitian (d * d) Ch ->
  (a < d * d)%nat -> (b < d * d)%nat -> chs_of_choi d B Ch a b = zof (hs_of_choi d B Ch a b).
Proof. intros Hh HC Ha Hb. apply cplx_real. apply hs_inner_herm_real; [now apply bbc_hermitian|exact HC]. Qed.
Lemma choi_of_hs_hermitian d (B : nat -> cmat) (HS : rmat) : basis_hermitian d B -> hermitian (d * d) (choi_of_hs d B HS).
Proof. intros Hh i j Hi Hj. unfold choi_of_hs. rewrite cj_sum. apply csum_ext; intros a Ha. rewrite cj_sum.
  apply csum_ext; intros b Hb. rewrite cj_mul, cj_zof, <- (bbc_hermitian d B a b Hh Ha Hb i j Hi Hj). reflexivity. Qed.
Lemma choi_of_hs_of_choi d (B : nat -> cmat) (Ch : cmat) i j : basis_complete d B -> basis_hermitian d B -> hermitian (d * d) Ch ->
  (i < d * d)%nat -> (j < d * d)%nat -> choi_of_hs d B (hs_of_choi d B Ch) i j = Ch i j.
Proof. intros Hc Hh HC Hi Hj. rewrite <- (cchoi_of_chs d B Ch i j Hc Hi Hj). rewrite choi_of_hs_cchoi.
  apply cchoi_of_hs_ext. intros a b Ha Hb. unfold cof. symmetry. now apply chs_of_choi_real. Qed.

(* Frobenius isometry (polarised):  <Choi(H), Choi(H')> = <H, H'> ; in particular ||Choi||_F = ||HS||_F *)
Lemma cchoi_isometry d (B : nat -> cmat) (H H' : cmat) : basis_orthonormal d B ->
  hs_inner (d * d) (cchoi_of_hs d B H) (cchoi_of_hs d B H') = hs_inner (d * d) H H'.
Proof. intros Ho.
  rewrite (hs_inner_ext (d * d) _ (op_of_cvec (d * d) (bb_basis d B) (vecr (d * d) H)) _ (op_of_cvec (d * d) (bb_basis d B) (vecr (d * d) H'))).
  2,3: intros i j _ _; apply cchoi_as_op.
  rewrite hs_inner_op_of_cvec by now apply bb_orthonormal.
  unfold hs_inner. rewrite (sumn_flat (d * d) (d * d)). apply csum_ext2; intros a b Ha Hb. unfold vecr.
  now destruct (divmod_flat a b (d * d) Hb) as [-> ->]. Qed.
Lemma choi_frobenius d (B : nat -> cmat) (HS HS' : rmat) : basis_orthonormal d B ->
  hs_inner (d * d) (choi_of_hs d B HS) (choi_of_hs d B HS') = zof (inner (d * d) (d * d) HS HS').
Proof. intros Ho. change (choi_of_hs d B HS) with (cchoi_of_hs d B (cof HS)). change (choi_of_hs d B HS') with (cchoi_of_hs d B (cof HS')).
  rewrite cchoi_isometry by exact Ho. unfold hs_inner, inner, cof. rewrite zof_sum. apply csum_ext; intros a _.
  rewrite zof_sum. apply csum_ext; intros b _. now rewrite cj_zof, zof_mul. Qed.
Lemma chs_isometry d (B : nat -> cmat) (Ch Ch' : cmat) : basis_complete d B ->
  hs_inner (d * d) (chs_of_choi d B Ch) (chs_of_choi d B Ch') = hs_inner (d * d) Ch Ch'.
Proof. intros Hc. rewrite (hs_inner_cvec_of_op (d * d) (bb_basis d B) Ch Ch') by now apply bb_complete.
  unfold hs_inner at 1. rewrite (sumn_flat (d * d) (d * d)). apply csum_ext2; intros a b Ha Hb. now rewrite !chs_as_cvec. Qed.

(* linearity of HS <-> Choi *)
Lemma cchoi_of_hs_add d (B : nat -> cmat) (H H' : cmat) i j : cchoi_of_hs d B (madd H H') i j = madd (cchoi_of_hs d B H) (cchoi_of_hs d B H') i j.
Proof. unfold cchoi_of_hs, madd. rewrite <- csum2_add. apply csum_ext2; intros; ring. Qed.
Lemma cchoi_of_hs_scale d (B : nat -> cmat) (k : Cx) (H : cmat) i j : cchoi_of_hs d B (mscale k H) i j = mscale k (cchoi_of_hs d B H) i j.
Proof. unfold cchoi_of_hs, mscale. rewrite <- csum2_scale_l. apply csum_ext2; intros; ring. Qed.
Lemma choi_of_hs_add d (B : nat -> cmat) (H H' : rmat) i j : choi_of_hs d B (madd H H') i j = madd (choi_of_hs d B H) (choi_of_hs d B H') i j.
Proof. unfold choi_of_hs, madd. rewrite <- csum2_add. apply csum_ext2; intros. rewrite zof_add. ring. Qed.
Lemma choi_of_hs_scale d (B : nat -> cmat) (k : F) (H : rmat) i j : choi_of_hs d B (mscale k H) i j = mscale (zof k : Cx) (choi_of_hs d B H) i j.
Proof. unfold choi_of_hs, mscale. rewrite <- csum2_scale_l. apply csum_ext2; intros. rewrite zof_mul. ring. Qed.
Lemma chs_of_choi_add d (B : nat -> cmat) (Ch Ch' : cmat) a b : chs_of_choi d B (madd Ch Ch') a b = madd (chs_of_choi d B Ch) (chs_of_choi d B Ch') a b.
Proof. apply hs_inner_add_r. Qed.
Lemma chs_of_choi_scale d (B : nat -> cmat) (k : Cx) (Ch : cmat) a b : chs_of_choi d B (mscale k Ch) a b = mscale k (chs_of_choi d B Ch) a b.
Proof. apply hs_inner_scale_r. Qed.
Lemma hs_of_choi_add d (B : nat -> cmat) (Ch Ch' : cmat) a b : hs_of_choi d B (madd Ch Ch') a b = madd (hs_of_choi d B Ch) (hs_of_choi d B Ch') a b.
Proof. unfold hs_of_choi. now rewrite chs_of_choi_add. Qed.
Lemma hs_of_choi_scale_real d (B : nat -> cmat) (k : F) (Ch : cmat) a b : hs_of_choi d B (mscale (zof k : Cx) Ch) a b = mscale k (hs_of_choi d B Ch) a b.
Proof. unfold hs_of_choi. rewrite chs_of_choi_scale. apply re_zof_mul. Qed.
End QObjBase.
