(* C20 — the four tomography classes: which schedule arguments their constructors accept. *)
From Coq Require Import ZArith List Bool Arith String Lia.
From QV.Model Require Import C20_Schedule.
From QV.Proofs Require Import C20_Schedule.
Import ListNotations.

(* ================================================================== the documented shapes *)
Definition class_shape (t : tclass) (ns np : nat) (s : rsched) : Prop :=
  match t with
  | Qst => exists j, (0 <= j < Z.of_nat np)%Z /\ s = sched_of [(KState, 0%Z); (KPovm, j)]
  | Povmt => exists i, (0 <= i < Z.of_nat ns)%Z /\ s = sched_of [(KState, i); (KPovm, 0%Z)]
  | Qpt => exists i j, (0 <= i < Z.of_nat ns)%Z /\ (0 <= j < Z.of_nat np)%Z /\
                       s = sched_of [(KState, i); (KGate, 0%Z); (KPovm, j)]
  | Qmpt => exists i j, (0 <= i < Z.of_nat ns)%Z /\ (0 <= j < Z.of_nat np)%Z /\
                        s = sched_of [(KState, i); (KMprocess, 0%Z); (KPovm, j)]
  end.
(* ================================================================== sizes of the class experiments *)
Definition class_size (t : tclass) (ns np : nat) (k : kind) : Z :=
  match t, k with
  | Qst, KState => 1 | Qst, KPovm => Z.of_nat np
  | Povmt, KState => Z.of_nat ns | Povmt, KPovm => 1
  | Qpt, KState => Z.of_nat ns | Qpt, KPovm => Z.of_nat np | Qpt, KGate => 1
  | Qmpt, KState => Z.of_nat ns | Qmpt, KPovm => Z.of_nat np | Qmpt, KMprocess => 1
  | _, _ => 0
  end%Z.
Lemma size_class t ns np k : size (class_cfg t ns np) k = class_size t ns np k.
Proof. unfold size. destruct t, k; cbn; rewrite ?repeat_length; reflexivity. Qed.
Lemma in_range_class t ns np k z : in_range (class_cfg t ns np) (k, z) <-> (0 <= z < class_size t ns np k)%Z.
Proof. unfold in_range; cbn [fst snd]. now rewrite size_class. Qed.

(* ================================================================== plumbing *)
Lemma typed_of_sched_of c t : Forall (in_range c) t -> typed_of c (sched_of t) = t.
Proof.
  intros H. unfold typed_of, sched_of.
  assert (E : validate_items c 0 (map raw t) = inl t) by (apply validate_items_inl_iff; auto). now rewrite E.
Qed.
Lemma guard_from_ok_iff g c ss : forall i,
  guard_from g c i ss = TOk <-> Forall (fun s => g (typed_of c s) = GPass) ss.
Proof.
  induction ss as [|s ss IH]; intros i; cbn; [split; [constructor|reflexivity]|].
  destruct (g (typed_of c s)) eqn:E.
  - rewrite IH. split; [intros H; now constructor | intros H; now inversion H].
  - split; [discriminate | intros H; inversion H; congruence].
  - split; [discriminate | intros H; inversion H; congruence].
Qed.
(* accepted = Experiment accepts and the guard passes, schedule by schedule, on the typed items *)
Definition accepted_typed_with (g : list titem -> gres) (t : tclass) (ns np : nat) (items : list titem) : Prop :=
  Forall (in_range (class_cfg t ns np)) items /\ order_ok items /\ g items = GPass.
Definition accepted_typed (t : tclass) := accepted_typed_with (guard_one t) t.
Lemma tomo_run_with_ok_iff g t ns np ss :
  tomo_run_with g t ns np ss = TOk <->
  Forall (fun s => exists items, s = sched_of items /\ accepted_typed_with g t ns np items) ss.
Proof.
  unfold tomo_run_with. set (c := class_cfg t ns np).
  assert (R : validate_schedules c ss <> VOk ->
              ~ Forall (fun s => exists items, s = sched_of items /\ accepted_typed_with g t ns np items) ss).
  { intros N H. apply N. apply experiment_accepts_iff. rewrite Forall_forall in *. intros s Hin.
    destruct (H s Hin) as (items & -> & Hr & Ho & _). exists items. split; [reflexivity|split; assumption]. }
  destruct (validate_schedules c ss) eqn:E.
  - clear R. apply experiment_accepts_iff in E. rewrite guard_from_ok_iff. rewrite !Forall_forall in *. split.
    + intros G s Hin. destruct (E s Hin) as (items & -> & Hr & Ho). exists items. split; [reflexivity|].
      specialize (G _ Hin). fold (sched_of items) in G. rewrite typed_of_sched_of in G by assumption. split; [assumption|split; assumption].
    + intros H s Hin. destruct (H s Hin) as (items & -> & Hr & Ho & G). now rewrite typed_of_sched_of.
  - split; [discriminate|]. intros H. exfalso. apply R; [discriminate|exact H].
  - split; [discriminate|]. intros H. exfalso. apply R; [discriminate|exact H].
  - split; [discriminate|]. intros H. exfalso. apply R; [discriminate|exact H].
Qed.
Lemma tomo_run_ok_iff t ns np ss :
  tomo_run t ns np ss = TOk <->
  Forall (fun s => exists items, s = sched_of items /\ accepted_typed t ns np items) ss.
Proof. apply tomo_run_with_ok_iff. Qed.
(* the length test is vacuous for the three classes that do not have it *)
Lemma guard_one_core t s : class_len t = None -> guard_one t s = guard_core t s.
Proof. unfold guard_one, len_ok. now intros ->. Qed.
Lemma guard_one_pass t s : guard_one t s = GPass -> guard_core t s = GPass /\ len_ok t s = true.
Proof. unfold guard_one. destruct (len_ok t s); [auto|discriminate]. Qed.

Lemma last_pos {A} (items front : list A) x : items = front ++ [x] ->
  nth_error items (List.length front) = Some x /\ List.length items = S (List.length front).
Proof.
  intros ->. split.
  - rewrite nth_error_app2 by lia. now rewrite Nat.sub_diag.
  - rewrite app_length. cbn. lia.
Qed.
Lemma Forall_inv_cons {A} (P : A -> Prop) x l : Forall P (x :: l) -> P x /\ Forall P l.
Proof. intros H; now inversion H. Qed.

Ltac range_facts :=
  repeat match goal with
  | H : Forall _ (_ :: _) |- _ => apply Forall_inv_cons in H; destruct H
  | H : in_range (class_cfg _ _ _) (_, _) |- _ => apply in_range_class in H; cbn [class_size] in H
  end.

Ltac range_list :=
  repeat (first [apply Forall_nil | apply Forall_cons; [apply in_range_class; cbn [class_size]; lia|]]).

(* ================================================================== QST *)
Lemma qst_typed ns np items :
  accepted_typed Qst ns np items <-> exists j, (0 <= j < Z.of_nat np)%Z /\ items = [(KState, 0%Z); (KPovm, j)].
Proof.
  split.
  - intros (Hr & (Hlen & (z & rest & -> & Hns) & Hp & _) & _).
    destruct rest as [|[k1 z1] [|[k2 z2] tail]].
    + cbn in Hlen; lia.
    + range_facts. cbn [fst] in *. destruct k1; try lia; try contradiction. exists z1. split; [lia|]. f_equal. f_equal. lia.
    + exfalso. range_facts. cbn [fst] in *. destruct k1; try lia; try contradiction. destruct k2; try lia; try contradiction.
      specialize (Hp 1%nat 2%nat z1 z2 eq_refl eq_refl). discriminate.
  - intros (j & Hj & ->). split; [|split].
    + range_list.
    + now apply validate_order_none_iff.
    + reflexivity.
Qed.

(* ================================================================== POVMT *)
Lemma povmt_typed ns np items :
  accepted_typed Povmt ns np items <-> exists i, (0 <= i < Z.of_nat ns)%Z /\ items = [(KState, i); (KPovm, 0%Z)].
Proof.
  split.
  - intros (Hr & (Hlen & (z & rest & -> & Hns) & Hp & _) & _).
    destruct rest as [|[k1 z1] [|[k2 z2] tail]].
    + cbn in Hlen; lia.
    + range_facts. cbn [fst] in *. destruct k1; try lia; try contradiction. exists z. split; [lia|]. f_equal. f_equal. f_equal. lia.
    + exfalso. range_facts. cbn [fst] in *. destruct k1; try lia; try contradiction. destruct k2; try lia; try contradiction.
      specialize (Hp 1%nat 2%nat z1 z2 eq_refl eq_refl). discriminate.
  - intros (i & Hi & ->). split; [|split].
    + range_list.
    + now apply validate_order_none_iff.
    + reflexivity.
Qed.

(* ================================================================== QPT *)
Lemma guard3 t s k1 k2 : class_kinds t = [KState; k1; k2] -> guard_core t s = GPass ->
  exists z0 z1 z2 tail, s = (KState, z0) :: (k1, z1) :: (k2, z2) :: tail.
Proof.
  unfold guard_core. intros ->. cbn.
  destruct s as [|[k0' z0] [|[k1' z1] [|[k2' z2] tail]]]; cbn; try discriminate.
  - destruct (kind_eqb k0' KState); discriminate.
  - destruct (kind_eqb k0' KState); [|discriminate]. destruct (kind_eqb k1' k1); discriminate.
  - destruct (kind_eqb k0' KState) eqn:E0; [|discriminate]. destruct (kind_eqb k1' k1) eqn:E1; [|discriminate].
    destruct (kind_eqb k2' k2) eqn:E2; [|discriminate]. intros _.
    apply kind_eqb_eq in E0, E1, E2. subst. now exists z0, z1, z2, tail.
Qed.
Lemma qpt_typed ns np items :
  accepted_typed Qpt ns np items <->
  exists i j, (0 <= i < Z.of_nat ns)%Z /\ (0 <= j < Z.of_nat np)%Z /\ items = [(KState, i); (KGate, 0%Z); (KPovm, j)].
Proof.
  split.
  - intros (Hr & (Hlen & _ & Hp & (front & k & z & Hlast & Hk)) & G).
    rewrite guard_one_core in G by reflexivity.
    destruct (guard3 Qpt items KGate KPovm eq_refl G) as (z0 & z1 & z2 & tail & ->).
    assert (Hin : In (k, z) ((KState, z0) :: (KGate, z1) :: (KPovm, z2) :: tail)) by (rewrite Hlast; apply in_or_app; right; now left).
    pose proof (last_pos _ _ _ Hlast) as [Hnth Hl].
    rewrite Forall_forall in Hr. pose proof (Hr _ Hin) as Hkz. apply in_range_class in Hkz.
    destruct tail as [|x tail].
    + pose proof (Hr (KState, z0) (or_introl eq_refl)) as H0. pose proof (Hr (KGate, z1) (or_intror (or_introl eq_refl))) as H1.
      pose proof (Hr (KPovm, z2) (or_intror (or_intror (or_introl eq_refl)))) as H2.
      apply in_range_class in H0, H1, H2. cbn in H0, H1, H2. exists z0, z2. repeat split; try lia. f_equal. f_equal. f_equal. lia.
    + exfalso. cbn [List.length] in Hl. destruct Hk as [-> | ->]; cbn in Hkz; [|lia].
      specialize (Hp 2%nat (List.length front) z2 z eq_refl Hnth). unfold titem in *. lia.
  - intros (i & j & Hi & Hj & ->). split; [|split].
    + range_list.
    + now apply validate_order_none_iff.
    + reflexivity.
Qed.

(* ================================================================== QMPT *)
Lemma qmpt_typed ns np items :
  accepted_typed Qmpt ns np items <->
  exists i j, (0 <= i < Z.of_nat ns)%Z /\ (0 <= j < Z.of_nat np)%Z /\ items = [(KState, i); (KMprocess, 0%Z); (KPovm, j)].
Proof.
  split.
  - intros (Hr & _ & G). apply guard_one_pass in G. destruct G as [G L].
    destruct (guard3 Qmpt items KMprocess KPovm eq_refl G) as (z0 & z1 & z2 & tail & ->).
    cbn in L. destruct tail; [|discriminate L].
    range_facts. exists z0, z2. repeat split; try lia. f_equal. f_equal. f_equal. lia.
  - intros (i & j & Hi & Hj & ->). split; [|split].
    + range_list.
    + now apply validate_order_none_iff.
    + reflexivity.
Qed.

(* ================================================================== class theorems *)
Lemma Forall_iff {A} (P Q : A -> Prop) l : (forall x, P x <-> Q x) -> (Forall P l <-> Forall Q l).
Proof. intros H. rewrite !Forall_forall. split; intros G x Hx; apply H; auto. Qed.

Theorem qst_accepts_iff ns np ss : tomo_run Qst ns np ss = TOk <-> Forall (class_shape Qst ns np) ss.
Proof.
  rewrite tomo_run_ok_iff. apply Forall_iff. intros s. cbn [class_shape]. split.
  - intros (items & -> & H). apply qst_typed in H. destruct H as (j & Hj & ->). now exists j.
  - intros (j & Hj & ->). eexists. split; [reflexivity|]. apply qst_typed. now exists j.
Qed.
Theorem povmt_accepts_iff ns np ss : tomo_run Povmt ns np ss = TOk <-> Forall (class_shape Povmt ns np) ss.
Proof.
  rewrite tomo_run_ok_iff. apply Forall_iff. intros s. cbn [class_shape]. split.
  - intros (items & -> & H). apply povmt_typed in H. destruct H as (i & Hi & ->). now exists i.
  - intros (i & Hi & ->). eexists. split; [reflexivity|]. apply povmt_typed. now exists i.
Qed.
Theorem qpt_accepts_iff ns np ss : tomo_run Qpt ns np ss = TOk <-> Forall (class_shape Qpt ns np) ss.
Proof.
  rewrite tomo_run_ok_iff. apply Forall_iff. intros s. cbn [class_shape]. split.
  - intros (items & -> & H). apply qpt_typed in H. destruct H as (i & j & Hi & Hj & ->). now exists i, j.
  - intros (i & j & Hi & Hj & ->). eexists. split; [reflexivity|]. apply qpt_typed. now exists i, j.
Qed.
Theorem qmpt_accepts_iff ns np ss : tomo_run Qmpt ns np ss = TOk <-> Forall (class_shape Qmpt ns np) ss.
Proof.
  rewrite tomo_run_ok_iff. apply Forall_iff. intros s. cbn [class_shape]. split.
  - intros (items & -> & H). apply qmpt_typed in H. destruct H as (i & j & Hi & Hj & ->). now exists i, j.
  - intros (i & j & Hi & Hj & ->). eexists. split; [reflexivity|]. apply qmpt_typed. now exists i, j.
Qed.
(* ALL FOUR classes accept exactly the schedule lists of their own shape *)
Theorem tomo_accepts_iff_shape t ns np ss :
  tomo_construct t ns np (AList ss) = TOk <-> Forall (class_shape t ns np) ss.
Proof.
  cbn [tomo_construct]. destruct t; [apply qst_accepts_iff|apply povmt_accepts_iff|apply qpt_accepts_iff|apply qmpt_accepts_iff].
Qed.
Theorem tomo_accepts_shape t ns np ss : Forall (class_shape t ns np) ss -> tomo_construct t ns np (AList ss) = TOk.
Proof. apply tomo_accepts_iff_shape. Qed.
(* no IndexError escapes from a class guard any more: the guards of QST / POVMT / QPT are only reached with schedules the
   Experiment accepted (>= 2 items, last one a measurement), for which Python's short-circuit  or  stops before an index
   runs off the end, and QMPT's length test comes first.  (Before the repair [state i, mprocess 0] did escape with
   IndexError: Proofs/C20_PreFix.v.) *)
Lemma guard_one_no_index_error t items : order_ok items -> guard_one t items <> GIndexError.
Proof.
  intros (Hlen & _ & _ & (front & k & z & Hlast & Hk)).
  destruct items as [|[k0 z0] [|[k1 z1] [|[k2 z2] rest]]]; cbn in Hlen; try lia.
  - pose proof (last_pos _ _ _ Hlast) as [Hnth Hl]. cbn in Hl. injection Hl as Hl. rewrite <- Hl in Hnth. cbn in Hnth.
    injection Hnth as <- <-.
    unfold guard_one, len_ok, guard_core.
    destruct t, k0, k1; cbn; try discriminate; try (destruct (z0 =? 0)%Z; discriminate); try (destruct (z1 =? 0)%Z; discriminate);
      destruct Hk; discriminate.
  - unfold guard_one, len_ok, guard_core.
    destruct t, k0, k1, k2; cbn; try discriminate; try (destruct (z0 =? 0)%Z; discriminate); try (destruct (z1 =? 0)%Z; discriminate);
      destruct rest; cbn; try discriminate; destruct (z1 =? 0)%Z; discriminate.
Qed.
Theorem tomo_no_index_error t ns np ss i : tomo_construct t ns np (AList ss) <> TGuardIndexError i.
Proof.
  cbn [tomo_construct]. unfold tomo_run, tomo_run_with. set (c := class_cfg t ns np).
  destruct (validate_schedules c ss) eqn:E; try discriminate.
  apply experiment_accepts_iff in E. clearbody c. generalize 0%nat as i0. revert i.
  induction ss as [|s ss IH]; intros i i0; cbn; [discriminate|].
  inversion E as [|? ? Hs Hss]; subst. destruct Hs as (items & -> & Hr & Ho).
  fold (sched_of items). rewrite typed_of_sched_of by assumption.
  destruct (guard_one t items) eqn:G; [now apply IH|discriminate|].
  exfalso. revert G. now apply guard_one_no_index_error.
Qed.

(* ================================================================== schedules="all" and other strings *)
Lemma in_zseq n z : In z (zseq n) <-> (0 <= z < Z.of_nat n)%Z.
Proof.
  unfold zseq. rewrite in_map_iff. split.
  - intros (x & <- & Hx). apply in_seq in Hx. lia.
  - intros H. exists (Z.to_nat z). split; [lia|]. apply in_seq. lia.
Qed.
Theorem class_all_shape t ns np : Forall (class_shape t ns np) (class_all t ns np).
Proof.
  apply Forall_forall. intros s. destruct t; cbn [class_all class_shape].
  - rewrite in_map_iff. intros (j & <- & Hj). apply in_zseq in Hj. now exists j.
  - rewrite in_map_iff. intros (i & <- & Hi). apply in_zseq in Hi. now exists i.
  - rewrite in_flat_map. intros (i & Hi & H). rewrite in_map_iff in H. destruct H as (j & <- & Hj).
    apply in_zseq in Hi, Hj. now exists i, j.
  - rewrite in_flat_map. intros (i & Hi & H). rewrite in_map_iff in H. destruct H as (j & <- & Hj).
    apply in_zseq in Hi, Hj. now exists i, j.
Qed.
Theorem tomo_all_accepted t ns np : tomo_construct t ns np (AStr "all") = TOk.
Proof. cbn [tomo_construct String.eqb Ascii.eqb Bool.eqb]. apply (tomo_accepts_shape t ns np). apply class_all_shape. Qed.
(* the expansion is complete: every schedule of the class shape occurs in it *)
Theorem class_all_complete t ns np s : class_shape t ns np s -> In s (class_all t ns np).
Proof.
  destruct t; cbn [class_all class_shape].
  - intros (j & Hj & ->). apply in_map_iff. exists j. split; [reflexivity|now apply in_zseq].
  - intros (i & Hi & ->). apply in_map_iff. exists i. split; [reflexivity|now apply in_zseq].
  - intros (i & j & Hi & Hj & ->). apply in_flat_map. exists i. split; [now apply in_zseq|].
    apply in_map_iff. exists j. split; [reflexivity|now apply in_zseq].
  - intros (i & j & Hi & Hj & ->). apply in_flat_map. exists i. split; [now apply in_zseq|].
    apply in_map_iff. exists j. split; [reflexivity|now apply in_zseq].
Qed.
Theorem tomo_other_string t ns np s : s <> "all"%string -> tomo_construct t ns np (AStr s) = TStrValueError.
Proof. intros H. cbn [tomo_construct]. destruct (String.eqb_spec s "all"); [contradiction|reflexivity]. Qed.

(* ================================================================== the decidable shape predicate run by the harness *)
Lemma parse_item_iff v it : parse_item v = Some it <-> v = raw it.
Proof.
  split.
  - destruct v as [| | | |vs|]; cbn; try discriminate.
    destruct vs as [|[|s| | | |] [|[| |z| | |] [|x vs]]]; try discriminate.
    destruct (kind_of_name s) as [k|] eqn:E; [|discriminate]. intros [= <-]. apply kind_of_name_spec in E. now subst.
  - intros ->. destruct it as [k z]. unfold raw. cbn. now rewrite kind_of_name_name.
Qed.
Lemma parse_items_iff items t : parse_items items = Some t <-> items = map raw t.
Proof.
  revert t. induction items as [|v items IH]; intros t; cbn.
  - split; [intros [= <-]; reflexivity | destruct t; [reflexivity|discriminate]].
  - destruct (parse_item v) as [it|] eqn:E.
    + apply parse_item_iff in E. subst v. destruct (parse_items items) as [tr|] eqn:E2.
      * pose proof (proj1 (IH tr) eq_refl) as ->. split.
        -- intros [= <-]. reflexivity.
        -- intros H. apply cons_map_raw_inv in H. destruct H as (a & t' & -> & Ha & Ht).
           apply raw_inj in Ha. apply map_raw_inj in Ht. now subst.
      * split; [discriminate|]. intros H. apply cons_map_raw_inv in H. destruct H as (a & t' & -> & Ha & Ht).
        assert (X : None = Some t') by (now apply IH). discriminate.
    + split; [discriminate|]. intros H. apply cons_map_raw_inv in H. destruct H as (a & t' & -> & Ha & Ht).
      assert (X : parse_item v = Some a) by (now apply parse_item_iff). congruence.
Qed.
Lemma in_rangeb_iff c it : in_rangeb c it = true <-> in_range c it.
Proof. unfold in_rangeb, in_range. rewrite andb_true_iff, Z.leb_le, Z.ltb_lt. tauto. Qed.
Lemma forallb_in_rangeb c l : forallb (in_rangeb c) l = true <-> Forall (in_range c) l.
Proof. rewrite forallb_forall, Forall_forall. split; intros H x Hx; apply in_rangeb_iff; auto. Qed.

Lemma class_shape_typedb_iff t ns np items :
  class_shape_typedb t (class_cfg t ns np) items = true <-> class_shape t ns np (sched_of items).
Proof.
  unfold class_shape_typedb. rewrite andb_true_iff, forallb_in_rangeb. split.
  - intros [Hr Hm].
    destruct t; destruct items as [|[[] z0] [|[[] z1] [|[[] z2] [|x tail]]]]; try discriminate Hm;
      range_facts; apply Z.eqb_eq in Hm; subst; cbn [class_shape].
    + exists z1. split; [lia|reflexivity].
    + exists z0. split; [lia|reflexivity].
    + exists z0, z2. repeat split; try lia.
    + exists z0, z2. repeat split; try lia.
  - destruct t; cbn [class_shape].
    + intros (j & Hj & H). apply sched_of_inj in H. subst. split; [|reflexivity].
      range_list.
    + intros (i & Hi & H). apply sched_of_inj in H. subst. split; [|reflexivity].
      range_list.
    + intros (i & j & Hi & Hj & H). apply sched_of_inj in H. subst. split; [|reflexivity].
      range_list.
    + intros (i & j & Hi & Hj & H). apply sched_of_inj in H. subst. split; [|reflexivity].
      range_list.
Qed.
Theorem class_shapeb_iff t ns np s : class_shapeb t ns np s = true <-> class_shape t ns np s.
Proof.
  unfold class_shapeb. destruct s as [items|].
  - destruct (parse_items items) as [typed|] eqn:E.
    + apply parse_items_iff in E. subst. apply class_shape_typedb_iff.
    + split; [discriminate|]. intros H. exfalso.
      assert (X : exists t, SSeq items = sched_of t) by (destruct t; cbn in H; [destruct H as (j & _ & H)|destruct H as (j & _ & H)|destruct H as (i & j & _ & _ & H)|destruct H as (i & j & _ & _ & H)]; eauto).
      destruct X as (t' & [= X]). assert (Y : parse_items items = Some t') by (now apply parse_items_iff). congruence.
  - split; [discriminate|]. intros H. exfalso.
    destruct t; cbn in H; [destruct H as (j & _ & H)|destruct H as (j & _ & H)|destruct H as (i & j & _ & _ & H)|destruct H as (i & j & _ & _ & H)]; discriminate.
Qed.
