(* C11 — which inner product does the algorithm's projection belong to?  (generic ordered field, axiom-free)

   quara's physical projection  QOperation.calc_proj_physical_with_var  maps the variable to the stacked FULL vector
   (convert_var_to_stacked_vector, an affine map  v |-> L v + c), runs Dykstra's alternating projections there (Euclidean
   metric of the full vector) and maps the result back (convert_stacked_vector_to_var).  Seen from variable space this is the
   nearest-point map of the inner product  <x, M y>,  M = L^T L   ([C11_pullback_obtuse]).
     * State, Gate (any parametrisation), everything with on_para_eq_constraint=False:  M = I;  Povm with 2 outcomes and
       on_para_eq_constraint=True:  M = 2 I.  For M = c I the map is the Euclidean projection ([C11_scalar_metric_obtuse])
       and T1-T5 of Proofs/C11_Pgdb.v apply.
     * Povm with m >= 3 outcomes and on_para_eq_constraint=True:  M = (I + 1 1^T) (x) I  is NOT a multiple of I, while the
       algorithm steps along the EUCLIDEAN gradient.  Then only the weaker certificate  <M g, y> + mu <y, M y> <= 0  holds
       ([C11_descent_as_coded_metric]); y need not be a descent direction and the iteration can be stationary at a
       non-minimiser (Proofs/C11_Pgdb.v, section WrongMetric).
     * What a repair has to do: step along the gradient OF THE SAME inner product, h = M^-1 g.  Then descent direction,
       a-posteriori gap and "stationary => optimal" hold again ([C11_descent_direction_ip], [C11_gap_ip],
       [C11_stationary_optimal_ip]). *)
From Coq Require Import Arith List Bool Lia Field Ring Setoid.
From QV.Core Require Import OF Sums Mat.
From QV.Model Require Import C11_Pgdb.
From QV.Proofs Require Import C11_Pgdb.
Import ListNotations.

Section C11_MetricProofs.
Context (F : OF).
Add Field Ffm11 : (k_field F).
Notation "0" := (c0 F). Notation "1" := (c1 F).
Infix "+" := (cadd F). Infix "*" := (cmul F). Infix "<=" := (kle F). Infix "-" := (csub F).
Infix "/" := (kdiv F). Notation "- x" := (copp F x).
Notation vec := (@vec F).

(* ------------------------------------------------------------------ algebra of  <x, M y> *)
Lemma C11_ipM_ext n M (x x' y y' : vec) : veq n x x' -> veq n y y' -> C11_ipM F n M x y = C11_ipM F n M x' y'.
Proof. intros Hx Hy. unfold C11_ipM. apply dot_ext; [exact Hx|]. apply mv_ext; [apply meq_refl|exact Hy]. Qed.
Lemma C11_ipM_sym n M (x y : vec) : (forall i j, (i < n)%nat -> (j < n)%nat -> M i j = M j i) ->
  C11_ipM F n M x y = dot n (mv n M x) y.
Proof. intros Hs. unfold C11_ipM. rewrite dot_mv. apply dot_ext; [apply veq_refl|]. apply mv_ext; [|apply veq_refl].
  intros i j Hi Hj. unfold mT. now apply Hs. Qed.

(* the identity of Proofs/C11_Pgdb.v (C11_key_identity) with an arbitrary second argument w *)
Lemma C11_key_identity_w n mu (x hx p w : vec) : mu <> 0 ->
  mu * dot n (vsub (vsub x (C11_vdiv F hx mu)) p) w = - dot n hx w - mu * dot n (vsub p x) w.
Proof. intros Hmu. unfold dot, vsub, C11_vdiv.
  rewrite <- sumn_scale_l, <- sumn_opp, <- sumn_scale_l, <- sumn_sub.
  apply sumn_ext; intros i _. field. exact Hmu. Qed.

Section StepIp.
Variables (n : nat) (M : @mat F) (C : vec -> Prop) (P : vec -> vec) (f : vec -> F) (g h : vec -> vec) (mu : F).
Notation ip := (C11_ipM F n M).
Hypothesis Hmu0 : mu <> 0.
Hypothesis Hmu : 0 <= mu.
Hypothesis HP : C11_obtuse_ip F ip C P.
(* h is the gradient of f with respect to the inner product ip (h = M^-1 g):  <h x, M v> = <g x, v> *)
Hypothesis Hh : forall x v, ip (h x) v = dot n (g x) v.

(* for every z in C:   <g x, z - x - y>  >=  - mu <y, M (z - x - y)>      (y = P(x - h x/mu) - x) *)
Lemma C11_variational_ip x z : C z ->
  let y := C11_dir F P h mu x in
  - (mu * ip y (vsub (vsub z x) y)) <= dot n (g x) (vsub (vsub z x) y).
Proof. intros Cz y.
  set (p := P (vsub x (C11_vdiv F (h x) mu))).
  destruct (HP (vsub x (C11_vdiv F (h x) mu))) as [_ Hob]. specialize (Hob z Cz). fold p in Hob.
  pose proof (C11_mul_nonneg_nonpos F mu _ Hmu Hob) as A. unfold C11_ipM in A.
  rewrite C11_key_identity_w in A by exact Hmu0.
  assert (Hy : forall i, y i = p i - x i) by (intros; reflexivity).
  assert (Ez : veq n (vsub z p) (vsub (vsub z x) y)). { intros i _. unfold vsub. rewrite Hy. ring. }
  assert (E1 : dot n (h x) (mv n M (vsub z p)) = dot n (g x) (vsub (vsub z x) y)).
  { change (ip (h x) (vsub z p) = dot n (g x) (vsub (vsub z x) y)). rewrite Hh.
    apply dot_ext; [apply veq_refl|exact Ez]. }
  assert (E2 : dot n (vsub p x) (mv n M (vsub z p)) = ip y (vsub (vsub z x) y)).
  { change (ip (vsub p x) (vsub z p) = ip y (vsub (vsub z x) y)). apply C11_ipM_ext; [|exact Ez].
    intros i _. unfold vsub. rewrite Hy. reflexivity. }
  rewrite E1, E2 in A. apply (C11_le_by F _ _ _ _ A). ring. Qed.

(* T1 in the metric of the projection:  <g x, y> <= - mu <y, M y> *)
Lemma C11_descent_direction_ip x : C x ->
  let y := C11_dir F P h mu x in dot n (g x) y <= - (mu * ip y y).
Proof. intros Cx y. pose proof (C11_variational_ip x x Cx) as A. cbv zeta in A. fold y in A.
  assert (Ew : veq n (vsub (vsub x x) y) (vscale (- (1)) y)). { intros i _. unfold vsub, vscale. ring. }
  assert (E1 : ip y (vsub (vsub x x) y) = - ip y y).
  { rewrite (C11_ipM_ext n M _ y _ (vscale (- (1)) y) (veq_refl n y) Ew). unfold C11_ipM.
    rewrite (dot_ext n y y _ (vscale (- (1)) (mv n M y)) (veq_refl n y)).
    2:{ intros i _. apply mv_vscale. }
    rewrite C11_dot_vscale_r. ring. }
  assert (E2 : dot n (g x) (vsub (vsub x x) y) = - dot n (g x) y).
  { rewrite (dot_ext n _ (g x) _ (vscale (- (1)) y) (veq_refl n _) Ew), C11_dot_vscale_r. ring. }
  rewrite E1, E2 in A. apply (C11_le_by F _ _ _ _ A). ring. Qed.

(* T5 in the metric of the projection *)
Hypothesis Hconv : C11_first_order_convex F n f g.
Lemma C11_gap_ip x z : C z ->
  let y := C11_dir F P h mu x in
  dot n (g x) y - mu * ip y (vsub (vsub z x) y) <= f z - f x.
Proof. intros Cz y.
  pose proof (C11_variational_ip x z Cz) as A. cbv zeta in A. fold y in A.
  pose proof (Hconv x z) as B.
  assert (E : dot n (g x) (vsub z x) = dot n (g x) (vsub (vsub z x) y) + dot n (g x) y).
  { unfold dot, vsub. rewrite <- sumn_add. apply sumn_ext; intros; ring. }
  rewrite E in B.
  apply (C11_le_by2 F _ _ _ _ _ _ A B). ring. Qed.

(* T4 in the metric of the projection:  y = 0  =>  x minimises f over C *)
Lemma C11_stationary_optimal_ip x z : C z -> veq n (C11_dir F P h mu x) vzero -> f x <= f z.
Proof. intros Cz Hy. pose proof (C11_gap_ip x z Cz) as A. cbv zeta in A.
  assert (E1 : dot n (g x) (C11_dir F P h mu x) = 0).
  { rewrite (dot_ext n _ (g x) _ vzero (veq_refl n _) Hy). unfold dot, vzero. apply sumn_zero'. intros; ring. }
  assert (E2 : ip (C11_dir F P h mu x) (vsub (vsub z x) (C11_dir F P h mu x)) = 0).
  { unfold C11_ipM. rewrite (dot_ext n _ vzero _ _ Hy (veq_refl n _)). unfold dot, vzero. apply sumn_zero'. intros; ring. }
  rewrite E1, E2 in A. apply (proj2 (le_sub F _ _)).
  replace (0 - mu * 0) with 0 in A by ring. exact A. Qed.
End StepIp.

(* ------------------------------------------------------------------ the code as written: Euclidean gradient step, projection
   of the inner product <x, M y> (M symmetric).  The only per-step certificate that survives is the M-weighted one. *)
Lemma C11_descent_as_coded_metric n (M : @mat F) (C : vec -> Prop) (P : vec -> vec) (g : vec -> vec) (mu : F) :
  mu <> 0 -> 0 <= mu -> (forall i j, (i < n)%nat -> (j < n)%nat -> M i j = M j i) ->
  C11_obtuse_ip F (C11_ipM F n M) C P ->
  forall x, C x ->
  C11_descent_defect_metric F n M mu (g x) (C11_dir F P g mu x) <= 0.
Proof. intros Hmu0 Hmu Hs HP x Cx. unfold C11_descent_defect_metric. set (y := C11_dir F P g mu x).
  pose proof (C11_descent_direction_ip n M C P (fun v => mv n M (g v)) g mu Hmu0 Hmu HP) as A.
  specialize (A (fun x0 v => C11_ipM_sym n M (g x0) v Hs) x Cx). cbv zeta in A. fold y in A.
  apply (C11_le_by F _ _ _ _ A). ring. Qed.

(* ------------------------------------------------------------------ M = c I, c > 0: the projection IS the Euclidean one *)
Lemma C11_ipM_scalar n (M : @mat F) c (x y : vec) :
  (forall i j, (i < n)%nat -> (j < n)%nat -> M i j = if Nat.eqb i j then c else 0) ->
  C11_ipM F n M x y = c * dot n x y.
Proof. intros HM. unfold C11_ipM, dot at 1. rewrite (sumn_ext n _ (fun i => c * (x i * y i))).
  { unfold dot. now rewrite sumn_scale_l. }
  intros i Hi. unfold mv. rewrite (sumn_ext n _ (fun j => if Nat.eqb j i then c * y j else 0)).
  2:{ intros j Hj. rewrite (HM i j Hi Hj), (Nat.eqb_sym i j). destruct (Nat.eqb j i); ring. }
  rewrite (sumn_delta n i (fun j => c * y j)) by exact Hi. ring. Qed.
Lemma C11_scalar_metric_obtuse n (M : @mat F) c (C : vec -> Prop) (P : vec -> vec) :
  (forall i j, (i < n)%nat -> (j < n)%nat -> M i j = if Nat.eqb i j then c else 0) ->
  0 <= c -> c <> 0 ->
  C11_obtuse_ip F (C11_ipM F n M) C P -> C11_obtuse F n C P.
Proof. intros HM Hc Hc0 HP u. destruct (HP u) as [Cp Hob]. split; [exact Cp|]. intros z Cz.
  specialize (Hob z Cz). rewrite (C11_ipM_scalar n M c _ _ HM) in Hob.
  destruct (k_total F (dot n (vsub u (P u)) (vsub z (P u))) 0) as [G|G]; [exact G|].
  pose proof (k_mul F _ _ Hc G) as N.
  assert (E : c * dot n (vsub u (P u)) (vsub z (P u)) = 0) by (apply (k_antisym F); assumption).
  apply C11_le_refl_eq. replace (dot n (vsub u (P u)) (vsub z (P u))) with ((1 / c) * (c * dot n (vsub u (P u)) (vsub z (P u)))) by (field; exact Hc0).
  rewrite E. ring. Qed.

(* ------------------------------------------------------------------ projecting the stacked full vector and converting back:
   the induced map of variable space is the nearest-point map of  M = L^T L *)
Section Pullback.
Variables (N n : nat) (L : @mat F) (c : vec).
Notation C11_emb := (C11_emb F n L c).
Notation C11_metric_of := (C11_metric_of F N L).

Lemma C11_ip_metric_of (a b : vec) : C11_ipM F n C11_metric_of a b = dot N (mv n L a) (mv n L b).
Proof. unfold C11_ipM, C11_metric_of. rewrite (dot_mv N n L a (mv n L b)).
  apply dot_ext; [apply veq_refl|]. intros i _. apply mv_mmul. Qed.

Variables (C Cfull : vec -> Prop) (P Pfull : vec -> vec).
Hypothesis Hfull : C11_obtuse F N Cfull Pfull.                      (* Euclidean projection of the full vector *)
Hypothesis Hback : forall u, veq N (C11_emb (P u)) (Pfull (C11_emb u)).   (* P = convert back . Pfull . convert *)
Hypothesis HPC : forall u, C (P u).
Hypothesis HCfull : forall z, C z -> Cfull (C11_emb z).

Lemma C11_pullback_obtuse : C11_obtuse_ip F (C11_ipM F n C11_metric_of) C P.
Proof. intros u. split; [apply HPC|]. intros z Cz. rewrite C11_ip_metric_of.
  destruct (Hfull (C11_emb u)) as [_ Hob]. specialize (Hob (C11_emb z) (HCfull z Cz)).
  apply (C11_le_by F _ _ _ _ Hob).
  assert (E : dot N (mv n L (vsub u (P u))) (mv n L (vsub z (P u)))
              = dot N (vsub (C11_emb u) (Pfull (C11_emb u))) (vsub (C11_emb z) (Pfull (C11_emb u)))).
  { apply dot_ext; intros i Hi; rewrite mv_vsub; unfold vsub; rewrite <- (Hback u i Hi); unfold C11_emb; ring. }
  rewrite E. ring. Qed.
End Pullback.
End C11_MetricProofs.
