(* C03 — the eight index maps: each var->object map is a bijection from [0, num_variables) onto the free
   entries, its partner is the inverse, and the flat position of the image is the variable position plus
   the number of implied entries in front of it. *)
From Coq Require Import ZArith Bool List Lia.
From QV.Model Require Import C03_Index.
Local Open Scope Z_scope.

(* ---- Euclidean division facts in the shape used below *)
Lemma divmod_small n q r : 0 <= r < n -> (n * q + r) / n = q /\ (n * q + r) mod n = r.
Proof. intros H. split.
  - symmetry. apply (Z.div_unique_pos _ _ q r); lia.
  - symmetry. apply (Z.mod_unique_pos _ _ q r); lia. Qed.
Lemma divmod_range n k i : 0 < n -> 0 <= i < n * k ->
  0 <= i / n < k /\ 0 <= i mod n < n /\ i = n * (i / n) + i mod n.
Proof. intros Hn Hi. pose proof (Z.div_mod i n ltac:(lia)) as E. pose proof (Z.mod_pos_bound i n Hn) as B.
  repeat split; try lia.
  - apply Z.div_pos; lia.
  - apply Z.div_lt_upper_bound; lia. Qed.

(* ---------------------------------------------------------------- State *)
Lemma state_index_fwd d flag i : 0 <= i < nv_state d flag ->
  free_state d flag (state_index_of_var flag i) /\
  var_of_state_index flag (state_index_of_var flag i) = i /\
  flat_state (state_index_of_var flag i) = i + shift_state flag.
Proof. unfold nv_state, free_state, state_index_of_var, var_of_state_index, flat_state, shift_state.
  destruct flag; lia. Qed.
Lemma state_index_bwd d flag k : free_state d flag k ->
  0 <= var_of_state_index flag k < nv_state d flag /\
  state_index_of_var flag (var_of_state_index flag k) = k.
Proof. unfold nv_state, free_state, state_index_of_var, var_of_state_index. destruct flag; lia. Qed.

(* ---------------------------------------------------------------- Povm (size = d*d) *)
Lemma povm_index_fwd d m flag i : 0 < d -> 0 <= i < nv_povm d m flag ->
  free_povm d m flag (povm_index_of_var (d * d) i) /\
  var_of_povm_index (d * d) (povm_index_of_var (d * d) i) = i /\
  flat_povm d (povm_index_of_var (d * d) i) = i.
Proof. intros Hd Hi. set (n := d * d) in *. assert (Hn : 0 < n) by (unfold n; nia).
  unfold nv_povm in Hi. fold n in Hi. unfold free_povm, povm_index_of_var, var_of_povm_index, flat_povm. fold n.
  destruct flag.
  - destruct (divmod_range n (m - 1) i Hn ltac:(nia)) as (A & B & E). repeat split; lia.
  - destruct (divmod_range n m i Hn ltac:(nia)) as (A & B & E). repeat split; lia. Qed.
Lemma povm_index_bwd d m flag p : 0 < d -> free_povm d m flag p ->
  0 <= var_of_povm_index (d * d) p < nv_povm d m flag /\
  povm_index_of_var (d * d) (var_of_povm_index (d * d) p) = p.
Proof. intros Hd. destruct p as [x a]. set (n := d * d). assert (Hn : 0 < n) by (unfold n; nia).
  unfold free_povm, nv_povm, var_of_povm_index, povm_index_of_var. fold n. intros [Hx Ha].
  destruct (divmod_small n x a Ha) as [E1 E2]. rewrite E1, E2. split; [|reflexivity].
  destruct flag; nia. Qed.

(* ---------------------------------------------------------------- Gate *)
Lemma gate_index_fwd d flag i : 0 < d -> 0 <= i < nv_gate d flag ->
  free_gate d flag (gate_index_of_var d flag i) /\
  var_of_gate_index d flag (gate_index_of_var d flag i) = i /\
  flat_gate d (gate_index_of_var d flag i) = i + shift_gate d flag.
Proof. intros Hd Hi. set (n := d * d) in *. assert (Hn : 0 < n) by (unfold n; nia).
  unfold nv_gate in Hi. fold n in Hi.
  unfold free_gate, gate_index_of_var, var_of_gate_index, flat_gate, shift_gate. fold n.
  destruct flag.
  - destruct (divmod_range n (n - 1) i Hn ltac:(nia)) as (A & B & E). repeat split; try lia; nia.
  - destruct (divmod_range n n i Hn ltac:(nia)) as (A & B & E). repeat split; try lia; nia. Qed.
Lemma gate_index_bwd d flag p : 0 < d -> free_gate d flag p ->
  0 <= var_of_gate_index d flag p < nv_gate d flag /\
  gate_index_of_var d flag (var_of_gate_index d flag p) = p.
Proof. intros Hd. destruct p as [r c]. set (n := d * d). assert (Hn : 0 < n) by (unfold n; nia).
  unfold free_gate, nv_gate, var_of_gate_index, gate_index_of_var. fold n. intros [Hr Hc].
  destruct flag.
  - destruct (divmod_small n (r - 1) c Hc) as [E1 E2]. rewrite E1, E2. split; [nia|]. f_equal. lia.
  - destruct (divmod_small n r c Hc) as [E1 E2]. rewrite E1, E2. split; [nia|reflexivity]. Qed.

(* ---------------------------------------------------------------- MProcess *)
Lemma mproc_index_fwd d m flag i : 0 < d -> 0 <= i < nv_mproc d m flag ->
  free_mproc d m flag (mproc_index_of_var d m flag i) /\
  var_of_mproc_index d m flag (mproc_index_of_var d m flag i) = i /\
  flat_mproc d (mproc_index_of_var d m flag i) = i + shift_mproc d m flag i.
Proof. intros Hd Hi. set (n := d * d) in *. assert (Hn : 0 < n) by (unfold n; nia).
  unfold nv_mproc in Hi. fold n in Hi.
  unfold free_mproc, mproc_index_of_var, var_of_mproc_index, flat_mproc, shift_mproc. fold n.
  set (h := n * n) in *. assert (Hh : 0 < h) by (unfold h; nia).
  assert (Hi' : 0 <= i < h * m) by (destruct flag; nia).
  destruct (divmod_range h m i Hh Hi') as (A & B & E).
  set (x := i / h) in *. set (k := i mod h) in *.
  assert (Hk : 0 <= k < n * n) by (unfold h in B; lia).
  destruct (divmod_range n n k Hn Hk) as (A2 & B2 & E2).
  set (r := k / n) in *. set (c := k mod n) in *.
  destruct flag; cbn [andb].
  - destruct (Z.eqb_spec x (m - 1)) as [Ex|Ex].
    + assert (Hr : r < n - 1).
      { apply Z.div_lt_upper_bound; [lia|]. unfold h in *. nia. }
      repeat split; try lia; unfold h in *; nia.
    + repeat split; try lia; unfold h in *; nia.
  - repeat split; try lia; unfold h in *; nia. Qed.

Lemma mproc_index_bwd d m flag p : 0 < d -> free_mproc d m flag p ->
  0 <= var_of_mproc_index d m flag p < nv_mproc d m flag /\
  mproc_index_of_var d m flag (var_of_mproc_index d m flag p) = p.
Proof. intros Hd. destruct p as [[x r] c]. set (n := d * d). assert (Hn : 0 < n) by (unfold n; nia).
  unfold free_mproc, nv_mproc, var_of_mproc_index, mproc_index_of_var. fold n.
  set (h := n * n). assert (Hh : 0 < h) by (unfold h; nia). intros (Hx & Hr & Hc).
  destruct flag; cbn [andb] in *.
  - destruct (Z.eqb_spec x (m - 1)) as [Ex|Ex].
    + replace (x * h + r * n + c - n) with (h * x + (n * (r - 1) + c)) by (unfold h; ring).
      assert (Hk : 0 <= n * (r - 1) + c < h) by (unfold h; nia).
      destruct (divmod_small h x _ Hk) as [E1 E2]. rewrite E1, E2.
      destruct (divmod_small n (r - 1) c Hc) as [E3 E4]. rewrite E3, E4.
      rewrite (proj2 (Z.eqb_eq x (m - 1)) Ex). split; [unfold h in *; nia|]. repeat f_equal. lia.
    + replace (x * h + r * n + c) with (h * x + (n * r + c)) by ring.
      assert (Hk : 0 <= n * r + c < h) by (unfold h; nia).
      destruct (divmod_small h x _ Hk) as [E1 E2]. rewrite E1, E2.
      destruct (divmod_small n r c Hc) as [E3 E4]. rewrite E3, E4.
      rewrite (proj2 (Z.eqb_neq x (m - 1)) Ex). split; [unfold h in *; nia|reflexivity].
  - replace (x * h + r * n + c) with (h * x + (n * r + c)) by ring.
    assert (Hk : 0 <= n * r + c < h) by (unfold h; nia).
    destruct (divmod_small h x _ Hk) as [E1 E2]. rewrite E1, E2.
    destruct (divmod_small n r c Hc) as [E3 E4]. rewrite E3, E4. split; [unfold h in *; nia|reflexivity]. Qed.

(* injectivity is a consequence of having a left inverse; stated once, used for all four *)
Lemma left_inverse_injective {A B : Type} (f : A -> B) (g : B -> A) (P : A -> Prop) :
  (forall a, P a -> g (f a) = a) -> forall a a', P a -> P a' -> f a = f a' -> a = a'.
Proof. intros H a a' Pa Pa' E. rewrite <- (H a Pa), <- (H a' Pa'). now rewrite E. Qed.
