(* Marginalisation preserves total mass: summing the raw marginal over all retained multi-indices gives
   the sum of the whole tensor, for every shape (any rank, positive sizes) and every retained set.
   Rests on the nat-level row-major bijection digitsn / rowmajorn. Any OF. *)
From Coq Require Import List Arith Bool Lia Ring.
From QV.Core Require Import OF Sums.
From QV.Model Require Import Multinomial.
From QV.Proofs Require Import C16_Multinomial.
Import ListNotations.

Section Idx.
Fixpoint in_rangen (shape idx : list nat) : Prop :=
  match shape, idx with
  | [], [] => True
  | n :: t, x :: xs => x < n /\ in_rangen t xs
  | _, _ => False
  end.
Definition posn (shape : list nat) := Forall (fun n => 0 < n) shape.

Lemma prodn_cons n t : prodn (n :: t) = n * prodn t. Proof. reflexivity. Qed.
Lemma prodn_pos shape : posn shape -> 0 < prodn shape.
Proof. induction 1 as [|n t Hn _ IH]; [cbn; lia|]. rewrite prodn_cons. nia. Qed.

Lemma list_eqb_spec a : forall b, list_eqb a b = true <-> a = b.
Proof. induction a as [|x a IH]; intros [|y b]; cbn; try (split; [discriminate|discriminate]); [tauto|].
  rewrite andb_true_iff, Nat.eqb_eq, IH. split; [intros [-> ->]; reflexivity|intros H; inversion H; auto]. Qed.

Lemma digitsn_in_range shape k : posn shape -> in_rangen shape (digitsn shape k).
Proof. induction 1 as [|n t Hn _ IH]; cbn; [exact I|]. split; [apply Nat.mod_upper_bound; lia|exact IH]. Qed.

Lemma rowmajorn_bound shape : forall idx, in_rangen shape idx -> rowmajorn shape idx < prodn shape.
Proof. induction shape as [|n t IH]; intros [|x xs]; cbn [in_rangen rowmajorn]; try tauto; [cbn; lia|].
  intros [Hx Hr]. specialize (IH xs Hr). rewrite prodn_cons. nia. Qed.

Lemma in_rangen_pos shape : forall idx, in_rangen shape idx -> posn shape.
Proof. induction shape as [|n t IH]; intros [|x xs]; cbn; try tauto; [constructor|].
  intros [Hx Hr]. constructor; [lia|now apply (IH xs)]. Qed.

Lemma digitsn_add_mul sh : posn sh -> forall k c, digitsn sh (c * prodn sh + k) = digitsn sh k.
Proof. induction 1 as [|m u Hm Hu IHu]; intros k c; cbn [digitsn]; [reflexivity|].
  pose proof (prodn_pos u Hu) as Hpu. rewrite prodn_cons. f_equal.
  - replace (c * (m * prodn u) + k) with (k + (c * m) * prodn u) by ring. rewrite Nat.div_add by lia.
    rewrite Nat.add_comm. rewrite Nat.add_comm, Nat.mod_add by lia. reflexivity.
  - replace (c * (m * prodn u)) with ((c * m) * prodn u) by ring. apply IHu. Qed.

Lemma digitsn_rowmajorn shape : forall idx, in_rangen shape idx -> digitsn shape (rowmajorn shape idx) = idx.
Proof. induction shape as [|n t IH]; intros [|x xs]; cbn [in_rangen]; try tauto. intros [Hx Hr].
  pose proof (rowmajorn_bound t xs Hr) as Hb. cbn [rowmajorn digitsn]. f_equal.
  - rewrite Nat.div_add_l by lia. rewrite (Nat.div_small (rowmajorn t xs)) by lia. rewrite Nat.add_0_r. now apply Nat.mod_small.
  - rewrite <- (IH xs Hr) at 2. apply digitsn_add_mul. now apply (in_rangen_pos t xs). Qed.

Lemma rowmajorn_digitsn shape : posn shape -> forall k, k < prodn shape -> rowmajorn shape (digitsn shape k) = k.
Proof. induction 1 as [|n t Hn Ht IH]; intros k Hk. { cbn in *. lia. }
  pose proof (prodn_pos t Ht) as Hp. rewrite prodn_cons in Hk. cbn [digitsn rowmajorn].
  assert (Hq : k / prodn t < n) by (apply Nat.div_lt_upper_bound; lia).
  rewrite (Nat.mod_small (k / prodn t) n) by exact Hq.
  assert (E : digitsn t k = digitsn t (k mod prodn t)).
  { rewrite (Nat.div_mod_eq k (prodn t)) at 1. rewrite (Nat.mul_comm (prodn t)). now apply digitsn_add_mul. }
  rewrite E, IH by (apply Nat.mod_upper_bound; lia). rewrite (Nat.div_mod_eq k (prodn t)) at 3. lia. Qed.

Lemma select_in_range keep : forall shape idx, in_rangen shape idx ->
  in_rangen (select keep shape) (select keep idx).
Proof. induction keep as [|b m IH]; intros [|n t] [|x xs]; cbn; try tauto. intros [Hx Hr].
  destruct b; cbn; [split; [exact Hx|]|]; now apply IH. Qed.
End Idx.

Section Mass.
Context (F : OF).
Add Ring Frm : (c_ring F).
Notation "0" := (c0 F). Notation "1" := (c1 F).
Infix "+" := (cadd F). Infix "*" := (cmul F).

Lemma lsum_app (a b : list F) : lsum F (a ++ b) = lsum F a + lsum F b.
Proof. induction a as [|x a IH]; cbn [app]. { rewrite lsum_nil. ring. }
  rewrite !lsum_cons, IH. ring. Qed.

Lemma lsum_seq_sumn n (f : nat -> F) : lsum F (map f (seq 0 n)) = sumn n f.
Proof. induction n as [|n IH]; [reflexivity|]. rewrite seq_S, map_app, lsum_app, IH. cbn [map plus sumn].
  rewrite lsum_cons, lsum_nil. ring. Qed.

Theorem marg_raw_mass shape ps keep : posn shape ->
  lsum F (marg_raw F shape ps keep) = lsum F (map (fun k => nth k ps 0) (seq 0 (prodn shape))).
Proof. intros Hpos. unfold marg_raw. set (ns := select keep shape).
  rewrite lsum_seq_sumn, (lsum_seq_sumn (prodn shape)).
  rewrite (sumn_ext (prodn ns) _ (fun k' => sumn (prodn shape) (fun k =>
     if list_eqb (select keep (digitsn shape k)) (digitsn ns k') then nth k ps 0 else 0))).
  2:{ intros k' _. apply lsum_seq_sumn. }
  rewrite sumn_swap. apply sumn_ext. intros k Hk.
  pose proof (digitsn_in_range shape k Hpos) as Hd.
  pose proof (select_in_range keep shape _ Hd) as Hs. fold ns in Hs.
  set (j := rowmajorn ns (select keep (digitsn shape k))).
  assert (Hj : j < prodn ns) by now apply rowmajorn_bound.
  rewrite (sumn_ext (prodn ns) _ (fun k' => if Nat.eqb k' j then nth k ps 0 else 0)).
  2:{ intros k' Hk'. destruct (Nat.eqb_spec k' j) as [->|Hne].
      - unfold j. rewrite digitsn_rowmajorn by exact Hs.
        now rewrite (proj2 (list_eqb_spec _ _) eq_refl).
      - destruct (list_eqb _ _) eqn:E; [|reflexivity]. exfalso. apply Hne.
        apply list_eqb_spec in E. unfold j. rewrite E.
        symmetry. apply rowmajorn_digitsn; [|exact Hk']. now apply (in_rangen_pos ns _ Hs). }
  exact (sumn_delta (prodn ns) j (fun _ => nth k ps 0) Hj). Qed.
End Mass.
