(* C02 — reusable lemma library about the shared vocabulary Model/QObj.v (and its complex companions in Model/C02_Conv.v).
   One import for other properties:   From QV.Proofs Require Import C02_QObjLemmas.
   All lemmas: generic in  F : OF,  dimension d,  basis B;  hypotheses are the QObj predicates
   basis_orthonormal / basis_complete / basis_hermitian / hermitian;  axiom-free.  Every lemma takes F as FIRST explicit argument.

   part 1 (C02_QObjBase):  scalars cj_... zof_..., sums csum_..., hs_inner_... (ext, sum_l/r, conj_sym, herm_real, kron, trace),
     cvec_of_op_of_cvec / vec_of_op_of_vec (orthonormal), op_of_cvec_of_op / op_of_vec_of_op (complete), cvec_of_op_real,
     op_of_vec_hermitian, hs_inner_op_of_cvec / hs_inner_cvec_of_op (Parseval), born_hs_inner, linearity (op_of_*_add/scale/sum, ...),
     tensor basis bb_orthonormal / bb_complete / bb_hermitian / bbc_inner / bbc_hermitian,
     cchoi_as_op / chs_as_cvec, chs_of_cchoi / hs_of_choi_of_hs, cchoi_of_chs / choi_of_hs_of_choi, chs_of_choi_real,
     choi_of_hs_hermitian, cchoi_isometry / choi_frobenius / chs_isometry, linearity of HS <-> Choi.
   part 2 (C02_QObjMaps):  capply_hs_ext, apply_hs_capply, capply_hs_linear / _sum / _add_H / _scale_H, capply_hs_of_map (representation
     theorem), hs_of_map_capply, hs_of_map_compose, capply_hs_mmul, sandwich_ext/_sum/_linear, kraus_apply_linear / _hermitian, chs_of_kraus_as_map,
     capply_chs_of_kraus, chs_of_kraus_real, apply_hs_of_kraus (Kraus theorem), umat_adj / umat_unitary, convert_hs_as_map,
     capply_convert_hs, convert_hs_round_trip, convert_hs_add/scale/ext, convert_vec_as_cvec, op_of_convert_vec, convert_vec_round_trip,
     cchoi_convert_hs (Choi matrix is basis independent). *)
From QV.Proofs Require Export C02_QObjBase C02_QObjMaps.
