(* C08 -- QMPT: matA has num_variables columns and sum-of-outcome-count rows; Fisher-slice corollaries for POVMT / QMPT. Axiom-free. *)
From Coq Require Import Arith List Bool Lia.
From QV.Core Require Import OF Sums Mat Cplx.
From QV.Model Require Import QObj C08_Forward.
From QV.Proofs Require Import C08_Forward.
Import ListNotations.

Section C08Shape.
Context (F : OF).
Notation lvec := (lvec F).
Notation coeff := (coeff F).

Lemma pred_mul m w : (1 <= m)%nat -> ((m - 1) * w + w = m * w)%nat.
Proof. intros H. destruct m as [|m]; [lia|]. replace (S m - 1)%nat with m by lia. cbn [Nat.mul]. lia. Qed.
Lemma row_width_rect (rows : list lvec) w : rows <> [] -> (forall r, In r rows -> length r = w) -> row_width F rows = w.
Proof. destruct rows as [|r rows]; [congruence|]. intros _ H. apply H. now left. Qed.
Lemma block_diag_row_length k (rows : list lvec) w r' : (forall r, In r rows -> length r = w) ->
  (0 < k)%nat -> In r' (block_diag F k rows) -> length r' = (k * w)%nat.
Proof. intros Hw Hk Hin. rewrite (block_diag_pos F k rows Hk) in Hin. apply in_flat_map in Hin. destruct Hin as [x [Hx Hr]].
  apply in_seq in Hx. apply in_map_iff in Hr. destruct Hr as [r [<- Hr]].
  assert (rows <> []) by (intros E; rewrite E in Hr; destruct Hr).
  rewrite (row_width_rect rows w) by assumption. rewrite !app_length, !length_zeros, (Hw r Hr).
  replace (x * w + (w + (k - 1 - x) * w))%nat with ((x + 1 + (k - 1 - x)) * w)%nat by (rewrite !Nat.mul_add_distr_r, Nat.mul_1_l; lia).
  f_equal. lia. Qed.

(* every row of the QMPT coefficient block of one schedule has num_variables entries *)
Lemma cqpt_to_cqmpt_cols (para : bool) n m (C : list lvec) r : (0 < n)%nat -> ((if para then 2 else 1) <= m)%nat ->
  (forall c, In c C -> length c = (n * n)%nat) ->
  In r (fst (cqpt_to_cqmpt F para n m C)) -> length r = (if para then m * (n * n) - n else m * (n * n))%nat.
Proof. intros Hn Hm HC Hin. set (w := (n * n)%nat) in *. assert (Hnw : (n <= w)%nat) by (unfold w; rewrite <- (Nat.mul_1_r n) at 1; apply Nat.mul_le_mono_l; lia). clearbody w.
  destruct C as [|c0 C']. { destruct para; cbn in Hin.
    - rewrite (block_diag_pos F (m - 1) []) in Hin by lia. cbn [map] in Hin. rewrite flat_map_nil in Hin. cbn in Hin. destruct Hin.
    - rewrite (block_diag_pos F m []) in Hin by lia. cbn [map] in Hin. rewrite flat_map_nil in Hin. destruct Hin. }
  set (C := c0 :: C') in *. assert (HCne : C <> []) by discriminate.
  assert (Hrw : row_width F C = w) by (apply row_width_rect; assumption).
  unfold cqpt_to_cqmpt in Hin. destruct para; cbn [fst] in Hin; cbv iota in Hm.
  - rewrite Hrw in Hin. apply in_app_or in Hin. destruct Hin as [Hin|Hin].
    + apply in_map_iff in Hin. destruct Hin as [r0 [<- Hr0]]. rewrite app_length, length_zeros.
      rewrite (block_diag_row_length (m - 1) C w r0 HC) by (assumption || lia).
      rewrite <- (pred_mul m w) by lia. generalize ((m - 1) * w)%nat. intros; lia.
    + rewrite !map_map, map2_map_map in Hin. apply in_map_iff in Hin. destruct Hin as [c [<- Hc]].
      rewrite app_length, length_tile, app_length, map_length, firstn_length, length_zeros, skipn_length, (HC c Hc).
      rewrite Nat.min_l by exact Hnw. replace (n + (w - n))%nat with w by lia.
      rewrite <- (pred_mul m w) by lia. generalize ((m - 1) * w)%nat. intros; lia.
  - apply (block_diag_row_length m C w r HC); [lia|exact Hin]. Qed.

Theorem qmpt_shape d (para : bool) m (states : list lvec) (povms : list (list lvec)) (scheds : list (nat * nat)) :
  (0 < d)%nat -> ((if para then 2 else 1) <= m)%nat ->
  (forall ik, In ik scheds -> length (nth (fst ik) states []) = (d * d)%nat /\ forall pv, In pv (nth (snd ik) povms []) -> length pv = (d * d)%nat) ->
  exists dct, qmpt_coeffs F para (d * d) m states povms scheds = Some dct /\
    Forall (fun r => length r = qmpt_num_variables para d m) (calc_matA dct) /\
    length (calc_matA dct) = natsum (qmpt_counts F m povms scheds) /\ length (calc_vecB dct) = natsum (qmpt_counts F m povms scheds).
Proof. intros Hd Hm Hwf. assert (Hn : (0 < d * d)%nat) by (apply Nat.mul_pos_pos; exact Hd).
  destruct (qmpt_forward F d para m states povms scheds Hd Hm Hwf) as [dct [E1 E2]]. exists dct. split; [exact E1|].
  unfold qmpt_coeffs, qmpt_per_schedule in E1.
  destruct (all_some (map (fun ik => qmpt_rows F para (d * d) m (nth (fst ik) states []) (nth (snd ik) povms [])) scheds)) as [ps|] eqn:Eps; [|discriminate].
  injection E1 as <-.
  assert (Hlen : length (calc_matA (build_dict ps)) = length (calc_vecB (build_dict ps))) by apply length_AB_build.
  assert (Hrows : length (calc_matA (build_dict ps)) = natsum (qmpt_counts F m povms scheds)).
  { pose proof (f_equal (@length F) (E2 (fun _ => c0 F))) as E. unfold affine in E. rewrite length_map2, <- Hlen, Nat.min_id in E. rewrite E.
    rewrite length_concat_counts. f_equal. apply qmpt_counts_born. }
  split; [|split; [exact Hrows|now rewrite <- Hlen]].
  rewrite calc_matA_build. apply Forall_forall. intros r Hr. apply in_map_iff in Hr. destruct Hr as [cf [<- Hcf]].
  apply in_concat in Hcf. destruct Hcf as [rows [Hrows' Hcf]].
  (* rows is the block of some schedule *)
  assert (Hex : exists ik, In ik scheds /\ qmpt_rows F para (d * d) m (nth (fst ik) states []) (nth (snd ik) povms []) = Some rows).
  { clear - Eps Hrows'. revert ps Eps Hrows'. induction scheds as [|ik scheds IH]; intros ps Eps Hin; cbn in Eps.
    - injection Eps as <-. destruct Hin.
    - destruct (qmpt_rows F para (d * d) m (nth (fst ik) states []) (nth (snd ik) povms [])) as [r0|] eqn:E0; [|discriminate].
      destruct (all_some _) as [rs|] eqn:E1 in Eps; [|discriminate]. injection Eps as <-. destruct Hin as [<-|Hin].
      + exists ik. split; [now left|exact E0].
      + destruct (IH rs E1 Hin) as [ik' [H1 H2]]. exists ik'. split; [now right|exact H2]. }
  destruct Hex as [ik [Hik Hq]]. destruct (Hwf ik Hik) as [Hs Hp]. unfold qmpt_rows in Hq.
  destruct (length _ <=? length _)%nat in Hq; [|discriminate]. injection Hq as <-.
  destruct cf as [row b0]. apply in_combine_l in Hcf. cbn [fst].
  rewrite (cqpt_to_cqmpt_cols para (d * d) m (qpt_c_rows F (nth (fst ik) states []) (nth (snd ik) povms [])) row Hn Hm); [|
    |exact Hcf].
  - unfold qmpt_num_variables. destruct para; reflexivity.
  - intros c Hc. unfold qpt_c_rows in Hc. apply in_map_iff in Hc. destruct Hc as [pv [<- Hpv]]. rewrite length_outer_flat, Hs, (Hp pv Hpv). reflexivity. Qed.

(* Fisher-slice corollaries for the two remaining types *)
Theorem povmt_fisher_slice d para sd m (states : list lvec) (scheds : list nat) (v : rvec F) j : (0 < d)%nat -> (j < length scheds)%nat ->
  (forall i, In i scheds -> length (nth i states []) = (d * d)%nat) ->
  let dct := povmt_coeffs F para sd m states scheds in
  fisher_prob_dist F (calc_matA dct) (calc_vecB dct) v (povmt_counts m scheds) j = povmt_born F d para sd m (nth (nth j scheds O) states []) v.
Proof. intros Hd Hj Hwf dct. rewrite <- (povmt_counts_born F d para sd m states scheds v).
  rewrite (fisher_slice_ok F _ _ v (map (fun i => povmt_born F d para sd m (nth i states []) v) scheds) j).
  - rewrite (nth_map_lt _ _ O []) by exact Hj. reflexivity.
  - now apply povmt_forward.
  - now rewrite map_length. Qed.
Theorem qmpt_fisher_slice d (para : bool) m (states : list lvec) (povms : list (list lvec)) (scheds : list (nat * nat)) j :
  (0 < d)%nat -> ((if para then 2 else 1) <= m)%nat -> (j < length scheds)%nat ->
  (forall ik, In ik scheds -> length (nth (fst ik) states []) = (d * d)%nat /\ forall pv, In pv (nth (snd ik) povms []) -> length pv = (d * d)%nat) ->
  exists dct, qmpt_coeffs F para (d * d) m states povms scheds = Some dct /\
    forall v : rvec F, fisher_prob_dist F (calc_matA dct) (calc_vecB dct) v (qmpt_counts F m povms scheds) j
      = qmpt_born F d para m (nth (fst (nth j scheds (O, O))) states []) (nth (snd (nth j scheds (O, O))) povms []) v.
Proof. intros Hd Hm Hj Hwf. destruct (qmpt_forward F d para m states povms scheds Hd Hm Hwf) as [dct [E1 E2]]. exists dct. split; [exact E1|].
  intros v. rewrite <- (qmpt_counts_born F d para m states povms scheds v).
  rewrite (fisher_slice_ok F _ _ v (map (fun ik => qmpt_born F d para m (nth (fst ik) states []) (nth (snd ik) povms []) v) scheds) j).
  - rewrite (nth_map_lt _ _ (O, O) []) by exact Hj. reflexivity.
  - apply E2.
  - now rewrite map_length. Qed.
End C08Shape.
