(* C03 — SetQOperations over histories: queries leave no trace, every answer is the answer of the CURRENT contents, and the
   index theorems hold for the set as it is now, whatever was queried or edited before. *)
From Coq Require Import ZArith Bool List Arith Lia.
From QV.Core Require Import OF.
From QV.Model Require Import C03_Index C03_VarObj C03_SetQOps C03_SetHistory.
From QV.Proofs Require Import C03_SetQOps C03_Extra.
Import ListNotations.

Lemma Forall_firstn' {A : Type} (P : A -> Prop) (l : list A) : Forall P l -> forall i, Forall P (firstn i l).
Proof. induction 1 as [|x l Hx Hl IH]; intros [|i]; cbn; constructor; auto. Qed.
Lemma Forall_skipn' {A : Type} (P : A -> Prop) (l : list A) : Forall P l -> forall i, Forall P (skipn i l).
Proof. induction 1 as [|x l Hx Hl IH]; intros [|i]; cbn; auto. Qed.
Lemma Forall_replace_nth {A : Type} (P : A -> Prop) (x : A) (l : list A) : P x -> Forall P l -> forall i, Forall P (replace_nth i x l).
Proof. intros Px. induction 1 as [|y l Hy Hl IH]; intros [|i]; cbn; constructor; auto. Qed.
Lemma Forall_insert_nth {A : Type} (P : A -> Prop) (x : A) (l : list A) i : P x -> Forall P l -> Forall P (insert_nth i x l).
Proof. intros Px Hl. unfold insert_nth. apply Forall_app. split; [now apply Forall_firstn'|]. constructor; [exact Px|now apply Forall_skipn']. Qed.
Lemma Forall_remove_nth {A : Type} (P : A -> Prop) (l : list A) i : Forall P l -> Forall P (remove_nth i l).
Proof. intros Hl. unfold remove_nth. apply Forall_app. split; [now apply Forall_firstn'|now apply Forall_skipn']. Qed.

Section Hist.
Context (F : OF).
Implicit Types (s : setq F) (h : list (hop F)) (e : hop F).

Lemma hstep_query s e : is_edit F e = false -> hstep F s e = s.
Proof. destruct e; cbn; congruence. Qed.

(* queries leave no trace: the set reached by a history is the set reached by its edits alone *)
Theorem run_history_edits_only h : forall s, run_history F s h = run_history F s (filter (is_edit F) h).
Proof. unfold run_history. induction h as [|e h IH]; intros s; [reflexivity|]. cbn [fold_left filter].
  destruct (is_edit F e) eqn:E; cbn [fold_left]; [apply IH|]. rewrite (hstep_query s e E). apply IH. Qed.

Lemma transcript_app sdf h1 : forall s h2,
  transcript F sdf s (h1 ++ h2) = transcript F sdf s h1 ++ transcript F sdf (run_history F s h1) h2.
Proof. unfold run_history. induction h1 as [|e h1 IH]; intros s h2; [reflexivity|]. cbn. f_equal. apply IH. Qed.
Lemma transcript_length sdf h : forall s, length (transcript F sdf s h) = length h.
Proof. induction h as [|e h IH]; intros s; cbn; [reflexivity|]. now rewrite IH. Qed.

(* whatever was asked or edited before: the answer to q is the answer the CURRENT contents give, and the current contents
   are determined by the edits alone *)
Theorem answer_after_history sdf s h q :
  nth (length h) (transcript F sdf s (h ++ [q])) (ANone F) =
  answer_of F sdf (run_history F s (filter (is_edit F) h)) q.
Proof. rewrite transcript_app. rewrite app_nth2 by (rewrite transcript_length; lia).
  rewrite transcript_length, Nat.sub_diag. cbn. now rewrite <- run_history_edits_only. Qed.

Lemma ops_of_set_kind s k l k' : ops_of F (set_kind F s k l) k' = if kind_eqb k k' then l else ops_of F s k'.
Proof. destruct k, k'; reflexivity. Qed.
Lemma set_kind_wf s k l : setq_wf F s -> Forall (qop_wf F) l -> setq_wf F (set_kind F s k l).
Proof. intros W Hl k'. rewrite ops_of_set_kind. destruct (kind_eqb k k'); [exact Hl|apply W]. Qed.
Lemma hstep_wf s e : setq_wf F s -> hop_wf F e -> setq_wf F (hstep F s e).
Proof. intros W He. destruct e; cbn [hstep hop_wf] in *; try exact W; apply set_kind_wf; try exact W; try exact He.
  - apply Forall_replace_nth; [exact He|apply W].
  - apply Forall_insert_nth; [exact He|apply W].
  - apply Forall_remove_nth. apply W. Qed.
Theorem run_history_wf h : forall s, setq_wf F s -> Forall (hop_wf F) h -> setq_wf F (run_history F s h).
Proof. unfold run_history. induction h as [|e h IH]; intros s W Hh; [exact W|]. inversion Hh; subst. cbn. apply IH; [now apply hstep_wf|assumption]. Qed.

(* the index theorems for the set AS IT IS NOW *)
Theorem history_total_local_total s h t : let s' := run_history F s h in
  (0 <= t < size_total (sizes_of F s'))%Z ->
  exists k (i : nat) j, local_from_total (sizes_of F s') t = LOk k (Z.of_nat i) j /\ (i < length (ops_of F s' k))%nat /\
    (0 <= j < nth i (sizes_of F s' k) 0)%Z /\ total_from_local (sizes_of F s') k (Z.of_nat i) j = Some t.
Proof. intros s' Ht. destruct (total_local_total (sizes_of F s') t (sizes_of_nonneg F s') Ht) as (k & i & j & A & B & C & D).
  exists k, i, j. repeat split; try assumption; try lia. unfold sizes_of in B. now rewrite map_length in B. Qed.

Theorem history_points_at_entry s h k (i j : nat) dq : setq_wf F s -> Forall (hop_wf F) h ->
  let s' := run_history F s h in
  (i < length (ops_of F s' k))%nat -> (0 <= Z.of_nat j < qop_num_variables F (nth i (ops_of F s' k) dq))%Z ->
  exists t, total_from_local (sizes_of F s') k (Z.of_nat i) (Z.of_nat j) = Some t /\
            (0 <= t < size_total (sizes_of F s'))%Z /\
            local_from_total (sizes_of F s') t = LOk k (Z.of_nat i) (Z.of_nat j) /\
            nth (Z.to_nat t) (var_total F s') (c0 F) =
            nth (Z.to_nat (qop_flat_index F (nth i (ops_of F s' k) dq) (Z.of_nat j))) (qop_stacked F (nth i (ops_of F s' k) dq)) (c0 F).
Proof. intros W Hh s' Hi Hj. apply set_total_points_at_entry; try assumption. now apply run_history_wf. Qed.
End Hist.
