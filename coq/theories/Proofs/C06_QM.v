(* C06 — what the coefficient-level composition MEANS for operators: gate through its Kraus operators, Born rule,
   non-negativity and normalisation of Born probabilities, the POVM an instrument induces.
   Generic in the ordered field and in the matrix basis; hypotheses on the basis are the QObj predicates.  Axiom-free. *)
From Coq Require Import List Arith Bool Lia Ring Field.
From QV.Core Require Import OF Sums Mat Cplx Psd.
From QV.Model Require Import QObj HermEmbed C06_Compose C06_Spec.
Import ListNotations.

Section QM.
Context (F : OF).
Add Field Ffq : (k_field F).
Notation Cx := (CF F).
Add Ring Cxr : (c_ring Cx).
Notation CM := (cmat F).
Notation RM := (rmat F). Notation RV := (rvec F).
Notation "x +c y" := (cadd Cx x y) (at level 50, left associativity).
Notation "x *c y" := (cmul Cx x y) (at level 40, left associativity).
Notation c0' := (c0 Cx).

(* ---------------- complex scalars *)
Lemma fmul_comm (x y : F) : cmul F x y = cmul F y x. Proof. ring. Qed.
Lemma re_c0 : re (c0 Cx) = c0 F. Proof. reflexivity. Qed.
Lemma re_cadd (x y : Cx) : re (x +c y) = cadd F (re x) (re y). Proof. reflexivity. Qed.
Lemma re_zof_mul (v : F) (z : Cx) : re (zof v *c z) = cmul F v (re z).
Proof. cbn. ring. Qed.
Lemma im_zof_mul (v : F) (z : Cx) : im (zof v *c z) = cmul F v (im z).
Proof. cbn. ring. Qed.
Lemma zconj_c0 : zconj (c0 Cx) = c0 Cx. Proof. apply cplx_eq; cbn; ring. Qed.
Lemma zconj_c1 : zconj (c1 Cx) = c1 Cx. Proof. apply cplx_eq; cbn; ring. Qed.
Lemma zconj_cmul (a b : Cx) : zconj (a *c b) = zconj a *c zconj b. Proof. apply (zconj_mul F). Qed.
Lemma zconj_cadd (a b : Cx) : zconj (a +c b) = zconj a +c zconj b. Proof. apply (zconj_add F). Qed.
Lemma zof_re (z : Cx) : im z = c0 F -> zof (re z) = z.
Proof. intros H. apply cplx_eq; cbn; [reflexivity|now rewrite H]. Qed.

(* ---------------- Hilbert-Schmidt inner product: (conjugate-)linearity, symmetry *)
Lemma hs_inner_sum_r d (A : CM) m (c : nat -> Cx) (M : nat -> CM) :
  hs_inner d A (fun i j => sumn m (fun a => c a *c M a i j)) = sumn m (fun a => c a *c hs_inner d A (M a)).
Proof. unfold hs_inner.
  rewrite (sumn_ext d _ (fun i => sumn m (fun a => sumn d (fun j => c a *c (zconj (A i j) *c M a i j))))).
  2:{ intros i _. rewrite sumn_swap. apply sumn_ext; intros j _. rewrite <- sumn_scale_l. apply sumn_ext; intros; ring. }
  rewrite sumn_swap. apply sumn_ext; intros a _. rewrite <- sumn_scale_l. apply sumn_ext; intros i _.
  now rewrite <- sumn_scale_l. Qed.
Lemma hs_inner_sum_l d (X : CM) m (c : nat -> Cx) (M : nat -> CM) :
  hs_inner d (fun i j => sumn m (fun a => c a *c M a i j)) X = sumn m (fun a => zconj (c a) *c hs_inner d (M a) X).
Proof. unfold hs_inner.
  rewrite (sumn_ext d _ (fun i => sumn m (fun a => sumn d (fun j => zconj (c a) *c (zconj (M a i j) *c X i j))))).
  2:{ intros i _. rewrite sumn_swap. apply sumn_ext; intros j _. rewrite zconj_sumn, <- sumn_scale_r.
      apply sumn_ext; intros a _. rewrite zconj_cmul. ring. }
  rewrite sumn_swap. apply sumn_ext; intros a _. rewrite <- sumn_scale_l. apply sumn_ext; intros i _.
  now rewrite <- sumn_scale_l. Qed.
Lemma hs_inner_add_r d (A X Y : CM) : hs_inner d A (fun i j => X i j +c Y i j) = hs_inner d A X +c hs_inner d A Y.
Proof. unfold hs_inner. rewrite <- sumn_add. apply sumn_ext; intros i _. rewrite <- sumn_add. apply sumn_ext; intros; ring. Qed.
Lemma hs_inner_zero_r d (A : CM) : hs_inner d A (fun _ _ => c0 Cx) = c0 Cx.
Proof. unfold hs_inner. apply sumn_zero'. intros i _. apply sumn_zero'. intros; ring. Qed.
Lemma hs_inner_ext d (A A' X X' : CM) : meq d d A A' -> meq d d X X' -> hs_inner d A X = hs_inner d A' X'.
Proof. intros HA HX. unfold hs_inner. apply sumn_ext; intros i Hi. apply sumn_ext; intros j Hj. now rewrite HA, HX. Qed.
Lemma hs_inner_conj d (A X : CM) : zconj (hs_inner d A X) = hs_inner d X A.
Proof. unfold hs_inner. rewrite zconj_sumn. apply (@sumn_ext Cx); intros i _. rewrite zconj_sumn. apply (@sumn_ext Cx); intros j _.
  rewrite zconj_cmul, (zconj_conj F). ring. Qed.
Lemma re_hs_inner_sym d (A X : CM) : re (hs_inner d A X) = re (hs_inner d X A).
Proof. rewrite <- (hs_inner_conj d A X). reflexivity. Qed.

(* ---------------- sandwich K . K^dagger is linear *)
Lemma mmul_sum_r d (K : CM) m (c : nat -> Cx) (M : nat -> CM) i l :
  mmul d K (fun k l => sumn m (fun b => c b *c M b k l)) i l = sumn m (fun b => c b *c mmul d K (M b) i l).
Proof. unfold mmul.
  rewrite (sumn_ext d _ (fun k => sumn m (fun b => c b *c (K i k *c M b k l)))).
  2:{ intros k _. rewrite <- sumn_scale_l. apply sumn_ext; intros; ring. }
  rewrite sumn_swap. apply sumn_ext; intros b _. now rewrite sumn_scale_l. Qed.
Lemma mmul_sum_l d (L : CM) m (c : nat -> Cx) (M : nat -> CM) i j :
  mmul d (fun i k => sumn m (fun b => c b *c M b i k)) L i j = sumn m (fun b => c b *c mmul d (M b) L i j).
Proof. unfold mmul.
  rewrite (sumn_ext d _ (fun k => sumn m (fun b => c b *c (M b i k *c L k j)))).
  2:{ intros k _. rewrite <- sumn_scale_r. apply sumn_ext; intros; ring. }
  rewrite sumn_swap. apply sumn_ext; intros b _. now rewrite sumn_scale_l. Qed.
Lemma sandwich_sum d (K L : CM) m (c : nat -> Cx) (M : nat -> CM) i j :
  mmul d (mmul d K (fun k l => sumn m (fun b => c b *c M b k l))) L i j
  = sumn m (fun b => c b *c mmul d (mmul d K (M b)) L i j).
Proof. rewrite <- (mmul_sum_l d L m c (fun b => mmul d K (M b)) i j).
  unfold mmul at 1 3. apply sumn_ext; intros k _. f_equal. apply mmul_sum_r. Qed.

(* ---------------- a gate acts on a state through its Kraus operators *)
Lemma re_sumn' m (f : nat -> Cx) : re (sumn m f) = sumn m (fun i => re (f i)). Proof. apply (re_sumn F). Qed.

Lemma chs_of_kraus_cons d B K Ks a b :
  chs_of_kraus d B (K :: Ks) a b = hs_inner d (B a) (mmul d (mmul d K (B b)) (cadj K)) +c chs_of_kraus d B Ks a b.
Proof. reflexivity. Qed.

Lemma kraus1_vec d (B : nat -> CM) (K : CM) (v : RV) a :
  sumn (d * d) (fun b => cmul F (re (hs_inner d (B a) (mmul d (mmul d K (B b)) (cadj K)))) (v b))
  = re (hs_inner d (B a) (mmul d (mmul d K (op_of_vec d B v)) (cadj K))).
Proof. unfold op_of_vec.
  rewrite (hs_inner_ext d (B a) (B a) _ (fun i j => sumn (d * d) (fun b => zof (v b) *c mmul d (mmul d K (B b)) (cadj K) i j))).
  2:{ apply meq_refl. } 2:{ intros i j _ _. apply sandwich_sum. }
  rewrite hs_inner_sum_r, re_sumn'. apply sumn_ext; intros b _. rewrite re_zof_mul. apply fmul_comm. Qed.

Theorem gate_on_state_kraus d (B : nat -> CM) (Ks : list CM) (v : RV) a :
  gate_state F (d * d) (hs_of_kraus d B Ks) v a = vec_of_op d B (kraus_apply F d Ks (op_of_vec d B v)) a.
Proof. unfold gate_state, mv, hs_of_kraus, vec_of_op. induction Ks as [|K Ks IH].
  - cbn [chs_of_kraus kraus_apply fold_right]. rewrite hs_inner_zero_r. rewrite re_c0.
    apply sumn_zero'. intros b _. cbn. ring.
  - rewrite (sumn_ext (d * d) _ (fun b => cadd F (cmul F (re (hs_inner d (B a) (mmul d (mmul d K (B b)) (cadj K)))) (v b))
                                              (cmul F (re (chs_of_kraus d B Ks a b)) (v b)))).
    2:{ intros b _. rewrite chs_of_kraus_cons, re_cadd. ring. }
    rewrite sumn_add, IH, kraus1_vec. unfold kraus_apply. cbn [fold_right].
    rewrite <- re_cadd, <- hs_inner_add_r. reflexivity. Qed.
(* ---------------- Born rule:  <p, s> on coefficient vectors = Re tr(Pi^dagger rho)  for an orthonormal basis *)
Theorem born_is_trace d (B : nat -> CM) (p s : RV) : basis_orthonormal d B ->
  born d p s = op_inner F d (op_of_vec d B p) (op_of_vec d B s).
Proof. intros Ho. unfold born, op_inner, op_of_vec, dot.
  rewrite hs_inner_sum_l, re_sumn'. apply sumn_ext; intros a Ha.
  rewrite hs_inner_sum_r.
  rewrite (@sumn_ext Cx (d * d) _ (fun b => if Nat.eqb b a then (zof (s b) : Cx) else c0 Cx)).
  2:{ intros b Hb. rewrite (Ho a b Ha Hb), Nat.eqb_sym. destruct (Nat.eqb b a); ring. }
  rewrite sumn_delta by exact Ha. rewrite (zconj_zof F). cbn. ring. Qed.

(* ---------------- the real symmetric embedding: symmetry, Frobenius inner product *)
Lemma embed_symmetric d (H : CM) : hermitian d H -> symmetric F (d + d) (embed F d H).
Proof. intros Hh i j Hi Hj. unfold embed.
  destruct (Nat.ltb_spec i d) as [Li|Li], (Nat.ltb_spec j d) as [Lj|Lj].
  - rewrite (Hh i j Li Lj). reflexivity.
  - rewrite (Hh i (j - d)%nat) by lia. cbn. ring.
  - rewrite (Hh (i - d)%nat j) by lia. cbn. ring.
  - rewrite (Hh (i - d)%nat (j - d)%nat) by lia. reflexivity. Qed.

Lemma ltb_add_false' d i : (d + i <? d)%nat = false. Proof. apply Nat.ltb_ge. lia. Qed.
Lemma inner_embed d (A X : CM) :
  inner (d + d) (d + d) (embed F d A) (embed F d X) = cadd F (op_inner F d A X) (op_inner F d A X).
Proof. unfold inner, op_inner, hs_inner. rewrite sumn_app, !re_sumn', <- !sumn_add. apply sumn_ext; intros i Hi.
  rewrite !sumn_app, !re_sumn', <- !sumn_add. apply sumn_ext; intros j Hj.
  unfold embed. rewrite !ltb_add_false'. replace (d + i - d)%nat with i by lia. replace (d + j - d)%nat with j by lia.
  rewrite (proj2 (Nat.ltb_lt i d) Hi), (proj2 (Nat.ltb_lt j d) Hj).
  destruct (A i j) as [a b], (X i j) as [x y]. cbn. ring. Qed.

Lemma half_nonneg (x : F) : kle F (c0 F) (cadd F x x) -> kle F (c0 F) x.
Proof. intros H. destruct (k_total F (c0 F) x) as [G|G]; [exact G|].
  assert (E : cadd F x x = c0 F).
  { apply (k_antisym F); [|exact H]. replace (c0 F) with (cadd F (c0 F) (c0 F)) by ring. now apply le_add_compat. }
  destruct (keqb F x (c0 F)) eqn:Ex. { apply keqb_spec in Ex. rewrite Ex. apply k_refl. }
  exfalso. apply (double_neq0 F x); [|exact E]. intros E0. rewrite E0 in Ex.
  unfold keqb in Ex. rewrite (proj2 (k_leb F _ _) (k_refl F (c0 F))) in Ex. discriminate. Qed.

(* tr(Pi rho) >= 0 for PSD operands *)
Theorem op_inner_nonneg d (P R : CM) : cpsd F d P -> cpsd F d R -> kle F (c0 F) (op_inner F d P R).
Proof. intros [HP PP] [HR PR]. apply half_nonneg. rewrite <- inner_embed.
  apply psd_inner_nonneg; auto using embed_symmetric. Qed.

Theorem born_nonneg d (B : nat -> CM) (p s : RV) : basis_orthonormal d B ->
  cpsd F d (op_of_vec d B p) -> cpsd F d (op_of_vec d B s) -> kle F (c0 F) (born d p s).
Proof. intros Ho Hp Hs. rewrite (born_is_trace d B p s Ho). now apply op_inner_nonneg. Qed.

(* ---------------- normalisation:  sum_x Pi_x = I  =>  sum_x <Pi_x, rho> = tr rho *)
Definition vsum (P : list RV) : RV := fun a => fold_right (fun p acc => cadd F (p a) acc) (c0 F) P.
Definition lsumF (l : list F) : F := fold_right (cadd F) (c0 F) l.
Lemma born_sum_vsum n (P : list RV) (s : RV) : lsumF (born_list F n P s) = dot n (vsum P) s.
Proof. unfold lsumF, born_list, vsum. induction P as [|p P IH]; cbn [map fold_right].
  - unfold dot. symmetry. apply sumn_zero'. intros; ring.
  - rewrite IH. unfold dot. rewrite <- sumn_add. apply sumn_ext; intros; ring. Qed.
(* the coefficient vector of the identity is (sd, 0, ..., 0) when B_0 = I / sd *)
Definition id_vec (sd : F) : RV := fun a => if Nat.eqb a 0 then sd else c0 F.
Theorem born_sums_to_trace_coeff n (sd : F) (P : list RV) (s : RV) : (0 < n)%nat ->
  veq n (vsum P) (id_vec sd) -> lsumF (born_list F n P s) = cmul F sd (s 0%nat).
Proof. intros Hn HI. rewrite born_sum_vsum. unfold dot.
  rewrite (sumn_ext n _ (fun a => if Nat.eqb a 0 then cmul F sd (s a) else c0 F)).
  2:{ intros a Ha. rewrite (HI a Ha). unfold id_vec. destruct (Nat.eqb a 0); ring. }
  now rewrite sumn_delta. Qed.

(* tr B_a = sd * delta_{a0} *)
Lemma hs_inner_id_trace d (X : CM) : hs_inner d (fun i j => if Nat.eqb i j then c1 Cx else c0 Cx) X = mtrace d X.
Proof. unfold hs_inner, mtrace. apply sumn_ext; intros i Hi.
  rewrite (sumn_ext d _ (fun j => if Nat.eqb j i then X i j else c0 Cx)).
  2:{ intros j _. rewrite Nat.eqb_sym. destruct (Nat.eqb j i); [rewrite zconj_c1|rewrite zconj_c0]; ring. }
  now rewrite sumn_delta. Qed.
Lemma scaled_B0_inner d sd (B : nat -> CM) (X : CM) : basis_0th_identity d sd B ->
  mtrace d X = zof sd *c hs_inner d (B 0%nat) X.
Proof. intros H0. rewrite <- hs_inner_id_trace. unfold hs_inner.
  rewrite <- sumn_scale_l. apply sumn_ext; intros i Hi. rewrite <- sumn_scale_l. apply sumn_ext; intros j Hj.
  rewrite <- (H0 i j Hi Hj). rewrite zconj_cmul, (zconj_zof F). ring. Qed.
Lemma trace_basis d sd (B : nat -> CM) a : (0 < d)%nat -> (a < d * d)%nat -> basis_orthonormal d B -> basis_0th_identity d sd B ->
  mtrace d (B a) = if Nat.eqb a 0 then zof sd else c0 Cx.
Proof. intros Hd Ha Ho H0. rewrite (scaled_B0_inner d sd B (B a) H0).
  assert (H0n : (0 < d * d)%nat) by nia.
  rewrite (Ho 0%nat a H0n Ha), Nat.eqb_sym. destruct (Nat.eqb a 0); ring. Qed.
(* tr(rho) = sd * s_0 *)
Theorem trace_of_state d sd (B : nat -> CM) (s : RV) : (0 < d)%nat -> basis_orthonormal d B -> basis_0th_identity d sd B ->
  ctr F d (op_of_vec d B s) = cmul F sd (s 0%nat).
Proof. intros Hd Ho H0. unfold ctr, mtrace, op_of_vec. rewrite sumn_swap.
  rewrite (@sumn_ext Cx (d * d) _ (fun a => if Nat.eqb a 0 then (zof (s a) : Cx) *c zof sd else c0 Cx)).
  2:{ intros a Ha. rewrite sumn_scale_l. change (sumn d (fun i => B a i i)) with (mtrace d (B a)).
      rewrite (trace_basis d sd B a Hd Ha Ho H0). destruct (Nat.eqb a 0); ring. }
  rewrite sumn_delta by nia. cbn. ring. Qed.
Theorem born_sums_to_trace d sd (B : nat -> CM) (P : list RV) (s : RV) : (0 < d)%nat ->
  basis_orthonormal d B -> basis_0th_identity d sd B -> veq (d * d) (vsum P) (id_vec sd) ->
  lsumF (born_list F (d * d) P s) = ctr F d (op_of_vec d B s).
Proof. intros Hd Ho H0 HI. rewrite (trace_of_state d sd B s Hd Ho H0). apply born_sums_to_trace_coeff; [nia|exact HI]. Qed.

(* ---------------- the POVM an instrument element induces, and the probability rule sd * (HS v)_0 *)
Lemma mtrace_mmul_hs d (A X : CM) : mtrace d (mmul d A X) = hs_inner d (cadj A) X.
Proof. unfold mtrace, mmul, hs_inner, cadj. rewrite sumn_swap. apply sumn_ext; intros i _. apply sumn_ext; intros j _.
  rewrite (zconj_conj F). ring. Qed.
Lemma cadj_gram d (K : CM) : meq d d (cadj (mmul d (cadj K) K)) (mmul d (cadj K) K).
Proof. intros i j _ _. unfold cadj, mmul. rewrite zconj_sumn. apply (@sumn_ext Cx); intros k _.
  rewrite zconj_cmul, (zconj_conj F). ring. Qed.
Lemma trace_sandwich d (K X : CM) : mtrace d (mmul d (mmul d K X) (cadj K)) = hs_inner d (mmul d (cadj K) K) X.
Proof. rewrite mtrace_cyclic.
  rewrite (mtrace_ext d _ (mmul d (mmul d (cadj K) K) X)) by (intros i j _ _; symmetry; apply mmul_assoc).
  rewrite mtrace_mmul_hs. apply hs_inner_ext; [apply cadj_gram|apply meq_refl]. Qed.
Lemma sd_re_B0 d sd (B : nat -> CM) (Y : CM) : basis_0th_identity d sd B ->
  cmul F sd (re (hs_inner d (B 0%nat) Y)) = re (mtrace d Y).
Proof. intros H0. rewrite (scaled_B0_inner d sd B Y H0), re_zof_mul. reflexivity. Qed.

(* MProcess.to_povm on an instrument element given by Kraus operators is the coefficient vector of sum K^dagger K *)
Theorem to_povm_kraus d sd (B : nat -> CM) (Ks : list CM) b : basis_0th_identity d sd B ->
  cmul F sd (hs_of_kraus d B Ks 0%nat b) = vec_of_op d B (kraus_effect F d Ks) b.
Proof. intros H0. unfold hs_of_kraus, vec_of_op. induction Ks as [|K Ks IH].
  - cbn [chs_of_kraus kraus_effect fold_right]. rewrite hs_inner_zero_r, re_c0. ring.
  - rewrite chs_of_kraus_cons, re_cadd. unfold kraus_effect. cbn [fold_right].
    rewrite hs_inner_add_r, re_cadd.
    change (fun i j : nat => fold_right (fun (K0 : CM) (acc : Cx) => mmul d (cadj K0) K0 i j +c acc) c0' Ks) with (kraus_effect F d Ks).
    rewrite <- IH.
    rewrite (re_hs_inner_sym d (B b)). rewrite <- trace_sandwich, <- (sd_re_B0 d sd B _ H0). ring. Qed.

(* probability of an outcome = trace of the un-normalised post-measurement operator sum K rho K^dagger *)
Theorem mproc_prob_is_trace d sd (B : nat -> CM) (Ks : list CM) (v : RV) : basis_0th_identity d sd B ->
  cmul F sd (gate_state F (d * d) (hs_of_kraus d B Ks) v 0%nat) = ctr F d (kraus_apply F d Ks (op_of_vec d B v)).
Proof. intros H0. rewrite gate_on_state_kraus. unfold vec_of_op, ctr. now apply sd_re_B0. Qed.

End QM.
