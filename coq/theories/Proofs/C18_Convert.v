(* C18 — change of basis (gate.convert_hs), trace preservation of the generated HS matrix (first row zero),
   sparse tables = slow formulas, verdict specifications, and the nearest-PSD-point certificate used for the
   inequality projection.  Generic in the ordered field; axiom-free. *)
From Coq Require Import Field Ring Setoid Arith Lia Bool List.
From QV.Core Require Import OF Sums Mat Cplx Psd.
From QV.Model Require Import QObj HermEmbed C18_Lindblad.
From QV.Proofs Require Import C18_Algebra C18_Misc C18_Action C18_Extract C18_Rebuild.
Import ListNotations.

Section Convert.
Context (F : OF).
Add Field Ffv : (k_field F).
Notation Cx := (CF F).
Add Ring Crv : (c_ring Cx).
Notation cmat := (cmat F).
Notation rmat := (rmat F).
Notation rvec := (rvec F).
Notation "x +c y" := (cadd Cx x y) (at level 50, left associativity).
Notation "x *c y" := (cmul Cx x y) (at level 40, left associativity).
Notation "x -c y" := (csub Cx x y) (at level 50, left associativity).
Notation "0c" := (c0 Cx).
Notation "1c" := (c1 Cx).

Variable d : nat.
Hypothesis Hd : (0 < d)%nat.
Variable B : nat -> cmat.
Notation n := (d * d)%nat.
Notation m := (d * d - 1)%nat.
Notation U := (Umat d B).

(* ---------------------------------------------------------------- HS entries as inner products  <B_a, L(B_b)> *)
Lemma cadj_U t b : cadj U t b = vecr d (B b) t.
Proof. unfold cadj, Umat. apply cj_cj. Qed.
Lemma chs_as_inner (L : cmat) a b :
  chs_of_cb d B L a b = sumn n (fun s => zconj (vecr d (B a) s) *c mv n L (vecr d (B b)) s).
Proof. unfold chs_of_cb, mmul, mv.
  rewrite (sumn_ext n _ (fun t => sumn n (fun s => zconj (vecr d (B a) s) *c (L s t *c vecr d (B b) t)))).
  2:{ intros t _. rewrite cadj_U. rewrite <- sumn_scale_r. apply (@sumn_ext Cx); intros s _. unfold Umat. ring. }
  rewrite sumn_swap. apply (@sumn_ext Cx); intros s _. now rewrite sumn_scale_l. Qed.

(* ---------------------------------------------------------------- first row of the generated HS matrix *)
Variable sd : F.
Hypothesis H0 : basis_0th_identity d sd B.
Hypothesis Hsd : cmul F sd sd = ofnat d.

Lemma row0_as_trace (L : cmat) b :
  zof sd *c chs_of_cb d B L 0%nat b = mtrace d (apply_cb d L (B b)).
Proof. rewrite chs_as_inner. rewrite <- sumn_scale_l. rewrite sumn_flat. unfold mtrace.
  apply (@sumn_ext Cx); intros i Hi.
  rewrite (sumn_ext d _ (fun j => if Nat.eqb j i then mv n L (vecr d (B b)) (i * d + j)%nat else 0c)).
  2:{ intros j Hj. unfold vecr at 1. destruct (divmod_flat i j d Hj) as [-> ->].
      replace (zof sd *c (zconj (B 0%nat i j) *c mv n L (vecr d (B b)) (i * d + j)%nat))
        with (zconj (zof sd *c B 0%nat i j) *c mv n L (vecr d (B b)) (i * d + j)%nat) by (rewrite cj_mul, cj_zof; ring).
      rewrite (H0 i j Hi Hj). rewrite (Nat.eqb_sym j i). destruct (Nat.eqb i j); [rewrite cj_1|rewrite cj_0]; ring. }
  rewrite (sumn_delta d i (fun j => mv n L (vecr d (B b)) (i * d + j)%nat) Hi). reflexivity. Qed.

Lemma zof_sd_cancel (x : Cx) : zof sd *c x = 0c -> x = 0c.
Proof. intros E. pose proof (sd_neq0 F d Hd sd Hsd) as Hs.
  assert (E1 : (zof (kdiv F (c1 F) sd) : Cx) *c zof sd = 1c) by (apply cplx_eq; cbn; field; exact Hs).
  replace x with ((zof (kdiv F (c1 F) sd) *c zof sd) *c x) by (rewrite E1; ring).
  replace (zof (kdiv F (c1 F) sd) *c zof sd *c x) with (zof (kdiv F (c1 F) sd) *c (zof sd *c x)) by ring.
  rewrite E. ring. Qed.

(* the HS matrix of every generator built from a Hermitian H and a Hermitian K has a vanishing first row: it is judged TP
   with tolerance 0, for every K (PSD or not) *)
Theorem gen_hk_first_row_zero (H K : cmat) : hermitian d H -> hermitian m K ->
  forall b, chs_of_cb d B (lcb_hk d B H K) 0%nat b = 0c.
Proof. intros HH HK b. apply zof_sd_cancel. rewrite row0_as_trace. now apply lcb_hk_trace_annihilating. Qed.
Corollary gen_hk_is_tp (H K : cmat) : hermitian d H -> hermitian m K ->
  is_tp_dec F n (c0 F) (cre (chs_of_cb d B (lcb_hk d B H K))) = true.
Proof. intros HH HK. apply is_tp_dec_zero. intros b _. unfold cre. now rewrite gen_hk_first_row_zero. Qed.

(* ---------------------------------------------------------------- convert there and back (needs completeness of the basis) *)
Hypothesis Hcomp : basis_complete d B.
Lemma flat_eqb s t : (s < n)%nat -> (t < n)%nat ->
  (Nat.eqb (t / d) (s / d) && Nat.eqb (t mod d) (s mod d)) = Nat.eqb s t.
Proof. intros Hs Ht. pose proof (Nat.div_mod_eq s d). pose proof (Nat.div_mod_eq t d).
  destruct (Nat.eqb_spec s t) as [->|Hne]. { now rewrite !Nat.eqb_refl. }
  destruct (Nat.eqb_spec (t / d) (s / d)) as [E1|]; [|reflexivity].
  destruct (Nat.eqb_spec (t mod d) (s mod d)) as [E2|]; [|reflexivity]. exfalso. apply Hne. congruence. Qed.
Lemma UdU : meq n n (mmul n (cadj U) U) mid.
Proof. intros s t Hs Ht. unfold mmul.
  rewrite (sumn_ext n _ (fun a => zconj (zconj (B a (s / d)%nat (s mod d)%nat) *c B a (t / d)%nat (t mod d)%nat) : Cx)).
  2:{ intros a _. rewrite cadj_U. unfold Umat, vecr. rewrite cj_mul, cj_cj. reflexivity. }
  rewrite <- cj_sum.
  assert (A1 : (s / d < d)%nat /\ (s mod d < d)%nat) by (split; [apply Nat.div_lt_upper_bound; lia|apply Nat.mod_upper_bound; lia]).
  assert (A2 : (t / d < d)%nat /\ (t mod d < d)%nat) by (split; [apply Nat.div_lt_upper_bound; lia|apply Nat.mod_upper_bound; lia]).
  rewrite (Hcomp (s / d)%nat (s mod d)%nat (t / d)%nat (t mod d)%nat) by tauto.
  rewrite (flat_eqb t s Ht Hs). unfold mid. rewrite (Nat.eqb_sym t s).
  destruct (Nat.eqb s t); [apply cj_1|apply cj_0]. Qed.

Lemma mmul_row_ext k (A A' X : cmat) i j : (forall l, (l < k)%nat -> A i l = A' i l) -> mmul k A X i j = mmul k A' X i j.
Proof. intros H. unfold mmul. apply (@sumn_ext Cx); intros l Hl. now rewrite H. Qed.
Lemma mmul_col_ext k (A X X' : cmat) i j : (forall l, (l < k)%nat -> X l j = X' l j) -> mmul k A X i j = mmul k A X' i j.
Proof. intros H. unfold mmul. apply (@sumn_ext Cx); intros l Hl. now rewrite H. Qed.

Theorem cb_of_chs_of_cb (L : cmat) : meq n n (cb_of_chs d B (chs_of_cb d B L)) L.
Proof. intros s t Hs Ht. unfold cb_of_chs, chs_of_cb.
  assert (A1 : forall i j, (i < n)%nat -> mmul n (cadj U) (mmul n U L) i j = L i j).
  { intros i j Hi. rewrite <- mmul_assoc. rewrite (mmul_row_ext n _ mid L i j) by (intros l Hl; now apply UdU).
    now apply mmul_id_l. }
  assert (A2 : forall i j, (i < n)%nat -> mmul n (cadj U) (mmul n (mmul n U L) (cadj U)) i j = mmul n L (cadj U) i j).
  { intros i j Hi. rewrite <- mmul_assoc. apply mmul_row_ext. intros l Hl. now apply A1. }
  rewrite (mmul_row_ext n _ (mmul n L (cadj U)) U s t) by (intros l Hl; now apply A2).
  rewrite mmul_assoc. rewrite (mmul_col_ext n L _ mid s t) by (intros l Hl; now apply UdU).
  now apply mmul_id_r. Qed.

(* an object's stored real HS matrix converts back to the generator it was built from, provided the complex conversion had
   no imaginary part left (which _truncate_hs checks at run time: error branch 4 of the model) *)
Corollary cb_of_hs_real_image (L : cmat) (HS : rmat) :
  (forall a b, (a < n)%nat -> (b < n)%nat -> zof (HS a b) = chs_of_cb d B L a b) -> meq n n (cb_of_hs d B HS) L.
Proof. intros Hre s t Hs Ht. rewrite <- (cb_of_chs_of_cb L s t Hs Ht). unfold cb_of_hs, cb_of_chs.
  apply mmul_row_ext. intros l Hl. apply mmul_col_ext. intros q Hq. unfold cof. now apply Hre. Qed.
End Convert.
